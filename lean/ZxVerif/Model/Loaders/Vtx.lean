/-
C15 — loaders are total. Part 4 of the model: `vtx::Vtx::load` and `Player::new`.

  vtx/src/lib.rs      Vtx::load: fixed header, string scan loop, strings re-read, frame buffer
  vtx/src/player.rs   Player::new: samples_per_frame = sample_rate / player_frequency

The reader is any `std::io::Read + Seek`; it is the same `Asset` (a `read` that may deliver less
than asked, fail, and answer `Ok(0)` at the end). `std::io::Read::read_exact` is the same loop
as `LoadableAsset::read_exact`. The LH5 decoder (`delharc`) is a parameter: `lha = some produced`,
the number of bytes it can deliver from the compressed tail before it fails, or `none` when the
decoder itself panics on the tail (it does for some inputs; not rustzx code).
-/
import ZxVerif.Model.Loaders.Asset
namespace ZxVerif.Loaders

def READ_STRING_BUFFER_SIZE : Nat := 256
def VTX_DECODE_CHUNK : Nat := 65536

def stopIf (c : Bool) (o : Outcome) : M Unit := if c then stopM o else pure ()

/-- one `reader.read(&mut buf)?` -/
def readM (want : Nat) : M Nat := fun s =>
  match s.a.read want with
  | (.ok n, a') => .val n { s with a := a' }
  | (.error _, a') => .stop (.err .vtxIo) { s with a := a' }

/-- `reader.read_exact(..)?` / byteorder's `read_u8/u16/u32` -/
def vtxReadExact (n : Nat) (k : ErrKind := .vtxIo) : M Nat := fun s =>
  match s.a.readExact n with
  | (.ok (), a') => .val s.a.pos { s with a := a' }
  | (.error _, a') => .stop (.err k) { s with a := a' }

def vtxSeek (w : SeekFrom) : M Nat := fun s =>
  match s.a.seek w with
  | (.ok p, a') => .val p { s with a := a' }
  | (.error _, a') => .stop (.err .vtxIo) { s with a := a' }

/-- first index in `[from, bound)` at which `f` is zero -/
def findZero (f : Nat → Nat) (start bound : Nat) : Option Nat :=
  (List.range' start (bound - start)).find? fun i => f i = 0

/-- the inner `while current_buffer_bytes_count < bytes_read` loop over one buffer.
`buf i` is the 256-byte buffer (zero beyond `bytesRead`); `bound` is where the search for NUL
ends: 256 in the code as it stands (the whole buffer), `bytesRead` in the repaired code. -/
def scanBuffer (buf : Nat → Nat) (bytesRead bound : Nat) : Nat → Nat → Nat → Nat × Nat
  | 0, cur, nulls => (cur, nulls)
  | fuel + 1, cur, nulls =>
    if cur < bytesRead then
      match findZero buf cur bound with
      | some i =>
        let nulls := nulls + 1
        let cur := i + 1
        if nulls = 5 then (cur, nulls) else scanBuffer buf bytesRead bound fuel cur nulls
      | none => (bytesRead, nulls)
    else (cur, nulls)

/-- the outer `while null_terminators_read != 5` loop; returns `strings_block_size` -/
def scanStrings (fx : Fix) : Nat → Nat → Nat → M Nat
  | 0, _, _ => stopM .hang
  | fuel + 1, size, nulls =>
    if nulls = 5 then pure size else do
      tick
      let a ← getAsset
      let base := a.pos
      let n ← readM READ_STRING_BUFFER_SIZE
      if n = 0 then
        -- nothing read: size and count are unchanged and so is the loop condition
        if fx .vtxSpin then failM .vtxHeader
        else do
          let a' ← getAsset
          -- every further read answers Ok(0) again unless the script still holds a failure
          if a'.sc.readFails.all (· < a'.reads) then stopM .hang
          else scanStrings fx fuel size nulls
      else
        let buf := fun i => if i < n then a.u8 (base + i) else 0
        let bound := if fx .vtxScan then n else READ_STRING_BUFFER_SIZE
        let (cur, nulls') := scanBuffer buf n bound READ_STRING_BUFFER_SIZE 0 nulls
        scanStrings fx fuel (size + cur) nulls'

def countZeros (a : Asset) (off n : Nat) : Nat :=
  ((List.range n).filter fun i => a.u8 (off + i) = 0).length

/-- `Vtx::load` followed by `Player::new` (the construction every user of a loaded file performs) -/
def vtxLoad (fx : Fix) (lha : Option Nat) : M Unit := do
  let produced := lha.getD 0
  let m ← vtxReadExact 2 .vtxHeader
  let a ← getAsset
  let magic := a.window m 2
  guardM (decide (magic ≠ [0x61, 0x79] ∧ magic ≠ [0x79, 0x6D])) .vtxHeader
  let s ← vtxReadExact 1
  guardM (decide (6 < a.u8 s)) .vtxHeader
  let _ ← vtxReadExact 2
  let _ ← vtxReadExact 4
  let p ← vtxReadExact 1
  let pf := a.u8 p
  let _ ← vtxReadExact 2
  let d ← vtxReadExact 4
  let claim := a.le32 d
  guardM (decide (claim % 14 ≠ 0)) .vtxHeader
  -- repaired code refuses a player frequency of 0 here
  guardM (fx .vtxPlayerFreq && decide (pf = 0)) .vtxHeader
  let stringsStart ← vtxSeek (.current 0)
  let a1 ← getAsset
  let fuel := a1.len + a1.sc.readFails.foldl max 0 + 3
  let size ← scanStrings fx fuel 0 0
  let _ ← vtxSeek (.start stringsStart)
  check fx .vtxArith (size = 0) .vtxHeader
  alloc (size - 1)
  let b ← vtxReadExact (size - 1)
  let z ← vtxReadExact 1
  guardM (decide (a.u8 z ≠ 0)) .vtxHeader
  -- strings_buffer.split(0): one piece more than there are NULs
  tick
  check fx .vtxStrings (countZeros a b (size - 1) + 1 ≠ 5) .vtxHeader
  -- frame buffer: the whole declared size at once / grown while the decoder delivers
  alloc (if fx .vtxAlloc then 2 * (min claim produced + VTX_DECODE_CHUNK) else claim)
  tick
  stopIf (lha.isNone && decide (0 < claim)) (.panic .vtxLha)
  guardM (decide (produced < claim)) .vtxDecompress
  alloc claim
  tick
  -- Player::new
  stopIf (decide (pf = 0)) (.panic .vtxPlayerFreq)

end ZxVerif.Loaders
