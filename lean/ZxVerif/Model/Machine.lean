/-
Model of the Spectrum machine around the CPU (C04, C05, C06, C07):
  rustzx-core/src/zx/machine/{mod.rs,specs.rs}  SPECS_48K / SPECS_128K, contention_clocks,
                                                port_is_contended, bank_is_contended
  rustzx-core/src/zx/memory.rs                  ZXMemory (map, read, write, remap)
  rustzx-core/src/zx/controller.rs              write_7ffd, do_contention, io_contention_first/last,
                                                wait_internal/wait_mreq, new_frame, int_active,
                                                read_io / write_io decoding, floating_bus_value
Hand transcription; tied to the code by the C04–C07 correspondence checks. Core Lean only.
Not modelled here: tape, screen/border rendering, sound (other models); they do not feed back
into clock, memory map or port decoding.
-/
namespace ZxVerif.Machine

inductive Kind | k48 | k128
  deriving DecidableEq, Repr, Inhabited

def Kind.is128 : Kind → Bool | .k128 => true | .k48 => false

/-- the fields of `ZXSpecs` that the modelled code reads -/
structure Specs where
  clocksFirstPixel : Nat
  clocksLine : Nat
  clocksScreenRow : Nat
  linesScreen : Nat
  clocksFrame : Nat
  interruptLength : Nat
  pattern : List Nat
  deriving Repr

/-- `SPECS_48K` / `SPECS_128K` after `build()`:
line = 24+128+24+48 = 224 (128K: 24+128+24+52 = 228);
frame = (48+192+48 + 24) * 224 = 69888 (128K: (48+192+48 + 23) * 228 = 70908). -/
def Kind.specs : Kind → Specs
  | .k48 => { clocksFirstPixel := 14336, clocksLine := 224, clocksScreenRow := 128,
              linesScreen := 192, clocksFrame := 69888,
              interruptLength := 32, pattern := [6, 5, 4, 3, 2, 1, 0, 0] }
  | .k128 => { clocksFirstPixel := 14362, clocksLine := 228, clocksScreenRow := 128,
               linesScreen := 192, clocksFrame := 70908,
               interruptLength := 32, pattern := [6, 5, 4, 3, 2, 1, 0, 0] }

/-- the derivation of line and frame length from the builder arguments in machine/mod.rs -/
theorem Kind.specs_derivation :
    24 + 128 + 24 + 48 = 224 ∧ (48 + 192 + 48 + 24) * 224 = 69888 ∧
    24 + 128 + 24 + 52 = 228 ∧ (48 + 192 + 48 + 23) * 228 = 70908 := by decide

/-- `ZXMachine::contention_clocks` -/
def contentionClocks (m : Kind) (clocks : Nat) : Nat :=
  let s := m.specs
  if clocks < s.clocksFirstPixel - 1 ∨
     clocks ≥ (s.clocksFirstPixel - 1) + s.linesScreen * s.clocksLine then 0
  else
    let through := (clocks - (s.clocksFirstPixel - 1)) % s.clocksLine
    if through ≥ s.clocksScreenRow then 0
    else s.pattern.getD (through % 8) 0

/-- `ZXMachine::port_is_contended`: every even port -/
def portIsContended (port : BitVec 16) : Bool := port &&& 1 = 0

/-- `ZXMachine::bank_is_contended` -/
def bankIsContended (m : Kind) (bank : Nat) : Bool :=
  match m with
  | .k48 => bank = 0
  | .k128 => bank = 1 ∨ bank = 3 ∨ bank = 5 ∨ bank = 7

/-! ### Memory -/

inductive Page
  | ram (n : Nat)
  | rom (n : Nat)
  deriving DecidableEq, Repr, Inhabited

def pageSize : Nat := 16 * 1024

/-- `ZXMemory`: contents by (page, offset); `map` has four 16K slots -/
structure Mem where
  rom : Nat → Nat → BitVec 8
  ram : Nat → Nat → BitVec 8
  map : Nat → Page
  romPages : Nat
  ramPages : Nat

/-- `ZXMemory::new` for the machine (`RomType::K16/RamType::K48` or `K32/K128`) -/
def Mem.new (m : Kind) : Mem :=
  match m with
  | .k48 => { rom := fun _ _ => 0, ram := fun _ _ => 0, romPages := 1, ramPages := 3,
              map := fun b => match b with | 0 => .rom 0 | 1 => .ram 0 | 2 => .ram 1 | _ => .ram 2 }
  | .k128 => { rom := fun _ _ => 0, ram := fun _ _ => 0, romPages := 2, ramPages := 8,
               map := fun b => match b with | 0 => .rom 0 | 1 => .ram 5 | 2 => .ram 2 | _ => .ram 0 }

/-- `paged_address` -/
def Mem.pagedAddress (mem : Mem) (addr : BitVec 16) : Page × Nat :=
  (mem.map (addr.toNat / pageSize), addr.toNat % pageSize)

/-- `get_page` -/
def Mem.getPage (mem : Mem) (addr : BitVec 16) : Page := mem.map (addr.toNat / pageSize)

def Mem.read (mem : Mem) (addr : BitVec 16) : BitVec 8 :=
  match mem.pagedAddress addr with
  | (.rom p, off) => mem.rom p off
  | (.ram p, off) => mem.ram p off

def Mem.write (mem : Mem) (addr : BitVec 16) (v : BitVec 8) : Mem :=
  match mem.pagedAddress addr with
  | (.ram p, off) => { mem with ram := fun p' o' => if p' = p ∧ o' = off then v else mem.ram p' o' }
  | (.rom _, _) => mem

/-- Outcome of `remap`: the Rust code panics on a page that does not exist. -/
def Mem.remap (mem : Mem) (block : Nat) (page : Page) : Option Mem :=
  match page with
  | .ram p => if p + 1 > mem.ramPages then none
              else some { mem with map := fun b => if b = block then page else mem.map b }
  | .rom p => if p + 1 > mem.romPages then none
              else some { mem with map := fun b => if b = block then page else mem.map b }

/-- `rom_page_data_mut(page).copy/read_exact` as used by `load_rom` -/
def Mem.loadRomPage (mem : Mem) (page : Nat) (data : Nat → BitVec 8) : Mem :=
  { mem with rom := fun p o => if p = page then data o else mem.rom p o }

/-! ### Controller: clock, paging, contention -/

structure Ctl where
  kind : Kind
  mem : Mem
  frameClocks : Nat := 0
  passedFrames : Nat := 0
  pagingEnabled : Bool
  screenBank : Nat
  port7ffd : BitVec 8 := 0
  /-- set when the Rust code would have panicked (never happens, see C06 `remap_in_bounds`) -/
  panicked : Bool := false

/-- `ZXController::new` -/
def Ctl.new (m : Kind) : Ctl :=
  match m with
  | .k48 => { kind := m, mem := Mem.new m, pagingEnabled := false, screenBank := 0 }
  | .k128 => { kind := m, mem := Mem.new m, pagingEnabled := true, screenBank := 5 }

/-- `write_7ffd` -/
def Ctl.write7ffd (c : Ctl) (v : BitVec 8) : Ctl :=
  if !c.pagingEnabled then c
  else
    match c.mem.remap 3 (.ram (v &&& 0x07).toNat) with
    | none => { c with panicked := true }
    | some m1 =>
      match m1.remap 0 (.rom ((v >>> 4) &&& 0x01).toNat) with
      | none => { c with panicked := true }
      | some m2 =>
        { c with
          port7ffd := v
          mem := m2
          screenBank := if v &&& 0x08 = 0 then 5 else 7
          pagingEnabled := if v &&& 0x20 ≠ 0 then false else c.pagingEnabled }

/-- `new_frame` (the clock part) followed by `passed_frames += 1` -/
def Ctl.waitInternal (c : Ctl) (clk : Nat) : Ctl :=
  if c.frameClocks + clk ≥ c.kind.specs.clocksFrame then
    { c with frameClocks := c.frameClocks + clk - c.kind.specs.clocksFrame,
             passedFrames := c.passedFrames + 1 }
  else { c with frameClocks := c.frameClocks + clk }

/-- `addr_is_contended` -/
def Ctl.addrIsContended (c : Ctl) (addr : BitVec 16) : Bool :=
  match c.mem.getPage addr with
  | .ram bank => bankIsContended c.kind bank
  | .rom _ => false

/-- `do_contention` -/
def Ctl.doContention (c : Ctl) : Ctl :=
  c.waitInternal (contentionClocks c.kind c.frameClocks)

/-- `do_contention_and_wait` -/
def Ctl.doContentionAndWait (c : Ctl) (w : Nat) : Ctl :=
  c.waitInternal (contentionClocks c.kind c.frameClocks + w)

/-- `wait_mreq` (= `wait_no_mreq`) -/
def Ctl.waitMreq (c : Ctl) (addr : BitVec 16) (clk : Nat) : Ctl :=
  let c := if c.addrIsContended addr then c.doContention else c
  c.waitInternal clk

/-- `wait_loop` of the bus trait: `clk` single-T `wait_no_mreq` calls -/
def Ctl.waitLoop (c : Ctl) (addr : BitVec 16) : Nat → Ctl
  | 0 => c
  | n + 1 => (c.waitMreq addr 1).waitLoop addr n

/-- `io_contention_first` -/
def Ctl.ioContentionFirst (c : Ctl) (port : BitVec 16) : Ctl :=
  let c := if c.addrIsContended port then c.doContention else c
  c.waitInternal 1

/-- `io_contention_last` -/
def Ctl.ioContentionLast (c : Ctl) (port : BitVec 16) : Ctl :=
  if portIsContended port then c.doContentionAndWait 2
  else if c.addrIsContended port then
    ((c.doContentionAndWait 1).doContentionAndWait 1).doContention
  else c.waitInternal 2

/-- clock effect of a whole port cycle: `read_io`/`write_io` call first, last, then 1 T -/
def Ctl.ioCycle (c : Ctl) (port : BitVec 16) : Ctl :=
  ((c.ioContentionFirst port).ioContentionLast port).waitInternal 1

/-- `int_active` -/
def Ctl.intActive (c : Ctl) : Bool :=
  c.frameClocks % c.kind.specs.clocksFrame < c.kind.specs.interruptLength

/-- `read_internal` -/
def Ctl.readInternal (c : Ctl) (addr : BitVec 16) : BitVec 8 := c.mem.read addr

/-- `write_internal` (memory part) -/
def Ctl.writeInternal (c : Ctl) (addr : BitVec 16) (v : BitVec 8) : Ctl :=
  { c with mem := c.mem.write addr v }

/-! ### Port decoding (C07) -/

structure IoCfg where
  kind : Kind
  kempston : Bool
  mouse : Bool
  /-- does the host extender claim this port? (a parameter: the host's predicate) -/
  extender : Bool
  deriving DecidableEq, Repr

inductive ReadDev | extender | ula | mouseButtons | mouseX | mouseY | ay | kempston | floating
  deriving DecidableEq, Repr

inductive WriteDev | extender | aySelect | ayData | ula | paging | none
  deriving DecidableEq, Repr

/-- the `if … else if …` chain of `read_io` -/
def readDecode (cfg : IoCfg) (port : BitVec 16) : ReadDev :=
  if cfg.extender then .extender
  else if port &&& 0x0001 = 0 then .ula
  else if cfg.mouse && (port &&& 0x0121 = 0x0001) then .mouseButtons
  else if cfg.mouse && (port &&& 0x0521 = 0x0101) then .mouseX
  else if cfg.mouse && (port &&& 0x0521 = 0x0501) then .mouseY
  else if port &&& 0xC002 = 0xC000 then .ay
  else if cfg.kempston && (port &&& 0x00E0 = 0) then .kempston
  else .floating

/-- the `if … else if …` chain of `write_io` -/
def writeDecode (cfg : IoCfg) (port : BitVec 16) : WriteDev :=
  if cfg.extender then .extender
  else if port &&& 0xC002 = 0xC000 then .aySelect
  else if port &&& 0xC002 = 0x8000 then .ayData
  else if port &&& 0x0001 = 0 then .ula
  else if (port &&& 0x8002 = 0) && cfg.kind.is128 then .paging
  else .none

/-- `bitmap_line_addr` -/
def bitmapLineAddr (line : Nat) : Nat :=
  0x4000 ||| ((line <<< 5) &&& 0x1800) ||| ((line <<< 8) &&& 0x0700) ||| ((line <<< 2) &&& 0x00E0)

/-- `floating_bus_value`: `none` = 0xFF (ULA idle), `some a` = the byte at CPU address `a` -/
def floatingBusAddr (m : Kind) (frameClocks : Nat) : Option Nat :=
  let s := m.specs
  if frameClocks < s.clocksFirstPixel + 2 then none
  else
    let clocks := frameClocks - (s.clocksFirstPixel + 2)
    let row := clocks / s.clocksLine
    let clocks := clocks % s.clocksLine
    let col := (clocks / 8) * 2 + (clocks % 8) / 2
    if row < 192 ∧ clocks < s.clocksScreenRow - 4 ∧ (clocks &&& 0x04) = 0 then
      if clocks % 2 = 0 then some (bitmapLineAddr row + col)
      else some (0x5800 + (row / 8) * 32 + col)
    else none

def Ctl.floatingBusValue (c : Ctl) : BitVec 8 :=
  match floatingBusAddr c.kind c.frameClocks with
  | none => 0xFF
  | some a => c.mem.read (BitVec.ofNat 16 a)

end ZxVerif.Machine
