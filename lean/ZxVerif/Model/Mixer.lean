/-
Model of the sound mixer and of its coupling to emulated time (C19):
  rustzx-core/src/zx/sound/mixer.rs    ZXMixer::{process, new_frame, pop, gen_sample, samples_per_frame}
  rustzx-core/src/zx/sound/beeper.rs   ZXBeeper (ear, mic) and its two sample factors
  rustzx-core/src/zx/controller.rs     wait_internal (frame_clocks, mixer.process(frame_pos), new_frame),
                                       the ULA branch of write_io (beeper.change_state)
  rustzx-core/src/emulator/mod.rs      next_audio_sample (= pop)
Hand transcription; tied to the code by the C19 correspondence check.
NOT bit-exact (IEEE-754, DESIGN §10): `frame_pos` / `sample_count_for_frame_fraction` compute
`(spf as f64 * (clocks as f64 / clocks_frame as f64)) as usize`. Here the resulting sample index is an
input of `wait` (the value `cur`); the theorems hold for every index function with the properties
`PosOk`, which the exact rational `posQ` has (proved) and which the f64 formula is observed to have on
every call of every run (the driver checks each value it is given). The AY contribution to a sample is
f64 as well and is not modelled: a sample here is the beeper level it was generated from.
No Mathlib imports here: this file is linked into the native driver.
-/
namespace ZxVerif.Mixer

/-- `ZXBeeper`: the two output bits of port 0xFE (bit 4 EAR, bit 3 MIC) -/
structure Level where
  ear : Bool := false
  mic : Bool := false
  deriving DecidableEq, Repr, Inhabited

/-- `ZXBeeper::gen_sample` times `master_volume = sound_volume / 200`, in units of 1/2000:
`(0.5·ear + 0.1·mic) · vol / 200` -/
def Level.value (vol : Nat) (l : Level) : Nat :=
  ((if l.ear then 5 else 0) + (if l.mic then 1 else 0)) * vol

def Level.code (l : Level) : Nat := (if l.ear then 2 else 0) + (if l.mic then 1 else 0)

/-- the fields of `ZXMixer` that decide what is queued (the AY device is not part of the model) -/
structure Mixer where
  beeper : Level := {}
  useBeeper : Bool := true
  buf : List Level := []
  lastPos : Nat := 0
  lastSample : Level := {}
  /-- `samples_per_frame() = sample_rate / FPS` -/
  spf : Nat
  deriving Repr

/-- `samples_per_frame` -/
def spfOf (sampleRate : Nat) : Nat := sampleRate / 50

/-- the beeper part of `gen_sample` -/
def Mixer.gen (m : Mixer) : Level := if m.useBeeper then m.beeper else {}

/-- `ZXMixer::process`, with `cur = sample_count_for_frame_fraction(current_time)` -/
def Mixer.process (m : Mixer) (cur : Nat) : Mixer :=
  if m.buf.length ≥ m.spf then m
  else if cur ≤ m.lastPos then m
  else { m with buf := m.buf ++ List.replicate (cur - m.lastPos) m.gen, lastPos := cur, lastSample := m.gen }

/-- `ZXMixer::new_frame`: pad with the last sample up to one frame's worth, reset the cursor -/
def Mixer.newFrame (m : Mixer) : Mixer :=
  { m with buf := if m.buf.length < m.spf then m.buf ++ List.replicate (m.spf - m.buf.length) m.lastSample
                  else m.buf,
           lastPos := 0 }

/-- `ZXMixer::pop` -/
def Mixer.pop (m : Mixer) : Mixer × Option Level :=
  match m.buf with
  | [] => (m, none)
  | x :: xs => ({ m with buf := xs }, some x)

/-- `n` calls of `next_audio_sample` (stopping at `None`) -/
def Mixer.popN (m : Mixer) (n : Nat) : Mixer × List Level :=
  ({ m with buf := m.buf.drop n }, m.buf.take n)

/-- the time/sound part of `ZXController` -/
structure Machine where
  mixer : Mixer
  /-- `frame_clocks` -/
  fc : Nat := 0
  /-- `passed_frames` -/
  frames : Nat := 0
  /-- `clocks_frame` -/
  L : Nat
  deriving Repr

/-- `wait_internal(clk)`; `cur` is the sample index `process` derives from the new `frame_clocks` -/
def Machine.wait (s : Machine) (clk cur : Nat) : Machine :=
  let fc := s.fc + clk
  let mixer := s.mixer.process cur
  if fc ≥ s.L then { s with fc := fc - s.L, mixer := mixer.newFrame, frames := s.frames + 1 }
  else { s with fc := fc, mixer := mixer }

/-- the ULA branch of `write_io`, the part between the two contention waits:
`mic = data & 0x08`, `ear = data & 0x10` -/
def Machine.out (s : Machine) (data : BitVec 8) : Machine :=
  { s with mixer := { s.mixer with beeper := { ear := data.getLsbD 4, mic := data.getLsbD 3 } } }

/-- the exact rational reading of `sample_count_for_frame_fraction(frame_pos())` -/
def posQ (spf L t : Nat) : Nat := if t ≥ L then spf else spf * t / L

end ZxVerif.Mixer
