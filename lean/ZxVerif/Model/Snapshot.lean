/-
Model of the snapshot / screenshot loaders and the SNA writer of rustzx-core (C13, C14):
  rustzx-core/src/emulator/snapshot/sna.rs     load, save, ScopedSnapshotState
  rustzx-core/src/emulator/snapshot/szx.rs     load and the process_*_block functions
  rustzx-core/src/emulator/screenshot/scr.rs   load
  rustzx-core/src/zx/sound/ay.rs               select_reg, set_regs, write
  rustzx-core/src/zx/controller.rs             write_7ffd, set_border_color, the 0xFE branch of write_io,
                                               refresh_memory_dependent_devices
  rustzx-core/src/zx/memory.rs                 read, write, ram_page_data(_mut)
  rustzx-z80/src/registers.rs, cpu.rs          setters used by the loaders, get_*_alt, set_im,
                                               push_pc_to_stack, pop_pc_from_stack
Hand transcription of what the code DOES; tied to the code by the C13/C14 correspondence checks.

Every place where the code is known to deviate from the property is one small definition selected
by a flag of `Fixes`: `Fixes.none` is the code as it stands in /repo, `Fixes.all` is the code with
every candidate repair of proposed_fixes/C13-*.diff, C14-*.diff applied. The driver takes the flags
per request; the harness reports which setting the tree under test matches.

RAM banks are abstract 16 KiB byte lists (`ram : Nat → Bytes`); nothing here enumerates bytes.
`inflate` (zlib) is a parameter of `szxLoad`, never an axiom.
No Mathlib imports here: this file is linked into the native driver.
-/
namespace ZxVerif.Snap

abbrev Byte := BitVec 8
abbrev Bytes := List Byte

/-- `PAGE_SIZE` of memory.rs -/
def pageSize : Nat := 16384

/-- pending prefix of the Z80 core (`Z80::active_prefix`) -/
inductive Pfx | none | cb | dd | ed | fd
  deriving DecidableEq, Repr, Inhabited

inductive Kind | k48 | k128
  deriving DecidableEq, Repr, Inhabited

/-- how a loader call can end other than `Ok(())` -/
inductive Err
  | eof                  -- IoError::UnexpectedEof
  | invalidSzx           -- SnapshotLoadError::InvalidSZXFile
  | machineNotSupported  -- SnapshotLoadError::MachineNotSupported
  | invalidScr           -- ScreenLoadError::InvalidScrFile
  | scrMachine           -- ScreenLoadError::MachineNotSupported
  | panic                -- the Rust code panics (assert / slice index / missing RAM page)
  deriving DecidableEq, Repr, Inhabited

/-- Candidate repairs. `false` = the code as it is in /repo. -/
structure Fixes where
  /-- `get_h_alt/get_l_alt` return `h_alt/l_alt` (C13-1) -/
  hlAlt : Bool
  /-- loaders restore the 7FFD latch even when the receiving machine had paging locked (C13-2) -/
  unlockOnLoad : Bool
  /-- loaders clear `halted`, `skip_interrupt`, `active_prefix` of the receiving CPU (C13-3) -/
  resetCpuOnLoad : Bool
  /-- the 48K writer patches PC into the written image instead of pushing it into live RAM (C13-4) -/
  pureSave48 : Bool
  /-- a file for the other machine model is rejected with `Err` (C14-1) -/
  rejectMismatch : Bool
  /-- `ZXAyChip::set_regs` also programs the sound generator (C14-2) -/
  ayWriteThrough : Bool
  /-- SZX `chBorder` reaches the border device, not only `border_color` (C14-3) -/
  szxBorderDevice : Bool
  /-- SZX `ZXSTZF_HALTED` no longer moves PC past the HALT (C14-4) -/
  haltedPc : Bool
  deriving DecidableEq, Repr, Inhabited

def Fixes.none : Fixes := ⟨false, false, false, false, false, false, false, false⟩
def Fixes.all : Fixes := ⟨true, true, true, true, true, true, true, true⟩

/-- `Z80` + `Regs` -/
structure Cpu where
  a : Byte := 0
  f : Byte := 0
  b : Byte := 0
  c : Byte := 0
  d : Byte := 0
  e : Byte := 0
  h : Byte := 0
  l : Byte := 0
  a' : Byte := 0
  f' : Byte := 0
  b' : Byte := 0
  c' : Byte := 0
  d' : Byte := 0
  e' : Byte := 0
  h' : Byte := 0
  l' : Byte := 0
  ix : BitVec 16 := 0
  iy : BitVec 16 := 0
  sp : BitVec 16 := 0
  pc : BitVec 16 := 0
  i : Byte := 0
  r : Byte := 0
  iff1 : Bool := false
  iff2 : Bool := false
  /-- interrupt mode 0..2 -/
  im : Nat := 0
  halted : Bool := false
  skipInt : Bool := false
  pfx : Pfx := .none
  memptr : BitVec 16 := 0
  q : Byte := 0
  deriving DecidableEq, Repr, Inhabited

/-- The parts of `Emulator` the loaders and the writer touch. -/
structure Machine where
  kind : Kind
  cpu : Cpu := {}
  /-- `ZXController::border_color` (what `save` writes, what `border_color()` returns) -/
  border : Byte := 0
  /-- colour last handed to the border device `ZXBorder::set_border` (what gets painted) -/
  borderDev : Byte := 0
  /-- `current_port_7ffd` -/
  latch : Byte := 0
  /-- `paging_enabled` (false on the 48K; false on the 128K once locked) -/
  pagingEnabled : Bool := false
  /-- `screen_bank` -/
  screenBank : Nat := 0
  /-- ROM page mapped at 0x0000 -/
  map0 : Nat := 0
  /-- RAM bank mapped at 0xC000 -/
  map3 : Nat := 2
  ram : Nat → Bytes := fun _ => []
  rom : Nat → Bytes := fun _ => []
  /-- what the screen device has cached for each displayable bank (`ZXScreen::update`) -/
  scr : Nat → Bytes := fun _ => []
  /-- `ZXAyChip::regs` -/
  ayRegs : Bytes := List.replicate 16 0
  /-- `ZXAyChip::current_reg` -/
  aySel : Nat := 0
  /-- `AymPrecise::registers`: what the sound generator has been programmed with -/
  ayChip : Bytes := List.replicate 14 0
  /-- the envelope generator sits at the start of its shape (`AymPrecise::set_envelope_shape` was
  the last thing that happened to it): true after any write of register 13, false once it has run -/
  ayEnvAtStart : Bool := true
  /-- `settings.ay_enabled` / `mixer.use_ay` -/
  ayEnabled : Bool := false
  /-- Kempston joystick present -/
  kempston : Bool := false
  /-- Kempston mouse present -/
  mouse : Bool := false
  /-- beeper EAR / MIC levels -/
  ear : Bool := false
  mic : Bool := false
  deriving Inhabited

/-! ### memory.rs -/

inductive Page | ram (n : Nat) | rom (n : Nat)
  deriving DecidableEq, Repr

/-- number of RAM pages (`ram.len() / PAGE_SIZE`) -/
def Machine.ramPages (m : Machine) : Nat :=
  match m.kind with
  | .k48 => 3
  | .k128 => 8

/-- `ZXMemory::map` -/
def Machine.page (m : Machine) (blk : Nat) : Page :=
  match m.kind, blk with
  | .k48, 0 => .rom 0
  | .k48, 1 => .ram 0
  | .k48, 2 => .ram 1
  | .k48, _ => .ram 2
  | .k128, 0 => .rom m.map0
  | .k128, 1 => .ram 5
  | .k128, 2 => .ram 2
  | .k128, _ => .ram m.map3

def setBank (ram : Nat → Bytes) (n : Nat) (data : Bytes) : Nat → Bytes :=
  fun k => if k = n then data else ram k

/-- `ZXMemory::read` -/
def Machine.read (m : Machine) (addr : BitVec 16) : Byte :=
  match m.page (addr.toNat / pageSize) with
  | .ram n => (m.ram n).getD (addr.toNat % pageSize) 0
  | .rom n => (m.rom n).getD (addr.toNat % pageSize) 0

/-- is the bank one the screen device caches (`ZXScreen::local_bank`) -/
def Machine.displayable (m : Machine) (bank : Nat) : Bool :=
  match m.kind with
  | .k48 => bank == 0
  | .k128 => bank == 5 || bank == 7

/-- `Z80Bus::write` → `write_internal`: RAM only, and the screen device is told -/
def Machine.write (m : Machine) (addr : BitVec 16) (v : Byte) : Machine :=
  match m.page (addr.toNat / pageSize) with
  | .ram n =>
    let off := addr.toNat % pageSize
    { m with ram := setBank m.ram n ((m.ram n).set off v),
             scr := if m.displayable n then setBank m.scr n ((m.scr n).set off v) else m.scr }
  | .rom _ => m

/-- `refresh_memory_dependent_devices` -/
def Machine.refresh (m : Machine) : Machine :=
  match m.kind with
  | .k48 => { m with scr := setBank m.scr 0 (m.ram 0) }
  | .k128 => { m with scr := setBank (setBank m.scr 5 (m.ram 5)) 7 (m.ram 7) }

/-! ### controller.rs -/

/-- `write_7ffd` -/
def Machine.write7ffd (m : Machine) (v : Byte) : Machine :=
  if !m.pagingEnabled then m else
  { m with latch := v,
           map3 := (v &&& 7).toNat,
           screenBank := if v &&& 8 = 0 then 5 else 7,
           map0 := ((v >>> 4) &&& 1).toNat,
           pagingEnabled := v &&& 0x20 = 0 }

/-- How a loader restores the latch: the code calls `write_7ffd` (ignored when the receiver is
locked); the repair re-enables paging on the 128K first. -/
def Machine.restore7ffd (fx : Fixes) (m : Machine) (v : Byte) : Machine :=
  if fx.unlockOnLoad && m.kind == .k128 then ({ m with pagingEnabled := true }).write7ffd v
  else m.write7ffd v

/-- `set_border_color` (field and device) -/
def Machine.setBorder (m : Machine) (c : Byte) : Machine :=
  { m with border := c, borderDev := c }

/-! ### cpu.rs -/

def lo (w : BitVec 16) : Byte := w.truncate 8
def hi (w : BitVec 16) : Byte := (w >>> 8).truncate 8
def word (l h : Byte) : BitVec 16 := (h.zeroExtend 16 <<< 8) ||| l.zeroExtend 16

/-- `push_pc_to_stack` (h at SP-1, l at SP-2) -/
def Machine.pushPc (m : Machine) : Machine :=
  let m1 := m.write (m.cpu.sp - 1) (hi m.cpu.pc)
  let m2 := m1.write (m.cpu.sp - 2) (lo m.cpu.pc)
  { m2 with cpu := { m2.cpu with sp := m.cpu.sp - 2 } }

/-- `pop_pc_from_stack` -/
def Machine.popPc (m : Machine) : Machine :=
  let l := m.read m.cpu.sp
  let h := m.read (m.cpu.sp + 1)
  { m with cpu := { m.cpu with sp := m.cpu.sp + 2, pc := word l h } }

/-- What a repaired loader does first with the receiving CPU. -/
def Cpu.resetExec (fx : Fixes) (c : Cpu) : Cpu :=
  if fx.resetCpuOnLoad then { c with halted := false, skipInt := false, pfx := .none } else c

/-! ### byte strings as assets -/

/-- `seek(Start(off)); read_exact(len)` -/
def slice (f : Bytes) (off len : Nat) : Option Bytes :=
  if off + len ≤ f.length then some ((f.drop off).take len) else none

/-! ### sna.rs -/

def snaHeaderSize : Nat := 27
def sna48Size : Nat := 49179
def snaTailOffset : Nat := 49183
def snaTailBanks : List Nat := [0, 1, 3, 4, 6, 7]

/-- `get_h_alt` as `save` sees it -/
def saveHAlt (fx : Fixes) (c : Cpu) : Byte := if fx.hlAlt then c.h' else c.h
/-- `get_l_alt` as `save` sees it -/
def saveLAlt (fx : Fixes) (c : Cpu) : Byte := if fx.hlAlt then c.l' else c.l

/-- the 27 header bytes `save` builds -/
def snaHeader (fx : Fixes) (m : Machine) : Bytes :=
  let c := m.cpu
  [c.i, saveLAlt fx c, saveHAlt fx c, c.e', c.d', c.c', c.b', c.f', c.a',
   c.l, c.h, c.e, c.d, c.c, c.b, lo c.iy, hi c.iy, lo c.ix, hi c.ix,
   if c.iff2 then 4 else 0, c.r, c.f, c.a, lo c.sp, hi c.sp, BitVec.ofNat 8 c.im, m.border]

/-- bank paged at 0xFFFF (`get_page(0xFFFF)`; `Rom(_) => 0` cannot occur there) -/
def Machine.pagedBank (m : Machine) : Nat :=
  match m.page 3 with
  | .ram n => n
  | .rom _ => 0

def tailBanks (p : Nat) : List Nat := snaTailBanks.filter (· != p)

/-- the file `save` writes for a 128K machine -/
def snaSave128 (fx : Fixes) (m : Machine) : Bytes :=
  let p := m.pagedBank
  snaHeader fx m ++ (m.ram 5 ++ (m.ram 2 ++ (m.ram p ++
    ([lo m.cpu.pc, hi m.cpu.pc, m.latch, 0] ++ (tailBanks p).flatMap m.ram))))

/-- the machine as the 48K writer sees it while writing (`ScopedSnapshotState::enter`) -/
def Machine.entered48 (m : Machine) : Machine := m.pushPc

/-- the file `save` writes for a 48K machine -/
def snaSave48 (fx : Fixes) (m : Machine) : Bytes :=
  let e := m.entered48
  snaHeader fx e ++ (e.ram 0 ++ (e.ram 1 ++ e.ram 2))

/-- `sna::save`: the bytes handed to the recorder -/
def snaSave (fx : Fixes) (m : Machine) : Bytes :=
  match m.kind with
  | .k48 => snaSave48 fx m
  | .k128 => snaSave128 fx m

/-- `sna::save`: the machine afterwards (`Drop` of `ScopedSnapshotState` pops PC again) -/
def snaSaveEffect (fx : Fixes) (m : Machine) : Machine :=
  match m.kind with
  | .k48 => if fx.pureSave48 then m else m.entered48.popPc
  | .k128 => m

/-- header part of `sna::load`; `none` = `set_im` assertion fails -/
def snaLoadHeader (hd : Bytes) (m : Machine) : Option Machine :=
  let g (k : Nat) : Byte := hd.getD k 0
  let im := (g 25 &&& 3).toNat
  if im = 3 then none else
  let iff := g 19 &&& 4 != 0
  let c := m.cpu
  let c := { c with i := g 0, l' := g 1, h' := g 2, e' := g 3, d' := g 4, c' := g 5, b' := g 6,
                    f' := g 7, a' := g 8, l := g 9, h := g 10, e := g 11, d := g 12, c := g 13,
                    b := g 14, iy := word (g 15) (g 16), ix := word (g 17) (g 18),
                    iff1 := iff, iff2 := iff, r := g 20, f := g 21, a := g 22,
                    sp := word (g 23) (g 24), im := im }
  some ({ m with cpu := c }.setBorder (g 26 &&& 7))

/-- `ram_page_data_mut(bank)` followed by `read_exact`: banks filled in order from consecutive
16 KiB pieces starting at `off`. -/
def readBanks (f : Bytes) : Nat → List Nat → Machine → Except Err Machine
  | _, [], m => .ok m
  | off, b :: bs, m =>
    if m.ramPages ≤ b then .error .panic else
    match slice f off pageSize with
    | none => .error .eof
    | some d => readBanks f (off + pageSize) bs { m with ram := setBank m.ram b d }

/-- the 128K branch of `sna::load`, after the header: secondary header, paging, banks -/
def snaLoad128 (fx : Fixes) (f : Bytes) (m : Machine) : Except Err Machine :=
  match slice f sna48Size 4 with
  | none => .error .eof
  | some t =>
    let m := { m with cpu := { m.cpu with pc := word (t.getD 0 0) (t.getD 1 0) } }
    let m := m.restore7ffd fx (t.getD 2 0)
    let p := m.pagedBank
    (readBanks f snaHeaderSize [5, 2, p] m).bind fun m =>
    (readBanks f snaTailOffset (tailBanks p) m).bind fun m => .ok m.refresh

/-- the 48K branch of `sna::load`, after the header: three pages, then PC from the stack -/
def snaLoad48 (f : Bytes) (m : Machine) : Except Err Machine :=
  (readBanks f snaHeaderSize [0, 1, 2] m).bind fun m => .ok m.popPc.refresh

/-- `sna::load` -/
def snaLoad (fx : Fixes) (f : Bytes) (r : Machine) : Except Err Machine :=
  let is128 := decide (sna48Size < f.length)
  if f.length < sna48Size then .error .eof else
  if fx.rejectMismatch && (is128 != (r.kind == .k128)) then .error .machineNotSupported else
  match snaLoadHeader (f.take snaHeaderSize) { r with cpu := r.cpu.resetExec fx } with
  | none => .error .panic
  | some m => if is128 then snaLoad128 fx f m else snaLoad48 f m

/-! ### ay.rs -/

/-- `AymPrecise::write_register`: registers ≥ 14 do not exist -/
def chipWrite (chip : Bytes) (reg : Nat) (v : Byte) : Bytes :=
  if reg < 14 then chip.set reg v else chip

/-- `AymPrecise::write_register` on the envelope generator: register 13 restarts the shape, even
when the value written is the one already there -/
def envWrite (env : Bool) (reg : Nat) : Bool := if reg = 13 then true else env

/-- port write to the AY data port (`ZXAyChip::write`) -/
def Machine.ayWrite (m : Machine) (v : Byte) : Machine :=
  { m with ayRegs := m.ayRegs.set m.aySel v, ayChip := chipWrite m.ayChip m.aySel v,
           ayEnvAtStart := envWrite m.ayEnvAtStart m.aySel }

/-- `select_reg` -/
def Machine.aySelect (m : Machine) (v : Byte) : Machine :=
  { m with aySel := (v &&& 0x0F).toNat }

/-- programming the chip with registers 0..13 in order, as a program would through the ports -/
def chipProgram (chip : Bytes) (regs : Bytes) : Bytes :=
  (List.range 14).foldl (fun ch k => chipWrite ch k (regs.getD k 0)) chip

/-- the envelope generator while registers 0..13 are written in order -/
def envProgram (env : Bool) : Bool := (List.range 14).foldl envWrite env

/-- `set_regs(&data[..16])` -/
def Machine.aySetRegs (fx : Fixes) (m : Machine) (regs : Bytes) : Machine :=
  { m with ayRegs := regs.take 16,
           ayChip := if fx.ayWriteThrough then chipProgram m.ayChip regs else m.ayChip,
           ayEnvAtStart := if fx.ayWriteThrough then envProgram m.ayEnvAtStart else m.ayEnvAtStart }

/-- a program writing registers 0..13 through the two AY ports (select, then data) -/
def Machine.ayViaPorts (m : Machine) (regs : Bytes) : Machine :=
  (List.range 14).foldl (fun m k => (m.aySelect (BitVec.ofNat 8 k)).ayWrite (regs.getD k 0)) m

/-! ### szx.rs -/

/-- ASCII upper-casing of a chunk id (`to_uppercase` on the ids a well-formed file can carry) -/
def upperByte (b : Byte) : Byte := if 0x61 ≤ b.toNat ∧ b.toNat ≤ 0x7A then b - 0x20 else b

def le32 (b0 b1 b2 b3 : Byte) : Nat :=
  b0.toNat + 256 * b1.toNat + 65536 * b2.toNat + 16777216 * b3.toNat

def idZ80R : Bytes := [0x5A, 0x38, 0x30, 0x52]
def idSPCR : Bytes := [0x53, 0x50, 0x43, 0x52]
def idAY : Bytes := [0x41, 0x59, 0x00, 0x00]
def idKEYB : Bytes := [0x4B, 0x45, 0x59, 0x42]
def idAMXM : Bytes := [0x41, 0x4D, 0x58, 0x4D]
def idRAMP : Bytes := [0x52, 0x41, 0x4D, 0x50]
def idCRTR : Bytes := [0x43, 0x52, 0x54, 0x52]
def magicZXST : Bytes := [0x5A, 0x58, 0x53, 0x54]

/-- `process_z80r_block`; `none` = a slice index / `set_im` panic -/
def szxZ80R (fx : Fixes) (d : Bytes) (m : Machine) : Option Machine :=
  if d.length < 37 then none else
  let g (k : Nat) : Byte := d.getD k 0
  if 3 ≤ (g 28).toNat then none else
  let flags := g 34
  let halted := flags &&& 2 != 0
  let pc := word (g 22) (g 23)
  let f := g 0
  let c := m.cpu
  some { m with cpu := { c with
    f := f, a := g 1, c := g 2, b := g 3, e := g 4, d := g 5, l := g 6, h := g 7,
    f' := g 8, a' := g 9, c' := g 10, b' := g 11, e' := g 12, d' := g 13, l' := g 14, h' := g 15,
    ix := word (g 16) (g 17), iy := word (g 18) (g 19), sp := word (g 20) (g 21),
    pc := if halted && !fx.haltedPc then pc + 1 else pc,
    i := g 24, r := g 25, iff1 := (g 26).toNat > 0, iff2 := (g 27).toNat > 0, im := (g 28).toNat,
    skipInt := flags &&& 1 != 0, halted := halted,
    q := if flags &&& 4 != 0 then f else 0,
    memptr := word (g 35) (g 36) } }

/-- `process_spcr_block`; `none` = slice index or `ZXColor::from_bits` panic -/
def szxSPCR (fx : Fixes) (mid : Nat) (d : Bytes) (m : Machine) : Option Machine :=
  if d.length < 4 then none else
  let g (k : Nat) : Byte := d.getD k 0
  let m := m.restore7ffd fx (if mid < 2 then 0 else g 1)
  -- write_io(0xFE, chFe): border device and field from the low three bits, beeper from bits 3,4
  let fe := g 3
  let m := { m.setBorder (fe &&& 7) with mic := fe &&& 8 != 0, ear := fe &&& 0x10 != 0 }
  if 7 < (g 0).toNat then none else
  some (if fx.szxBorderDevice then m.setBorder (g 0) else { m with border := g 0 })

/-- `process_ay_block`; `none` = slice panic -/
def szxAY (fx : Fixes) (mid : Nat) (d : Bytes) (m : Machine) : Option Machine :=
  if d.length < 1 then none else
  let flags := d.getD 0 0
  let m := if mid < 2 then { m with ayEnabled := flags &&& 2 != 0 } else m
  if !m.ayEnabled then some m else
  if d.length < 18 then none else
  some ((m.aySelect (d.getD 1 0)).aySetRegs fx (d.drop 2))

def szxKEYB (d : Bytes) (m : Machine) : Option Machine :=
  if d.length < 5 then none else some { m with kempston := d.getD 4 0 &&& 1 != 0 }

def szxAMXM (d : Bytes) (m : Machine) : Option Machine :=
  if d.length < 1 then none else some { m with mouse := d.getD 0 0 &&& 2 != 0 }

/-- page renumbering of `process_ramp_block` -/
def szxPageNo (mid : Nat) (n : Nat) : Nat :=
  if mid < 2 then (if n = 5 then 0 else if n = 2 then 1 else if n = 0 then 2 else n) else n

/-- `process_ramp_block` -/
def szxRAMP (inflate : Bytes → Option Bytes) (mid : Nat) (d : Bytes) (m : Machine) :
    Except Err Machine :=
  if d.length < 3 then .error .panic else
  let flags := d.getD 0 0
  let n := szxPageNo mid (d.getD 2 0).toNat
  if m.ramPages ≤ n then .error .panic else
  if flags &&& 1 != 0 then
    match inflate (d.drop 3) with
    | none => .error .invalidSzx
    | some x => if x.length < pageSize then .error .panic
                else .ok { m with ram := setBank m.ram n (x.take pageSize) }
  else
    let x := d.drop 3
    if x.length < pageSize then .error .panic
    else .ok { m with ram := setBank m.ram n (x.take pageSize) }

def szxCRTR (d : Bytes) (m : Machine) : Option Machine :=
  if d.length < 37 then none else some m

def optE (o : Option Machine) : Except Err Machine :=
  match o with
  | some m => .ok m
  | none => .error .panic

/-- dispatch on the upper-cased chunk id -/
def szxChunk (fx : Fixes) (inflate : Bytes → Option Bytes) (mid : Nat) (id d : Bytes) (m : Machine) :
    Except Err Machine :=
  let id := id.map upperByte
  if id = idCRTR then optE (szxCRTR d m)
  else if id = idZ80R then optE (szxZ80R fx d m)
  else if id = idSPCR then optE (szxSPCR fx mid d m)
  else if id = idAY then optE (szxAY fx mid d m)
  else if id = idKEYB then optE (szxKEYB d m)
  else if id = idAMXM then optE (szxAMXM d m)
  else if id = idRAMP then szxRAMP inflate mid d m
  else .ok m

/-- the chunk walker of `szx::load`: stops silently when fewer than 8 bytes are left -/
def szxWalk (fx : Fixes) (inflate : Bytes → Option Bytes) (mid : Nat) :
    Nat → Bytes → Machine → Except Err Machine
  | 0, _, m => .ok m
  | fuel + 1, f, m =>
    if f.length < 8 then .ok m else
    let size := le32 (f.getD 4 0) (f.getD 5 0) (f.getD 6 0) (f.getD 7 0)
    let rest := f.drop 8
    if rest.length < size then .error .invalidSzx else
    match szxChunk fx inflate mid (f.take 4) (rest.take size) m with
    | .error e => .error e
    | .ok m => szxWalk fx inflate mid fuel (rest.drop size) m

/-- `szx::load` -/
def szxLoad (fx : Fixes) (inflate : Bytes → Option Bytes) (f : Bytes) (r : Machine) :
    Except Err Machine :=
  if f.length < 8 then .error .eof else
  if f.take 4 ≠ magicZXST then .error .invalidSzx else
  let mid := (f.getD 6 0).toNat
  if 2 < mid then .error .machineNotSupported else
  if fx.rejectMismatch && ((2 ≤ mid) != (r.kind == .k128)) then .error .machineNotSupported else
  let r := { r with cpu := r.cpu.resetExec fx }
  match szxWalk fx inflate mid f.length (f.drop 8) r with
  | .error e => .error e
  | .ok m => .ok m.refresh

/-! ### scr.rs -/

def scrSize : Nat := 6912

/-- what `scr::load` does once it knows the bank mapped at 0x4000: `JP 0x8000` at 0x8000, PC there,
the file into the first 6912 bytes of the bank, screen device refreshed -/
def scrApply (f : Bytes) (r : Machine) (bank : Nat) : Machine :=
  let m := ((r.write 0x8000 0xC3).write 0x8001 0x00).write 0x8002 0x80
  let m := { m with cpu := { m.cpu with pc := 0x8000 } }
  { m with ram := setBank m.ram bank (f ++ (m.ram bank).drop scrSize) }.refresh

/-- `scr::load` -/
def scrLoad (f : Bytes) (r : Machine) : Except Err Machine :=
  if f.length ≠ scrSize then .error .invalidScr else
  match r.page 1 with
  | .rom _ => .error .scrMachine
  | .ram bank => .ok (scrApply f r bank)

end ZxVerif.Snap
