/-
The whole machine as seen by the CPU: a `Z80.Bus` instance assembled from the machine model
(clock, contention, memory map, port decoding: Model/Machine.lean) and the input model
(Model/Input.lean), plus the register file of the AY chip and the ULA output latch.
  rustzx-core/src/zx/controller.rs   impl Z80Bus for ZXController
Running `Z80.emulate` on this bus is the Lean counterpart of `Emulator::emulate_frames` single
steps; the lock-step correspondence (harness/src/sys.rs) ties the composition to the real Emulator.
Not part of this bus: tape (the EAR input level is a field), screen/border rendering, sound
generation, fast-load trap and breakpoints (`pc_callback` only raises host events).
Core Lean only.
-/
import ZxVerif.Model.Z80.Exec
import ZxVerif.Model.Machine
import ZxVerif.Model.Input
namespace ZxVerif.Spectrum
open ZxVerif.Machine

/-- ghost: what the CPU did on the bus, as far as time is concerned -/
inductive TOp
  | mem (addr : BitVec 16) (clk : Nat)
  | plain (clk : Nat)
  | io (port : BitVec 16)
  deriving Repr

structure ZX where
  ctl : Ctl
  kbd : Input.Kbd := {}
  /-- `tape.current_bit()` -/
  earIn : Bool := false
  /-- `border_color` (low three bits of the last ULA write) -/
  border : BitVec 8 := 0
  /-- beeper state given to the mixer: (ear, mic) bits of the last ULA write -/
  ear : Bool := false
  mic : Bool := false
  ayReg : Nat := 0
  ayRegs : Nat → BitVec 8 := fun _ => 0
  /-- ghost: every RAM store so far as (RAM page, offset, value), newest first — lets the lock-step
  correspondence compare the *whole* RAM of the real machine (stores into pages no window maps
  included) without enumerating the memory function -/
  wlog : List (Nat × Nat × BitVec 8) := []
  /-- ghost: every timed bus operation so far with the paging latch at its start, newest first —
  the history the contention rules of the property are stated over (Props/C04Sys.lean) -/
  tlog : List (BitVec 8 × TOp) := []

def ZX.new (k : Kind) (kempston mouse : Bool) : ZX :=
  { ctl := Ctl.new k, kbd := Input.Kbd.init kempston mouse }

def ZX.cfg (z : ZX) : IoCfg :=
  ⟨z.ctl.kind, z.kbd.kempston.isSome, z.kbd.mouse.isSome, false⟩

/-- `read_io` (no host extender) -/
def ZX.readIo (port : BitVec 16) (z : ZX) : BitVec 8 × ZX :=
  let c1 := (z.ctl.ioContentionFirst port).ioContentionLast port
  let v : BitVec 8 :=
    match readDecode z.cfg port with
    | .extender => 0
    | .ula => Input.readUla z.kbd (port.extractLsb' 8 8) z.earIn
    | .mouseButtons => (z.kbd.mouse.map (·.buttons)).getD 0xFF
    | .mouseX => (z.kbd.mouse.map (·.x)).getD 0xFF
    | .mouseY => (z.kbd.mouse.map (·.y)).getD 0xFF
    | .ay => z.ayRegs z.ayReg
    | .kempston => z.kbd.kempston.getD 0xFF
    | .floating => c1.floatingBusValue
  (v, { z with ctl := c1.waitInternal 1, tlog := (z.ctl.port7ffd, .io port) :: z.tlog })

/-- `write_io` (no host extender) -/
def ZX.writeIo (port : BitVec 16) (v : BitVec 8) (z : ZX) : ZX :=
  let c1 := z.ctl.ioContentionFirst port
  let z1 : ZX :=
    match writeDecode z.cfg port with
    | .extender => { z with ctl := c1 }
    | .aySelect => { z with ctl := c1, ayReg := (v &&& 0x0F).toNat }
    | .ayData => { z with ctl := c1, ayRegs := fun r => if r = z.ayReg then v else z.ayRegs r }
    | .ula => { z with ctl := c1, border := v &&& 0x07, mic := v &&& 0x08 ≠ 0, ear := v &&& 0x10 ≠ 0 }
    | .paging => { z with ctl := c1.write7ffd v }
    | .none => { z with ctl := c1 }
  { z1 with ctl := (z1.ctl.ioContentionLast port).waitInternal 1, tlog := (z.ctl.port7ffd, .io port) :: z.tlog }

instance : Z80.Bus ZX where
  waitMreq a clk z := { z with ctl := z.ctl.waitMreq a clk, tlog := (z.ctl.port7ffd, .mem a clk) :: z.tlog }
  waitNoMreq a clk z := { z with ctl := z.ctl.waitMreq a clk, tlog := (z.ctl.port7ffd, .mem a clk) :: z.tlog }
  waitInternal clk z := { z with ctl := z.ctl.waitInternal clk, tlog := (z.ctl.port7ffd, .plain clk) :: z.tlog }
  readInternal a z := (z.ctl.readInternal a, z)
  writeInternal a v z :=
    { z with
      ctl := z.ctl.writeInternal a v
      wlog := match z.ctl.mem.pagedAddress a with
        | (.ram p, off) => (p, off, v) :: z.wlog
        | (.rom _, _) => z.wlog }
  readIo := ZX.readIo
  writeIo := ZX.writeIo
  readInterrupt z := (0xFF, z)
  reti z := z
  halt _ z := z
  intActive z := z.ctl.intActive
  nmiActive _ := false
  pcCallback _ z := z

/-- one `cpu.emulate(&mut controller)` -/
def step (sz : Z80.Cpu × ZX) : Z80.Cpu × ZX := Z80.emulate .hw sz

end ZxVerif.Spectrum
