/-
Model of the TAP tape of rustzx-core (C10, C11, C12):
  rustzx-core/src/zx/tape/tap.rs          Tap: 128-byte buffer machine, pulse state machine, play/stop/rewind
  rustzx-core/src/zx/tape/mod.rs          TapeImpl (the operations modelled here)
  rustzx-core/src/host/io.rs              LoadableAsset::read_exact / BufferCursor (end of data = error)
  rustzx-core/src/emulator/fastload/tap.rs  fast_load_tap
  rustzx-core/src/zx/controller.rs        pc_callback trap at 0x056B, write_internal (ROM ignores stores)
  rustzx-core/src/emulator/mod.rs         process_fast_load_event
Hand transcription; tied to the code by the C10/C11/C12 correspondence checks.
No Mathlib imports here: this file is linked into the native driver.

`fixed : Bool` selects between the code as it is (`false`) and the candidate repairs of
proposed_fixes/C10-1.diff and C12-1.diff (`true`); the harness determines which of the two the
tree under test implements and the driver runs that one.
-/
set_option linter.constructorNameAsVariable false
namespace ZxVerif.Tape

abbrev Byte := BitVec 8

/-! ## Asset (`LoadableAsset + SeekableAsset` over a byte buffer) -/

/-- An in-memory asset: the whole data and what is still ahead of the read position. -/
structure Asset where
  data : List Byte
  rest : List Byte
  deriving Repr

def Asset.new (data : List Byte) : Asset := { data := data, rest := data }

/-- `read_exact` of `n` bytes: the bytes delivered into the destination (all `n`, or — when fewer
remain — what was left, after which the call fails with `UnexpectedEof`), success, new position. -/
def Asset.readExact (a : Asset) (n : Nat) : List Byte × Bool × Asset :=
  if n ≤ a.rest.length then (a.rest.take n, true, { a with rest := a.rest.drop n })
  else (a.rest, false, { a with rest := [] })

/-- `seek(SeekFrom::Start(0))` -/
def Asset.rewind (a : Asset) : Asset := { a with rest := a.data }

/-- position of the read cursor -/
def Asset.pos (a : Asset) : Nat := a.data.length - a.rest.length

/-- copy `src` over the beginning of `dst` (`buffer[0..n].copy_from_slice`) -/
def blit (src dst : List Byte) : List Byte := src ++ dst.drop src.length

/-! ## The streaming part of `Tap` -/

inductive Err
  | eof          -- IoError::UnexpectedEof out of read_exact
  | invalidTap   -- TapeLoadError::InvalidTapFile
  | fuel         -- never produced on reachable states (loop bound of the model exhausted)
  deriving DecidableEq, Repr

def BUFFER_SIZE : Nat := 128

/-- `asset, buffer, buffer_offset, block_bytes_read, current_block_size, tape_ended` -/
structure Reader where
  asset : Asset
  buffer : List Byte
  bufferOffset : Nat := 0
  blockBytesRead : Nat := 0
  currentBlockSize : Option Nat := none
  tapeEnded : Bool := false
  deriving Repr

def Reader.new (data : List Byte) : Reader :=
  { asset := Asset.new data, buffer := List.replicate BUFFER_SIZE 0 }

/-- `Tap::next_block_byte` -/
def nextBlockByte (r : Reader) : Except Err (Option Byte) × Reader :=
  if r.tapeEnded then (.ok none, r) else
  match r.currentBlockSize with
  | none => (.ok none, r)
  | some blockSize =>
    if r.blockBytesRead ≥ blockSize then (.ok none, r) else
    let pos := r.blockBytesRead - r.bufferOffset
    if pos ≥ BUFFER_SIZE then
      let n := min (blockSize - r.bufferOffset - BUFFER_SIZE) BUFFER_SIZE
      let (bytes, ok, a) := r.asset.readExact n
      let r := { r with asset := a, buffer := blit bytes r.buffer }
      if !ok then (.error .eof, r) else
      let r := { r with bufferOffset := r.bufferOffset + BUFFER_SIZE }
      (.ok (some (r.buffer.getD 0 0)), { r with blockBytesRead := r.blockBytesRead + 1 })
    else
      (.ok (some (r.buffer.getD pos 0)), { r with blockBytesRead := r.blockBytesRead + 1 })

/-- `while self.next_block_byte()?.is_some() {}` -/
def skipLeftovers : Nat → Reader → Option Err × Reader
  | 0, r => (some .fuel, r)
  | n + 1, r =>
    match nextBlockByte r with
    | (.error e, r) => (some e, r)
    | (.ok none, r) => (none, r)
    | (.ok (some _), r) => skipLeftovers n r

def le16 (lo hi : Byte) : Nat := lo.toNat + 256 * hi.toNat

/-- `Tap::next_block` after the leftovers of the previous block have been skipped: the two size
bytes, then the first window of the block. -/
def readHeader (r : Reader) : Except Err Bool × Reader :=
  let (szb, ok, a) := r.asset.readExact 2
  let r := { r with asset := a }
  if !ok then (.ok false, { r with tapeEnded := true }) else
  let blockSize := le16 (szb.getD 0 0) (szb.getD 1 0)
  let (bytes, ok, a) := r.asset.readExact (min blockSize BUFFER_SIZE)
  let r := { r with asset := a, buffer := blit bytes r.buffer }
  if !ok then (.error .eof, r) else
  (.ok true, { r with bufferOffset := 0, blockBytesRead := 0, currentBlockSize := some blockSize })

/-- `Tap::next_block` -/
def nextBlock (r : Reader) : Except Err Bool × Reader :=
  if r.tapeEnded then (.ok false, r) else
  match skipLeftovers 65536 r with
  | (some e, r) => (.error e, r)
  | (none, r) => readHeader r

/-- the reader part of `Tap::rewind` -/
def Reader.rewind (r : Reader) : Reader :=
  { r with blockBytesRead := 0, bufferOffset := 0, currentBlockSize := none,
           asset := r.asset.rewind, tapeEnded := false }

/-! ## Pulse generator -/

def PILOT_LENGTH : Nat := 2168
def PILOT_PULSES_HEADER : Nat := 8063
def PILOT_PULSES_DATA : Nat := 3223
def SYNC1_LENGTH : Nat := 667
def SYNC2_LENGTH : Nat := 735
def BIT_ONE_LENGTH : Nat := 1710
def BIT_ZERO_LENGTH : Nat := 855
def PAUSE_LENGTH : Nat := 3500000

inductive TapeState
  | stop | play
  | pilot (pulsesLeft : Nat)
  | sync | nextByte
  | nextBit (mask : Byte)
  | bitHalf (halfBitDelay : Nat) (mask : Byte)
  | pause
  deriving DecidableEq, Repr

structure Tap where
  rd : Reader
  state : TapeState := .stop
  prevState : TapeState := .stop
  currBit : Bool := false
  currByte : Byte := 0
  delay : Nat := 0
  deriving Repr

/-- `Tap::from_asset` -/
def Tap.new (data : List Byte) : Tap := { rd := Reader.new data }

/-- `Tap::can_fast_load` -/
def Tap.canFastLoad (t : Tap) : Bool := t.state = .stop

/-- `Tap::rewind` (the asset seek to 0 cannot fail on an in-memory asset). With the repair the
remembered state is forgotten and a running deck restarts at `Play`. -/
def Tap.rewind (fixed : Bool) (t : Tap) : Tap :=
  let t := { t with currBit := false, currByte := 0, delay := 0, rd := t.rd.rewind }
  if fixed then
    { t with prevState := .stop, state := if t.state = .stop then .stop else .play }
  else t

/-- `Tap::stop` -/
def Tap.stop (fixed : Bool) (t : Tap) : Tap :=
  if fixed && t.state = .stop then t
  else { t with prevState := t.state, state := .stop }

/-- `Tap::play` -/
def Tap.play (t : Tap) : Tap :=
  if t.state = .stop then
    if t.prevState = .stop then { t with state := .play } else { t with state := t.prevState }
  else t

/-- arm `Stop` of the state machine: "reset tape but leave in stopped state" -/
def smStop (fixed : Bool) (t : Tap) : Tap := { Tap.rewind fixed t with state := .stop }

/-- arm `NextBit { mask }` -/
def smNextBit (t : Tap) (mask : Byte) : Tap :=
  let len := if t.currByte &&& mask = 0 then BIT_ZERO_LENGTH else BIT_ONE_LENGTH
  { t with currBit := !t.currBit, delay := len, state := .bitHalf len mask }

/-- arm `Pause` -/
def smPause (t : Tap) : Tap :=
  { t with currBit := !t.currBit, delay := PAUSE_LENGTH, state := .play }

/-- The `'state_machine` loop of `process_clocks`, entered with `delay = 0` and `state ≠ Stop`
(or `Stop` reached from `Play` at the end of the tape). The loop runs at most three rounds
(`Play → Stop → break`, `NextByte → NextBit|Pause → break`), written out here. -/
def fire (fixed : Bool) (t : Tap) : Option Err × Tap :=
  match t.state with
  | .stop => (none, smStop fixed t)
  | .play =>
    match nextBlock t.rd with
    | (.error e, rd) => (some e, { t with rd := rd })
    | (.ok false, rd) => (none, smStop fixed { t with rd := rd, state := .stop })
    | (.ok true, rd) =>
      match nextBlockByte rd with
      | (.error e, rd) => (some e, { t with rd := rd })
      | (.ok none, rd) => (some .invalidTap, { t with rd := rd })
      | (.ok (some b), rd) =>
        let pulses := if b = 0 then PILOT_PULSES_HEADER else PILOT_PULSES_DATA
        (none, { t with rd := rd, currByte := b, currBit := true, delay := PILOT_LENGTH,
                        state := .pilot pulses })
  | .pilot pulsesLeft =>
    let pulsesLeft := pulsesLeft - 1
    if pulsesLeft = 0 then
      (none, { t with currBit := !t.currBit, delay := SYNC1_LENGTH, state := .sync })
    else
      (none, { t with currBit := !t.currBit, delay := PILOT_LENGTH, state := .pilot pulsesLeft })
  | .sync =>
    (none, { t with currBit := !t.currBit, delay := SYNC2_LENGTH, state := .nextBit 0x80 })
  | .nextByte =>
    match nextBlockByte t.rd with
    | (.error e, rd) => (some e, { t with rd := rd })
    | (.ok (some b), rd) => (none, smNextBit { t with rd := rd, currByte := b, state := .nextBit 0x80 } 0x80)
    | (.ok none, rd) => (none, smPause { t with rd := rd, state := .pause })
  | .nextBit mask => (none, smNextBit t mask)
  | .bitHalf half mask =>
    let mask := mask >>> 1
    (none, { t with currBit := !t.currBit, delay := half,
                    state := if mask = 0 then .nextByte else .nextBit mask })
  | .pause => (none, smPause t)

/-- `Tap::process_clocks` -/
def processClocks (fixed : Bool) (t : Tap) (clocks : Nat) : Option Err × Tap :=
  if t.state = .stop then (none, t)
  else if t.delay > 0 then
    (none, { t with delay := if clocks > t.delay then 0 else t.delay - clocks })
  else fire fixed t

/-- one firing of the state machine: when (T-states since the start of the run, counting the call
that fired), the EAR level and the delay it left behind -/
structure Fire where
  time : Nat
  level : Bool
  delay : Nat
  deriving DecidableEq, Repr

/-- Drives `process_clocks` with a schedule of steps, starting at time `now`, and logs every firing
(a call that found a running tape with `delay = 0`), oldest first. Stops at the first error. -/
def runLog (fixed : Bool) : List Nat → Tap → Nat → Option Err × Tap × List Fire
  | [], t, _ => (none, t, [])
  | c :: cs, t, now =>
    let fired := t.state != .stop && t.delay == 0
    match processClocks fixed t c with
    | (some e, t') => (some e, t', [])
    | (none, t') =>
      let r := runLog fixed cs t' (now + c)
      (r.1, r.2.1, if fired then ⟨now + c, t'.currBit, t'.delay⟩ :: r.2.2 else r.2.2)

/-! ## Cassette commands (C12) -/

inductive DeckCmd
  | play | stop | rewind
  | advance (clocks : Nat)
  deriving DecidableEq, Repr

/-- One command applied to the tape; an error of `process_clocks` is kept in the first component. -/
def Tap.cmd (fixed : Bool) (t : Tap) : DeckCmd → Option Err × Tap
  | .play => (none, t.play)
  | .stop => (none, t.stop fixed)
  | .rewind => (none, t.rewind fixed)
  | .advance n => processClocks fixed t n

/-! ## Memory and the registers `fast_load_tap` touches -/

/-- 64 K address space; a store below 0x4000 (ROM in every configuration in which the trap is
armed) is ignored. Kept as base contents plus a write log so that the driver can read results
back cheaply. -/
structure Mem where
  base : BitVec 16 → Byte
  writes : List (BitVec 16 × Byte) := []

def Mem.read (m : Mem) (a : BitVec 16) : Byte :=
  match m.writes.find? (fun w => w.1 = a) with
  | some w => w.2
  | none => m.base a

def Mem.write (m : Mem) (a : BitVec 16) (v : Byte) : Mem :=
  if a.toNat < 0x4000 then m else { m with writes := (a, v) :: m.writes }

structure Cpu where
  a : Byte
  f : Byte
  a' : Byte
  f' : Byte
  ix : BitVec 16
  de : BitVec 16
  hl : BitVec 16
  sp : BitVec 16
  pc : BitVec 16
  deriving DecidableEq, Repr

def FLAG_CARRY : Byte := 0x01
def FLAG_ZERO : Byte := 0x40

def Cpu.swapAf (c : Cpu) : Cpu := { c with a := c.a', f := c.f', a' := c.a, f' := c.f }

/-- `Z80::pop_pc_from_stack` -/
def Cpu.popPc (c : Cpu) (m : Mem) : Cpu :=
  let l := m.read c.sp
  let h := m.read (c.sp + 1)
  { c with sp := c.sp + 2, pc := BitVec.ofNat 16 (l.toNat + 256 * h.toNat) }

/-- the local variables of `fast_load_tap` -/
structure LoadSt where
  acc : Byte
  f : Byte
  dest : BitVec 16
  len : BitVec 16
  parity : Byte := 0
  cur : Byte := 0
  deriving DecidableEq, Repr

/-- The `'loader` loop; result: final locals and `result_flags` (always `Some` when the loop ends
normally). -/
def loadLoop : Nat → LoadSt → Mem → Reader → Except Err (LoadSt × Byte) × Mem × Reader
  | 0, _, m, r => (.error .fuel, m, r)
  | n + 1, s, m, r =>
    match nextBlockByte r with
    | (.error e, r) => (.error e, m, r)
    | (.ok none, r) => (.ok (s, FLAG_ZERO), m, r)
    | (.ok (some b), r) =>
      let s := { s with cur := b, parity := s.parity ^^^ b }
      if s.len = (0 : BitVec 16) then
        let s := { s with acc := s.parity }
        (.ok (s, if s.acc = 0 then FLAG_CARRY else 0), m, r)
      else if s.f &&& FLAG_ZERO = 0 then
        let s := { s with acc := s.acc ^^^ b }
        if s.acc ≠ 0 then (.ok (s, 0), m, r)
        else loadLoop n { s with f := s.f ||| FLAG_ZERO } m r
      else if s.f &&& FLAG_CARRY ≠ 0 then
        loadLoop n { s with dest := s.dest + 1, len := s.len - 1 } (m.write s.dest b) r
      else
        let s := { s with acc := m.read s.dest ^^^ b }
        if s.acc ≠ 0 then (.ok (s, 0), m, r)
        else loadLoop n { s with dest := s.dest + 1, len := s.len - 1 } m r

/-- "set regs to new state", RET, new flags -/
def Cpu.finish (c : Cpu) (s : LoadSt) (flags : Byte) (m : Mem) : Cpu :=
  let c := { c with ix := s.dest, de := s.len,
                    hl := BitVec.ofNat 16 (s.cur.toNat + 256 * s.parity.toNat), a := s.acc }
  { c.popPc m with f := flags }

/-- everything after `next_block()` returned true -/
def fastLoadBody (c : Cpu) (m : Mem) (t : Tap) (rd : Reader) : Option Err × Cpu × Mem × Tap :=
  let s : LoadSt := { acc := c.a, f := c.f, dest := c.ix, len := c.de }
  match loadLoop 65537 s m rd with
  | (.error e, m, rd) => (some e, c, m, { t with rd := rd })
  | (.ok (s, flags), m, rd) => (none, c.finish s flags m, m, { t with rd := rd })

/-- `fast_load_tap`. `fixed = false`: AF is swapped before the tape is asked for a block (the code
as it is); `fixed = true`: the block is requested first (proposed_fixes/C10-1.diff). -/
def fastLoadTap (fixed : Bool) (c : Cpu) (m : Mem) (t : Tap) : Option Err × Cpu × Mem × Tap :=
  if fixed then
    match nextBlock t.rd with
    | (.error e, rd) => (some e, c, m, { t with rd := rd })
    | (.ok false, rd) => (none, c, m, { t with rd := rd })
    | (.ok true, rd) => fastLoadBody c.swapAf m t rd
  else
    let c := c.swapAf
    match nextBlock t.rd with
    | (.error e, rd) => (some e, c, m, { t with rd := rd })
    | (.ok false, rd) => (none, c, m, { t with rd := rd })
    | (.ok true, rd) => fastLoadBody c m t rd

/-- `Emulator::process_fast_load_event` (`fast_load` setting enabled) -/
def fastLoadEvent (fixed : Bool) (c : Cpu) (m : Mem) (t : Tap) : Option Err × Cpu × Mem × Tap :=
  if t.canFastLoad then fastLoadTap fixed c m t else (none, c, m, t)

/-! ## ROM glue around the trap (system level)

A call of ROM 0x0556 reaches the trap address 0x056B after `INC D; EX AF,AF'; DEC D; DI; …;
PUSH 0x053F (SA/LD-RET); …; CP A`. What matters of that prologue: A'F' hold the caller's A and
the flags of `INC D` (Z set iff D was 0xFF, carry untouched), F has Z set, 0x053F is on the stack.
After the trap the ROM continues at the popped address (SA/LD-RET returns to the caller keeping
AF) or, when the trap did not return, with `RET NZ` at 0x056B. These few ROM instructions are
modelled here so that the system-level run can be compared; they are validated by that run. -/

structure Request where
  a : Byte
  load : Bool        -- carry at entry: LOAD (true) or VERIFY (false)
  ix : BitVec 16
  de : BitVec 16
  deriving DecidableEq, Repr

inductive SysOutcome
  | returned (carry : Bool)     -- control came back to the caller of 0x0556
  | loops                       -- the ROM went on into its own edge-polling loop (silent tape)
  | error (e : Err)
  deriving DecidableEq, Repr

def SA_LD_RET : BitVec 16 := 0x053F
def LD_BREAK : BitVec 16 := 0x056B

/-- flags after the prologue's `INC D` as far as LD-BYTES looks at them -/
def prologFlags (r : Request) : Byte :=
  (if r.de.toNat / 256 = 255 then FLAG_ZERO else 0) ||| (if r.load then FLAG_CARRY else 0)

/-- CPU at the trap: `sp` is the caller's SP after its CALL (return address on top). -/
def cpuAtTrap (r : Request) (sp : BitVec 16) : Cpu :=
  { a := 0x02, f := 0x42, a' := r.a, f' := prologFlags r, ix := r.ix, de := r.de,
    hl := SA_LD_RET, sp := sp - 2, pc := LD_BREAK }

def memAtTrap (m : Mem) (sp : BitVec 16) : Mem :=
  (m.write (sp - 1) 0x05).write (sp - 2) 0x3F

/-- A call of 0x0556 with fast loading enabled and the tape stopped. -/
def sysCall (fixed : Bool) (r : Request) (sp : BitVec 16) (m : Mem) (t : Tap) :
    SysOutcome × Cpu × Mem × Tap :=
  match fastLoadEvent fixed (cpuAtTrap r sp) (memAtTrap m sp) t with
  | (some e, c, m, t) => (.error e, c, m, t)
  | (none, c, m, t) =>
    if c.pc = SA_LD_RET then (.returned (c.f &&& FLAG_CARRY != 0), c, m, t)
    else if c.pc = LD_BREAK then
      -- RET NZ at 0x056B
      if c.f &&& FLAG_ZERO = 0 then (.returned (c.f &&& FLAG_CARRY != 0), c, m, t)
      else (.loops, c, m, t)
    else (.error .fuel, c, m, t)   -- stack overwritten by the load: not explored by the check

end ZxVerif.Tape
