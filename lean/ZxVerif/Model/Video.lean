/-
Model of the video devices of rustzx-core (C08 screen decode, C09 border):
  rustzx-core/src/utils/screen.rs        bitmap_line_addr, bitmap_line_rel, bitmap_col_rel, attr_row_rel, attr_col_rel
  rustzx-core/src/zx/video/colors.rs     ZXColor (3 bits), ZXBrightness, ZXAttribute (from_byte, active_color)
  rustzx-core/src/zx/video/screen.rs     BlocksCount (from_clocks, passed_from), ZXScreen (update, process_clocks,
                                         new_frame, switch_bank)
  rustzx-core/src/zx/video/border.rs     ZXBorder (next_border_pixel, fill_to, set_border, new_frame)
  rustzx-core/src/zx/machine/mod.rs      the constants of both machines, contention_clocks, bank_is_contended
  rustzx-core/src/zx/memory.rs           ZXMemory (read, write, force_write, remap, page data)
  rustzx-core/src/zx/controller.rs       wait_internal, new_frame, write_internal, write (wait_mreq), write_7ffd,
                                         set_border_color, ULA branch of write_io, refresh_memory_dependent_devices
  rustzx-core/src/emulator/mod.rs        execute_poke (force_write: does NOT touch the screen cache)
  rustzx-core/src/emulator/screenshot/scr.rs  load
Hand transcription of what the code does; tied to the code by the C08/C09 correspondence checks.
Arrays are `Array` with `getD`/`setIfInBounds` (all indices are in range in reachable states, see
`Lemmas/Video.lean`); frame buffers are arrays of pixel codes (`pxCode`), index `y * width + x`.
No Mathlib imports here: this file is linked into the native driver.
-/
namespace ZxVerif.Video

/-! ## Machines and constants (machine/mod.rs, constants.rs) -/

inductive Machine | k48 | k128
  deriving DecidableEq, Repr, Inhabited

/-- `clocks_first_pixel` -/
def Machine.firstPixel : Machine → Nat
  | .k48 => 14336
  | .k128 => 14362

/-- `clocks_line` = left border + screen + right border + retrace -/
def Machine.clocksLine : Machine → Nat
  | .k48 => 224    -- 24 + 128 + 24 + 48
  | .k128 => 228   -- 24 + 128 + 24 + 52

/-- `clocks_frame` = (lines_all + lines_vsync) * clocks_line -/
def Machine.clocksFrame : Machine → Nat
  | .k48 => 69888    -- (48 + 192 + 48 + 24) * 224
  | .k128 => 70908   -- (48 + 192 + 48 + 23) * 228

/-- `clocks_ula_read_origin` = first pixel + `clocks_ula_read_shift` (2) -/
def Machine.ulaReadOrigin : Machine → Nat
  | .k48 => 14338    -- 14336 + 2
  | .k128 => 14364   -- 14362 + 2

/-- `clocks_ula_beam_shift` -/
def ulaBeamShift : Nat := 1

def canvasWidth : Nat := 256
def canvasHeight : Nat := 192
def attrCols : Nat := 32
def attrRows : Nat := 24
def borderCols : Nat := 4
def borderRows : Nat := 3
def clocksPerCol : Nat := 4
def pixelsPerClock : Nat := 2
def screenWidth : Nat := 320   -- CANVAS_WIDTH + BORDER_COLS * 8 * 2
def screenHeight : Nat := 240  -- CANVAS_HEIGHT + BORDER_ROWS * 8 * 2
def pageSize : Nat := 16384

/-- `ZXMachine::bank_is_contended` -/
def Machine.bankIsContended : Machine → Nat → Bool
  | .k48, page => page == 0
  | .k128, page => page == 1 || page == 3 || page == 5 || page == 7

/-- `contention_pattern` -/
def contentionPattern (i : Nat) : Nat :=
  match i with
  | 0 => 6 | 1 => 5 | 2 => 4 | 3 => 3 | 4 => 2 | 5 => 1 | _ => 0

/-- `ZXMachine::contention_clocks` -/
def Machine.contentionClocks (m : Machine) (clocks : Nat) : Nat :=
  if clocks < m.firstPixel - 1 ∨ clocks ≥ (m.firstPixel - 1) + 192 * m.clocksLine then 0
  else
    let t := (clocks - (m.firstPixel - 1)) % m.clocksLine
    if t ≥ 128 then 0 else contentionPattern (t % 8)

/-! ## Address helpers (utils/screen.rs) -/

/-- `bitmap_line_addr` (the Rust asserts `line < 192`) -/
def bitmapLineAddr (line : Nat) : BitVec 16 :=
  BitVec.ofNat 16 (0x4000 ||| ((line <<< 5) &&& 0x1800) ||| ((line <<< 8) &&& 0x0700) ||| ((line <<< 2) &&& 0x00E0))

/-- `bitmap_line_rel` as a byte computation (the Rust asserts `addr < 0x1800`) -/
def bitmapLineRelBv (addr : BitVec 16) : BitVec 8 :=
  let l : BitVec 8 := addr.setWidth 8
  let h : BitVec 8 := (addr >>> 8).setWidth 8
  (h &&& 0x07) ||| ((l >>> 2) &&& 0x38) ||| ((h <<< 3) &&& 0xC0)

def bitmapLineRel (addr : BitVec 16) : Nat := (bitmapLineRelBv addr).toNat

/-- `bitmap_col_rel` -/
def bitmapColRelBv (addr : BitVec 16) : BitVec 8 := (addr.setWidth 8) &&& 0x1F

def bitmapColRel (addr : BitVec 16) : Nat := (bitmapColRelBv addr).toNat

/-- `attr_row_rel` (the Rust asserts `0x1800 ≤ addr ≤ 0x1AFF`) -/
def attrRowRel (addr : BitVec 16) : Nat := (addr.toNat - 0x1800) / 32

/-- `attr_col_rel` -/
def attrColRel (addr : BitVec 16) : Nat := (addr.toNat - 0x1800) % 32

/-! ## Colours and attributes (colors.rs) -/

/-- what a `FrameBuffer::set_color(x, y, color, brightness)` call leaves at a pixel:
colour in bits 0-2, brightness in bit 3 -/
abbrev Px := BitVec 8

def pxCode (color : BitVec 3) (bright : Bool) : Px :=
  color.setWidth 8 ||| (if bright then 8#8 else 0#8)

/-- a pixel no `set_color` call has reached yet -/
def pxUnpainted : Px := 0xFF#8

/-- `ZXAttribute` -/
structure Attr where
  ink : BitVec 3
  paper : BitVec 3
  bright : Bool
  flash : Bool
  deriving DecidableEq, Repr, Inhabited

/-- `ZXAttribute::from_byte` -/
def Attr.fromByte (d : BitVec 8) : Attr :=
  { ink := (d &&& 0x07).setWidth 3
    paper := ((d >>> 3) &&& 0x07).setWidth 3
    flash := (d &&& 0x80) != 0
    bright := (d &&& 0x40) != 0 }

/-- `ZXAttribute::active_color` -/
def Attr.activeColor (a : Attr) (state enableFlash : Bool) : BitVec 3 :=
  if state ^^ (a.flash && enableFlash) then a.ink else a.paper

/-! ## ZXScreen (video/screen.rs) -/

/-- `BlocksCount` -/
structure Blocks where
  lines : Nat
  cols : Nat
  deriving DecidableEq, Repr, Inhabited

/-- `BlocksCount::from_clocks` -/
def Blocks.fromClocks (m : Machine) (clocks : Nat) : Blocks :=
  if clocks < m.ulaReadOrigin then ⟨0, 0⟩
  else
    let c := clocks - m.ulaReadOrigin
    let lines := c / m.clocksLine
    let cols := (c % m.clocksLine) / clocksPerCol + 1
    let over := cols > attrCols
    let lines := if over then lines + 1 else lines
    let cols := if over then 0 else cols
    if lines ≥ canvasHeight then ⟨canvasHeight, 0⟩ else ⟨lines, cols⟩

/-- `BlocksCount::passed_from` (`usize` subtraction; never negative while the clock is monotone
within a frame, which the controller guarantees) -/
def Blocks.passedFrom (self prev : Blocks) : Nat :=
  if self.lines < prev.lines then attrCols - prev.cols
  else if self.lines = prev.lines then self.cols - prev.cols
  else (attrCols - prev.cols) + (self.lines - prev.lines - 1) * attrCols + self.cols

/-- linear index of the first block not yet rendered -/
def Blocks.idx (b : Blocks) : Nat := b.lines * attrCols + b.cols

/-- `ScreenBank` -/
structure Bank where
  attrs : Array Attr            -- ATTR_COLS * ATTR_ROWS
  bitmap : Array (BitVec 8)     -- ATTR_COLS * CANVAS_HEIGHT, by line * 32 + col
  deriving Inhabited

def Bank.empty : Bank :=
  { attrs := Array.replicate (32 * 24) (Attr.fromByte 0), bitmap := Array.replicate (32 * 192) 0 }

/-- `ZXScreen` -/
structure Screen where
  machine : Machine
  last : Blocks := ⟨0, 0⟩
  flash : Bool := false
  frameCounter : Nat := 0
  front : Array Px            -- `buffer` (what `frame_buffer()` hands out)
  back : Array Px             -- `back_buffer`
  bank0 : Bank := Bank.empty
  bank1 : Bank := Bank.empty
  active : Bool := false      -- `active_bank` (false = 0, true = 1)
  deriving Inhabited

def Screen.new (m : Machine) : Screen :=
  { machine := m
    front := Array.replicate (256 * 192) pxUnpainted
    back := Array.replicate (256 * 192) pxUnpainted }

def Screen.bank (s : Screen) (i : Bool) : Bank := if i then s.bank1 else s.bank0

/-- `self.banks[i]` modified in place -/
def Screen.modifyBank (s : Screen) (i : Bool) (f : Bank → Bank) : Screen :=
  if i then { s with bank1 := f s.bank1 } else { s with bank0 := f s.bank0 }

def Bank.setBitmap (bk : Bank) (i : Nat) (v : BitVec 8) : Bank :=
  { bk with bitmap := bk.bitmap.setIfInBounds i v }

def Bank.setAttr (bk : Bank) (i : Nat) (a : Attr) : Bank :=
  { bk with attrs := bk.attrs.setIfInBounds i a }

/-- `local_bank` -/
def localBank (m : Machine) (bank : Nat) : Option Bool :=
  match m with
  | .k48 => if bank = 0 then some false else none
  | .k128 => if bank = 5 then some false else if bank = 7 then some true else none

/-- `switch_bank` -/
def Screen.switchBank (s : Screen) (bank : Nat) : Screen :=
  match localBank s.machine bank with
  | some b => { s with active := b }
  | none => s

/-- the colour/brightness `process_clocks` paints at pixel `pixel` of block `block` -/
def renderPixel (bank : Bank) (flash : Bool) (block pixel : Nat) : Px :=
  let bitmap := bank.bitmap.getD block 0
  let attrRow := block / (attrCols * 8)
  let attrCol := block % attrCols
  let attr := bank.attrs.getD (attrRow * attrCols + attrCol) default
  let state := ((bitmap <<< pixel) &&& 0x80#8) != 0#8
  pxCode (attr.activeColor state flash) attr.bright

/-- the inner loop `for pixel in 0..8 { set_color(..) }` (`n` = pixels left, `pixel` = loop variable);
`set_color(x, y)` with `x = (block % 32) * 8 + pixel`, `y = block / 32`, i.e. buffer index `y * 256 + x` -/
def drawPixels (bank : Bank) (flash : Bool) (block : Nat) : (n : Nat) → (pixel : Nat) → Array Px → Array Px
  | 0, _, c => c
  | n + 1, pixel, c =>
    drawPixels bank flash block n (pixel + 1)
      (c.setIfInBounds ((block / attrCols) * canvasWidth + (block % attrCols) * 8 + pixel)
        (renderPixel bank flash block pixel))

/-- the outer loop `for block in prev_block..curr_block` (`n` = number of blocks left) -/
def drawBlocks (bank : Bank) (flash : Bool) : (n : Nat) → (block : Nat) → Array Px → Array Px
  | 0, _, c => c
  | n + 1, block, c => drawBlocks bank flash n (block + 1) (drawPixels bank flash block 8 0 c)

/-- `process_clocks` -/
def Screen.processClocks (s : Screen) (clocks : Nat) : Screen :=
  let blocks := Blocks.fromClocks s.machine clocks
  let count := blocks.passedFrom s.last
  if count > 0 then
    let prev := s.last.idx
    let curr := blocks.idx
    { s with back := drawBlocks (s.bank s.active) s.flash (curr - prev) prev s.back, last := blocks }
  else s

/-- `new_frame` -/
def Screen.newFrame (s : Screen) : Screen :=
  { s with
    front := s.back
    back := s.front
    last := ⟨0, 0⟩
    flash := if s.frameCounter % 16 = 0 then !s.flash else s.flash
    frameCounter := s.frameCounter + 1 }

/-- `update` -/
def Screen.update (s : Screen) (rel : BitVec 16) (bank : Nat) (data : BitVec 8) : Screen :=
  match localBank s.machine bank with
  | none => s
  | some b =>
    if rel.toNat ≤ 0x17FF then
      let line := bitmapLineRel rel
      let col := bitmapColRel rel
      s.modifyBank b (·.setBitmap (line * attrCols + col) data)
    else if rel.toNat ≤ 0x1AFF then
      let row := attrRowRel rel
      let col := attrColRel rel
      s.modifyBank b (·.setAttr (row * attrCols + col) (Attr.fromByte data))
    else s

/-! ## ZXBorder (video/border.rs) -/

/-- `BeamInfo` -/
structure Beam where
  line : Nat
  pixel : Nat
  color : BitVec 3
  deriving DecidableEq, Repr, Inhabited

/-- `ZXBorder` -/
structure Border where
  machine : Machine
  buf : Array Px                 -- 320 x 240
  beamLast : Beam := ⟨0, 0, 7⟩  -- `BeamInfo::first_pixel(ZXColor::White)`
  changed : Bool := true         -- `border_changed`
  block : Bool := false          -- `beam_block`
  deriving Inhabited

def Border.new (m : Machine) : Border :=
  { machine := m, buf := Array.replicate (320 * 240) pxUnpainted }

/-- `clocks_origin` of `next_border_pixel`:
`clocks_first_pixel - 8 * BORDER_ROWS * clocks_line - BORDER_COLS * CLOCKS_PER_COL + clocks_ula_beam_shift` -/
def Machine.borderOrigin : Machine → Nat
  | .k48 => 8945    -- 14336 - 8 * 3 * 224 - 4 * 4 + 1
  | .k128 => 8875   -- 14362 - 8 * 3 * 228 - 4 * 4 + 1

/-- `next_border_pixel` : (line, pixel, frame_end) -/
def nextBorderPixel (m : Machine) (clocks : Nat) : Nat × Nat × Bool :=
  if clocks < m.borderOrigin then (0, 0, false)
  else
    let c := clocks - m.borderOrigin
    let line := c / m.clocksLine
    let pixel := ((c % m.clocksLine) + 1) * pixelsPerClock
    let over := pixel - pixelsPerClock ≥ screenWidth
    let line := if over then line + 1 else line
    let pixel := if over then 0 else pixel
    if line ≥ screenHeight then (0, 0, true) else (line, pixel, false)

/-- `for p in from..to { set_color(p % 320, p / 320, color, Normal) }` (`n` = pixels left) -/
def fillRange (buf : Array Px) (color : BitVec 3) (p : Nat) : (n : Nat) → Array Px
  | 0 => buf
  | n + 1 => fillRange (buf.setIfInBounds ((p / screenWidth) * screenWidth + p % screenWidth) (pxCode color false)) color (p + 1) n

/-- `fill_to` -/
def Border.fillTo (b : Border) (line pixel : Nat) : Border :=
  let lo := b.beamLast.line * screenWidth + b.beamLast.pixel
  let hi := line * screenWidth + pixel
  { b with buf := fillRange b.buf b.beamLast.color lo (hi - lo) }

/-- `new_frame` -/
def Border.newFrame (b : Border) : Border :=
  let b := if !b.changed then { b with beamLast := { b.beamLast with line := 0, pixel := 0 } } else b
  let b := if !b.block then b.fillTo (screenHeight - 1) screenWidth else b
  { b with beamLast := { b.beamLast with line := 0, pixel := 0 }, changed := false, block := false }

/-- `set_border` -/
def Border.setBorder (b : Border) (clocks : Nat) (color : BitVec 3) : Border :=
  let b := { b with changed := true }
  let (line, pixel, frameEnd) := nextBorderPixel b.machine clocks
  let b :=
    if !b.block then
      let b := if frameEnd then { b.fillTo (screenHeight - 1) screenWidth with block := true } else b
      b.fillTo line pixel
    else b
  { b with beamLast := ⟨line, pixel, color⟩ }

/-! ## ZXMemory (memory.rs) -/

inductive Page
  | ram (n : Nat)
  | rom (n : Nat)
  deriving DecidableEq, Repr, Inhabited

/-- `ZXMemory` -/
structure Mem where
  rom : Array (BitVec 8)
  ram : Array (BitVec 8)
  map : Array Page             -- 4 x 16K blocks
  deriving Inhabited

def Mem.new : Machine → Mem
  | .k48 => { rom := Array.replicate 16384 0, ram := Array.replicate (3 * 16384) 0,
              map := #[.rom 0, .ram 0, .ram 1, .ram 2] }
  | .k128 => { rom := Array.replicate (2 * 16384) 0, ram := Array.replicate (8 * 16384) 0,
               map := #[.rom 0, .ram 5, .ram 2, .ram 0] }

/-- `get_page` -/
def Mem.getPage (m : Mem) (addr : BitVec 16) : Page := m.map.getD (addr.toNat / pageSize) (.rom 0)

/-- `read` -/
def Mem.read (m : Mem) (addr : BitVec 16) : BitVec 8 :=
  match m.getPage addr with
  | .rom p => m.rom.getD (p * pageSize + addr.toNat % pageSize) 0
  | .ram p => m.ram.getD (p * pageSize + addr.toNat % pageSize) 0

/-- `write` (ROM is not writable) -/
def Mem.write (m : Mem) (addr : BitVec 16) (v : BitVec 8) : Mem :=
  match m.getPage addr with
  | .rom _ => m
  | .ram p => { m with ram := m.ram.setIfInBounds (p * pageSize + addr.toNat % pageSize) v }

/-- `force_write` -/
def Mem.forceWrite (m : Mem) (addr : BitVec 16) (v : BitVec 8) : Mem :=
  match m.getPage addr with
  | .rom p => { m with rom := m.rom.setIfInBounds (p * pageSize + addr.toNat % pageSize) v }
  | .ram p => { m with ram := m.ram.setIfInBounds (p * pageSize + addr.toNat % pageSize) v }

/-- `remap` (the page numbers the controller passes always exist) -/
def Mem.remap (m : Mem) (block : Nat) (p : Page) : Mem := { m with map := m.map.setIfInBounds block p }

/-- byte `off` of RAM page `bank` (`ram_page_data(bank)[off]`) -/
def Mem.ramByte (m : Mem) (bank off : Nat) : BitVec 8 := m.ram.getD (bank * pageSize + off) 0

/-- copies `bytes` to the start of RAM page `bank` (`ram_page_data_mut(bank)[..n].copy_from_slice` /
`read_exact`), touching nothing else -/
def copyBytes (ram : Array (BitVec 8)) (pos : Nat) : List (BitVec 8) → Array (BitVec 8)
  | [] => ram
  | b :: bs => copyBytes (ram.setIfInBounds pos b) (pos + 1) bs

def Mem.loadPage (m : Mem) (bank : Nat) (bytes : List (BitVec 8)) : Mem :=
  { m with ram := copyBytes m.ram (bank * pageSize) bytes }

/-! ## The controller parts that feed the video devices (controller.rs) -/

structure Ctl where
  machine : Machine
  mem : Mem
  screen : Screen
  border : Border
  borderColor : BitVec 3 := 0     -- `border_color` (ZXColor::Black at power-on)
  frameClocks : Nat := 0
  passedFrames : Nat := 0
  pagingEnabled : Bool
  screenBank : Nat
  port7ffd : BitVec 8 := 0
  deriving Inhabited

def Ctl.new (m : Machine) : Ctl :=
  { machine := m, mem := Mem.new m, screen := Screen.new m, border := Border.new m,
    pagingEnabled := (m == .k128), screenBank := if m == .k128 then 5 else 0 }

/-- `new_frame` -/
def Ctl.newFrame (c : Ctl) : Ctl :=
  { c with
    frameClocks := c.frameClocks - c.machine.clocksFrame
    screen := c.screen.newFrame
    border := c.border.newFrame }

/-- `wait_internal` -/
def Ctl.waitInternal (c : Ctl) (clk : Nat) : Ctl :=
  let c := { c with frameClocks := c.frameClocks + clk }
  let c := { c with screen := c.screen.processClocks c.frameClocks }
  if c.frameClocks ≥ c.machine.clocksFrame then
    let c := c.newFrame
    { c with passedFrames := c.passedFrames + 1 }
  else c

/-- `write_internal` -/
def Ctl.writeInternal (c : Ctl) (addr : BitVec 16) (data : BitVec 8) : Ctl :=
  let c := { c with mem := c.mem.write addr data }
  match c.mem.getPage addr with
  | .ram bank => { c with screen := c.screen.update (BitVec.ofNat 16 (addr.toNat % pageSize)) bank data }
  | .rom _ => c

/-- `addr_is_contended` -/
def Ctl.addrIsContended (c : Ctl) (addr : BitVec 16) : Bool :=
  match c.mem.getPage addr with
  | .ram bank => c.machine.bankIsContended bank
  | .rom _ => false

/-- `do_contention` -/
def Ctl.doContention (c : Ctl) : Ctl := c.waitInternal (c.machine.contentionClocks c.frameClocks)

/-- `do_contention_and_wait` -/
def Ctl.doContentionAndWait (c : Ctl) (w : Nat) : Ctl :=
  c.waitInternal (c.machine.contentionClocks c.frameClocks + w)

/-- `wait_mreq` -/
def Ctl.waitMreq (c : Ctl) (addr : BitVec 16) (clk : Nat) : Ctl :=
  let c := if c.addrIsContended addr then c.doContention else c
  c.waitInternal clk

/-- `Z80Bus::write` : the memory write cycle of the CPU -/
def Ctl.write (c : Ctl) (addr : BitVec 16) (data : BitVec 8) (clk : Nat) : Ctl :=
  (c.waitMreq addr clk).writeInternal addr data

/-- `write_7ffd` -/
def Ctl.write7ffd (c : Ctl) (v : BitVec 8) : Ctl :=
  if !c.pagingEnabled then c
  else
    let mem := c.mem.remap 3 (.ram (v &&& 0x07).toNat)
    let newBank := if v &&& 0x08 = 0 then 5 else 7
    let mem := mem.remap 0 (.rom ((v >>> 4) &&& 0x01).toNat)
    { c with
      port7ffd := v
      mem := mem
      screen := c.screen.switchBank newBank
      screenBank := newBank
      pagingEnabled := if v &&& 0x20 ≠ 0 then false else c.pagingEnabled }

/-- `set_border_color` (feature `precise-border` on) -/
def Ctl.setBorderColor (c : Ctl) (clocks : Nat) (color : BitVec 3) : Ctl :=
  { c with borderColor := color, border := c.border.setBorder clocks color }

/-- `io_contention_first` -/
def Ctl.ioContentionFirst (c : Ctl) (port : BitVec 16) : Ctl :=
  let c := if c.addrIsContended port then c.doContention else c
  c.waitInternal 1

/-- `io_contention_last` -/
def Ctl.ioContentionLast (c : Ctl) (port : BitVec 16) : Ctl :=
  if port &&& 1 = 0 then c.doContentionAndWait 2
  else if c.addrIsContended port then ((c.doContentionAndWait 1).doContentionAndWait 1).doContention
  else c.waitInternal 2

/-- `write_io` without an IO extender. The AY branches have no effect on the video devices (the
sound chip is not part of this model); the border colour is latched after the first contention
phase, at the frame clock reached then. -/
def Ctl.writeIo (c : Ctl) (port : BitVec 16) (data : BitVec 8) : Ctl :=
  let c := c.ioContentionFirst port
  let c :=
    if port &&& 0xC002 = 0xC000 then c
    else if port &&& 0xC002 = 0x8000 then c
    else if port &&& 0x0001 = 0 then c.setBorderColor c.frameClocks ((data &&& 0x07).setWidth 3)
    else if port &&& 0x8002 = 0 ∧ c.machine = .k128 then c.write7ffd data
    else c
  let c := c.ioContentionLast port
  c.waitInternal 1

/-- `for (idx, data) in ram_page_data(bank).iter().enumerate() { screen.update(idx, bank, data) }` -/
def refreshBank (s : Screen) (mem : Mem) (bank : Nat) : (n : Nat) → Screen
  | 0 => s
  | n + 1 =>
    let s := refreshBank s mem bank n
    s.update (BitVec.ofNat 16 n) bank (mem.ramByte bank n)

/-- `refresh_memory_dependent_devices` -/
def Ctl.refresh (c : Ctl) : Ctl :=
  match c.machine with
  | .k48 => { c with screen := refreshBank c.screen c.mem 0 pageSize }
  | .k128 => { c with screen := refreshBank (refreshBank c.screen c.mem 5 pageSize) c.mem 7 pageSize }

/-- `execute_poke` with one `PokeAction::Mem`: `force_write` only — the screen cache is NOT
refreshed (defect #3). `fixed = true` is the repaired behaviour (proposed_fixes/C08-1.diff):
a RAM poke goes through the same cache update as `write_internal`. -/
def Ctl.poke (fixed : Bool) (c : Ctl) (addr : BitVec 16) (v : BitVec 8) : Ctl :=
  let c := { c with mem := c.mem.forceWrite addr v }
  if fixed then
    match c.mem.getPage addr with
    | .ram bank => { c with screen := c.screen.update (BitVec.ofNat 16 (addr.toNat % pageSize)) bank v }
    | .rom _ => c
  else c

/-- `screenshot::scr::load` for a 6912-byte asset: the code generator writes `JP 0x8000` at 0x8000
through `Z80Bus::write(addr, byte, 0)`, then the bytes are copied into the RAM page mapped at
0x4000, then the cache is refreshed. (A ROM page at 0x4000 cannot occur: block 1 is never remapped.) -/
def Ctl.loadScr (c : Ctl) (bytes : List (BitVec 8)) : Ctl :=
  match c.mem.getPage 0x4000 with
  | .rom _ => c
  | .ram bank =>
    let c := c.write 0x8000 0xC3 0
    let c := c.write 0x8001 0x00 0
    let c := c.write 0x8002 0x80 0
    let c := { c with mem := c.mem.loadPage bank (bytes.take 6912) }
    c.refresh

/-- what a snapshot loader does to the video-relevant state: whole RAM pages are overwritten
(`ram_page_data_mut(bank)` + `read_exact`), then `refresh_memory_dependent_devices` -/
def Ctl.loadPages (c : Ctl) (pages : List (Nat × List (BitVec 8))) : Ctl :=
  let mem := pages.foldl (fun m (p : Nat × List (BitVec 8)) => m.loadPage p.1 (p.2.take pageSize)) c.mem
  ({ c with mem := mem }).refresh

/-! ## Operations, as one step function (what the theorems quantify over) -/

inductive Op
  | wait (clk : Nat)                                  -- `wait_internal` (time passing)
  | cpuWrite (addr : BitVec 16) (v : BitVec 8) (clk : Nat)   -- memory write cycle of the CPU
  | tapeWrite (addr : BitVec 16) (v : BitVec 8)       -- fast-load: `write_internal` without clocks
  | set7ffd (v : BitVec 8)                            -- `write_7ffd` called by a snapshot loader
  | out (port : BitVec 16) (v : BitVec 8)             -- `write_io`: OUT (port),v by the CPU
  | loadScr (bytes : List (BitVec 8))
  | loadPages (pages : List (Nat × List (BitVec 8)))  -- snapshot load
  | setBorder (color : BitVec 3)                      -- snapshot border: `set_border_color(0, c)`
  | poke (addr : BitVec 16) (v : BitVec 8)
  deriving Inhabited

def Ctl.step (fixed : Bool) (c : Ctl) : Op → Ctl
  | .wait clk => c.waitInternal clk
  | .cpuWrite a v clk => c.write a v clk
  | .tapeWrite a v => c.writeInternal a v
  | .set7ffd v => c.write7ffd v
  | .out p v => c.writeIo p v
  | .loadScr bs => c.loadScr bs
  | .loadPages ps => c.loadPages ps
  | .setBorder col => c.setBorderColor 0 col
  | .poke a v => c.poke fixed a v

def Ctl.run (fixed : Bool) (c : Ctl) (ops : List Op) : Ctl := ops.foldl (Ctl.step fixed) c

end ZxVerif.Video
