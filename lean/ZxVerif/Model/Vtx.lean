/-
Model of the VTX player and of the frame transposition of the VTX loader (C20):
  vtx/src/player.rs   Player::{new, update_ay, play}  (mono and stereo loops)
  vtx/src/lib.rs      Vtx::{frames_count, frame_registers}, the transposition loop of Vtx::load
Hand transcription; tied to the code by the C20 correspondence check.
The sound chip is an abstract backend (a deterministic state machine with `write_register` and
`next_sample`); `recorder` is the backend that logs the calls it receives.
No Mathlib imports here: this file is linked into the native driver.
-/
namespace ZxVerif.Vtx

/-- `AY_REGISTER_COUNT` -/
def regCount : Nat := 14

/-- What `Player` needs of an `AymBackend`: `write_register(addr, value)` and `next_sample()`
(one call yields the left/right pair; `α` stands for that pair). -/
structure Backend (σ α : Type) where
  write : σ → BitVec 8 → BitVec 8 → σ
  next : σ → σ × α

/-- One call received by a backend. -/
inductive Call
  | write (addr val : BitVec 8)
  | sample
  deriving DecidableEq, Repr, Inhabited

/-- Replays a list of calls on a backend: final state and the samples produced, in order. -/
def applyCalls (B : Backend σ α) : σ → List Call → σ × List α
  | s, [] => (s, [])
  | s, .write a v :: cs => applyCalls B (B.write s a v) cs
  | s, .sample :: cs =>
      let r := B.next s
      let rest := applyCalls B r.1 cs
      (rest.1, r.2 :: rest.2)

/-- The recording backend: its state is the list of calls received so far, newest first; the
sample it returns is the ordinal of the `next_sample` call. -/
structure RecState where
  rev : List Call := []
  samples : Nat := 0
  deriving Repr

def recorder : Backend RecState Nat where
  write s a v := { s with rev := .write a v :: s.rev }
  next s := ({ rev := .sample :: s.rev, samples := s.samples + 1 }, s.samples)

/-- calls received, oldest first -/
def RecState.log (s : RecState) : List Call := s.rev.reverse

/-- The fields of `Player` (`vtx.frame_data` is the only part of the `Vtx` the loops use). -/
structure Player (σ : Type) where
  frameData : List (BitVec 8)
  frame : Nat
  frameSample : Nat
  stereo : Bool
  spf : Nat
  ay : σ

/-- `Vtx::frames_count` -/
def framesCount (data : List (BitVec 8)) : Nat := data.length / regCount

/-- `Vtx::frame_registers`: `None` when `index*14 + 14` exceeds the data. -/
def frameRegisters (data : List (BitVec 8)) (index : Nat) : Option (List (BitVec 8)) :=
  let offset := index * regCount
  if offset + regCount > data.length then none
  else some ((data.drop offset).take regCount)

/-- the loop body of `update_ay`: register 13 is skipped when its value is 0xFF -/
def writeOne (B : Backend σ α) (ay : σ) (x : BitVec 8 × Nat) : σ :=
  if x.2 = 13 ∧ x.1 = 0xFF then ay else B.write ay (BitVec.ofNat 8 x.2) x.1

/-- `for (idx, value) in frame.iter().copied().enumerate()` -/
def writeRegs (B : Backend σ α) (ay : σ) (regs : List (BitVec 8)) : σ :=
  regs.zipIdx.foldl (writeOne B) ay

/-- `Player::update_ay`: `none` = returned `false` (no such frame) -/
def updateAy (B : Backend σ α) (p : Player σ) : Option (Player σ) :=
  match frameRegisters p.frameData p.frame with
  | some regs => some { p with ay := writeRegs B p.ay regs }
  | none => none

/-- One iteration of the sample loop of `Player::play` (the mono and the stereo loop have the
same body; a stereo iteration fills two buffer slots from one `next_sample`).
`none` = the early `return` because the log has ended. -/
def step (B : Backend σ α) (p : Player σ) : Option (Player σ × α) :=
  match (if p.frameSample = 0 then updateAy B p else some p) with
  | none => none
  | some p1 =>
    let r := B.next p1.ay
    let fs := p1.frameSample + 1
    if fs = p1.spf then
      some ({ p1 with ay := r.1, frameSample := 0, frame := p1.frame + 1 }, r.2)
    else
      some ({ p1 with ay := r.1, frameSample := fs }, r.2)

/-- `n` loop iterations, stopping at the early return. -/
def run (B : Backend σ α) : Nat → Player σ → Player σ × List α
  | 0, p => (p, [])
  | n + 1, p =>
    match step B p with
    | none => (p, [])
    | some (p', s) =>
      let r := run B n p'
      (r.1, s :: r.2)

/-- loop iterations offered by a buffer of length `n`: `chunks_exact_mut(2)` in stereo -/
def units (stereo : Bool) (n : Nat) : Nat := if stereo then n / 2 else n

/-- `Player::play` on a buffer of length `n`: new state and the samples (pairs in stereo) written
to the front of the buffer. -/
def play (B : Backend σ α) (p : Player σ) (n : Nat) : Player σ × List α :=
  run B (units p.stereo n) p

/-- the value `play` returns: filled buffer slots -/
def returned (stereo : Bool) (produced : Nat) : Nat := if stereo then produced * 2 else produced

/-- successive `play` calls with the given buffer lengths; outputs concatenated -/
def playMany (B : Backend σ α) : Player σ → List Nat → Player σ × List α
  | p, [] => (p, [])
  | p, n :: ns =>
    let r := play B p n
    let rest := playMany B r.1 ns
    (rest.1, r.2 ++ rest.2)

/-- `Player::new`: `none` = division by zero panic for `player_frequency = 0`. -/
def Player.new (data : List (BitVec 8)) (playerFrequency sampleRate : Nat) (stereo : Bool) (ay : σ) :
    Option (Player σ) :=
  if playerFrequency = 0 then none
  else some { frameData := data, frame := 0, frameSample := 0, stereo := stereo,
              spf := sampleRate / playerFrequency, ay := ay }

/-- the `AyMode` `Player::new` selects: the file's layout in stereo, `Mono` (0) otherwise -/
def modeIndex (stereo : Bool) (vtxStereo : Nat) : Nat := if stereo then vtxStereo else 0

/-- The transposition loop of `Vtx::load`: `frame_data[idx] = t[(idx % 14) * frames_count + idx / 14]`
with `frames_count = t.len() / 14`. (`getD`: the index is always in range, see
`transpose_index_in_range`; the Rust would panic otherwise.) -/
def transpose (t : List (BitVec 8)) : List (BitVec 8) :=
  let framesCount := t.length / regCount
  (List.range t.length).map fun idx =>
    t.getD ((idx % regCount) * framesCount + idx / regCount) 0

end ZxVerif.Vtx
