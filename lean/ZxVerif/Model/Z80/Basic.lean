/-
Shared Z80 model, part 1: CPU state, the abstract bus, derived bus operations.

Code under test (hand transcription of the *state* and the *bus interface*):
  rustzx-z80/src/cpu.rs        struct Z80 { regs, halted, skip_interrupt, int_mode, active_prefix }
  rustzx-z80/src/registers.rs  struct Regs
  rustzx-z80/src/bus.rs        trait Z80Bus (required methods = fields of `Bus`, provided methods =
                               `read`, `write`, `waitLoop`, `readWord`, `writeWord` below)
Core Lean only (linked into the native driver).
-/
namespace ZxVerif.Z80

/-- `Prefix` of opcode/types.rs: the prefix pending between two `emulate` calls. -/
inductive APfx | none | cb | dd | ed | fd
  deriving DecidableEq, Repr, Inhabited

/-- index prefix in force for the instruction being executed -/
inductive Pfx | none | dd | fd
  deriving DecidableEq, Repr, Inhabited

/-- Z80 + Regs. `im` is 0, 1 or 2. -/
structure Cpu where
  a : BitVec 8 := 0
  f : BitVec 8 := 0
  b : BitVec 8 := 0
  c : BitVec 8 := 0
  d : BitVec 8 := 0
  e : BitVec 8 := 0
  h : BitVec 8 := 0
  l : BitVec 8 := 0
  a' : BitVec 8 := 0
  f' : BitVec 8 := 0
  b' : BitVec 8 := 0
  c' : BitVec 8 := 0
  d' : BitVec 8 := 0
  e' : BitVec 8 := 0
  h' : BitVec 8 := 0
  l' : BitVec 8 := 0
  ixh : BitVec 8 := 0
  ixl : BitVec 8 := 0
  iyh : BitVec 8 := 0
  iyl : BitVec 8 := 0
  i : BitVec 8 := 0
  r : BitVec 8 := 0
  sp : BitVec 16 := 0
  pc : BitVec 16 := 0
  memptr : BitVec 16 := 0
  q : BitVec 8 := 0
  lastQ : BitVec 8 := 0
  iff1 : Bool := false
  iff2 : Bool := false
  im : Nat := 0
  halted : Bool := false
  skipInt : Bool := false
  activePrefix : APfx := .none
  deriving DecidableEq, Repr, Inhabited

/-- The required methods of `trait Z80Bus` (bus.rs). `readInternal` takes `&mut self` in Rust, hence
returns the bus. `int_active`/`nmi_active` are `&self`. `process_unknown_opcode` has an empty
default body and is not part of the model. -/
class Bus (β : Type) where
  waitMreq : BitVec 16 → Nat → β → β
  waitNoMreq : BitVec 16 → Nat → β → β
  waitInternal : Nat → β → β
  readInternal : BitVec 16 → β → BitVec 8 × β
  writeInternal : BitVec 16 → BitVec 8 → β → β
  readIo : BitVec 16 → β → BitVec 8 × β
  writeIo : BitVec 16 → BitVec 8 → β → β
  readInterrupt : β → BitVec 8 × β
  reti : β → β
  halt : Bool → β → β
  intActive : β → Bool
  nmiActive : β → Bool
  pcCallback : BitVec 16 → β → β

section busops
variable {β : Type} [Bus β]

/-- provided method `Z80Bus::read` -/
def read (a : BitVec 16) (clk : Nat) (b : β) : BitVec 8 × β :=
  Bus.readInternal a (Bus.waitMreq a clk b)

/-- provided method `Z80Bus::write` -/
def write (a : BitVec 16) (v : BitVec 8) (clk : Nat) (b : β) : β :=
  Bus.writeInternal a v (Bus.waitMreq a clk b)

/-- provided method `Z80Bus::wait_loop`: `n` separate one-T `wait_no_mreq` cycles -/
def waitLoop (a : BitVec 16) : Nat → β → β
  | 0, b => b
  | n + 1, b => waitLoop a n (Bus.waitNoMreq a 1 b)

end busops

def hi (w : BitVec 16) : BitVec 8 := w.extractLsb' 8 8
def lo (w : BitVec 16) : BitVec 8 := w.extractLsb' 0 8
/-- `u16::from_le_bytes([l, h])` -/
def mk16 (h l : BitVec 8) : BitVec 16 := h ++ l
/-- `x as i8 as i32` added to a 16-bit register -/
def sext (d : BitVec 8) : BitVec 16 := d.signExtend 16
def zext (d : BitVec 8) : BitVec 16 := d.setWidth 16

section busops2
variable {β : Type} [Bus β]

/-- provided method `Z80Bus::read_word` (LSB first) -/
def readWord (a : BitVec 16) (clk : Nat) (b : β) : BitVec 16 × β :=
  let r1 := read a clk b
  let r2 := read (a + 1) clk r1.2
  (mk16 r2.1 r1.1, r2.2)

/-- provided method `Z80Bus::write_word` (LSB first) -/
def writeWord (a : BitVec 16) (w : BitVec 16) (clk : Nat) (b : β) : β :=
  write (a + 1) (hi w) clk (write a (lo w) clk b)

end busops2

namespace Cpu
def bc (s : Cpu) : BitVec 16 := mk16 s.b s.c
def de (s : Cpu) : BitVec 16 := mk16 s.d s.e
def hl (s : Cpu) : BitVec 16 := mk16 s.h s.l
def af (s : Cpu) : BitVec 16 := mk16 s.a s.f
def ix (s : Cpu) : BitVec 16 := mk16 s.ixh s.ixl
def iy (s : Cpu) : BitVec 16 := mk16 s.iyh s.iyl
/-- `Regs::get_ir` -/
def ir (s : Cpu) : BitVec 16 := mk16 s.i s.r
def setBC (s : Cpu) (w : BitVec 16) : Cpu := { s with b := hi w, c := lo w }
def setDE (s : Cpu) (w : BitVec 16) : Cpu := { s with d := hi w, e := lo w }
def setHL (s : Cpu) (w : BitVec 16) : Cpu := { s with h := hi w, l := lo w }
def setIX (s : Cpu) (w : BitVec 16) : Cpu := { s with ixh := hi w, ixl := lo w }
def setIY (s : Cpu) (w : BitVec 16) : Cpu := { s with iyh := hi w, iyl := lo w }
/-- `set_reg_16(AF, _)`: writes F directly, Q is not touched -/
def setAF (s : Cpu) (w : BitVec 16) : Cpu := { s with a := hi w, f := lo w }
/-- `Regs::set_flags`: F and the Q latch -/
def setF (s : Cpu) (f : BitVec 8) : Cpu := { s with f := f, q := f }
/-- HL, IX or IY according to the index prefix -/
def idx (s : Cpu) : Pfx → BitVec 16
  | .none => s.hl | .dd => s.ix | .fd => s.iy
def setIdx (s : Cpu) (p : Pfx) (w : BitVec 16) : Cpu :=
  match p with
  | .none => s.setHL w | .dd => s.setIX w | .fd => s.setIY w
end Cpu

/-- `Regs::inc_r`: only the low 7 bits count -/
def incR (r : BitVec 8) : BitVec 8 := ((r + 1) &&& 0x7F) ||| (r &&& 0x80)

end ZxVerif.Z80
