/-
Shared Z80 model, part 4: instruction semantics and `emulate` (one call of `Z80::emulate`).

Written against the abstract bus in explicit pair-passing style (no monads): every function takes
the CPU and the bus and returns both. The order of bus operations is the order in which the Rust
code issues them (cpu.rs, opcode/*.rs), the results are those of an NMOS Z80.

`Variant.hw` is the reference (what the hardware does) and, since the repair in /repo
(`fix: MEMPTR after LD (nn),A and OUT (n),A …`, commit eaf876f), also what rustzx does.
`Variant.code` is rustzx *before that repair*: it differs only in the MEMPTR value left by
`LD (nn),A` and `OUT (n),A`, where the low byte was not masked (DESIGN §9 #1). It is kept so that the
defect stays stated formally (`code_memptr_violates`) and so that the harness can name the old
behaviour if it ever returns.

Modelled as the code behaves, ground truth not established (DESIGN §5): a halted CPU re-fetches
the HALT opcode at an unchanged PC; IM 0 acts like IM 1; the repeat cycle of LDIR/LDDR/CPIR/CPDR
re-derives F bits 5/3 from PC without refreshing the Q latch; INIR/INDR/OTIR/OTDR repeat cycles
leave MEMPTR as INI/IND/OUTI/OUTD set it.
-/
import ZxVerif.Model.Z80.Flags
import ZxVerif.Model.Z80.Instr
set_option linter.constructorNameAsVariable false
namespace ZxVerif.Z80

inductive Variant | hw | code
  deriving DecidableEq, Repr, Inhabited

section
variable {β : Type} [Bus β]

/-! ### register access -/

/-- `get_reg_8(reg.with_prefix(p))` for a register operand (`m` is handled by the callers) -/
def getR8 (p : Pfx) (r : R8) (s : Cpu) : BitVec 8 :=
  match r with
  | .b => s.b | .c => s.c | .d => s.d | .e => s.e | .a => s.a
  | .h => match p with | .none => s.h | .dd => s.ixh | .fd => s.iyh
  | .l => match p with | .none => s.l | .dd => s.ixl | .fd => s.iyl
  | .m => 0

def setR8 (p : Pfx) (r : R8) (v : BitVec 8) (s : Cpu) : Cpu :=
  match r with
  | .b => { s with b := v } | .c => { s with c := v } | .d => { s with d := v }
  | .e => { s with e := v } | .a => { s with a := v }
  | .h => match p with
    | .none => { s with h := v } | .dd => { s with ixh := v } | .fd => { s with iyh := v }
  | .l => match p with
    | .none => { s with l := v } | .dd => { s with ixl := v } | .fd => { s with iyl := v }
  | .m => s

def getRP (p : Pfx) (rp : RP) (s : Cpu) : BitVec 16 :=
  match rp with
  | .bc => s.bc | .de => s.de | .hl => s.idx p | .sp => s.sp

def setRP (p : Pfx) (rp : RP) (w : BitVec 16) (s : Cpu) : Cpu :=
  match rp with
  | .bc => s.setBC w | .de => s.setDE w | .hl => s.setIdx p w | .sp => { s with sp := w }

def getRP2 (p : Pfx) (rp : RP2) (s : Cpu) : BitVec 16 :=
  match rp with
  | .bc => s.bc | .de => s.de | .hl => s.idx p | .af => s.af

def setRP2 (p : Pfx) (rp : RP2) (w : BitVec 16) (s : Cpu) : Cpu :=
  match rp with
  | .bc => s.setBC w | .de => s.setDE w | .hl => s.setIdx p w | .af => s.setAF w

/-- `FlagsCondition::eval` -/
def Cond.eval (c : Cond) (f : BitVec 8) : Bool :=
  match c with
  | .nz => !tst f FZ | .z => tst f FZ | .nc => !tst f FC | .c => tst f FC
  | .po => !tst f FPV | .pe => tst f FPV | .p => !tst f FS | .m => tst f FS

/-! ### fetch, stack -/

/-- `Z80::fetch_byte` -/
def fetchByte (clk : Nat) (s : Cpu) (b : β) : BitVec 8 × Cpu × β :=
  let r := read s.pc clk b
  (r.1, { s with pc := s.pc + 1 }, r.2)

/-- `Z80::fetch_word` -/
def fetchWord (clk : Nat) (s : Cpu) (b : β) : BitVec 16 × Cpu × β :=
  let r1 := read s.pc clk b
  let r2 := read (s.pc + 1) clk r1.2
  (mk16 r2.1 r1.1, { s with pc := s.pc + 2 }, r2.2)

/-- `execute_push_16`: high byte to SP-1, low byte to SP-2 -/
def push16 (w : BitVec 16) (clk : Nat) (s : Cpu) (b : β) : Cpu × β :=
  let b := write (s.sp - 1) (hi w) clk b
  let b := write (s.sp - 2) (lo w) clk b
  ({ s with sp := s.sp - 2 }, b)

/-- `execute_pop_16` (the target register is set by the caller) -/
def pop16 (clk : Nat) (s : Cpu) (b : β) : BitVec 16 × Cpu × β :=
  let r1 := read s.sp clk b
  let r2 := read (s.sp + 1) clk r1.2
  (mk16 r2.1 r1.1, { s with sp := s.sp + 2 }, r2.2)

/-- Address of the `(HL)` / `(IX+d)` / `(IY+d)` operand: unprefixed it is HL and costs nothing;
prefixed the displacement is read at PC (3 T), five 1-T cycles at PC follow, PC advances and
MEMPTR takes the address (`build_addr_with_offset`). -/
def operandAddr (p : Pfx) (s : Cpu) (b : β) : BitVec 16 × Cpu × β :=
  match p with
  | .none => (s.hl, s, b)
  | _ =>
    let r := read s.pc 3 b
    let b := waitLoop s.pc 5 r.2
    let addr := s.idx p + sext r.1
    (addr, { s with pc := s.pc + 1, memptr := addr }, b)

/-! ### unprefixed page (also under DD/FD) -/

def execAlu (op : BitVec 3) (v : BitVec 8) (s : Cpu) : Cpu :=
  let r := Spec.alu8 op s.a v (tst s.f FC)
  { s with a := r.1, f := r.2, q := r.2 }

/-- conditional/unconditional CALL after the low address byte has been fetched -/
def execCall (taken : Bool) (setMp : Bool) (s : Cpu) (b : β) : Cpu × β :=
  let l := fetchByte 3 s b
  let s := l.2.1
  let h := read s.pc 3 l.2.2
  let b := h.2
  let addr := mk16 h.1 l.1
  let s := if setMp then { s with memptr := addr } else s
  if taken then
    let b := Bus.waitNoMreq s.pc 1 b
    let s := { s with pc := s.pc + 1 }
    let sb := push16 s.pc 3 s b
    ({ sb.1 with pc := addr, memptr := addr }, sb.2)
  else
    ({ s with pc := s.pc + 1 }, b)

def exec (v : Variant) (p : Pfx) (i : Instr) (s : Cpu) (b : β) : Cpu × β :=
  match i with
  | .nop => (s, b)
  | .exAF => ({ s with a := s.a', f := s.f', a' := s.a, f' := s.f }, b)
  | .djnz =>
    let b := Bus.waitNoMreq s.ir 1 b
    let r := read s.pc 3 b
    let nb := s.b - 1
    let s := { s with b := nb }
    if nb != 0 then
      let b := waitLoop s.pc 5 r.2
      let pc := s.pc + sext r.1 + 1
      ({ s with pc := pc, memptr := pc }, b)
    else ({ s with pc := s.pc + 1 }, r.2)
  | .jr =>
    let r := read s.pc 3 b
    let b := waitLoop s.pc 5 r.2
    let pc := s.pc + sext r.1 + 1
    ({ s with pc := pc, memptr := pc }, b)
  | .jrcc c =>
    let r := read s.pc 3 b
    if c.eval s.f then
      let b := waitLoop s.pc 5 r.2
      let pc := s.pc + sext r.1 + 1
      ({ s with pc := pc, memptr := pc }, b)
    else ({ s with pc := s.pc + 1 }, r.2)
  | .ldRpNN rp =>
    let w := fetchWord 3 s b
    (setRP p rp w.1 w.2.1, w.2.2)
  | .addHL rp =>
    let b := waitLoop s.ir 7 b
    let acc := s.idx p
    let r := Spec.add16 acc (getRP p rp s) s.f
    ((({ s with memptr := acc + 1 }).setF r.2).setIdx p r.1, b)
  | .ldBCA =>
    let b := write s.bc s.a 3 b
    ({ s with memptr := mk16 s.a (lo (s.bc + 1)) }, b)
  | .ldDEA =>
    let b := write s.de s.a 3 b
    ({ s with memptr := mk16 s.a (lo (s.de + 1)) }, b)
  | .ldNNHL =>
    let w := fetchWord 3 s b
    let b := writeWord w.1 (s.idx p) 3 w.2.2
    ({ w.2.1 with memptr := w.1 + 1 }, b)
  | .ldNNA =>
    let w := fetchWord 3 s b
    let b := write w.1 s.a 3 w.2.2
    let mp := match v with
      | .hw => mk16 s.a (lo (w.1 + 1))
      | .code => (w.1 + 1) ||| (zext s.a <<< 8)
    ({ w.2.1 with memptr := mp }, b)
  | .ldABC =>
    let r := read s.bc 3 b
    ({ s with a := r.1, memptr := s.bc + 1 }, r.2)
  | .ldADE =>
    let r := read s.de 3 b
    ({ s with a := r.1, memptr := s.de + 1 }, r.2)
  | .ldHLNN =>
    let w := fetchWord 3 s b
    let r := readWord w.1 3 w.2.2
    ({ (w.2.1.setIdx p r.1) with memptr := w.1 + 1 }, r.2)
  | .ldANN =>
    let w := fetchWord 3 s b
    let r := read w.1 3 w.2.2
    ({ w.2.1 with a := r.1, memptr := w.1 + 1 }, r.2)
  | .incRp rp =>
    let b := waitLoop s.ir 2 b
    (setRP p rp (getRP p rp s + 1) s, b)
  | .decRp rp =>
    let b := waitLoop s.ir 2 b
    (setRP p rp (getRP p rp s - 1) s, b)
  | .inc r =>
    match r with
    | .m =>
      let o := operandAddr p s b
      let d := read o.1 3 o.2.2
      let b := Bus.waitNoMreq o.1 1 d.2
      let res := Spec.inc8 d.1 s.f
      (o.2.1.setF res.2, write o.1 res.1 3 b)
    | _ =>
      let res := Spec.inc8 (getR8 p r s) s.f
      (setR8 p r res.1 (s.setF res.2), b)
  | .dec r =>
    match r with
    | .m =>
      let o := operandAddr p s b
      let d := read o.1 3 o.2.2
      let b := Bus.waitNoMreq o.1 1 d.2
      let res := Spec.dec8 d.1 s.f
      (o.2.1.setF res.2, write o.1 res.1 3 b)
    | _ =>
      let res := Spec.dec8 (getR8 p r s) s.f
      (setR8 p r res.1 (s.setF res.2), b)
  | .ldRN r =>
    match r with
    | .m =>
      match p with
      | .none =>
        let n := read s.pc 3 b
        ({ s with pc := s.pc + 1 }, write s.hl n.1 3 n.2)
      | _ =>
        let d := fetchByte 3 s b
        let s := d.2.1
        let addr := s.idx p + sext d.1
        let n := read s.pc 3 d.2.2
        let b := waitLoop s.pc 2 n.2
        ({ s with pc := s.pc + 1, memptr := addr }, write addr n.1 3 b)
    | _ =>
      let n := read s.pc 3 b
      (setR8 p r n.1 { s with pc := s.pc + 1 }, n.2)
  | .rotA k =>
    let r := Spec.rotA k s.a s.f
    ({ s with a := r.1, f := r.2, q := r.2 }, b)
  | .daa =>
    let r := Spec.daa s.a s.f
    ({ s with a := r.1, f := r.2, q := r.2 }, b)
  | .cpl =>
    let r := Spec.cpl s.a s.f
    ({ s with a := r.1, f := r.2, q := r.2 }, b)
  | .scf => (s.setF (Spec.scf s.a s.f s.lastQ), b)
  | .ccf => (s.setF (Spec.ccf s.a s.f s.lastQ), b)
  | .halt => ({ s with halted := true, pc := s.pc - 1 }, Bus.halt true b)
  | .ld d src =>
    match d, src with
    | .m, _ =>
      let o := operandAddr p s b
      (o.2.1, write o.1 (getR8 .none src s) 3 o.2.2)
    | _, .m =>
      let o := operandAddr p s b
      let r := read o.1 3 o.2.2
      (setR8 .none d r.1 o.2.1, r.2)
    | _, _ => (setR8 p d (getR8 p src s) s, b)
  | .alu op r =>
    match r with
    | .m =>
      let o := operandAddr p s b
      let d := read o.1 3 o.2.2
      (execAlu op d.1 o.2.1, d.2)
    | _ => (execAlu op (getR8 p r s) s, b)
  | .retcc c =>
    let b := Bus.waitNoMreq s.ir 1 b
    if c.eval s.f then
      let r := pop16 3 s b
      ({ r.2.1 with pc := r.1, memptr := r.1 }, r.2.2)
    else (s, b)
  | .pop rp =>
    let r := pop16 3 s b
    (setRP2 p rp r.1 r.2.1, r.2.2)
  | .ret =>
    let r := pop16 3 s b
    ({ r.2.1 with pc := r.1, memptr := r.1 }, r.2.2)
  | .exx =>
    ({ s with b := s.b', c := s.c', d := s.d', e := s.e', h := s.h', l := s.l',
              b' := s.b, c' := s.c, d' := s.d, e' := s.e, h' := s.h, l' := s.l }, b)
  | .jpHL => ({ s with pc := s.idx p }, b)
  | .ldSPHL =>
    let b := waitLoop s.ir 2 b
    ({ s with sp := s.idx p }, b)
  | .jpcc c =>
    let w := fetchWord 3 s b
    let s := w.2.1
    ({ s with pc := if c.eval s.f then w.1 else s.pc, memptr := w.1 }, w.2.2)
  | .jp =>
    let w := fetchWord 3 s b
    ({ w.2.1 with pc := w.1, memptr := w.1 }, w.2.2)
  | .outNA =>
    let n := fetchByte 3 s b
    let b := Bus.writeIo (mk16 s.a n.1) s.a n.2.2
    let mp := match v with
      | .hw => mk16 s.a (n.1 + 1)
      | .code => (zext n.1 + 1) ||| (zext s.a <<< 8)
    ({ n.2.1 with memptr := mp }, b)
  | .inAN =>
    let n := fetchByte 3 s b
    let r := Bus.readIo (mk16 s.a n.1) n.2.2
    ({ n.2.1 with a := r.1, memptr := mk16 s.a n.1 + 1 }, r.2)
  | .exSPHL =>
    let t := readWord s.sp 3 b
    let b := Bus.waitNoMreq (s.sp + 1) 1 t.2
    let w := s.idx p
    let b := write (s.sp + 1) (hi w) 3 b
    let b := write s.sp (lo w) 3 b
    let b := waitLoop s.sp 2 b
    ({ (s.setIdx p t.1) with memptr := t.1 }, b)
  | .exDEHL => ({ s with d := s.h, e := s.l, h := s.d, l := s.e }, b)
  | .di => ({ s with skipInt := true, iff1 := false, iff2 := false }, b)
  | .ei => ({ s with skipInt := true, iff1 := true, iff2 := true }, b)
  | .callcc c => execCall (c.eval s.f) true s b
  | .push rp =>
    let b := Bus.waitNoMreq s.ir 1 b
    push16 (getRP2 p rp s) 3 s b
  | .call => execCall true false s b
  | .aluN op =>
    let n := fetchByte 3 s b
    (execAlu op n.1 n.2.1, n.2.2)
  | .rst y =>
    let b := Bus.waitNoMreq s.ir 1 b
    let sb := push16 s.pc 3 s b
    let a : BitVec 16 := zext ((y.setWidth 8) <<< 3)
    ({ sb.1 with pc := a, memptr := a }, sb.2)
  -- the four prefix bytes never reach `exec` (see `emulate`); they have no effect of their own
  | .pfxCB | .pfxDD | .pfxED | .pfxFD => (s, b)

/-! ### ED page -/

def dirAdd (dec : Bool) (w : BitVec 16) : BitVec 16 := if dec then w - 1 else w + 1
def dirAdd8 (dec : Bool) (x : BitVec 8) : BitVec 8 := if dec then x - 1 else x + 1
/-- undo one step (the address of the previous iteration) -/
def dirBack (dec : Bool) (w : BitVec 16) : BitVec 16 := if dec then w + 1 else w - 1

def execED (i : EdInstr) (s : Cpu) (b : β) : Cpu × β :=
  match i with
  | .inC r =>
    let io := Bus.readIo s.bc b
    let s := { s with memptr := s.bc + 1 }
    ((setR8 .none r io.1 s).setF ((s.f &&& FC) ||| Spec.sz53p io.1), io.2)
  | .outC r =>
    let v := match r with | .m => 0 | _ => getR8 .none r s
    ({ s with memptr := s.bc + 1 }, Bus.writeIo s.bc v b)
  | .sbcHL rp =>
    let b := waitLoop s.ir 7 b
    let r := Spec.sbc16 s.hl (getRP .none rp s) (tst s.f FC)
    ((({ s with memptr := s.hl + 1 }).setF r.2).setHL r.1, b)
  | .adcHL rp =>
    let b := waitLoop s.ir 7 b
    let r := Spec.adc16 s.hl (getRP .none rp s) (tst s.f FC)
    ((({ s with memptr := s.hl + 1 }).setF r.2).setHL r.1, b)
  | .ldNNRp rp =>
    let w := fetchWord 3 s b
    let b := writeWord w.1 (getRP .none rp s) 3 w.2.2
    ({ w.2.1 with memptr := w.1 + 1 }, b)
  | .ldRpNN rp =>
    let w := fetchWord 3 s b
    let r := readWord w.1 3 w.2.2
    ({ (setRP .none rp r.1 w.2.1) with memptr := w.1 + 1 }, r.2)
  | .neg =>
    let r := Spec.neg s.a
    ({ s with a := r.1, f := r.2, q := r.2 }, b)
  | .retn reti =>
    let r := pop16 3 { s with iff1 := s.iff2 } b
    ({ r.2.1 with pc := r.1, memptr := r.1 }, if reti then Bus.reti r.2.2 else r.2.2)
  | .im m => ({ s with im := m }, b)
  | .ldIA => ({ s with i := s.a }, Bus.waitNoMreq s.ir 1 b)
  | .ldRA => ({ s with r := s.a }, Bus.waitNoMreq s.ir 1 b)
  | .ldAI =>
    (({ s with a := s.i }).setF ((s.f &&& FC) ||| Spec.sz53 s.i ||| flag s.iff2 FPV),
      Bus.waitNoMreq s.ir 1 b)
  | .ldAR =>
    (({ s with a := s.r }).setF ((s.f &&& FC) ||| Spec.sz53 s.r ||| flag s.iff2 FPV),
      Bus.waitNoMreq s.ir 1 b)
  | .rrd =>
    let m := read s.hl 3 b
    let r := Spec.rrd s.a m.1
    let b := waitLoop s.hl 4 m.2
    let b := write s.hl r.2 3 b
    (({ s with a := r.1, memptr := s.hl + 1 }).setF ((s.f &&& FC) ||| Spec.sz53p r.1), b)
  | .rld =>
    let m := read s.hl 3 b
    let r := Spec.rld s.a m.1
    let b := waitLoop s.hl 4 m.2
    let b := write s.hl r.2 3 b
    (({ s with a := r.1, memptr := s.hl + 1 }).setF ((s.f &&& FC) ||| Spec.sz53p r.1), b)
  | .ldBlock dec rep =>
    let m := read s.hl 3 b
    let bc := s.bc - 1
    let b := write s.de m.1 3 m.2
    let b := waitLoop s.de 2 b
    let s1 := ((s.setBC bc).setHL (dirAdd dec s.hl)).setDE (dirAdd dec s.de)
    let s1 := s1.setF (Spec.ldBlockFlags s.a m.1 s.f (bc != 0))
    if rep && bc != 0 then
      let b := waitLoop s.de 5 b
      let pc := s1.pc - 2
      ({ s1 with memptr := s1.pc - 1, pc := pc, f := Spec.memRepeatFlags s1.f (hi pc) }, b)
    else (s1, b)
  | .cpBlock dec rep =>
    let m := read s.hl 3 b
    let b := waitLoop s.hl 5 m.2
    let bc := s.bc - 1
    let s1 := { ((s.setBC bc).setHL (dirAdd dec s.hl)) with memptr := dirAdd dec s.memptr }
    let s1 := s1.setF (Spec.cpBlockFlags s.a m.1 s.f (bc != 0))
    if rep && bc != 0 && s.a != m.1 then
      let b := waitLoop s.hl 5 b
      let pc := s1.pc - 2
      ({ s1 with memptr := s1.pc - 1, pc := pc, f := Spec.memRepeatFlags s1.f (hi pc) }, b)
    else (s1, b)
  | .inBlock dec rep =>
    let b := Bus.waitNoMreq s.ir 1 b
    let io := Bus.readIo s.bc b
    let b := write s.hl io.1 3 io.2
    let nb := s.b - 1
    let s1 := { (s.setHL (dirAdd dec s.hl)) with memptr := dirAdd dec s.bc, b := nb }
    let s1 := s1.setF (Spec.ioBlockFlags nb io.1 (dirAdd8 dec s.c))
    if rep && nb != 0 then
      let b := waitLoop s.hl 5 b
      let pc := s1.pc - 2
      (({ s1 with pc := pc }).setF (Spec.ioRepeatFlags s1.f nb (io.1 + dirAdd8 dec s.c) (hi pc)), b)
    else (s1, b)
  | .outBlock dec rep =>
    let b := Bus.waitNoMreq s.ir 1 b
    let m := read s.hl 3 b
    let nb := s.b - 1
    let s1 := { (s.setHL (dirAdd dec s.hl)) with b := nb }
    let s1 := { s1 with memptr := dirAdd dec s1.bc }
    let b := Bus.writeIo s1.bc m.1 m.2
    let s1 := s1.setF (Spec.ioBlockFlags nb m.1 s1.l)
    if rep && nb != 0 then
      let b := waitLoop s1.bc 5 b
      let pc := s1.pc - 2
      (({ s1 with pc := pc }).setF (Spec.ioRepeatFlags s1.f nb (m.1 + s1.l) (hi pc)), b)
    else (s1, b)
  | .nop2 => (s, b)

/-! ### CB page, DDCB/FDCB -/

/-- the operation of a CB-page instruction on a data byte: `(byte to write back, if any; new F, if any)` -/
def cbOp (i : CbInstr) (x f xy : BitVec 8) : Option (BitVec 8) × Option (BitVec 8) :=
  match i with
  | .rot k _ => let r := Spec.rot k x (tst f FC); (some r.1, some r.2)
  | .bit n _ => (none, some (Spec.bitFlags n x f xy))
  | .res n _ => (some (x &&& ~~~((1 : BitVec 8) <<< n.toNat)), none)
  | .set n _ => (some (x ||| ((1 : BitVec 8) <<< n.toNat)), none)

def CbInstr.reg : CbInstr → R8
  | .rot _ r | .bit _ r | .res _ r | .set _ r => r

def applyF (s : Cpu) : Option (BitVec 8) → Cpu
  | some f => s.setF f
  | none => s

/-- operate on memory at `addr`: read 3 T, one 1-T cycle, write back 3 T unless BIT.
`copy` is the undocumented DDCB/FDCB copy of the result into a register. -/
def cbMem (i : CbInstr) (addr : BitVec 16) (copy : Option R8) (s : Cpu) (b : β) : Cpu × β :=
  let d := read addr 3 b
  let b := Bus.waitNoMreq addr 1 d.2
  let r := cbOp i d.1 s.f (hi s.memptr)
  let s := applyF s r.2
  match r.1 with
  | some v =>
    let s := match copy with
      | some reg => setR8 .none reg v s
      | none => s
    (s, write addr v 3 b)
  | none => (s, b)

/-- `execute_bits` with `Prefix::None`: opcode fetch (4 T, R+1), then register or (HL) form -/
def execCB (s : Cpu) (b : β) : Cpu × β :=
  let o := fetchByte 4 s b
  let s := { o.2.1 with r := incR o.2.1.r }
  let i := decodeCB o.1
  match i.reg with
  | .m => cbMem i s.hl none s o.2.2
  | reg =>
    let x := getR8 .none reg s
    let r := cbOp i x s.f x
    let s := applyF s r.2
    match r.1 with
    | some v => (setR8 .none reg v s, o.2.2)
    | none => (s, o.2.2)

/-- `execute_bits` with DD/FD: displacement (3 T), opcode read at PC (3 T) + two 1-T cycles at PC,
then always the memory form at IX/IY+d; non-BIT forms with a register field also copy the result. -/
def execIdxCB (p : Pfx) (s : Cpu) (b : β) : Cpu × β :=
  let d := fetchByte 3 s b
  let s := d.2.1
  let addr := s.idx p + sext d.1
  let s := { s with memptr := addr }
  let o := read s.pc 3 d.2.2
  let b := waitLoop s.pc 2 o.2
  let s := { s with pc := s.pc + 1 }
  let i := decodeCB o.1
  cbMem i addr (match i.reg with | .m => none | reg => some reg) s b

/-! ### interrupts -/

/-- HALT line released on acceptance: `bus.halt(false)`, PC steps behind the HALT -/
def releaseHalt (s : Cpu) (b : β) : Cpu × β :=
  if s.halted then ({ s with halted := false, pc := s.pc + 1 }, Bus.halt false b) else (s, b)

def acceptNmi (s : Cpu) (b : β) : Cpu × β :=
  let sb := releaseHalt { s with q := 0 } b
  let s := sb.1
  let b := waitLoop s.pc 5 sb.2
  let sb := push16 s.pc 3 { s with iff1 := false } b
  ({ sb.1 with pc := 0x0066, memptr := 0x0066, r := incR sb.1.r }, sb.2)

def acceptInt (s : Cpu) (b : β) : Cpu × β :=
  let sb := releaseHalt { s with q := 0 } b
  let s := { sb.1 with r := incR sb.1.r, iff1 := false, iff2 := false }
  let sb := push16 s.pc 3 s sb.2
  let s := sb.1
  if s.im = 2 then
    let v := Bus.readInterrupt sb.2
    let w := readWord (mk16 s.i v.1) 3 v.2
    ({ s with pc := w.1, memptr := w.1 }, Bus.waitInternal 7 w.2)
  else
    ({ s with pc := 0x0038, memptr := 0x0038 }, Bus.waitInternal 7 sb.2)

/-- `Z80::handle_interrupt` -/
def handleInterrupt (s : Cpu) (b : β) : Cpu × β :=
  if Bus.nmiActive b then acceptNmi s b
  else if Bus.intActive b && s.iff1 then acceptInt s b
  else (s, b)

/-! ### one `emulate` call -/

/-- `Regs::step_q` (before_execute_opcode) -/
def stepQ (s : Cpu) : Cpu := { s with lastQ := s.q, q := 0 }

/-- after a DD/FD byte: fetch the next byte (4 T, R+1); a further prefix is parked in
`activePrefix` with interrupts held off, CB goes to the indexed bit page, anything else runs. -/
def afterIndexPrefix (v : Variant) (p : Pfx) (s : Cpu) (b : β) : Cpu × β :=
  let o := fetchByte 4 s b
  let s := { o.2.1 with r := incR o.2.1.r }
  match decode o.1 with
  | .pfxDD => ({ s with activePrefix := .dd, skipInt := true }, o.2.2)
  | .pfxED => ({ s with activePrefix := .ed, skipInt := true }, o.2.2)
  | .pfxFD => ({ s with activePrefix := .fd, skipInt := true }, o.2.2)
  | .pfxCB => execIdxCB p (stepQ s) o.2.2
  | i => exec v p i (stepQ s) o.2.2

def afterEDPrefix (s : Cpu) (b : β) : Cpu × β :=
  let o := fetchByte 4 s b
  let s := { o.2.1 with r := incR o.2.1.r }
  execED (decodeED o.1) (stepQ s) o.2.2

/-- the part of `emulate` after the interrupt check and before `pc_callback` -/
def execOne (v : Variant) (s : Cpu) (b : β) : Cpu × β :=
  match s.activePrefix with
  | .dd => afterIndexPrefix v .dd { s with activePrefix := .none } b
  | .fd => afterIndexPrefix v .fd { s with activePrefix := .none } b
  | .ed => afterEDPrefix { s with activePrefix := .none } b
  | .cb => execCB (stepQ { s with activePrefix := .none }) b
  | .none =>
    let o := fetchByte 4 { s with r := incR s.r } b
    match decode o.1 with
    | .pfxDD => afterIndexPrefix v .dd o.2.1 o.2.2
    | .pfxFD => afterIndexPrefix v .fd o.2.1 o.2.2
    | .pfxED => afterEDPrefix o.2.1 o.2.2
    | .pfxCB => execCB (stepQ o.2.1) o.2.2
    | i => exec v .none i (stepQ o.2.1) o.2.2

/-- what the interrupt check at the start of `emulate` decides -/
inductive Accept | none | int | nmi
  deriving DecidableEq, Repr, Inhabited

/-- the decision logic of `emulate` + `handle_interrupt`: nothing while `skip_interrupt` is set,
else NMI first, else INT if IFF1 -/
def decision (s : Cpu) (b : β) : Accept :=
  if s.skipInt then .none
  else if Bus.nmiActive b then .nmi
  else if Bus.intActive b && s.iff1 then .int
  else .none

/-- the interrupt check at the start of `emulate` -/
def checkInterrupt (s : Cpu) (b : β) : Cpu × β :=
  if s.skipInt then ({ s with skipInt := false }, b) else handleInterrupt s b

/-- One call of `Z80::emulate`. -/
def emulate (v : Variant) (sb : Cpu × β) : Cpu × β :=
  let sb := checkInterrupt sb.1 sb.2
  let sb := execOne v sb.1 sb.2
  (sb.1, Bus.pcCallback sb.1.pc sb.2)

/-- running `n` calls -/
def run (v : Variant) : Nat → Cpu × β → Cpu × β
  | 0, sb => sb
  | n + 1, sb => run v n (emulate v sb)

end
end ZxVerif.Z80
