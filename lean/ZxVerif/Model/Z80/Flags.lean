/-
Shared Z80 model, part 2: flag arithmetic of the NMOS Z80, written *arithmetically*
(carry out of bit 3/7/11/15 by widening, overflow = signed result out of range, parity = xor of
the bits, bits 3/5 copied from the documented source). No lookup tables here: the table-driven
transcription of the Rust code lives in `Tables.lean` and `Props/C01.lean` proves the two equal
over the whole operand space.
-/
import ZxVerif.Model.Z80.Basic
namespace ZxVerif.Z80

abbrev FC : BitVec 8 := 0x01
abbrev FN : BitVec 8 := 0x02
abbrev FPV : BitVec 8 := 0x04
abbrev FX : BitVec 8 := 0x08
abbrev FH : BitVec 8 := 0x10
abbrev FY : BitVec 8 := 0x20
abbrev FZ : BitVec 8 := 0x40
abbrev FS : BitVec 8 := 0x80

/-- a flag mask if the condition holds -/
def flag (c : Bool) (m : BitVec 8) : BitVec 8 := if c then m else 0

/-- the flag bit `m` of `f` is set -/
def tst (f m : BitVec 8) : Bool := (f &&& m) != 0

namespace Spec

/-- even number of one bits -/
def parityEven (x : BitVec 8) : Bool :=
  !(x.getLsbD 0 ^^ x.getLsbD 1 ^^ x.getLsbD 2 ^^ x.getLsbD 3 ^^
    x.getLsbD 4 ^^ x.getLsbD 5 ^^ x.getLsbD 6 ^^ x.getLsbD 7)

/-- S, Z and the undocumented bits 5/3 of a result byte -/
def sz53 (r : BitVec 8) : BitVec 8 := (r &&& 0xA8) ||| flag (r == 0) FZ
def sz53p (r : BitVec 8) : BitVec 8 := sz53 r ||| flag (parityEven r) FPV

def cin8 (c : Bool) : BitVec 8 := (BitVec.ofBool c).setWidth 8

/-- carry out of bit 7 of `a + b + c` -/
def carryAdd8 (a b : BitVec 8) (c : Bool) : Bool :=
  (a.setWidth 9 + b.setWidth 9 + (BitVec.ofBool c).setWidth 9).getLsbD 8
/-- carry out of bit 3 (nibble addition) -/
def halfAdd8 (a b : BitVec 8) (c : Bool) : Bool :=
  ((a &&& 0x0F) + (b &&& 0x0F) + cin8 c).getLsbD 4
/-- the signed sum does not fit into 8 bits -/
def ovfAdd8 (a b : BitVec 8) (c : Bool) : Bool :=
  let s : BitVec 10 := a.signExtend 10 + b.signExtend 10 + (BitVec.ofBool c).setWidth 10
  s.slt (-128) || (127 : BitVec 10).slt s
/-- borrow into bit 7 of `a - b - c` -/
def carrySub8 (a b : BitVec 8) (c : Bool) : Bool :=
  (a.setWidth 9 - b.setWidth 9 - (BitVec.ofBool c).setWidth 9).getLsbD 8
def halfSub8 (a b : BitVec 8) (c : Bool) : Bool :=
  ((a &&& 0x0F) - (b &&& 0x0F) - cin8 c).getLsbD 4
def ovfSub8 (a b : BitVec 8) (c : Bool) : Bool :=
  let s : BitVec 10 := a.signExtend 10 - b.signExtend 10 - (BitVec.ofBool c).setWidth 10
  s.slt (-128) || (127 : BitVec 10).slt s

def addFlags (a b : BitVec 8) (c : Bool) : BitVec 8 :=
  sz53 (a + b + cin8 c) ||| flag (halfAdd8 a b c) FH ||| flag (ovfAdd8 a b c) FPV |||
    flag (carryAdd8 a b c) FC
def subFlags (a b : BitVec 8) (c : Bool) : BitVec 8 :=
  sz53 (a - b - cin8 c) ||| flag (halfSub8 a b c) FH ||| flag (ovfSub8 a b c) FPV |||
    flag (carrySub8 a b c) FC ||| FN

/-- The eight accumulator operations ADD ADC SUB SBC AND XOR OR CP:
`(new A, new F)` from A, the operand and the carry flag. -/
def alu8 (op : BitVec 3) (a b : BitVec 8) (cf : Bool) : BitVec 8 × BitVec 8 :=
  if op = 0 then (a + b, addFlags a b false)
  else if op = 1 then (a + b + cin8 cf, addFlags a b cf)
  else if op = 2 then (a - b, subFlags a b false)
  else if op = 3 then (a - b - cin8 cf, subFlags a b cf)
  else if op = 4 then (a &&& b, sz53p (a &&& b) ||| FH)
  else if op = 5 then (a ^^^ b, sz53p (a ^^^ b))
  else if op = 6 then (a ||| b, sz53p (a ||| b))
  else (a, (subFlags a b false &&& 0xD7) ||| (b &&& 0x28))

/-- INC: carry kept, the rest as `a + 1` -/
def inc8 (x f : BitVec 8) : BitVec 8 × BitVec 8 :=
  (x + 1, (f &&& FC) ||| (addFlags x 1 false &&& 0xFE))
/-- DEC: carry kept, the rest as `a - 1` -/
def dec8 (x f : BitVec 8) : BitVec 8 × BitVec 8 :=
  (x - 1, (f &&& FC) ||| (subFlags x 1 false &&& 0xFE))

/-- ADD HL,rr: S Z PV kept, H from bit 11, C from bit 15, bits 5/3 from the high result byte -/
def add16 (a b : BitVec 16) (f : BitVec 8) : BitVec 16 × BitVec 8 :=
  let r := a + b
  (r, (f &&& 0xC4) ||| flag (((a &&& 0x0FFF) + (b &&& 0x0FFF)).getLsbD 12) FH |||
      flag ((a.setWidth 17 + b.setWidth 17).getLsbD 16) FC ||| (hi r &&& 0x28))

def ovfAdd16 (a b : BitVec 16) (c : Bool) : Bool :=
  let s : BitVec 18 := a.signExtend 18 + b.signExtend 18 + (BitVec.ofBool c).setWidth 18
  s.slt (-32768) || (32767 : BitVec 18).slt s
def ovfSub16 (a b : BitVec 16) (c : Bool) : Bool :=
  let s : BitVec 18 := a.signExtend 18 - b.signExtend 18 - (BitVec.ofBool c).setWidth 18
  s.slt (-32768) || (32767 : BitVec 18).slt s

/-- ADC HL,rr -/
def adc16 (a b : BitVec 16) (c : Bool) : BitVec 16 × BitVec 8 :=
  let ci : BitVec 16 := (BitVec.ofBool c).setWidth 16
  let r := a + b + ci
  (r, (hi r &&& 0xA8) ||| flag (r == 0) FZ |||
      flag (((a &&& 0x0FFF) + (b &&& 0x0FFF) + ci).getLsbD 12) FH |||
      flag (ovfAdd16 a b c) FPV |||
      flag ((a.setWidth 17 + b.setWidth 17 + (BitVec.ofBool c).setWidth 17).getLsbD 16) FC)

/-- SBC HL,rr -/
def sbc16 (a b : BitVec 16) (c : Bool) : BitVec 16 × BitVec 8 :=
  let ci : BitVec 16 := (BitVec.ofBool c).setWidth 16
  let r := a - b - ci
  (r, (hi r &&& 0xA8) ||| flag (r == 0) FZ |||
      flag (((a &&& 0x0FFF) - (b &&& 0x0FFF) - ci).getLsbD 12) FH |||
      flag (ovfSub16 a b c) FPV |||
      flag ((a.setWidth 17 - b.setWidth 17 - (BitVec.ofBool c).setWidth 17).getLsbD 16) FC ||| FN)

/-- NEG = `0 - A` -/
def neg (a : BitVec 8) : BitVec 8 × BitVec 8 := (0 - a, subFlags 0 a false)

/-- DAA (decimal adjust after an addition, N = 0, or a subtraction, N = 1) -/
def daa (a f : BitVec 8) : BitVec 8 × BitVec 8 :=
  let cf := tst f FC
  let hf := tst f FH
  let nf := tst f FN
  let lowAdj := (9 : BitVec 8).ult (a &&& 0x0F) || hf
  let highAdj := (0x99 : BitVec 8).ult a || cf
  let corr : BitVec 8 := (if highAdj then 0x60 else 0) ||| (if lowAdj then 0x06 else 0)
  let r := if nf then a - corr else a + corr
  let h := if nf then hf && (a &&& 0x0F).ult 6 else (9 : BitVec 8).ult (a &&& 0x0F)
  (r, (f &&& FN) ||| flag highAdj FC ||| flag h FH ||| sz53p r)

/-- CB-page rotates and shifts RLC RRC RL RR SLA SRA SLL SRL: `(result, F)` -/
def rot (k : BitVec 3) (x : BitVec 8) (cf : Bool) : BitVec 8 × BitVec 8 :=
  let r : BitVec 8 :=
    if k = 0 then x.rotateLeft 1
    else if k = 1 then x.rotateRight 1
    else if k = 2 then (x <<< 1) ||| cin8 cf
    else if k = 3 then (x >>> 1) ||| flag cf 0x80
    else if k = 4 then x <<< 1
    else if k = 5 then (x >>> 1) ||| (x &&& 0x80)
    else if k = 6 then (x <<< 1) ||| 1
    else x >>> 1
  let c := if k.getLsbD 0 then x.getLsbD 0 else x.getLsbD 7
  (r, flag c FC ||| sz53p r)

/-- RLCA RRCA RLA RRA (k = 0..3): S Z PV kept, H N cleared, bits 5/3 from the new A -/
def rotA (k : BitVec 2) (a f : BitVec 8) : BitVec 8 × BitVec 8 :=
  let cf := tst f FC
  let r : BitVec 8 :=
    if k = 0 then a.rotateLeft 1
    else if k = 1 then a.rotateRight 1
    else if k = 2 then (a <<< 1) ||| cin8 cf
    else (a >>> 1) ||| flag cf 0x80
  let c := if k.getLsbD 0 then a.getLsbD 0 else a.getLsbD 7
  (r, (f &&& 0xC4) ||| flag c FC ||| (r &&& 0x28))

/-- CPL -/
def cpl (a f : BitVec 8) : BitVec 8 × BitVec 8 :=
  (~~~a, (f &&& 0xC5) ||| FH ||| FN ||| (~~~a &&& 0x28))

/-- SCF: bits 5/3 are `((lastQ ^ F) | A)` (the Q latch of the *previous* instruction) -/
def scf (a f lastQ : BitVec 8) : BitVec 8 :=
  (f &&& 0xC4) ||| (((lastQ ^^^ f) ||| a) &&& 0x28) ||| FC
/-- CCF -/
def ccf (a f lastQ : BitVec 8) : BitVec 8 :=
  (f &&& 0xC4) ||| (((lastQ ^^^ f) ||| a) &&& 0x28) ||| flag (tst f FC) FH ||| flag (!tst f FC) FC

/-- BIT n: Z and PV when the bit is clear, S only for bit 7, H set, bits 5/3 from `xy` -/
def bitFlags (n : BitVec 3) (x f xy : BitVec 8) : BitVec 8 :=
  let set := x.getLsbD n.toNat
  (f &&& FC) ||| FH ||| flag (!set) (FZ ||| FPV) ||| flag (set && n == 7) FS ||| (xy &&& 0x28)

/-- CPI/CPD/CPIR/CPDR (one iteration): carry kept; bits 5/3 from `A - (HL) - H` bits 1 and 3 -/
def cpBlockFlags (a src f : BitVec 8) (bcNZ : Bool) : BitVec 8 :=
  let r := a - src
  let hb := halfSub8 a src false
  let n := r - cin8 hb
  (f &&& FC) ||| FN ||| flag bcNZ FPV ||| flag (r == 0) FZ ||| (r &&& FS) ||| flag hb FH |||
    flag (n.getLsbD 3) FX ||| flag (n.getLsbD 1) FY

/-- LDI/LDD/LDIR/LDDR (one iteration): S Z C kept; bits 5/3 from `A + (HL)` bits 1 and 3 -/
def ldBlockFlags (a src f : BitVec 8) (bcNZ : Bool) : BitVec 8 :=
  let n := src + a
  (f &&& 0xC1) ||| flag bcNZ FPV ||| flag (n.getLsbD 3) FX ||| flag (n.getLsbD 1) FY

/-- INI/IND/OUTI/OUTD (one iteration). `b` is B after the decrement, `m` the byte moved,
`k8 = m + add` with `add = C±1` (IN) or the new L (OUT). -/
def ioBlockFlags (b m add : BitVec 8) : BitVec 8 :=
  let k := add + m
  sz53 b ||| flag (m.getLsbD 7) FN ||| flag (carryAdd8 add m false) (FH ||| FC) |||
    flag (parityEven ((k &&& 7) ^^^ b)) FPV

/-- Repeat cycle of INIR/INDR/OTIR/OTDR (documented form): with `TMP = B + (N ? -C : C)`,
H = bit 4 of `TMP ^ B`, PV = parity of `(T & 7) ^ B ^ (TMP & 7)`, bits 5/3 from PC bits 13/11. -/
def ioRepeatFlags (f b t pch : BitVec 8) : BitVec 8 :=
  let tmp := if tst f FC then (if tst f FN then b - 1 else b + 1) else b
  (f &&& 0xC3) ||| (pch &&& 0x28) ||| ((tmp ^^^ b) &&& FH) |||
    flag (parityEven ((t &&& 7) ^^^ b ^^^ (tmp &&& 7))) FPV

/-- Repeat cycle of LDIR/LDDR/CPIR/CPDR: bits 5/3 from PC bits 13/11 -/
def memRepeatFlags (f pch : BitVec 8) : BitVec 8 := (f &&& 0xD7) ||| (pch &&& 0x28)

/-- RRD: `(new A, new (HL))` -/
def rrd (a m : BitVec 8) : BitVec 8 × BitVec 8 :=
  ((a &&& 0xF0) ||| (m &&& 0x0F), (m >>> 4) ||| (a <<< 4))
/-- RLD -/
def rld (a m : BitVec 8) : BitVec 8 × BitVec 8 :=
  ((a &&& 0xF0) ||| (m >>> 4), (m <<< 4) ||| (a &&& 0x0F))

end Spec
end ZxVerif.Z80
