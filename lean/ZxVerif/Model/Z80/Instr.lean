/-
Shared Z80 model, part 3: the instruction set as data, and the decoders of the four opcode pages.
Operands are enumerations; `(HL)`, `H`, `L`, `HL` are explicit placeholders which a DD/FD prefix
re-targets, so "the prefix changes nothing for instructions without such a placeholder" is a
statement about `Instr.mentionsHL`.
-/
import ZxVerif.Model.Z80.Basic
set_option linter.constructorNameAsVariable false
namespace ZxVerif.Z80

/-- 8-bit operand field `r[z]`: B C D E H L (HL) A -/
inductive R8 | b | c | d | e | h | l | m | a
  deriving DecidableEq, Repr, Inhabited

/-- `rp[p]`: BC DE HL SP -/
inductive RP | bc | de | hl | sp
  deriving DecidableEq, Repr, Inhabited

/-- `rp2[p]`: BC DE HL AF -/
inductive RP2 | bc | de | hl | af
  deriving DecidableEq, Repr, Inhabited

/-- `cc[y]` -/
inductive Cond | nz | z | nc | c | po | pe | p | m
  deriving DecidableEq, Repr, Inhabited

def R8.ofBits (x : BitVec 3) : R8 :=
  match x with
  | 0 => .b | 1 => .c | 2 => .d | 3 => .e | 4 => .h | 5 => .l | 6 => .m | _ => .a

def RP.ofBits (x : BitVec 2) : RP :=
  match x with
  | 0 => .bc | 1 => .de | 2 => .hl | _ => .sp

def RP2.ofBits (x : BitVec 2) : RP2 :=
  match x with
  | 0 => .bc | 1 => .de | 2 => .hl | _ => .af

def Cond.ofBits (x : BitVec 3) : Cond :=
  match x with
  | 0 => .nz | 1 => .z | 2 => .nc | 3 => .c | 4 => .po | 5 => .pe | 6 => .p | _ => .m

/-- Unprefixed page. `pfxCB/pfxDD/pfxED/pfxFD` are the four prefix bytes. -/
inductive Instr
  | nop | exAF | djnz | jr | jrcc (c : Cond)
  | ldRpNN (rp : RP) | addHL (rp : RP)
  | ldBCA | ldDEA | ldNNHL | ldNNA | ldABC | ldADE | ldHLNN | ldANN
  | incRp (rp : RP) | decRp (rp : RP)
  | inc (r : R8) | dec (r : R8) | ldRN (r : R8)
  | rotA (k : BitVec 2) | daa | cpl | scf | ccf
  | halt | ld (d s : R8)
  | alu (op : BitVec 3) (r : R8)
  | retcc (c : Cond) | pop (rp : RP2) | ret | exx | jpHL | ldSPHL
  | jpcc (c : Cond) | jp | outNA | inAN | exSPHL | exDEHL | di | ei
  | callcc (c : Cond) | push (rp : RP2) | call
  | aluN (op : BitVec 3) | rst (y : BitVec 3)
  | pfxCB | pfxDD | pfxED | pfxFD
  deriving DecidableEq, Repr, Inhabited

/-- ED page -/
inductive EdInstr
  | inC (r : R8) | outC (r : R8)
  | sbcHL (rp : RP) | adcHL (rp : RP)
  | ldNNRp (rp : RP) | ldRpNN (rp : RP)
  | neg | retn (reti : Bool) | im (mode : Nat)
  | ldIA | ldRA | ldAI | ldAR | rrd | rld
  | ldBlock (dec rep : Bool) | cpBlock (dec rep : Bool)
  | inBlock (dec rep : Bool) | outBlock (dec rep : Bool)
  | nop2
  deriving DecidableEq, Repr, Inhabited

/-- CB page (also the operation part of DDCB/FDCB) -/
inductive CbInstr
  | rot (k : BitVec 3) (r : R8)
  | bit (n : BitVec 3) (r : R8)
  | res (n : BitVec 3) (r : R8)
  | set (n : BitVec 3) (r : R8)
  deriving DecidableEq, Repr, Inhabited

def opX (op : BitVec 8) : BitVec 2 := op.extractLsb' 6 2
def opY (op : BitVec 8) : BitVec 3 := op.extractLsb' 3 3
def opZ (op : BitVec 8) : BitVec 3 := op.extractLsb' 0 3
def opP (op : BitVec 8) : BitVec 2 := op.extractLsb' 4 2
def opQ (op : BitVec 8) : Bool := op.getLsbD 3

/-- main page, organised like http://www.z80.info/decoding.htm -/
def decode (op : BitVec 8) : Instr :=
  let y := opY op
  let z := opZ op
  let p := opP op
  let q := opQ op
  match opX op with
  | 0 =>
    match z with
    | 0 =>
      match y with
      | 0 => .nop | 1 => .exAF | 2 => .djnz | 3 => .jr
      | _ => .jrcc (Cond.ofBits (y - 4))
    | 1 => if q then .addHL (RP.ofBits p) else .ldRpNN (RP.ofBits p)
    | 2 =>
      match q, p with
      | false, 0 => .ldBCA | false, 1 => .ldDEA | false, 2 => .ldNNHL | false, _ => .ldNNA
      | true, 0 => .ldABC | true, 1 => .ldADE | true, 2 => .ldHLNN | true, _ => .ldANN
    | 3 => if q then .decRp (RP.ofBits p) else .incRp (RP.ofBits p)
    | 4 => .inc (R8.ofBits y)
    | 5 => .dec (R8.ofBits y)
    | 6 => .ldRN (R8.ofBits y)
    | _ =>
      match y with
      | 0 => .rotA 0 | 1 => .rotA 1 | 2 => .rotA 2 | 3 => .rotA 3
      | 4 => .daa | 5 => .cpl | 6 => .scf | _ => .ccf
  | 1 => if z = 6 ∧ y = 6 then .halt else .ld (R8.ofBits y) (R8.ofBits z)
  | 2 => .alu y (R8.ofBits z)
  | _ =>
    match z with
    | 0 => .retcc (Cond.ofBits y)
    | 1 =>
      if q then
        match p with
        | 0 => .ret | 1 => .exx | 2 => .jpHL | _ => .ldSPHL
      else .pop (RP2.ofBits p)
    | 2 => .jpcc (Cond.ofBits y)
    | 3 =>
      match y with
      | 0 => .jp | 1 => .pfxCB | 2 => .outNA | 3 => .inAN
      | 4 => .exSPHL | 5 => .exDEHL | 6 => .di | _ => .ei
    | 4 => .callcc (Cond.ofBits y)
    | 5 =>
      if q then
        match p with
        | 0 => .call | 1 => .pfxDD | 2 => .pfxED | _ => .pfxFD
      else .push (RP2.ofBits p)
    | 6 => .aluN y
    | _ => .rst y

/-- ED page -/
def decodeED (op : BitVec 8) : EdInstr :=
  let y := opY op
  let z := opZ op
  let p := opP op
  let q := opQ op
  match opX op with
  | 1 =>
    match z with
    | 0 => .inC (R8.ofBits y)
    | 1 => .outC (R8.ofBits y)
    | 2 => if q then .adcHL (RP.ofBits p) else .sbcHL (RP.ofBits p)
    | 3 => if q then .ldRpNN (RP.ofBits p) else .ldNNRp (RP.ofBits p)
    | 4 => .neg
    | 5 => .retn (y = 1)
    | 6 =>
      match y with
      | 2 => .im 1 | 6 => .im 1 | 3 => .im 2 | 7 => .im 2 | _ => .im 0
    | _ =>
      match y with
      | 0 => .ldIA | 1 => .ldRA | 2 => .ldAI | 3 => .ldAR | 4 => .rrd | 5 => .rld
      | _ => .nop2
  | 2 =>
    if y.getLsbD 2 then
      match z with
      | 0 => .ldBlock (y.getLsbD 0) (y.getLsbD 1)
      | 1 => .cpBlock (y.getLsbD 0) (y.getLsbD 1)
      | 2 => .inBlock (y.getLsbD 0) (y.getLsbD 1)
      | 3 => .outBlock (y.getLsbD 0) (y.getLsbD 1)
      | _ => .nop2
    else .nop2
  | _ => .nop2

/-- CB page -/
def decodeCB (op : BitVec 8) : CbInstr :=
  let r := R8.ofBits (opZ op)
  match opX op with
  | 0 => .rot (opY op) r
  | 1 => .bit (opY op) r
  | 2 => .res (opY op) r
  | _ => .set (opY op) r

def R8.isHL : R8 → Bool
  | .h | .l | .m => true
  | _ => false

/-- The instruction has an `HL`, `H`, `L` or `(HL)` placeholder that DD/FD re-target. `EX DE,HL`
and the ED page are not affected by the prefixes. -/
def Instr.mentionsHL : Instr → Bool
  | .ldRpNN rp | .incRp rp | .decRp rp => rp = .hl
  | .addHL _ | .ldNNHL | .ldHLNN | .jpHL | .ldSPHL | .exSPHL => true
  | .inc r | .dec r | .ldRN r | .alu _ r => r.isHL
  | .ld d s => d.isHL || s.isHL
  | .pop rp | .push rp => rp = .hl
  | _ => false

/-- the byte is one of the four prefixes (it does not complete an instruction) -/
def Instr.isPrefix : Instr → Bool
  | .pfxCB | .pfxDD | .pfxED | .pfxFD => true
  | _ => false

end ZxVerif.Z80
