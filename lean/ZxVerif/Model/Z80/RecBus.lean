/-
Shared Z80 model, part 5: the *recording bus* — a `Bus` instance with a memory function, scripted
answers for port reads / INT / NMI / the interrupt bus byte, and a log of every primitive bus call.
The harness owns the mirror image of this bus in Rust (harness/src/z80bus.rs).
-/
import ZxVerif.Model.Z80.Exec
namespace ZxVerif.Z80

/-- one primitive call received by the bus (required methods of `Z80Bus`) -/
inductive Ev
  | mreq (a : BitVec 16) (clk : Nat)       -- wait_mreq
  | nomreq (a : BitVec 16) (clk : Nat)     -- wait_no_mreq
  | internal (clk : Nat)                   -- wait_internal
  | rd (a : BitVec 16) (v : BitVec 8)      -- read_internal
  | wr (a : BitVec 16) (v : BitVec 8)      -- write_internal
  | ior (p : BitVec 16) (v : BitVec 8)     -- read_io
  | iow (p : BitVec 16) (v : BitVec 8)     -- write_io
  | iack (v : BitVec 8)                    -- read_interrupt
  | reti
  | halt (on : Bool)
  | pccb (a : BitVec 16)                   -- pc_callback
  deriving DecidableEq, Repr, Inhabited

structure RecBus where
  mem : BitVec 16 → BitVec 8
  /-- scripted port read values, consumed in order -/
  io : List (BitVec 8) := []
  /-- answer to a port read once the script is used up -/
  ioDefault : BitVec 16 → Nat → BitVec 8 := fun _ _ => 0xFF
  ioCount : Nat := 0
  int : Bool := false
  nmi : Bool := false
  busByte : BitVec 8 := 0xFF
  /-- newest first -/
  log : List Ev := []

namespace RecBus

def push (b : RecBus) (e : Ev) : RecBus := { b with log := e :: b.log }

def readIo (p : BitVec 16) (b : RecBus) : BitVec 8 × RecBus :=
  match b.io with
  | v :: rest => (v, { b with io := rest, ioCount := b.ioCount + 1, log := .ior p v :: b.log })
  | [] =>
    let v := b.ioDefault p b.ioCount
    (v, { b with ioCount := b.ioCount + 1, log := .ior p v :: b.log })

instance : Bus RecBus where
  waitMreq a clk b := b.push (.mreq a clk)
  waitNoMreq a clk b := b.push (.nomreq a clk)
  waitInternal clk b := b.push (.internal clk)
  readInternal a b := (b.mem a, b.push (.rd a (b.mem a)))
  writeInternal a v b := { b with mem := fun x => if x = a then v else b.mem x, log := .wr a v :: b.log }
  readIo := readIo
  writeIo p v b := b.push (.iow p v)
  readInterrupt b := (b.busByte, b.push (.iack b.busByte))
  reti b := b.push .reti
  halt on b := b.push (.halt on)
  intActive b := b.int
  nmiActive b := b.nmi
  pcCallback a b := b.push (.pccb a)

/-- the log in call order -/
def trace (b : RecBus) : List Ev := b.log.reverse

end RecBus

/-- T-states a bus event stands for (a port cycle is 4 T; data transfers ride on their `mreq`) -/
def Ev.tstates : Ev → Nat
  | .mreq _ c | .nomreq _ c | .internal c => c
  | .ior _ _ | .iow _ _ => 4
  | _ => 0

def tstates (es : List Ev) : Nat := (es.map Ev.tstates).sum

end ZxVerif.Z80
