/-
Shared Z80 model, part 6: the flag computations *as rustzx implements them* — FUSE-style lookup
tables indexed through `lookup8_r12` / `lookup16_r12`, widened temporaries, branch-free tricks.
Transcriptions of
  rustzx-z80/src/tables/mod.rs                   lookup8_r12, lookup16_r12 (tables: Extracted/Z80Tables.lean)
  rustzx-z80/src/opcode/internal_alu.rs          execute_alu_8
  rustzx-z80/src/opcode/internal_rot.rs          execute_rot
  rustzx-z80/src/opcode/internal_block.rs        flag parts of execute_cpi_cpd / execute_ini_ind / execute_outi_outd
  rustzx-z80/src/opcode/group_nonprefixed.rs     INC/DEC r, ADD HL, RLCA/RRCA/RLA/RRA, DAA
  rustzx-z80/src/opcode/group_extended.rs        ADC/SBC HL, NEG
  rustzx-z80/src/registers.rs                    update_flags_block_io_cycle
`Props/C01.lean` proves each of them equal to the arithmetic definition in `Flags.lean` for every operand.
-/
import ZxVerif.Model.Z80.Flags
import ZxVerif.Extracted.Z80Tables
namespace ZxVerif.Z80.Impl
open ZxVerif.Z80.Extracted

/-- `TABLE[i as usize]` -/
def at8 (t : List (BitVec 8)) (i : BitVec 8) : BitVec 8 := t.getD i.toNat 0

/-- `lookup8_r12` -/
def lookup8 (a b r : BitVec 8) : BitVec 8 :=
  ((a &&& 0x88) >>> 3) ||| ((b &&& 0x88) >>> 2) ||| ((r &&& 0x88) >>> 1)

/-- `lookup16_r12` -/
def lookup16 (a b r : BitVec 16) : BitVec 8 :=
  (((a &&& 0x8800) >>> 11) ||| ((b &&& 0x8800) >>> 10) ||| ((r &&& 0x8800) >>> 9)).setWidth 8

/-- `x as u8 * FLAG` for a boolean `x` -/
def mulFlag (c : Bool) (m : BitVec 8) : BitVec 8 := if c then m else 0

/-- `execute_alu_8`: `(new A, new F)`; the carry argument is `F & FLAG_CARRY != 0` -/
def alu8 (op : BitVec 3) (acc operand : BitVec 8) (withCarry : Bool) : BitVec 8 × BitVec 8 :=
  let c : BitVec 16 := if withCarry then 1 else 0
  let addLike (temp : BitVec 16) : BitVec 8 × BitVec 8 :=
    let result := temp.setWidth 8
    let lookup := lookup8 acc operand result
    (result, at8 overflowAdd (lookup >>> 4) ||| at8 halfCarryAdd (lookup &&& 0x07) |||
      mulFlag ((0xFF : BitVec 16).ult temp) FC)
  let subLike (temp : BitVec 16) : BitVec 8 × BitVec 8 :=
    let result := temp.setWidth 8
    let lookup := lookup8 acc operand result
    (result, at8 overflowSub (lookup >>> 4) ||| at8 halfCarrySub (lookup &&& 0x07) |||
      mulFlag ((0xFF : BitVec 16).ult temp) FC ||| FN)
  let rf : BitVec 8 × BitVec 8 :=
    if op = 0 then addLike (zext acc + zext operand)
    else if op = 1 then addLike (zext acc + zext operand + c)
    else if op = 2 ∨ op = 7 then subLike (zext acc - zext operand)
    else if op = 3 then subLike (zext acc - zext operand - c)
    else if op = 4 then (acc &&& operand, at8 parity (acc &&& operand) ||| FH)
    else if op = 5 then (acc ^^^ operand, at8 parity (acc ^^^ operand))
    else (acc ||| operand, at8 parity (acc ||| operand))
  let flags := if op = 7 then rf.2 ||| at8 f3f5 operand else rf.2 ||| at8 f3f5 rf.1
  let flags := flags ||| mulFlag (rf.1 == 0) FZ ||| (rf.1 &&& FS)
  (if op = 7 then acc else rf.1, flags)

/-- INC r / INC (HL) -/
def inc8 (data f : BitVec 8) : BitVec 8 × BitVec 8 :=
  let result := data + 1
  let flags := (f &&& FC) ||| mulFlag (data == 0x7F) FPV |||
    at8 halfCarryAdd (lookup8 data 1 result &&& 0x07) ||| at8 szf3f5 result
  (result, flags)

/-- DEC r / DEC (HL) -/
def dec8 (data f : BitVec 8) : BitVec 8 × BitVec 8 :=
  let result := data - 1
  let flags := (f &&& FC) ||| FN ||| mulFlag (data == 0x80) FPV |||
    at8 halfCarrySub (lookup8 data 1 result &&& 0x07) ||| at8 szf3f5 result
  (result, flags)

/-- ADD HL,rr (32-bit temporary) -/
def add16 (acc operand : BitVec 16) (f : BitVec 8) : BitVec 16 × BitVec 8 :=
  let temp : BitVec 32 := acc.setWidth 32 + operand.setWidth 32
  let lookup := lookup16 acc operand (temp.setWidth 16)
  let flags := (f &&& (FZ ||| FPV ||| FS)) ||| at8 halfCarryAdd (lookup &&& 0x07) |||
    mulFlag ((0xFFFF : BitVec 32).ult temp) FC ||| at8 f3f5 ((temp >>> 8).setWidth 8)
  (temp.setWidth 16, flags)

/-- ADC HL,rr -/
def adc16 (hl operand : BitVec 16) (withCarry : Bool) : BitVec 16 × BitVec 8 :=
  let c : BitVec 32 := if withCarry then 1 else 0
  let result : BitVec 32 := hl.setWidth 32 + operand.setWidth 32 + c
  let lookup := lookup16 hl operand (result.setWidth 16)
  let flags := at8 overflowAdd (lookup >>> 4) ||| at8 halfCarryAdd (lookup &&& 0x07)
  let flags := flags ||| mulFlag ((0xFFFF : BitVec 32).ult result) FC
  let flags := flags ||| at8 szf3f5 ((result >>> 8).setWidth 8)
  let flags := flags &&& ~~~FZ
  let flags := flags ||| mulFlag (result.setWidth 16 == (0 : BitVec 16)) FZ
  (result.setWidth 16, flags)

/-- SBC HL,rr -/
def sbc16 (hl operand : BitVec 16) (withCarry : Bool) : BitVec 16 × BitVec 8 :=
  let c : BitVec 32 := if withCarry then 1 else 0
  let result : BitVec 32 := hl.setWidth 32 - operand.setWidth 32 - c
  let lookup := lookup16 hl operand (result.setWidth 16)
  let flags := at8 overflowSub (lookup >>> 4) ||| at8 halfCarrySub (lookup &&& 0x07) ||| FN
  let flags := flags ||| mulFlag ((0xFFFF : BitVec 32).ult result) FC
  let flags := flags ||| at8 szf3f5 ((result >>> 8).setWidth 8)
  let flags := flags &&& ~~~FZ
  let flags := flags ||| mulFlag (result.setWidth 16 == (0 : BitVec 16)) FZ
  (result.setWidth 16, flags)

/-- NEG -/
def neg (acc : BitVec 8) : BitVec 8 × BitVec 8 :=
  let result := 0 - acc
  let flags := FN ||| at8 szf3f5 result ||| at8 halfCarrySub (lookup8 0 acc result &&& 0x07) |||
    mulFlag (acc == 0x80) FPV ||| mulFlag (acc != 0x00) FC
  (result, flags)

/-- DAA -/
def daa (acc oldFlags : BitVec 8) : BitVec 8 × BitVec 8 :=
  let hi := (0x99 : BitVec 8).ult acc || (oldFlags &&& FC) != 0
  let flags0 := (oldFlags &&& FN) ||| (if hi then FC else 0)
  let corr0 : BitVec 8 := if hi then 0x60 else 0x00
  let corr := if (0x09 : BitVec 8).ult (acc &&& 0x0F) || (oldFlags &&& FH) != 0 then corr0 ||| 0x06 else corr0
  if (oldFlags &&& FN) == 0 then
    let r := acc + corr
    (r, flags0 ||| at8 halfCarryAdd (lookup8 acc corr r &&& 0x07) ||| at8 szpf3f5 r)
  else
    let r := acc - corr
    (r, flags0 ||| at8 halfCarrySub (lookup8 acc corr r &&& 0x07) ||| at8 szpf3f5 r)

/-- `execute_rot` on a data byte -/
def rot (code : BitVec 3) (data : BitVec 8) (oldCarry : Bool) : BitVec 8 × BitVec 8 :=
  let r : BitVec 8 × Bool :=
    if code = 0 then
      let cb := (data &&& 0x80) != 0
      let d := (data <<< 1) &&& 0xFE
      (if cb then d ||| 0x01 else d, cb)
    else if code = 1 then
      let cb := (data &&& 0x01) != 0
      let d := (data >>> 1) &&& 0x7F
      (if cb then d ||| 0x80 else d, cb)
    else if code = 2 then
      let cb := (data &&& 0x80) != 0
      let d := (data <<< 1) &&& 0xFE
      (if oldCarry then d ||| 0x01 else d, cb)
    else if code = 3 then
      let cb := (data &&& 0x01) != 0
      let d := (data >>> 1) &&& 0x7F
      (if oldCarry then d ||| 0x80 else d, cb)
    else if code = 4 then ((data <<< 1) &&& 0xFE, (data &&& 0x80) != 0)
    else if code = 5 then (((data >>> 1) &&& 0x7F) ||| (data &&& 0x80), (data &&& 0x01) != 0)
    else if code = 6 then ((data <<< 1) ||| 0x01, (data &&& 0x80) != 0)
    else ((data >>> 1) &&& 0x7F, (data &&& 0x01) != 0)
  (r.1, mulFlag r.2 FC ||| at8 szpf3f5 r.1)

/-- RLCA / RRCA / RLA / RRA -/
def rotA (k : BitVec 2) (acc f : BitVec 8) : BitVec 8 × BitVec 8 :=
  let oldC := (f &&& FC) != 0
  let r : BitVec 8 × Bool :=
    if k = 0 then
      let cb := (acc &&& 0x80) != 0
      (if cb then (acc <<< 1) ||| 1 else (acc <<< 1) &&& 0xFE, cb)
    else if k = 1 then
      let cb := (acc &&& 0x01) != 0
      (if cb then (acc >>> 1) ||| 0x80 else (acc >>> 1) &&& 0x7F, cb)
    else if k = 2 then
      (if oldC then (acc <<< 1) ||| 1 else (acc <<< 1) &&& 0xFE, (acc &&& 0x80) != 0)
    else
      (if oldC then (acc >>> 1) ||| 0x80 else (acc >>> 1) &&& 0x7F, (acc &&& 0x01) != 0)
  (r.1, (f &&& (FPV ||| FS ||| FZ)) ||| mulFlag r.2 FC ||| at8 f3f5 r.1)

/-- flag part of `execute_cpi_cpd` -/
def cpBlockFlags (acc src f : BitVec 8) (bcNZ : Bool) : BitVec 8 :=
  let tmp := acc - src
  let halfBorrow := at8 halfCarrySub (lookup8 acc src tmp &&& 0x07)
  let tmp2 := if halfBorrow != 0 then tmp - 1 else tmp
  (f &&& FC) ||| FN ||| mulFlag bcNZ FPV ||| mulFlag (tmp == 0) FZ ||| (tmp &&& FS) ||| halfBorrow |||
    mulFlag ((tmp2 &&& 0x08) != 0) FX ||| mulFlag ((tmp2 &&& 0x02) != 0) FY

/-- flag part of `execute_ini_ind` / `execute_outi_outd` (`add` = C±1 resp. the new L) -/
def ioBlockFlags (b src add : BitVec 8) : BitVec 8 :=
  let k9 : BitVec 9 := add.setWidth 9 + src.setWidth 9
  let k := k9.setWidth 8
  at8 szf3f5 b ||| mulFlag ((src &&& 0x80) != 0) FN ||| mulFlag (k9.getLsbD 8) (FC ||| FH) |||
    at8 parity ((k &&& 0x07) ^^^ b)

/-- `Regs::update_flags_block_io_cycle` (the branch-free TMP) -/
def ioRepeatFlags (f b t pch : BitVec 8) : BitVec 8 :=
  let cf := f &&& FC
  let tmp := b + (cf - ((f >>> 0) &&& (cf <<< 1)))
  let hf := (tmp ^^^ b) &&& FH
  let pv := at8 parity ((t &&& 0x07) ^^^ b ^^^ (tmp &&& 0x07))
  (f &&& ~~~(FH ||| FPV ||| FX ||| FY)) ||| ((pch &&& (FX ||| FY)) ||| hf ||| pv)

end ZxVerif.Z80.Impl
