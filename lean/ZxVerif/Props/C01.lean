/-
C01 — every Z80 instruction yields the architected register/flag/memory/IO result.

Only property theorems live here. Reference semantics (the spec, arithmetic flags, `Variant.hw`) and the
transcription of what rustzx does differently (`Variant.code`): ZxVerif/Model/Z80/{Basic,Flags,Instr,Exec}.lean;
the table-driven flag computations of the Rust code: ZxVerif/Model/Z80/Tables.lean over
ZxVerif/Extracted/Z80Tables.lean; helper lemmas: ZxVerif/Lemmas/Z80Tables.lean, ZxVerif/Lemmas/Z80.lean.

Part 1 (this section): *table = arithmetic* over the whole operand space, by `bv_decide`
(trusted additionally: bv_decide's native axioms). Part 2: structural laws of decoding and `emulate`,
for every CPU state and every bus.
-/
import ZxVerif.Lemmas.Z80Tables
import ZxVerif.Lemmas.Z80
set_option linter.constructorNameAsVariable false
set_option linter.unusedSimpArgs false
namespace ZxVerif.C01
open ZxVerif.Z80

macro "unfold_flags" : tactic => `(tactic|
  simp only [Impl.alu8, Spec.alu8, Impl.inc8, Spec.inc8, Impl.dec8, Spec.dec8, Impl.add16, Spec.add16,
    Impl.adc16, Spec.adc16, Impl.sbc16, Spec.sbc16, Impl.neg, Spec.neg, Impl.daa, Spec.daa,
    Impl.rot, Spec.rot, Impl.rotA, Spec.rotA, Impl.cpBlockFlags, Spec.cpBlockFlags,
    Impl.ioBlockFlags, Spec.ioBlockFlags, Impl.ioRepeatFlags, Spec.ioRepeatFlags,
    Impl.at8_halfCarryAdd, Impl.at8_halfCarrySub, Impl.at8_overflowAdd, Impl.at8_overflowSub,
    Impl.at8_parity, Impl.at8_f3f5, Impl.at8_szf3f5, Impl.at8_szpf3f5, Impl.ite8, Impl.lookup8, Impl.lookup16,
    Impl.mulFlag, Spec.addFlags, Spec.subFlags, Spec.sz53, Spec.sz53p, Spec.parityEven, Spec.cin8,
    Spec.carryAdd8, Spec.halfAdd8, Spec.ovfAdd8, Spec.carrySub8, Spec.halfSub8, Spec.ovfSub8,
    Spec.ovfAdd16, Spec.ovfSub16, flag, tst, zext, hi, lo, FC, FN, FPV, FX, FH, FY, FZ, FS,
    apply_ite Prod.fst, apply_ite Prod.snd])

macro "pair_bv" : tactic => `(tactic| (apply Prod.ext <;> (unfold_flags; first | done | bv_decide)))

/-- The eight accumulator operations ADD ADC SUB SBC AND XOR OR CP: rustzx's `execute_alu_8`
(FUSE half-carry/overflow tables through `lookup8_r12`, parity and 5/3 tables) equals the arithmetic
definition — result and all eight flag bits — for all 8 x 256 x 256 x 2 inputs. -/
theorem alu8_tables_eq_arith (op : BitVec 3) (a b : BitVec 8) (c : Bool) :
    Impl.alu8 op a b c = Spec.alu8 op a b c := by pair_bv

/-- INC r / INC (HL): the table-driven flag computation of rustzx equals the arithmetic definition (result and all eight flag bits), for every operand and every previous F. -/
theorem inc_tables_eq (x f : BitVec 8) : Impl.inc8 x f = Spec.inc8 x f := by pair_bv
/-- DEC r / DEC (HL), likewise. -/
theorem dec_tables_eq (x f : BitVec 8) : Impl.dec8 x f = Spec.dec8 x f := by pair_bv
/-- ADD HL/IX/IY,rr over all 2^16 x 2^16 operand pairs and every previous F: the 32-bit temporary + `lookup16_r12` + tables equal carry-out-of-bit-11/15 arithmetic; bits 5/3 come from the high result byte. -/
theorem add16_tables_eq (a b : BitVec 16) (f : BitVec 8) : Impl.add16 a b f = Spec.add16 a b f := by pair_bv
/-- ADC HL,rr over all operand pairs and both carries (S, Z, H, V, C, bits 5/3). -/
theorem adc16_tables_eq (a b : BitVec 16) (c : Bool) : Impl.adc16 a b c = Spec.adc16 a b c := by pair_bv
/-- SBC HL,rr over all operand pairs and both carries. -/
theorem sbc16_tables_eq (a b : BitVec 16) (c : Bool) : Impl.sbc16 a b c = Spec.sbc16 a b c := by pair_bv
/-- NEG equals `0 - A` with the flags of a subtraction, for all 256 accumulators. -/
theorem neg_eq (a : BitVec 8) : Impl.neg a = Spec.neg a := by pair_bv
/-- DAA: the correction/table form equals the documented closed form for all A and all F (N, H, C). -/
theorem daa_eq (a f : BitVec 8) : Impl.daa a f = Spec.daa a f := by pair_bv
/-- CB-page rotates/shifts (8 kinds x data x carry): result, carry, S Z P and bits 5/3. -/
theorem rot_eq (k : BitVec 3) (x : BitVec 8) (c : Bool) : Impl.rot k x c = Spec.rot k x c := by pair_bv
/-- RLCA/RRCA/RLA/RRA. -/
theorem rota_eq (k : BitVec 2) (a f : BitVec 8) : Impl.rotA k a f = Spec.rotA k a f := by pair_bv
/-- CPI/CPD/CPIR/CPDR flags: the half-borrow table and the `tmp2` construction equal `A-(HL)-H` arithmetic. -/
theorem cpi_flags_eq (a s f : BitVec 8) (nz : Bool) : Impl.cpBlockFlags a s f nz = Spec.cpBlockFlags a s f nz := by
  unfold_flags; bv_decide
/-- INI/IND/OUTI/OUTD flags (S Z 5 3 of B, N from bit 7 of the byte, H=C from the 8-bit sum, PV parity). -/
theorem ioblock_flags_eq (b m add : BitVec 8) : Impl.ioBlockFlags b m add = Spec.ioBlockFlags b m add := by
  unfold_flags; bv_decide
/-- The branch-free `TMP` of `update_flags_block_io_cycle` equals the documented `B + (NF ? -CF : CF)` form for every B, F, T and PC high byte. -/
theorem blockio_repeat_flags_eq (f b t pch : BitVec 8) : Impl.ioRepeatFlags f b t pch = Spec.ioRepeatFlags f b t pch := by
  unfold_flags; bv_decide
/-- `PARITY_TABLE[i]` is the P/V bit exactly when `i` has an even number of one bits (all 256 indices). -/
theorem parity_table_is_parity (i : BitVec 8) : Impl.at8 Extracted.parity i = flag (Spec.parityEven i) FPV :=
  Impl.at8_parity i

/-- `F3F5_TABLE[i] = i & 0x28` (all 256 indices). -/
theorem f3f5_table_is_mask (i : BitVec 8) : Impl.at8 Extracted.f3f5 i = i &&& 0x28 := Impl.at8_f3f5 i

/-- `SZF3F5_TABLE` and `SZPF3F5_TABLE` are the composites S | Z | bits 5,3 (| parity), all 256 indices. -/
theorem szp_tables_are_composites (i : BitVec 8) :
    Impl.at8 Extracted.szf3f5 i = Spec.sz53 i ∧ Impl.at8 Extracted.szpf3f5 i = Spec.sz53p i :=
  ⟨Impl.at8_szf3f5 i, Impl.at8_szpf3f5 i⟩


/-! ## Part 2 — structural laws, for every CPU state and every bus -/

section structural
variable {β : Type} [Bus β]

/-- The 178 ED-page opcodes that the Z80 documentation leaves undefined: ED 00-3F, ED C0-FF, the
holes of ED 80-BF around the sixteen block instructions, and ED 77 / ED 7F. (ED 70/71 and the
mirrors of NEG/RETN/IM are undocumented but *defined*.) -/
def edUndefined (op : BitVec 8) : Bool :=
  op.ult 0x40 || (0xBF : BitVec 8).ult op || ((0x7F : BitVec 8).ult op && !(op &&& 0xE4 == 0xA0)) ||
    op == 0x77 || op == 0x7F

/-- there are exactly 178 of them -/
theorem ed_undefined_count :
    ((List.range 256).filter fun n => edUndefined (BitVec.ofNat 8 n)).length = 178 := by decide +kernel

/-- every undefined ED opcode decodes to the two-byte NOP (all 256 second bytes checked) -/
theorem ed_undefined_decode (op : BitVec 8) (h : edUndefined op = true) : decodeED op = .nop2 := by
  revert op; apply Impl.forall_bv8; decide +kernel

/-- **Undefined ED opcodes are two-byte NOPs.** For every CPU state, every bus and each of the 178
undefined codes: one `emulate` performs the two 4-T opcode fetches (`b → b1 → b2` are the bus states
around them), advances PC by 2 and R by 2 (7-bit), steps the Q latch (`lastQ := q`, `q := 0`) and
changes nothing else — no register, flag, MEMPTR, memory or port access. -/
theorem ed_undefined_is_nop2 (v : Variant) (s : Cpu) (b b1 b2 : β) (op : BitVec 8)
    (hu : edUndefined op = true) (hap : s.activePrefix = .none) (hq : Quiescent s b)
    (h1 : read s.pc 4 b = (0xED, b1)) (h2 : read (s.pc + 1) 4 b1 = (op, b2)) :
    emulate v (s, b) =
      ({ s with pc := s.pc + 1 + 1, r := incR (incR s.r), lastQ := s.q, q := 0 },
        Bus.pcCallback (s.pc + 1 + 1) b2) := by
  have hd : decode 237#8 = .pfxED := by decide
  simp only [BitVec.ofNat_eq_ofNat] at h1 h2
  simp [emulate, checkInterrupt_quiescent s b hq, execOne, hap, fetchByte, h1, hd, afterEDPrefix, h2,
    ed_undefined_decode op hu, execED, stepQ]

/-- the byte of an index prefix -/
def pfxByte : Pfx → BitVec 8
  | .dd => 0xDD | .fd => 0xFD | .none => 0x00

/-- **DD/FD are neutral on instructions without an HL placeholder.** If the byte at PC is DD or FD
and the next byte `op` is an instruction that mentions neither HL, H, L nor (HL) (and is not itself a
prefix), then executing from `s` equals executing the bare `op` from the state in which only the
prefix fetch has happened: PC+1, R+1 (7-bit), bus advanced by one 4-T fetch (`b1`). So the prefix
changes nothing but timing (that one fetch) and R. Holds for every state, bus and both variants. -/
theorem prefix_neutral (v : Variant) (p : Pfx) (hp : p ≠ .none) (s : Cpu) (b b1 b2 : β) (op : BitVec 8)
    (hap : s.activePrefix = .none)
    (h1 : read s.pc 4 b = (pfxByte p, b1)) (h2 : read (s.pc + 1) 4 b1 = (op, b2))
    (hn : (decode op).mentionsHL = false) (hnp : (decode op).isPrefix = false) :
    execOne v s b = execOne v { s with pc := s.pc + 1, r := incR s.r } b1 := by
  simp only [BitVec.ofNat_eq_ofNat] at h1 h2
  have hdd : decode 221#8 = .pfxDD := by decide
  have hfd : decode 253#8 = .pfxFD := by decide
  generalize hi : decode op = i at hn hnp
  cases p with
  | none => exact absurd rfl hp
  | dd =>
    simp only [pfxByte, BitVec.ofNat_eq_ofNat] at h1
    cases i <;> simp [Instr.isPrefix] at hnp <;>
      simp [execOne, hap, fetchByte, h1, h2, hdd, afterIndexPrefix, hi, stepQ] <;>
      rw [exec_prefix_neutral _ _ _ _ _ hn]
  | fd =>
    simp only [pfxByte, BitVec.ofNat_eq_ofNat] at h1
    cases i <;> simp [Instr.isPrefix] at hnp <;>
      simp [execOne, hap, fetchByte, h1, h2, hfd, afterIndexPrefix, hi, stepQ] <;>
      rw [exec_prefix_neutral _ _ _ _ _ hn]

/-- how many of the 256 main-page opcodes the prefixes are neutral on (the statement is not vacuous) -/
theorem prefix_neutral_count :
    ((List.range 256).filter fun n =>
      !(decode (BitVec.ofNat 8 n)).mentionsHL && !(decode (BitVec.ofNat 8 n)).isPrefix).length = 167 := by
  decide +kernel

/-- **Q latch, unprefixed page.** After an instruction the Q latch holds the new F if the instruction
computed flags in the ALU (`Instr.latchesQ`: ADD HL, INC/DEC r, RLCA…, DAA, CPL, SCF, CCF, ALU ops) and 0
otherwise (loads, jumps, `POP AF`, `EX AF,AF'` …), and `lastQ` holds the Q of the instruction before. -/
theorem q_latch (v : Variant) (s : Cpu) (b b1 : β) (op : BitVec 8) (hap : s.activePrefix = .none)
    (h1 : read s.pc 4 b = (op, b1)) (hnp : (decode op).isPrefix = false) :
    (execOne v s b).1.q = (if (decode op).latchesQ then (execOne v s b).1.f else 0) ∧
    (execOne v s b).1.lastQ = s.q := by
  generalize hi : decode op = i at hnp
  have key : execOne v s b = exec v .none i (stepQ { s with r := incR s.r, pc := s.pc + 1 }) b1 := by
    cases i <;> simp [Instr.isPrefix] at hnp <;> simp [execOne, hap, fetchByte, h1, hi]
  rw [key]
  exact ⟨exec_q v .none i _ b1 rfl, by rw [exec_lastQ]; rfl⟩

/-- **Q latch, ED page.** Q = F after IN r,(C), ADC/SBC HL, NEG, LD A,I/R, RRD/RLD and the block
instructions, 0 after the others. Stated modulo bits 5/3 because the repeat cycle of
LDIR/LDDR/CPIR/CPDR re-derives those two F bits from PC without refreshing Q (modelled as the code
behaves; `execED_q` / `execED_q_block_once` in Lemmas/Z80.lean give exact equality for everything
but that repeat cycle). -/
theorem q_latch_ed (v : Variant) (s : Cpu) (b b1 b2 : β) (op : BitVec 8) (hap : s.activePrefix = .none)
    (h1 : read s.pc 4 b = (0xED, b1)) (h2 : read (s.pc + 1) 4 b1 = (op, b2)) :
    (execOne v s b).1.q &&& 0xD7 =
      (if (decodeED op).latchesQ then (execOne v s b).1.f &&& 0xD7 else 0) := by
  simp only [BitVec.ofNat_eq_ofNat] at h1 h2
  have hd : decode 237#8 = .pfxED := by decide
  have key : execOne v s b =
      execED (decodeED op) (stepQ { s with r := incR (incR s.r), pc := s.pc + 1 + 1 }) b2 := by
    simp [execOne, hap, fetchByte, h1, hd, afterEDPrefix, h2, stepQ]
  rw [key]
  generalize decodeED op = i
  by_cases hb : ∃ d r, i = .ldBlock d r ∨ i = .cpBlock d r
  · have := execED_q_block i (stepQ { s with r := incR (incR s.r), pc := s.pc + 1 + 1 }) b2 hb
    obtain ⟨d, r, h | h⟩ := hb <;> subst h <;> simpa [EdInstr.latchesQ] using this
  · have hb' : ∀ d r, i ≠ .ldBlock d r ∧ i ≠ .cpBlock d r := by
      intro d r; constructor <;> intro h <;> exact hb ⟨d, r, by simp [h]⟩
    rw [execED_q i _ b2 rfl hb']
    split <;> simp

/-- **Q latch, CB / DDCB / FDCB pages** (memory forms): rotates/shifts and BIT latch Q = F, RES/SET leave Q = 0. -/
theorem q_latch_cb (i : CbInstr) (a : BitVec 16) (c : Option R8) (s : Cpu) (b : β) (hq : s.q = 0) :
    (cbMem i a c s b).1.q = if i.latchesQ then (cbMem i a c s b).1.f else 0 :=
  cbMem_q i a c s b hq

/-- **SCF/CCF read the latch of the previous instruction:** bits 5/3 of F become
`((lastQ ^ F) | A) & 0x28`, under any prefix, in any state. -/
theorem scf_ccf_use_last_q (v : Variant) (p : Pfx) (s : Cpu) (b : β) :
    (exec v p .scf s b).1.f &&& 0x28 = ((s.lastQ ^^^ s.f) ||| s.a) &&& 0x28 ∧
    (exec v p .ccf s b).1.f &&& 0x28 = ((s.lastQ ^^^ s.f) ||| s.a) &&& 0x28 := by
  simp only [exec, Cpu.setF, Spec.scf, Spec.ccf, flag, tst, FC, FH]
  constructor <;> bv_decide

/-- **Programs are folds of single steps:** the state carried from one `emulate` to the next is
exactly the pair (CPU, bus), so running `m + n` steps is running `m` and then `n`. This is what lets
the single-step correspondence speak about instruction sequences. -/
theorem sequence_compositional (v : Variant) (m n : Nat) (sb : Cpu × β) :
    run v (m + n) sb = run v n (run v m sb) := by
  induction m generalizing sb with
  | zero => simp [run]
  | succ m ih =>
    have : m + 1 + n = (m + n) + 1 := by omega
    rw [this]
    simp only [run]
    exact ih _

/-- **rustzx before the repair eaf876f (`Variant.code`) equals the reference on every instruction except
`LD (nn),A` and `OUT (n),A`** (true partial statement; the hypothesis excludes the known defect). -/
theorem code_eq_hw_except_memptr_partial (p : Pfx) (i : Instr) (s : Cpu) (b : β)
    (h1 : i ≠ .ldNNA) (h2 : i ≠ .outNA) : exec .code p i s b = exec .hw p i s b := by
  cases i <;> first | rfl | contradiction

/-- … and on those two it differs in MEMPTR only: same bus activity, same every other register. -/
theorem code_differs_only_in_memptr (p : Pfx) (i : Instr) (s : Cpu) (b : β) :
    (exec .code p i s b).2 = (exec .hw p i s b).2 ∧
    { (exec .code p i s b).1 with memptr := 0 } = { (exec .hw p i s b).1 with memptr := 0 } := by
  cases i <;> first | exact ⟨rfl, rfl⟩ | simp [exec, fetchWord, fetchByte]

end structural

/-- memory `8000: 32 34 12` = `LD (0x1234),A` -/
def witnessBus : RecBus :=
  { mem := fun a => if a = 0x8000 then 0x32 else if a = 0x8001 then 0x34 else if a = 0x8002 then 0x12 else 0 }

/-- **The unrepaired code violated the property on a concrete input** (DESIGN §9 #1, fixed by /repo
commit eaf876f): `LD (0x1234),A` with A = 0x55 leaves MEMPTR = 0x5535 on the Z80 and 0x5735 in the
old arithmetic. -/
theorem code_memptr_violates :
    (emulate .hw (({ a := 0x55, pc := 0x8000 } : Cpu), witnessBus)).1.memptr = 0x5535 ∧
    (emulate .code (({ a := 0x55, pc := 0x8000 } : Cpu), witnessBus)).1.memptr = 0x5735 := by
  decide

/-! ## Non-vacuity -/

/-- a bus whose memory holds `ED 77` at 0x8000 and `DD 00` at 0x9000 -/
def exampleBus : RecBus :=
  { mem := fun a => if a = 0x8000 then 0xED else if a = 0x8001 then 0x77 else if a = 0x9000 then 0xDD else 0 }

example : edUndefined 0x77 = true ∧ edUndefined 0x00 = true ∧ edUndefined 0xB0 = false ∧
    edUndefined 0x70 = false := by decide

/-- the hypotheses of `ed_undefined_is_nop2` are satisfiable, and its conclusion is what it says -/
example : Quiescent ({ pc := 0x8000, r := 0x7F } : Cpu) exampleBus ∧
    (emulate .hw (({ pc := 0x8000, r := 0x7F, q := 0x28 } : Cpu), exampleBus)).1 =
      ({ pc := 0x8002, r := 0x01, lastQ := 0x28 } : Cpu) := by
  refine ⟨⟨rfl, rfl, rfl⟩, ?_⟩
  decide

/-- `DD 00` (DD NOP): the hypotheses of `prefix_neutral` hold on a concrete bus -/
example : (decode 0x00).mentionsHL = false ∧ (decode 0x00).isPrefix = false ∧
    (read (0x9000 : BitVec 16) 4 exampleBus).1 = pfxByte .dd ∧
    (emulate .hw (({ pc := 0x9000 } : Cpu), exampleBus)).1.pc = 0x9002 := by decide

/-- the table theorems speak about non-trivial values: `0x7F + 0x01` sets S, H, V and bits 5/3 -/
example : Spec.alu8 0 0x7F 0x01 false = (0x80, 0x94) ∧ Impl.alu8 0 0x7F 0x01 false = (0x80, 0x94) := by decide

end ZxVerif.C01
