/-
C01 (architectural laws, part 1) — involutions and inverse pairs of the Z80 reference semantics.

The reference semantics `ZxVerif/Model/Z80` is hand-written; it is tied to rustzx-z80 by the differential
check of C01. The theorems here state that it obeys the algebraic laws every Z80 programmer relies on,
each for ALL CPU states (every register, flag and latch value at once) and, where memory is involved, for
all memory contents of the recording bus `RecBus` (a read-your-write memory). Laws that do not touch the
bus are stated for every bus `β`. Instructions are given as decoded data (`Instr`, `EdInstr`); the opcode
bytes they stand for are fixed by `law_opcodes`, and `emulate_is_exec*` (part 3) lifts every law to
`emulate` on opcode bytes in memory.

Helpers: ZxVerif/Lemmas/Z80Laws.lean.
-/
import ZxVerif.Lemmas.Z80Laws
set_option linter.constructorNameAsVariable false
set_option linter.unusedSimpArgs false
namespace ZxVerif.C01Laws
open ZxVerif.Z80

/-- The opcode bytes of the instructions the laws of this file speak about (documented encodings). -/
theorem law_opcodes :
    decode 0x08 = .exAF ∧ decode 0xD9 = .exx ∧ decode 0xEB = .exDEHL ∧ decode 0x2F = .cpl ∧
    decode 0x3F = .ccf ∧ decode 0x37 = .scf ∧ decodeED 0x44 = .neg ∧
    decode 0x04 = .inc .b ∧ decode 0x05 = .dec .b ∧ decode 0x3C = .inc .a ∧ decode 0x3D = .dec .a ∧
    decode 0x34 = .inc .m ∧ decode 0x35 = .dec .m ∧
    decode 0x03 = .incRp .bc ∧ decode 0x0B = .decRp .bc ∧ decode 0x33 = .incRp .sp ∧ decode 0x3B = .decRp .sp ∧
    decode 0xC5 = .push .bc ∧ decode 0xC1 = .pop .bc ∧ decode 0xF5 = .push .af ∧ decode 0xF1 = .pop .af ∧
    decode 0x22 = .ldNNHL ∧ decode 0x2A = .ldHLNN ∧ decode 0xE3 = .exSPHL ∧
    decode 0x07 = .rotA 0 ∧ decode 0x0F = .rotA 1 ∧ decode 0x17 = .rotA 2 ∧ decode 0x1F = .rotA 3 ∧
    decodeCB 0x00 = .rot 0 .b ∧ decodeCB 0x08 = .rot 1 .b ∧ decodeCB 0x10 = .rot 2 .b ∧
    decodeCB 0x18 = .rot 3 .b ∧ decodeED 0x6F = .rld ∧ decodeED 0x67 = .rrd := by decide

/-! ## 1. Involutions -/

section anybus
variable {β : Type} [Bus β]

/-- **EX AF,AF' twice is the identity** on the whole CPU state, and EX AF,AF' never touches the bus.
F is exchanged with F' as a plain register: the Q latch and MEMPTR are not affected. -/
theorem ex_af_involution (v : Variant) (p : Pfx) (s : Cpu) (b b' : β) :
    exec v p .exAF (exec v p .exAF s b).1 b' = (s, b') ∧ (exec v p .exAF s b).2 = b ∧
    (exec v p .exAF s b).1.q = s.q ∧ (exec v p .exAF s b).1.memptr = s.memptr ∧
    (exec v p .exAF s b).1.af = mk16 s.a' s.f' := by
  simp [exec, Cpu.af]

/-- **EXX twice is the identity** on the whole CPU state; no bus access; F, Q and MEMPTR untouched. -/
theorem exx_involution (v : Variant) (p : Pfx) (s : Cpu) (b b' : β) :
    exec v p .exx (exec v p .exx s b).1 b' = (s, b') ∧ (exec v p .exx s b).2 = b ∧
    (exec v p .exx s b).1.f = s.f ∧ (exec v p .exx s b).1.q = s.q ∧
    (exec v p .exx s b).1.memptr = s.memptr ∧
    (exec v p .exx s b).1.bc = mk16 s.b' s.c' ∧ (exec v p .exx s b).1.de = mk16 s.d' s.e' ∧
    (exec v p .exx s b).1.hl = mk16 s.h' s.l' := by
  simp [exec, Cpu.bc, Cpu.de, Cpu.hl]

/-- **EX DE,HL twice is the identity** on the whole CPU state (under any index prefix: DD/FD do not
re-target it); no bus access; F, Q and MEMPTR untouched. -/
theorem ex_de_hl_involution (v : Variant) (p : Pfx) (s : Cpu) (b b' : β) :
    exec v p .exDEHL (exec v p .exDEHL s b).1 b' = (s, b') ∧ (exec v p .exDEHL s b).2 = b ∧
    (exec v p .exDEHL s b).1.de = s.hl ∧ (exec v p .exDEHL s b).1.hl = s.de ∧
    (exec v p .exDEHL s b).1.f = s.f ∧ (exec v p .exDEHL s b).1.q = s.q ∧
    (exec v p .exDEHL s b).1.memptr = s.memptr := by
  simp [exec, Cpu.de, Cpu.hl]

/-- F after CPL executed twice from accumulator `a` and flags `f`: S, Z, P/V, C as they were, H and N set,
bits 5/3 from the (restored) accumulator. -/
def cplTwiceF (a f : BitVec 8) : BitVec 8 := (f &&& 0xC5) ||| FH ||| FN ||| (a &&& 0x28)

/-- **CPL** complements A, sets H and N, keeps S, Z, P/V and C, copies bits 5/3 of the new A, latches
Q = F and leaves MEMPTR alone; **CPL twice restores A**, the only lasting change being
F = Q = `cplTwiceF`. -/
theorem cpl_involution (v : Variant) (p : Pfx) (s : Cpu) (b b' : β) :
    (exec v p .cpl s b).1.a = ~~~s.a ∧
    (exec v p .cpl s b).1.f = ((s.f &&& 0xC5) ||| FH ||| FN ||| (~~~s.a &&& 0x28)) ∧
    exec v p .cpl (exec v p .cpl s b).1 b' =
      ({ s with f := cplTwiceF s.a s.f, q := cplTwiceF s.a s.f }, b') := by
  refine ⟨rfl, rfl, ?_⟩
  cases s
  simp only [exec, Spec.cpl, cplTwiceF, FH, FN, Prod.mk.injEq, Cpu.mk.injEq, and_true, true_and]
  refine ⟨?_, ?_, ?_⟩ <;> bv_decide

/-- **CCF twice restores the carry flag** (any `lastQ`): S, Z, P/V are kept, N is clear, H ends up as the
complement of the restored carry (it holds the carry the second CCF saw), A and every other register are
unchanged, Q = F, MEMPTR untouched. Bits 5/3 depend on the Q latch history, see `ccf_twice_emulate`. -/
theorem ccf_twice_restores_carry (v : Variant) (p : Pfx) (s : Cpu) (b b' : β) :
    let s1 := (exec v p .ccf s b).1
    let s2 := (exec v p .ccf s1 b').1
    tst s1.f FC = !tst s.f FC ∧ tst s2.f FC = tst s.f FC ∧ s2.f &&& 0xC4 = s.f &&& 0xC4 ∧
    tst s2.f FN = false ∧ tst s2.f FH = !tst s.f FC ∧
    s2 = { s with f := s2.f, q := s2.f } := by
  cases s
  simp only [exec, Cpu.setF, Spec.ccf, flag, tst, FC, FH, FN, Cpu.mk.injEq, and_true, true_and]
  refine ⟨?_, ?_, ?_, ?_, ?_⟩ <;> bv_decide

/-- **SCF; CCF clears the carry** (the classic idiom), setting H, clearing N, keeping S, Z, P/V. -/
theorem scf_ccf_clears_carry (v : Variant) (p : Pfx) (s : Cpu) (b b' : β) :
    let s2 := (exec v p .ccf (exec v p .scf s b).1 b').1
    tst s2.f FC = false ∧ tst s2.f FH = true ∧ tst s2.f FN = false ∧ s2.f &&& 0xC4 = s.f &&& 0xC4 ∧
    s2 = { s with f := s2.f, q := s2.f } := by
  cases s
  simp only [exec, Cpu.setF, Spec.ccf, Spec.scf, flag, tst, FC, FH, FN, Cpu.mk.injEq, and_true, true_and]
  refine ⟨?_, ?_, ?_, ?_⟩ <;> bv_decide

/-- F after NEG executed twice from accumulator `a`: S, Z and bits 5/3 of `a`, N set, C set unless `a = 0`,
P/V set iff `a = 0x80`, H set unless the low nibble of `a` is 0. -/
def negTwiceF (a : BitVec 8) : BitVec 8 :=
  Spec.sz53 a ||| flag (a != 0) FC ||| flag (a == 0x80) FPV ||| flag ((a &&& 0x0F) != 0) FH ||| FN

/-- **NEG** is `0 - A`; **NEG twice restores A** for all 256 accumulators (including 0x80, which NEG maps to
itself with overflow). Flags and Q = `negTwiceF A`; nothing else changes, no bus access. -/
theorem neg_involution (s : Cpu) (b b' : β) :
    (execED .neg s b).1.a = 0 - s.a ∧
    execED .neg (execED .neg s b).1 b' = ({ s with f := negTwiceF s.a, q := negTwiceF s.a }, b') := by
  refine ⟨rfl, ?_⟩
  cases s
  simp only [execED, Spec.neg, negTwiceF, Spec.subFlags, Spec.sz53, Spec.halfSub8, Spec.ovfSub8, Spec.carrySub8,
    Spec.cin8, flag, FC, FH, FN, FPV, FZ, Prod.mk.injEq, Cpu.mk.injEq, and_true, true_and]
  refine ⟨?_, ?_, ?_⟩ <;> bv_decide

end anybus
/-! ## 2. Inverse pairs -/

section anybus
variable {β : Type} [Bus β]

/-- **INC r; DEC r restores r**, for each of B C D E H L A and, under DD/FD, IXH IXL IYH IYL (21 forms),
for every value: the whole CPU state is as before except F = Q = `incDecF r F` (carry preserved). No bus access. -/
theorem inc_dec_r (v : Variant) (p : Pfx) (r : R8) (hr : r ≠ .m) (s : Cpu) (b b' : β) :
    exec v p (.dec r) (exec v p (.inc r) s b).1 b' = (s.setF (incDecF (getR8 p r s) s.f), b') ∧
    (exec v p (.inc r) s b).2 = b ∧ getR8 p r (exec v p (.inc r) s b).1 = getR8 p r s + 1 := by
  cases r <;> first | exact absurd rfl hr | skip
  all_goals cases p <;> cases s <;>
    simp [exec, getR8, setR8, Cpu.setF, inc8_dec8] <;> simp [Spec.inc8]

/-- **DEC r; INC r restores r** (same 21 forms): only F = Q = `decIncF r F` changes. -/
theorem dec_inc_r (v : Variant) (p : Pfx) (r : R8) (hr : r ≠ .m) (s : Cpu) (b b' : β) :
    exec v p (.inc r) (exec v p (.dec r) s b).1 b' = (s.setF (decIncF (getR8 p r s) s.f), b') ∧
    (exec v p (.dec r) s b).2 = b ∧ getR8 p r (exec v p (.dec r) s b).1 = getR8 p r s - 1 := by
  cases r <;> first | exact absurd rfl hr | skip
  all_goals cases p <;> cases s <;>
    simp [exec, getR8, setR8, Cpu.setF, dec8_inc8] <;> simp [Spec.dec8]

/-- **INC rr; DEC rr is the identity** on the whole CPU state, for BC DE HL SP and, under DD/FD, IX IY
(no flag is touched by 16-bit INC/DEC). -/
theorem inc_dec_rr (v : Variant) (p : Pfx) (rp : RP) (s : Cpu) (b b' : β) :
    (exec v p (.decRp rp) (exec v p (.incRp rp) s b).1 b').1 = s ∧
    getRP p rp (exec v p (.incRp rp) s b).1 = getRP p rp s + 1 := by
  cases rp <;> cases p <;> cases s <;>
    simp [exec, getRP, setRP, Cpu.bc, Cpu.de, Cpu.idx, Cpu.hl, Cpu.ix, Cpu.iy, Cpu.setBC, Cpu.setDE, Cpu.setIdx,
      Cpu.setHL, Cpu.setIX, Cpu.setIY, hi_mk16, lo_mk16, mk16_hi_lo, a16_add1_sub1]

/-- **DEC rr; INC rr is the identity** on the whole CPU state. -/
theorem dec_inc_rr (v : Variant) (p : Pfx) (rp : RP) (s : Cpu) (b b' : β) :
    (exec v p (.incRp rp) (exec v p (.decRp rp) s b).1 b').1 = s ∧
    getRP p rp (exec v p (.decRp rp) s b).1 = getRP p rp s - 1 := by
  cases rp <;> cases p <;> cases s <;>
    simp [exec, getRP, setRP, Cpu.bc, Cpu.de, Cpu.idx, Cpu.hl, Cpu.ix, Cpu.iy, Cpu.setBC, Cpu.setDE, Cpu.setIdx,
      Cpu.setHL, Cpu.setIX, Cpu.setIY, hi_mk16, lo_mk16, mk16_hi_lo, a16_sub1_add1]

end anybus

/-! ### …through memory (recording bus: every memory content) -/

/-- **INC (HL); DEC (HL) restores the memory cell** and the whole CPU state except F = Q =
`incDecF (HL) F`; the whole memory is as before. -/
theorem inc_dec_mem (v : Variant) (s : Cpu) (b : RecBus) :
    let sb1 := exec v .none (.inc .m) s b
    let sb2 := exec v .none (.dec .m) sb1.1 sb1.2
    sb1.2.mem s.hl = b.mem s.hl + 1 ∧
    sb2.1 = s.setF (incDecF (b.mem s.hl) s.f) ∧ sb2.2.mem = b.mem := by
  cases s
  rb_simp [inc8_dec8]
  refine ⟨by simp [Spec.inc8], ?_⟩
  funext x; split <;> simp_all

/-- **PUSH qq; POP qq is the identity on the CPU** (qq = BC DE HL AF, IX IY under DD/FD): qq and SP are
restored — for AF that includes every flag bit — and so is every other register. The pushed word lies
below the original SP (high byte at SP-1, low byte at SP-2), memory everywhere else (in particular at and
above SP) is untouched. -/
theorem push_pop (v : Variant) (p : Pfx) (rp : RP2) (s : Cpu) (b : RecBus) :
    let sb1 := exec v p (.push rp) s b
    let sb2 := exec v p (.pop rp) sb1.1 sb1.2
    sb2.1 = s ∧ sb1.1.sp = s.sp - 2 ∧
    sb2.2.mem (s.sp - 1) = hi (getRP2 p rp s) ∧ sb2.2.mem (s.sp - 2) = lo (getRP2 p rp s) ∧
    ∀ x, x ≠ s.sp - 1 → x ≠ s.sp - 2 → sb2.2.mem x = b.mem x := by
  cases rp <;> cases p <;> cases s <;> rb_simp []
  all_goals intro x h1 h2; simp [h1, h2]

/-- **LD (nn),HL** (also IX/IY) stores L at nn and H at nn+1, where nn is the operand word at PC; PC
advances by 2, MEMPTR = nn+1, nothing else changes. -/
theorem ld_nn_hl_stores (v : Variant) (p : Pfx) (s : Cpu) (b : RecBus) :
    let nn := word b.mem s.pc
    (exec v p .ldNNHL s b).1 = { s with pc := s.pc + 2, memptr := nn + 1 } ∧
    (exec v p .ldNNHL s b).2.mem =
      fun x => if x = nn + 1 then hi (s.idx p) else if x = nn then lo (s.idx p) else b.mem x := by
  cases p <;> rb_simp [word]

/-- **LD HL,(nn)** (also IX/IY) loads the word at nn; MEMPTR = nn+1; memory untouched. -/
theorem ld_hl_nn_loads (v : Variant) (p : Pfx) (s : Cpu) (b : RecBus) :
    let nn := word b.mem s.pc
    (exec v p .ldHLNN s b).1 = { (s.setIdx p (word b.mem nn)) with pc := s.pc + 2, memptr := nn + 1 } ∧
    (exec v p .ldHLNN s b).2.mem = b.mem := by
  cases p <;> rb_simp [word]

/-- **LD (nn),HL; LD HL,(nn) round trip**: if the second instruction's operand (as it stands in memory
after the store) is the same nn, HL (IX, IY) is as before, as is every other register; only PC and
MEMPTR moved. Holds for every nn, including nn = 0xFFFF (wrap-around of nn+1). -/
theorem ld_nn_hl_round_trip (v : Variant) (p : Pfx) (s : Cpu) (b : RecBus) :
    let nn := word b.mem s.pc
    let sb1 := exec v p .ldNNHL s b
    let sb2 := exec v p .ldHLNN sb1.1 sb1.2
    word sb1.2.mem sb1.1.pc = nn →
      sb2.1 = { s with pc := s.pc + 2 + 2, memptr := nn + 1 } ∧ sb2.2.mem = sb1.2.mem := by
  intro nn sb1 sb2 h
  obtain ⟨e1, m1⟩ := ld_nn_hl_stores v p s b
  obtain ⟨e2, m2⟩ := ld_hl_nn_loads v p sb1.1 sb1.2
  refine ⟨?_, m2⟩
  show (exec v p .ldHLNN sb1.1 sb1.2).1 = _
  rw [e2, h]
  show _ = { s with pc := s.pc + 2 + 2, memptr := word b.mem s.pc + 1 }
  have hw : word sb1.2.mem nn = s.idx p := by
    show word (exec v p .ldNNHL s b).2.mem (word b.mem s.pc) = _
    rw [m1]; simp [word, a16_add1_ne, a16_ne_add1, mk16_hi_lo]
  rw [hw]
  show ({ (exec v p .ldNNHL s b).1.setIdx p (s.idx p) with
    pc := (exec v p .ldNNHL s b).1.pc + 2, memptr := word b.mem s.pc + 1 } : Cpu) = _
  rw [e1]
  cases p <;> cases s <;>
    simp [Cpu.setIdx, Cpu.idx, Cpu.hl, Cpu.ix, Cpu.iy, Cpu.setHL, Cpu.setIX, Cpu.setIY, hi_mk16, lo_mk16]

/-- **EX (SP),HL** (also IX/IY) exchanges HL with the word at SP; MEMPTR = the new HL. -/
theorem ex_sp_hl_exchanges (v : Variant) (p : Pfx) (s : Cpu) (b : RecBus) :
    (exec v p .exSPHL s b).1 = { (s.setIdx p (word b.mem s.sp)) with memptr := word b.mem s.sp } ∧
    (exec v p .exSPHL s b).2.mem =
      fun x => if x = s.sp then lo (s.idx p) else if x = s.sp + 1 then hi (s.idx p) else b.mem x := by
  cases p <;> rb_simp [word]

/-- **EX (SP),HL twice** restores HL (IX, IY) and the whole memory; the only trace is MEMPTR = HL. -/
theorem ex_sp_hl_involution (v : Variant) (p : Pfx) (s : Cpu) (b : RecBus) :
    let sb1 := exec v p .exSPHL s b
    let sb2 := exec v p .exSPHL sb1.1 sb1.2
    sb2.1 = { s with memptr := s.idx p } ∧ sb2.2.mem = b.mem := by
  intro sb1 sb2
  obtain ⟨e1, m1⟩ := ex_sp_hl_exchanges v p s b
  obtain ⟨e2, m2⟩ := ex_sp_hl_exchanges v p sb1.1 sb1.2
  constructor
  · show (exec v p .exSPHL sb1.1 sb1.2).1 = _
    rw [e2]
    show ({ (exec v p .exSPHL s b).1.setIdx p (word (exec v p .exSPHL s b).2.mem (exec v p .exSPHL s b).1.sp) with
      memptr := word (exec v p .exSPHL s b).2.mem (exec v p .exSPHL s b).1.sp } : Cpu) = _
    rw [m1, e1]
    cases p <;> cases s <;> simp [word, Cpu.setIdx, Cpu.idx, Cpu.hl, Cpu.ix, Cpu.iy, Cpu.setHL, Cpu.setIX,
      Cpu.setIY, hi_mk16, lo_mk16, mk16_hi_lo, a16_add1_ne]
  · show (exec v p .exSPHL sb1.1 sb1.2).2.mem = _
    rw [m2]
    show (fun x => if x = (exec v p .exSPHL s b).1.sp then lo ((exec v p .exSPHL s b).1.idx p)
      else if x = (exec v p .exSPHL s b).1.sp + 1 then hi ((exec v p .exSPHL s b).1.idx p)
      else (exec v p .exSPHL s b).2.mem x) = _
    rw [m1, e1]
    funext x
    cases p <;> cases s <;> simp [word, Cpu.setIdx, Cpu.idx, Cpu.hl, Cpu.ix, Cpu.iy, Cpu.setHL, Cpu.setIX,
      Cpu.setIY, hi_mk16, lo_mk16, mk16_hi_lo, a16_add1_ne]
    all_goals (split <;> simp_all)

/-! ### rotates -/

section anybus
variable {β : Type} [Bus β]

/-- **RLCA; RRCA restores A.** RLCA rotates A left by one; afterwards S, Z, P/V are as before, H and N
clear, C = bit 7 of A, bits 5/3 of A; Q = F; nothing else changes. -/
theorem rlca_rrca (v : Variant) (p : Pfx) (s : Cpu) (b b' : β) :
    let F := (s.f &&& 0xC4) ||| flag (s.a.getLsbD 7) FC ||| (s.a &&& 0x28)
    (exec v p (.rotA 0) s b).1.a = s.a.rotateLeft 1 ∧
    exec v p (.rotA 1) (exec v p (.rotA 0) s b).1 b' = ({ s with f := F, q := F }, b') := by
  refine ⟨by simp [exec, Spec.rotA], ?_⟩
  cases s
  simp only [exec, Spec.rotA, flag, tst, FC, Prod.mk.injEq, Cpu.mk.injEq, and_true, true_and]
  refine ⟨?_, ?_, ?_⟩ <;> bv_decide

/-- **RRCA; RLCA restores A**; C = bit 0 of A. -/
theorem rrca_rlca (v : Variant) (p : Pfx) (s : Cpu) (b b' : β) :
    let F := (s.f &&& 0xC4) ||| flag (s.a.getLsbD 0) FC ||| (s.a &&& 0x28)
    (exec v p (.rotA 1) s b).1.a = s.a.rotateRight 1 ∧
    exec v p (.rotA 0) (exec v p (.rotA 1) s b).1 b' = ({ s with f := F, q := F }, b') := by
  refine ⟨by simp [exec, Spec.rotA], ?_⟩
  cases s
  simp only [exec, Spec.rotA, flag, tst, FC, Prod.mk.injEq, Cpu.mk.injEq, and_true, true_and]
  refine ⟨?_, ?_, ?_⟩ <;> bv_decide

/-- **RLA; RRA restores A and the carry** (9-bit rotation through C): RLA shifts the old carry into
bit 0 and bit 7 into C; after the pair S, Z, P/V *and C* are as before, H and N clear, bits 5/3 of A. -/
theorem rla_rra (v : Variant) (p : Pfx) (s : Cpu) (b b' : β) :
    let F := (s.f &&& 0xC5) ||| (s.a &&& 0x28)
    (exec v p (.rotA 2) s b).1.a = (s.a <<< 1) ||| flag (tst s.f FC) 1 ∧
    tst (exec v p (.rotA 2) s b).1.f FC = s.a.getLsbD 7 ∧
    exec v p (.rotA 3) (exec v p (.rotA 2) s b).1 b' = ({ s with f := F, q := F }, b') := by
  refine ⟨?_, ?_, ?_⟩
  · simp only [exec, Spec.rotA, flag, tst, FC, Spec.cin8]; bv_decide
  · simp only [exec, Spec.rotA, flag, tst, FC, Spec.cin8]; bv_decide
  cases s
  simp only [exec, Spec.rotA, flag, tst, FC, Prod.mk.injEq, Cpu.mk.injEq, and_true, true_and, Spec.cin8]
  refine ⟨?_, ?_, ?_⟩ <;> bv_decide

/-- **RRA; RLA restores A and the carry.** -/
theorem rra_rla (v : Variant) (p : Pfx) (s : Cpu) (b b' : β) :
    let F := (s.f &&& 0xC5) ||| (s.a &&& 0x28)
    (exec v p (.rotA 3) s b).1.a = (s.a >>> 1) ||| flag (tst s.f FC) 0x80 ∧
    tst (exec v p (.rotA 3) s b).1.f FC = s.a.getLsbD 0 ∧
    exec v p (.rotA 2) (exec v p (.rotA 3) s b).1 b' = ({ s with f := F, q := F }, b') := by
  refine ⟨?_, ?_, ?_⟩
  · simp only [exec, Spec.rotA, flag, tst, FC, Spec.cin8]; bv_decide
  · simp only [exec, Spec.rotA, flag, tst, FC, Spec.cin8]; bv_decide
  cases s
  simp only [exec, Spec.rotA, flag, tst, FC, Prod.mk.injEq, Cpu.mk.injEq, and_true, true_and, Spec.cin8]
  refine ⟨?_, ?_, ?_⟩ <;> bv_decide

end anybus

/-- **RLC r; RRC r restores r** (r = B C D E H L A; `execCB` is entered after the CB byte, the two
operation bytes are at PC and PC+1): afterwards the CPU is as before except PC+2, R+2 and
F = Q = (C = bit 7 of r, S Z P 5 3 of r, H N clear). Memory untouched. -/
theorem rlc_rrc_r (r : R8) (hr : r ≠ .m) (s : Cpu) (b : RecBus)
    (h1 : decodeCB (b.mem s.pc) = .rot 0 r) (h2 : decodeCB (b.mem (s.pc + 1)) = .rot 1 r) :
    let sb1 := execCB s b
    let sb2 := execCB sb1.1 sb1.2
    getR8 .none r sb1.1 = (getR8 .none r s).rotateLeft 1 ∧
    sb2.1 = ({ s with pc := s.pc + 1 + 1, r := incR (incR s.r) }).setF
      (flag ((getR8 .none r s).getLsbD 7) FC ||| Spec.sz53p (getR8 .none r s)) ∧
    sb2.2.mem = b.mem := by
  have := cb_rot_pair_r 0 1 (fun x _ => flag (x.getLsbD 7) FC ||| Spec.sz53p x) rot_rlc_rrc r hr s b h1 h2
  simpa [Spec.rot] using this

/-- **RRC r; RLC r restores r**; C = bit 0 of r. -/
theorem rrc_rlc_r (r : R8) (hr : r ≠ .m) (s : Cpu) (b : RecBus)
    (h1 : decodeCB (b.mem s.pc) = .rot 1 r) (h2 : decodeCB (b.mem (s.pc + 1)) = .rot 0 r) :
    let sb1 := execCB s b
    let sb2 := execCB sb1.1 sb1.2
    getR8 .none r sb1.1 = (getR8 .none r s).rotateRight 1 ∧
    sb2.1 = ({ s with pc := s.pc + 1 + 1, r := incR (incR s.r) }).setF
      (flag ((getR8 .none r s).getLsbD 0) FC ||| Spec.sz53p (getR8 .none r s)) ∧
    sb2.2.mem = b.mem := by
  have := cb_rot_pair_r 1 0 (fun x _ => flag (x.getLsbD 0) FC ||| Spec.sz53p x) rot_rrc_rlc r hr s b h1 h2
  simpa [Spec.rot] using this

/-- **RL r; RR r restores r and the carry** (rotation through C). -/
theorem rl_rr_r (r : R8) (hr : r ≠ .m) (s : Cpu) (b : RecBus)
    (h1 : decodeCB (b.mem s.pc) = .rot 2 r) (h2 : decodeCB (b.mem (s.pc + 1)) = .rot 3 r) :
    let sb2 := execCB (execCB s b).1 (execCB s b).2
    sb2.1 = ({ s with pc := s.pc + 1 + 1, r := incR (incR s.r) }).setF
      (flag (tst s.f FC) FC ||| Spec.sz53p (getR8 .none r s)) ∧
    sb2.2.mem = b.mem :=
  (cb_rot_pair_r 2 3 (fun x c => flag c FC ||| Spec.sz53p x) rot_rl_rr r hr s b h1 h2).2

/-- **RR r; RL r restores r and the carry.** -/
theorem rr_rl_r (r : R8) (hr : r ≠ .m) (s : Cpu) (b : RecBus)
    (h1 : decodeCB (b.mem s.pc) = .rot 3 r) (h2 : decodeCB (b.mem (s.pc + 1)) = .rot 2 r) :
    let sb2 := execCB (execCB s b).1 (execCB s b).2
    sb2.1 = ({ s with pc := s.pc + 1 + 1, r := incR (incR s.r) }).setF
      (flag (tst s.f FC) FC ||| Spec.sz53p (getR8 .none r s)) ∧
    sb2.2.mem = b.mem :=
  (cb_rot_pair_r 3 2 (fun x c => flag c FC ||| Spec.sz53p x) rot_rr_rl r hr s b h1 h2).2

/-- **RLD; RRD restores A and (HL)**: RLD moves the high nibble of (HL) into the low nibble of A, the low
nibble of (HL) up and the low nibble of A into (HL); RRD undoes exactly that. Afterwards the whole memory
and the CPU are as before except MEMPTR = HL+1 and F = Q = (C kept, S Z P 5 3 of A, H N clear). -/
theorem rld_rrd (s : Cpu) (b : RecBus) :
    let sb1 := execED .rld s b
    let sb2 := execED .rrd sb1.1 sb1.2
    sb1.1.a = (s.a &&& 0xF0) ||| (b.mem s.hl >>> 4) ∧ sb1.2.mem s.hl = (b.mem s.hl <<< 4) ||| (s.a &&& 0x0F) ∧
    sb2.1 = ({ s with memptr := s.hl + 1 }).setF ((s.f &&& FC) ||| Spec.sz53p s.a) ∧ sb2.2.mem = b.mem := by
  cases s
  rb_simp [(rld_rrd_data _ _).1, carry_of_sz53p]
  refine ⟨by simp [Spec.rld], by simp [Spec.rld], ?_⟩
  funext x; split <;> simp_all

/-- **RRD; RLD restores A and (HL).** -/
theorem rrd_rld (s : Cpu) (b : RecBus) :
    let sb1 := execED .rrd s b
    let sb2 := execED .rld sb1.1 sb1.2
    sb1.1.a = (s.a &&& 0xF0) ||| (b.mem s.hl &&& 0x0F) ∧ sb1.2.mem s.hl = (b.mem s.hl >>> 4) ||| (s.a <<< 4) ∧
    sb2.1 = ({ s with memptr := s.hl + 1 }).setF ((s.f &&& FC) ||| Spec.sz53p s.a) ∧ sb2.2.mem = b.mem := by
  cases s
  rb_simp [(rld_rrd_data _ _).2, carry_of_sz53p]
  refine ⟨by simp [Spec.rrd], by simp [Spec.rrd], ?_⟩
  funext x; split <;> simp_all

/-! ## Non-vacuity -/

/-- `8000: 00 08` = the operation bytes of RLC B; RRC B (behind the CB prefixes) and `8010: 34 12 34 12` = the
operands of LD (1234),HL; LD HL,(1234) -/
def pairBus : RecBus :=
  { mem := fun a => if a = 0x8001 then 0x08 else if a = 0x8010 then 0x34 else if a = 0x8011 then 0x12 else
      if a = 0x8012 then 0x34 else if a = 0x8013 then 0x12 else 0 }

/-- the hypotheses of `rlc_rrc_r` and `ld_nn_hl_round_trip` are satisfiable, and the conclusions are what
they say on concrete values (B = 0x81: RLC gives 0x03 with carry, RRC brings 0x81 back) -/
example :
    decodeCB (pairBus.mem 0x8000) = .rot 0 .b ∧ decodeCB (pairBus.mem (0x8000 + 1)) = .rot 1 .b ∧
    (execCB ({ pc := 0x8000, b := 0x81 } : Cpu) pairBus).1.b = 0x03 ∧
    (execCB (execCB ({ pc := 0x8000, b := 0x81 } : Cpu) pairBus).1 (execCB ({ pc := 0x8000, b := 0x81 } : Cpu) pairBus).2).1.b = 0x81 ∧
    (let s : Cpu := { pc := 0x8010, h := 0xAB, l := 0xCD }
     let sb1 := exec .hw .none .ldNNHL s pairBus
     word sb1.2.mem sb1.1.pc = word pairBus.mem s.pc ∧ sb1.2.mem 0x1234 = 0xCD ∧ sb1.2.mem 0x1235 = 0xAB ∧
     (exec .hw .none .ldHLNN { sb1.1 with h := 0, l := 0 } sb1.2).1.hl = 0xABCD) := by decide

/-- PUSH BC; POP BC and EX (SP),HL on concrete values; INC/DEC of 0x7F passes through the overflow -/
example :
    let s : Cpu := { sp := 0x9000, b := 0x12, c := 0x34, h := 0x56, l := 0x78, f := 0x01 }
    (exec .hw .none (.push .bc) s pairBus).2.mem 0x8FFF = 0x12 ∧
    (exec .hw .none (.push .bc) s pairBus).2.mem 0x8FFE = 0x34 ∧
    (exec .hw .none (.pop .bc) (exec .hw .none (.push .bc) s pairBus).1 (exec .hw .none (.push .bc) s pairBus).2).1 = s ∧
    (exec .hw .none .exSPHL s pairBus).2.mem 0x9000 = 0x78 ∧ (exec .hw .none .exSPHL s pairBus).1.hl = 0 ∧
    (exec .hw .none (.inc .a) ({ a := 0x7F } : Cpu) pairBus).1.f = 0x94 ∧ incDecF 0x7F 0 = 0x3E ∧
    negTwiceF 0x80 = 0x87 ∧ cplTwiceF 0xFF 0x00 = 0x3A := by decide

end ZxVerif.C01Laws
