/-
C01 (architectural laws, part 2) — the arithmetic meaning of the ALU instructions of the Z80 reference
semantics, in ordinary integer arithmetic (`toNat`, `toInt`), for ALL operand values and ALL CPU states:
ADD ADC SUB SBC AND XOR OR CP on A; ADD/ADC/SBC HL,rr; DAA after a BCD addition/subtraction.

`AddMeaning`/`SubMeaning`/`LogicMeaning`/`Add16Meaning`/`Adc16Meaning`/`Sbc16Meaning` say, in the words of the
programmer's manual, what result and which of the eight flag bits an operation produces (all eight bits
are determined). The theorems say the reference semantics produces exactly that and changes nothing else.

Helpers: ZxVerif/Lemmas/Z80Arith.lean (carry/overflow of the bit-vector definitions as Nat/Int facts).
-/
import ZxVerif.Lemmas.Z80Arith
set_option linter.constructorNameAsVariable false
set_option linter.unusedSimpArgs false
namespace ZxVerif.C01Laws
open ZxVerif.Z80

/-- The opcode bytes of the instructions this file speaks about (documented encodings). -/
theorem law_opcodes_alu :
    decode 0x80 = .alu 0 .b ∧ decode 0x88 = .alu 1 .b ∧ decode 0x90 = .alu 2 .b ∧ decode 0x98 = .alu 3 .b ∧
    decode 0xA0 = .alu 4 .b ∧ decode 0xA8 = .alu 5 .b ∧ decode 0xB0 = .alu 6 .b ∧ decode 0xB8 = .alu 7 .b ∧
    decode 0x87 = .alu 0 .a ∧ decode 0x86 = .alu 0 .m ∧ decode 0xC6 = .aluN 0 ∧ decode 0xFE = .aluN 7 ∧
    decode 0x09 = .addHL .bc ∧ decode 0x29 = .addHL .hl ∧ decode 0x39 = .addHL .sp ∧
    decodeED 0x4A = .adcHL .bc ∧ decodeED 0x42 = .sbcHL .bc ∧ decodeED 0x62 = .sbcHL .hl ∧
    decode 0x27 = .daa := by decide

/-! ## What the manual says -/

/-- Outcome of the 8-bit addition `a + x + cin` (ADD: cin = 0; ADC: cin = C): `r` is the sum mod 256,
C = carry out of bit 7, Z/S from the result, P/V = the signed sum does not fit in 8 bits, H = carry out of
bit 3, N = 0, bits 5/3 copied from the result. -/
structure AddMeaning (a x : BitVec 8) (cin : Bool) (r f : BitVec 8) : Prop where
  result : r.toNat = (a.toNat + x.toNat + cin.toNat) % 256
  carry : tst f FC = decide (a.toNat + x.toNat + cin.toNat ≥ 256)
  zero : tst f FZ = decide (r = 0)
  sign : tst f FS = decide (r.toInt < 0)
  overflow : tst f FPV = decide (a.toInt + x.toInt + cin.toNat < -128 ∨ 127 < a.toInt + x.toInt + cin.toNat)
  half : tst f FH = decide (a.toNat % 16 + x.toNat % 16 + cin.toNat ≥ 16)
  subtract : tst f FN = false
  undoc : f &&& 0x28 = r &&& 0x28

/-- Outcome of the 8-bit subtraction `a - x - cin` (SUB, CP: cin = 0; SBC: cin = C): `r` is the difference
mod 256, C = borrow, Z/S from the result, P/V = the signed difference does not fit in 8 bits, H = borrow from
bit 4, N = 1, bits 5/3 copied from `u` (the result for SUB/SBC, the operand for CP). -/
structure SubMeaning (a x : BitVec 8) (cin : Bool) (r u f : BitVec 8) : Prop where
  result : (r.toNat : Int) = ((a.toNat : Int) - x.toNat - cin.toNat) % 256
  carry : tst f FC = decide (a.toNat < x.toNat + cin.toNat)
  zero : tst f FZ = decide (r = 0)
  sign : tst f FS = decide (r.toInt < 0)
  overflow : tst f FPV = decide (a.toInt - x.toInt - cin.toNat < -128 ∨ 127 < a.toInt - x.toInt - cin.toNat)
  half : tst f FH = decide (a.toNat % 16 < x.toNat % 16 + cin.toNat)
  subtract : tst f FN = true
  undoc : f &&& 0x28 = u &&& 0x28

/-- number of one bits -/
def popcount (x : BitVec 8) : Nat := (List.range 8).countP fun i => x.getLsbD i

/-- Outcome of a logical operation with result `r`: C = N = 0, H = `h` (1 for AND, 0 for OR/XOR), P/V = even
parity of the result, Z/S and bits 5/3 from the result. -/
structure LogicMeaning (r : BitVec 8) (h : Bool) (f : BitVec 8) : Prop where
  carry : tst f FC = false
  zero : tst f FZ = decide (r = 0)
  sign : tst f FS = decide (r.toInt < 0)
  parity : tst f FPV = decide (popcount r % 2 = 0)
  half : tst f FH = h
  subtract : tst f FN = false
  undoc : f &&& 0x28 = r &&& 0x28

/-! ## The eight accumulator operations, for all 256 x 256 x 2 operand/carry values -/

theorem parity_is_even_popcount (r : BitVec 8) : Spec.parityEven r = decide (popcount r % 2 = 0) := by
  revert r; apply forall_bv8; decide +kernel

/-- **ADD / ADC compute `A + x (+ C)`** with the documented flags. -/
theorem adc_meaning (a x : BitVec 8) (cin : Bool) :
    AddMeaning a x cin (a + x + Spec.cin8 cin) (Spec.addFlags a x cin) := by
  obtain ⟨h1, h2, h3, h4, h5, h6, h7⟩ := addFlags_bits a x cin
  exact { result := add8_toNat a x cin
          carry := by rw [← carryAdd8_nat]; exact h1
          zero := by rw [← beq_zero_eq_decide]; exact h5
          sign := by rw [← BitVec.msb_eq_toInt]; exact h6
          overflow := by rw [← ovfAdd8_int]; exact h3
          half := by rw [← halfAdd8_nat]; exact h2
          subtract := h4
          undoc := h7 }

/-- **SUB / SBC compute `A - x (- C)`** with the documented flags. -/
theorem sbc_meaning (a x : BitVec 8) (cin : Bool) :
    SubMeaning a x cin (a - x - Spec.cin8 cin) (a - x - Spec.cin8 cin) (Spec.subFlags a x cin) := by
  obtain ⟨h1, h2, h3, h4, h5, h6, h7⟩ := subFlags_bits a x cin
  exact { result := by
            have := sub8_toNat a x cin; have := a.isLt; have := x.isLt
            cases cin <;> simp at * <;> omega
          carry := by rw [← carrySub8_nat]; exact h1
          zero := by rw [← beq_zero_eq_decide]; exact h5
          sign := by rw [← BitVec.msb_eq_toInt]; exact h6
          overflow := by rw [← ovfSub8_int]; exact h3
          half := by rw [← halfSub8_nat]; exact h2
          subtract := h4
          undoc := h7 }

/-- flags of AND (h = 1), OR and XOR (h = 0) -/
theorem logic_meaning (r : BitVec 8) (h : Bool) : LogicMeaning r h (Spec.sz53p r ||| flag h FH) := by
  have hd := flags_decompose r h (Spec.parityEven r) false false
  have e : ∀ m, flag false m = 0 := fun _ => rfl
  have z : ∀ y : BitVec 8, y ||| (0 : BitVec 8) = y := by intro y; simp
  have c : Spec.sz53 r ||| flag h FH ||| flag (Spec.parityEven r) FPV = Spec.sz53p r ||| flag h FH := by
    simp only [Spec.sz53p, flag, FH, FPV]; bv_decide
  simp only [e, z, c] at hd
  obtain ⟨h1, h2, h3, h4, h5, h6, h7⟩ := hd
  exact { carry := h1
          zero := by rw [← beq_zero_eq_decide]; exact h5
          sign := by rw [← BitVec.msb_eq_toInt]; exact h6
          parity := by rw [← parity_is_even_popcount]; exact h3
          half := h2
          subtract := h4
          undoc := h7 }

/-- **The eight accumulator operations mean what the manual says**, for every A, operand and carry:
ADD, ADC: the sum; SUB, SBC: the difference; AND, XOR, OR: the bitwise result with parity in P/V (H set
by AND only); CP: A is kept, the flags are those of SUB except that bits 5/3 come from the operand. -/
theorem alu8_meaning (a x : BitVec 8) (cf : Bool) :
    AddMeaning a x false (Spec.alu8 0 a x cf).1 (Spec.alu8 0 a x cf).2 ∧
    AddMeaning a x cf (Spec.alu8 1 a x cf).1 (Spec.alu8 1 a x cf).2 ∧
    SubMeaning a x false (Spec.alu8 2 a x cf).1 (Spec.alu8 2 a x cf).1 (Spec.alu8 2 a x cf).2 ∧
    SubMeaning a x cf (Spec.alu8 3 a x cf).1 (Spec.alu8 3 a x cf).1 (Spec.alu8 3 a x cf).2 ∧
    ((Spec.alu8 4 a x cf).1 = a &&& x ∧ LogicMeaning (a &&& x) true (Spec.alu8 4 a x cf).2) ∧
    ((Spec.alu8 5 a x cf).1 = a ^^^ x ∧ LogicMeaning (a ^^^ x) false (Spec.alu8 5 a x cf).2) ∧
    ((Spec.alu8 6 a x cf).1 = a ||| x ∧ LogicMeaning (a ||| x) false (Spec.alu8 6 a x cf).2) ∧
    ((Spec.alu8 7 a x cf).1 = a ∧ SubMeaning a x false (a - x) x (Spec.alu8 7 a x cf).2) := by
  have z : ∀ y : BitVec 8, y + Spec.cin8 false = y ∧ y - Spec.cin8 false = y := by
    intro y; simp [Spec.cin8]
  have l0 : ∀ r : BitVec 8, Spec.sz53p r = Spec.sz53p r ||| flag false FH := by intro r; simp [flag]
  refine ⟨?_, ?_, ?_, ?_, ⟨rfl, ?_⟩, ⟨rfl, ?_⟩, ⟨rfl, ?_⟩, ⟨rfl, ?_⟩⟩
  · have := adc_meaning a x false; rw [(z _).1] at this; exact this
  · exact adc_meaning a x cf
  · have := sbc_meaning a x false; rw [(z _).2] at this; exact this
  · exact sbc_meaning a x cf
  · exact logic_meaning (a &&& x) true
  · show LogicMeaning _ _ (Spec.sz53p (a ^^^ x)); rw [l0]; exact logic_meaning _ false
  · show LogicMeaning _ _ (Spec.sz53p (a ||| x)); rw [l0]; exact logic_meaning _ false
  · have m := sbc_meaning a x false
    rw [(z _).2] at m
    have hf : ∀ k : BitVec 8, k &&& 0x28 = 0 →
        tst ((Spec.subFlags a x false &&& 0xD7) ||| (x &&& 0x28)) k = tst (Spec.subFlags a x false) k := by
      intro k hk; simp only [tst]; congr 1; bv_decide
    show SubMeaning a x false (a - x) x ((Spec.subFlags a x false &&& 0xD7) ||| (x &&& 0x28))
    exact { result := m.result
            carry := by rw [hf _ (by decide)]; exact m.carry
            zero := by rw [hf _ (by decide)]; exact m.zero
            sign := by rw [hf _ (by decide)]; exact m.sign
            overflow := by rw [hf _ (by decide)]; exact m.overflow
            half := by rw [hf _ (by decide)]; exact m.half
            subtract := by rw [hf _ (by decide)]; exact m.subtract
            undoc := by bv_decide }

/-! ## …as executed: `op A,r`, `op A,(HL)`, `op A,(IX+d)`, `op A,n` -/

/-- what an accumulator operation does to the CPU: A, F and the Q latch, nothing else -/
theorem execAlu_effect (op : BitVec 3) (x : BitVec 8) (s : Cpu) :
    execAlu op x s = { s with a := (Spec.alu8 op s.a x (tst s.f FC)).1, f := (Spec.alu8 op s.a x (tst s.f FC)).2,
                              q := (Spec.alu8 op s.a x (tst s.f FC)).2 } := rfl

section anybus
variable {β : Type} [Bus β]

/-- `op A,r` (r = B C D E H L A, or IXH IXL IYH IYL under DD/FD) applies the operation to the register;
no bus access. -/
theorem alu_r_executes (v : Variant) (p : Pfx) (op : BitVec 3) (r : R8) (hr : r ≠ .m) (s : Cpu) (b : β) :
    exec v p (.alu op r) s b = (execAlu op (getR8 p r s) s, b) := by
  cases r <;> first | exact absurd rfl hr | rfl

end anybus

/-- `op A,(HL)` applies the operation to the byte at HL; `op A,(IX+d)` / `(IY+d)` to the byte at
IX/IY + sign-extended d (d at PC; PC+1, MEMPTR = the address); `op A,n` to the byte at PC (PC+1).
Memory is never written. -/
theorem alu_mem_executes (v : Variant) (op : BitVec 3) (s : Cpu) (b : RecBus) :
    (exec v .none (.alu op .m) s b).1 = execAlu op (b.mem s.hl) s ∧
    (exec v .dd (.alu op .m) s b).1 =
      execAlu op (b.mem (s.ix + sext (b.mem s.pc))) { s with pc := s.pc + 1, memptr := s.ix + sext (b.mem s.pc) } ∧
    (exec v .fd (.alu op .m) s b).1 =
      execAlu op (b.mem (s.iy + sext (b.mem s.pc))) { s with pc := s.pc + 1, memptr := s.iy + sext (b.mem s.pc) } ∧
    (exec v .none (.aluN op) s b).1 = execAlu op (b.mem s.pc) { s with pc := s.pc + 1 } ∧
    (exec v .none (.alu op .m) s b).2.mem = b.mem ∧ (exec v .dd (.alu op .m) s b).2.mem = b.mem ∧
    (exec v .fd (.alu op .m) s b).2.mem = b.mem ∧ (exec v .none (.aluN op) s b).2.mem = b.mem := by
  simp [exec, operandAddr, fetchByte, rb_read, rb_read_mem, waitLoop_mem, Cpu.idx]

section anybus
variable {β : Type} [Bus β]

/-- **ADD A,r computes A + r mod 256** with C = carry out, Z/S from the result, P/V = signed overflow,
H = carry from bit 3, N = 0, bits 5/3 of the result, for every state and all 21 register forms; Q = F and
nothing else changes. -/
theorem add_a_r (v : Variant) (p : Pfx) (r : R8) (hr : r ≠ .m) (s : Cpu) (b : β) :
    let s' := (exec v p (.alu 0 r) s b).1
    AddMeaning s.a (getR8 p r s) false s'.a s'.f ∧ s' = { s with a := s'.a, f := s'.f, q := s'.f } ∧
    (exec v p (.alu 0 r) s b).2 = b := by
  rw [alu_r_executes v p 0 r hr s b]
  exact ⟨(alu8_meaning s.a (getR8 p r s) (tst s.f FC)).1, rfl, rfl⟩

/-- **ADC A,r computes A + r + C.** -/
theorem adc_a_r (v : Variant) (p : Pfx) (r : R8) (hr : r ≠ .m) (s : Cpu) (b : β) :
    let s' := (exec v p (.alu 1 r) s b).1
    AddMeaning s.a (getR8 p r s) (tst s.f FC) s'.a s'.f ∧ s' = { s with a := s'.a, f := s'.f, q := s'.f } := by
  rw [alu_r_executes v p 1 r hr s b]
  exact ⟨(alu8_meaning s.a (getR8 p r s) (tst s.f FC)).2.1, rfl⟩

/-- **SUB r computes A - r** with C = borrow, P/V = signed overflow, H = borrow from bit 4, N = 1. -/
theorem sub_r (v : Variant) (p : Pfx) (r : R8) (hr : r ≠ .m) (s : Cpu) (b : β) :
    let s' := (exec v p (.alu 2 r) s b).1
    SubMeaning s.a (getR8 p r s) false s'.a s'.a s'.f ∧ s' = { s with a := s'.a, f := s'.f, q := s'.f } := by
  rw [alu_r_executes v p 2 r hr s b]
  exact ⟨(alu8_meaning s.a (getR8 p r s) (tst s.f FC)).2.2.1, rfl⟩

/-- **SBC A,r computes A - r - C.** -/
theorem sbc_a_r (v : Variant) (p : Pfx) (r : R8) (hr : r ≠ .m) (s : Cpu) (b : β) :
    let s' := (exec v p (.alu 3 r) s b).1
    SubMeaning s.a (getR8 p r s) (tst s.f FC) s'.a s'.a s'.f ∧
    s' = { s with a := s'.a, f := s'.f, q := s'.f } := by
  rw [alu_r_executes v p 3 r hr s b]
  exact ⟨(alu8_meaning s.a (getR8 p r s) (tst s.f FC)).2.2.2.1, rfl⟩

/-- **AND r, XOR r, OR r** compute the bitwise result; C = N = 0, P/V = parity, H set by AND only. -/
theorem and_xor_or_r (v : Variant) (p : Pfx) (r : R8) (hr : r ≠ .m) (s : Cpu) (b : β) :
    let x := getR8 p r s
    let s4 := (exec v p (.alu 4 r) s b).1
    let s5 := (exec v p (.alu 5 r) s b).1
    let s6 := (exec v p (.alu 6 r) s b).1
    (s4.a = s.a &&& x ∧ LogicMeaning (s.a &&& x) true s4.f ∧ s4 = { s with a := s4.a, f := s4.f, q := s4.f }) ∧
    (s5.a = s.a ^^^ x ∧ LogicMeaning (s.a ^^^ x) false s5.f ∧ s5 = { s with a := s5.a, f := s5.f, q := s5.f }) ∧
    (s6.a = s.a ||| x ∧ LogicMeaning (s.a ||| x) false s6.f ∧ s6 = { s with a := s6.a, f := s6.f, q := s6.f }) := by
  rw [alu_r_executes v p 4 r hr s b, alu_r_executes v p 5 r hr s b, alu_r_executes v p 6 r hr s b]
  have m := alu8_meaning s.a (getR8 p r s) (tst s.f FC)
  exact ⟨⟨m.2.2.2.2.1.1, m.2.2.2.2.1.2, rfl⟩, ⟨m.2.2.2.2.2.1.1, m.2.2.2.2.2.1.2, rfl⟩,
    ⟨m.2.2.2.2.2.2.1.1, m.2.2.2.2.2.2.1.2, rfl⟩⟩

/-- **CP r compares**: the flags are those of `A - r` (so Z iff A = r, C iff A < r unsigned) except that
bits 5/3 are copied from the operand r; the result is discarded: every register including A is unchanged,
only F and Q change. -/
theorem cp_r (v : Variant) (p : Pfx) (r : R8) (hr : r ≠ .m) (s : Cpu) (b : β) :
    let x := getR8 p r s
    let s' := (exec v p (.alu 7 r) s b).1
    SubMeaning s.a x false (s.a - x) x s'.f ∧ s' = { s with f := s'.f, q := s'.f } ∧
    tst s'.f FZ = decide (s.a = x) ∧ tst s'.f FC = decide (s.a.toNat < x.toNat) := by
  rw [alu_r_executes v p 7 r hr s b]
  have m := (alu8_meaning s.a (getR8 p r s) (tst s.f FC)).2.2.2.2.2.2.2
  refine ⟨m.2, ?_, ?_, ?_⟩
  · show execAlu 7 _ s = _
    rw [execAlu_effect, m.1]
  · have := m.2.zero
    show tst (Spec.alu8 7 s.a (getR8 p r s) (tst s.f FC)).2 FZ = _
    rw [this]
    by_cases h : s.a = getR8 p r s
    · simp [h]
    · have : ¬ (s.a - getR8 p r s = 0#8) := fun e => h (eq_of_sub_eq_zero8 _ _ e)
      simp [h, this]
  · have := m.2.carry
    show tst (Spec.alu8 7 s.a (getR8 p r s) (tst s.f FC)).2 FC = _
    simpa using this

end anybus

/-! ## 16-bit arithmetic: ADD HL,rr / ADC HL,rr / SBC HL,rr -/

/-- Outcome of `ADD HL,rr` (`a` = HL/IX/IY, `x` = the operand, `f0` = F before): the 16-bit sum, C = carry
out of bit 15, H = carry out of bit 11, N = 0, S Z P/V untouched, bits 5/3 from the high byte of the result. -/
structure Add16Meaning (a x : BitVec 16) (f0 : BitVec 8) (r : BitVec 16) (f : BitVec 8) : Prop where
  result : r.toNat = (a.toNat + x.toNat) % 65536
  carry : tst f FC = decide (a.toNat + x.toNat ≥ 65536)
  half : tst f FH = decide (a.toNat % 4096 + x.toNat % 4096 ≥ 4096)
  subtract : tst f FN = false
  kept : f &&& 0xC4 = f0 &&& 0xC4
  undoc : f &&& 0x28 = hi r &&& 0x28

/-- Outcome of `ADC HL,rr`: `HL + rr + C` mod 65536, C = carry out of bit 15, Z/S from the 16-bit result,
P/V = the signed sum does not fit in 16 bits, H = carry out of bit 11, N = 0, bits 5/3 from the high byte. -/
structure Adc16Meaning (a x : BitVec 16) (cin : Bool) (r : BitVec 16) (f : BitVec 8) : Prop where
  result : r.toNat = (a.toNat + x.toNat + cin.toNat) % 65536
  carry : tst f FC = decide (a.toNat + x.toNat + cin.toNat ≥ 65536)
  zero : tst f FZ = decide (r = 0)
  sign : tst f FS = decide (r.toInt < 0)
  overflow : tst f FPV =
    decide (a.toInt + x.toInt + cin.toNat < -32768 ∨ 32767 < a.toInt + x.toInt + cin.toNat)
  half : tst f FH = decide (a.toNat % 4096 + x.toNat % 4096 + cin.toNat ≥ 4096)
  subtract : tst f FN = false
  undoc : f &&& 0x28 = hi r &&& 0x28

/-- Outcome of `SBC HL,rr`: `HL - rr - C` mod 65536, C = borrow, Z/S from the 16-bit result, P/V = the signed
difference does not fit in 16 bits, H = borrow from bit 12, N = 1, bits 5/3 from the high byte. -/
structure Sbc16Meaning (a x : BitVec 16) (cin : Bool) (r : BitVec 16) (f : BitVec 8) : Prop where
  result : (r.toNat : Int) = ((a.toNat : Int) - x.toNat - cin.toNat) % 65536
  carry : tst f FC = decide (a.toNat < x.toNat + cin.toNat)
  zero : tst f FZ = decide (r = 0)
  sign : tst f FS = decide (r.toInt < 0)
  overflow : tst f FPV =
    decide (a.toInt - x.toInt - cin.toNat < -32768 ∨ 32767 < a.toInt - x.toInt - cin.toNat)
  half : tst f FH = decide (a.toNat % 4096 < x.toNat % 4096 + cin.toNat)
  subtract : tst f FN = true
  undoc : f &&& 0x28 = hi r &&& 0x28

/-- `Spec.add16` means 16-bit addition, for all 2^16 x 2^16 operands and every previous F. -/
theorem add16_meaning (a x : BitVec 16) (f0 : BitVec 8) :
    Add16Meaning a x f0 (Spec.add16 a x f0).1 (Spec.add16 a x f0).2 := by
  obtain ⟨h1, h2, h3, h4, h5⟩ := add16_bits f0 (a + x) (((a &&& 0x0FFF) + (x &&& 0x0FFF)).getLsbD 12)
    ((a.setWidth 17 + x.setWidth 17).getLsbD 16)
  exact { result := by simp [Spec.add16, BitVec.toNat_add]
          carry := by rw [← carryAdd16_nat0]; exact h1
          half := by rw [← halfAdd16_nat0]; exact h2
          subtract := h3
          kept := h4
          undoc := h5 }

/-- `Spec.adc16` means 16-bit addition with carry, for all operands and both carries. -/
theorem adc16_meaning (a x : BitVec 16) (cin : Bool) :
    Adc16Meaning a x cin (Spec.adc16 a x cin).1 (Spec.adc16 a x cin).2 := by
  have hd := flags16_decompose (a + x + (BitVec.ofBool cin).setWidth 16)
    (((a &&& 0x0FFF) + (x &&& 0x0FFF) + (BitVec.ofBool cin).setWidth 16).getLsbD 12) (Spec.ovfAdd16 a x cin)
    ((a.setWidth 17 + x.setWidth 17 + (BitVec.ofBool cin).setWidth 17).getLsbD 16) false
  have e : flag false FN = 0 := rfl
  have z : ∀ y : BitVec 8, y ||| (0 : BitVec 8) = y := by intro y; simp
  simp only [e, z] at hd
  obtain ⟨h1, h2, h3, h4, h5, h6, h7⟩ := hd
  exact { result := add16_toNat a x cin
          carry := by rw [← carryAdd16_nat]; exact h1
          zero := by rw [← beq_zero_eq_decide]; exact h5
          sign := by rw [← BitVec.msb_eq_toInt]; exact h6
          overflow := by rw [← ovfAdd16_int]; exact h3
          half := by rw [← halfAdd16_nat]; exact h2
          subtract := h4
          undoc := h7 }

/-- `Spec.sbc16` means 16-bit subtraction with borrow, for all operands and both carries. -/
theorem sbc16_meaning (a x : BitVec 16) (cin : Bool) :
    Sbc16Meaning a x cin (Spec.sbc16 a x cin).1 (Spec.sbc16 a x cin).2 := by
  have hd := flags16_decompose (a - x - (BitVec.ofBool cin).setWidth 16)
    (((a &&& 0x0FFF) - (x &&& 0x0FFF) - (BitVec.ofBool cin).setWidth 16).getLsbD 12) (Spec.ovfSub16 a x cin)
    ((a.setWidth 17 - x.setWidth 17 - (BitVec.ofBool cin).setWidth 17).getLsbD 16) true
  have e : flag true FN = FN := rfl
  simp only [e] at hd
  obtain ⟨h1, h2, h3, h4, h5, h6, h7⟩ := hd
  exact { result := by
            have := sub16_toNat a x cin; have := a.isLt; have := x.isLt
            show (((a - x - (BitVec.ofBool cin).setWidth 16).toNat : Nat) : Int) = _
            cases cin <;> simp at * <;> omega
          carry := by rw [← carrySub16_nat]; exact h1
          zero := by rw [← beq_zero_eq_decide]; exact h5
          sign := by rw [← BitVec.msb_eq_toInt]; exact h6
          overflow := by rw [← ovfSub16_int]; exact h3
          half := by rw [← halfSub16_nat]; exact h2
          subtract := h4
          undoc := h7 }

section anybus
variable {β : Type} [Bus β]

/-- writing HL/IX/IY and reading it back -/
theorem idx_setIdx (p : Pfx) (w : BitVec 16) (s : Cpu) : (s.setIdx p w).idx p = w := by
  cases p <;> simp [Cpu.idx, Cpu.setIdx, Cpu.hl, Cpu.ix, Cpu.iy, Cpu.setHL, Cpu.setIX, Cpu.setIY, mk16_hi_lo]

/-- **ADD HL,rr** (rr = BC DE HL SP; ADD IX,rr / ADD IY,rr under DD/FD, where "HL" as operand means the
index register itself) adds the pair to HL: `Add16Meaning`; MEMPTR = old HL + 1, Q = F, nothing else
changes and memory is not accessed. -/
theorem add_hl_rr (v : Variant) (p : Pfx) (rp : RP) (s : Cpu) (b : β) :
    let s' := (exec v p (.addHL rp) s b).1
    Add16Meaning (s.idx p) (getRP p rp s) s.f (s'.idx p) s'.f ∧
    s' = ((({ s with memptr := s.idx p + 1 }).setF s'.f).setIdx p (s'.idx p)) := by
  have m := add16_meaning (s.idx p) (getRP p rp s) s.f
  have hi' : ((exec v p (.addHL rp) s b).1).idx p = (Spec.add16 (s.idx p) (getRP p rp s) s.f).1 := by
    simp [exec, idx_setIdx]
  have hf : ((exec v p (.addHL rp) s b).1).f = (Spec.add16 (s.idx p) (getRP p rp s) s.f).2 := by
    simp [exec, setIdx_f, Cpu.setF]
  refine ⟨?_, ?_⟩
  · show Add16Meaning _ _ _ ((exec v p (.addHL rp) s b).1.idx p) (exec v p (.addHL rp) s b).1.f
    rw [hi', hf]; exact m
  · show (exec v p (.addHL rp) s b).1 = _
    rw [hi', hf]; simp [exec]

/-- **ADC HL,rr** adds the pair and the carry to HL: `Adc16Meaning`; MEMPTR = old HL + 1, Q = F. -/
theorem adc_hl_rr (rp : RP) (s : Cpu) (b : β) :
    let s' := (execED (.adcHL rp) s b).1
    Adc16Meaning s.hl (getRP .none rp s) (tst s.f FC) s'.hl s'.f ∧
    s' = ((({ s with memptr := s.hl + 1 }).setF s'.f).setHL s'.hl) := by
  have m := adc16_meaning s.hl (getRP .none rp s) (tst s.f FC)
  have hh : ((execED (.adcHL rp) s b).1).hl = (Spec.adc16 s.hl (getRP .none rp s) (tst s.f FC)).1 := by
    simp [execED, Cpu.setHL, Cpu.hl, mk16_hi_lo]
  have hf : ((execED (.adcHL rp) s b).1).f = (Spec.adc16 s.hl (getRP .none rp s) (tst s.f FC)).2 := by
    simp [execED, Cpu.setHL, Cpu.setF]
  refine ⟨?_, ?_⟩
  · show Adc16Meaning _ _ _ ((execED (.adcHL rp) s b).1.hl) (execED (.adcHL rp) s b).1.f
    rw [hh, hf]; exact m
  · show (execED (.adcHL rp) s b).1 = _
    rw [hh, hf]; simp [execED]

/-- **SBC HL,rr** subtracts the pair and the carry from HL: `Sbc16Meaning`; MEMPTR = old HL + 1, Q = F. -/
theorem sbc_hl_rr (rp : RP) (s : Cpu) (b : β) :
    let s' := (execED (.sbcHL rp) s b).1
    Sbc16Meaning s.hl (getRP .none rp s) (tst s.f FC) s'.hl s'.f ∧
    s' = ((({ s with memptr := s.hl + 1 }).setF s'.f).setHL s'.hl) := by
  have m := sbc16_meaning s.hl (getRP .none rp s) (tst s.f FC)
  have hh : ((execED (.sbcHL rp) s b).1).hl = (Spec.sbc16 s.hl (getRP .none rp s) (tst s.f FC)).1 := by
    simp [execED, Cpu.setHL, Cpu.hl, mk16_hi_lo]
  have hf : ((execED (.sbcHL rp) s b).1).f = (Spec.sbc16 s.hl (getRP .none rp s) (tst s.f FC)).2 := by
    simp [execED, Cpu.setHL, Cpu.setF]
  refine ⟨?_, ?_⟩
  · show Sbc16Meaning _ _ _ ((execED (.sbcHL rp) s b).1.hl) (execED (.sbcHL rp) s b).1.f
    rw [hh, hf]; exact m
  · show (execED (.sbcHL rp) s b).1 = _
    rw [hh, hf]; simp [execED]

end anybus

/-! ## DAA: decimal arithmetic on packed BCD

`isBcd x`: both nibbles of `x` are decimal digits; `bcdVal x` = 10 x high digit + low digit. -/

/-- **DAA after ADD/ADC of two valid BCD bytes yields the BCD sum**: for all 100 x 100 pairs of two-digit
decimal numbers and both carries-in, the adjusted accumulator is again valid BCD and, together with the
carry flag as the hundreds digit, stands for the decimal sum. -/
theorem daa_after_add_bcd (a x : BitVec 8) (cin : Bool) (ha : isBcd a = true) (hx : isBcd x = true) :
    let r := Spec.alu8 1 a x cin
    let d := Spec.daa r.1 r.2
    isBcd d.1 = true ∧ bcdVal d.1 + (if tst d.2 FC then 100 else 0) = bcdVal a + bcdVal x + cin.toNat := by
  obtain ⟨h1, h2⟩ := daa_add_bv a x cin ha hx
  refine ⟨h1, ?_⟩
  have h := congrArg BitVec.toNat h2
  have b1 := bcdVal_le (Spec.daa (a + x + Spec.cin8 cin) (Spec.addFlags a x cin)).1
  have b2 := bcdVal_le a; have b3 := bcdVal_le x
  show bcdVal (Spec.daa (a + x + Spec.cin8 cin) (Spec.addFlags a x cin)).1 +
    (if tst (Spec.daa (a + x + Spec.cin8 cin) (Spec.addFlags a x cin)).2 FC then 100 else 0) = _
  generalize Spec.daa (a + x + Spec.cin8 cin) (Spec.addFlags a x cin) = d at *
  cases cin <;> cases hc : tst d.2 FC <;> rw [hc] at h <;> simp [BitVec.toNat_add, bcdBv_toNat] at h ⊢ <;> omega

/-- The same for plain ADD (no carry-in): **ADD then DAA is decimal addition.** -/
theorem daa_after_add_bcd0 (a x : BitVec 8) (cf : Bool) (ha : isBcd a = true) (hx : isBcd x = true) :
    let r := Spec.alu8 0 a x cf
    let d := Spec.daa r.1 r.2
    isBcd d.1 = true ∧ bcdVal d.1 + (if tst d.2 FC then 100 else 0) = bcdVal a + bcdVal x := by
  have h := daa_after_add_bcd a x false ha hx
  have e : Spec.alu8 1 a x false = Spec.alu8 0 a x cf := by simp [Spec.alu8, Spec.cin8]
  rw [e] at h
  simpa using h

/-- **DAA after SUB/SBC of two valid BCD bytes yields the BCD difference** (mod 100, the carry flag is the
decimal borrow): `result + x + borrow-in = a + 100 * borrow-out`. -/
theorem daa_after_sub_bcd (a x : BitVec 8) (cin : Bool) (ha : isBcd a = true) (hx : isBcd x = true) :
    let r := Spec.alu8 3 a x cin
    let d := Spec.daa r.1 r.2
    isBcd d.1 = true ∧ bcdVal d.1 + bcdVal x + cin.toNat = bcdVal a + (if tst d.2 FC then 100 else 0) := by
  obtain ⟨h1, h2⟩ := daa_sub_bv a x cin ha hx
  refine ⟨h1, ?_⟩
  have h := congrArg BitVec.toNat h2
  have b1 := bcdVal_le (Spec.daa (a - x - Spec.cin8 cin) (Spec.subFlags a x cin)).1
  have b2 := bcdVal_le a; have b3 := bcdVal_le x
  show bcdVal (Spec.daa (a - x - Spec.cin8 cin) (Spec.subFlags a x cin)).1 + bcdVal x + cin.toNat =
    bcdVal a + (if tst (Spec.daa (a - x - Spec.cin8 cin) (Spec.subFlags a x cin)).2 FC then 100 else 0)
  generalize Spec.daa (a - x - Spec.cin8 cin) (Spec.subFlags a x cin) = d at *
  cases cin <;> cases hc : tst d.2 FC <;> rw [hc] at h <;> simp [BitVec.toNat_add, bcdBv_toNat] at h ⊢ <;> omega

section anybus
variable {β : Type} [Bus β]

/-- **`ADD A,r; DAA` adds two-digit decimal numbers**, as executed: if A and r hold valid BCD, then after
the two instructions A holds valid BCD and 100 x C + A (decimal) is the sum; only A, F and Q changed. -/
theorem add_daa_bcd (v : Variant) (p : Pfx) (r : R8) (hr : r ≠ .m) (s : Cpu) (b b' : β)
    (ha : isBcd s.a = true) (hx : isBcd (getR8 p r s) = true) :
    let s2 := (exec v p .daa (exec v p (.alu 0 r) s b).1 b').1
    isBcd s2.a = true ∧ bcdVal s2.a + (if tst s2.f FC then 100 else 0) = bcdVal s.a + bcdVal (getR8 p r s) ∧
    s2 = { s with a := s2.a, f := s2.f, q := s2.f } := by
  rw [alu_r_executes v p 0 r hr s b]
  have h := daa_after_add_bcd0 s.a (getR8 p r s) (tst s.f FC) ha hx
  exact ⟨h.1, h.2, rfl⟩

end anybus

/-! ## Non-vacuity -/

/-- 0x7F + 0x01: result 0x80, signed overflow, half carry, no carry — and the meaning record agrees -/
example : (Spec.alu8 0 0x7F 0x01 false).1 = 0x80 ∧ tst (Spec.alu8 0 0x7F 0x01 false).2 FPV = true ∧
    decide ((0x7F : BitVec 8).toInt + (0x01 : BitVec 8).toInt > 127) = true ∧
    tst (Spec.alu8 0 0xFF 0x01 false).2 FC = true ∧ tst (Spec.alu8 0 0xFF 0x01 false).2 FZ = true := by decide

/-- 38 + 45 = 83 and 99 + 99 + 1 = 199 in BCD -/
example : isBcd 0x38 = true ∧ isBcd 0x45 = true ∧ isBcd 0x3A = false ∧ bcdVal 0x38 = 38 ∧
    (Spec.daa (Spec.alu8 0 0x38 0x45 false).1 (Spec.alu8 0 0x38 0x45 false).2).1 = 0x83 ∧
    (Spec.daa (Spec.alu8 1 0x99 0x99 true).1 (Spec.alu8 1 0x99 0x99 true).2).1 = 0x99 ∧
    tst (Spec.daa (Spec.alu8 1 0x99 0x99 true).1 (Spec.alu8 1 0x99 0x99 true).2).2 FC = true ∧
    (Spec.daa (Spec.alu8 2 0x42 0x17 false).1 (Spec.alu8 2 0x42 0x17 false).2).1 = 0x25 := by decide

/-- ADD HL,DE with HL = 0x0FFF, DE = 0x0001 sets H only; ADC HL,HL with HL = 0x8000 overflows to zero -/
example : (exec .hw .none (.addHL .de) ({ h := 0x0F, l := 0xFF, e := 0x01 } : Cpu) ({ mem := fun _ => 0 } : RecBus)).1.hl = 0x1000 ∧
    (exec .hw .none (.addHL .de) ({ h := 0x0F, l := 0xFF, e := 0x01 } : Cpu) ({ mem := fun _ => 0 } : RecBus)).1.f = 0x10 ∧
    (Spec.adc16 0x8000 0x8000 false) = (0x0000, 0x45) := by decide

end ZxVerif.C01Laws
