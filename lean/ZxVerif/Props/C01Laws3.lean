/-
C01 (architectural laws, part 3) — `emulate` on opcode bytes, block instructions run to completion,
stack and control flow of the Z80 reference semantics.

* `emulate_is_exec*`: one `emulate` call at a calm instruction boundary (no interrupt accepted, no pending
  prefix) whose opcode bytes are in memory IS the opcode fetch(es) followed by `exec`/`execED`/`execCB` of
  the decoded instruction. This lifts every law of parts 1 and 2 (stated on decoded instructions) to
  `emulate`.
* `ldir_copies`, `cpir_finds_first`, `cpir_not_found`: LDIR / CPIR iterated by `emulate` until they
  complete, by induction over the byte count, for every memory content.
* `call_ret`, `djnz_law`, `jr_cc`, `jp_cc`, `call_cc`, `ret_cc`: stack discipline and the eight condition codes.

Memory is the recording bus `RecBus` (any content; read-your-write). Helpers: ZxVerif/Lemmas/Z80Laws.lean
(`Calm`, `emulate_main`…), ZxVerif/Lemmas/Z80Block.lean (one LDIR/CPIR iteration, address arithmetic).
-/
import ZxVerif.Lemmas.Z80Block
set_option linter.constructorNameAsVariable false
set_option linter.unusedSimpArgs false
namespace ZxVerif.C01Laws
open ZxVerif.Z80

/-- The opcode bytes of the instructions this file speaks about (documented encodings). -/
theorem law_opcodes_flow :
    decodeED 0xB0 = .ldBlock false true ∧ decodeED 0xB1 = .cpBlock false true ∧
    decodeED 0xB8 = .ldBlock true true ∧ decodeED 0xA0 = .ldBlock false false ∧
    decode 0xCD = .call ∧ decode 0xC9 = .ret ∧ decode 0x10 = .djnz ∧ decode 0x18 = .jr ∧ decode 0xC3 = .jp ∧
    decode 0x20 = .jrcc .nz ∧ decode 0x28 = .jrcc .z ∧ decode 0x30 = .jrcc .nc ∧ decode 0x38 = .jrcc .c ∧
    decode 0xC2 = .jpcc .nz ∧ decode 0xCA = .jpcc .z ∧ decode 0xD2 = .jpcc .nc ∧ decode 0xDA = .jpcc .c ∧
    decode 0xE2 = .jpcc .po ∧ decode 0xEA = .jpcc .pe ∧ decode 0xF2 = .jpcc .p ∧ decode 0xFA = .jpcc .m ∧
    decode 0xC4 = .callcc .nz ∧ decode 0xFC = .callcc .m ∧ decode 0xC0 = .retcc .nz ∧ decode 0xF8 = .retcc .m := by
  decide

/-! ## `emulate` is fetch + `exec` -/

/-- **Unprefixed instructions.** At a calm boundary, if the byte at PC is not a prefix, `emulate` is: R+1
(7 bit), PC+1, the Q latch stepped (`lastQ := q`, `q := 0`), the 4-T opcode fetch on the bus, then `exec`
of the decoded instruction, then the `pc_callback` notification. -/
theorem emulate_is_exec (v : Variant) (s : Cpu) (b : RecBus) (hc : Calm s b)
    (hnp : (decode (b.mem s.pc)).isPrefix = false) :
    emulate v (s, b) =
      let sb := exec v .none (decode (b.mem s.pc)) (stepQ { s with r := incR s.r, pc := s.pc + 1 }) (read s.pc 4 b).2
      (sb.1, Bus.pcCallback sb.1.pc sb.2) := emulate_main v s b hc hnp

/-- **ED page**: two opcode fetches (R+2, PC+2), then `execED` of the decoded second byte. -/
theorem emulate_is_execED (v : Variant) (s : Cpu) (b : RecBus) (hc : Calm s b) (h0 : b.mem s.pc = 0xED) :
    emulate v (s, b) =
      let sb := execED (decodeED (b.mem (s.pc + 1))) (stepQ { s with r := incR (incR s.r), pc := s.pc + 1 + 1 })
        (read (s.pc + 1) 4 (read s.pc 4 b).2).2
      (sb.1, Bus.pcCallback sb.1.pc sb.2) := emulate_ed v s b hc h0

/-- **CB page**: the CB fetch (R+1, PC+1), then `execCB` (which fetches the operation byte itself). -/
theorem emulate_is_execCB (v : Variant) (s : Cpu) (b : RecBus) (hc : Calm s b) (h0 : b.mem s.pc = 0xCB) :
    emulate v (s, b) =
      let sb := execCB (stepQ { s with r := incR s.r, pc := s.pc + 1 }) (read s.pc 4 b).2
      (sb.1, Bus.pcCallback sb.1.pc sb.2) := emulate_cb v s b hc h0

/-- **DD / FD page**: prefix fetch and opcode fetch (R+2, PC+2), then `exec` under the index prefix. -/
theorem emulate_is_exec_indexed (v : Variant) (p : Pfx) (hp : p ≠ .none) (s : Cpu) (b : RecBus) (hc : Calm s b)
    (h0 : b.mem s.pc = idxByte p) (hnp : (decode (b.mem (s.pc + 1))).isPrefix = false) :
    emulate v (s, b) =
      let sb := exec v p (decode (b.mem (s.pc + 1))) (stepQ { s with r := incR (incR s.r), pc := s.pc + 1 + 1 })
        (read (s.pc + 1) 4 (read s.pc 4 b).2).2
      (sb.1, Bus.pcCallback sb.1.pc sb.2) := emulate_idx v p hp s b hc h0 hnp

/-! ## 4. Block instructions run to completion -/

/-- What a completed LDIR that started in `(s, b)` with BC = n+1 must have achieved in `(s', b')`. -/
structure LdirDone (s : Cpu) (b : RecBus) (n : Nat) (s' : Cpu) (b' : RecBus) : Prop where
  copied : ∀ j, j ≤ n → b'.mem (s.de + BitVec.ofNat 16 j) = b.mem (s.hl + BitVec.ofNat 16 j)
  rest : ∀ x, (∀ j, j ≤ n → x ≠ s.de + BitVec.ofNat 16 j) → b'.mem x = b.mem x
  hl : s'.hl = s.hl + s.bc
  de : s'.de = s.de + s.bc
  bc : s'.bc = 0
  pc : s'.pc = s.pc + 2
  pv : tst s'.f FPV = false
  h : tst s'.f FH = false
  n : tst s'.f FN = false
  szc : s'.f &&& 0xC1 = s.f &&& 0xC1
  frame : ldFrame s' = ldFrame s

theorem ldir_copies (v : Variant) (n : Nat) (s : Cpu) (b : RecBus) (hc : Calm s b)
    (h0 : b.mem s.pc = 0xED) (h1 : b.mem (s.pc + 1) = 0xB0)
    (hbc : s.bc.toNat = n + 1)
    (hcode : ∀ j, j ≤ n → s.de + BitVec.ofNat 16 j ≠ s.pc ∧ s.de + BitVec.ofNat 16 j ≠ s.pc + 1)
    (hov : ∀ i j, j < i → i ≤ n → s.de + BitVec.ofNat 16 j ≠ s.hl + BitVec.ofNat 16 i) :
    LdirDone s b n (run v (n + 1) (s, b)).1 (run v (n + 1) (s, b)).2 := by
  induction n generalizing s b with
  | zero =>
    obtain ⟨m, i1, i2, e1, e2, e3, e4, e5, e6, e7, e8, e9⟩ := ldir_emulate_step v s b hc h0 h1
    have hz : s.bc - 1 = 0 := a16_toNat_one _ hbc
    have hb1 : s.bc = 1 := by bv_omega
    simp only [run]
    rw [hz] at e3 e4 e6
    exact { copied := by
              intro j hj; have : j = 0 := by omega
              subst this; rw [m]; simp
            rest := by
              intro x hx; have := hx 0 (Nat.le_refl _); rw [m]; simp at this ⊢; intro h; exact absurd h this
            hl := by rw [e1, hb1]
            de := by rw [e2, hb1]
            bc := e3
            pc := by rw [e4]; simp
            pv := by rw [e6]; rfl
            h := e7, n := e8, szc := e5, frame := e9 }
  | succ n ih =>
    obtain ⟨m, i1, i2, e1, e2, e3, e4, e5, e6, e7, e8, e9⟩ := ldir_emulate_step v s b hc h0 h1
    obtain ⟨hbc', hnz⟩ := a16_toNat_succ _ n hbc
    show LdirDone s b (n + 1) (run v (n + 1) (emulate v (s, b))).1 (run v (n + 1) (emulate v (s, b))).2
    generalize emulate v (s, b) = sb1 at *
    obtain ⟨s1, b1⟩ := sb1
    simp only at m i1 i2 e1 e2 e3 e4 e5 e6 e7 e8 e9
    rw [if_neg hnz] at e4
    have hc0 := hcode 0 (Nat.zero_le _)
    simp only [a16_ofNat_zero] at hc0
    have hc1 : Calm s1 b1 := ldFrame_calm e9 i1 i2 hc
    have h0' : b1.mem s1.pc = 0xED := by
      rw [m, e4]; simp only; rw [if_neg (Ne.symm hc0.1)]; exact h0
    have h1' : b1.mem (s1.pc + 1) = 0xB0 := by
      rw [m, e4]; simp only; rw [if_neg (Ne.symm hc0.2)]; exact h1
    have hcode' : ∀ j, j ≤ n → s1.de + BitVec.ofNat 16 j ≠ s1.pc ∧ s1.de + BitVec.ofNat 16 j ≠ s1.pc + 1 := by
      intro j hj; rw [e2, e4, a16_ofNat_succ]; exact hcode (j + 1) (by omega)
    have hov' : ∀ i j, j < i → i ≤ n → s1.de + BitVec.ofNat 16 j ≠ s1.hl + BitVec.ofNat 16 i := by
      intro i j hji hi; rw [e1, e2, a16_ofNat_succ, a16_ofNat_succ]; exact hov (i + 1) (j + 1) (by omega) (by omega)
    have hbc1 : s1.bc.toNat = n + 1 := by rw [e3]; exact hbc'
    have d := ih s1 b1 hc1 h0' h1' hbc1 hcode' hov'
    generalize run v (n + 1) (s1, b1) = sb2 at d
    obtain ⟨s2, b2⟩ := sb2
    simp only at d ⊢
    have hn : n + 1 < 65536 := by have := s.bc.isLt; omega
    exact { copied := by
              intro j hj
              cases j with
              | zero =>
                rw [a16_ofNat_zero, a16_ofNat_zero, d.rest, m]; simp
                intro j hj; rw [e2, a16_ofNat_succ]; exact (a16_ofNat_ne_self _ _ (by omega) (by omega)).symm
              | succ j =>
                rw [← a16_ofNat_succ, ← e2, d.copied j (by omega), e1, a16_ofNat_succ, m]
                simp only
                rw [if_neg]
                have := hov (j + 1) 0 (by omega) (by omega)
                rw [a16_ofNat_zero] at this; exact this.symm
            rest := by
              intro x hx
              rw [d.rest, m]
              · simp only; rw [if_neg]; have := hx 0 (by omega); rw [a16_ofNat_zero] at this; exact this
              · intro j hj; rw [e2, a16_ofNat_succ]; exact hx (j + 1) (by omega)
            hl := by rw [d.hl, e1, e3]; bv_omega
            de := by rw [d.de, e2, e3]; bv_omega
            bc := d.bc
            pc := by rw [d.pc, e4]
            pv := d.pv, h := d.h, n := d.n
            szc := by rw [d.szc, e5]
            frame := by rw [d.frame, e9] }


/-- What CPIR from `(s, b)` that found its byte at offset `k` has achieved in `(s', b')`. -/
structure CpirFound (s : Cpu) (b : RecBus) (k : Nat) (s' : Cpu) (b' : RecBus) : Prop where
  mem : b'.mem = b.mem
  hl : s'.hl = s.hl + BitVec.ofNat 16 (k + 1)
  bc : s'.bc = s.bc - BitVec.ofNat 16 (k + 1)
  pc : s'.pc = s.pc + 2
  z : tst s'.f FZ = true
  pv : tst s'.f FPV = (s.bc - BitVec.ofNat 16 (k + 1) != 0)
  n : tst s'.f FN = true
  c : s'.f &&& FC = s.f &&& FC
  frame : cpFrame s' = cpFrame s

theorem cpir_finds_first (v : Variant) (k : Nat) (s : Cpu) (b : RecBus) (hc : Calm s b)
    (h0 : b.mem s.pc = 0xED) (h1 : b.mem (s.pc + 1) = 0xB1)
    (hk : k < blockCount s.bc)
    (hmiss : ∀ i, i < k → b.mem (s.hl + BitVec.ofNat 16 i) ≠ s.a)
    (hhit : b.mem (s.hl + BitVec.ofNat 16 k) = s.a) :
    CpirFound s b k (run v (k + 1) (s, b)).1 (run v (k + 1) (s, b)).2 := by
  induction k generalizing s b with
  | zero =>
    obtain ⟨m, i1, i2, e1, e2, e3, e4, e5, e6, e7, e8, e9⟩ := cpir_emulate_step v s b hc h0 h1
    rw [a16_ofNat_zero] at hhit
    show CpirFound s b 0 (emulate v (s, b)).1 (emulate v (s, b)).2
    rw [if_pos (Or.inr hhit.symm)] at e3
    exact { mem := m, hl := e1, bc := e2, pc := e3
            z := by rw [e4, hhit]; simp
            pv := e5, n := e6, c := e7, frame := e9 }
  | succ k ih =>
    obtain ⟨m, i1, i2, e1, e2, e3, e4, e5, e6, e7, e8, e9⟩ := cpir_emulate_step v s b hc h0 h1
    obtain ⟨hnz, hcnt⟩ := blockCount_step s.bc k hk
    have hm0 := hmiss 0 (by omega)
    rw [a16_ofNat_zero] at hm0
    show CpirFound s b (k + 1) (run v (k + 1) (emulate v (s, b))).1 (run v (k + 1) (emulate v (s, b))).2
    generalize emulate v (s, b) = sb1 at *
    obtain ⟨s1, b1⟩ := sb1
    simp only at m i1 i2 e1 e2 e3 e4 e5 e6 e7 e8 e9
    rw [if_neg (by intro h; rcases h with h | h; exact hnz h; exact hm0 h.symm)] at e3
    have hc1 : Calm s1 b1 := cpFrame_calm e9 i1 i2 hc
    have ha : s1.a = s.a := congrArg (fun c => c.a) e9
    have d := ih s1 b1 hc1 (by rw [m, e3]; exact h0) (by rw [m, e3]; exact h1) (by rw [e2, hcnt]; omega)
      (by intro i hi; rw [m, e1, ha, a16_ofNat_succ]; exact hmiss (i + 1) (by omega))
      (by rw [m, e1, ha, a16_ofNat_succ]; exact hhit)
    generalize run v (k + 1) (s1, b1) = sb2 at d
    obtain ⟨s2, b2⟩ := sb2
    simp only at d ⊢
    have hbc : s1.bc - BitVec.ofNat 16 (k + 1) = s.bc - BitVec.ofNat 16 (k + 1 + 1) := by rw [e2]; bv_omega
    exact { mem := by rw [d.mem, m]
            hl := by rw [d.hl, e1, a16_ofNat_succ]
            bc := by rw [d.bc, hbc]
            pc := by rw [d.pc, e3]
            z := d.z
            pv := by rw [d.pv, hbc]
            n := d.n
            c := by rw [d.c, e7]
            frame := by rw [d.frame, e9] }


/-- What CPIR from `(s, b)` that ran out of BC without a match has achieved in `(s', b')`. -/
structure CpirExhausted (s : Cpu) (b : RecBus) (s' : Cpu) (b' : RecBus) : Prop where
  mem : b'.mem = b.mem
  hl : s'.hl = s.hl + s.bc
  bc : s'.bc = 0
  pc : s'.pc = s.pc + 2
  z : tst s'.f FZ = false
  pv : tst s'.f FPV = false
  n : tst s'.f FN = true
  c : s'.f &&& FC = s.f &&& FC
  frame : cpFrame s' = cpFrame s

theorem cpir_not_found (v : Variant) (n : Nat) (s : Cpu) (b : RecBus) (hc : Calm s b)
    (h0 : b.mem s.pc = 0xED) (h1 : b.mem (s.pc + 1) = 0xB1)
    (hn : blockCount s.bc = n + 1)
    (hmiss : ∀ i, i ≤ n → b.mem (s.hl + BitVec.ofNat 16 i) ≠ s.a) :
    CpirExhausted s b (run v (n + 1) (s, b)).1 (run v (n + 1) (s, b)).2 := by
  induction n generalizing s b with
  | zero =>
    obtain ⟨m, i1, i2, e1, e2, e3, e4, e5, e6, e7, e8, e9⟩ := cpir_emulate_step v s b hc h0 h1
    have hz := blockCount_one _ hn
    have hm0 := hmiss 0 (by omega)
    rw [a16_ofNat_zero] at hm0
    have hb1 : s.bc = 1 := by bv_omega
    show CpirExhausted s b (emulate v (s, b)).1 (emulate v (s, b)).2
    rw [if_pos (Or.inl hz)] at e3
    rw [hz] at e2 e5
    exact { mem := m, hl := by rw [e1, hb1], bc := e2, pc := e3
            z := by rw [e4]; simpa using fun h => hm0 h.symm
            pv := by rw [e5]; rfl
            n := e6, c := e7, frame := e9 }
  | succ n ih =>
    obtain ⟨m, i1, i2, e1, e2, e3, e4, e5, e6, e7, e8, e9⟩ := cpir_emulate_step v s b hc h0 h1
    obtain ⟨hnz, hcnt⟩ := blockCount_step s.bc n (by omega)
    have hm0 := hmiss 0 (by omega)
    rw [a16_ofNat_zero] at hm0
    show CpirExhausted s b (run v (n + 1) (emulate v (s, b))).1 (run v (n + 1) (emulate v (s, b))).2
    generalize emulate v (s, b) = sb1 at *
    obtain ⟨s1, b1⟩ := sb1
    simp only at m i1 i2 e1 e2 e3 e4 e5 e6 e7 e8 e9
    rw [if_neg (by intro h; rcases h with h | h; exact hnz h; exact hm0 h.symm)] at e3
    have hc1 : Calm s1 b1 := cpFrame_calm e9 i1 i2 hc
    have ha : s1.a = s.a := congrArg (fun c => c.a) e9
    have d := ih s1 b1 hc1 (by rw [m, e3]; exact h0) (by rw [m, e3]; exact h1) (by rw [e2, hcnt]; omega)
      (by intro i hi; rw [m, e1, ha, a16_ofNat_succ]; exact hmiss (i + 1) (by omega))
    generalize run v (n + 1) (s1, b1) = sb2 at d
    obtain ⟨s2, b2⟩ := sb2
    simp only at d ⊢
    exact { mem := by rw [d.mem, m]
            hl := by rw [d.hl, e1, e2]; bv_omega
            bc := d.bc
            pc := by rw [d.pc, e3]
            z := d.z, pv := d.pv, n := d.n
            c := by rw [d.c, e7]
            frame := by rw [d.frame, e9] }


/-! ## 5. Stack and control flow -/

/-- the documented meaning of the eight condition codes, as bits of F -/
def condHolds (c : Cond) (f : BitVec 8) : Bool :=
  match c with
  | .nz => !f.getLsbD 6 | .z => f.getLsbD 6 | .nc => !f.getLsbD 0 | .c => f.getLsbD 0
  | .po => !f.getLsbD 2 | .pe => f.getLsbD 2 | .p => !f.getLsbD 7 | .m => f.getLsbD 7

theorem cond_eval_documented (c : Cond) (f : BitVec 8) : c.eval f = condHolds c f := by
  cases c <;> simp only [Cond.eval, condHolds, tst, FZ, FC, FPV, FS] <;> bv_decide

theorem call_ret (v : Variant) (p : Pfx) (s : Cpu) (b : RecBus) :
    let sb1 := exec v p .call s b
    let sb2 := exec v p .ret sb1.1 sb1.2
    sb1.1 = { s with pc := word b.mem s.pc, memptr := word b.mem s.pc, sp := s.sp - 2 } ∧
    sb1.2.mem = (fun x => if x = s.sp - 2 then lo (s.pc + 2) else if x = s.sp - 1 then hi (s.pc + 2) else b.mem x) ∧
    sb2.1 = { s with pc := s.pc + 2, memptr := s.pc + 2 } ∧ sb2.2.mem = sb1.2.mem := by
  cases s
  rb_simp [word, a16_add1_add1]

theorem jp_cc (v : Variant) (p : Pfx) (c : Cond) (s : Cpu) (b : RecBus) :
    (exec v p (.jpcc c) s b).1 =
      { s with pc := if condHolds c s.f then word b.mem s.pc else s.pc + 2, memptr := word b.mem s.pc } ∧
    (exec v p (.jpcc c) s b).2.mem = b.mem := by
  rb_simp [word, cond_eval_documented]

theorem jr_cc (v : Variant) (p : Pfx) (c : Cond) (s : Cpu) (b : RecBus) :
    (exec v p (.jrcc c) s b).1 =
      (if condHolds c s.f then { s with pc := s.pc + sext (b.mem s.pc) + 1, memptr := s.pc + sext (b.mem s.pc) + 1 }
       else { s with pc := s.pc + 1 }) ∧
    (exec v p (.jrcc c) s b).2.mem = b.mem := by
  rw [← cond_eval_documented]
  by_cases h : c.eval s.f = true <;> rb_simp [h]

theorem djnz_law (v : Variant) (p : Pfx) (s : Cpu) (b : RecBus) :
    (exec v p .djnz s b).1 =
      (if s.b - 1 ≠ 0 then { s with b := s.b - 1, pc := s.pc + sext (b.mem s.pc) + 1, memptr := s.pc + sext (b.mem s.pc) + 1 }
       else { s with b := s.b - 1, pc := s.pc + 1 }) ∧
    (exec v p .djnz s b).2.mem = b.mem := by
  by_cases h : s.b - 1#8 = 0#8 <;> rb_simp [h]

theorem ret_cc (v : Variant) (p : Pfx) (c : Cond) (s : Cpu) (b : RecBus) :
    (exec v p (.retcc c) s b).1 =
      (if condHolds c s.f then { s with pc := word b.mem s.sp, memptr := word b.mem s.sp, sp := s.sp + 2 } else s) ∧
    (exec v p (.retcc c) s b).2.mem = b.mem := by
  rw [← cond_eval_documented]
  by_cases h : c.eval s.f = true <;> rb_simp [h, word]

theorem call_cc (v : Variant) (p : Pfx) (c : Cond) (s : Cpu) (b : RecBus) :
    (exec v p (.callcc c) s b).1 =
      (if condHolds c s.f then { s with pc := word b.mem s.pc, memptr := word b.mem s.pc, sp := s.sp - 2 }
       else { s with pc := s.pc + 2, memptr := word b.mem s.pc }) ∧
    (exec v p (.callcc c) s b).2.mem =
      (if condHolds c s.f then
        (fun x => if x = s.sp - 2 then lo (s.pc + 2) else if x = s.sp - 1 then hi (s.pc + 2) else b.mem x)
       else b.mem) := by
  rw [← cond_eval_documented]
  by_cases h : c.eval s.f = true <;> rb_simp [h, word, a16_add1_add1]

end ZxVerif.C01Laws
