/-
C01 (architectural laws, part 3) — `emulate` on opcode bytes, block instructions run to completion,
stack and control flow of the Z80 reference semantics.

* `emulate_is_exec*`: one `emulate` call at a calm instruction boundary (no interrupt accepted, no pending
  prefix) whose opcode bytes are in memory IS the opcode fetch(es) followed by `exec`/`execED`/`execCB` of
  the decoded instruction. This lifts every law of parts 1 and 2 (stated on decoded instructions) to
  `emulate`.
* `ldir_copies`, `cpir_finds_first`, `cpir_not_found`: LDIR / CPIR iterated by `emulate` until they
  complete, by induction over the byte count, for every memory content.
* `call_ret`, `djnz_law`, `jr_cc`, `jp_cc`, `call_cc`, `ret_cc`: stack discipline and the eight condition codes.

Memory is the recording bus `RecBus` (any content; read-your-write). Helpers: ZxVerif/Lemmas/Z80Laws.lean
(`Calm`, `emulate_main`…), ZxVerif/Lemmas/Z80Block.lean (one LDIR/CPIR iteration, address arithmetic).
-/
import ZxVerif.Lemmas.Z80Block
import ZxVerif.Props.C01Laws
set_option linter.constructorNameAsVariable false
set_option linter.unusedSimpArgs false
namespace ZxVerif.C01Laws
open ZxVerif.Z80

/-- The opcode bytes of the instructions this file speaks about (documented encodings). -/
theorem law_opcodes_flow :
    decodeED 0xB0 = .ldBlock false true ∧ decodeED 0xB1 = .cpBlock false true ∧
    decodeED 0xB8 = .ldBlock true true ∧ decodeED 0xA0 = .ldBlock false false ∧
    decode 0xCD = .call ∧ decode 0xC9 = .ret ∧ decode 0x10 = .djnz ∧ decode 0x18 = .jr ∧ decode 0xC3 = .jp ∧
    decode 0x20 = .jrcc .nz ∧ decode 0x28 = .jrcc .z ∧ decode 0x30 = .jrcc .nc ∧ decode 0x38 = .jrcc .c ∧
    decode 0xC2 = .jpcc .nz ∧ decode 0xCA = .jpcc .z ∧ decode 0xD2 = .jpcc .nc ∧ decode 0xDA = .jpcc .c ∧
    decode 0xE2 = .jpcc .po ∧ decode 0xEA = .jpcc .pe ∧ decode 0xF2 = .jpcc .p ∧ decode 0xFA = .jpcc .m ∧
    decode 0xC4 = .callcc .nz ∧ decode 0xFC = .callcc .m ∧ decode 0xC0 = .retcc .nz ∧ decode 0xF8 = .retcc .m := by
  decide

/-! ## `emulate` is fetch + `exec` -/

/-- **Unprefixed instructions.** At a calm boundary, if the byte at PC is not a prefix, `emulate` is: R+1
(7 bit), PC+1, the Q latch stepped (`lastQ := q`, `q := 0`), the 4-T opcode fetch on the bus, then `exec`
of the decoded instruction, then the `pc_callback` notification. -/
theorem emulate_is_exec (v : Variant) (s : Cpu) (b : RecBus) (hc : Calm s b)
    (hnp : (decode (b.mem s.pc)).isPrefix = false) :
    emulate v (s, b) =
      let sb := exec v .none (decode (b.mem s.pc)) (stepQ { s with r := incR s.r, pc := s.pc + 1 }) (read s.pc 4 b).2
      (sb.1, Bus.pcCallback sb.1.pc sb.2) := emulate_main v s b hc hnp

/-- **ED page**: two opcode fetches (R+2, PC+2), then `execED` of the decoded second byte. -/
theorem emulate_is_execED (v : Variant) (s : Cpu) (b : RecBus) (hc : Calm s b) (h0 : b.mem s.pc = 0xED) :
    emulate v (s, b) =
      let sb := execED (decodeED (b.mem (s.pc + 1))) (stepQ { s with r := incR (incR s.r), pc := s.pc + 1 + 1 })
        (read (s.pc + 1) 4 (read s.pc 4 b).2).2
      (sb.1, Bus.pcCallback sb.1.pc sb.2) := emulate_ed v s b hc h0

/-- **CB page**: the CB fetch (R+1, PC+1), then `execCB` (which fetches the operation byte itself). -/
theorem emulate_is_execCB (v : Variant) (s : Cpu) (b : RecBus) (hc : Calm s b) (h0 : b.mem s.pc = 0xCB) :
    emulate v (s, b) =
      let sb := execCB (stepQ { s with r := incR s.r, pc := s.pc + 1 }) (read s.pc 4 b).2
      (sb.1, Bus.pcCallback sb.1.pc sb.2) := emulate_cb v s b hc h0

/-- **DD / FD page**: prefix fetch and opcode fetch (R+2, PC+2), then `exec` under the index prefix. -/
theorem emulate_is_exec_indexed (v : Variant) (p : Pfx) (hp : p ≠ .none) (s : Cpu) (b : RecBus) (hc : Calm s b)
    (h0 : b.mem s.pc = idxByte p) (hnp : (decode (b.mem (s.pc + 1))).isPrefix = false) :
    emulate v (s, b) =
      let sb := exec v p (decode (b.mem (s.pc + 1))) (stepQ { s with r := incR (incR s.r), pc := s.pc + 1 + 1 })
        (read (s.pc + 1) 4 (read s.pc 4 b).2).2
      (sb.1, Bus.pcCallback sb.1.pc sb.2) := emulate_idx v p hp s b hc h0 hnp

/-! ## 4. Block instructions run to completion -/

/-- **One iteration of LDI / LDD / LDIR / LDDR** (any of the four: `dec`, `rep`): the byte at HL is stored at
DE, HL and DE step by one in the direction of the instruction, BC is decremented, P/V = (BC ≠ 0),
H = N = 0, S Z C and A are kept; the repeating forms step PC back onto the instruction while BC ≠ 0. -/
theorem ld_block_iteration (dec rep : Bool) (s : Cpu) (b : RecBus) :
    let sb := execED (.ldBlock dec rep) s b
    sb.2.mem = (fun x => if x = s.de then b.mem s.hl else b.mem x) ∧
    sb.1.hl = dirAdd dec s.hl ∧ sb.1.de = dirAdd dec s.de ∧ sb.1.bc = s.bc - 1 ∧
    sb.1.pc = (if rep && s.bc - 1 != 0 then s.pc - 2 else s.pc) ∧
    tst sb.1.f FPV = (s.bc - 1 != 0) ∧ tst sb.1.f FH = false ∧ tst sb.1.f FN = false ∧
    sb.1.f &&& 0xC1 = s.f &&& 0xC1 ∧ sb.1.a = s.a ∧ sb.1.sp = s.sp := by
  by_cases hz : (rep && mk16 s.b s.c - 1#16 != 0#16) = true
  · simp [execED, rb_read, rb_read_mem, rb_write_mem, waitLoop_mem, Cpu.bc, Cpu.de, Cpu.hl, Cpu.setBC, Cpu.setDE,
      Cpu.setHL, Cpu.setF, hz, hi_mk16, lo_mk16, mk16_hi_lo, ldBlockFlags_bits, memRepeatFlags_bits]
    rfl
  · simp [execED, rb_read, rb_read_mem, rb_write_mem, waitLoop_mem, Cpu.bc, Cpu.de, Cpu.hl, Cpu.setBC, Cpu.setDE,
      Cpu.setHL, Cpu.setF, hz, hi_mk16, lo_mk16, mk16_hi_lo, ldBlockFlags_bits, memRepeatFlags_bits]
    rfl


/-- What a completed LDIR that started in `(s, b)` with BC = n+1 must have achieved in `(s', b')`. -/
structure LdirDone (s : Cpu) (b : RecBus) (n : Nat) (s' : Cpu) (b' : RecBus) : Prop where
  copied : ∀ j, j ≤ n → b'.mem (s.de + BitVec.ofNat 16 j) = b.mem (s.hl + BitVec.ofNat 16 j)
  rest : ∀ x, (∀ j, j ≤ n → x ≠ s.de + BitVec.ofNat 16 j) → b'.mem x = b.mem x
  hl : s'.hl = s.hl + s.bc
  de : s'.de = s.de + s.bc
  bc : s'.bc = 0
  pc : s'.pc = s.pc + 2
  pv : tst s'.f FPV = false
  h : tst s'.f FH = false
  n : tst s'.f FN = false
  szc : s'.f &&& 0xC1 = s.f &&& 0xC1
  frame : ldFrame s' = ldFrame s

/-- **LDIR run to completion copies BC bytes from HL.. to DE..** At a calm boundary with `ED B0` at PC and
BC = n+1 ≠ 0, iterate `emulate` n+1 times (each call is one iteration; the repeat re-fetches the
instruction, so the destination must not cover its two bytes: `hcode`). If no source byte is overwritten
before it is read (`hov`: true for non-overlapping ranges and also for overlapping ones with DE below HL —
the direction in which LDIR is a correct `memmove`), then afterwards: every destination byte holds the
original source byte, all other memory is unchanged, HL and DE have advanced by BC, BC = 0, PC is behind
the instruction, P/V = H = N = 0, S Z C are as before, and no register other than BC DE HL F (and the
PC/R/MEMPTR/Q bookkeeping) has changed (`ldFrame`). All addresses wrap modulo 65536. -/
theorem ldir_copies (v : Variant) (n : Nat) (s : Cpu) (b : RecBus) (hc : Calm s b)
    (h0 : b.mem s.pc = 0xED) (h1 : b.mem (s.pc + 1) = 0xB0)
    (hbc : s.bc.toNat = n + 1)
    (hcode : ∀ j, j ≤ n → s.de + BitVec.ofNat 16 j ≠ s.pc ∧ s.de + BitVec.ofNat 16 j ≠ s.pc + 1)
    (hov : ∀ i j, j < i → i ≤ n → s.de + BitVec.ofNat 16 j ≠ s.hl + BitVec.ofNat 16 i) :
    LdirDone s b n (run v (n + 1) (s, b)).1 (run v (n + 1) (s, b)).2 := by
  induction n generalizing s b with
  | zero =>
    obtain ⟨m, i1, i2, e1, e2, e3, e4, e5, e6, e7, e8, e9⟩ := ldir_emulate_step v s b hc h0 h1
    have hz : s.bc - 1 = 0 := a16_toNat_one _ hbc
    have hb1 : s.bc = 1 := by bv_omega
    simp only [run]
    rw [hz] at e3 e4 e6
    exact { copied := by
              intro j hj; have : j = 0 := by omega
              subst this; rw [m]; simp
            rest := by
              intro x hx; have := hx 0 (Nat.le_refl _); rw [m]; simp at this ⊢; intro h; exact absurd h this
            hl := by rw [e1, hb1]
            de := by rw [e2, hb1]
            bc := e3
            pc := by rw [e4]; simp
            pv := by rw [e6]; rfl
            h := e7, n := e8, szc := e5, frame := e9 }
  | succ n ih =>
    obtain ⟨m, i1, i2, e1, e2, e3, e4, e5, e6, e7, e8, e9⟩ := ldir_emulate_step v s b hc h0 h1
    obtain ⟨hbc', hnz⟩ := a16_toNat_succ _ n hbc
    show LdirDone s b (n + 1) (run v (n + 1) (emulate v (s, b))).1 (run v (n + 1) (emulate v (s, b))).2
    generalize emulate v (s, b) = sb1 at *
    obtain ⟨s1, b1⟩ := sb1
    simp only at m i1 i2 e1 e2 e3 e4 e5 e6 e7 e8 e9
    rw [if_neg hnz] at e4
    have hc0 := hcode 0 (Nat.zero_le _)
    simp only [a16_ofNat_zero] at hc0
    have hc1 : Calm s1 b1 := ldFrame_calm e9 i1 i2 hc
    have h0' : b1.mem s1.pc = 0xED := by
      rw [m, e4]; simp only; rw [if_neg (Ne.symm hc0.1)]; exact h0
    have h1' : b1.mem (s1.pc + 1) = 0xB0 := by
      rw [m, e4]; simp only; rw [if_neg (Ne.symm hc0.2)]; exact h1
    have hcode' : ∀ j, j ≤ n → s1.de + BitVec.ofNat 16 j ≠ s1.pc ∧ s1.de + BitVec.ofNat 16 j ≠ s1.pc + 1 := by
      intro j hj; rw [e2, e4, a16_ofNat_succ]; exact hcode (j + 1) (by omega)
    have hov' : ∀ i j, j < i → i ≤ n → s1.de + BitVec.ofNat 16 j ≠ s1.hl + BitVec.ofNat 16 i := by
      intro i j hji hi; rw [e1, e2, a16_ofNat_succ, a16_ofNat_succ]; exact hov (i + 1) (j + 1) (by omega) (by omega)
    have hbc1 : s1.bc.toNat = n + 1 := by rw [e3]; exact hbc'
    have d := ih s1 b1 hc1 h0' h1' hbc1 hcode' hov'
    generalize run v (n + 1) (s1, b1) = sb2 at d
    obtain ⟨s2, b2⟩ := sb2
    simp only at d ⊢
    have hn : n + 1 < 65536 := by have := s.bc.isLt; omega
    exact { copied := by
              intro j hj
              cases j with
              | zero =>
                rw [a16_ofNat_zero, a16_ofNat_zero, d.rest, m]; simp
                intro j hj; rw [e2, a16_ofNat_succ]; exact (a16_ofNat_ne_self _ _ (by omega) (by omega)).symm
              | succ j =>
                rw [← a16_ofNat_succ, ← e2, d.copied j (by omega), e1, a16_ofNat_succ, m]
                simp only
                rw [if_neg]
                have := hov (j + 1) 0 (by omega) (by omega)
                rw [a16_ofNat_zero] at this; exact this.symm
            rest := by
              intro x hx
              rw [d.rest, m]
              · simp only; rw [if_neg]; have := hx 0 (by omega); rw [a16_ofNat_zero] at this; exact this
              · intro j hj; rw [e2, a16_ofNat_succ]; exact hx (j + 1) (by omega)
            hl := by rw [d.hl, e1, e3]; bv_omega
            de := by rw [d.de, e2, e3]; bv_omega
            bc := d.bc
            pc := by rw [d.pc, e4]
            pv := d.pv, h := d.h, n := d.n
            szc := by rw [d.szc, e5]
            frame := by rw [d.frame, e9] }



/-- **LDIR copies a block between non-overlapping ranges** (the textbook statement; `ldir_copies` with the
weaker one-directional hypothesis is the stronger theorem). -/
theorem ldir_copies_disjoint (v : Variant) (n : Nat) (s : Cpu) (b : RecBus) (hc : Calm s b)
    (h0 : b.mem s.pc = 0xED) (h1 : b.mem (s.pc + 1) = 0xB0)
    (hbc : s.bc.toNat = n + 1)
    (hcode : ∀ j, j ≤ n → s.de + BitVec.ofNat 16 j ≠ s.pc ∧ s.de + BitVec.ofNat 16 j ≠ s.pc + 1)
    (hdis : ∀ i j, i ≤ n → j ≤ n → s.de + BitVec.ofNat 16 j ≠ s.hl + BitVec.ofNat 16 i) :
    LdirDone s b n (run v (n + 1) (s, b)).1 (run v (n + 1) (s, b)).2 :=
  ldir_copies v n s b hc h0 h1 hbc hcode (fun i j hji hi => hdis i j hi (by omega))

/-- What CPIR from `(s, b)` that found its byte at offset `k` has achieved in `(s', b')`. -/
structure CpirFound (s : Cpu) (b : RecBus) (k : Nat) (s' : Cpu) (b' : RecBus) : Prop where
  mem : b'.mem = b.mem
  hl : s'.hl = s.hl + BitVec.ofNat 16 (k + 1)
  bc : s'.bc = s.bc - BitVec.ofNat 16 (k + 1)
  pc : s'.pc = s.pc + 2
  z : tst s'.f FZ = true
  pv : tst s'.f FPV = (s.bc - BitVec.ofNat 16 (k + 1) != 0)
  n : tst s'.f FN = true
  c : s'.f &&& FC = s.f &&& FC
  frame : cpFrame s' = cpFrame s

/-- **CPIR stops at the first match.** With `ED B1` at PC, if the bytes at HL+0 … HL+k-1 differ from A, the
byte at HL+k equals A and BC allows at least k+1 iterations (`blockCount`: BC, or 65536 for BC = 0), then
after exactly k+1 `emulate` calls: Z = 1, HL points one past the match, BC has been decremented k+1
times, P/V tells whether BC is non-zero, N = 1, C is as before, PC is behind the instruction, memory and
all registers other than BC HL F are untouched (`cpFrame`). -/
theorem cpir_finds_first (v : Variant) (k : Nat) (s : Cpu) (b : RecBus) (hc : Calm s b)
    (h0 : b.mem s.pc = 0xED) (h1 : b.mem (s.pc + 1) = 0xB1)
    (hk : k < blockCount s.bc)
    (hmiss : ∀ i, i < k → b.mem (s.hl + BitVec.ofNat 16 i) ≠ s.a)
    (hhit : b.mem (s.hl + BitVec.ofNat 16 k) = s.a) :
    CpirFound s b k (run v (k + 1) (s, b)).1 (run v (k + 1) (s, b)).2 := by
  induction k generalizing s b with
  | zero =>
    obtain ⟨m, i1, i2, e1, e2, e3, e4, e5, e6, e7, e8, e9⟩ := cpir_emulate_step v s b hc h0 h1
    rw [a16_ofNat_zero] at hhit
    show CpirFound s b 0 (emulate v (s, b)).1 (emulate v (s, b)).2
    rw [if_pos (Or.inr hhit.symm)] at e3
    exact { mem := m, hl := e1, bc := e2, pc := e3
            z := by rw [e4, hhit]; simp
            pv := e5, n := e6, c := e7, frame := e9 }
  | succ k ih =>
    obtain ⟨m, i1, i2, e1, e2, e3, e4, e5, e6, e7, e8, e9⟩ := cpir_emulate_step v s b hc h0 h1
    obtain ⟨hnz, hcnt⟩ := blockCount_step s.bc k hk
    have hm0 := hmiss 0 (by omega)
    rw [a16_ofNat_zero] at hm0
    show CpirFound s b (k + 1) (run v (k + 1) (emulate v (s, b))).1 (run v (k + 1) (emulate v (s, b))).2
    generalize emulate v (s, b) = sb1 at *
    obtain ⟨s1, b1⟩ := sb1
    simp only at m i1 i2 e1 e2 e3 e4 e5 e6 e7 e8 e9
    rw [if_neg (by intro h; rcases h with h | h; exact hnz h; exact hm0 h.symm)] at e3
    have hc1 : Calm s1 b1 := cpFrame_calm e9 i1 i2 hc
    have ha : s1.a = s.a := congrArg (fun c => c.a) e9
    have d := ih s1 b1 hc1 (by rw [m, e3]; exact h0) (by rw [m, e3]; exact h1) (by rw [e2, hcnt]; omega)
      (by intro i hi; rw [m, e1, ha, a16_ofNat_succ]; exact hmiss (i + 1) (by omega))
      (by rw [m, e1, ha, a16_ofNat_succ]; exact hhit)
    generalize run v (k + 1) (s1, b1) = sb2 at d
    obtain ⟨s2, b2⟩ := sb2
    simp only at d ⊢
    have hbc : s1.bc - BitVec.ofNat 16 (k + 1) = s.bc - BitVec.ofNat 16 (k + 1 + 1) := by rw [e2]; bv_omega
    exact { mem := by rw [d.mem, m]
            hl := by rw [d.hl, e1, a16_ofNat_succ]
            bc := by rw [d.bc, hbc]
            pc := by rw [d.pc, e3]
            z := d.z
            pv := by rw [d.pv, hbc]
            n := d.n
            c := by rw [d.c, e7]
            frame := by rw [d.frame, e9] }


/-- What CPIR from `(s, b)` that ran out of BC without a match has achieved in `(s', b')`. -/
structure CpirExhausted (s : Cpu) (b : RecBus) (s' : Cpu) (b' : RecBus) : Prop where
  mem : b'.mem = b.mem
  hl : s'.hl = s.hl + s.bc
  bc : s'.bc = 0
  pc : s'.pc = s.pc + 2
  z : tst s'.f FZ = false
  pv : tst s'.f FPV = false
  n : tst s'.f FN = true
  c : s'.f &&& FC = s.f &&& FC
  frame : cpFrame s' = cpFrame s

/-- **CPIR without a match runs until BC = 0**: if none of the `blockCount BC` = n+1 bytes from HL equals A,
then after n+1 `emulate` calls BC = 0, Z = 0, P/V = 0, HL has advanced by BC, PC is behind the instruction. -/
theorem cpir_not_found (v : Variant) (n : Nat) (s : Cpu) (b : RecBus) (hc : Calm s b)
    (h0 : b.mem s.pc = 0xED) (h1 : b.mem (s.pc + 1) = 0xB1)
    (hn : blockCount s.bc = n + 1)
    (hmiss : ∀ i, i ≤ n → b.mem (s.hl + BitVec.ofNat 16 i) ≠ s.a) :
    CpirExhausted s b (run v (n + 1) (s, b)).1 (run v (n + 1) (s, b)).2 := by
  induction n generalizing s b with
  | zero =>
    obtain ⟨m, i1, i2, e1, e2, e3, e4, e5, e6, e7, e8, e9⟩ := cpir_emulate_step v s b hc h0 h1
    have hz := blockCount_one _ hn
    have hm0 := hmiss 0 (by omega)
    rw [a16_ofNat_zero] at hm0
    have hb1 : s.bc = 1 := by bv_omega
    show CpirExhausted s b (emulate v (s, b)).1 (emulate v (s, b)).2
    rw [if_pos (Or.inl hz)] at e3
    rw [hz] at e2 e5
    exact { mem := m, hl := by rw [e1, hb1], bc := e2, pc := e3
            z := by rw [e4]; simpa using fun h => hm0 h.symm
            pv := by rw [e5]; rfl
            n := e6, c := e7, frame := e9 }
  | succ n ih =>
    obtain ⟨m, i1, i2, e1, e2, e3, e4, e5, e6, e7, e8, e9⟩ := cpir_emulate_step v s b hc h0 h1
    obtain ⟨hnz, hcnt⟩ := blockCount_step s.bc n (by omega)
    have hm0 := hmiss 0 (by omega)
    rw [a16_ofNat_zero] at hm0
    show CpirExhausted s b (run v (n + 1) (emulate v (s, b))).1 (run v (n + 1) (emulate v (s, b))).2
    generalize emulate v (s, b) = sb1 at *
    obtain ⟨s1, b1⟩ := sb1
    simp only at m i1 i2 e1 e2 e3 e4 e5 e6 e7 e8 e9
    rw [if_neg (by intro h; rcases h with h | h; exact hnz h; exact hm0 h.symm)] at e3
    have hc1 : Calm s1 b1 := cpFrame_calm e9 i1 i2 hc
    have ha : s1.a = s.a := congrArg (fun c => c.a) e9
    have d := ih s1 b1 hc1 (by rw [m, e3]; exact h0) (by rw [m, e3]; exact h1) (by rw [e2, hcnt]; omega)
      (by intro i hi; rw [m, e1, ha, a16_ofNat_succ]; exact hmiss (i + 1) (by omega))
    generalize run v (n + 1) (s1, b1) = sb2 at d
    obtain ⟨s2, b2⟩ := sb2
    simp only at d ⊢
    exact { mem := by rw [d.mem, m]
            hl := by rw [d.hl, e1, e2]; bv_omega
            bc := d.bc
            pc := by rw [d.pc, e3]
            z := d.z, pv := d.pv, n := d.n
            c := by rw [d.c, e7]
            frame := by rw [d.frame, e9] }


/-! ## 5. Stack and control flow -/

/-- the documented meaning of the eight condition codes, as bits of F -/
def condHolds (c : Cond) (f : BitVec 8) : Bool :=
  match c with
  | .nz => !f.getLsbD 6 | .z => f.getLsbD 6 | .nc => !f.getLsbD 0 | .c => f.getLsbD 0
  | .po => !f.getLsbD 2 | .pe => f.getLsbD 2 | .p => !f.getLsbD 7 | .m => f.getLsbD 7

/-- the decoder's condition evaluation is the documented flag test: NZ/Z = bit 6, NC/C = bit 0,
PO/PE = bit 2, P/M = bit 7 of F -/
theorem cond_eval_documented (c : Cond) (f : BitVec 8) : c.eval f = condHolds c f := by
  cases c <;> simp only [Cond.eval, condHolds, tst, FZ, FC, FPV, FS] <;> bv_decide

/-- **CALL nn then RET returns to the instruction after the CALL with SP restored.** (`exec` is entered
behind the opcode byte, so `s.pc` points at the operand and `s.pc + 2` is the next instruction.) CALL
jumps to nn = the operand word, pushes the return address (high byte at SP-1, low at SP-2) and sets
MEMPTR = nn; RET pops it: afterwards PC = MEMPTR = return address, SP and every other register are as
before the CALL; RET writes nothing. No assumption on nn, SP or memory. -/
theorem call_ret (v : Variant) (p : Pfx) (s : Cpu) (b : RecBus) :
    let sb1 := exec v p .call s b
    let sb2 := exec v p .ret sb1.1 sb1.2
    sb1.1 = { s with pc := word b.mem s.pc, memptr := word b.mem s.pc, sp := s.sp - 2 } ∧
    sb1.2.mem = (fun x => if x = s.sp - 2 then lo (s.pc + 2) else if x = s.sp - 1 then hi (s.pc + 2) else b.mem x) ∧
    sb2.1 = { s with pc := s.pc + 2, memptr := s.pc + 2 } ∧ sb2.2.mem = sb1.2.mem := by
  cases s
  rb_simp [word, a16_add1_add1]

/-- **JP nn, JR d, JP (HL)** (also JP (IX)/(IY)): unconditional jumps; JP and JR set MEMPTR to the
target, JP (HL) does not; nothing else changes. -/
theorem jp_jr (v : Variant) (p : Pfx) (s : Cpu) (b : RecBus) :
    (exec v p .jp s b).1 = { s with pc := word b.mem s.pc, memptr := word b.mem s.pc } ∧
    (exec v p .jr s b).1 =
      { s with pc := s.pc + sext (b.mem s.pc) + 1, memptr := s.pc + sext (b.mem s.pc) + 1 } ∧
    (exec v p .jpHL s b).1 = { s with pc := s.idx p } ∧
    (exec v p .jp s b).2.mem = b.mem ∧ (exec v p .jr s b).2.mem = b.mem := by
  rb_simp [word]

/-- **JP cc,nn jumps iff the condition holds** (all eight conditions); MEMPTR = nn either way. -/
theorem jp_cc (v : Variant) (p : Pfx) (c : Cond) (s : Cpu) (b : RecBus) :
    (exec v p (.jpcc c) s b).1 =
      { s with pc := if condHolds c s.f then word b.mem s.pc else s.pc + 2, memptr := word b.mem s.pc } ∧
    (exec v p (.jpcc c) s b).2.mem = b.mem := by
  rb_simp [word, cond_eval_documented]

/-- **JR cc,d branches iff the condition holds**: to the address behind the instruction plus the
sign-extended displacement (MEMPTR = target), else falls through with nothing but PC changed. -/
theorem jr_cc (v : Variant) (p : Pfx) (c : Cond) (s : Cpu) (b : RecBus) :
    (exec v p (.jrcc c) s b).1 =
      (if condHolds c s.f then { s with pc := s.pc + sext (b.mem s.pc) + 1, memptr := s.pc + sext (b.mem s.pc) + 1 }
       else { s with pc := s.pc + 1 }) ∧
    (exec v p (.jrcc c) s b).2.mem = b.mem := by
  rw [← cond_eval_documented]
  by_cases h : c.eval s.f = true <;> rb_simp [h]

/-- **DJNZ decrements B and branches iff the result is non-zero**; no flag is touched. -/
theorem djnz_law (v : Variant) (p : Pfx) (s : Cpu) (b : RecBus) :
    (exec v p .djnz s b).1 =
      (if s.b - 1 ≠ 0 then { s with b := s.b - 1, pc := s.pc + sext (b.mem s.pc) + 1, memptr := s.pc + sext (b.mem s.pc) + 1 }
       else { s with b := s.b - 1, pc := s.pc + 1 }) ∧
    (exec v p .djnz s b).2.mem = b.mem := by
  by_cases h : s.b - 1#8 = 0#8 <;> rb_simp [h]

/-- **RET cc returns iff the condition holds**, else changes nothing. -/
theorem ret_cc (v : Variant) (p : Pfx) (c : Cond) (s : Cpu) (b : RecBus) :
    (exec v p (.retcc c) s b).1 =
      (if condHolds c s.f then { s with pc := word b.mem s.sp, memptr := word b.mem s.sp, sp := s.sp + 2 } else s) ∧
    (exec v p (.retcc c) s b).2.mem = b.mem := by
  rw [← cond_eval_documented]
  by_cases h : c.eval s.f = true <;> rb_simp [h, word]

/-- **CALL cc,nn calls iff the condition holds**; otherwise only PC moves past the operand (and
MEMPTR = nn), nothing is pushed. -/
theorem call_cc (v : Variant) (p : Pfx) (c : Cond) (s : Cpu) (b : RecBus) :
    (exec v p (.callcc c) s b).1 =
      (if condHolds c s.f then { s with pc := word b.mem s.pc, memptr := word b.mem s.pc, sp := s.sp - 2 }
       else { s with pc := s.pc + 2, memptr := word b.mem s.pc }) ∧
    (exec v p (.callcc c) s b).2.mem =
      (if condHolds c s.f then
        (fun x => if x = s.sp - 2 then lo (s.pc + 2) else if x = s.sp - 1 then hi (s.pc + 2) else b.mem x)
       else b.mem) := by
  rw [← cond_eval_documented]
  by_cases h : c.eval s.f = true <;> rb_simp [h, word, a16_add1_add1]

/-- **RET** pops PC (MEMPTR = the new PC), SP+2, memory untouched. -/
theorem ret_pops (v : Variant) (p : Pfx) (s : Cpu) (b : RecBus) :
    (exec v p .ret s b).1 = { s with pc := word b.mem s.sp, memptr := word b.mem s.sp, sp := s.sp + 2 } ∧
    (exec v p .ret s b).2.mem = b.mem := by
  rb_simp [word]

/-! ## …on opcode bytes, through `emulate` -/

/-- **`CALL nn` … `RET` through `emulate`**: with `CD lo hi` at PC and `C9` at nn (nn not inside the two stack
bytes being written), two `emulate` calls end at PC+3 with SP and every register as before (R+2, MEMPTR =
PC+3, Q latches cleared); memory differs only in the two bytes below SP, which hold the return address. -/
theorem call_ret_emulate (v : Variant) (s : Cpu) (b : RecBus) (hc : Calm s b)
    (h0 : b.mem s.pc = 0xCD)
    (ht1 : word b.mem (s.pc + 1) ≠ s.sp - 1) (ht2 : word b.mem (s.pc + 1) ≠ s.sp - 2)
    (hret : b.mem (word b.mem (s.pc + 1)) = 0xC9) :
    let sb := run v 2 (s, b)
    sb.1 = { s with pc := s.pc + 3, r := incR (incR s.r), memptr := s.pc + 3, q := 0, lastQ := 0 } ∧
    sb.2.mem = fun x => if x = s.sp - 2 then lo (s.pc + 3) else if x = s.sp - 1 then hi (s.pc + 3) else b.mem x := by
  have hd : decode 0xCD = .call := by decide
  have hd2 : decode 0xC9 = .ret := by decide
  have e1 := emulate_main v s b hc (by rw [h0]; decide)
  rw [h0, hd] at e1
  obtain ⟨x1, x2, -, -⟩ := call_ret v .none (stepQ { s with r := incR s.r, pc := s.pc + 1 }) (read s.pc 4 b).2
  have hl := exec_lines v .none .call (stepQ { s with r := incR s.r, pc := s.pc + 1 }) (read s.pc 4 b).2
  generalize exec v .none .call (stepQ { s with r := incR s.r, pc := s.pc + 1 }) (read s.pc 4 b).2 = sb1 at *
  obtain ⟨s1, b1⟩ := sb1
  simp only at x1 x2 e1 hl
  simp only [stepQ, rb_read_mem] at x1 x2
  simp only [BitVec.ofNat_eq_ofNat] at ht1 ht2 hret x1 x2
  have hc1 : Calm s1 (Bus.pcCallback s1.pc b1) := by
    apply hc.transfer
    · rw [x1]; exact hc.1
    · rw [x1]; exact hc.2.1
    · rw [x1]
    · rw [lines_pccb, hl, lines_read]
  have hm1 : (Bus.pcCallback s1.pc b1).mem = b1.mem := rfl
  have hpc1 : s1.pc = word b.mem (s.pc + 1#16) := by rw [x1]
  have hop : b1.mem s1.pc = 0xC9 := by
    rw [x2, hpc1]; simp [ht1, ht2, hret]
  have e2 := emulate_main v s1 (Bus.pcCallback s1.pc b1) hc1 (by rw [hm1, hop]; decide)
  rw [hm1, hop, hd2] at e2
  show (emulate v (emulate v (s, b))).1 = _ ∧ (emulate v (emulate v (s, b))).2.mem = _
  rw [e1, e2]
  obtain ⟨r1, r2⟩ := ret_pops v .none (stepQ { s1 with r := incR s1.r, pc := s1.pc + 1 })
    (read s1.pc 4 (Bus.pcCallback s1.pc b1)).2
  simp only [r1, r2, rb_pccb, rb_read_mem]
  subst x1
  simp [stepQ, word, x2, a16_sub2_add1, a16_sub2_add2, a16_sub1_ne_sub2, mk16_hi_lo, a16_add1_add2]

/-- **The DJNZ delay loop** `10 FE` (DJNZ to itself) runs B times (256 times for B = 0): after that many
`emulate` calls B = 0 and PC is behind the instruction; flags, memory and all other registers untouched. -/
theorem djnz_delay_loop (v : Variant) (n : Nat) (s : Cpu) (b : RecBus) (hc : Calm s b)
    (h0 : b.mem s.pc = 0x10) (h1 : b.mem (s.pc + 1) = 0xFE) (hn : loopCount s.b = n + 1) :
    let sb := run v (n + 1) (s, b)
    sb.1.b = 0 ∧ sb.1.pc = s.pc + 2 ∧ sb.2.mem = b.mem ∧ djnzFrame sb.1 = djnzFrame s := by
  induction n generalizing s b with
  | zero =>
    obtain ⟨m, l, e1, e2, e3⟩ := djnz_emulate_step v s b hc h0 h1
    have hz := loopCount_one _ hn
    rw [if_pos hz] at e2
    rw [hz] at e1
    exact ⟨e1, e2, m, e3⟩
  | succ n ih =>
    obtain ⟨m, l, e1, e2, e3⟩ := djnz_emulate_step v s b hc h0 h1
    obtain ⟨hnz, hcnt⟩ := loopCount_step _ n hn
    rw [if_neg hnz] at e2
    show (run v (n + 1) (emulate v (s, b))).1.b = 0 ∧ (run v (n + 1) (emulate v (s, b))).1.pc = _ ∧
      (run v (n + 1) (emulate v (s, b))).2.mem = _ ∧ djnzFrame (run v (n + 1) (emulate v (s, b))).1 = _
    generalize emulate v (s, b) = sb1 at *
    obtain ⟨s1, b1⟩ := sb1
    simp only at m l e1 e2 e3
    obtain ⟨d1, d2, d3, d4⟩ := ih s1 b1 (djnzFrame_calm e3 l hc) (by rw [m, e2]; exact h0) (by rw [m, e2]; exact h1)
      (by rw [e1]; exact hcnt)
    exact ⟨d1, by rw [d2, e2], by rw [d3, m], by rw [d4, e3]⟩

/-- **CCF; CCF through `emulate`**: the second CCF sees the Q latch of the first (`lastQ` = its F), so bits 5/3
become those of A alone; C is restored, H = the complement of C, N = 0, S Z P/V kept. -/
theorem ccf_twice_emulate (v : Variant) (s : Cpu) (b : RecBus) (hc : Calm s b)
    (h0 : b.mem s.pc = 0x3F) (h1 : b.mem (s.pc + 1) = 0x3F) :
    let F1 := Spec.ccf s.a s.f s.q
    let F2 := (s.f &&& 0xC4) ||| (s.a &&& 0x28) ||| flag (!tst s.f FC) FH ||| flag (tst s.f FC) FC
    (emulate v (s, b)).1 = { s with pc := s.pc + 1, r := incR s.r, f := F1, q := F1, lastQ := s.q } ∧
    (run v 2 (s, b)).1 = { s with pc := s.pc + 2, r := incR (incR s.r), f := F2, q := F2, lastQ := F1 } ∧
    (run v 2 (s, b)).2.mem = b.mem := by
  have hd : decode 0x3F = .ccf := by decide
  have e1 := emulate_main v s b hc (by rw [h0]; decide)
  rw [h0, hd] at e1
  simp only [BitVec.ofNat_eq_ofNat] at h1
  have x1 : (emulate v (s, b)).1 =
      { s with pc := s.pc + 1, r := incR s.r, f := Spec.ccf s.a s.f s.q, q := Spec.ccf s.a s.f s.q, lastQ := s.q } := by
    rw [e1]; simp [exec, stepQ, Cpu.setF]
  have m1 : (emulate v (s, b)).2.mem = b.mem := by rw [e1]; rfl
  have l1 : (emulate v (s, b)).2.lines = b.lines := by rw [e1]; rfl
  refine ⟨x1, ?_⟩
  show (emulate v (emulate v (s, b))).1 = _ ∧ (emulate v (emulate v (s, b))).2.mem = _
  generalize emulate v (s, b) = sb1 at *
  obtain ⟨s1, b1⟩ := sb1
  simp only at x1 m1 l1
  have hc1 : Calm s1 b1 := by
    apply hc.transfer
    · rw [x1]; exact hc.1
    · rw [x1]; exact hc.2.1
    · rw [x1]
    · exact l1
  have hop : b1.mem s1.pc = 0x3F := by rw [m1, x1]; exact h1
  have e2 := emulate_main v s1 b1 hc1 (by rw [hop]; decide)
  rw [hop, hd] at e2
  rw [e2]
  refine ⟨?_, m1⟩
  subst x1
  simp only [exec, stepQ, Cpu.setF, Spec.ccf, flag, tst, FC, FH, Cpu.mk.injEq, and_true, true_and, a16_add1_add1]
  refine ⟨?_, ?_⟩ <;> bv_decide


/-- **`LD (nn),HL` ; `LD HL,(nn)` through `emulate`**: with `22 lo hi 2A lo hi` at PC and the store not hitting
the second instruction, two `emulate` calls leave every register as before (PC+6, R+2, MEMPTR = nn+1) and
memory changed only at nn (L) and nn+1 (H). -/
theorem ld_nn_hl_round_trip_emulate (v : Variant) (s : Cpu) (b : RecBus) (hc : Calm s b) (nn : BitVec 16)
    (h0 : b.mem s.pc = 0x22) (hn0 : word b.mem (s.pc + 1) = nn)
    (h3 : b.mem (s.pc + 3) = 0x2A) (hn3 : word b.mem (s.pc + 4) = nn)
    (hd1 : nn ≠ s.pc + 3 ∧ nn ≠ s.pc + 4 ∧ nn ≠ s.pc + 5)
    (hd2 : nn + 1 ≠ s.pc + 3 ∧ nn + 1 ≠ s.pc + 4 ∧ nn + 1 ≠ s.pc + 5) :
    let sb := run v 2 (s, b)
    sb.1 = { s with pc := s.pc + 6, r := incR (incR s.r), memptr := nn + 1, q := 0, lastQ := 0 } ∧
    sb.2.mem = fun x => if x = nn + 1 then s.h else if x = nn then s.l else b.mem x := by
  have hd : decode 0x22 = .ldNNHL := by decide
  have hd' : decode 0x2A = .ldHLNN := by decide
  have e1 := emulate_main v s b hc (by rw [h0]; decide)
  rw [h0, hd] at e1
  obtain ⟨x1, x2⟩ := ld_nn_hl_stores v .none (stepQ { s with r := incR s.r, pc := s.pc + 1 }) (read s.pc 4 b).2
  have hl := exec_lines v .none .ldNNHL (stepQ { s with r := incR s.r, pc := s.pc + 1 }) (read s.pc 4 b).2
  generalize exec v .none .ldNNHL (stepQ { s with r := incR s.r, pc := s.pc + 1 }) (read s.pc 4 b).2 = sb1 at *
  obtain ⟨s1, b1⟩ := sb1
  simp only at x1 x2 e1 hl
  simp only [stepQ, rb_read_mem, hn0, Cpu.idx, Cpu.hl, hi_mk16, lo_mk16] at x1 x2
  obtain ⟨d1, d2, d3⟩ := hd1
  obtain ⟨d4, d5, d6⟩ := hd2
  simp only [BitVec.ofNat_eq_ofNat] at h3 hn3 hn0 d1 d2 d3 d4 d5 d6 x1 x2
  have a3 : s.pc + 1#16 + 2#16 = s.pc + 3#16 := by bv_decide
  have a4 : s.pc + 3#16 + 1#16 = s.pc + 4#16 := by bv_decide
  have a5 : s.pc + 4#16 + 1#16 = s.pc + 5#16 := by bv_decide
  have a6 : s.pc + 4#16 + 2#16 = s.pc + 6#16 := by bv_decide
  rw [a3] at x1
  have hc1 : Calm s1 (Bus.pcCallback s1.pc b1) := by
    apply hc.transfer
    · rw [x1]; exact hc.1
    · rw [x1]; exact hc.2.1
    · rw [x1]
    · rw [lines_pccb, hl, lines_read]
  have hm1 : (Bus.pcCallback s1.pc b1).mem = b1.mem := rfl
  have hpc1 : s1.pc = s.pc + 3#16 := by rw [x1]
  have hop : b1.mem s1.pc = 0x2A := by
    rw [x2, hpc1]; simp [Ne.symm d1, Ne.symm d4, h3]
  have e2 := emulate_main v s1 (Bus.pcCallback s1.pc b1) hc1 (by rw [hm1, hop]; decide)
  rw [hm1, hop, hd'] at e2
  show (emulate v (emulate v (s, b))).1 = _ ∧ (emulate v (emulate v (s, b))).2.mem = _
  rw [e1, e2]
  obtain ⟨r1, r2⟩ := ld_hl_nn_loads v .none (stepQ { s1 with r := incR s1.r, pc := s1.pc + 1 })
    (read s1.pc 4 (Bus.pcCallback s1.pc b1)).2
  have hw : word b1.mem (s1.pc + 1#16) = nn := by
    rw [x2, hpc1, a4]; simp only [word, BitVec.ofNat_eq_ofNat, a5] at hn3 ⊢; simp [Ne.symm d2, Ne.symm d5, Ne.symm d3, Ne.symm d6, hn3]
  have hw2 : word b1.mem nn = mk16 s.h s.l := by
    rw [x2]; simp [word, a16_add1_ne, a16_ne_add1]
  simp only [stepQ, rb_pccb, rb_read_mem, BitVec.ofNat_eq_ofNat, hw, hw2] at r1 r2
  simp only [stepQ, BitVec.ofNat_eq_ofNat]
  refine ⟨?_, ?_⟩
  · rw [r1]
    subst x1
    simp [Cpu.setIdx, Cpu.setHL, hi_mk16, lo_mk16, a4, a6]
  · rw [(rb_pccb _ _).1, r2]; exact x2

/-! ## Non-vacuity -/

/-- `8000: ED B0` (LDIR), `9000: 01 02 03` source, destination `A000`; `8100: ED B1` (CPIR);
`8200: CD 00 83` (CALL 8300), `8300: C9` (RET); `8400: 10 FE` (DJNZ $) -/
def lawBus : RecBus :=
  { mem := fun a =>
      if a = 0x8000 then 0xED else if a = 0x8001 then 0xB0 else
      if a = 0x9000 then 0x01 else if a = 0x9001 then 0x02 else if a = 0x9002 then 0x03 else
      if a = 0x8100 then 0xED else if a = 0x8101 then 0xB1 else
      if a = 0x8200 then 0xCD else if a = 0x8201 then 0x00 else if a = 0x8202 then 0x83 else
      if a = 0x8300 then 0xC9 else if a = 0x8400 then 0x10 else if a = 0x8401 then 0xFE else 0 }

/-- LDIR of three bytes on a concrete machine: the hypotheses of `ldir_copies` are satisfiable (n = 2) and
the run does what the theorem says -/
example :
    let s : Cpu := { pc := 0x8000, h := 0x90, d := 0xA0, c := 3, f := 0xFF }
    Calm s lawBus ∧ s.bc.toNat = 2 + 1 ∧
    (run .hw 3 (s, lawBus)).2.mem 0xA000 = 0x01 ∧ (run .hw 3 (s, lawBus)).2.mem 0xA002 = 0x03 ∧
    (run .hw 3 (s, lawBus)).1.hl = 0x9003 ∧ (run .hw 3 (s, lawBus)).1.de = 0xA003 ∧
    (run .hw 3 (s, lawBus)).1.bc = 0 ∧ (run .hw 3 (s, lawBus)).1.pc = 0x8002 ∧
    tst (run .hw 3 (s, lawBus)).1.f FPV = false := by
  refine ⟨⟨rfl, rfl, rfl, rfl⟩, ?_⟩
  decide


/-- the overlap hypothesis of `ldir_copies` is not superfluous: with DE = HL+1 (a source byte is overwritten
before it is read) LDIR does not copy but replicates the first byte — the classic memory-fill idiom -/
example :
    let s : Cpu := { pc := 0x8000, h := 0x90, d := 0x90, e := 0x01, c := 2 }
    (run .hw 2 (s, lawBus)).2.mem 0x9001 = 0x01 ∧ (run .hw 2 (s, lawBus)).2.mem 0x9002 = 0x01 ∧
    lawBus.mem 0x9001 = 0x02 := by decide

/-- CPIR finds 0x03 at offset 2 (k = 2) -/
example :
    let s : Cpu := { pc := 0x8100, h := 0x90, a := 0x03, c := 10 }
    Calm s lawBus ∧ 2 < blockCount s.bc ∧ (run .hw 3 (s, lawBus)).1.hl = 0x9003 ∧
    (run .hw 3 (s, lawBus)).1.bc = 7 ∧ tst (run .hw 3 (s, lawBus)).1.f FZ = true ∧
    (run .hw 3 (s, lawBus)).1.pc = 0x8102 := by
  refine ⟨⟨rfl, rfl, rfl, rfl⟩, ?_⟩
  decide

/-- CALL 8300 / RET and the DJNZ loop with B = 3 -/
example :
    let s : Cpu := { pc := 0x8200, sp := 0xFF00 }
    Calm s lawBus ∧ (run .hw 2 (s, lawBus)).1.pc = 0x8203 ∧ (run .hw 2 (s, lawBus)).1.sp = 0xFF00 ∧
    (run .hw 2 (s, lawBus)).2.mem 0xFEFE = 0x03 ∧ (run .hw 2 (s, lawBus)).2.mem 0xFEFF = 0x82 ∧
    loopCount (3 : BitVec 8) = 2 + 1 ∧
    (run .hw 3 (({ pc := 0x8400, b := 3 } : Cpu), lawBus)).1.pc = 0x8402 ∧
    (run .hw 3 (({ pc := 0x8400, b := 3 } : Cpu), lawBus)).1.b = 0 := by
  refine ⟨⟨rfl, rfl, rfl, rfl⟩, ?_⟩
  decide

/-- the eight conditions on a concrete F: Z and C set, P/V and S clear -/
example : condHolds .z 0x41 = true ∧ condHolds .nz 0x41 = false ∧ condHolds .c 0x41 = true ∧
    condHolds .nc 0x41 = false ∧ condHolds .po 0x41 = true ∧ condHolds .pe 0x41 = false ∧
    condHolds .p 0x41 = true ∧ condHolds .m 0x41 = false := by decide

end ZxVerif.C01Laws
