/-
C02 — interrupt, NMI, HALT and prefix sequencing follow the Z80 rules.

Only property theorems live here. Model: ZxVerif/Model/Z80/Exec.lean (`decision`, `checkInterrupt`,
`acceptInt`, `acceptNmi`, `execOne`, `emulate`); spec vocabulary: ZxVerif/Spec/Z80Interrupts.lean;
helper lemmas (what no instruction touches, the parking branch): ZxVerif/Lemmas/Z80.lean.
Every theorem is for all CPU states and all buses (`β` with any `Bus` instance: the line levels,
the interrupt bus byte and the memory are whatever the bus says); the run statements are for all
programs and all line schedules because the environment may replace the bus state arbitrarily
between two steps (`Reach.step`).
-/
import ZxVerif.Lemmas.Z80
import ZxVerif.Lemmas.Z80Tables
import ZxVerif.Spec.Z80Interrupts
set_option linter.constructorNameAsVariable false
set_option linter.unusedSimpArgs false
namespace ZxVerif.C02
open ZxVerif.Z80
variable {β : Type} [Bus β]

/-- **INT only when enabled.** Whatever the lines do: if the boundary accepts a maskable interrupt
then IFF1 was set, the previous instruction was neither EI nor DI nor a parked prefix
(`skipInt = false`), the INT line is active and no NMI is pending. -/
theorem int_only_when_enabled (s : Cpu) (b : β) (h : decision s b = .int) :
    s.iff1 = true ∧ s.skipInt = false ∧ Bus.intActive b = true ∧ Bus.nmiActive b = false := by
  unfold decision at h
  by_cases h1 : s.skipInt = true
  · simp [h1] at h
  · by_cases h2 : Bus.nmiActive b = true
    · simp [h1, h2] at h
    · by_cases h3 : (Bus.intActive b && s.iff1) = true
      · simp at h3; simp_all
      · simp [h1, h2, h3] at h

/-- states reachable by running `emulate`: any start state without a pending prefix; between two
steps the environment may change the bus arbitrarily (line levels, bus byte, even memory) -/
inductive Reach (v : Variant) : Cpu × β → Prop
  | init (s : Cpu) (b : β) (h : s.activePrefix = .none) : Reach v (s, b)
  | step (s : Cpu) (b b' : β) (h : Reach v (s, b)) : Reach v (emulate v (s, b'))

/-- **Invariant.** In every reachable state a pending DD/FD/ED prefix implies that interrupts are
held off for the next boundary (proved for every program and every line schedule: `emulate`
establishes it from *any* state, `Lemmas.execOne_inv`). -/
theorem inv_prefix_implies_skip (v : Variant) (sb : Cpu × β) (h : Reach v sb) :
    sb.1.activePrefix ≠ .none → sb.1.skipInt = true := by
  cases h with
  | init s b h0 => intro h; exact absurd h0 h
  | step s b b' _ =>
    show (execOne v (checkInterrupt s b').1 (checkInterrupt s b').2).1.activePrefix ≠ .none →
      (execOne v (checkInterrupt s b').1 (checkInterrupt s b').2).1.skipInt = true
    exact execOne_inv v _ _

/-- a set `skipInt` blocks both kinds of interrupt, whatever the lines say -/
theorem skip_blocks_acceptance (s : Cpu) (b : β) (h : s.skipInt = true) : decision s b = .none := by
  simp [decision, h]

/-- **Corollary: nothing is accepted inside a prefix chain** — neither INT nor NMI, in any reachable
state, for any line levels: between a DD/FD prefix (or a chain of them) and the opcode it modifies the
interrupt check is skipped. -/
theorem no_accept_inside_prefix_chain (v : Variant) (s : Cpu) (b : β) (h : Reach v (s, b))
    (hp : s.activePrefix ≠ .none) (b' : β) : decision s b' = .none :=
  skip_blocks_acceptance s b' (inv_prefix_implies_skip v (s, b) h hp)

/-- in reachable states the acceptance decision agrees with the property's rule -/
theorem int_accept_implies_spec (v : Variant) (s : Cpu) (b : β) (hr : Reach v (s, b)) (b' : β)
    (h : decision s b' = .int) : Spec.mayAcceptInt s = true := by
  obtain ⟨h1, h2, _, _⟩ := int_only_when_enabled s b' h
  have h3 : s.activePrefix = .none := by
    by_cases hp : s.activePrefix = .none
    · exact hp
    · have := inv_prefix_implies_skip v (s, b) hr hp
      simp [h2] at this
  simp [Spec.mayAcceptInt, h1, h2, h3]

/-- EI and DI (`FB`, `F3`) set `skipInt` and the flip-flops -/
theorem ei_di_effects (v : Variant) (s : Cpu) (b b1 : β) (op : BitVec 8) (hop : op = 0xF3 ∨ op = 0xFB)
    (hap : s.activePrefix = .none) (h1 : read s.pc 4 b = (op, b1)) :
    (execOne v s b).1.skipInt = true ∧ (execOne v s b).1.iff1 = (op == 0xFB) ∧
    (execOne v s b).1.iff2 = (op == 0xFB) := by
  have hdi : decode 243#8 = .di := by decide
  have hei : decode 251#8 = .ei := by decide
  rcases hop with h | h <;> subst h <;> simp only [BitVec.ofNat_eq_ofNat] at h1 <;>
    simp [execOne, hap, fetchByte, h1, hdi, hei, exec, stepQ]

/-- **No INT (or NMI) directly after EI or DI.** If the instruction executed by this `emulate` is EI
or DI, the *next* boundary accepts nothing, whatever the lines and the rest of the bus look like then. -/
theorem no_int_after_ei_di (v : Variant) (s : Cpu) (b b1 : β) (op : BitVec 8) (hop : op = 0xF3 ∨ op = 0xFB)
    (hap : (checkInterrupt s b).1.activePrefix = .none)
    (h1 : read (checkInterrupt s b).1.pc 4 (checkInterrupt s b).2 = (op, b1)) (b' : β) :
    decision (emulate v (s, b)).1 b' = .none := by
  apply skip_blocks_acceptance
  exact (ei_di_effects v _ _ b1 op hop hap h1).1

/-- **Effects of accepting INT.** IFF1 = IFF2 = 0, HALT released, R+1 (7-bit), Q cleared, SP-2;
the two stack writes are the high then the low byte of the address of the next instruction to
execute (behind the HALT if halted); then IM 0/1: 7 internal T-states and PC = 0x0038; IM 2: the bus
byte is read, the vector word is read at I*256+byte (2 x 3 T), 7 internal T-states, PC = that word.
MEMPTR = PC. Nothing else changes. -/
theorem int_effects (s : Cpu) (b : β) :
    let b0 := if s.halted then Bus.halt false b else b
    let ret := Spec.returnAddress s
    let b1 := write (s.sp - 2) (lo ret) 3 (write (s.sp - 1) (hi ret) 3 b0)
    let vb := Bus.readInterrupt b1
    let w := readWord (mk16 s.i vb.1) 3 vb.2
    let target := Spec.intTarget s w.1
    acceptInt s b =
      ({ s with iff1 := false, iff2 := false, halted := false, r := incR s.r, q := 0, sp := s.sp - 2,
                pc := target, memptr := target },
       if s.im = 2 then Bus.waitInternal 7 w.2 else Bus.waitInternal 7 b1) := by
  by_cases hh : s.halted = true <;> by_cases hm : s.im = 2 <;>
    simp [acceptInt, releaseHalt, push16, Spec.returnAddress, Spec.intTarget, hh, hm]

/-- **Effects of accepting NMI.** IFF1 = 0, IFF2 unchanged, HALT released, five 1-T cycles at the
return address, the same two stack writes, PC = 0x0066, R+1, Q cleared. -/
theorem nmi_effects (s : Cpu) (b : β) :
    let b0 := if s.halted then Bus.halt false b else b
    let ret := Spec.returnAddress s
    acceptNmi s b =
      ({ s with iff1 := false, halted := false, r := incR s.r, q := 0, sp := s.sp - 2,
                pc := Spec.nmiTarget, memptr := Spec.nmiTarget },
       write (s.sp - 2) (lo ret) 3 (write (s.sp - 1) (hi ret) 3 (waitLoop ret 5 b0))) := by
  by_cases hh : s.halted = true <;>
    simp [acceptNmi, releaseHalt, push16, Spec.returnAddress, Spec.nmiTarget, hh]

/-- NMI preserves IFF2, INT clears it (the difference the property insists on) -/
theorem nmi_preserves_iff2 (s : Cpu) (b : β) :
    (acceptNmi s b).1.iff2 = s.iff2 ∧ (acceptNmi s b).1.iff1 = false ∧
    (acceptInt s b).1.iff2 = false ∧ (acceptInt s b).1.iff1 = false := by
  rw [nmi_effects, int_effects]; simp

/-- **HALT.** Executing `76` sets the halted state, raises the HALT line and leaves PC at the HALT. -/
theorem halt_enters (v : Variant) (s : Cpu) (b b1 : β) (hap : s.activePrefix = .none)
    (h1 : read s.pc 4 b = (0x76, b1)) :
    execOne v s b =
      ({ s with halted := true, r := incR s.r, lastQ := s.q, q := 0 }, Bus.halt true b1) := by
  have hd : decode 118#8 = .halt := by decide
  simp only [BitVec.ofNat_eq_ofNat] at h1
  simp [execOne, hap, fetchByte, h1, hd, exec, stepQ, BitVec.add_sub_cancel]

/-- **A halted CPU spins.** While nothing is accepted, one `emulate` of a halted CPU is exactly one
4-T opcode fetch at the unchanged PC: R+1 (7-bit), the Q latch steps, every other register, flag
and control bit is unchanged, the CPU stays halted. -/
theorem halt_spins (v : Variant) (s : Cpu) (b b1 : β) (hh : s.halted = true)
    (hd : decision s b = .none) (hap : s.activePrefix = .none)
    (h1 : read s.pc 4 b = (0x76, b1)) :
    emulate v (s, b) =
      ({ s with r := incR s.r, lastQ := s.q, q := 0, skipInt := false },
        Bus.pcCallback s.pc (Bus.halt true b1)) := by
  have e : emulate v (s, b) =
      ((execOne v { s with skipInt := false } b).1,
        Bus.pcCallback (execOne v { s with skipInt := false } b).1.pc
          (execOne v { s with skipInt := false } b).2) := by
    simp [emulate, checkInterrupt_eq_decision, hd]
  rw [e, halt_enters v { s with skipInt := false } b b1 hap h1]
  simp [hh]

/-- **HALT release:** an accepted interrupt pushes the address *behind* the HALT and clears `halted` -/
theorem halt_release (s : Cpu) (b : β) (hh : s.halted = true) :
    Spec.returnAddress s = s.pc + 1 ∧ (acceptInt s b).1.halted = false ∧ (acceptNmi s b).1.halted = false := by
  rw [nmi_effects, int_effects]; simp [Spec.returnAddress, hh]

/-- the eight RETN/RETI encodings -/
def isRetnReti (op : BitVec 8) : Bool := op &&& 0xC7 == 0x45

theorem retn_codes : (List.range 256).filter (fun n => isRetnReti (BitVec.ofNat 8 n)) =
    [0x45, 0x4D, 0x55, 0x5D, 0x65, 0x6D, 0x75, 0x7D] := by decide +kernel

theorem retn_decode (op : BitVec 8) (h : isRetnReti op = true) : decodeED op = .retn (op == 0x4D) := by
  revert op; apply Impl.forall_bv8; decide +kernel

/-- **RETN and RETI copy IFF2 to IFF1**, for all eight encodings ED 45/4D/55/5D/65/6D/75/7D, and
leave IFF2 alone. -/
theorem retn_reti_copy_iff2 (v : Variant) (s : Cpu) (b b1 b2 : β) (op : BitVec 8)
    (hop : isRetnReti op = true) (hap : s.activePrefix = .none)
    (h1 : read s.pc 4 b = (0xED, b1)) (h2 : read (s.pc + 1) 4 b1 = (op, b2)) :
    (execOne v s b).1.iff1 = s.iff2 ∧ (execOne v s b).1.iff2 = s.iff2 := by
  have hd : decode 237#8 = .pfxED := by decide
  simp only [BitVec.ofNat_eq_ofNat] at h1 h2
  simp [execOne, hap, fetchByte, h1, hd, afterEDPrefix, h2, retn_decode op hop, execED, stepQ, pop16]

/-! ## Non-vacuity -/

/-- a bus with `FB` (EI) at 0x8000, `76` (HALT) at 0x8001, INT active -/
def exampleBus : RecBus :=
  { mem := fun a => if a = 0x8000 then 0xFB else if a = 0x8001 then 0x76 else 0, int := true }

/-- EI; then the INT line is active and IFF1 set, yet the boundary after EI accepts nothing; the one
after that accepts (IM 1): PC = 0x0038 and the pushed return address is behind the HALT -/
example :
    let s1 := emulate .hw (({ pc := 0x8000, sp := 0x9000, im := 1 } : Cpu), exampleBus)
    let s2 := emulate .hw s1
    let s3 := emulate .hw s2
    s1.1.iff1 = true ∧ decision s1.1 s1.2 = .none ∧ s2.1.halted = true ∧ decision s2.1 s2.2 = .int ∧
    s3.1.pc = 0x0039 ∧ s3.2.mem 0x8FFF = 0x80 ∧ s3.2.mem 0x8FFE = 0x02 ∧ s3.1.halted = false := by
  decide

example : Reach .hw (emulate .hw (({ pc := 0x8000 } : Cpu), exampleBus)) :=
  Reach.step _ exampleBus exampleBus (Reach.init _ _ rfl)

example : isRetnReti 0x4D = true ∧ isRetnReti 0x45 = true ∧ isRetnReti 0x46 = false := by decide

end ZxVerif.C02
