/-
C02 on the composed machine — interrupts, HALT, EI/DI, RETN and prefix chains follow the Z80 rules for
every program run by `Z80.emulate` on the Spectrum bus (`Spectrum.ZX`, Model/Spectrum.lean).

`Props/C02.lean` proves the rules of the CPU model on an abstract bus (any line levels, any bus byte, any
memory). Here the bus is the machine: the INT line is "frame clock < 32", NMI never, the bus byte during the
acknowledge is 0xFF, reads and stores go through the four-window map as paged at that moment (stores aimed
at ROM are dropped), and time is the machine's clock with ULA delays. The theorems say what an accepted
interrupt does *to the machine* (vector fetch through the map with the 16-bit wrap of the table address,
pushes through the map, elapsed time), when a boundary of a run accepts, how often the `EI; HALT` idiom is
served, and what RETN/RETI do.

One `emulate` that accepts an interrupt also runs the first instruction of the service routine (as the code
does). The acknowledge itself is `checkInterrupt`; every entry theorem therefore describes
`checkInterrupt s z` — the state in which that first instruction starts — and adds
`emulate .hw (s, z) = execOne .hw …` on exactly that state.

Helper lemmas: Lemmas/IntSys.lean (memory behind the map, derived bus operations on the machine).
-/
import ZxVerif.Lemmas.IntSys
import ZxVerif.Props.C03Sys
import ZxVerif.Props.C05Halt
set_option linter.constructorNameAsVariable false
set_option linter.unusedSimpArgs false
namespace ZxVerif.C02Sys
open ZxVerif.Z80 ZxVerif.Machine ZxVerif.Spectrum ZxVerif.IntSys
open ZxVerif.C05 (total)

/-! ## Vocabulary -/

/-- the CPU state in which the service routine starts: IFF1 = IFF2 = 0, HALT released, R+1 (7-bit), Q
cleared, SP-2, PC = MEMPTR = the target; every other register, flag and control bit as before -/
def entered (s : Cpu) (target : BitVec 16) : Cpu :=
  { s with iff1 := false, iff2 := false, halted := false, r := incR s.r, q := 0, sp := s.sp - 2,
           pc := target, memptr := target }

/-- everything of the machine an interrupt acknowledge, a RETN or any other memory-only activity must
leave alone: machine kind, paging latch and lock, displayed screen, the window map, the ROM contents,
keyboard/joystick/mouse, tape input, border and speaker latches, the AY register file -/
structure Kept (z z' : ZX) : Prop where
  kind : z'.ctl.kind = z.ctl.kind
  pagingEnabled : z'.ctl.pagingEnabled = z.ctl.pagingEnabled
  screenBank : z'.ctl.screenBank = z.ctl.screenBank
  latch : z'.ctl.port7ffd = z.ctl.port7ffd
  panicked : z'.ctl.panicked = z.ctl.panicked
  map : z'.ctl.mem.map = z.ctl.mem.map
  rom : z'.ctl.mem.rom = z.ctl.mem.rom
  kbd : z'.kbd = z.kbd
  earIn : z'.earIn = z.earIn
  border : z'.border = z.border
  ear : z'.ear = z.ear
  mic : z'.mic = z.mic
  ayReg : z'.ayReg = z.ayReg
  ayRegs : z'.ayRegs = z.ayRegs

theorem Kept.refl (z : ZX) : Kept z z := ⟨rfl, rfl, rfl, rfl, rfl, rfl, rfl, rfl, rfl, rfl, rfl, rfl, rfl, rfl⟩

theorem Kept.trans {a b c : ZX} (h1 : Kept a b) (h2 : Kept b c) : Kept a c :=
  ⟨h2.kind.trans h1.kind, h2.pagingEnabled.trans h1.pagingEnabled, h2.screenBank.trans h1.screenBank,
   h2.latch.trans h1.latch, h2.panicked.trans h1.panicked, h2.map.trans h1.map, h2.rom.trans h1.rom,
   h2.kbd.trans h1.kbd, h2.earIn.trans h1.earIn, h2.border.trans h1.border, h2.ear.trans h1.ear,
   h2.mic.trans h1.mic, h2.ayReg.trans h1.ayReg, h2.ayRegs.trans h1.ayRegs⟩

theorem ctl_waitInternal_shape (c : Ctl) (k : Nat) :
    ∃ f p, c.waitInternal k = { c with frameClocks := f, passedFrames := p } := by
  unfold Ctl.waitInternal
  split
  · exact ⟨_, _, rfl⟩
  · exact ⟨_, c.passedFrames, rfl⟩

theorem ctl_waitMreq_shape (c : Ctl) (a : BitVec 16) (k : Nat) :
    ∃ f p, c.waitMreq a k = { c with frameClocks := f, passedFrames := p } := by
  unfold Ctl.waitMreq Ctl.doContention
  split
  · obtain ⟨f1, p1, h1⟩ := ctl_waitInternal_shape c (contentionClocks c.kind c.frameClocks)
    obtain ⟨f2, p2, h2⟩ := ctl_waitInternal_shape (c.waitInternal (contentionClocks c.kind c.frameClocks)) k
    rw [h2, h1]
    exact ⟨f2, p2, rfl⟩
  · exact ctl_waitInternal_shape c k

theorem kept_waitMreq (a : BitVec 16) (k : Nat) (z : ZX) : Kept z (Bus.waitMreq a k z) := by
  obtain ⟨f, p, h⟩ := ctl_waitMreq_shape z.ctl a k
  have e : (Bus.waitMreq a k z : ZX) =
      { z with ctl := z.ctl.waitMreq a k, tlog := (z.ctl.port7ffd, .mem a k) :: z.tlog } := rfl
  rw [e, h]
  exact ⟨rfl, rfl, rfl, rfl, rfl, rfl, rfl, rfl, rfl, rfl, rfl, rfl, rfl, rfl⟩

theorem kept_waitInternal (k : Nat) (z : ZX) : Kept z (Bus.waitInternal k z) := by
  obtain ⟨f, p, h⟩ := ctl_waitInternal_shape z.ctl k
  have e : (Bus.waitInternal k z : ZX) =
      { z with ctl := z.ctl.waitInternal k, tlog := (z.ctl.port7ffd, .plain k) :: z.tlog } := rfl
  rw [e, h]
  exact ⟨rfl, rfl, rfl, rfl, rfl, rfl, rfl, rfl, rfl, rfl, rfl, rfl, rfl, rfl⟩

theorem kept_writeInternal (a : BitVec 16) (v : BitVec 8) (z : ZX) : Kept z (Bus.writeInternal a v z) :=
  ⟨rfl, rfl, rfl, rfl, rfl, write_map _ _ _, write_romdata _ _ _, rfl, rfl, rfl, rfl, rfl, rfl, rfl⟩

theorem kept_read (a : BitVec 16) (k : Nat) (z : ZX) : Kept z (read a k z).2 := kept_waitMreq a k z

theorem kept_write (a : BitVec 16) (v : BitVec 8) (k : Nat) (z : ZX) : Kept z (write a v k z) :=
  (kept_waitMreq a k z).trans (kept_writeInternal a v _)

theorem kept_readWord (a : BitVec 16) (k : Nat) (z : ZX) : Kept z (readWord a k z).2 :=
  (kept_read a k z).trans (kept_read (a + 1) k _)

theorem kept_push16 (w : BitVec 16) (k : Nat) (s : Cpu) (z : ZX) : Kept z (push16 w k s z).2 :=
  (kept_write _ _ k z).trans (kept_write _ _ k _)

theorem kept_pop16 (k : Nat) (s : Cpu) (z : ZX) : Kept z (pop16 k s z).2.2 :=
  (kept_read _ k z).trans (kept_read _ k _)

theorem halt_if (s : Cpu) (z : ZX) : (if s.halted = true then Bus.halt false z else z) = z := by
  split <;> rfl

/-! ## What an accepted interrupt does to the machine -/

/-- the acknowledge sequence on the machine: CPU state and memory -/
theorem acceptInt_zx (s : Cpu) (z : ZX) :
    let m1 := pushed z.ctl.mem s.sp (Spec.returnAddress s)
    let va := mk16 s.i 0xFF
    (acceptInt s z).1 =
      entered s (if s.im = 2 then mk16 (m1.read (va + 1)) (m1.read va) else 0x0038) ∧
    (acceptInt s z).2.ctl.mem = m1 ∧ Kept z (acceptInt s z).2 := by
  intro m1 va
  have hk : Kept z (acceptInt s z).2 := by
    rw [C02.int_effects]
    simp only [halt_if, readInterrupt_eq]
    have hp : Kept z (write (s.sp - 2) (lo (Spec.returnAddress s)) 3
        (write (s.sp - 1) (hi (Spec.returnAddress s)) 3 z)) := (kept_write _ _ 3 z).trans (kept_write _ _ 3 _)
    split
    · exact (hp.trans (kept_readWord _ 3 _)).trans (kept_waitInternal 7 _)
    · exact hp.trans (kept_waitInternal 7 _)
  refine ⟨?_, ?_, hk⟩
  all_goals
    rw [C02.int_effects]
    simp only [halt_if]
    have hw : (write (s.sp - 2) (lo (Spec.returnAddress s)) 3
        (write (s.sp - 1) (hi (Spec.returnAddress s)) 3 z)).ctl.mem = m1 := by
      rw [write_mem, write_mem]; rfl
    simp only [readInterrupt_eq, readWord_val, readWord_mem, hw, Spec.intTarget, entered]
  · by_cases hm : s.im = 2 <;> simp only [hm, if_true, if_false] <;> rfl
  · by_cases hm : s.im = 2 <;> simp only [hm, if_true, if_false, waitInternal_mem, readWord_mem, hw]

/-- the timed bus operations of an IM 2 acknowledge, oldest first: two 3-T stores, two 3-T vector reads,
seven address-less T-states; `l` = the paging latch in force -/
def im2Cycles (l : BitVec 8) (s : Cpu) : List (BitVec 8 × TOp) :=
  [(l, .mem (s.sp - 1) 3), (l, .mem (s.sp - 2) 3), (l, .mem (mk16 s.i 0xFF) 3),
   (l, .mem (mk16 s.i 0xFF + 1) 3), (l, .plain 7)]

/-- … of an IM 0/1 acknowledge -/
def im1Cycles (l : BitVec 8) (s : Cpu) : List (BitVec 8 × TOp) :=
  [(l, .mem (s.sp - 1) 3), (l, .mem (s.sp - 2) 3), (l, .plain 7)]

theorem im2Cycles_eq (l : BitVec 8) (s : Cpu) :
    timedOf l l (Spec.docInt2 s (mk16 s.i 0xFF)) = im2Cycles l s := by
  simp [Spec.docInt2, Spec.pushCycles, Spec.wr3, Spec.rd3, timedOf, im2Cycles]

theorem im1Cycles_eq (l : BitVec 8) (s : Cpu) : timedOf l l (Spec.docInt01 s) = im1Cycles l s := by
  simp [Spec.docInt01, Spec.pushCycles, Spec.wr3, timedOf, im1Cycles]

/-- the table address `I*256 + 0xFF` and its successor modulo 65536 -/
theorem vector_address (i : BitVec 8) :
    (mk16 i 0xFF).toNat = i.toNat * 256 + 255 ∧
    (mk16 i 0xFF + 1).toNat = ((mk16 i 0xFF).toNat + 1) % 65536 := by
  refine ⟨?_, ?_⟩
  · revert i; apply Impl.forall_bv8; decide +kernel
  · rw [BitVec.toNat_add]; rfl

/-- at an accepting boundary the interrupt check is the acknowledge sequence -/
theorem check_accepts (s : Cpu) (z : ZX) (hd : decision s z = .int) : checkInterrupt s z = acceptInt s z := by
  rw [checkInterrupt_eq_decision, hd]

/-- **Memory after the pushes, read through the map.** The byte the CPU reads at `b` after the two stores
of a push of `w` with stack pointer `sp`: the low byte of `w` if `b` designates the RAM cell of `sp-2`, else
the high byte if it designates the RAM cell of `sp-1`, else what was there; a store whose address lies in
the ROM window is dropped. -/
theorem pushed_read (m : Mem) (sp w b : BitVec 16) :
    (pushed m sp w).read b =
      if inRam m (sp - 2) = true ∧ m.pagedAddress (sp - 2) = m.pagedAddress b then lo w
      else if inRam m (sp - 1) = true ∧ m.pagedAddress (sp - 1) = m.pagedAddress b then hi w
      else m.read b := by
  unfold pushed
  rw [read_write, write_inRam, write_paged, write_paged, read_write]

/-- a push aimed entirely at ROM changes nothing -/
theorem pushed_into_rom (m : Mem) (sp w : BitVec 16) (h1 : inRam m (sp - 1) = false)
    (h2 : inRam m (sp - 2) = false) : pushed m sp w = m := by
  unfold pushed
  rw [write_rom m _ _ h1, write_rom m _ _ h2]

/-- a read from the ROM window after a push returns the ROM byte -/
theorem pushed_read_rom (m : Mem) (sp w b : BitVec 16) (h : inRam m b = false) :
    (pushed m sp w).read b = m.read b := by
  unfold pushed
  rw [read_write_rom _ _ _ _ (by rw [write_inRam]; exact h), read_write_rom _ _ _ _ h]

/-- **IM 2 on the machine.** Let an `emulate` on the composed machine accept a maskable interrupt in
IM 2 (`decision s z = .int`: IFF1 set, not directly behind EI/DI/a prefix, frame clock < 32). Then the
state in which the service routine starts (`checkInterrupt s z`) is:
* memory = the old memory with the high byte of the return address stored at SP-1 and then its low byte at
  SP-2, both *through the map as paged at that moment* (`pushed`, `pushed_read`: a store aimed at ROM changes
  nothing); the return address is PC, or PC+1 if the CPU was halted;
* PC = MEMPTR = the word whose low byte is read at `I*256 + 0xFF` (0xFF = the byte the machine puts on the
  bus) and whose high byte is read at that address **plus one modulo 65536**, both through the same map, from
  the memory the pushes left; SP-2, IFF1 = IFF2 = 0, halted cleared, R+1 (7-bit), Q = 0, every other
  register unchanged (`entered`);
* paging latch, lock, map, ROM contents and every device latch unchanged (`Kept`);
* the same `emulate` then runs the first instruction of the routine from exactly that state;
* in a `Good` state (any state a program can reach from reset) the acknowledge takes 19 T-states plus the
  ULA delays of exactly its five timed operations (`im2Cycles`), each looked up when it starts. -/
theorem im2_vector_on_machine (s : Cpu) (z : ZX) (hd : decision s z = .int) (him : s.im = 2) :
    let ret := if s.halted then s.pc + 1 else s.pc
    let m1 := pushed z.ctl.mem s.sp ret
    let va := mk16 s.i 0xFF
    let target := mk16 (m1.read (va + 1)) (m1.read va)
    (checkInterrupt s z).1 = entered s target ∧
    (checkInterrupt s z).2.ctl.mem = m1 ∧
    Kept z (checkInterrupt s z).2 ∧
    emulate .hw (s, z) = execOne .hw (entered s target) (checkInterrupt s z).2 ∧
    va.toNat = s.i.toNat * 256 + 255 ∧ (va + 1).toNat = (va.toNat + 1) % 65536 ∧
    (C04Sys.Good z.ctl →
      total (checkInterrupt s z).2.ctl =
        total z.ctl + 19 + C04Sys.delaysAlong z.ctl.kind (total z.ctl) (im2Cycles z.ctl.port7ffd s) ∧
      C04Sys.Good (checkInterrupt s z).2.ctl) := by
  intro ret m1 va target
  obtain ⟨h1, h2, h3⟩ := acceptInt_zx s z
  have hc := check_accepts s z hd
  simp only [him, if_true] at h1
  have hcpu : (checkInterrupt s z).1 = entered s target := by rw [hc]; exact h1
  refine ⟨hcpu, by rw [hc]; exact h2, by rw [hc]; exact h3, ?_, (vector_address s.i).1,
    (vector_address s.i).2, fun hg => ?_⟩
  · rw [emulate_zx, hcpu]
  · have ht := C03Sys.interrupt_step_time s z hg hd
    simp only [him, if_true, im2Cycles_eq] at ht
    exact ht

/-- **IM 2 with the table at the very top of memory** (`I = 0xFF`, as the Spectrum's 0xFF bus byte makes
programs do): the low byte of the routine address is read at 0xFFFF, the high byte at **0x0000** — the ROM
paged in at that moment (`p`: ROM 0 on the 48K, the ROM selected by bit 4 of the latch on the 128K) —
never at 0x10000 or 0xFF00; no push can alter that ROM byte. -/
theorem im2_vector_top_of_memory (s : Cpu) (z : ZX) (hd : decision s z = .int) (him : s.im = 2)
    (hi : s.i = 0xFF) (p : Nat) (hrom : z.ctl.mem.map 0 = .rom p) :
    let m1 := pushed z.ctl.mem s.sp (if s.halted then s.pc + 1 else s.pc)
    (checkInterrupt s z).1.pc = mk16 (z.ctl.mem.rom p 0) (m1.read 0xFFFF) := by
  intro m1
  have h := (im2_vector_on_machine s z hd him).1
  rw [h, hi]
  have e1 : mk16 (0xFF : BitVec 8) 0xFF = 0xFFFF := by decide
  have e2 : (0xFFFF : BitVec 16) + 1 = 0 := by decide
  have hin : inRam z.ctl.mem 0 = false := inRam_of_rom _ _ p hrom
  show mk16 _ _ = _
  rw [e1, e2, pushed_read_rom _ _ _ _ hin, read_rom _ _ p hrom]
  rfl

/-- in every state the contention/paging invariant `Good` describes (every state a program reaches from
reset) the lowest window shows a ROM: ROM 0 on the 48K, the one selected by latch bit 4 on the 128K -/
theorem good_slot0_rom (c : Ctl) (h : C04Sys.MapOk c) :
    c.mem.map 0 = .rom (if c.kind = .k48 then 0 else if c.port7ffd &&& 0x10 = 0 then 0 else 1) := by
  rcases h with ⟨hk, hm, _⟩ | hi
  · rw [hm, hk]; rfl
  · rw [hi.slot0, hi.kind]; rfl

/-- **IM 0 / IM 1 on the machine** (any mode other than 2): the same pushes through the map, PC = MEMPTR =
0x0038, the same register effects, nothing else touched; 13 T-states plus the ULA delays of the two stores
(`im1Cycles`). -/
theorem im01_on_machine (s : Cpu) (z : ZX) (hd : decision s z = .int) (him : s.im ≠ 2) :
    let ret := if s.halted then s.pc + 1 else s.pc
    let m1 := pushed z.ctl.mem s.sp ret
    (checkInterrupt s z).1 = entered s 0x0038 ∧
    (checkInterrupt s z).2.ctl.mem = m1 ∧
    Kept z (checkInterrupt s z).2 ∧
    emulate .hw (s, z) = execOne .hw (entered s 0x0038) (checkInterrupt s z).2 ∧
    (C04Sys.Good z.ctl →
      total (checkInterrupt s z).2.ctl =
        total z.ctl + 13 + C04Sys.delaysAlong z.ctl.kind (total z.ctl) (im1Cycles z.ctl.port7ffd s) ∧
      C04Sys.Good (checkInterrupt s z).2.ctl) := by
  intro ret m1
  obtain ⟨h1, h2, h3⟩ := acceptInt_zx s z
  have hc := check_accepts s z hd
  simp only [him, if_false] at h1
  have hcpu : (checkInterrupt s z).1 = entered s 0x0038 := by rw [hc]; exact h1
  refine ⟨hcpu, by rw [hc]; exact h2, by rw [hc]; exact h3, ?_, fun hg => ?_⟩
  · rw [emulate_zx, hcpu]
  · have ht := C03Sys.interrupt_step_time s z hg hd
    simp only [him, if_false, im1Cycles_eq] at ht
    exact ht

/-- **IM 1 on the machine**: RST 38h — see `im01_on_machine`. -/
theorem im1_on_machine (s : Cpu) (z : ZX) (hd : decision s z = .int) (him : s.im = 1) :
    let m1 := pushed z.ctl.mem s.sp (if s.halted then s.pc + 1 else s.pc)
    (checkInterrupt s z).1 = entered s 0x0038 ∧
    (checkInterrupt s z).2.ctl.mem = m1 ∧
    Kept z (checkInterrupt s z).2 ∧
    emulate .hw (s, z) = execOne .hw (entered s 0x0038) (checkInterrupt s z).2 ∧
    (C04Sys.Good z.ctl →
      total (checkInterrupt s z).2.ctl =
        total z.ctl + 13 + C04Sys.delaysAlong z.ctl.kind (total z.ctl) (im1Cycles z.ctl.port7ffd s) ∧
      C04Sys.Good (checkInterrupt s z).2.ctl) :=
  im01_on_machine s z hd (by omega)

/-- **IM 0 on the machine**: the byte the machine puts on the bus during the acknowledge is 0xFF, which is
the opcode of RST 38h; the entry is that of IM 1 (PC = 0x0038 = the RST target, same pushes, 13 T-states
plus delays) — see `im01_on_machine`. -/
theorem im0_on_machine (s : Cpu) (z : ZX) (hd : decision s z = .int) (him : s.im = 0) :
    let m1 := pushed z.ctl.mem s.sp (if s.halted then s.pc + 1 else s.pc)
    (Bus.readInterrupt z).1 = 0xFF ∧ decode 0xFF = .rst 7 ∧
    (zext (((7 : BitVec 3).setWidth 8) <<< 3) : BitVec 16) = 0x0038 ∧
    (checkInterrupt s z).1 = entered s 0x0038 ∧
    (checkInterrupt s z).2.ctl.mem = m1 ∧
    Kept z (checkInterrupt s z).2 ∧
    emulate .hw (s, z) = execOne .hw (entered s 0x0038) (checkInterrupt s z).2 ∧
    (C04Sys.Good z.ctl →
      total (checkInterrupt s z).2.ctl =
        total z.ctl + 13 + C04Sys.delaysAlong z.ctl.kind (total z.ctl) (im1Cycles z.ctl.port7ffd s) ∧
      C04Sys.Good (checkInterrupt s z).2.ctl) :=
  ⟨rfl, by decide, by decide, im01_on_machine s z hd (by omega)⟩

end ZxVerif.C02Sys
