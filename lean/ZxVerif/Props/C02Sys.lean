/-
C02 on the composed machine — interrupts, HALT, EI/DI, RETN and prefix chains follow the Z80 rules for
every program run by `Z80.emulate` on the Spectrum bus (`Spectrum.ZX`, Model/Spectrum.lean).

`Props/C02.lean` proves the rules of the CPU model on an abstract bus (any line levels, any bus byte, any
memory). Here the bus is the machine: the INT line is "frame clock < 32", NMI never, the bus byte during the
acknowledge is 0xFF, reads and stores go through the four-window map as paged at that moment (stores aimed
at ROM are dropped), and time is the machine's clock with ULA delays. The theorems say what an accepted
interrupt does *to the machine* (vector fetch through the map with the 16-bit wrap of the table address,
pushes through the map, elapsed time), when a boundary of a run accepts, how often the `EI; HALT` idiom is
served, and what RETN/RETI do.

One `emulate` that accepts an interrupt also runs the first instruction of the service routine (as the code
does). The acknowledge itself is `checkInterrupt`; every entry theorem therefore describes
`checkInterrupt s z` — the state in which that first instruction starts — and adds
`emulate .hw (s, z) = execOne .hw …` on exactly that state.

Helper lemmas: Lemmas/IntSys.lean (memory behind the map, derived bus operations on the machine).
-/
import ZxVerif.Lemmas.IntSys
import ZxVerif.Props.C03Sys
import ZxVerif.Props.C05Halt
set_option linter.constructorNameAsVariable false
set_option linter.unusedSimpArgs false
namespace ZxVerif.C02Sys
open ZxVerif.Z80 ZxVerif.Machine ZxVerif.Spectrum ZxVerif.IntSys
open ZxVerif.C05 (total)

/-! ## Vocabulary -/

/-- the CPU state in which the service routine starts: IFF1 = IFF2 = 0, HALT released, R+1 (7-bit), Q
cleared, SP-2, PC = MEMPTR = the target; every other register, flag and control bit as before -/
def entered (s : Cpu) (target : BitVec 16) : Cpu :=
  { s with iff1 := false, iff2 := false, halted := false, r := incR s.r, q := 0, sp := s.sp - 2,
           pc := target, memptr := target }

/-- everything of the machine an interrupt acknowledge, a RETN or any other memory-only activity must
leave alone: machine kind, paging latch and lock, displayed screen, the window map, the ROM contents,
keyboard/joystick/mouse, tape input, border and speaker latches, the AY register file -/
structure Kept (z z' : ZX) : Prop where
  kind : z'.ctl.kind = z.ctl.kind
  pagingEnabled : z'.ctl.pagingEnabled = z.ctl.pagingEnabled
  screenBank : z'.ctl.screenBank = z.ctl.screenBank
  latch : z'.ctl.port7ffd = z.ctl.port7ffd
  panicked : z'.ctl.panicked = z.ctl.panicked
  map : z'.ctl.mem.map = z.ctl.mem.map
  rom : z'.ctl.mem.rom = z.ctl.mem.rom
  kbd : z'.kbd = z.kbd
  earIn : z'.earIn = z.earIn
  border : z'.border = z.border
  ear : z'.ear = z.ear
  mic : z'.mic = z.mic
  ayReg : z'.ayReg = z.ayReg
  ayRegs : z'.ayRegs = z.ayRegs

/-- `Kept` is reflexive -/
theorem Kept.refl (z : ZX) : Kept z z := ⟨rfl, rfl, rfl, rfl, rfl, rfl, rfl, rfl, rfl, rfl, rfl, rfl, rfl, rfl⟩

/-- `Kept` composes -/
theorem Kept.trans {a b c : ZX} (h1 : Kept a b) (h2 : Kept b c) : Kept a c :=
  ⟨h2.kind.trans h1.kind, h2.pagingEnabled.trans h1.pagingEnabled, h2.screenBank.trans h1.screenBank,
   h2.latch.trans h1.latch, h2.panicked.trans h1.panicked, h2.map.trans h1.map, h2.rom.trans h1.rom,
   h2.kbd.trans h1.kbd, h2.earIn.trans h1.earIn, h2.border.trans h1.border, h2.ear.trans h1.ear,
   h2.mic.trans h1.mic, h2.ayReg.trans h1.ayReg, h2.ayRegs.trans h1.ayRegs⟩

/-- a wait changes only the two clock fields of the controller -/
theorem ctl_waitInternal_shape (c : Ctl) (k : Nat) :
    ∃ f p, c.waitInternal k = { c with frameClocks := f, passedFrames := p } := by
  unfold Ctl.waitInternal
  split
  · exact ⟨_, _, rfl⟩
  · exact ⟨_, c.passedFrames, rfl⟩

/-- a memory-side cycle (contention + clocks) changes only the two clock fields -/
theorem ctl_waitMreq_shape (c : Ctl) (a : BitVec 16) (k : Nat) :
    ∃ f p, c.waitMreq a k = { c with frameClocks := f, passedFrames := p } := by
  unfold Ctl.waitMreq Ctl.doContention
  split
  · obtain ⟨f1, p1, h1⟩ := ctl_waitInternal_shape c (contentionClocks c.kind c.frameClocks)
    obtain ⟨f2, p2, h2⟩ := ctl_waitInternal_shape (c.waitInternal (contentionClocks c.kind c.frameClocks)) k
    rw [h2, h1]
    exact ⟨f2, p2, rfl⟩
  · exact ctl_waitInternal_shape c k

/-- a memory-side cycle touches only clock and log -/
theorem kept_waitMreq (a : BitVec 16) (k : Nat) (z : ZX) : Kept z (Bus.waitMreq a k z) := by
  obtain ⟨f, p, h⟩ := ctl_waitMreq_shape z.ctl a k
  have e : (Bus.waitMreq a k z : ZX) =
      { z with ctl := z.ctl.waitMreq a k, tlog := (z.ctl.port7ffd, .mem a k) :: z.tlog } := rfl
  rw [e, h]
  exact ⟨rfl, rfl, rfl, rfl, rfl, rfl, rfl, rfl, rfl, rfl, rfl, rfl, rfl, rfl⟩

/-- address-less clocks touch only clock and log -/
theorem kept_waitInternal (k : Nat) (z : ZX) : Kept z (Bus.waitInternal k z) := by
  obtain ⟨f, p, h⟩ := ctl_waitInternal_shape z.ctl k
  have e : (Bus.waitInternal k z : ZX) =
      { z with ctl := z.ctl.waitInternal k, tlog := (z.ctl.port7ffd, .plain k) :: z.tlog } := rfl
  rw [e, h]
  exact ⟨rfl, rfl, rfl, rfl, rfl, rfl, rfl, rfl, rfl, rfl, rfl, rfl, rfl, rfl⟩

/-- a store touches RAM contents only (map and ROM stay) -/
theorem kept_writeInternal (a : BitVec 16) (v : BitVec 8) (z : ZX) : Kept z (Bus.writeInternal a v z) :=
  ⟨rfl, rfl, rfl, rfl, rfl, write_map _ _ _, write_romdata _ _ _, rfl, rfl, rfl, rfl, rfl, rfl, rfl⟩

/-- a timed read touches only clock and log -/
theorem kept_read (a : BitVec 16) (k : Nat) (z : ZX) : Kept z (read a k z).2 := kept_waitMreq a k z

/-- a timed store touches only clock, log and RAM contents -/
theorem kept_write (a : BitVec 16) (v : BitVec 8) (k : Nat) (z : ZX) : Kept z (write a v k z) :=
  (kept_waitMreq a k z).trans (kept_writeInternal a v _)

/-- a word read touches only clock and log -/
theorem kept_readWord (a : BitVec 16) (k : Nat) (z : ZX) : Kept z (readWord a k z).2 :=
  (kept_read a k z).trans (kept_read (a + 1) k _)

/-- a push touches only clock, log and RAM contents -/
theorem kept_push16 (w : BitVec 16) (k : Nat) (s : Cpu) (z : ZX) : Kept z (push16 w k s z).2 :=
  (kept_write _ _ k z).trans (kept_write _ _ k _)

/-- a pop touches only clock and log -/
theorem kept_pop16 (k : Nat) (s : Cpu) (z : ZX) : Kept z (pop16 k s z).2.2 :=
  (kept_read _ k z).trans (kept_read _ k _)

/-- the HALT line notification does nothing on the machine model -/
theorem halt_if (s : Cpu) (z : ZX) : (if s.halted = true then Bus.halt false z else z) = z := by
  split <;> rfl

/-! ## What an accepted interrupt does to the machine -/

/-- the acknowledge sequence on the machine: CPU state and memory -/
theorem acceptInt_zx (s : Cpu) (z : ZX) :
    let m1 := pushed z.ctl.mem s.sp (Spec.returnAddress s)
    let va := mk16 s.i 0xFF
    (acceptInt s z).1 =
      entered s (if s.im = 2 then mk16 (m1.read (va + 1)) (m1.read va) else 0x0038) ∧
    (acceptInt s z).2.ctl.mem = m1 ∧ Kept z (acceptInt s z).2 := by
  intro m1 va
  have hk : Kept z (acceptInt s z).2 := by
    rw [C02.int_effects]
    simp only [halt_if, readInterrupt_eq]
    have hp : Kept z (write (s.sp - 2) (lo (Spec.returnAddress s)) 3
        (write (s.sp - 1) (hi (Spec.returnAddress s)) 3 z)) := (kept_write _ _ 3 z).trans (kept_write _ _ 3 _)
    split
    · exact (hp.trans (kept_readWord _ 3 _)).trans (kept_waitInternal 7 _)
    · exact hp.trans (kept_waitInternal 7 _)
  refine ⟨?_, ?_, hk⟩
  all_goals
    rw [C02.int_effects]
    simp only [halt_if]
    have hw : (write (s.sp - 2) (lo (Spec.returnAddress s)) 3
        (write (s.sp - 1) (hi (Spec.returnAddress s)) 3 z)).ctl.mem = m1 := by
      rw [write_mem, write_mem]; rfl
    simp only [readInterrupt_eq, readWord_val, readWord_mem, hw, Spec.intTarget, entered]
  · by_cases hm : s.im = 2 <;> simp only [hm, if_true, if_false] <;> rfl
  · by_cases hm : s.im = 2 <;> simp only [hm, if_true, if_false, waitInternal_mem, readWord_mem, hw]

/-- the timed bus operations of an IM 2 acknowledge, oldest first: two 3-T stores, two 3-T vector reads,
seven address-less T-states; `l` = the paging latch in force -/
def im2Cycles (l : BitVec 8) (s : Cpu) : List (BitVec 8 × TOp) :=
  [(l, .mem (s.sp - 1) 3), (l, .mem (s.sp - 2) 3), (l, .mem (mk16 s.i 0xFF) 3),
   (l, .mem (mk16 s.i 0xFF + 1) 3), (l, .plain 7)]

/-- … of an IM 0/1 acknowledge -/
def im1Cycles (l : BitVec 8) (s : Cpu) : List (BitVec 8 × TOp) :=
  [(l, .mem (s.sp - 1) 3), (l, .mem (s.sp - 2) 3), (l, .plain 7)]

/-- the documented IM 2 acknowledge cycles (Spec.docInt2) in their timed view are `im2Cycles` -/
theorem im2Cycles_eq (l : BitVec 8) (s : Cpu) :
    timedOf l l (Spec.docInt2 s (mk16 s.i 0xFF)) = im2Cycles l s := by
  simp [Spec.docInt2, Spec.pushCycles, Spec.wr3, Spec.rd3, timedOf, im2Cycles]

/-- the documented IM 0/1 acknowledge cycles (Spec.docInt01) in their timed view are `im1Cycles` -/
theorem im1Cycles_eq (l : BitVec 8) (s : Cpu) : timedOf l l (Spec.docInt01 s) = im1Cycles l s := by
  simp [Spec.docInt01, Spec.pushCycles, Spec.wr3, timedOf, im1Cycles]

/-- the table address `I*256 + 0xFF` and its successor modulo 65536 -/
theorem vector_address (i : BitVec 8) :
    (mk16 i 0xFF).toNat = i.toNat * 256 + 255 ∧
    (mk16 i 0xFF + 1).toNat = ((mk16 i 0xFF).toNat + 1) % 65536 := by
  refine ⟨?_, ?_⟩
  · revert i; apply Impl.forall_bv8; decide +kernel
  · rw [BitVec.toNat_add]; rfl

/-- at an accepting boundary the interrupt check is the acknowledge sequence -/
theorem check_accepts (s : Cpu) (z : ZX) (hd : decision s z = .int) : checkInterrupt s z = acceptInt s z := by
  rw [checkInterrupt_eq_decision, hd]

/-- **Memory after the pushes, read through the map.** The byte the CPU reads at `b` after the two stores
of a push of `w` with stack pointer `sp`: the low byte of `w` if `b` designates the RAM cell of `sp-2`, else
the high byte if it designates the RAM cell of `sp-1`, else what was there; a store whose address lies in
the ROM window is dropped. -/
theorem pushed_read (m : Mem) (sp w b : BitVec 16) :
    (pushed m sp w).read b =
      if inRam m (sp - 2) = true ∧ m.pagedAddress (sp - 2) = m.pagedAddress b then lo w
      else if inRam m (sp - 1) = true ∧ m.pagedAddress (sp - 1) = m.pagedAddress b then hi w
      else m.read b := by
  unfold pushed
  rw [read_write, write_inRam, write_paged, write_paged, read_write]

/-- a push aimed entirely at ROM changes nothing -/
theorem pushed_into_rom (m : Mem) (sp w : BitVec 16) (h1 : inRam m (sp - 1) = false)
    (h2 : inRam m (sp - 2) = false) : pushed m sp w = m := by
  unfold pushed
  rw [write_rom m _ _ h1, write_rom m _ _ h2]

/-- a read from the ROM window after a push returns the ROM byte -/
theorem pushed_read_rom (m : Mem) (sp w b : BitVec 16) (h : inRam m b = false) :
    (pushed m sp w).read b = m.read b := by
  unfold pushed
  rw [read_write_rom _ _ _ _ (by rw [write_inRam]; exact h), read_write_rom _ _ _ _ h]

/-- **IM 2 on the machine.** Let an `emulate` on the composed machine accept a maskable interrupt in
IM 2 (`decision s z = .int`: IFF1 set, not directly behind EI/DI/a prefix, frame clock < 32). Then the
state in which the service routine starts (`checkInterrupt s z`) is:
* memory = the old memory with the high byte of the return address stored at SP-1 and then its low byte at
  SP-2, both *through the map as paged at that moment* (`pushed`, `pushed_read`: a store aimed at ROM changes
  nothing); the return address is PC, or PC+1 if the CPU was halted;
* PC = MEMPTR = the word whose low byte is read at `I*256 + 0xFF` (0xFF = the byte the machine puts on the
  bus) and whose high byte is read at that address **plus one modulo 65536**, both through the same map, from
  the memory the pushes left; SP-2, IFF1 = IFF2 = 0, halted cleared, R+1 (7-bit), Q = 0, every other
  register unchanged (`entered`);
* paging latch, lock, map, ROM contents and every device latch unchanged (`Kept`);
* the same `emulate` then runs the first instruction of the routine from exactly that state;
* in a `Good` state (any state a program can reach from reset) the acknowledge takes 19 T-states plus the
  ULA delays of exactly its five timed operations (`im2Cycles`), each looked up when it starts. -/
theorem im2_vector_on_machine (s : Cpu) (z : ZX) (hd : decision s z = .int) (him : s.im = 2) :
    let ret := if s.halted then s.pc + 1 else s.pc
    let m1 := pushed z.ctl.mem s.sp ret
    let va := mk16 s.i 0xFF
    let target := mk16 (m1.read (va + 1)) (m1.read va)
    (checkInterrupt s z).1 = entered s target ∧
    (checkInterrupt s z).2.ctl.mem = m1 ∧
    Kept z (checkInterrupt s z).2 ∧
    emulate .hw (s, z) = execOne .hw (entered s target) (checkInterrupt s z).2 ∧
    va.toNat = s.i.toNat * 256 + 255 ∧ (va + 1).toNat = (va.toNat + 1) % 65536 ∧
    (C04Sys.Good z.ctl →
      total (checkInterrupt s z).2.ctl =
        total z.ctl + 19 + C04Sys.delaysAlong z.ctl.kind (total z.ctl) (im2Cycles z.ctl.port7ffd s) ∧
      C04Sys.Good (checkInterrupt s z).2.ctl) := by
  intro ret m1 va target
  obtain ⟨h1, h2, h3⟩ := acceptInt_zx s z
  have hc := check_accepts s z hd
  simp only [him, if_true] at h1
  have hcpu : (checkInterrupt s z).1 = entered s target := by rw [hc]; exact h1
  refine ⟨hcpu, by rw [hc]; exact h2, by rw [hc]; exact h3, ?_, (vector_address s.i).1,
    (vector_address s.i).2, fun hg => ?_⟩
  · rw [emulate_zx, hcpu]
  · have ht := C03Sys.interrupt_step_time s z hg hd
    simp only [him, if_true, im2Cycles_eq] at ht
    exact ht

/-- **IM 2 with the table at the very top of memory** (`I = 0xFF`, as the Spectrum's 0xFF bus byte makes
programs do): the low byte of the routine address is read at 0xFFFF, the high byte at **0x0000** — the ROM
paged in at that moment (`p`: ROM 0 on the 48K, the ROM selected by bit 4 of the latch on the 128K) —
never at 0x10000 or 0xFF00; no push can alter that ROM byte. -/
theorem im2_vector_top_of_memory (s : Cpu) (z : ZX) (hd : decision s z = .int) (him : s.im = 2)
    (hi : s.i = 0xFF) (p : Nat) (hrom : z.ctl.mem.map 0 = .rom p) :
    let m1 := pushed z.ctl.mem s.sp (if s.halted then s.pc + 1 else s.pc)
    (checkInterrupt s z).1.pc = mk16 (z.ctl.mem.rom p 0) (m1.read 0xFFFF) := by
  intro m1
  have h := (im2_vector_on_machine s z hd him).1
  rw [h, hi]
  have e1 : mk16 (0xFF : BitVec 8) 0xFF = 0xFFFF := by decide
  have e2 : (0xFFFF : BitVec 16) + 1 = 0 := by decide
  have hin : inRam z.ctl.mem 0 = false := inRam_of_rom _ _ p hrom
  show mk16 _ _ = _
  rw [e1, e2, pushed_read_rom _ _ _ _ hin, read_rom _ _ p hrom]
  rfl

/-- in every state the contention/paging invariant `Good` describes (every state a program reaches from
reset) the lowest window shows a ROM: ROM 0 on the 48K, the one selected by latch bit 4 on the 128K -/
theorem good_slot0_rom (c : Ctl) (h : C04Sys.MapOk c) :
    c.mem.map 0 = .rom (if c.kind = .k48 then 0 else if c.port7ffd &&& 0x10 = 0 then 0 else 1) := by
  rcases h with ⟨hk, hm, _⟩ | hi
  · rw [hm, hk]; rfl
  · rw [hi.slot0, hi.kind]; rfl

/-- **IM 0 / IM 1 on the machine** (any mode other than 2): the same pushes through the map, PC = MEMPTR =
0x0038, the same register effects, nothing else touched; 13 T-states plus the ULA delays of the two stores
(`im1Cycles`). -/
theorem im01_on_machine (s : Cpu) (z : ZX) (hd : decision s z = .int) (him : s.im ≠ 2) :
    let ret := if s.halted then s.pc + 1 else s.pc
    let m1 := pushed z.ctl.mem s.sp ret
    (checkInterrupt s z).1 = entered s 0x0038 ∧
    (checkInterrupt s z).2.ctl.mem = m1 ∧
    Kept z (checkInterrupt s z).2 ∧
    emulate .hw (s, z) = execOne .hw (entered s 0x0038) (checkInterrupt s z).2 ∧
    (C04Sys.Good z.ctl →
      total (checkInterrupt s z).2.ctl =
        total z.ctl + 13 + C04Sys.delaysAlong z.ctl.kind (total z.ctl) (im1Cycles z.ctl.port7ffd s) ∧
      C04Sys.Good (checkInterrupt s z).2.ctl) := by
  intro ret m1
  obtain ⟨h1, h2, h3⟩ := acceptInt_zx s z
  have hc := check_accepts s z hd
  simp only [him, if_false] at h1
  have hcpu : (checkInterrupt s z).1 = entered s 0x0038 := by rw [hc]; exact h1
  refine ⟨hcpu, by rw [hc]; exact h2, by rw [hc]; exact h3, ?_, fun hg => ?_⟩
  · rw [emulate_zx, hcpu]
  · have ht := C03Sys.interrupt_step_time s z hg hd
    simp only [him, if_false, im1Cycles_eq] at ht
    exact ht

/-- **IM 1 on the machine**: RST 38h — see `im01_on_machine`. -/
theorem im1_on_machine (s : Cpu) (z : ZX) (hd : decision s z = .int) (him : s.im = 1) :
    let m1 := pushed z.ctl.mem s.sp (if s.halted then s.pc + 1 else s.pc)
    (checkInterrupt s z).1 = entered s 0x0038 ∧
    (checkInterrupt s z).2.ctl.mem = m1 ∧
    Kept z (checkInterrupt s z).2 ∧
    emulate .hw (s, z) = execOne .hw (entered s 0x0038) (checkInterrupt s z).2 ∧
    (C04Sys.Good z.ctl →
      total (checkInterrupt s z).2.ctl =
        total z.ctl + 13 + C04Sys.delaysAlong z.ctl.kind (total z.ctl) (im1Cycles z.ctl.port7ffd s) ∧
      C04Sys.Good (checkInterrupt s z).2.ctl) :=
  im01_on_machine s z hd (by omega)

/-- **IM 0 on the machine**: the byte the machine puts on the bus during the acknowledge is 0xFF, which is
the opcode of RST 38h; the entry is that of IM 1 (PC = 0x0038 = the RST target, same pushes, 13 T-states
plus delays) — see `im01_on_machine`. -/
theorem im0_on_machine (s : Cpu) (z : ZX) (hd : decision s z = .int) (him : s.im = 0) :
    let m1 := pushed z.ctl.mem s.sp (if s.halted then s.pc + 1 else s.pc)
    (Bus.readInterrupt z).1 = 0xFF ∧ decode 0xFF = .rst 7 ∧
    (zext (((7 : BitVec 3).setWidth 8) <<< 3) : BitVec 16) = 0x0038 ∧
    (checkInterrupt s z).1 = entered s 0x0038 ∧
    (checkInterrupt s z).2.ctl.mem = m1 ∧
    Kept z (checkInterrupt s z).2 ∧
    emulate .hw (s, z) = execOne .hw (entered s 0x0038) (checkInterrupt s z).2 ∧
    (C04Sys.Good z.ctl →
      total (checkInterrupt s z).2.ctl =
        total z.ctl + 13 + C04Sys.delaysAlong z.ctl.kind (total z.ctl) (im1Cycles z.ctl.port7ffd s) ∧
      C04Sys.Good (checkInterrupt s z).2.ctl) :=
  ⟨rfl, by decide, by decide, im01_on_machine s z hd (by omega)⟩

/-! ## When a boundary of a run accepts -/

/-- the contention/paging invariant (hence "frame clock inside the frame") and the machine kind are kept
by every run -/
theorem good_run (n : Nat) (s : Cpu) (z : ZX) (hg : C04Sys.Good z.ctl) :
    C04Sys.Good (Z80.run .hw n (s, z)).2.ctl ∧ (Z80.run .hw n (s, z)).2.ctl.kind = z.ctl.kind := by
  obtain ⟨d, _, h⟩ := C04Sys.timed_closed.run .hw n (s, z)
  exact ⟨(h hg).1, (h hg).2.1⟩

/-- the decision of a boundary on the machine, as a function of IFF1, the EI/DI/prefix hold-off and the
frame clock: INT exactly if enabled, not held off and within the first 32 T-states of the frame; NMI never -/
theorem decision_on_machine (s : Cpu) (z : ZX) (hin : z.ctl.frameClocks < z.ctl.kind.specs.clocksFrame) :
    decision s z =
      if s.iff1 = true ∧ s.skipInt = false ∧ z.ctl.frameClocks < 32 then .int else .none := by
  rw [decision_zx]
  have hw := C05.int_window z.ctl hin
  by_cases h : z.ctl.frameClocks < 32
  · have : z.ctl.intActive = true := hw.2 h
    cases s.skipInt <;> cases s.iff1 <;> simp [this, h]
  · have : z.ctl.intActive = false := by
      cases hx : z.ctl.intActive
      · rfl
      · exact absurd (hw.1 hx) h
    cases s.skipInt <;> cases s.iff1 <;> simp [this, h]

/-- the interrupt check never touches a pending prefix -/
theorem checkInterrupt_ap {β : Type} [Bus β] (s : Cpu) (b : β) :
    (checkInterrupt s b).1.activePrefix = s.activePrefix := by
  rw [checkInterrupt_eq_decision]
  cases decision s b
  · rfl
  · simp only []; rw [C02.int_effects]
  · simp only []; rw [C02.nmi_effects]

/-- **When a boundary accepts, for every program.** Run any program for any number of `emulate` calls on
the composed machine, from any state the contention/paging invariant describes (e.g. reset) and without a
pending prefix. At the boundary reached:
* a maskable interrupt is accepted **iff** IFF1 is set, the previous instruction was neither EI nor DI nor a
  parked DD/FD/ED prefix, and the frame clock is below 32;
* otherwise nothing is accepted — the machine never raises NMI;
* if it accepts, no prefix is pending (the property's `mayAcceptInt`); and while a prefix is pending nothing
  would be accepted whatever the machine state were (`C02.no_accept_inside_prefix_chain` on the machine). -/
theorem accept_iff_on_machine (n : Nat) (s : Cpu) (z : ZX) (hg : C04Sys.Good z.ctl)
    (hap : s.activePrefix = .none) :
    let r := Z80.run .hw n (s, z)
    (decision r.1 r.2 = .int ↔ r.1.iff1 = true ∧ r.1.skipInt = false ∧ r.2.ctl.frameClocks < 32) ∧
    (decision r.1 r.2 ≠ .int → decision r.1 r.2 = .none) ∧
    (decision r.1 r.2 = .int → Spec.mayAcceptInt r.1 = true ∧ r.1.activePrefix = .none) ∧
    (r.1.activePrefix ≠ .none → ∀ z' : ZX, decision r.1 z' = .none) := by
  intro r
  have hg' := (good_run n s z hg).1
  have hd := decision_on_machine r.1 r.2 hg'.inFrame
  have hr : C02.Reach .hw (r.1, r.2) := reach_run .hw n (s, z) (C02.Reach.init s z hap)
  refine ⟨?_, ?_, ?_, ?_⟩
  · rw [hd]
    by_cases h : r.1.iff1 = true ∧ r.1.skipInt = false ∧ r.2.ctl.frameClocks < 32
    · simp [h]
    · simp [h]
  · intro hne
    rw [hd] at hne ⊢
    by_cases h : r.1.iff1 = true ∧ r.1.skipInt = false ∧ r.2.ctl.frameClocks < 32
    · simp [h] at hne
    · simp [h]
  · intro h
    have hm := C02.int_accept_implies_spec .hw r.1 r.2 hr r.2 h
    refine ⟨hm, ?_⟩
    unfold Spec.mayAcceptInt at hm
    simp at hm
    exact hm.2
  · intro hp z'
    exact C02.no_accept_inside_prefix_chain .hw r.1 r.2 hr hp z'

/-- … in particular for every program started from reset, on either machine -/
theorem accept_iff_from_reset (k : Kind) (ke mo : Bool) (n : Nat) (s : Cpu) (hap : s.activePrefix = .none) :
    let r := Z80.run .hw n (s, ZX.new k ke mo)
    (decision r.1 r.2 = .int ↔ r.1.iff1 = true ∧ r.1.skipInt = false ∧ r.2.ctl.frameClocks < 32) ∧
    (decision r.1 r.2 ≠ .int → decision r.1 r.2 = .none) := by
  have h := accept_iff_on_machine n s (ZX.new k ke mo) (by have := C04Sys.good_new k; cases k <;> exact this) hap
  exact ⟨h.1, h.2.1⟩

/-- **No acceptance directly after EI or DI, for programs in RAM or ROM.** If the instruction this
`emulate` runs — the byte the map shows at PC once the interrupt check is done, wherever it lies — is EI
(0xFB) or DI (0xF3), then the next boundary accepts nothing, whatever the frame clock says then. -/
theorem no_int_after_ei_di_on_machine (s : Cpu) (z : ZX) (hap : s.activePrefix = .none)
    (hop : (checkInterrupt s z).2.ctl.mem.read (checkInterrupt s z).1.pc = 0xF3 ∨
           (checkInterrupt s z).2.ctl.mem.read (checkInterrupt s z).1.pc = 0xFB) (z' : ZX) :
    decision (emulate .hw (s, z)).1 z' = .none ∧
    decision (emulate .hw (s, z)).1 (emulate .hw (s, z)).2 = .none := by
  have key : ∀ z'' : ZX, decision (emulate .hw (s, z)).1 z'' = .none := by
    intro z''
    refine C02.no_int_after_ei_di .hw s z (Bus.waitMreq (checkInterrupt s z).1.pc 4 (checkInterrupt s z).2)
      ((checkInterrupt s z).2.ctl.mem.read (checkInterrupt s z).1.pc)
      hop ((checkInterrupt_ap s z).trans hap) ?_ z''
    rw [← read_val _ 4]
    rfl
  exact ⟨key z', key _⟩

/-! ## How often: whole frames between acceptances; `EI; HALT` is served exactly once per frame -/

/-- total emulated time is monotone along a run -/
theorem total_run_mono (a b : Nat) (s : Cpu) (z : ZX) (h : a ≤ b) :
    total (Z80.run .hw a (s, z)).2.ctl ≤ total (Z80.run .hw b (s, z)).2.ctl := by
  obtain ⟨d, rfl⟩ := Nat.le.dest h
  rw [run_add]
  exact C05Sys.program_time_forward d (Z80.run .hw a (s, z)).1 (Z80.run .hw a (s, z)).2

/-- frame counts are ordered like total times -/
theorem frames_le (L p q f g : Nat) (hg : g < L) (h : p * L + f ≤ q * L + g) : p ≤ q := by
  rcases Nat.lt_or_ge q p with hlt | hge
  · exfalso
    have : (q + 1) * L ≤ p * L := Nat.mul_le_mul_right _ hlt
    rw [Nat.add_mul, Nat.one_mul] at this
    omega
  · exact hge

/-- two times inside INT windows are a whole number of frames apart, ± 32 -/
theorem frames_between (L fa fb pa pb : Nat) (hL : 69888 ≤ L) (hfa : fa < 32) (hfb : fb < 32)
    (hle : pa * L + fa ≤ pb * L + fb) :
    pa ≤ pb ∧ (pa * L + fa) + (pb - pa) * L < (pb * L + fb) + 32 ∧
    pb * L + fb < (pa * L + fa) + (pb - pa) * L + 32 := by
  have h1 : pa ≤ pb := frames_le L pa pb fa fb (by omega) hle
  obtain ⟨d, rfl⟩ := Nat.le.dest h1
  rw [Nat.add_sub_cancel_left, Nat.add_mul]
  omega

/-- from beyond the INT window of one frame to inside an INT window less than 10 T-states past the end
of that frame: exactly one frame start -/
theorem next_frame (L pk fk pj fj : Nat) (hfk : 32 ≤ fk) (hfkL : fk < L) (hfj : fj < 32)
    (hle : pk * L + fk ≤ pj * L + fj) (hlt : pj * L + fj < (pk + 1) * L + 10) : pj = pk + 1 ∧ fj < 10 := by
  rcases Nat.lt_trichotomy pj (pk + 1) with h | h | h
  · exfalso
    have : pj * L ≤ pk * L := Nat.mul_le_mul_right _ (by omega)
    omega
  · subst h; exact ⟨rfl, by omega⟩
  · exfalso
    have : (pk + 2) * L ≤ pj * L := Nat.mul_le_mul_right _ (by omega)
    rw [Nat.add_mul] at this hlt
    omega

/-- **Acceptances are whole frames apart, for every program.** Take any run on the composed machine from
a `Good` state and any two of its boundaries that accept the frame interrupt. The number of frame starts
between them is the difference `d` of the frame counters, and the time between them is `d` frame lengths
give or take less than 32 T-states. So: two acceptances in the same frame are less than 32 T-states apart,
and a service routine that keeps interrupts off (or simply lasts) for 32 T-states or more is not re-entered
before at least one frame start has passed. -/
theorem acceptances_whole_frames_apart (n m : Nat) (s : Cpu) (z : ZX) (hg : C04Sys.Good z.ctl)
    (h1 : decision (Z80.run .hw n (s, z)).1 (Z80.run .hw n (s, z)).2 = .int)
    (h2 : decision (Z80.run .hw (n + m) (s, z)).1 (Z80.run .hw (n + m) (s, z)).2 = .int) :
    let a := (Z80.run .hw n (s, z)).2.ctl
    let b := (Z80.run .hw (n + m) (s, z)).2.ctl
    let L := z.ctl.kind.specs.clocksFrame
    a.passedFrames ≤ b.passedFrames ∧
    total a + (b.passedFrames - a.passedFrames) * L < total b + 32 ∧
    total b < total a + (b.passedFrames - a.passedFrames) * L + 32 ∧
    (b.passedFrames = a.passedFrames → total b - total a < 32) ∧
    (32 ≤ total b - total a → a.passedFrames < b.passedFrames) := by
  intro a b L
  obtain ⟨ga, ka⟩ := good_run n s z hg
  obtain ⟨gb, kb⟩ := good_run (n + m) s z hg
  have fa : a.frameClocks < 32 := (C05Sys.accept_only_in_int_window _ _ ga.inFrame h1).1
  have fb : b.frameClocks < 32 := (C05Sys.accept_only_in_int_window _ _ gb.inFrame h2).1
  have hmono := total_run_mono n (n + m) s z (by omega)
  have hL := C04Sys.frameLen_big z.ctl.kind
  have ta : total a = a.passedFrames * L + a.frameClocks := by unfold total; rw [ka]
  have tb : total b = b.passedFrames * L + b.frameClocks := by unfold total; rw [kb]
  have hmono' : total a ≤ total b := hmono
  rw [ta, tb] at hmono' ⊢
  obtain ⟨x1, x2, x3⟩ := frames_between L _ _ _ _ hL fa fb hmono'
  refine ⟨x1, x2, x3, ?_, ?_⟩
  · intro he; rw [he] at x3 ⊢; simp only [Nat.sub_self, Nat.zero_mul] at x3; omega
  · intro h32
    rcases Nat.lt_or_ge a.passedFrames b.passedFrames with h | h
    · exact h
    · exfalso
      have he : b.passedFrames = a.passedFrames := by omega
      rw [he] at x3 h32; simp only [Nat.sub_self, Nat.zero_mul] at x3; omega

/-- a CPU waiting in HALT stays exactly so while its boundaries accept nothing -/
theorem waiting_until_accept (s : Cpu) (z : ZX) (w : C05Halt.Waiting s z) (n : Nat)
    (hq : ∀ m, m < n → decision (Z80.run .hw m (s, z)).1 (Z80.run .hw m (s, z)).2 = .none) :
    C05Halt.Waiting (Z80.run .hw n (s, z)).1 (Z80.run .hw n (s, z)).2 ∧ (Z80.run .hw n (s, z)).1.pc = s.pc := by
  induction n with
  | zero => exact ⟨w, rfl⟩
  | succ n ih =>
    obtain ⟨wn, hpc⟩ := ih (fun m hm => hq m (by omega))
    have hd := hq n (by omega)
    rw [C05Halt.decision_waiting wn] at hd
    have h32 : 32 ≤ (Z80.run .hw n (s, z)).2.ctl.frameClocks := by
      rcases Nat.lt_or_ge (Z80.run .hw n (s, z)).2.ctl.frameClocks 32 with h | h
      · simp [h] at hd
      · exact h
    obtain ⟨w1, hpc1, _, _⟩ := C05Halt.waiting_step wn h32
    rw [run_succ']
    exact ⟨w1, hpc1.trans hpc⟩

/-- **HALT wakes at the *first* accepting boundary, and that is the next frame interrupt.** As
`C05Halt.halt_wakes`, with the boundaries in between: from a waiting state there is an `n` such that the
boundaries 0 … n-1 accept nothing (the CPU keeps re-fetching the HALT), boundary `n` accepts, still waiting
at the same HALT, less than 10 T-states after the end of the frame in progress (or at once, if the INT
window is still open). -/
theorem halt_wakes_first (s : Cpu) (z : ZX) (w : C05Halt.Waiting s z) :
    ∃ n, decision (Z80.run .hw n (s, z)).1 (Z80.run .hw n (s, z)).2 = .int ∧
      (∀ m, m < n → decision (Z80.run .hw m (s, z)).1 (Z80.run .hw m (s, z)).2 = .none) ∧
      C05Halt.Waiting (Z80.run .hw n (s, z)).1 (Z80.run .hw n (s, z)).2 ∧
      (Z80.run .hw n (s, z)).1.pc = s.pc ∧
      total (Z80.run .hw n (s, z)).2.ctl < max (total z.ctl + 1) (C05Halt.frameEnd z + 10) := by
  obtain ⟨n0, h0, _, _, hb⟩ := C05Halt.halt_wakes s z w
  obtain ⟨n, hle, hn, hmin⟩ :=
    least (fun m => decision (Z80.run .hw m (s, z)).1 (Z80.run .hw m (s, z)).2 = .int) n0 h0
  have hq : ∀ m, m < n → decision (Z80.run .hw m (s, z)).1 (Z80.run .hw m (s, z)).2 = .none := by
    intro m hm
    have h1 := hmin m hm
    have h2 := C05Sys.never_nmi (Z80.run .hw m (s, z)).1 (Z80.run .hw m (s, z)).2
    cases hd : decision (Z80.run .hw m (s, z)).1 (Z80.run .hw m (s, z)).2
    · rfl
    · exact absurd hd h1
    · exact absurd hd h2
  obtain ⟨wn, hpc⟩ := waiting_until_accept s z w n hq
  have hmono := total_run_mono n n0 s z hle
  exact ⟨n, hn, hq, wn, hpc, by omega⟩

/-- **`EI; HALT` is served exactly once per frame.** The idiom: the program waits in HALT with interrupts
enabled; the service routine (at 0x0038 in IM 0/1, at the IM 2 vector) re-enables interrupts no sooner than
32 T-states after it was entered (`…; EI; RET`/`RETI`), and the program is back in `EI; HALT` before the frame
ends. Formally, for ANY machine state and ANY code (nothing is assumed about the routine's instructions):
* boundary 0 accepts the frame interrupt (`hacc`), in a `Good` state (every state reachable from reset);
* `k > 0` boundaries later the CPU waits in HALT again with interrupts enabled (`hw`), in the same frame
  (`hsame`);
* at no boundary 1 … k are interrupts effectively enabled (IFF1 set and not directly behind the EI) earlier
  than 32 T-states after the acceptance (`hlate` — "the handler is longer than the INT pulse").
Then there is a boundary `j = k + n` such that
* boundary `j` accepts, and **no boundary strictly between 0 and `j` accepts anything** — the two
  acceptances are consecutive;
* **exactly one frame start lies between them**: the frame counter at `j` is the one at 0 plus one, and `j`
  lies less than 10 T-states after that frame start (the HALT loop's 4-T turns plus at most 6 T of ULA delay);
* the time between the two acceptances is one frame length, −32 … +10 T-states;
* at `j` the CPU is still waiting at the same HALT (so the return address pushed is the one behind it).
The conclusion re-establishes the first hypothesis, so the statement chains over any number of frames. -/
theorem ei_halt_once_per_frame (s : Cpu) (z : ZX) (k : Nat) (hg : C04Sys.Good z.ctl)
    (hacc : decision s z = .int) (hk : 0 < k)
    (hw : C05Halt.Waiting (Z80.run .hw k (s, z)).1 (Z80.run .hw k (s, z)).2)
    (hsame : (Z80.run .hw k (s, z)).2.ctl.passedFrames = z.ctl.passedFrames)
    (hlate : ∀ m, 0 < m → m ≤ k → (Z80.run .hw m (s, z)).1.iff1 = true →
      (Z80.run .hw m (s, z)).1.skipInt = false → 32 ≤ total (Z80.run .hw m (s, z)).2.ctl - total z.ctl) :
    ∃ n,
      decision (Z80.run .hw (k + n) (s, z)).1 (Z80.run .hw (k + n) (s, z)).2 = .int ∧
      (∀ m, 0 < m → m < k + n → decision (Z80.run .hw m (s, z)).1 (Z80.run .hw m (s, z)).2 = .none) ∧
      (Z80.run .hw (k + n) (s, z)).2.ctl.passedFrames = z.ctl.passedFrames + 1 ∧
      (Z80.run .hw (k + n) (s, z)).2.ctl.frameClocks < 10 ∧
      z.ctl.kind.specs.clocksFrame - 32 < total (Z80.run .hw (k + n) (s, z)).2.ctl - total z.ctl ∧
      total (Z80.run .hw (k + n) (s, z)).2.ctl - total z.ctl < z.ctl.kind.specs.clocksFrame + 10 ∧
      C05Halt.Waiting (Z80.run .hw (k + n) (s, z)).1 (Z80.run .hw (k + n) (s, z)).2 ∧
      (Z80.run .hw (k + n) (s, z)).1.pc = (Z80.run .hw k (s, z)).1.pc := by
  have hL := C04Sys.frameLen_big z.ctl.kind
  have f0 := (C05Sys.accept_only_in_int_window s z hg.inFrame hacc).1
  -- the state at k
  obtain ⟨gk, kk⟩ := good_run k s z hg
  have fkL := gk.inFrame; rw [kk] at fkL
  have tk : total (Z80.run .hw k (s, z)).2.ctl =
      z.ctl.passedFrames * z.ctl.kind.specs.clocksFrame + (Z80.run .hw k (s, z)).2.ctl.frameClocks := by
    unfold total; rw [kk, hsame]
  have t0 : total z.ctl = z.ctl.passedFrames * z.ctl.kind.specs.clocksFrame + z.ctl.frameClocks := rfl
  have hk32 : 32 ≤ (Z80.run .hw k (s, z)).2.ctl.frameClocks := by
    have := hlate k hk (Nat.le_refl k) hw.iff1 hw.noSkip
    rw [tk, t0] at this; omega
  -- quiet inside the routine
  have hquiet : ∀ m, 0 < m → m < k →
      decision (Z80.run .hw m (s, z)).1 (Z80.run .hw m (s, z)).2 = .none := by
    intro m hm0 hmk
    obtain ⟨gm, km⟩ := good_run m s z hg
    have fmL := gm.inFrame; rw [km] at fmL
    rw [decision_on_machine _ _ gm.inFrame]
    have hlo := total_run_mono 0 m s z (by omega)
    have hhi := total_run_mono m k s z (by omega)
    have tm : total (Z80.run .hw m (s, z)).2.ctl =
        (Z80.run .hw m (s, z)).2.ctl.passedFrames * z.ctl.kind.specs.clocksFrame +
          (Z80.run .hw m (s, z)).2.ctl.frameClocks := by unfold total; rw [km]
    have hlo' : total z.ctl ≤ total (Z80.run .hw m (s, z)).2.ctl := hlo
    rw [tm] at hhi hlo'; rw [tk] at hhi; rw [t0] at hlo'
    have p1 := frames_le _ _ _ _ _ fmL hlo'
    have p2 := frames_le _ _ _ _ _ fkL hhi
    have pe : (Z80.run .hw m (s, z)).2.ctl.passedFrames = z.ctl.passedFrames := by omega
    by_cases hc : (Z80.run .hw m (s, z)).1.iff1 = true ∧ (Z80.run .hw m (s, z)).1.skipInt = false ∧
        (Z80.run .hw m (s, z)).2.ctl.frameClocks < 32
    · exfalso
      have := hlate m hm0 (by omega) hc.1 hc.2.1
      rw [tm, t0, pe] at this
      omega
    · simp [hc]
  -- the HALT loop from k on
  obtain ⟨n, hn, hq, wn, hpc, hb⟩ := halt_wakes_first _ _ hw
  have hrun : ∀ m, Z80.run .hw m (Z80.run .hw k (s, z)) = Z80.run .hw (k + m) (s, z) :=
    fun m => (run_add .hw k m (s, z)).symm
  have eta : ((Z80.run .hw k (s, z)).1, (Z80.run .hw k (s, z)).2) = Z80.run .hw k (s, z) := rfl
  rw [eta] at hn hq wn hpc hb
  simp only [hrun] at hn hq wn hpc hb
  obtain ⟨gj, kj⟩ := good_run (k + n) s z hg
  have fj := (C05Sys.accept_only_in_int_window _ _ gj.inFrame hn).1
  have tj : total (Z80.run .hw (k + n) (s, z)).2.ctl =
      (Z80.run .hw (k + n) (s, z)).2.ctl.passedFrames * z.ctl.kind.specs.clocksFrame +
        (Z80.run .hw (k + n) (s, z)).2.ctl.frameClocks := by unfold total; rw [kj]
  have hmono := total_run_mono k (k + n) s z (by omega)
  have hfe : C05Halt.frameEnd (Z80.run .hw k (s, z)).2 =
      (z.ctl.passedFrames + 1) * z.ctl.kind.specs.clocksFrame := by
    unfold C05Halt.frameEnd; rw [kk, hsame]
  rw [hfe, tk] at hb
  rw [tk] at hmono
  rw [tj] at hb hmono
  have hb' : (Z80.run .hw (k + n) (s, z)).2.ctl.passedFrames * z.ctl.kind.specs.clocksFrame +
      (Z80.run .hw (k + n) (s, z)).2.ctl.frameClocks < (z.ctl.passedFrames + 1) * z.ctl.kind.specs.clocksFrame + 10 := by
    rw [Nat.add_mul, Nat.one_mul] at hb ⊢
    omega
  obtain ⟨pj, fj10⟩ := next_frame _ _ _ _ _ hk32 fkL fj hmono hb'
  refine ⟨n, hn, ?_, pj, fj10, ?_, ?_, wn, hpc⟩
  · intro m hm0 hmj
    rcases Nat.lt_or_ge m k with h | h
    · exact hquiet m hm0 h
    · obtain ⟨d, rfl⟩ := Nat.le.dest h
      exact hq d (by omega)
  · rw [tj, t0, pj, Nat.add_mul, Nat.one_mul]; omega
  · rw [tj, t0, pj, Nat.add_mul, Nat.one_mul]; omega

/-! ## RETN / RETI -/

/-- the CPU state behind a RETN/RETI (two opcode fetches: R+2; Q stepped): IFF1 := IFF2, SP+2, PC =
MEMPTR = the popped word, everything else as before -/
def returned (s : Cpu) (w : BitVec 16) : Cpu :=
  { s with r := incR (incR s.r), lastQ := s.q, q := 0, iff1 := s.iff2, sp := s.sp + 2, pc := w, memptr := w,
           activePrefix := .none }

/-- the timed bus operations of RETN/RETI, oldest first: two 4-T opcode fetches, two 3-T stack reads -/
def retnCycles (l : BitVec 8) (s : Cpu) : List (BitVec 8 × TOp) :=
  [(l, .mem s.pc 4), (l, .mem (s.pc + 1) 4), (l, .mem s.sp 3), (l, .mem (s.sp + 1) 3)]

/-- **RETN/RETI, the instruction itself, on the machine** — for any CPU and machine state in which the map
shows `ED op` at PC with `op` one of the eight encodings 45/4D/55/5D/65/6D/75/7D (so also for the
instruction an accepting `emulate` runs behind the acknowledge: `emulate_zx`): IFF1 := IFF2, IFF2 kept; PC =
MEMPTR = the word whose low byte is read at SP and whose high byte at SP+1 (mod 65536), both through the
map as paged at that moment (ROM included); SP+2; R+2; memory, paging and devices untouched. -/
theorem retn_body_on_machine (s : Cpu) (z : ZX) (op : BitVec 8) (hop : C02.isRetnReti op = true)
    (hap : s.activePrefix = .none) (h1 : z.ctl.mem.read s.pc = 0xED) (h2 : z.ctl.mem.read (s.pc + 1) = op) :
    let w := mk16 (z.ctl.mem.read (s.sp + 1)) (z.ctl.mem.read s.sp)
    (execOne .hw s z).1 = returned s w ∧ (execOne .hw s z).2.ctl.mem = z.ctl.mem ∧
    Kept z (execOne .hw s z).2 := by
  intro w
  have hed := decode_ED
  have hdec := C02.retn_decode op hop
  simp only [BitVec.ofNat_eq_ofNat] at h1 h2
  have e : execOne .hw s z =
      execED (.retn (op == 0x4D)) (stepQ { s with r := incR (incR s.r), pc := s.pc + 1 + 1 })
        (Bus.waitMreq (s.pc + 1) 4 (Bus.waitMreq s.pc 4 z)) := by
    simp [execOne, hap, fetchByte, ZxVerif.Z80.read, readInternal_val, readInternal_bus, waitMreq_mem,
      afterEDPrefix, stepQ, h1, h2, hed, hdec]
  rw [e]
  have hz2 : (Bus.waitMreq (s.pc + 1) 4 (Bus.waitMreq s.pc 4 z)).ctl.mem = z.ctl.mem := by
    rw [waitMreq_mem, waitMreq_mem]
  have hk2 : Kept z (Bus.waitMreq (s.pc + 1) 4 (Bus.waitMreq s.pc 4 z)) :=
    (kept_waitMreq _ 4 z).trans (kept_waitMreq _ 4 _)
  simp only [execED]
  refine ⟨?_, ?_, ?_⟩
  · rw [pop16_val, hz2]
    show _ = returned s (mk16 (z.ctl.mem.read (s.sp + 1)) (z.ctl.mem.read s.sp))
    clear e hk2 hz2 hdec hed h1 h2
    cases s; simp_all [returned, stepQ, pop16]
  · split <;> simp only [reti_eq, pop16_mem, hz2]
  · split
    · exact hk2.trans (kept_pop16 _ _ _)
    · exact hk2.trans (kept_pop16 _ _ _)

/-- **RETN/RETI executed by any program on the machine.** At any boundary that accepts nothing (the usual
case: the routine's `EI` directly before holds acceptance off, or the INT pulse is over) with `ED op` at PC:
one `emulate` copies IFF2 to IFF1, pops PC through the map (low byte at SP, high at SP+1), SP+2, R+2, leaves
memory, paging and devices alone, and in a `Good` state takes 14 T-states plus the ULA delays of exactly its
two opcode fetches and two stack reads. RETI and RETN differ only in the `reti` notification, which the
machine ignores. -/
theorem retn_on_machine (s : Cpu) (z : ZX) (op : BitVec 8) (hop : C02.isRetnReti op = true)
    (hd : decision s z = .none) (hap : s.activePrefix = .none)
    (h1 : z.ctl.mem.read s.pc = 0xED) (h2 : z.ctl.mem.read (s.pc + 1) = op) :
    let w := mk16 (z.ctl.mem.read (s.sp + 1)) (z.ctl.mem.read s.sp)
    (emulate .hw (s, z)).1 = returned { s with skipInt := false } w ∧
    (emulate .hw (s, z)).1.iff1 = s.iff2 ∧ (emulate .hw (s, z)).1.iff2 = s.iff2 ∧
    (emulate .hw (s, z)).1.pc = w ∧ (emulate .hw (s, z)).1.sp = s.sp + 2 ∧
    (emulate .hw (s, z)).2.ctl.mem = z.ctl.mem ∧ Kept z (emulate .hw (s, z)).2 ∧
    (C04Sys.Good z.ctl →
      total (emulate .hw (s, z)).2.ctl =
        total z.ctl + 14 + C04Sys.delaysAlong z.ctl.kind (total z.ctl) (retnCycles z.ctl.port7ffd s) ∧
      C04Sys.Good (emulate .hw (s, z)).2.ctl) := by
  intro w
  have he := emulate_no_accept .hw s z hd
  obtain ⟨b1, b2, b3⟩ := retn_body_on_machine { s with skipInt := false } z op hop hap h1 h2
  rw [← he] at b1 b2 b3
  refine ⟨b1, by rw [b1]; rfl, by rw [b1]; rfl, by rw [b1]; rfl, by rw [b1]; rfl, b2, b3, fun hg => ?_⟩
  have hc1 : z.cpuMem s.pc = 0xED := h1
  have hc2 : z.cpuMem (s.pc + 1) = op := h2
  have ht := C03Sys.step_time_ed .hw s z hg hd hap hc1
  rw [hc2, C02.retn_decode op hop] at ht
  have hl : (emulate .hw (s, z)).2.ctl.port7ffd = z.ctl.port7ffd := b3.latch
  rw [hl] at ht
  have hlist : timedOf z.ctl.port7ffd z.ctl.port7ffd
      (Spec.fetch4 s.pc ++ Spec.fetch4 (s.pc + 1) ++ Spec.docED (.retn (op == 0x4D)) (body2 s) z.cpuMem) =
      retnCycles z.ctl.port7ffd s := by
    simp [Spec.docED, Spec.popCycles, Spec.rd3, Spec.fetch4, timedOf, body2, stepQ, retnCycles]
  rw [hlist] at ht
  simpa [Spec.docTED] using ht

/-- **RETN/RETI behind a parked ED prefix** (`DD ED 4D`, `FD FD ED 45`, …: the index prefix parks the ED
with acceptance held off, `C02.inv_prefix_implies_skip`; the opcode byte runs in the next `emulate`): the
same effects with one opcode fetch in this call. -/
theorem retn_parked_on_machine (s : Cpu) (z : ZX) (op : BitVec 8) (hop : C02.isRetnReti op = true)
    (hap : s.activePrefix = .ed) (h1 : z.ctl.mem.read s.pc = op) :
    let w := mk16 (z.ctl.mem.read (s.sp + 1)) (z.ctl.mem.read s.sp)
    (execOne .hw s z).1 =
      { s with r := incR s.r, lastQ := s.q, q := 0, iff1 := s.iff2, sp := s.sp + 2, pc := w, memptr := w,
               activePrefix := .none } ∧
    (execOne .hw s z).2.ctl.mem = z.ctl.mem ∧ Kept z (execOne .hw s z).2 := by
  intro w
  have hdec := C02.retn_decode op hop
  have e : execOne .hw s z =
      execED (.retn (op == 0x4D)) (stepQ { s with activePrefix := .none, r := incR s.r, pc := s.pc + 1 })
        (Bus.waitMreq s.pc 4 z) := by
    simp [execOne, hap, fetchByte, ZxVerif.Z80.read, readInternal_val, readInternal_bus, waitMreq_mem,
      afterEDPrefix, stepQ, h1, hdec]
  rw [e]
  have hz2 : (Bus.waitMreq s.pc 4 z).ctl.mem = z.ctl.mem := waitMreq_mem _ _ _
  have hk2 : Kept z (Bus.waitMreq s.pc 4 z) := kept_waitMreq _ 4 z
  simp only [execED]
  refine ⟨?_, ?_, ?_⟩
  · rw [pop16_val, hz2]
    show _ = { s with r := incR s.r, lastQ := s.q, q := 0, iff1 := s.iff2, sp := s.sp + 2,
                      pc := mk16 (z.ctl.mem.read (s.sp + 1)) (z.ctl.mem.read s.sp),
                      memptr := mk16 (z.ctl.mem.read (s.sp + 1)) (z.ctl.mem.read s.sp), activePrefix := .none }
    clear e hk2 hz2 hdec h1
    cases s; simp_all [stepQ, pop16]
  · split <;> simp only [reti_eq, pop16_mem, hz2]
  · split
    · exact hk2.trans (kept_pop16 _ _ _)
    · exact hk2.trans (kept_pop16 _ _ _)

/-! ## From reset: no side condition left -/

/-- **IM 2 entry after every program from reset** (either machine, with or without joystick/mouse): at
whatever boundary of whatever program the frame interrupt is accepted in IM 2, the routine address is the
word read at `I*256+0xFF` / `+1 mod 65536` through the map of that moment from the memory the pushes left,
and the acknowledge takes 19 T-states plus the ULA delays of its five timed operations. -/
theorem im2_vector_after_program (k : Kind) (ke mo : Bool) (n : Nat) (s0 : Cpu) :
    let r := Z80.run .hw n (s0, ZX.new k ke mo)
    decision r.1 r.2 = .int → r.1.im = 2 →
    let m1 := pushed r.2.ctl.mem r.1.sp (if r.1.halted then r.1.pc + 1 else r.1.pc)
    let va := mk16 r.1.i 0xFF
    (checkInterrupt r.1 r.2).1 = entered r.1 (mk16 (m1.read (va + 1)) (m1.read va)) ∧
    (checkInterrupt r.1 r.2).2.ctl.mem = m1 ∧
    Z80.run .hw (n + 1) (s0, ZX.new k ke mo) =
      execOne .hw (entered r.1 (mk16 (m1.read (va + 1)) (m1.read va))) (checkInterrupt r.1 r.2).2 ∧
    total (checkInterrupt r.1 r.2).2.ctl =
      total r.2.ctl + 19 + C04Sys.delaysAlong k (total r.2.ctl) (im2Cycles r.2.ctl.port7ffd r.1) := by
  intro r hd him m1 va
  have hg : C04Sys.Good r.2.ctl := C06Prog.good_after_program k ke mo n s0
  have hk : r.2.ctl.kind = k := C06Prog.kind_after_program k ke mo n s0
  obtain ⟨a, b, _, d, _, _, t⟩ := im2_vector_on_machine r.1 r.2 hd him
  refine ⟨a, b, ?_, ?_⟩
  · rw [run_succ']; exact d
  · rw [← hk]; exact (t hg).1

/-! ## Non-vacuity: concrete machine states (kernel evaluation) -/

/-- a 48K at frame clock 5. ROM: 0xF3 at 0x0000 (as the real ROM: DI) and a service routine at 0x0038
(`PUSH AF; POP AF; EI; RET`); RAM: 0x80 at 0xFFFF (bank 2, offset 0x3FFF) and the waiting loop
`EI; HALT; JR -4` at 0x8000 -/
def exampleZX : ZX :=
  { ZX.new .k48 false false with
    ctl := { Ctl.new .k48 with
      frameClocks := 5
      mem := { Mem.new .k48 with
        rom := fun _ o =>
          if o = 0 then 0xF3 else if o = 0x38 then 0xF5 else if o = 0x39 then 0xF1
          else if o = 0x3A then 0xFB else if o = 0x3B then 0xC9 else 0
        ram := fun p o =>
          if p = 2 ∧ o = 0x3FFF then 0x80
          else if p = 1 ∧ o = 0 then 0xFB else if p = 1 ∧ o = 1 then 0x76
          else if p = 1 ∧ o = 2 then 0x18 else if p = 1 ∧ o = 3 then 0xFC else 0 } } }

/-- halted at the HALT of the loop, interrupts enabled, IM 2 with I = 0xFF -/
def exampleCpu : Cpu :=
  { pc := 0x8001, sp := 0x9000, im := 2, i := 0xFF, iff1 := true, iff2 := true, halted := true }

/-- the example machine is in a `Good` state -/
theorem example_good : C04Sys.Good exampleZX.ctl := ⟨by decide, Or.inl ⟨rfl, rfl, rfl⟩⟩

/-- the hypotheses of `im2_vector_on_machine` and `im2_vector_top_of_memory` are met -/
example : decision exampleCpu exampleZX = .int ∧ exampleCpu.im = 2 ∧ exampleCpu.i = 0xFF ∧
    exampleZX.ctl.mem.map 0 = .rom 0 := by decide +kernel

/-- … and this is what the machine does: the routine address is 0xF380 — low byte 0x80 from 0xFFFF (RAM),
high byte 0xF3 from 0x0000 (ROM) —, the return address 0x8002 (behind the HALT) lies at 0x8FFF/0x8FFE,
SP = 0x8FFE, flip-flops and halted cleared, 19 T-states (nothing contended at frame clock 5) -/
example :
    let r := checkInterrupt exampleCpu exampleZX
    r.1.pc = 0xF380 ∧ r.1.sp = 0x8FFE ∧ r.1.iff1 = false ∧ r.1.iff2 = false ∧ r.1.halted = false ∧
    r.1.r = 1 ∧ r.2.ctl.mem.read 0x8FFF = 0x80 ∧ r.2.ctl.mem.read 0x8FFE = 0x02 ∧
    r.2.ctl.frameClocks = 5 + 19 := by decide +kernel

/-- the vector is read from the memory the pushes left, through the map: with SP = 0x0001 the high byte of
the return address is aimed at 0x0000 (ROM: dropped, the ROM byte 0xF3 stays) and its low byte 0x02 lands on
0xFFFF, the low byte of the table entry — the routine address becomes 0xF302 -/
example :
    let r := checkInterrupt { exampleCpu with sp := 0x0001 } exampleZX
    r.1.pc = 0xF302 ∧ r.1.sp = 0xFFFF ∧ r.2.ctl.mem.read 0x0000 = 0xF3 ∧ r.2.ctl.mem.read 0xFFFF = 0x02 := by
  decide +kernel

/-- a stack entirely in ROM: nothing is stored, the entry is otherwise the same -/
example :
    let r := checkInterrupt { exampleCpu with sp := 0x0100 } exampleZX
    r.1.pc = 0xF380 ∧ r.1.sp = 0x00FE ∧ r.2.ctl.mem.read 0x00FF = 0 ∧ r.2.ctl.mem.read 0x00FE = 0 ∧
    inRam exampleZX.ctl.mem 0x00FF = false ∧ inRam exampleZX.ctl.mem 0x00FE = false := by decide +kernel

/-- 128K with ROM 1 paged in (latch 0x10) and bank 3 at 0xC000 (latch bits 0–2): the high byte comes from
ROM 1 (0xAF here, ROM 0 holds 0xF3), the low byte from bank 3 -/
def example128 : ZX :=
  { ZX.new .k128 false false with
    ctl := ({ Ctl.new .k128 with
      frameClocks := 5
      mem := { Mem.new .k128 with
        rom := fun p o => if o = 0 then (if p = 1 then 0xAF else 0xF3) else 0
        ram := fun p o => if o = 0x3FFF then BitVec.ofNat 8 (0x40 + p) else 0 } }).write7ffd 0x13 }

example :
    decision exampleCpu example128 = .int ∧ example128.ctl.mem.map 0 = .rom 1 ∧
    (checkInterrupt exampleCpu example128).1.pc = 0xAF43 := by decide +kernel

/-- IM 1 (and IM 0) in the same state: PC = 0x0038, 13 T-states -/
example :
    let r := checkInterrupt { exampleCpu with im := 1 } exampleZX
    let r0 := checkInterrupt { exampleCpu with im := 0 } exampleZX
    r.1.pc = 0x0038 ∧ r.2.ctl.mem.read 0x8FFF = 0x80 ∧ r.2.ctl.mem.read 0x8FFE = 0x02 ∧
    r.2.ctl.frameClocks = 5 + 13 ∧ r0.1.pc = 0x0038 ∧ r0.2.ctl.frameClocks = 5 + 13 := by decide +kernel

/-- the acceptance rule at work: at frame clock 32 the same CPU state is not served; with IFF1 clear or
directly behind an EI neither at clock 5 -/
example :
    decision exampleCpu { exampleZX with ctl := { exampleZX.ctl with frameClocks := 32 } } = .none ∧
    decision exampleCpu { exampleZX with ctl := { exampleZX.ctl with frameClocks := 31 } } = .int ∧
    decision { exampleCpu with iff1 := false } exampleZX = .none ∧
    decision { exampleCpu with skipInt := true } exampleZX = .none := by decide +kernel

/-- the example CPU in IM 1 -/
def idiomCpu : Cpu := { exampleCpu with im := 1 }

/-- **The `EI; HALT` idiom, hypotheses of `ei_halt_once_per_frame` met by a real run** (IM 1): boundary 0
accepts at frame clock 5; `PUSH AF` runs in the same `emulate`, then `POP AF; EI; RET; JR; EI; HALT` — seven
boundaries later the CPU waits in HALT again at frame clock 73 of the same frame, and at no boundary in
between are interrupts effectively enabled sooner than 32 T-states after the acceptance (the first such
boundary is the one behind `RET`, 48 T-states later). -/
theorem example_idiom :
    decision idiomCpu exampleZX = .int ∧
    (Z80.run .hw 7 (idiomCpu, exampleZX)).1.halted = true ∧ (Z80.run .hw 7 (idiomCpu, exampleZX)).1.iff1 = true ∧
    (Z80.run .hw 7 (idiomCpu, exampleZX)).1.skipInt = false ∧ (Z80.run .hw 7 (idiomCpu, exampleZX)).1.activePrefix = .none ∧
    (Z80.run .hw 7 (idiomCpu, exampleZX)).1.pc = 0x8001 ∧
    (Z80.run .hw 7 (idiomCpu, exampleZX)).2.ctl.readInternal 0x8001 = 0x76 ∧
    (Z80.run .hw 7 (idiomCpu, exampleZX)).2.ctl.passedFrames = exampleZX.ctl.passedFrames ∧
    (Z80.run .hw 7 (idiomCpu, exampleZX)).2.ctl.frameClocks = 73 ∧
    (Z80.run .hw 4 (idiomCpu, exampleZX)).2.ctl.frameClocks = 53 ∧
    (∀ m ∈ List.range 8, 0 < m → (Z80.run .hw m (idiomCpu, exampleZX)).1.iff1 = true →
      (Z80.run .hw m (idiomCpu, exampleZX)).1.skipInt = false →
      32 ≤ total (Z80.run .hw m (idiomCpu, exampleZX)).2.ctl - total exampleZX.ctl) := by
  decide +kernel

/-- … hence its conclusion holds for that program: the next acceptance is the first one after this one and
lies in the next frame, less than 10 T-states after its start -/
example : ∃ n,
    decision (Z80.run .hw (7 + n) (idiomCpu, exampleZX)).1
      (Z80.run .hw (7 + n) (idiomCpu, exampleZX)).2 = .int ∧
    (∀ m, 0 < m → m < 7 + n →
      decision (Z80.run .hw m (idiomCpu, exampleZX)).1
        (Z80.run .hw m (idiomCpu, exampleZX)).2 = .none) ∧
    (Z80.run .hw (7 + n) (idiomCpu, exampleZX)).2.ctl.passedFrames = exampleZX.ctl.passedFrames + 1 ∧
    (Z80.run .hw (7 + n) (idiomCpu, exampleZX)).2.ctl.frameClocks < 10 := by
  obtain ⟨h0, h1, h2, h3, h4, h5, h6, h7, _, _, h8⟩ := example_idiom
  have hw : C05Halt.Waiting (Z80.run .hw 7 (idiomCpu, exampleZX)).1
      (Z80.run .hw 7 (idiomCpu, exampleZX)).2 :=
    ⟨h1, h2, h3, h4, by rw [h5]; exact h6, (good_run 7 _ _ example_good).1⟩
  obtain ⟨n, a, b, c, d, _⟩ := ei_halt_once_per_frame idiomCpu exampleZX 7 example_good h0
    (by decide) hw h7 (fun m hm0 hmk => h8 m (List.mem_range.mpr (by omega)) hm0)
  exact ⟨n, a, b, c, d⟩

/-- RETN/RETI: the eight encodings satisfy the hypothesis of `retn_on_machine`; on the example machine
`ED 4D` (RETI) at 0x8000 with IFF1 = 0, IFF2 = 1 and the stack at 0x0000 (ROM: F3 00) returns to 0x00F3 with
IFF1 = 1 in 14 T-states -/
example :
    let z : ZX := { exampleZX with ctl := (exampleZX.ctl.writeInternal 0x8000 0xED).writeInternal 0x8001 0x4D }
    let s : Cpu := { pc := 0x8000, sp := 0x0000, iff1 := false, iff2 := true }
    C02.isRetnReti 0x4D = true ∧ decision s z = .none ∧ z.ctl.mem.read 0x8000 = 0xED ∧
    (emulate .hw (s, z)).1.iff1 = true ∧ (emulate .hw (s, z)).1.pc = 0x00F3 ∧
    (emulate .hw (s, z)).1.sp = 0x0002 ∧ (emulate .hw (s, z)).2.ctl.frameClocks = 5 + 14 := by decide +kernel

end ZxVerif.C02Sys

