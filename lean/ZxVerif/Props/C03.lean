/-
C03 — each instruction takes the documented T-states in the documented bus cycles.

Only property theorems live here. Spec (the documented machine cycles as data, the documented totals):
ZxVerif/Spec/Z80Cycles.lean; model: ZxVerif/Model/Z80/Exec.lean run on the recording bus
ZxVerif/Model/Z80/RecBus.lean; helper lemmas: ZxVerif/Lemmas/Z80Trace.lean.

`trace_shape_*`: for EVERY instruction of the page, every prefix, every CPU state and every bus content
the cycles appended to the bus log are exactly `doc…` (kind, address, clocks, in order), with the timing
variant selected by the documented condition. `tstates_*`/`repeat_T`/`ddcb_T`/`cb_T`/`int_entry_T`:
those sequences add up to the documented totals. `step_shape_*`: the same for a whole `emulate`
(opcode fetches included).
-/
import ZxVerif.Lemmas.Z80Trace
import ZxVerif.Spec.Z80Interrupts
set_option linter.constructorNameAsVariable false
set_option linter.unusedSimpArgs false
namespace ZxVerif.C03
open ZxVerif.Z80
open Spec (Cyc)

macro "trace_simp" : tactic => `(tactic|
  simp [exec, execED, execCall, operandAddr, fetchByte, fetchWord, push16, pop16, ZxVerif.Z80.read, ZxVerif.Z80.write,
    readWord, writeWord,
    waitLoop_cycles, waitLoop_mem, Bus.readInternal, Bus.writeInternal, Bus.readIo, Bus.writeIo,
    Bus.waitMreq, Bus.waitNoMreq, RecBus.push, readIo_log, readIo_mem, cyclesOf_cons, Ev.cyc, Cpu.idx, Cpu.ix, Cpu.iy, Cpu.hl, Cpu.bc, Cpu.de, Cpu.ir,
    Cpu.setBC, Cpu.setHL, Cpu.setDE, Cpu.setF,
    Spec.docMain, Spec.takenMain, Spec.opCycles, Spec.opAddr, Spec.rd3, Spec.wr3, Spec.imm16, Spec.pushCycles,
    Spec.popCycles, Spec.idle, List.reverse_append, Bus.halt, Bus.reti, Spec.docED, Spec.repeats,
    Bus.waitInternal, Bus.readInterrupt, Spec.fetch4])

macro "trace_simp_all" : tactic => `(tactic|
  simp_all [exec, execED, execCall, operandAddr, fetchByte, fetchWord, push16, pop16, ZxVerif.Z80.read, ZxVerif.Z80.write,
    readWord, writeWord,
    waitLoop_cycles, waitLoop_mem, Bus.readInternal, Bus.writeInternal, Bus.readIo, Bus.writeIo,
    Bus.waitMreq, Bus.waitNoMreq, RecBus.push, readIo_log, readIo_mem, cyclesOf_cons, Ev.cyc, Cpu.idx, Cpu.ix, Cpu.iy, Cpu.hl, Cpu.bc, Cpu.de, Cpu.ir,
    Cpu.setBC, Cpu.setHL, Cpu.setDE, Cpu.setF,
    Spec.docMain, Spec.takenMain, Spec.opCycles, Spec.opAddr, Spec.rd3, Spec.wr3, Spec.imm16, Spec.pushCycles,
    Spec.popCycles, Spec.idle, List.reverse_append, Bus.halt, Bus.reti, Spec.docED, Spec.repeats,
    Bus.waitInternal, Bus.readInterrupt, Spec.fetch4])

/-- **Trace shape, unprefixed and DD/FD pages.** After the opcode fetch(es), every instruction issues exactly
the documented cycles: 3-T reads/writes at the documented addresses, delay T-states carrying IR, PC, SP or
the operand address, 4-T port cycles — taken and not-taken forms included (`Spec.takenMain`). Stated
newest-first, as the log is kept; `step_shape_*` give the chronological form. -/
theorem trace_shape_main (v : Variant) (p : Pfx) (i : Instr) (s : Cpu) (b : RecBus) :
    cyclesOf (exec v p i s b).2.log = (Spec.docMain p i s b.mem).reverse ++ cyclesOf b.log := by
  cases i with
  | djnz => trace_simp; split <;> trace_simp_all
  | jrcc c => trace_simp; split <;> trace_simp_all
  | retcc c => trace_simp; split <;> trace_simp_all
  | callcc c => trace_simp; split <;> trace_simp_all
  | inc r => cases r <;> cases p <;> trace_simp
  | dec r => cases r <;> cases p <;> trace_simp
  | ldRN r => cases r <;> cases p <;> trace_simp
  | alu op r => cases r <;> cases p <;> trace_simp
  | ld d r => cases d <;> cases r <;> cases p <;> trace_simp
  | ldNNA => cases v <;> trace_simp
  | outNA => cases v <;> trace_simp
  | _ => trace_simp

/-- **Trace shape, ED page**, every iteration of LDIR/CPIR/INIR/OTIR and their decrementing twins
included: the five extra delay T-states of a repeat carry DE (LD), HL (CP, IN) or BC (OUT). -/
theorem trace_shape_ed (i : EdInstr) (s : Cpu) (b : RecBus) :
    cyclesOf (execED i s b).2.log = (Spec.docED i s b.mem).reverse ++ cyclesOf b.log := by
  cases i with
  | ldBlock d r => trace_simp; split <;> trace_simp_all
  | cpBlock d r => trace_simp; split <;> trace_simp_all
  | inBlock d r => trace_simp; split <;> trace_simp_all
  | outBlock d r => trace_simp; split <;> trace_simp_all
  | retn r => cases r <;> trace_simp
  | _ => trace_simp

/-- **Trace shape, CB page** (the second opcode fetch is part of it). -/
theorem trace_shape_cb (s : Cpu) (b : RecBus) :
    cyclesOf (execCB s b).2.log = (Spec.docCB s b.mem).reverse ++ cyclesOf b.log := by
  simp only [execCB, Spec.docCB, fetchByte, ZxVerif.Z80.read, Bus.readInternal, Bus.waitMreq, RecBus.push]
  generalize decodeCB (b.mem s.pc) = i
  cases i with
  | rot k r => cases r <;> trace_simp <;> simp [cbMem, cbOp, applyF, CbInstr.reg] <;> trace_simp
  | bit k r => cases r <;> trace_simp <;> simp [cbMem, cbOp, applyF, CbInstr.reg] <;> trace_simp
  | res k r => cases r <;> trace_simp <;> simp [cbMem, cbOp, applyF, CbInstr.reg] <;> trace_simp
  | set k r => cases r <;> trace_simp <;> simp [cbMem, cbOp, applyF, CbInstr.reg] <;> trace_simp

/-- **Trace shape, DDCB/FDCB**: displacement read, opcode read + two delay T-states at its address, then
read, one delay T-state and (except BIT) write at IX/IY+d. -/
theorem trace_shape_idxcb (p : Pfx) (s : Cpu) (b : RecBus) :
    cyclesOf (execIdxCB p s b).2.log = (Spec.docIdxCB p s b.mem).reverse ++ cyclesOf b.log := by
  simp only [execIdxCB, Spec.docIdxCB, fetchByte, ZxVerif.Z80.read, Bus.readInternal, Bus.waitMreq, RecBus.push,
    waitLoop_mem]
  generalize decodeCB (b.mem (s.pc + 1)) = i
  cases i with
  | rot k r => cases r <;> cases p <;> simp [cbMem, cbOp, applyF, CbInstr.reg] <;> trace_simp
  | bit k r => cases r <;> cases p <;> simp [cbMem, cbOp, applyF, CbInstr.reg] <;> trace_simp
  | res k r => cases r <;> cases p <;> simp [cbMem, cbOp, applyF, CbInstr.reg] <;> trace_simp
  | set k r => cases r <;> cases p <;> simp [cbMem, cbOp, applyF, CbInstr.reg] <;> trace_simp

/-- **Interrupt acknowledge.** IM 0/1: two stack writes, seven internal T-states; IM 2 adds the two vector reads. -/
theorem int_entry_shape (s : Cpu) (b : RecBus) :
    cyclesOf (acceptInt s b).2.log =
      (if s.im = 2 then Spec.docInt2 s (mk16 s.i b.busByte) else Spec.docInt01 s).reverse ++ cyclesOf b.log := by
  by_cases hh : s.halted = true <;> by_cases hm : s.im = 2 <;>
    simp [acceptInt, releaseHalt, hh, hm, Spec.docInt2, Spec.docInt01] <;> trace_simp_all

/-- **NMI entry:** five delay T-states at the return address, two stack writes. -/
theorem nmi_entry_shape (s : Cpu) (b : RecBus) :
    cyclesOf (acceptNmi s b).2.log =
      (Spec.docNmi s (Spec.returnAddress s)).reverse ++ cyclesOf b.log := by
  by_cases hh : s.halted = true <;>
    simp [acceptNmi, releaseHalt, hh, Spec.docNmi, Spec.returnAddress] <;> trace_simp

/-- **Interrupt entry takes 13 (IM 0/1), 19 (IM 2), 11 (NMI) T-states.** -/
theorem int_entry_T (s : Cpu) (vec ret : BitVec 16) :
    Spec.tsum (Spec.docInt01 s) = 13 ∧ Spec.tsum (Spec.docInt2 s vec) = 19 ∧
    Spec.tsum (Spec.docNmi s ret) = 11 := by
  simp [Spec.tsum, Spec.docInt01, Spec.docInt2, Spec.docNmi, Spec.pushCycles, Spec.wr3, Spec.rd3, Spec.idle, Spec.Cyc.t]

macro "tsum_simp" : tactic => `(tactic|
  simp [Spec.tsum, Spec.docMain, Spec.docTMain, Spec.docED, Spec.docTED, Spec.takenMain, Spec.repeats,
    Spec.opCycles, Spec.rd3, Spec.wr3, Spec.idle, Spec.pushCycles, Spec.popCycles, Spec.Cyc.t, Spec.fetch4,
    List.map_append, List.sum_append, List.map_replicate, Instr.isPrefix])

/-- **Documented totals, main page:** opcode fetch + documented cycles = the documented T-states
(4/5/6/7/8/10/11/12/13/15/16/17/19; +4 for the prefix fetch of a DD/FD form), both timing variants. -/
theorem tstates_main (p : Pfx) (i : Instr) (s : Cpu) (m : Spec.Mem) (hnp : i.isPrefix = false) :
    4 + Spec.tsum (Spec.docMain p i s m) = Spec.docTMain p i (Spec.takenMain i s) := by
  cases i with
  | djnz => simp only [Spec.docMain, Spec.docTMain]; generalize Spec.takenMain _ s = t; cases t <;> tsum_simp
  | jrcc c => simp only [Spec.docMain, Spec.docTMain]; generalize Spec.takenMain _ s = t; cases t <;> tsum_simp
  | retcc c => simp only [Spec.docMain, Spec.docTMain]; generalize Spec.takenMain _ s = t; cases t <;> tsum_simp
  | callcc c => simp only [Spec.docMain, Spec.docTMain]; generalize Spec.takenMain _ s = t; cases t <;> tsum_simp
  | inc r => cases r <;> cases p <;> tsum_simp
  | dec r => cases r <;> cases p <;> tsum_simp
  | ldRN r => cases r <;> cases p <;> tsum_simp
  | alu op r => cases r <;> cases p <;> tsum_simp
  | ld d r => cases d <;> cases r <;> cases p <;> tsum_simp
  | pfxCB => simp [Instr.isPrefix] at hnp
  | pfxDD => simp [Instr.isPrefix] at hnp
  | pfxED => simp [Instr.isPrefix] at hnp
  | pfxFD => simp [Instr.isPrefix] at hnp
  | _ => tsum_simp

/-- **Documented totals, ED page; repeat 21 vs 16** for all eight repeating block instructions. -/
theorem repeat_T (i : EdInstr) (s : Cpu) (m : Spec.Mem) :
    8 + Spec.tsum (Spec.docED i s m) = Spec.docTED i (Spec.repeats i s m) := by
  cases i with
  | ldBlock d r => simp only [Spec.docED, Spec.docTED]; generalize Spec.repeats _ s m = t; cases t <;> tsum_simp
  | cpBlock d r => simp only [Spec.docED, Spec.docTED]; generalize Spec.repeats _ s m = t; cases t <;> tsum_simp
  | inBlock d r => simp only [Spec.docED, Spec.docTED]; generalize Spec.repeats _ s m = t; cases t <;> tsum_simp
  | outBlock d r => simp only [Spec.docED, Spec.docTED]; generalize Spec.repeats _ s m = t; cases t <;> tsum_simp
  | _ => tsum_simp

/-- **DDCB/FDCB take 20 (BIT) or 23 T-states.** -/
theorem ddcb_T (p : Pfx) (s : Cpu) (m : Spec.Mem) :
    8 + Spec.tsum (Spec.docIdxCB p s m) = Spec.docTIdxCB (decodeCB (m (s.pc + 1))) := by
  simp only [Spec.docIdxCB, Spec.docTIdxCB]
  generalize decodeCB (m (s.pc + 1)) = i
  cases i <;> tsum_simp

/-- CB page: 8 (register), 12 (BIT n,(HL)), 15 (others on (HL)). -/
theorem cb_T (s : Cpu) (m : Spec.Mem) :
    4 + Spec.tsum (Spec.docCB s m) = Spec.docTCB (decodeCB (m s.pc)) := by
  simp only [Spec.docCB, Spec.docTCB]
  generalize decodeCB (m s.pc) = i
  cases i with
  | rot k r => cases r <;> simp [CbInstr.reg] <;> tsum_simp
  | bit k r => cases r <;> simp [CbInstr.reg] <;> tsum_simp
  | res k r => cases r <;> simp [CbInstr.reg] <;> tsum_simp
  | set k r => cases r <;> simp [CbInstr.reg] <;> tsum_simp
/-- **A whole `emulate`, unprefixed instruction:** what the bus sees is the 4-T opcode fetch at PC followed by the
documented cycles (chronological order; `Quiescent`: no interrupt accepted at this boundary). -/
theorem step_shape_unprefixed (v : Variant) (s : Cpu) (b : RecBus) (hq : Quiescent s b)
    (hap : s.activePrefix = .none) (hnp : (decode (b.mem s.pc)).isPrefix = false) :
    (emulate v (s, b)).2.cycles =
      b.cycles ++ Spec.fetch4 s.pc ++
        Spec.docMain .none (decode (b.mem s.pc)) (stepQ { s with r := incR s.r, pc := s.pc + 1 }) b.mem := by
  generalize hi : decode (b.mem s.pc) = i at hnp
  have key : (emulate v (s, b)).2.log =
      .pccb (exec v .none i (stepQ { s with r := incR s.r, pc := s.pc + 1 })
              (b.push (.mreq s.pc 4) |>.push (.rd s.pc (b.mem s.pc)))).1.pc ::
        (exec v .none i (stepQ { s with r := incR s.r, pc := s.pc + 1 })
              (b.push (.mreq s.pc 4) |>.push (.rd s.pc (b.mem s.pc)))).2.log := by
    cases i <;> simp [Instr.isPrefix] at hnp <;>
      simp [emulate, checkInterrupt_quiescent s b hq, execOne, hap, fetchByte, ZxVerif.Z80.read,
        Bus.readInternal, Bus.waitMreq, Bus.pcCallback, RecBus.push, hi]
  simp only [RecBus.cycles, key, cyclesOf_cons, Ev.cyc, trace_shape_main]
  simp [RecBus.push, cyclesOf_cons, Ev.cyc, Spec.fetch4]

/-- T-states of a whole unprefixed `emulate` = the documented total of the instruction -/
theorem step_T_unprefixed (v : Variant) (s : Cpu) (b : RecBus) (hq : Quiescent s b)
    (hap : s.activePrefix = .none) (hnp : (decode (b.mem s.pc)).isPrefix = false) :
    Spec.tsum (emulate v (s, b)).2.cycles =
      Spec.tsum b.cycles + Spec.docTMain .none (decode (b.mem s.pc))
        (Spec.takenMain (decode (b.mem s.pc)) (stepQ { s with r := incR s.r, pc := s.pc + 1 })) := by
  rw [step_shape_unprefixed v s b hq hap hnp, ← tstates_main .none _ _ b.mem hnp]
  simp [Spec.tsum, Spec.fetch4, Spec.Cyc.t, List.map_append, List.sum_append]
  try omega

/-- the byte of an index prefix -/
def pfxByte : Pfx → BitVec 8
  | .dd => 0xDD | .fd => 0xFD | .none => 0x00

/-- the bus after a 4-T opcode fetch at `a` -/
def fetched (a : BitVec 16) (b : RecBus) : RecBus := (b.push (.mreq a 4)).push (.rd a (b.mem a))

/-- **A whole `emulate`, DD/FD-prefixed instruction:** two 4-T fetches, then the documented cycles of the
indexed form. -/
theorem step_shape_indexed (v : Variant) (p : Pfx) (hp : p ≠ .none) (s : Cpu) (b : RecBus) (hq : Quiescent s b)
    (hap : s.activePrefix = .none) (h1 : b.mem s.pc = pfxByte p)
    (hnp : (decode (b.mem (s.pc + 1))).isPrefix = false) :
    (emulate v (s, b)).2.cycles =
      b.cycles ++ Spec.fetch4 s.pc ++ Spec.fetch4 (s.pc + 1) ++
        Spec.docMain p (decode (b.mem (s.pc + 1)))
          (stepQ { s with r := incR (incR s.r), pc := s.pc + 1 + 1 }) b.mem := by
  have hdd : decode 221#8 = .pfxDD := by decide
  have hfd : decode 253#8 = .pfxFD := by decide
  generalize hi : decode (b.mem (s.pc + 1)) = i at hnp
  simp only [BitVec.ofNat_eq_ofNat] at hi
  have key : (emulate v (s, b)).2.log =
      .pccb (exec v p i (stepQ { s with r := incR (incR s.r), pc := s.pc + 1 + 1 })
              (fetched (s.pc + 1) (fetched s.pc b))).1.pc ::
        (exec v p i (stepQ { s with r := incR (incR s.r), pc := s.pc + 1 + 1 })
              (fetched (s.pc + 1) (fetched s.pc b))).2.log := by
    cases p with
    | none => exact absurd rfl hp
    | dd =>
      simp only [pfxByte, BitVec.ofNat_eq_ofNat] at h1
      cases i <;> simp [Instr.isPrefix] at hnp <;>
        simp [emulate, checkInterrupt_quiescent s b hq, execOne, hap, fetchByte, ZxVerif.Z80.read,
          Bus.readInternal, Bus.waitMreq, Bus.pcCallback, RecBus.push, h1, hdd, afterIndexPrefix, hi, fetched, stepQ]
    | fd =>
      simp only [pfxByte, BitVec.ofNat_eq_ofNat] at h1
      cases i <;> simp [Instr.isPrefix] at hnp <;>
        simp [emulate, checkInterrupt_quiescent s b hq, execOne, hap, fetchByte, ZxVerif.Z80.read,
          Bus.readInternal, Bus.waitMreq, Bus.pcCallback, RecBus.push, h1, hfd, afterIndexPrefix, hi, fetched, stepQ]
  simp only [RecBus.cycles, key, cyclesOf_cons, Ev.cyc, trace_shape_main]
  simp [RecBus.push, cyclesOf_cons, Ev.cyc, Spec.fetch4, fetched]

/-- **A whole `emulate`, ED page:** two 4-T fetches, then the documented cycles (block repeats included). -/
theorem step_shape_ed (v : Variant) (s : Cpu) (b : RecBus) (hq : Quiescent s b)
    (hap : s.activePrefix = .none) (h1 : b.mem s.pc = 0xED) :
    (emulate v (s, b)).2.cycles =
      b.cycles ++ Spec.fetch4 s.pc ++ Spec.fetch4 (s.pc + 1) ++
        Spec.docED (decodeED (b.mem (s.pc + 1)))
          (stepQ { s with r := incR (incR s.r), pc := s.pc + 1 + 1 }) b.mem := by
  have hd : decode 237#8 = .pfxED := by decide
  simp only [BitVec.ofNat_eq_ofNat] at h1
  have key : (emulate v (s, b)).2.log =
      .pccb (execED (decodeED (b.mem (s.pc + 1))) (stepQ { s with r := incR (incR s.r), pc := s.pc + 1 + 1 })
              (fetched (s.pc + 1) (fetched s.pc b))).1.pc ::
        (execED (decodeED (b.mem (s.pc + 1))) (stepQ { s with r := incR (incR s.r), pc := s.pc + 1 + 1 })
              (fetched (s.pc + 1) (fetched s.pc b))).2.log := by
    simp [emulate, checkInterrupt_quiescent s b hq, execOne, hap, fetchByte, ZxVerif.Z80.read,
      Bus.readInternal, Bus.waitMreq, Bus.pcCallback, RecBus.push, h1, hd, afterEDPrefix, fetched, stepQ]
  simp only [RecBus.cycles, key, cyclesOf_cons, Ev.cyc, trace_shape_ed]
  simp [RecBus.push, cyclesOf_cons, Ev.cyc, Spec.fetch4, fetched]

/-- **A whole `emulate`, CB page.** -/
theorem step_shape_cb (v : Variant) (s : Cpu) (b : RecBus) (hq : Quiescent s b)
    (hap : s.activePrefix = .none) (h1 : b.mem s.pc = 0xCB) :
    (emulate v (s, b)).2.cycles =
      b.cycles ++ Spec.fetch4 s.pc ++
        Spec.docCB (stepQ { s with r := incR s.r, pc := s.pc + 1 }) b.mem := by
  have hd : decode 203#8 = .pfxCB := by decide
  simp only [BitVec.ofNat_eq_ofNat] at h1
  have key : (emulate v (s, b)).2.log =
      .pccb (execCB (stepQ { s with r := incR s.r, pc := s.pc + 1 }) (fetched s.pc b)).1.pc ::
        (execCB (stepQ { s with r := incR s.r, pc := s.pc + 1 }) (fetched s.pc b)).2.log := by
    simp [emulate, checkInterrupt_quiescent s b hq, execOne, hap, fetchByte, ZxVerif.Z80.read,
      Bus.readInternal, Bus.waitMreq, Bus.pcCallback, RecBus.push, h1, hd, fetched, stepQ]
  simp only [RecBus.cycles, key, cyclesOf_cons, Ev.cyc, trace_shape_cb]
  simp [RecBus.push, cyclesOf_cons, Ev.cyc, Spec.fetch4, fetched]

/-- **A whole `emulate`, DDCB/FDCB:** two 4-T fetches, then displacement, opcode read + 2, read, +1, (write). -/
theorem step_shape_ddcb (v : Variant) (p : Pfx) (hp : p ≠ .none) (s : Cpu) (b : RecBus) (hq : Quiescent s b)
    (hap : s.activePrefix = .none) (h1 : b.mem s.pc = pfxByte p) (h2 : b.mem (s.pc + 1) = 0xCB) :
    (emulate v (s, b)).2.cycles =
      b.cycles ++ Spec.fetch4 s.pc ++ Spec.fetch4 (s.pc + 1) ++
        Spec.docIdxCB p (stepQ { s with r := incR (incR s.r), pc := s.pc + 1 + 1 }) b.mem := by
  have hdd : decode 221#8 = .pfxDD := by decide
  have hfd : decode 253#8 = .pfxFD := by decide
  have hcb : decode 203#8 = .pfxCB := by decide
  simp only [BitVec.ofNat_eq_ofNat] at h2
  have key : (emulate v (s, b)).2.log =
      .pccb (execIdxCB p (stepQ { s with r := incR (incR s.r), pc := s.pc + 1 + 1 })
              (fetched (s.pc + 1) (fetched s.pc b))).1.pc ::
        (execIdxCB p (stepQ { s with r := incR (incR s.r), pc := s.pc + 1 + 1 })
              (fetched (s.pc + 1) (fetched s.pc b))).2.log := by
    cases p with
    | none => exact absurd rfl hp
    | dd =>
      simp only [pfxByte, BitVec.ofNat_eq_ofNat] at h1
      simp [emulate, checkInterrupt_quiescent s b hq, execOne, hap, fetchByte, ZxVerif.Z80.read,
        Bus.readInternal, Bus.waitMreq, Bus.pcCallback, RecBus.push, h1, h2, hdd, hcb, afterIndexPrefix, fetched, stepQ]
    | fd =>
      simp only [pfxByte, BitVec.ofNat_eq_ofNat] at h1
      simp [emulate, checkInterrupt_quiescent s b hq, execOne, hap, fetchByte, ZxVerif.Z80.read,
        Bus.readInternal, Bus.waitMreq, Bus.pcCallback, RecBus.push, h1, h2, hfd, hcb, afterIndexPrefix, fetched, stepQ]
  simp only [RecBus.cycles, key, cyclesOf_cons, Ev.cyc, trace_shape_idxcb]
  simp [RecBus.push, cyclesOf_cons, Ev.cyc, Spec.fetch4, fetched]

/-- **A boundary that accepts an interrupt** first shows the acknowledge cycles (then the first
instruction of the service routine runs in the same `emulate`, covered by the theorems above). -/
theorem interrupt_step_shape (s : Cpu) (b : RecBus) :
    (decision s b = .int → (checkInterrupt s b).2.cycles =
      b.cycles ++ (if s.im = 2 then Spec.docInt2 s (mk16 s.i b.busByte) else Spec.docInt01 s)) ∧
    (decision s b = .nmi → (checkInterrupt s b).2.cycles =
      b.cycles ++ Spec.docNmi s (Spec.returnAddress s)) := by
  constructor <;> intro h <;> rw [checkInterrupt_eq_decision, h] <;> apply cycles_of_rev
  · exact int_entry_shape s b
  · exact nmi_entry_shape s b

/-! ## Non-vacuity -/

/-- `ED B0` (LDIR) at 0x8000 -/
def exampleBus : RecBus :=
  { mem := fun a => if a = 0x8000 then 0xED else if a = 0x8001 then 0xB0 else 0 }

/-- LDIR with BC = 2 repeats (21 T), with BC = 1 it does not (16 T) -/
example :
    Spec.tsum (emulate .hw (({ pc := 0x8000, c := 2 } : Cpu), exampleBus)).2.cycles = 21 ∧
    Spec.tsum (emulate .hw (({ pc := 0x8000, c := 1 } : Cpu), exampleBus)).2.cycles = 16 := by decide

example : Spec.docTMain .none (.jrcc .z) true = 12 ∧ Spec.docTMain .dd (.inc .m) true + 4 = 23 ∧
    Spec.docTIdxCB (.bit 0 .m) = 20 ∧ Spec.docTED (.ldBlock false true) true = 21 := by decide

end ZxVerif.C03
