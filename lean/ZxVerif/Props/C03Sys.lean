/-
C03 / C04 on the composed machine — each instruction issues the documented cycles *on the machine bus*,
and therefore takes the documented T-states plus exactly the ULA delays the contention rules prescribe
for those cycles.

`Props/C03.lean` proves the documented cycle shapes on the recording bus; `Props/C04Sys.lean` proves that
the machine (`Spectrum.ZX`) charges every timed bus operation it is given the property's time. This file
closes the gap between the two on the machine itself:

* `tlog_shape_main/ed/cb/idxcb`, `int_entry_tlog`, `nmi_entry_tlog`: for EVERY instruction of the page,
  every prefix, CPU state and machine state, the timed operations appended to the machine's ghost log are
  exactly the documented cycles of `Spec.doc…` (Spec/Z80Cycles.lean) in their timed view
  (`Spectrum.timedOf`, Spec/Z80Timed.lean), the documentation being read against the memory the CPU sees
  at the start (`ZX.cpuMem`), each operation stamped with the paging latch in force when it starts.
* `step_tlog_*`: the same for one whole `emulate` (opcode fetches included) at any boundary that accepts
  no interrupt — instructions after EI/DI and after a parked DD/FD/ED prefix included.
* `time_of_shape`: glue — any machine transition inside the bus closure whose log grew by the timed view
  of a cycle list takes the T-states of the list plus the property's delays along it.
* `step_time_*`, `int_entry_time`, `exec_time_*`: **elapsed time of an instruction = documented T-states
  + Σ ULA delays over exactly its documented cycles**, at any point of the frame, in any `Good` state.

Helper lemmas: Lemmas/Z80TraceSys.lean.
-/
import ZxVerif.Lemmas.Z80TraceSys
import ZxVerif.Props.C03
import ZxVerif.Props.C04Sys
set_option linter.constructorNameAsVariable false
set_option linter.unusedSimpArgs false
namespace ZxVerif.C03Sys
open ZxVerif.Z80 ZxVerif.Machine ZxVerif.Spectrum ZxVerif.C05
open Spec (Cyc)

macro "zx_simp" : tactic => `(tactic|
  simp [exec, execED, execCall, operandAddr, fetchByte, fetchWord, push16, pop16, ZxVerif.Z80.read, ZxVerif.Z80.write,
    readWord, writeWord,
    waitMreq_tlog, waitMreq_mem, waitMreq_latch, waitNoMreq_tlog, waitNoMreq_mem, waitNoMreq_latch,
    waitInternal_tlog, waitInternal_mem, waitInternal_latch, readInternal_val, readInternal_bus,
    writeInternal_tlog, writeInternal_latch, readIo_tlog, Spectrum.readIo_mem, readIo_latch, writeIo_tlog,
    readInterrupt_eq, reti_eq, halt_eq, pcCallback_eq, Spectrum.waitLoop_mem, waitLoop_latch, waitLoop_tlog,
    timedOf, ZX.cpuMem, Ctl.readInternal,
    Cpu.idx, Cpu.ix, Cpu.iy, Cpu.hl, Cpu.bc, Cpu.de, Cpu.ir,
    Cpu.setBC, Cpu.setHL, Cpu.setDE, Cpu.setF,
    Spec.docMain, Spec.takenMain, Spec.opCycles, Spec.opAddr, Spec.rd3, Spec.wr3, Spec.imm16, Spec.pushCycles,
    Spec.popCycles, Spec.idle, List.reverse_append, Spec.docED, Spec.repeats, Spec.fetch4])

macro "zx_simp_all" : tactic => `(tactic|
  simp_all [exec, execED, execCall, operandAddr, fetchByte, fetchWord, push16, pop16, ZxVerif.Z80.read, ZxVerif.Z80.write,
    readWord, writeWord,
    waitMreq_tlog, waitMreq_mem, waitMreq_latch, waitNoMreq_tlog, waitNoMreq_mem, waitNoMreq_latch,
    waitInternal_tlog, waitInternal_mem, waitInternal_latch, readInternal_val, readInternal_bus,
    writeInternal_tlog, writeInternal_latch, readIo_tlog, Spectrum.readIo_mem, readIo_latch, writeIo_tlog,
    readInterrupt_eq, reti_eq, halt_eq, pcCallback_eq, Spectrum.waitLoop_mem, waitLoop_latch, waitLoop_tlog,
    timedOf, ZX.cpuMem, Ctl.readInternal,
    Cpu.idx, Cpu.ix, Cpu.iy, Cpu.hl, Cpu.bc, Cpu.de, Cpu.ir,
    Cpu.setBC, Cpu.setHL, Cpu.setDE, Cpu.setF,
    Spec.docMain, Spec.takenMain, Spec.opCycles, Spec.opAddr, Spec.rd3, Spec.wr3, Spec.imm16, Spec.pushCycles,
    Spec.popCycles, Spec.idle, List.reverse_append, Spec.docED, Spec.repeats, Spec.fetch4])

/-- **Timed shape on the machine, unprefixed and DD/FD pages.** After the opcode fetch(es), whatever the
machine state (any frame T-state, any paging), the timed operations the instruction appends to the
machine's log are exactly the timed view of its documented cycles — 3-T memory cycles at the documented
addresses, single delay T-states carrying IR, PC, SP or the operand address, port cycles — taken and
not-taken forms included, with the documentation read against the memory the CPU sees at the start.
Newest first, as the log is kept. -/
theorem tlog_shape_main (v : Variant) (p : Pfx) (i : Instr) (s : Cpu) (z : ZX) :
    (exec v p i s z).2.tlog =
      (timedOf z.ctl.port7ffd (exec v p i s z).2.ctl.port7ffd (Spec.docMain p i s z.cpuMem)).reverse ++ z.tlog := by
  cases i with
  | djnz => zx_simp; split <;> zx_simp_all
  | jrcc c => zx_simp; split <;> zx_simp_all
  | retcc c => zx_simp; split <;> zx_simp_all
  | callcc c => zx_simp; split <;> zx_simp_all
  | inc r => cases r <;> cases p <;> zx_simp
  | dec r => cases r <;> cases p <;> zx_simp
  | ldRN r => cases r <;> cases p <;> zx_simp
  | alu op r => cases r <;> cases p <;> zx_simp
  | ld d r => cases d <;> cases r <;> cases p <;> zx_simp
  | ldNNA => cases v <;> zx_simp
  | outNA => cases v <;> zx_simp
  | _ => zx_simp

/-- **Timed shape on the machine, ED page**, every iteration of the block instructions included. The five
repeat T-states of OTIR/OTDR follow the port write and are stamped with the latch that write left. -/
theorem tlog_shape_ed (i : EdInstr) (s : Cpu) (z : ZX) :
    (execED i s z).2.tlog =
      (timedOf z.ctl.port7ffd (execED i s z).2.ctl.port7ffd (Spec.docED i s z.cpuMem)).reverse ++ z.tlog := by
  cases i with
  | ldBlock d r => zx_simp; split <;> zx_simp_all
  | cpBlock d r => zx_simp; split <;> zx_simp_all
  | inBlock d r => zx_simp; split <;> zx_simp_all
  | outBlock d r => zx_simp; split <;> zx_simp_all
  | retn r => cases r <;> zx_simp
  | _ => zx_simp

/-- **Timed shape on the machine, CB page** (the second opcode fetch is part of it). -/
theorem tlog_shape_cb (s : Cpu) (z : ZX) :
    (execCB s z).2.tlog =
      (timedOf z.ctl.port7ffd (execCB s z).2.ctl.port7ffd (Spec.docCB s z.cpuMem)).reverse ++ z.tlog := by
  simp only [execCB, Spec.docCB, fetchByte, ZxVerif.Z80.read, readInternal_val, readInternal_bus, ZX.cpuMem,
    Ctl.readInternal, waitMreq_mem]
  generalize decodeCB (z.ctl.mem.read s.pc) = i
  cases i with
  | rot k r => cases r <;> zx_simp <;> simp [cbMem, cbOp, applyF, CbInstr.reg] <;> zx_simp
  | bit k r => cases r <;> zx_simp <;> simp [cbMem, cbOp, applyF, CbInstr.reg] <;> zx_simp
  | res k r => cases r <;> zx_simp <;> simp [cbMem, cbOp, applyF, CbInstr.reg] <;> zx_simp
  | set k r => cases r <;> zx_simp <;> simp [cbMem, cbOp, applyF, CbInstr.reg] <;> zx_simp

/-- **Timed shape on the machine, DDCB/FDCB.** -/
theorem tlog_shape_idxcb (p : Pfx) (s : Cpu) (z : ZX) :
    (execIdxCB p s z).2.tlog =
      (timedOf z.ctl.port7ffd (execIdxCB p s z).2.ctl.port7ffd (Spec.docIdxCB p s z.cpuMem)).reverse ++ z.tlog := by
  simp only [execIdxCB, Spec.docIdxCB, fetchByte, ZxVerif.Z80.read, readInternal_val, readInternal_bus, ZX.cpuMem,
    Ctl.readInternal, waitMreq_mem, Spectrum.waitLoop_mem]
  generalize decodeCB (z.ctl.mem.read (s.pc + 1)) = i
  cases i with
  | rot k r => cases r <;> cases p <;> simp [cbMem, cbOp, applyF, CbInstr.reg] <;> zx_simp
  | bit k r => cases r <;> cases p <;> simp [cbMem, cbOp, applyF, CbInstr.reg] <;> zx_simp
  | res k r => cases r <;> cases p <;> simp [cbMem, cbOp, applyF, CbInstr.reg] <;> zx_simp
  | set k r => cases r <;> cases p <;> simp [cbMem, cbOp, applyF, CbInstr.reg] <;> zx_simp

/-- **Interrupt acknowledge on the machine.** IM 0/1: two 3-T stack writes and seven address-less
T-states; IM 2: the two 3-T vector reads in between, at `I:FF` (the machine puts 0xFF on the bus). The
vector is read after the push (from the memory the push left), but the *cycles* depend only on its
address. -/
theorem int_entry_tlog (s : Cpu) (z : ZX) :
    (acceptInt s z).2.tlog =
      (timedOf z.ctl.port7ffd z.ctl.port7ffd
        (if s.im = 2 then Spec.docInt2 s (mk16 s.i 0xFF) else Spec.docInt01 s)).reverse ++ z.tlog := by
  by_cases hh : s.halted = true <;> by_cases hm : s.im = 2 <;>
    simp [acceptInt, releaseHalt, hh, hm, Spec.docInt2, Spec.docInt01] <;> zx_simp_all

/-- **NMI entry** (the machine never raises NMI; stated for the entry sequence itself): five delay
T-states at the return address, two stack writes. -/
theorem nmi_entry_tlog (s : Cpu) (z : ZX) :
    (acceptNmi s z).2.tlog =
      (timedOf z.ctl.port7ffd z.ctl.port7ffd (Spec.docNmi s (Spec.returnAddress s))).reverse ++ z.tlog := by
  by_cases hh : s.halted = true <;>
    simp [acceptNmi, releaseHalt, hh, Spec.docNmi, Spec.returnAddress] <;> zx_simp

/-! ## One whole `emulate` on the machine

`decision s z = .none`: the interrupt check at the start of this `emulate` accepts nothing — no request
pending, IFF1 clear, or held off by the preceding EI/DI/parked prefix (`decision_of_quiescent`,
`decision_of_skip`). `body1 s` / `body2 s` (Spec/Z80Timed.lean): the CPU state in which the instruction
body runs, one / two opcode-byte fetches later (PC behind the opcode, R counted, Q stepped). -/

/-- **A whole `emulate`, unprefixed instruction:** the machine's log grows by the 4-T opcode fetch at PC
followed by the documented cycles. -/
theorem step_tlog_unprefixed (v : Variant) (s : Cpu) (z : ZX) (hd : decision s z = .none)
    (hap : s.activePrefix = .none) (hnp : (decode (z.cpuMem s.pc)).isPrefix = false) :
    (emulate v (s, z)).2.tlog =
      (timedOf z.ctl.port7ffd (emulate v (s, z)).2.ctl.port7ffd
        (Spec.fetch4 s.pc ++ Spec.docMain .none (decode (z.cpuMem s.pc)) (body1 s) z.cpuMem)).reverse ++
        z.tlog := by
  rw [emulate_unprefixed v s z hd hap hnp, tlog_shape_main]
  simp [cpuMem_waitMreq, waitMreq_latch, waitMreq_tlog, Spec.fetch4, timedOf]

/-- **A whole `emulate`, DD/FD-prefixed instruction:** two 4-T fetches, then the documented cycles of the
indexed form. -/
theorem step_tlog_indexed (v : Variant) (p : Pfx) (hp : p ≠ .none) (s : Cpu) (z : ZX)
    (hd : decision s z = .none) (hap : s.activePrefix = .none) (h1 : z.cpuMem s.pc = pfxByte p)
    (hnp : (decode (z.cpuMem (s.pc + 1))).isPrefix = false) :
    (emulate v (s, z)).2.tlog =
      (timedOf z.ctl.port7ffd (emulate v (s, z)).2.ctl.port7ffd
        (Spec.fetch4 s.pc ++ Spec.fetch4 (s.pc + 1) ++
          Spec.docMain p (decode (z.cpuMem (s.pc + 1))) (body2 s) z.cpuMem)).reverse ++ z.tlog := by
  rw [emulate_indexed v p hp s z hd hap h1 hnp, tlog_shape_main]
  simp [cpuMem_waitMreq, waitMreq_latch, waitMreq_tlog, Spec.fetch4, timedOf]

/-- **A whole `emulate`, ED page** (block repeats included). -/
theorem step_tlog_ed (v : Variant) (s : Cpu) (z : ZX) (hd : decision s z = .none)
    (hap : s.activePrefix = .none) (h1 : z.cpuMem s.pc = 0xED) :
    (emulate v (s, z)).2.tlog =
      (timedOf z.ctl.port7ffd (emulate v (s, z)).2.ctl.port7ffd
        (Spec.fetch4 s.pc ++ Spec.fetch4 (s.pc + 1) ++
          Spec.docED (decodeED (z.cpuMem (s.pc + 1))) (body2 s) z.cpuMem)).reverse ++ z.tlog := by
  rw [emulate_ed v s z hd hap h1, tlog_shape_ed]
  simp [cpuMem_waitMreq, waitMreq_latch, waitMreq_tlog, Spec.fetch4, timedOf]

/-- **A whole `emulate`, CB page.** -/
theorem step_tlog_cb (v : Variant) (s : Cpu) (z : ZX) (hd : decision s z = .none)
    (hap : s.activePrefix = .none) (h1 : z.cpuMem s.pc = 0xCB) :
    (emulate v (s, z)).2.tlog =
      (timedOf z.ctl.port7ffd (emulate v (s, z)).2.ctl.port7ffd
        (Spec.fetch4 s.pc ++ Spec.docCB (body1 s) z.cpuMem)).reverse ++ z.tlog := by
  rw [emulate_cb v s z hd hap h1, tlog_shape_cb]
  simp [cpuMem_waitMreq, waitMreq_latch, waitMreq_tlog, Spec.fetch4, timedOf]

/-- **A whole `emulate`, DDCB/FDCB.** -/
theorem step_tlog_ddcb (v : Variant) (p : Pfx) (hp : p ≠ .none) (s : Cpu) (z : ZX)
    (hd : decision s z = .none) (hap : s.activePrefix = .none) (h1 : z.cpuMem s.pc = pfxByte p)
    (h2 : z.cpuMem (s.pc + 1) = 0xCB) :
    (emulate v (s, z)).2.tlog =
      (timedOf z.ctl.port7ffd (emulate v (s, z)).2.ctl.port7ffd
        (Spec.fetch4 s.pc ++ Spec.fetch4 (s.pc + 1) ++ Spec.docIdxCB p (body2 s) z.cpuMem)).reverse ++
        z.tlog := by
  rw [emulate_ddcb v p hp s z hd hap h1 h2, tlog_shape_idxcb]
  simp [cpuMem_waitMreq, waitMreq_latch, waitMreq_tlog, Spec.fetch4, timedOf]

/-- **An `emulate` that starts with a parked DD/FD prefix** (the previous call fetched DD/FD and then another
prefix byte): one 4-T fetch, then the documented cycles of the indexed form. -/
theorem step_tlog_parked_indexed (v : Variant) (p : Pfx) (hp : p ≠ .none) (s : Cpu) (z : ZX)
    (hd : decision s z = .none) (hap : s.activePrefix = parked p)
    (hnp : (decode (z.cpuMem s.pc)).isPrefix = false) :
    (emulate v (s, z)).2.tlog =
      (timedOf z.ctl.port7ffd (emulate v (s, z)).2.ctl.port7ffd
        (Spec.fetch4 s.pc ++ Spec.docMain p (decode (z.cpuMem s.pc)) (body1 s) z.cpuMem)).reverse ++
        z.tlog := by
  rw [emulate_parked_indexed v p hp s z hd hap hnp, tlog_shape_main]
  simp [cpuMem_waitMreq, waitMreq_latch, waitMreq_tlog, Spec.fetch4, timedOf]

/-- … parked DD/FD, then CB: the DDCB/FDCB cycles. -/
theorem step_tlog_parked_ddcb (v : Variant) (p : Pfx) (hp : p ≠ .none) (s : Cpu) (z : ZX)
    (hd : decision s z = .none) (hap : s.activePrefix = parked p) (h1 : z.cpuMem s.pc = 0xCB) :
    (emulate v (s, z)).2.tlog =
      (timedOf z.ctl.port7ffd (emulate v (s, z)).2.ctl.port7ffd
        (Spec.fetch4 s.pc ++ Spec.docIdxCB p (body1 s) z.cpuMem)).reverse ++ z.tlog := by
  rw [emulate_parked_ddcb v p hp s z hd hap h1, tlog_shape_idxcb]
  simp [cpuMem_waitMreq, waitMreq_latch, waitMreq_tlog, Spec.fetch4, timedOf]

/-- … parked ED (after DD ED / FD ED): the ED-page cycles. -/
theorem step_tlog_parked_ed (v : Variant) (s : Cpu) (z : ZX) (hd : decision s z = .none)
    (hap : s.activePrefix = .ed) :
    (emulate v (s, z)).2.tlog =
      (timedOf z.ctl.port7ffd (emulate v (s, z)).2.ctl.port7ffd
        (Spec.fetch4 s.pc ++ Spec.docED (decodeED (z.cpuMem s.pc)) (body1 s) z.cpuMem)).reverse ++ z.tlog := by
  rw [emulate_parked_ed v s z hd hap, tlog_shape_ed]
  simp [cpuMem_waitMreq, waitMreq_latch, waitMreq_tlog, Spec.fetch4, timedOf]

/-- **A boundary that accepts the frame interrupt** first shows the acknowledge cycles in the log (the
first instruction of the service routine then runs in the same `emulate`, covered by the theorems above). -/
theorem interrupt_step_tlog (s : Cpu) (z : ZX) (h : decision s z = .int) :
    (checkInterrupt s z).2.tlog =
      (timedOf z.ctl.port7ffd z.ctl.port7ffd
        (if s.im = 2 then Spec.docInt2 s (mk16 s.i 0xFF) else Spec.docInt01 s)).reverse ++ z.tlog := by
  rw [checkInterrupt_eq_decision, h]; exact int_entry_tlog s z

/-! ## Time: documented T-states + the ULA delays over the documented cycles -/

/-- **Glue between C03 and C04 on the machine.** If `z'` is reached from a `Good` state `z` by bus
operations (`C04Sys.Timed`, which `C04Sys.timed_closed` gives for `exec`, `emulate`, interrupt entry, whole
programs) and the log grew by exactly the timed view of the cycle list `cs`, then the time that passed
is the T-states of `cs` plus the property's ULA delays met along `cs`, each looked up at the moment its
cycle starts; and the rules keep applying. -/
theorem time_of_shape {z z' : ZX} (ht : C04Sys.Timed z z') (hg : C04Sys.Good z.ctl) (l1 : BitVec 8)
    (cs : List Cyc) (hs : z'.tlog = (timedOf z.ctl.port7ffd l1 cs).reverse ++ z.tlog) :
    total z'.ctl = total z.ctl + Spec.tsum cs +
        C04Sys.delaysAlong z.ctl.kind (total z.ctl) (timedOf z.ctl.port7ffd l1 cs) ∧
    C04Sys.Good z'.ctl := by
  obtain ⟨d, hl, h⟩ := ht
  obtain ⟨g, _, t⟩ := h hg
  have hd : d = (timedOf z.ctl.port7ffd l1 cs).reverse := List.append_cancel_right (hl.symm.trans hs)
  refine ⟨?_, g⟩
  rw [t, hd, List.reverse_reverse, C04Sys.specReplay_decomposes,
    timedOf_plain_sum C04Sys.plainClocks (fun _ _ => rfl) (fun _ => rfl) (fun _ => rfl)]

/-- **Main page, after the opcode fetch(es):** time = T-states of the documented cycles + the ULA delays
over exactly those cycles (`C03.tstates_main`: 4 + those T-states = the documented total). -/
theorem exec_time_main (v : Variant) (p : Pfx) (i : Instr) (s : Cpu) (z : ZX) (hg : C04Sys.Good z.ctl) :
    total (exec v p i s z).2.ctl = total z.ctl + Spec.tsum (Spec.docMain p i s z.cpuMem) +
        C04Sys.delaysAlong z.ctl.kind (total z.ctl)
          (timedOf z.ctl.port7ffd (exec v p i s z).2.ctl.port7ffd (Spec.docMain p i s z.cpuMem)) ∧
    C04Sys.Good (exec v p i s z).2.ctl :=
  time_of_shape (C04Sys.timed_closed.k_exec v p i s (C04Sys.timed_closed.refl z)) hg _ _ (tlog_shape_main v p i s z)

/-- **ED page, after the two opcode fetches.** -/
theorem exec_time_ed (i : EdInstr) (s : Cpu) (z : ZX) (hg : C04Sys.Good z.ctl) :
    total (execED i s z).2.ctl = total z.ctl + Spec.tsum (Spec.docED i s z.cpuMem) +
        C04Sys.delaysAlong z.ctl.kind (total z.ctl)
          (timedOf z.ctl.port7ffd (execED i s z).2.ctl.port7ffd (Spec.docED i s z.cpuMem)) ∧
    C04Sys.Good (execED i s z).2.ctl :=
  time_of_shape (C04Sys.timed_closed.k_execED i s (C04Sys.timed_closed.refl z)) hg _ _ (tlog_shape_ed i s z)

/-- **CB page, after the prefix fetch.** -/
theorem exec_time_cb (s : Cpu) (z : ZX) (hg : C04Sys.Good z.ctl) :
    total (execCB s z).2.ctl = total z.ctl + Spec.tsum (Spec.docCB s z.cpuMem) +
        C04Sys.delaysAlong z.ctl.kind (total z.ctl)
          (timedOf z.ctl.port7ffd (execCB s z).2.ctl.port7ffd (Spec.docCB s z.cpuMem)) ∧
    C04Sys.Good (execCB s z).2.ctl :=
  time_of_shape (C04Sys.timed_closed.k_execCB s (C04Sys.timed_closed.refl z)) hg _ _ (tlog_shape_cb s z)

/-- **DDCB/FDCB, after the two prefix fetches.** -/
theorem exec_time_idxcb (p : Pfx) (s : Cpu) (z : ZX) (hg : C04Sys.Good z.ctl) :
    total (execIdxCB p s z).2.ctl = total z.ctl + Spec.tsum (Spec.docIdxCB p s z.cpuMem) +
        C04Sys.delaysAlong z.ctl.kind (total z.ctl)
          (timedOf z.ctl.port7ffd (execIdxCB p s z).2.ctl.port7ffd (Spec.docIdxCB p s z.cpuMem)) ∧
    C04Sys.Good (execIdxCB p s z).2.ctl :=
  time_of_shape (C04Sys.timed_closed.k_execIdxCB p s (C04Sys.timed_closed.refl z)) hg _ _ (tlog_shape_idxcb p s z)

/-- **Interrupt entry on the machine takes 13 (IM 0/1) or 19 (IM 2) T-states plus the ULA delays** of its
stack writes (and vector reads), wherever the stack and the vector table lie and whenever in the frame
it happens. -/
theorem int_entry_time (s : Cpu) (z : ZX) (hg : C04Sys.Good z.ctl) :
    total (acceptInt s z).2.ctl = total z.ctl + (if s.im = 2 then 19 else 13) +
        C04Sys.delaysAlong z.ctl.kind (total z.ctl)
          (timedOf z.ctl.port7ffd z.ctl.port7ffd
            (if s.im = 2 then Spec.docInt2 s (mk16 s.i 0xFF) else Spec.docInt01 s)) ∧
    C04Sys.Good (acceptInt s z).2.ctl := by
  obtain ⟨t, g⟩ := time_of_shape (C04Sys.timed_closed.k_acceptInt s (C04Sys.timed_closed.refl z)) hg _ _
    (int_entry_tlog s z)
  refine ⟨?_, g⟩
  rw [t]
  split
  · rw [(C03.int_entry_T s (mk16 s.i 0xFF) 0).2.1]
  · rw [(C03.int_entry_T s 0 0).1]

/-- … and so does the interrupt check of an `emulate` that accepts the frame interrupt. -/
theorem interrupt_step_time (s : Cpu) (z : ZX) (hg : C04Sys.Good z.ctl) (h : decision s z = .int) :
    total (checkInterrupt s z).2.ctl = total z.ctl + (if s.im = 2 then 19 else 13) +
        C04Sys.delaysAlong z.ctl.kind (total z.ctl)
          (timedOf z.ctl.port7ffd z.ctl.port7ffd
            (if s.im = 2 then Spec.docInt2 s (mk16 s.i 0xFF) else Spec.docInt01 s)) ∧
    C04Sys.Good (checkInterrupt s z).2.ctl := by
  rw [checkInterrupt_eq_decision, h]; exact int_entry_time s z hg

/-- **C04 per instruction, unprefixed page.** One `emulate` of any non-prefix instruction, at any frame
T-state of either machine, in any `Good` state (paging as it may be; no interrupt accepted at this
boundary): elapsed time = the documented T-states of the instruction (timing variant chosen by the
documented condition) + the sum of the property's ULA delays over exactly its documented cycles — the
opcode fetch and each read, write, delay T-state and port cycle, each looked up at the T-state at which
it starts. -/
theorem step_time_unprefixed (v : Variant) (s : Cpu) (z : ZX) (hg : C04Sys.Good z.ctl)
    (hd : decision s z = .none) (hap : s.activePrefix = .none)
    (hnp : (decode (z.cpuMem s.pc)).isPrefix = false) :
    total (emulate v (s, z)).2.ctl =
      total z.ctl +
        Spec.docTMain .none (decode (z.cpuMem s.pc)) (Spec.takenMain (decode (z.cpuMem s.pc)) (body1 s)) +
        C04Sys.delaysAlong z.ctl.kind (total z.ctl)
          (timedOf z.ctl.port7ffd (emulate v (s, z)).2.ctl.port7ffd
            (Spec.fetch4 s.pc ++ Spec.docMain .none (decode (z.cpuMem s.pc)) (body1 s) z.cpuMem)) ∧
    C04Sys.Good (emulate v (s, z)).2.ctl := by
  obtain ⟨t, g⟩ := time_of_shape (C04Sys.timed_closed.emulate v s z) hg _ _ (step_tlog_unprefixed v s z hd hap hnp)
  refine ⟨?_, g⟩
  rw [t, tsum_append, tsum_fetch4, ← C03.tstates_main .none _ _ z.cpuMem hnp]

/-- **C04 per instruction, DD/FD forms:** 4 T for the prefix fetch + the documented T-states of the indexed
form + the ULA delays over the two fetches and the documented cycles. -/
theorem step_time_indexed (v : Variant) (p : Pfx) (hp : p ≠ .none) (s : Cpu) (z : ZX) (hg : C04Sys.Good z.ctl)
    (hd : decision s z = .none) (hap : s.activePrefix = .none) (h1 : z.cpuMem s.pc = pfxByte p)
    (hnp : (decode (z.cpuMem (s.pc + 1))).isPrefix = false) :
    total (emulate v (s, z)).2.ctl =
      total z.ctl +
        (4 + Spec.docTMain p (decode (z.cpuMem (s.pc + 1)))
          (Spec.takenMain (decode (z.cpuMem (s.pc + 1))) (body2 s))) +
        C04Sys.delaysAlong z.ctl.kind (total z.ctl)
          (timedOf z.ctl.port7ffd (emulate v (s, z)).2.ctl.port7ffd
            (Spec.fetch4 s.pc ++ Spec.fetch4 (s.pc + 1) ++
              Spec.docMain p (decode (z.cpuMem (s.pc + 1))) (body2 s) z.cpuMem)) ∧
    C04Sys.Good (emulate v (s, z)).2.ctl := by
  obtain ⟨t, g⟩ := time_of_shape (C04Sys.timed_closed.emulate v s z) hg _ _
    (step_tlog_indexed v p hp s z hd hap h1 hnp)
  refine ⟨?_, g⟩
  rw [t, tsum_append, tsum_append, tsum_fetch4, tsum_fetch4, ← C03.tstates_main p _ _ z.cpuMem hnp]
  omega

/-- **C04 per instruction, ED page** — 21 vs 16 for every iteration of the block instructions. -/
theorem step_time_ed (v : Variant) (s : Cpu) (z : ZX) (hg : C04Sys.Good z.ctl) (hd : decision s z = .none)
    (hap : s.activePrefix = .none) (h1 : z.cpuMem s.pc = 0xED) :
    total (emulate v (s, z)).2.ctl =
      total z.ctl +
        Spec.docTED (decodeED (z.cpuMem (s.pc + 1)))
          (Spec.repeats (decodeED (z.cpuMem (s.pc + 1))) (body2 s) z.cpuMem) +
        C04Sys.delaysAlong z.ctl.kind (total z.ctl)
          (timedOf z.ctl.port7ffd (emulate v (s, z)).2.ctl.port7ffd
            (Spec.fetch4 s.pc ++ Spec.fetch4 (s.pc + 1) ++
              Spec.docED (decodeED (z.cpuMem (s.pc + 1))) (body2 s) z.cpuMem)) ∧
    C04Sys.Good (emulate v (s, z)).2.ctl := by
  obtain ⟨t, g⟩ := time_of_shape (C04Sys.timed_closed.emulate v s z) hg _ _ (step_tlog_ed v s z hd hap h1)
  refine ⟨?_, g⟩
  rw [t, tsum_append, tsum_append, tsum_fetch4, tsum_fetch4, ← C03.repeat_T]

/-- **C04 per instruction, CB page:** 8 / 12 / 15 + delays. -/
theorem step_time_cb (v : Variant) (s : Cpu) (z : ZX) (hg : C04Sys.Good z.ctl) (hd : decision s z = .none)
    (hap : s.activePrefix = .none) (h1 : z.cpuMem s.pc = 0xCB) :
    total (emulate v (s, z)).2.ctl =
      total z.ctl + Spec.docTCB (decodeCB (z.cpuMem (s.pc + 1))) +
        C04Sys.delaysAlong z.ctl.kind (total z.ctl)
          (timedOf z.ctl.port7ffd (emulate v (s, z)).2.ctl.port7ffd
            (Spec.fetch4 s.pc ++ Spec.docCB (body1 s) z.cpuMem)) ∧
    C04Sys.Good (emulate v (s, z)).2.ctl := by
  obtain ⟨t, g⟩ := time_of_shape (C04Sys.timed_closed.emulate v s z) hg _ _ (step_tlog_cb v s z hd hap h1)
  refine ⟨?_, g⟩
  have hT : 4 + Spec.tsum (Spec.docCB (body1 s) z.cpuMem) = Spec.docTCB (decodeCB (z.cpuMem (s.pc + 1))) :=
    C03.cb_T (body1 s) z.cpuMem
  rw [t, tsum_append, tsum_fetch4, hT]

/-- **C04 per instruction, DDCB/FDCB:** 20 (BIT) / 23 + delays. -/
theorem step_time_ddcb (v : Variant) (p : Pfx) (hp : p ≠ .none) (s : Cpu) (z : ZX) (hg : C04Sys.Good z.ctl)
    (hd : decision s z = .none) (hap : s.activePrefix = .none) (h1 : z.cpuMem s.pc = pfxByte p)
    (h2 : z.cpuMem (s.pc + 1) = 0xCB) :
    total (emulate v (s, z)).2.ctl =
      total z.ctl + Spec.docTIdxCB (decodeCB (z.cpuMem (s.pc + 1 + 1 + 1))) +
        C04Sys.delaysAlong z.ctl.kind (total z.ctl)
          (timedOf z.ctl.port7ffd (emulate v (s, z)).2.ctl.port7ffd
            (Spec.fetch4 s.pc ++ Spec.fetch4 (s.pc + 1) ++ Spec.docIdxCB p (body2 s) z.cpuMem)) ∧
    C04Sys.Good (emulate v (s, z)).2.ctl := by
  obtain ⟨t, g⟩ := time_of_shape (C04Sys.timed_closed.emulate v s z) hg _ _
    (step_tlog_ddcb v p hp s z hd hap h1 h2)
  refine ⟨?_, g⟩
  have hT : 8 + Spec.tsum (Spec.docIdxCB p (body2 s) z.cpuMem) =
      Spec.docTIdxCB (decodeCB (z.cpuMem (s.pc + 1 + 1 + 1))) := C03.ddcb_T p (body2 s) z.cpuMem
  rw [t, tsum_append, tsum_append, tsum_fetch4, tsum_fetch4, ← hT]

/-- **Parked DD/FD prefix:** the `emulate` that runs the instruction takes its documented T-states (the
4 T of the prefix were spent in the previous call) + the delays over its own fetch and cycles. -/
theorem step_time_parked_indexed (v : Variant) (p : Pfx) (hp : p ≠ .none) (s : Cpu) (z : ZX)
    (hg : C04Sys.Good z.ctl) (hd : decision s z = .none) (hap : s.activePrefix = parked p)
    (hnp : (decode (z.cpuMem s.pc)).isPrefix = false) :
    total (emulate v (s, z)).2.ctl =
      total z.ctl +
        Spec.docTMain p (decode (z.cpuMem s.pc)) (Spec.takenMain (decode (z.cpuMem s.pc)) (body1 s)) +
        C04Sys.delaysAlong z.ctl.kind (total z.ctl)
          (timedOf z.ctl.port7ffd (emulate v (s, z)).2.ctl.port7ffd
            (Spec.fetch4 s.pc ++ Spec.docMain p (decode (z.cpuMem s.pc)) (body1 s) z.cpuMem)) ∧
    C04Sys.Good (emulate v (s, z)).2.ctl := by
  obtain ⟨t, g⟩ := time_of_shape (C04Sys.timed_closed.emulate v s z) hg _ _
    (step_tlog_parked_indexed v p hp s z hd hap hnp)
  refine ⟨?_, g⟩
  rw [t, tsum_append, tsum_fetch4, ← C03.tstates_main p _ _ z.cpuMem hnp]

/-- … parked DD/FD then CB: with the 4 T of the parked prefix the documented 20 / 23 + delays. -/
theorem step_time_parked_ddcb (v : Variant) (p : Pfx) (hp : p ≠ .none) (s : Cpu) (z : ZX)
    (hg : C04Sys.Good z.ctl) (hd : decision s z = .none) (hap : s.activePrefix = parked p)
    (h1 : z.cpuMem s.pc = 0xCB) :
    4 + total (emulate v (s, z)).2.ctl =
      total z.ctl + Spec.docTIdxCB (decodeCB (z.cpuMem (s.pc + 1 + 1))) +
        C04Sys.delaysAlong z.ctl.kind (total z.ctl)
          (timedOf z.ctl.port7ffd (emulate v (s, z)).2.ctl.port7ffd
            (Spec.fetch4 s.pc ++ Spec.docIdxCB p (body1 s) z.cpuMem)) ∧
    C04Sys.Good (emulate v (s, z)).2.ctl := by
  obtain ⟨t, g⟩ := time_of_shape (C04Sys.timed_closed.emulate v s z) hg _ _
    (step_tlog_parked_ddcb v p hp s z hd hap h1)
  refine ⟨?_, g⟩
  have hT : 8 + Spec.tsum (Spec.docIdxCB p (body1 s) z.cpuMem) =
      Spec.docTIdxCB (decodeCB (z.cpuMem (s.pc + 1 + 1))) := C03.ddcb_T p (body1 s) z.cpuMem
  rw [t, tsum_append, tsum_fetch4, ← hT]
  omega

/-- … parked ED: with the 4 T of the parked prefix the documented ED-page T-states + delays. -/
theorem step_time_parked_ed (v : Variant) (s : Cpu) (z : ZX) (hg : C04Sys.Good z.ctl)
    (hd : decision s z = .none) (hap : s.activePrefix = .ed) :
    4 + total (emulate v (s, z)).2.ctl =
      total z.ctl +
        Spec.docTED (decodeED (z.cpuMem s.pc)) (Spec.repeats (decodeED (z.cpuMem s.pc)) (body1 s) z.cpuMem) +
        C04Sys.delaysAlong z.ctl.kind (total z.ctl)
          (timedOf z.ctl.port7ffd (emulate v (s, z)).2.ctl.port7ffd
            (Spec.fetch4 s.pc ++ Spec.docED (decodeED (z.cpuMem s.pc)) (body1 s) z.cpuMem)) ∧
    C04Sys.Good (emulate v (s, z)).2.ctl := by
  obtain ⟨t, g⟩ := time_of_shape (C04Sys.timed_closed.emulate v s z) hg _ _ (step_tlog_parked_ed v s z hd hap)
  refine ⟨?_, g⟩
  rw [t, tsum_append, tsum_fetch4, ← C03.repeat_T]
  omega

/-- On a 48K machine, and on a 128K machine whose paging lock is set, the latch stamped on the cycles
that follow a port write (`l1` above) is the latch the instruction started with: no port write moves it
(`C06Sys.lockKept_closed`). -/
theorem step_latch_locked (v : Variant) (s : Cpu) (z : ZX) (hl : z.ctl.pagingEnabled = false) :
    (emulate v (s, z)).2.ctl.port7ffd = z.ctl.port7ffd :=
  (C06Sys.lockKept_closed.emulate v s z hl).2.1

/-! ## Non-vacuity -/

/-- a 48K machine at the first contended T-state of the frame (14335) with `LD A,(HL)` (0x7E) at 0x8000
(uncontended RAM) and at 0x4000 (contended RAM) -/
def exampleZX : ZX :=
  { ZX.new .k48 false false with
    ctl := { Ctl.new .k48 with
      frameClocks := 14335
      mem := { Mem.new .k48 with ram := fun p o => if (p = 1 ∨ p = 0) ∧ o = 0 then 0x7E else 0 } } }

/-- HL = 0x4001: the operand lies in contended RAM -/
def exampleCpu (pc : BitVec 16) : Cpu := { pc := pc, h := 0x40, l := 0x01 }

/-- the hypotheses of `step_time_unprefixed` hold in that state, the instruction is `LD A,(HL)` -/
example : C04Sys.Good exampleZX.ctl ∧ decision (exampleCpu 0x8000) exampleZX = .none ∧
    (exampleCpu 0x8000).activePrefix = .none ∧
    decode (exampleZX.cpuMem (exampleCpu 0x8000).pc) = .ld .a .m ∧
    (decode (exampleZX.cpuMem (exampleCpu 0x8000).pc)).isPrefix = false :=
  ⟨⟨by decide, Or.inl ⟨rfl, rfl, rfl⟩⟩, by decide, rfl, by decide, by decide⟩

/-- … and its right-hand side is 7 documented T-states + 2 T-states of delay: the fetch from 0x8000 is not
delayed, the read at HL = 0x4001 starts at T = 14339 = T0 + 4 and waits 2 -/
example :
    Spec.docTMain .none (decode (exampleZX.cpuMem 0x8000))
      (Spec.takenMain (decode (exampleZX.cpuMem 0x8000))
        (body1 (exampleCpu 0x8000))) = 7 ∧
    C04Sys.delaysAlong .k48 14335 (timedOf 0 0 (Spec.fetch4 0x8000 ++
      Spec.docMain .none (decode (exampleZX.cpuMem 0x8000))
        (body1 (exampleCpu 0x8000)) exampleZX.cpuMem)) = 2 := by decide

/-- the machine agrees: 7 + 2 with the code in uncontended RAM; with the code in contended RAM as well the
fetch at T0 waits 6 and the read (now at T0 + 10) waits 4 -/
example :
    total (step (exampleCpu 0x8000, exampleZX)).2.ctl = total exampleZX.ctl + 7 + 2 ∧
    total (step (exampleCpu 0x4000, exampleZX)).2.ctl = total exampleZX.ctl + 7 + (6 + 4) := by decide

end ZxVerif.C03Sys
