/-
C03 / C04 on the composed machine — each instruction issues the documented cycles *on the machine bus*,
and therefore takes the documented T-states plus exactly the ULA delays the contention rules prescribe
for those cycles.

`Props/C03.lean` proves the documented cycle shapes on the recording bus; `Props/C04Sys.lean` proves that
the machine (`Spectrum.ZX`) charges every timed bus operation it is given the property's time. This file
closes the gap between the two on the machine itself:

* `tlog_shape_main/ed/cb/idxcb`, `int_entry_tlog`, `nmi_entry_tlog`: for EVERY instruction of the page,
  every prefix, CPU state and machine state, the timed operations appended to the machine's ghost log are
  exactly the documented cycles of `Spec.doc…` (Spec/Z80Cycles.lean) in their timed view
  (`Spectrum.timedOf`, Spec/Z80Timed.lean), the documentation being read against the memory the CPU sees
  at the start (`ZX.cpuMem`), each operation stamped with the paging latch in force when it starts.
* `step_tlog_*`: the same for one whole `emulate` (opcode fetches included).
* `time_of_shape`: glue — any machine transition inside the bus closure whose log grew by the timed view
  of a cycle list takes the T-states of the list plus the property's delays along it.
* `step_time_*`, `int_entry_time`, `exec_time_*`: **elapsed time of an instruction = documented T-states
  + Σ ULA delays over exactly its documented cycles**, at any point of the frame, in any `Good` state.

Helper lemmas: Lemmas/Z80TraceSys.lean.
-/
import ZxVerif.Lemmas.Z80TraceSys
import ZxVerif.Props.C03
import ZxVerif.Props.C04Sys
set_option linter.constructorNameAsVariable false
set_option linter.unusedSimpArgs false
namespace ZxVerif.C03Sys
open ZxVerif.Z80 ZxVerif.Machine ZxVerif.Spectrum ZxVerif.C05
open Spec (Cyc)

macro "zx_simp" : tactic => `(tactic|
  simp [exec, execED, execCall, operandAddr, fetchByte, fetchWord, push16, pop16, ZxVerif.Z80.read, ZxVerif.Z80.write,
    readWord, writeWord,
    waitMreq_tlog, waitMreq_mem, waitMreq_latch, waitNoMreq_tlog, waitNoMreq_mem, waitNoMreq_latch,
    waitInternal_tlog, waitInternal_mem, waitInternal_latch, readInternal_val, readInternal_bus,
    writeInternal_tlog, writeInternal_latch, readIo_tlog, Spectrum.readIo_mem, readIo_latch, writeIo_tlog,
    readInterrupt_eq, reti_eq, halt_eq, pcCallback_eq, Spectrum.waitLoop_mem, waitLoop_latch, waitLoop_tlog,
    timedOf, ZX.cpuMem, Ctl.readInternal,
    Cpu.idx, Cpu.ix, Cpu.iy, Cpu.hl, Cpu.bc, Cpu.de, Cpu.ir,
    Cpu.setBC, Cpu.setHL, Cpu.setDE, Cpu.setF,
    Spec.docMain, Spec.takenMain, Spec.opCycles, Spec.opAddr, Spec.rd3, Spec.wr3, Spec.imm16, Spec.pushCycles,
    Spec.popCycles, Spec.idle, List.reverse_append, Spec.docED, Spec.repeats, Spec.fetch4])

macro "zx_simp_all" : tactic => `(tactic|
  simp_all [exec, execED, execCall, operandAddr, fetchByte, fetchWord, push16, pop16, ZxVerif.Z80.read, ZxVerif.Z80.write,
    readWord, writeWord,
    waitMreq_tlog, waitMreq_mem, waitMreq_latch, waitNoMreq_tlog, waitNoMreq_mem, waitNoMreq_latch,
    waitInternal_tlog, waitInternal_mem, waitInternal_latch, readInternal_val, readInternal_bus,
    writeInternal_tlog, writeInternal_latch, readIo_tlog, Spectrum.readIo_mem, readIo_latch, writeIo_tlog,
    readInterrupt_eq, reti_eq, halt_eq, pcCallback_eq, Spectrum.waitLoop_mem, waitLoop_latch, waitLoop_tlog,
    timedOf, ZX.cpuMem, Ctl.readInternal,
    Cpu.idx, Cpu.ix, Cpu.iy, Cpu.hl, Cpu.bc, Cpu.de, Cpu.ir,
    Cpu.setBC, Cpu.setHL, Cpu.setDE, Cpu.setF,
    Spec.docMain, Spec.takenMain, Spec.opCycles, Spec.opAddr, Spec.rd3, Spec.wr3, Spec.imm16, Spec.pushCycles,
    Spec.popCycles, Spec.idle, List.reverse_append, Spec.docED, Spec.repeats, Spec.fetch4])

/-- **Timed shape on the machine, unprefixed and DD/FD pages.** After the opcode fetch(es), whatever the
machine state (any frame T-state, any paging), the timed operations the instruction appends to the
machine's log are exactly the timed view of its documented cycles — 3-T memory cycles at the documented
addresses, single delay T-states carrying IR, PC, SP or the operand address, port cycles — taken and
not-taken forms included, with the documentation read against the memory the CPU sees at the start.
Newest first, as the log is kept. -/
theorem tlog_shape_main (v : Variant) (p : Pfx) (i : Instr) (s : Cpu) (z : ZX) :
    (exec v p i s z).2.tlog =
      (timedOf z.ctl.port7ffd (exec v p i s z).2.ctl.port7ffd (Spec.docMain p i s z.cpuMem)).reverse ++ z.tlog := by
  cases i with
  | djnz => zx_simp; split <;> zx_simp_all
  | jrcc c => zx_simp; split <;> zx_simp_all
  | retcc c => zx_simp; split <;> zx_simp_all
  | callcc c => zx_simp; split <;> zx_simp_all
  | inc r => cases r <;> cases p <;> zx_simp
  | dec r => cases r <;> cases p <;> zx_simp
  | ldRN r => cases r <;> cases p <;> zx_simp
  | alu op r => cases r <;> cases p <;> zx_simp
  | ld d r => cases d <;> cases r <;> cases p <;> zx_simp
  | ldNNA => cases v <;> zx_simp
  | outNA => cases v <;> zx_simp
  | _ => zx_simp

/-- **Timed shape on the machine, ED page**, every iteration of the block instructions included. The five
repeat T-states of OTIR/OTDR follow the port write and are stamped with the latch that write left. -/
theorem tlog_shape_ed (i : EdInstr) (s : Cpu) (z : ZX) :
    (execED i s z).2.tlog =
      (timedOf z.ctl.port7ffd (execED i s z).2.ctl.port7ffd (Spec.docED i s z.cpuMem)).reverse ++ z.tlog := by
  cases i with
  | ldBlock d r => zx_simp; split <;> zx_simp_all
  | cpBlock d r => zx_simp; split <;> zx_simp_all
  | inBlock d r => zx_simp; split <;> zx_simp_all
  | outBlock d r => zx_simp; split <;> zx_simp_all
  | retn r => cases r <;> zx_simp
  | _ => zx_simp

/-- **Timed shape on the machine, CB page** (the second opcode fetch is part of it). -/
theorem tlog_shape_cb (s : Cpu) (z : ZX) :
    (execCB s z).2.tlog =
      (timedOf z.ctl.port7ffd (execCB s z).2.ctl.port7ffd (Spec.docCB s z.cpuMem)).reverse ++ z.tlog := by
  simp only [execCB, Spec.docCB, fetchByte, ZxVerif.Z80.read, readInternal_val, readInternal_bus, ZX.cpuMem,
    Ctl.readInternal, waitMreq_mem]
  generalize decodeCB (z.ctl.mem.read s.pc) = i
  cases i with
  | rot k r => cases r <;> zx_simp <;> simp [cbMem, cbOp, applyF, CbInstr.reg] <;> zx_simp
  | bit k r => cases r <;> zx_simp <;> simp [cbMem, cbOp, applyF, CbInstr.reg] <;> zx_simp
  | res k r => cases r <;> zx_simp <;> simp [cbMem, cbOp, applyF, CbInstr.reg] <;> zx_simp
  | set k r => cases r <;> zx_simp <;> simp [cbMem, cbOp, applyF, CbInstr.reg] <;> zx_simp

/-- **Timed shape on the machine, DDCB/FDCB.** -/
theorem tlog_shape_idxcb (p : Pfx) (s : Cpu) (z : ZX) :
    (execIdxCB p s z).2.tlog =
      (timedOf z.ctl.port7ffd (execIdxCB p s z).2.ctl.port7ffd (Spec.docIdxCB p s z.cpuMem)).reverse ++ z.tlog := by
  simp only [execIdxCB, Spec.docIdxCB, fetchByte, ZxVerif.Z80.read, readInternal_val, readInternal_bus, ZX.cpuMem,
    Ctl.readInternal, waitMreq_mem, Spectrum.waitLoop_mem]
  generalize decodeCB (z.ctl.mem.read (s.pc + 1)) = i
  cases i with
  | rot k r => cases r <;> cases p <;> simp [cbMem, cbOp, applyF, CbInstr.reg] <;> zx_simp
  | bit k r => cases r <;> cases p <;> simp [cbMem, cbOp, applyF, CbInstr.reg] <;> zx_simp
  | res k r => cases r <;> cases p <;> simp [cbMem, cbOp, applyF, CbInstr.reg] <;> zx_simp
  | set k r => cases r <;> cases p <;> simp [cbMem, cbOp, applyF, CbInstr.reg] <;> zx_simp

/-- **Interrupt acknowledge on the machine.** IM 0/1: two 3-T stack writes and seven address-less
T-states; IM 2: the two 3-T vector reads in between, at `I:FF` (the machine puts 0xFF on the bus). The
vector is read after the push (from the memory the push left), but the *cycles* depend only on its
address. -/
theorem int_entry_tlog (s : Cpu) (z : ZX) :
    (acceptInt s z).2.tlog =
      (timedOf z.ctl.port7ffd z.ctl.port7ffd
        (if s.im = 2 then Spec.docInt2 s (mk16 s.i 0xFF) else Spec.docInt01 s)).reverse ++ z.tlog := by
  by_cases hh : s.halted = true <;> by_cases hm : s.im = 2 <;>
    simp [acceptInt, releaseHalt, hh, hm, Spec.docInt2, Spec.docInt01] <;> zx_simp_all

/-- **NMI entry** (the machine never raises NMI; stated for the entry sequence itself): five delay
T-states at the return address, two stack writes. -/
theorem nmi_entry_tlog (s : Cpu) (z : ZX) :
    (acceptNmi s z).2.tlog =
      (timedOf z.ctl.port7ffd z.ctl.port7ffd (Spec.docNmi s (Spec.returnAddress s))).reverse ++ z.tlog := by
  by_cases hh : s.halted = true <;>
    simp [acceptNmi, releaseHalt, hh, Spec.docNmi, Spec.returnAddress] <;> zx_simp

/-! ## One whole `emulate` on the machine -/

/-- **A whole `emulate`, unprefixed instruction** (`Quiescent`: no interrupt accepted at this boundary):
the machine's log grows by the 4-T opcode fetch at PC followed by the documented cycles. -/
theorem step_tlog_unprefixed (v : Variant) (s : Cpu) (z : ZX) (hq : Quiescent s z)
    (hap : s.activePrefix = .none) (hnp : (decode (z.cpuMem s.pc)).isPrefix = false) :
    (emulate v (s, z)).2.tlog =
      (timedOf z.ctl.port7ffd (emulate v (s, z)).2.ctl.port7ffd
        (Spec.fetch4 s.pc ++
          Spec.docMain .none (decode (z.cpuMem s.pc)) (stepQ { s with r := incR s.r, pc := s.pc + 1 })
            z.cpuMem)).reverse ++ z.tlog := by
  rw [emulate_quiescent v s z hq, execOne_unprefixed v s z hap hnp, tlog_shape_main]
  simp [cpuMem_waitMreq, waitMreq_latch, waitMreq_tlog, Spec.fetch4, timedOf]

/-- **A whole `emulate`, DD/FD-prefixed instruction:** two 4-T fetches, then the documented cycles of the
indexed form. -/
theorem step_tlog_indexed (v : Variant) (p : Pfx) (hp : p ≠ .none) (s : Cpu) (z : ZX) (hq : Quiescent s z)
    (hap : s.activePrefix = .none) (h1 : z.cpuMem s.pc = pfxByte p)
    (hnp : (decode (z.cpuMem (s.pc + 1))).isPrefix = false) :
    (emulate v (s, z)).2.tlog =
      (timedOf z.ctl.port7ffd (emulate v (s, z)).2.ctl.port7ffd
        (Spec.fetch4 s.pc ++ Spec.fetch4 (s.pc + 1) ++
          Spec.docMain p (decode (z.cpuMem (s.pc + 1)))
            (stepQ { s with r := incR (incR s.r), pc := s.pc + 1 + 1 }) z.cpuMem)).reverse ++ z.tlog := by
  rw [emulate_quiescent v s z hq, execOne_indexed v p hp s z hap h1 hnp, tlog_shape_main]
  simp [cpuMem_waitMreq, waitMreq_latch, waitMreq_tlog, Spec.fetch4, timedOf]

/-- **A whole `emulate`, ED page** (block repeats included). -/
theorem step_tlog_ed (v : Variant) (s : Cpu) (z : ZX) (hq : Quiescent s z)
    (hap : s.activePrefix = .none) (h1 : z.cpuMem s.pc = 0xED) :
    (emulate v (s, z)).2.tlog =
      (timedOf z.ctl.port7ffd (emulate v (s, z)).2.ctl.port7ffd
        (Spec.fetch4 s.pc ++ Spec.fetch4 (s.pc + 1) ++
          Spec.docED (decodeED (z.cpuMem (s.pc + 1)))
            (stepQ { s with r := incR (incR s.r), pc := s.pc + 1 + 1 }) z.cpuMem)).reverse ++ z.tlog := by
  rw [emulate_quiescent v s z hq, execOne_ed v s z hap h1, tlog_shape_ed]
  simp [cpuMem_waitMreq, waitMreq_latch, waitMreq_tlog, Spec.fetch4, timedOf]

/-- **A whole `emulate`, CB page.** -/
theorem step_tlog_cb (v : Variant) (s : Cpu) (z : ZX) (hq : Quiescent s z)
    (hap : s.activePrefix = .none) (h1 : z.cpuMem s.pc = 0xCB) :
    (emulate v (s, z)).2.tlog =
      (timedOf z.ctl.port7ffd (emulate v (s, z)).2.ctl.port7ffd
        (Spec.fetch4 s.pc ++
          Spec.docCB (stepQ { s with r := incR s.r, pc := s.pc + 1 }) z.cpuMem)).reverse ++ z.tlog := by
  rw [emulate_quiescent v s z hq, execOne_cb v s z hap h1, tlog_shape_cb]
  simp [cpuMem_waitMreq, waitMreq_latch, waitMreq_tlog, Spec.fetch4, timedOf]

/-- **A whole `emulate`, DDCB/FDCB.** -/
theorem step_tlog_ddcb (v : Variant) (p : Pfx) (hp : p ≠ .none) (s : Cpu) (z : ZX) (hq : Quiescent s z)
    (hap : s.activePrefix = .none) (h1 : z.cpuMem s.pc = pfxByte p) (h2 : z.cpuMem (s.pc + 1) = 0xCB) :
    (emulate v (s, z)).2.tlog =
      (timedOf z.ctl.port7ffd (emulate v (s, z)).2.ctl.port7ffd
        (Spec.fetch4 s.pc ++ Spec.fetch4 (s.pc + 1) ++
          Spec.docIdxCB p (stepQ { s with r := incR (incR s.r), pc := s.pc + 1 + 1 }) z.cpuMem)).reverse ++
        z.tlog := by
  rw [emulate_quiescent v s z hq, execOne_ddcb v p hp s z hap h1 h2, tlog_shape_idxcb]
  simp [cpuMem_waitMreq, waitMreq_latch, waitMreq_tlog, Spec.fetch4, timedOf]

/-- **A boundary that accepts the frame interrupt** first shows the acknowledge cycles in the log (the
first instruction of the service routine then runs in the same `emulate`, covered by the theorems above). -/
theorem interrupt_step_tlog (s : Cpu) (z : ZX) (h : decision s z = .int) :
    (checkInterrupt s z).2.tlog =
      (timedOf z.ctl.port7ffd z.ctl.port7ffd
        (if s.im = 2 then Spec.docInt2 s (mk16 s.i 0xFF) else Spec.docInt01 s)).reverse ++ z.tlog := by
  rw [checkInterrupt_eq_decision, h]; exact int_entry_tlog s z

/-! ## Time: documented T-states + the ULA delays over the documented cycles -/

/-- **Glue between C03 and C04 on the machine.** If `z'` is reached from a `Good` state `z` by bus
operations (`C04Sys.Timed`, which `C04Sys.timed_closed` gives for `exec`, `emulate`, interrupt entry, whole
programs) and the log grew by exactly the timed view of the cycle list `cs`, then the time that passed
is the T-states of `cs` plus the property's ULA delays met along `cs`, each looked up at the moment its
cycle starts; and the rules keep applying. -/
theorem time_of_shape {z z' : ZX} (ht : C04Sys.Timed z z') (hg : C04Sys.Good z.ctl) (l1 : BitVec 8)
    (cs : List Cyc) (hs : z'.tlog = (timedOf z.ctl.port7ffd l1 cs).reverse ++ z.tlog) :
    total z'.ctl = total z.ctl + Spec.tsum cs +
        C04Sys.delaysAlong z.ctl.kind (total z.ctl) (timedOf z.ctl.port7ffd l1 cs) ∧
    C04Sys.Good z'.ctl := by
  obtain ⟨d, hl, h⟩ := ht
  obtain ⟨g, _, t⟩ := h hg
  have hd : d = (timedOf z.ctl.port7ffd l1 cs).reverse := List.append_cancel_right (hl.symm.trans hs)
  refine ⟨?_, g⟩
  rw [t, hd, List.reverse_reverse, C04Sys.specReplay_decomposes,
    timedOf_plain_sum C04Sys.plainClocks (fun _ _ => rfl) (fun _ => rfl) (fun _ => rfl)]

end ZxVerif.C03Sys
