/-
C04 — ULA memory and I/O contention delays match the 48K/128K contention model.

Model: `contentionClocks`, `bankIsContended`, `waitMreq`, `waitLoop`, `ioContentionFirst/Last`,
`ioCycle` in Model/Machine.lean (transcriptions of machine/mod.rs and controller.rs).
Spec : `specDelay`, the four I/O patterns, `contended48`/`contendedBank128` in Spec/Machine.lean.
All statements are for every frame T-state `t : Nat` (unbounded), both machines.
-/
import ZxVerif.Props.C05
namespace ZxVerif.C04
open ZxVerif.Machine ZxVerif.C05

theorem contention48 (t : Nat) : contentionClocks .k48 t =
    if t < 14335 ∨ t ≥ 57343 then 0
    else if (t - 14335) % 224 ≥ 128 then 0 else [6, 5, 4, 3, 2, 1, 0, 0].getD ((t - 14335) % 224 % 8) 0 := rfl

theorem contention128 (t : Nat) : contentionClocks .k128 t =
    if t < 14361 ∨ t ≥ 58137 then 0
    else if (t - 14361) % 228 ≥ 128 then 0 else [6, 5, 4, 3, 2, 1, 0, 0].getD ((t - 14361) % 228 % 8) 0 := rfl

/-- **The code's delay function is the property's formula**, for every T-state of the frame
(and beyond), on both machines: 6,5,4,3,2,1,0,0 by (T−T0) mod 8 inside the first 128 T of the
192 picture lines, T0 = 14335 / 14361, 224 / 228 T per line; 0 everywhere else. -/
theorem contention_eq_spec (m : Kind) (t : Nat) : contentionClocks m t = Spec.specDelay m t := by
  cases m
  · rw [contention48]
    unfold Spec.specDelay Spec.t0 Spec.lineLen
    by_cases h1 : t < 14335
    · rw [if_pos (Or.inl h1), if_pos h1]
    · by_cases h2 : (t - 14335) / 224 ≥ 192
      · rw [if_pos (Or.inr (by omega)), if_neg h1, if_pos h2]
      · rw [if_neg (by omega), if_neg h1, if_neg h2]
  · rw [contention128]
    unfold Spec.specDelay Spec.t0 Spec.lineLen
    by_cases h1 : t < 14361
    · rw [if_pos (Or.inl h1), if_pos h1]
    · by_cases h2 : (t - 14361) / 228 ≥ 192
      · rw [if_pos (Or.inr (by omega)), if_neg h1, if_pos h2]
      · rw [if_neg (by omega), if_neg h1, if_neg h2]

/-- the pattern entry as arithmetic: 6 − r for r < 6, else 0 -/
theorem pattern_arith (r : Nat) (hr : r < 8) :
    [6, 5, 4, 3, 2, 1, 0, 0].getD r 0 = 6 - r := by
  have : r = 0 ∨ r = 1 ∨ r = 2 ∨ r = 3 ∨ r = 4 ∨ r = 5 ∨ r = 6 ∨ r = 7 := by omega
  rcases this with h | h | h | h | h | h | h | h <;> subst h <;> rfl

theorem specDelay_le (m : Kind) (t : Nat) : Spec.specDelay m t ≤ 6 := by
  unfold Spec.specDelay
  split; · omega
  split; · omega
  split; · omega
  rw [pattern_arith _ (Nat.mod_lt _ (by decide))]; omega

set_option maxRecDepth 8000 in
/-- **The CPU is released exactly when the ULA is idle**: after waiting out the delay the next
T-state is never itself delayed. -/
theorem wait_reaches_free_slot (m : Kind) (t : Nat) :
    Spec.specDelay m (t + Spec.specDelay m t) = 0 := by
  cases m <;>
  · unfold Spec.specDelay Spec.t0 Spec.lineLen
    simp only
    split; · simp [*]
    split; · simp [*]
    split; · simp [*]
    rename_i h1 h2 h3
    rw [pattern_arith _ (Nat.mod_lt _ (by decide))]
    split; · rfl
    split; · rfl
    split; · rfl
    rw [pattern_arith _ (Nat.mod_lt _ (by decide))]
    omega

/-- **No delay outside contended memory**: a bus cycle on an uncontended address costs exactly
its own clocks. -/
theorem uncontended_no_delay (c : Ctl) (a : BitVec 16) (clk : Nat) (h : c.addrIsContended a = false) :
    c.waitMreq a clk = c.waitInternal clk := by
  simp [Ctl.waitMreq, h]

/-- a contended bus cycle costs the delay at its start plus its own clocks (in total time) -/
theorem contended_cycle (c : Ctl) (a : BitVec 16) (clk : Nat) (h : c.addrIsContended a = true) :
    total (c.waitMreq a clk) = total c + Spec.specDelay c.kind c.frameClocks + clk := by
  simp only [Ctl.waitMreq, h, if_true, Ctl.doContention]
  rw [wait_conserves, wait_conserves, contention_eq_spec]

/-- **Which memory is contended.** 48K: exactly 0x4000–0x7FFF, after any history of paging
attempts and memory writes. -/
theorem contended_48 (c : Ctl) (hk : c.kind = .k48)
    (hmap : c.mem.map = (Ctl.new .k48).mem.map) (a : BitVec 16) :
    c.addrIsContended a = Spec.contended48 a := by
  have hq : a.toNat / 16384 < 4 := by have := a.isLt; omega
  unfold Ctl.addrIsContended Mem.getPage Spec.contended48 pageSize
  rw [hmap, hk]
  simp only [show (16 * 1024 : Nat) = 16384 from rfl, Ctl.new, Mem.new, bankIsContended]
  have : a.toNat / 16384 = 0 ∨ a.toNat / 16384 = 1 ∨ a.toNat / 16384 = 2 ∨ a.toNat / 16384 = 3 := by omega
  rcases this with h | h | h | h <;> rw [h] <;> simp <;> omega

/-- 128K: an address is contended iff the RAM bank paged there is odd (1,3,5,7), wherever it
is paged; ROM never. -/
theorem contended_128 (c : Ctl) (hk : c.kind = .k128) (a : BitVec 16) :
    c.addrIsContended a =
      (match c.mem.getPage a with
       | .ram b => decide (b = 1 ∨ b = 3 ∨ b = 5 ∨ b = 7)
       | .rom _ => false) := by
  unfold Ctl.addrIsContended
  rw [hk]
  cases c.mem.getPage a <;> simp [bankIsContended]

theorem odd_banks (b : Nat) (hb : b < 8) :
    decide (b = 1 ∨ b = 3 ∨ b = 5 ∨ b = 7) = Spec.contendedBank128 b := by
  have : b = 0 ∨ b = 1 ∨ b = 2 ∨ b = 3 ∨ b = 4 ∨ b = 5 ∨ b = 6 ∨ b = 7 := by omega
  rcases this with h | h | h | h | h | h | h | h <;> subst h <;> decide

/-- "the clock stands at `t` and nothing else moved" -/
def At (c d : Ctl) (t : Nat) : Prop := d.frameClocks = t ∧ d.kind = c.kind ∧ d.mem = c.mem

theorem At.contended {c d : Ctl} {t : Nat} (h : At c d t) (p : BitVec 16) :
    d.addrIsContended p = c.addrIsContended p := by
  unfold Ctl.addrIsContended Mem.getPage; rw [h.2.2, h.2.1]

/-- a plain step `N:k` that stays inside the frame -/
theorem At.n {c d : Ctl} {t : Nat} (h : At c d t) (k : Nat) (hk : t + k < c.kind.specs.clocksFrame) :
    At c (d.waitInternal k) (t + k) := by
  obtain ⟨h1, h2, h3⟩ := h
  unfold Ctl.waitInternal
  have : ¬ (d.frameClocks + k ≥ d.kind.specs.clocksFrame) := by rw [h1, h2]; omega
  rw [if_neg this]
  exact ⟨by simp [h1], h2, h3⟩

/-- a contended step `C:k` that stays inside the frame -/
theorem At.c {c d : Ctl} {t : Nat} (h : At c d t) (k : Nat) (hk : t + 6 + k < c.kind.specs.clocksFrame) :
    At c (d.doContentionAndWait k) (t + Spec.specDelay c.kind t + k) := by
  have hle := specDelay_le c.kind t
  unfold Ctl.doContentionAndWait
  rw [contention_eq_spec, h.1, h.2.1]
  have := h.n (Spec.specDelay c.kind t + k) (by omega)
  rwa [← Nat.add_assoc] at this

theorem At.c0 {c d : Ctl} {t : Nat} (h : At c d t) (hk : t + 6 < c.kind.specs.clocksFrame) :
    At c d.doContention (t + Spec.specDelay c.kind t) := by
  have := h.c 0 (by omega)
  simpa [Ctl.doContentionAndWait, Ctl.doContention] using this

/-- **The four ULA port patterns**, for a cycle that does not wrap the frame (every cycle that
starts at least 32 T before the frame end; later starts lie after the last picture line and are
delay-free, see `io_cycle_total_bound`): the clock after the port cycle is the property's pattern
N:1,C:3 / N:4 / C:1,C:3 / C:1,C:1,C:1,C:1 run from the start T-state, selected by address bit 0
and by whether the port address (its high byte) lies in contended memory. -/
theorem io_patterns (c : Ctl) (port : BitVec 16)
    (hfc : c.frameClocks + 32 ≤ c.kind.specs.clocksFrame) :
    (c.ioCycle port).frameClocks =
      Spec.runPattern c.kind c.frameClocks
        (Spec.ioPattern (c.addrIsContended port) (!portIsContended port)) := by
  have h0 : At c c c.frameClocks := ⟨rfl, rfl, rfl⟩
  have hle := specDelay_le c.kind
  cases hhi : c.addrIsContended port <;> cases hlo : portIsContended port
  all_goals
    simp only [Ctl.ioCycle, Ctl.ioContentionFirst, Ctl.ioContentionLast, hhi, hlo, Spec.ioPattern,
      Spec.runPattern, Bool.not_true, Bool.not_false, if_true, if_false, Bool.false_eq_true]
  · -- N:4
    have s1 := h0.n 1 (by omega)
    rw [s1.contended port, hhi]
    simp only [Bool.false_eq_true, if_false]
    have s2 := s1.n 2 (by omega)
    have s3 := s2.n 1 (by omega)
    rw [s3.1]
  · -- N:1, C:3
    have s1 := h0.n 1 (by omega)
    have := hle (c.frameClocks + 1)
    have s2 := s1.c 2 (by omega)
    have s3 := s2.n 1 (by omega)
    rw [s3.1]
  · -- C:1, C:1, C:1, C:1
    have a1 := hle c.frameClocks
    have s1 := h0.c0 (by omega)
    have s2 := s1.n 1 (by omega)
    rw [s2.contended port, hhi]
    simp only [if_true]
    have a2 := hle (c.frameClocks + Spec.specDelay c.kind c.frameClocks + 1)
    have s3 := s2.c 1 (by omega)
    have a3 := hle (c.frameClocks + Spec.specDelay c.kind c.frameClocks + 1 +
      Spec.specDelay c.kind (c.frameClocks + Spec.specDelay c.kind c.frameClocks + 1) + 1)
    have s4 := s3.c 1 (by omega)
    have a4 := hle (c.frameClocks + Spec.specDelay c.kind c.frameClocks + 1 +
      Spec.specDelay c.kind (c.frameClocks + Spec.specDelay c.kind c.frameClocks + 1) + 1 +
      Spec.specDelay c.kind (c.frameClocks + Spec.specDelay c.kind c.frameClocks + 1 +
      Spec.specDelay c.kind (c.frameClocks + Spec.specDelay c.kind c.frameClocks + 1) + 1) + 1)
    have s5 := s4.c0 (by omega)
    have s6 := s5.n 1 (by omega)
    rw [s6.1]
  · -- C:1, C:3
    have a1 := hle c.frameClocks
    have s1 := h0.c0 (by omega)
    have s2 := s1.n 1 (by omega)
    have a2 := hle (c.frameClocks + Spec.specDelay c.kind c.frameClocks + 1)
    have s3 := s2.c 2 (by omega)
    have s4 := s3.n 1 (by omega)
    rw [s4.1]

theorem step_c (c : Ctl) (k : Nat) :
    total (c.doContentionAndWait k) = total c + Spec.specDelay c.kind c.frameClocks + k := by
  simp only [Ctl.doContentionAndWait]
  rw [wait_conserves, contention_eq_spec]; omega

/-- total time moved from `c` to `d` lies in `[lo, hi]` -/
def Took (c d : Ctl) (lo hi : Nat) : Prop := total c + lo ≤ total d ∧ total d ≤ total c + hi

theorem Took.n {c d lo hi} (h : Took c d lo hi) (k : Nat) : Took c (d.waitInternal k) (lo + k) (hi + k) := by
  unfold Took at *; rw [wait_conserves]; omega

theorem Took.c {c d lo hi} (h : Took c d lo hi) (k : Nat) :
    Took c (d.doContentionAndWait k) (lo + k) (hi + 6 + k) := by
  have := specDelay_le d.kind d.frameClocks
  unfold Took at *; rw [step_c]; omega

theorem Took.c0 {c d lo hi} (h : Took c d lo hi) : Took c d.doContention lo (hi + 6) := by
  have := h.c 0
  simpa [Ctl.doContentionAndWait, Ctl.doContention] using this

/-- Whatever the start T-state (frame wrap included), a port cycle costs its 4 T-states plus
at most four delays of at most 6 T; nothing else is ever added or lost. -/
theorem io_cycle_total_bound (c : Ctl) (port : BitVec 16) :
    total c + 4 ≤ total (c.ioCycle port) ∧ total (c.ioCycle port) ≤ total c + 4 + 24 := by
  have h0 : Took c c 0 0 := ⟨by omega, by omega⟩
  simp only [Ctl.ioCycle, Ctl.ioContentionFirst, Ctl.ioContentionLast]
  split <;> split <;> (try split)
  all_goals first
    | (have := ((h0.c0.n 1).c 2).n 1; unfold Took at this; omega)
    | (have := (((((h0.c0.n 1).c 1).c 1).c0)).n 1; unfold Took at this; omega)
    | (have := ((h0.c0.n 1).n 2).n 1; unfold Took at this; omega)
    | (have := ((h0.n 1).c 2).n 1; unfold Took at this; omega)
    | (have := (((((h0.n 1).c 1).c 1).c0)).n 1; unfold Took at this; omega)
    | (have := ((h0.n 1).n 2).n 1; unfold Took at this; omega)

/-- a memory-side bus cycle (fetch, read, write, or one internal T-state carrying an address) -/
abbrev Cycle := BitVec 16 × Nat

def runCycles (c : Ctl) (cs : List Cycle) : Ctl := cs.foldl (fun c x => c.waitMreq x.1 x.2) c

/-- the ULA delays met along a sequence of bus cycles: at each cycle whose address is in
contended memory, the delay of the T-state at which that cycle starts -/
def delaySum (c : Ctl) : List Cycle → Nat
  | [] => 0
  | x :: rest =>
    (if c.addrIsContended x.1 then Spec.specDelay c.kind c.frameClocks else 0)
      + delaySum (c.waitMreq x.1 x.2) rest

/-- **Instruction time = uncontended time + the ULA delays** — for every sequence of bus cycles
(any instruction, any placement), from any point of the frame, across frame ends. -/
theorem instr_time_decomposes (c : Ctl) (cs : List Cycle) :
    total (runCycles c cs) = total c + (cs.map (·.2)).sum + delaySum c cs := by
  induction cs generalizing c with
  | nil => simp [runCycles, delaySum]
  | cons x rest ih =>
    simp only [runCycles, List.foldl_cons, List.map_cons, List.sum_cons, delaySum] at ih ⊢
    rw [ih]
    by_cases h : c.addrIsContended x.1 = true
    · rw [contended_cycle c x.1 x.2 h]; simp only [h, if_true]; omega
    · have h' : c.addrIsContended x.1 = false := by simpa using h
      rw [uncontended_no_delay c x.1 x.2 h', wait_conserves]; simp only [h', Bool.false_eq_true, if_false]; omega

/-- `wait_loop(addr, n)` is `n` single-T cycles at `addr` -/
theorem waitLoop_is_cycles (c : Ctl) (a : BitVec 16) (n : Nat) :
    c.waitLoop a n = runCycles c (List.replicate n (a, 1)) := by
  induction n generalizing c with
  | zero => rfl
  | succ n ih => simp only [Ctl.waitLoop, List.replicate_succ, runCycles, List.foldl_cons]; exact ih _

/-! Non-vacuity: the first contended T-state of the frame and a free one. -/
example : contentionClocks .k48 14335 = 6 ∧ contentionClocks .k48 14341 = 0 ∧
    contentionClocks .k128 14361 = 6 ∧ contentionClocks .k48 (14335 + 224 * 191 + 127) = 0 ∧
    contentionClocks .k48 (14335 + 224 * 191 + 120) = 6 ∧ contentionClocks .k48 (14335 + 224 * 192) = 0 := by
  decide

end ZxVerif.C04
