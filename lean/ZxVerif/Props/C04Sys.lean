/-
C04 (system level) — the contention rules of the property hold for every bus operation of every
program on the composed machine (`Z80.emulate` on the Spectrum bus, Model/Spectrum.lean).

The machine keeps a ghost log of the timed bus operations the CPU issued (`ZX.tlog`: memory-side
cycles with their address and clocks, address-less internal clocks, port cycles; each with the
paging latch in force when it started). The theorems say: whatever program runs, for however long,
with interrupts, port writes and paging included, the emulated time that has passed is exactly the
time the *property's* rules (Spec.opTime: delay table by (T − T0) mod 8 inside the picture lines,
contended address ranges/banks as paged at that moment, the four port patterns) give for that log —
every single operation took its plain clocks plus the ULA delays the property prescribes at the
T-states at which its contended parts started, and no time passes between operations.

Proof: a representation invariant of the controller (`Good`: in-frame offset below the frame
length, the four-slot map is what the latch says) under which each primitive bus operation of the
model takes exactly the spec time, lifted to all programs by the bounded closure theorem
`Z80.BusClosedB.run` (the CPU never asks for more than 7 clocks per primitive).
-/
import ZxVerif.Model.Spectrum
import ZxVerif.Lemmas.Z80Closed
import ZxVerif.Props.C04
import ZxVerif.Props.C06
import ZxVerif.Props.C06Sys
namespace ZxVerif.C04Sys
open ZxVerif.Z80 ZxVerif.Machine ZxVerif.Spectrum ZxVerif.C05

/-! ### The invariant under which the property's rules apply -/

/-- 48K: the fixed map and no paging; 128K: the map is what the latch says (`C06.MapInv`) -/
def MapOk (c : Ctl) : Prop :=
  (c.kind = .k48 ∧ c.mem.map = (Ctl.new .k48).mem.map ∧ c.pagingEnabled = false) ∨ C06.MapInv c

structure Good (c : Ctl) : Prop where
  inFrame : c.frameClocks < c.kind.specs.clocksFrame
  map : MapOk c

theorem good_new (k : Kind) : Good (Ctl.new k) := by
  cases k
  · exact ⟨by decide, Or.inl ⟨rfl, rfl, rfl⟩⟩
  · exact ⟨by decide, Or.inr C06.init_inv⟩

theorem frameLen_eq (k : Kind) : Spec.frameLen k = k.specs.clocksFrame := by cases k <;> decide

theorem frameLen_big (k : Kind) : 69888 ≤ k.specs.clocksFrame := by cases k <;> decide

/-- inside a frame the in-frame offset is the total time modulo the frame length -/
theorem fc_eq_mod (c : Ctl) (h : c.frameClocks < c.kind.specs.clocksFrame) :
    total c % Spec.frameLen c.kind = c.frameClocks := by
  rw [frameLen_eq]
  unfold total
  rw [Nat.mul_comm, Nat.mul_add_mod, Nat.mod_eq_of_lt h]

/-- the code's "is this address contended" is the property's, for the latch in force -/
theorem contended_is_spec (c : Ctl) (hm : MapOk c) (a : BitVec 16) :
    c.addrIsContended a = Spec.addrContended c.kind c.port7ffd a := by
  rcases hm with ⟨hk, hmap, _⟩ | hi
  · rw [C04.contended_48 c hk hmap a, hk]; rfl
  · have hq : a.toNat / 16384 < 4 := by have := a.isLt; omega
    rw [C04.contended_128 c hi.kind a, hi.kind]
    unfold Spec.addrContended Spec.window128 Mem.getPage pageSize
    have : a.toNat / 16384 = 0 ∨ a.toNat / 16384 = 1 ∨ a.toNat / 16384 = 2 ∨ a.toNat / 16384 = 3 := by omega
    rcases this with h | h | h | h <;> rw [h]
    · rw [hi.slot0]; rfl
    · rw [hi.slot1]; simp [Spec.contendedBank128]
    · rw [hi.slot2]; simp [Spec.contendedBank128]
    · rw [hi.slot3]
      simp only []
      exact C04.odd_banks _ (C06.bank_lt c.port7ffd)

/-! ### `Good` is kept by everything the bus does -/

theorem mapOk_of_same {c d : Ctl} (hk : d.kind = c.kind) (hm : d.mem.map = c.mem.map)
    (hp : d.pagingEnabled = c.pagingEnabled) (hl : d.port7ffd = c.port7ffd) (hs : d.screenBank = c.screenBank)
    (hr : d.mem.ramPages = c.mem.ramPages) (ho : d.mem.romPages = c.mem.romPages) (hx : d.panicked = c.panicked)
    (h : MapOk c) : MapOk d := by
  rcases h with ⟨a, b, e⟩ | hi
  · exact Or.inl ⟨hk.trans a, hm.trans b, hp.trans e⟩
  · refine Or.inr ⟨hk.trans hi.kind, hr.trans hi.ramPages, ho.trans hi.romPages, hx.trans hi.noPanic, ?_, ?_, ?_, ?_, ?_⟩
    · rw [hm, hl]; exact hi.slot0
    · rw [hm]; exact hi.slot1
    · rw [hm]; exact hi.slot2
    · rw [hm, hl]; exact hi.slot3
    · rw [hs, hl]; exact hi.screen

theorem waitInternal_mapOk (c : Ctl) (k : Nat) (h : MapOk c) : MapOk (c.waitInternal k) := by
  refine mapOk_of_same ?_ ?_ ?_ ?_ ?_ ?_ ?_ ?_ h <;> (unfold Ctl.waitInternal; split <;> rfl)

theorem waitInternal_good (c : Ctl) (k : Nat) (hk : k < c.kind.specs.clocksFrame) (h : Good c) :
    Good (c.waitInternal k) :=
  ⟨C05.wait_in_frame c k h.inFrame hk, waitInternal_mapOk c k h.map⟩

theorem waitInternal_latch (c : Ctl) (k : Nat) : (c.waitInternal k).port7ffd = c.port7ffd := by
  unfold Ctl.waitInternal; split <;> rfl

/-! ### Each primitive takes exactly the property's time -/

/-- a `C:k` step of the model, in total time -/
theorem cstep (c : Ctl) (k : Nat) (h : Good c) (hk : k ≤ 7) :
    total (c.doContentionAndWait k) =
      total c + Spec.specDelay c.kind (total c % Spec.frameLen c.kind) + k ∧
    Good (c.doContentionAndWait k) ∧ (c.doContentionAndWait k).kind = c.kind ∧
    (c.doContentionAndWait k).port7ffd = c.port7ffd ∧ (c.doContentionAndWait k).mem = c.mem := by
  have hL := frameLen_big c.kind
  have hd := C04.specDelay_le c.kind c.frameClocks
  rw [fc_eq_mod c h.inFrame]
  refine ⟨C04.step_c c k, ?_, ?_, ?_, ?_⟩
  · unfold Ctl.doContentionAndWait
    rw [C04.contention_eq_spec]
    exact waitInternal_good c _ (by omega) h
  · unfold Ctl.doContentionAndWait; exact C05.waitInternal_kind _ _
  · unfold Ctl.doContentionAndWait; exact waitInternal_latch _ _
  · unfold Ctl.doContentionAndWait; exact C06Sys.waitInternal_mem _ _

/-- an `N:k` step -/
theorem nstep (c : Ctl) (k : Nat) (h : Good c) (hk : k ≤ 7) :
    total (c.waitInternal k) = total c + k ∧ Good (c.waitInternal k) ∧ (c.waitInternal k).kind = c.kind ∧
    (c.waitInternal k).port7ffd = c.port7ffd ∧ (c.waitInternal k).mem = c.mem := by
  have hL := frameLen_big c.kind
  exact ⟨C05.wait_conserves c k, waitInternal_good c k (by omega) h, C05.waitInternal_kind _ _,
    waitInternal_latch _ _, C06Sys.waitInternal_mem _ _⟩

theorem doContention_eq (c : Ctl) : c.doContention = c.doContentionAndWait 0 := by
  unfold Ctl.doContention Ctl.doContentionAndWait; rfl

/-- memory-side cycle -/
theorem mem_time (c : Ctl) (a : BitVec 16) (k : Nat) (h : Good c) (hk : k ≤ 7) :
    total (c.waitMreq a k) = Spec.opTime c.kind c.port7ffd (total c) (.mem a k) ∧ Good (c.waitMreq a k) ∧
    (c.waitMreq a k).kind = c.kind := by
  simp only [Spec.opTime]
  rw [← contended_is_spec c h.map a]
  cases hc : c.addrIsContended a
  · rw [C04.uncontended_no_delay c a k hc]
    obtain ⟨t, g, kd, _, _⟩ := nstep c k h hk
    simp only [Bool.false_eq_true, if_false, Nat.add_zero]
    exact ⟨t, g, kd⟩
  · unfold Ctl.waitMreq
    simp only [hc, if_true]
    rw [doContention_eq]
    obtain ⟨t1, g1, k1, _, _⟩ := cstep c 0 h (by omega)
    obtain ⟨t2, g2, k2, _, _⟩ := nstep (c.doContentionAndWait 0) k g1 hk
    refine ⟨?_, g2, k2.trans k1⟩
    rw [t2, t1]; omega

/-! ### Port cycles -/

/-- `x` is `c` with time `t` passed: same machine, same memory map, same latch -/
structure Step (c x : Ctl) (t : Nat) : Prop where
  time : total x = t
  good : Good x
  kind : x.kind = c.kind
  mem : x.mem = c.mem
  latch : x.port7ffd = c.port7ffd

theorem Step.start (c : Ctl) (h : Good c) : Step c c (total c) := ⟨rfl, h, rfl, rfl, rfl⟩

theorem Step.n {c x t} (s : Step c x t) (k : Nat) (hk : k ≤ 7) : Step c (x.waitInternal k) (t + k) := by
  obtain ⟨a, g, kd, l, m⟩ := nstep x k s.good hk
  exact ⟨by rw [a, s.time], g, kd.trans s.kind, m.trans s.mem, l.trans s.latch⟩

theorem Step.c {c x t} (s : Step c x t) (k : Nat) (hk : k ≤ 7) :
    Step c (x.doContentionAndWait k) (t + Spec.specDelay c.kind (t % Spec.frameLen c.kind) + k) := by
  obtain ⟨a, g, kd, l, m⟩ := cstep x k s.good hk
  exact ⟨by rw [a, s.time, s.kind], g, kd.trans s.kind, m.trans s.mem, l.trans s.latch⟩

theorem Step.c0 {c x t} (s : Step c x t) :
    Step c x.doContention (t + Spec.specDelay c.kind (t % Spec.frameLen c.kind)) := by
  rw [doContention_eq]; exact s.c 0 (by omega)

theorem Step.contended {c x t} (s : Step c x t) (p : BitVec 16) : x.addrIsContended p = c.addrIsContended p := by
  unfold Ctl.addrIsContended Mem.getPage; rw [s.mem, s.kind]

/-- The clock effect of a whole port cycle with a device step `d` in the middle (between the first
and the last contention, where `write_io` reaches its device) that takes no time and does not
change whether the port address is contended: exactly the property's pattern, selected by
address bit 0 and by the contendedness of the port address at the start of the cycle. -/
theorem io_time (c : Ctl) (port : BitVec 16) (d : Ctl → Ctl) (h : Good c)
    (hd : ∀ x, Good x → x.kind = c.kind → x.addrIsContended port = c.addrIsContended port →
      total (d x) = total x ∧ Good (d x) ∧ (d x).kind = c.kind ∧
      (d x).addrIsContended port = c.addrIsContended port) :
    total (((d (c.ioContentionFirst port)).ioContentionLast port).waitInternal 1) =
      Spec.opTime c.kind c.port7ffd (total c) (.io port) ∧
    Good (((d (c.ioContentionFirst port)).ioContentionLast port).waitInternal 1) ∧
    (((d (c.ioContentionFirst port)).ioContentionLast port).waitInternal 1).kind = c.kind := by
  have s0 := Step.start c h
  simp only [Spec.opTime]
  rw [← contended_is_spec c h.map port]
  -- first contention
  have first : ∃ t1, Step c (c.ioContentionFirst port) t1 ∧
      t1 = (if c.addrIsContended port then total c + Spec.specDelay c.kind (total c % Spec.frameLen c.kind) + 1
            else total c + 1) := by
    unfold Ctl.ioContentionFirst
    cases hc : c.addrIsContended port
    · exact ⟨_, s0.n 1 (by omega), by simp⟩
    · exact ⟨_, s0.c0.n 1 (by omega), by simp⟩
  obtain ⟨t1, s1, ht1⟩ := first
  obtain ⟨dt, dg, dk, dc⟩ := hd _ s1.good s1.kind (s1.contended port)
  -- the rest starts from the state the device left
  have s2 : Step (d (c.ioContentionFirst port)) (d (c.ioContentionFirst port)) t1 :=
    ⟨dt.trans s1.time, dg, rfl, rfl, rfl⟩
  unfold Ctl.ioContentionLast
  have hp : portIsContended port = !(port &&& 1 != 0) := by
    unfold portIsContended; by_cases e : port &&& 1#16 = 0#16 <;> simp [e]
  cases hb : (port &&& 1 != 0) <;> cases hc : c.addrIsContended port <;>
    simp only [hp, hb, dc, hc, Bool.not_true, Bool.not_false, if_true, if_false, Bool.false_eq_true,
      Spec.ioPattern, List.foldl] at ht1 ⊢
  · -- even port, uncontended address: N:1, C:3
    have s3 := (s2.c 2 (by omega)).n 1 (by omega)
    rw [dk] at s3
    exact ⟨by rw [s3.time, ht1]; try omega, s3.good, s3.kind.trans dk⟩
  · -- even port, contended address: C:1, C:3
    have s3 := (s2.c 2 (by omega)).n 1 (by omega)
    rw [dk] at s3
    exact ⟨by rw [s3.time, ht1]; try omega, s3.good, s3.kind.trans dk⟩
  · -- odd port, uncontended address: N:4
    have s3 := (s2.n 2 (by omega)).n 1 (by omega)
    exact ⟨by rw [s3.time, ht1], s3.good, s3.kind.trans dk⟩
  · -- odd port, contended address: C:1, C:1, C:1, C:1
    have s3 := (((s2.c 1 (by omega)).c 1 (by omega)).c0).n 1 (by omega)
    rw [dk] at s3
    exact ⟨by rw [s3.time, ht1], s3.good, s3.kind.trans dk⟩

/-! ### The device steps of the bus keep the invariant and take no time -/

theorem write7ffd_clock (c : Ctl) (v : BitVec 8) :
    (c.write7ffd v).kind = c.kind ∧ (c.write7ffd v).frameClocks = c.frameClocks ∧
    (c.write7ffd v).passedFrames = c.passedFrames := by
  unfold Ctl.write7ffd
  split
  · exact ⟨rfl, rfl, rfl⟩
  · cases c.mem.remap 3 (.ram (v &&& 0x07).toNat) with
    | none => exact ⟨rfl, rfl, rfl⟩
    | some m1 =>
      simp only
      cases m1.remap 0 (.rom ((v >>> 4) &&& 0x01).toNat) with
      | none => exact ⟨rfl, rfl, rfl⟩
      | some m2 => exact ⟨rfl, rfl, rfl⟩

theorem write7ffd_total (c : Ctl) (v : BitVec 8) : total (c.write7ffd v) = total c := by
  obtain ⟨a, b, d⟩ := write7ffd_clock c v
  unfold total; rw [a, b, d]

theorem write7ffd_mapOk (c : Ctl) (v : BitVec 8) (h : MapOk c) : MapOk (c.write7ffd v) := by
  rcases h with ⟨a, b, e⟩ | hi
  · rw [C06.k48_ignores_paging c e v]; exact Or.inl ⟨a, b, e⟩
  · exact Or.inr (C06.step_inv c hi (.out7ffd v))

theorem write7ffd_good (c : Ctl) (v : BitVec 8) (h : Good c) : Good (c.write7ffd v) := by
  obtain ⟨a, b, _⟩ := write7ffd_clock c v
  exact ⟨by rw [a, b]; exact h.inFrame, write7ffd_mapOk c v h.map⟩

/-- below 0x8000 the property's contended ranges do not depend on the paging latch -/
theorem spec_contended_low (k : Kind) (l1 l2 : BitVec 8) (a : BitVec 16) (ha : a.toNat < 0x8000) :
    Spec.addrContended k l1 a = Spec.addrContended k l2 a := by
  cases k
  · rfl
  · unfold Spec.addrContended Spec.window128
    have : a.toNat / 16384 = 0 ∨ a.toNat / 16384 = 1 := by omega
    rcases this with h | h <;> rw [h] <;> rfl

/-- a paging write cannot change whether an address below 0x8000 (every address with A15 = 0, so
every port that reaches the paging latch) is contended -/
theorem write7ffd_contended_low (c : Ctl) (v : BitVec 8) (h : MapOk c) (a : BitVec 16) (ha : a.toNat < 0x8000) :
    (c.write7ffd v).addrIsContended a = c.addrIsContended a := by
  rw [contended_is_spec _ (write7ffd_mapOk c v h) a, contended_is_spec c h a, (write7ffd_clock c v).1]
  exact spec_contended_low _ _ _ a ha

theorem paging_port_low (port : BitVec 16) (h : port &&& 0x8002 = 0) : port.toNat < 0x8000 := by
  have : port < 0x8000#16 := by bv_decide
  exact this

theorem writeInternal_good (c : Ctl) (a : BitVec 16) (v : BitVec 8) (h : Good c) :
    Good (c.writeInternal a v) ∧ (c.writeInternal a v).kind = c.kind ∧ total (c.writeInternal a v) = total c := by
  refine ⟨⟨h.inFrame, ?_⟩, rfl, rfl⟩
  rcases h.map with ⟨x, y, w⟩ | hi
  · exact Or.inl ⟨x, (C06Sys.writeInternal_map c a v).trans y, w⟩
  · exact Or.inr (C06.step_inv c hi (.write a v))

/-! ### The log and the property's time for it -/

def toSpec : TOp → Spec.BusOp
  | .mem a k => .mem a k
  | .plain k => .plain k
  | .io p => .io p

/-- the property's time for a logged history (oldest first) that starts at total time `t`: every
operation judged with the paging latch that was in force when it started -/
def specReplay (k : Kind) (t : Nat) (es : List (BitVec 8 × TOp)) : Nat :=
  es.foldl (fun t e => Spec.opTime k e.1 t (toSpec e.2)) t

theorem specReplay_append (k : Kind) (t : Nat) (xs ys : List (BitVec 8 × TOp)) :
    specReplay k t (xs ++ ys) = specReplay k (specReplay k t xs) ys := by
  unfold specReplay; rw [List.foldl_append]

/-- `z'` is `z` later: the log grew by `d`, and if the rules applied to `z` they apply to `z'` and
the time that passed is the property's time for `d` -/
def Timed (z z' : ZX) : Prop :=
  ∃ d, z'.tlog = d ++ z.tlog ∧
    (Good z.ctl → Good z'.ctl ∧ z'.ctl.kind = z.ctl.kind ∧
      total z'.ctl = specReplay z.ctl.kind (total z.ctl) d.reverse)

theorem timed_same {z z' : ZX} (hl : z'.tlog = z.tlog)
    (h : Good z.ctl → Good z'.ctl ∧ z'.ctl.kind = z.ctl.kind ∧ total z'.ctl = total z.ctl) : Timed z z' :=
  ⟨[], by simp [hl], fun g => by obtain ⟨a, b, c⟩ := h g; exact ⟨a, b, by simpa [specReplay] using c⟩⟩

theorem timed_one {z z' : ZX} (e : BitVec 8 × TOp) (hl : z'.tlog = e :: z.tlog)
    (h : Good z.ctl → Good z'.ctl ∧ z'.ctl.kind = z.ctl.kind ∧
      total z'.ctl = Spec.opTime z.ctl.kind e.1 (total z.ctl) (toSpec e.2)) : Timed z z' :=
  ⟨[e], by simp [hl], fun g => by obtain ⟨a, b, c⟩ := h g; exact ⟨a, b, by simpa [specReplay] using c⟩⟩

/-- the controller part of `ZX.writeIo` -/
theorem writeIo_ctl (p : BitVec 16) (v : BitVec 8) (z : ZX) :
    (ZX.writeIo p v z).ctl =
      (((if writeDecode z.cfg p = .paging then (z.ctl.ioContentionFirst p).write7ffd v
         else z.ctl.ioContentionFirst p).ioContentionLast p).waitInternal 1) := by
  unfold ZX.writeIo
  cases h : writeDecode z.cfg p <;> simp

theorem writeIo_tlog (p : BitVec 16) (v : BitVec 8) (z : ZX) :
    (ZX.writeIo p v z).tlog = (z.ctl.port7ffd, .io p) :: z.tlog := by
  unfold ZX.writeIo
  cases h : writeDecode z.cfg p <;> rfl

theorem paging_decode (cfg : IoCfg) (p : BitVec 16) (h : writeDecode cfg p = .paging) : p &&& 0x8002 = 0 := by
  unfold writeDecode at h
  split at h; · cases h
  split at h; · cases h
  split at h; · cases h
  split at h; · cases h
  split at h
  · rename_i hh; simp at hh; exact hh.1
  · cases h

theorem timed_closed : BusClosedB 7 Timed where
  big := Nat.le_refl 7
  refl z := timed_same rfl fun g => ⟨g, rfl, rfl⟩
  trans := by
    rintro a b c ⟨d1, l1, h1⟩ ⟨d2, l2, h2⟩
    refine ⟨d2 ++ d1, by rw [l2, l1, List.append_assoc], fun g => ?_⟩
    obtain ⟨g1, k1, t1⟩ := h1 g
    obtain ⟨g2, k2, t2⟩ := h2 g1
    refine ⟨g2, k2.trans k1, ?_⟩
    rw [List.reverse_append, specReplay_append, ← t1, ← k1]; exact t2
  waitMreq a k z hk := timed_one (z.ctl.port7ffd, .mem a k) rfl fun g => by
    obtain ⟨t, g', kd⟩ := mem_time z.ctl a k g hk; exact ⟨g', kd, t⟩
  waitNoMreq a k z hk := timed_one (z.ctl.port7ffd, .mem a k) rfl fun g => by
    obtain ⟨t, g', kd⟩ := mem_time z.ctl a k g hk; exact ⟨g', kd, t⟩
  waitInternal k z hk := timed_one (z.ctl.port7ffd, .plain k) rfl fun g => by
    obtain ⟨t, g', kd, _, _⟩ := nstep z.ctl k g hk; exact ⟨g', kd, t⟩
  readInternal _ z := timed_same rfl fun g => ⟨g, rfl, rfl⟩
  writeInternal a v z := timed_same rfl fun g => by
    obtain ⟨g', kd, t⟩ := writeInternal_good z.ctl a v g; exact ⟨g', kd, t⟩
  readIo p z := timed_one (z.ctl.port7ffd, .io p) rfl fun g => by
    obtain ⟨t, g', kd⟩ := io_time z.ctl p id g (fun x gx kx cx => ⟨rfl, gx, kx, cx⟩)
    exact ⟨g', kd, t⟩
  writeIo p v z := timed_one (z.ctl.port7ffd, .io p) (writeIo_tlog p v z) fun g => by
    show Good (ZX.writeIo p v z).ctl ∧ (ZX.writeIo p v z).ctl.kind = z.ctl.kind ∧
      total (ZX.writeIo p v z).ctl = Spec.opTime z.ctl.kind z.ctl.port7ffd (total z.ctl) (.io p)
    rw [writeIo_ctl]
    by_cases hdec : writeDecode z.cfg p = .paging
    · have hlow := paging_port_low p (paging_decode _ _ hdec)
      obtain ⟨t, g', kd⟩ := io_time z.ctl p (fun x => x.write7ffd v) g (fun x gx kx cx =>
        ⟨write7ffd_total x v, write7ffd_good x v gx, (write7ffd_clock x v).1.trans kx,
         (write7ffd_contended_low x v gx.map p hlow).trans cx⟩)
      simp only [hdec, if_true]
      exact ⟨g', kd, t⟩
    · obtain ⟨t, g', kd⟩ := io_time z.ctl p id g (fun x gx kx cx => ⟨rfl, gx, kx, cx⟩)
      simp only [hdec, if_false]
      exact ⟨g', kd, t⟩
  readInterrupt z := timed_same rfl fun g => ⟨g, rfl, rfl⟩
  reti z := timed_same rfl fun g => ⟨g, rfl, rfl⟩
  halt _ z := timed_same rfl fun g => ⟨g, rfl, rfl⟩
  pcCallback _ z := timed_same rfl fun g => ⟨g, rfl, rfl⟩

/-! ### Whole programs -/

/-- **Every bus operation of every program takes the property's time.** Start the machine in any
state in which the rules apply (`Good`: e.g. after reset, or after any program — the invariant is
kept) with an empty log; run any program for any number of instructions (interrupts, port writes,
paging included). Then the emulated time that has passed is exactly the property's time for the
operations the CPU issued, in order, each judged with the paging latch in force when it started. -/
theorem program_time_is_spec_time (n : Nat) (s : Cpu) (z : ZX) (hg : Good z.ctl) (h0 : z.tlog = []) :
    total (Z80.run .hw n (s, z)).2.ctl =
      specReplay z.ctl.kind (total z.ctl) (Z80.run .hw n (s, z)).2.tlog.reverse ∧
    Good (Z80.run .hw n (s, z)).2.ctl := by
  obtain ⟨d, hl, h⟩ := timed_closed.run .hw n (s, z)
  obtain ⟨g, _, t⟩ := h hg
  simp only at hl
  rw [hl, h0, List.append_nil]
  exact ⟨t, g⟩

/-- from reset, on either machine, with or without joystick/mouse -/
theorem from_reset (k : Kind) (ke mo : Bool) (n : Nat) (s : Cpu) :
    total (Z80.run .hw n (s, ZX.new k ke mo)).2.ctl =
      specReplay k 0 (Z80.run .hw n (s, ZX.new k ke mo)).2.tlog.reverse := by
  have h := (program_time_is_spec_time n s (ZX.new k ke mo) (good_new k) rfl).1
  have hk : (ZX.new k ke mo).ctl.kind = k := by cases k <;> rfl
  have ht : total (ZX.new k ke mo).ctl = 0 := by
    unfold total; cases k <;> simp [ZX.new, Ctl.new]
  rw [hk, ht] at h
  exact h

/-! ### What the property's time is made of -/

def plainClocks : TOp → Nat
  | .mem _ k => k
  | .plain k => k
  | .io _ => 4

/-- the ULA delay the property adds to an operation started at total time `t` -/
def specDelayOf (k : Kind) (latch : BitVec 8) (t : Nat) (op : TOp) : Nat :=
  Spec.opTime k latch t (toSpec op) - t - plainClocks op

theorem io_ge (k : Kind) (latch : BitVec 8) (t : Nat) (p : BitVec 16) :
    t + 4 ≤ Spec.opTime k latch t (.io p) := by
  simp only [Spec.opTime]
  cases Spec.addrContended k latch p <;> cases (p &&& 1 != 0) <;>
    simp only [Spec.ioPattern, List.foldl] <;> omega

/-- an operation never takes less than its plain clocks: time = plain clocks + delay, delay ≥ 0 -/
theorem opTime_decomposes (k : Kind) (latch : BitVec 8) (t : Nat) (op : TOp) :
    Spec.opTime k latch t (toSpec op) = t + plainClocks op + specDelayOf k latch t op := by
  unfold specDelayOf
  cases op with
  | mem a j => simp only [toSpec, Spec.opTime, plainClocks]; omega
  | plain j => simp only [toSpec, Spec.opTime, plainClocks]; omega
  | io p =>
    have h := io_ge k latch t p
    simp only [toSpec, plainClocks]
    omega

/-- the delays met along a history, each looked up at the time its operation starts -/
def delaysAlong (k : Kind) (t : Nat) : List (BitVec 8 × TOp) → Nat
  | [] => 0
  | e :: rest => specDelayOf k e.1 t e.2 + delaysAlong k (Spec.opTime k e.1 t (toSpec e.2)) rest

theorem specReplay_decomposes (k : Kind) (t : Nat) (es : List (BitVec 8 × TOp)) :
    specReplay k t es = t + (es.map fun e => plainClocks e.2).sum + delaysAlong k t es := by
  induction es generalizing t with
  | nil => simp [specReplay, delaysAlong]
  | cons e rest ih =>
    have h := ih (Spec.opTime k e.1 t (toSpec e.2))
    unfold specReplay at h ⊢
    simp only [List.foldl_cons, List.map_cons, List.sum_cons, delaysAlong]
    rw [h, opTime_decomposes]
    omega

/-- **Time of a program = its uncontended time + the ULA delays**, for every program, every run
length and both machines: the plain clocks of the operations the CPU issued plus, for each, the
delay the property prescribes at the moment it started. -/
theorem program_time_decomposes (n : Nat) (s : Cpu) (z : ZX) (hg : Good z.ctl) (h0 : z.tlog = []) :
    total (Z80.run .hw n (s, z)).2.ctl =
      total z.ctl + ((Z80.run .hw n (s, z)).2.tlog.reverse.map fun e => plainClocks e.2).sum +
        delaysAlong z.ctl.kind (total z.ctl) (Z80.run .hw n (s, z)).2.tlog.reverse := by
  rw [(program_time_is_spec_time n s z hg h0).1, specReplay_decomposes]

/-- outside contended memory, or outside the picture lines, an operation takes its plain clocks -/
theorem uncontended_mem_plain (k : Kind) (latch : BitVec 8) (t : Nat) (a : BitVec 16) (j : Nat)
    (h : Spec.addrContended k latch a = false) : Spec.opTime k latch t (.mem a j) = t + j := by
  simp [Spec.opTime, h]

/-- non-vacuity: a 48K program that reads screen memory at the first contended T-state is delayed
by 6 T-states; the same read from uncontended RAM is not -/
example : Spec.opTime .k48 0 14335 (.mem 0x4000 3) = 14335 + 6 + 3 ∧
    Spec.opTime .k48 0 14335 (.mem 0x8000 3) = 14335 + 3 ∧
    Spec.opTime .k128 0x01 14361 (.mem 0xC000 3) = 14361 + 6 + 3 ∧
    Spec.opTime .k128 0x00 14361 (.mem 0xC000 3) = 14361 + 3 := by decide

end ZxVerif.C04Sys
