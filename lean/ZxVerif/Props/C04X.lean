/-
C04/C05 — theorems over constants *extracted from the Rust sources on every run*
(tools/extract.py → ZxVerif/Extracted/Machine.lean, Contended.lean): what the code says now is
what the model (and hence every theorem of Props/C04.lean and Props/C05.lean) assumes.
-/
import ZxVerif.Extracted.Machine
import ZxVerif.Extracted.Contended
import ZxVerif.Spec.Machine
namespace ZxVerif.C04X
open ZxVerif.Machine

/-- the 48K timing constants in machine/mod.rs are the model's (first pixel 14336, 224 T/line,
128 T of picture per line, 192 lines, 69888 T/frame, 32 T INT, pattern 6,5,4,3,2,1,0,0) -/
theorem specs48_extracted :
    Extracted.specs_k48.clocksFirstPixel = Kind.k48.specs.clocksFirstPixel ∧
    Extracted.specs_k48.clocksLine = Kind.k48.specs.clocksLine ∧
    Extracted.specs_k48.clocksScreenRow = Kind.k48.specs.clocksScreenRow ∧
    Extracted.specs_k48.linesScreen = Kind.k48.specs.linesScreen ∧
    Extracted.specs_k48.clocksFrame = Kind.k48.specs.clocksFrame ∧
    Extracted.specs_k48.interruptLength = Kind.k48.specs.interruptLength ∧
    Extracted.specs_k48.pattern = Kind.k48.specs.pattern := by decide

/-- the same for the 128K (14362, 228, 128, 192, 70908, 32) -/
theorem specs128_extracted :
    Extracted.specs_k128.clocksFirstPixel = Kind.k128.specs.clocksFirstPixel ∧
    Extracted.specs_k128.clocksLine = Kind.k128.specs.clocksLine ∧
    Extracted.specs_k128.clocksScreenRow = Kind.k128.specs.clocksScreenRow ∧
    Extracted.specs_k128.linesScreen = Kind.k128.specs.linesScreen ∧
    Extracted.specs_k128.clocksFrame = Kind.k128.specs.clocksFrame ∧
    Extracted.specs_k128.interruptLength = Kind.k128.specs.interruptLength ∧
    Extracted.specs_k128.pattern = Kind.k128.specs.pattern := by decide

/-- the frame lengths the code derives are the property's -/
theorem frame_lengths_extracted :
    Extracted.specs_k48.clocksFrame = Spec.frameLen .k48 ∧
    Extracted.specs_k128.clocksFrame = Spec.frameLen .k128 := by decide

/-- T0 and line length of the property follow from the extracted constants -/
theorem t0_extracted :
    Extracted.specs_k48.clocksFirstPixel - 1 = Spec.t0 .k48 ∧ Extracted.specs_k48.clocksLine = Spec.lineLen .k48 ∧
    Extracted.specs_k128.clocksFirstPixel - 1 = Spec.t0 .k128 ∧ Extracted.specs_k128.clocksLine = Spec.lineLen .k128 := by
  decide

/-- the contended-bank list in `bank_is_contended` is the model's, and the property's odd banks -/
theorem contended_banks_extracted :
    ∀ b, b < 8 → (decide (b ∈ Extracted.contendedPages128) = bankIsContended .k128 b ∧
                  bankIsContended .k128 b = Spec.contendedBank128 b ∧
                  decide (b = Extracted.contendedPage48) = bankIsContended .k48 b) := by
  decide

end ZxVerif.C04X
