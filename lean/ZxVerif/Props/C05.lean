/-
C05 — Frames last 69888/70908 T with a 32-T INT pulse; no T-state is ever lost.

Model: the clock part of `ZXController` (`wait_internal`, `new_frame`, `int_active`) in
Model/Machine.lean. Every bus wait the CPU issues ends in `wait_internal`, so a run of the
machine is, for the clock, a list of waits; the theorems hold for every such list.
-/
import ZxVerif.Spec.Machine
namespace ZxVerif.C05
open ZxVerif.Machine

/-- total emulated time: completed frames × frame length + in-frame offset -/
def total (c : Ctl) : Nat := c.passedFrames * c.kind.specs.clocksFrame + c.frameClocks

/-- A frame lasts exactly 69888 T-states on the 48K … -/
theorem frame_len_48 : Kind.k48.specs.clocksFrame = 69888 ∧ Spec.frameLen .k48 = 69888 := by decide
/-- … and 70908 on the 128K (the constants the code derives from its line/row tables). -/
theorem frame_len_128 : Kind.k128.specs.clocksFrame = 70908 ∧ Spec.frameLen .k128 = 70908 := by decide

theorem waitInternal_kind (c : Ctl) (w : Nat) : (c.waitInternal w).kind = c.kind := by
  unfold Ctl.waitInternal; split <;> rfl

/-- one wait conserves time -/
theorem wait_conserves (c : Ctl) (w : Nat) : total (c.waitInternal w) = total c + w := by
  unfold total Ctl.waitInternal
  split
  · simp only [Nat.add_mul, Nat.one_mul]; omega
  · simp only; omega

/-- one wait shorter than a frame keeps the offset inside the frame -/
theorem wait_in_frame (c : Ctl) (w : Nat) (hc : c.frameClocks < c.kind.specs.clocksFrame)
    (hw : w < c.kind.specs.clocksFrame) :
    (c.waitInternal w).frameClocks < (c.waitInternal w).kind.specs.clocksFrame := by
  rw [waitInternal_kind]
  unfold Ctl.waitInternal
  split <;> simp only <;> omega

/-- **Time is conserved** over any list of waits (each shorter than a frame, which the bus
guarantees: the machine issues at most 7+6 T at a time): after the run, frames × frame length +
offset equals the time before plus the sum of the waits, and the offset is inside the frame. -/
theorem time_conserved (c : Ctl) (ws : List Nat) (hc : c.frameClocks < c.kind.specs.clocksFrame)
    (hw : ∀ w ∈ ws, w < c.kind.specs.clocksFrame) :
    total (ws.foldl Ctl.waitInternal c) = total c + ws.sum ∧
    (ws.foldl Ctl.waitInternal c).frameClocks < c.kind.specs.clocksFrame ∧
    (ws.foldl Ctl.waitInternal c).kind = c.kind := by
  induction ws generalizing c with
  | nil => simp [hc]
  | cons w ws ih =>
    have hk := waitInternal_kind c w
    have h1 := wait_in_frame c w hc (hw w List.mem_cons_self)
    have := ih (c.waitInternal w) h1 (by rw [hk]; exact fun w' hw' => hw w' (List.mem_cons_of_mem _ hw'))
    simp only [List.foldl_cons, List.sum_cons]
    rw [this.1, wait_conserves, hk] at *
    exact ⟨by omega, this.2.1, this.2.2⟩

/-- from power-on: frames·L + offset = Σ waits -/
theorem time_conserved_from_reset (m : Kind) (ws : List Nat) (hw : ∀ w ∈ ws, w < m.specs.clocksFrame) :
    let c := ws.foldl Ctl.waitInternal (Ctl.new m)
    c.passedFrames * m.specs.clocksFrame + c.frameClocks = ws.sum ∧ c.frameClocks < m.specs.clocksFrame := by
  have hk : (Ctl.new m).kind = m := by cases m <;> rfl
  have h0 : (Ctl.new m).frameClocks = 0 := by cases m <;> rfl
  have hp : (Ctl.new m).passedFrames = 0 := by cases m <;> rfl
  have hL : 0 < m.specs.clocksFrame := by cases m <;> decide
  have := time_conserved (Ctl.new m) ws (by rw [hk, h0]; exact hL) (by rw [hk]; exact hw)
  simp only [total, hk, h0, hp, this.2.2] at this
  exact ⟨by omega, this.2.1⟩

/-- **The overrun is carried**: a wait that crosses the frame end leaves exactly the overrun as
the new offset and counts one frame. -/
theorem overrun_carried (c : Ctl) (w : Nat) (h : c.frameClocks + w ≥ c.kind.specs.clocksFrame) :
    (c.waitInternal w).frameClocks = c.frameClocks + w - c.kind.specs.clocksFrame ∧
    (c.waitInternal w).passedFrames = c.passedFrames + 1 := by
  unfold Ctl.waitInternal; simp [h]

/-- **INT window**: the INT line is asserted exactly while the frame offset is below 32. -/
theorem int_window (c : Ctl) (h : c.frameClocks < c.kind.specs.clocksFrame) :
    c.intActive = true ↔ c.frameClocks < 32 := by
  unfold Ctl.intActive
  rw [Nat.mod_eq_of_lt h]
  have : c.kind.specs.interruptLength = 32 := by cases c.kind <;> rfl
  simp [this]

/-- INT as a function of total elapsed time from power-on: asserted iff (Σ waits) mod L < 32,
i.e. for exactly the first 32 T-states of every frame. -/
theorem int_every_frame_start (m : Kind) (ws : List Nat) (hw : ∀ w ∈ ws, w < m.specs.clocksFrame) :
    (ws.foldl Ctl.waitInternal (Ctl.new m)).intActive = true ↔ ws.sum % m.specs.clocksFrame < 32 := by
  have h := time_conserved_from_reset m ws hw
  simp only at h
  have hk : (ws.foldl Ctl.waitInternal (Ctl.new m)).kind = m := by
    have hk0 : (Ctl.new m).kind = m := by cases m <;> rfl
    have h0 : (Ctl.new m).frameClocks = 0 := by cases m <;> rfl
    have hL : 0 < m.specs.clocksFrame := by cases m <;> decide
    have := (time_conserved (Ctl.new m) ws (by rw [hk0, h0]; exact hL) (by rw [hk0]; exact hw)).2.2
    rw [this, hk0]
  rw [int_window _ (by rw [hk]; exact h.2)]
  have : ws.sum % m.specs.clocksFrame = (ws.foldl Ctl.waitInternal (Ctl.new m)).frameClocks := by
    rw [← h.1, Nat.add_comm, Nat.add_mul_mod_self_right, Nat.mod_eq_of_lt h.2]
  rw [this]

/-- A handler that keeps interrupts disabled for more than 32 T-states cannot be re-entered in
the same frame: once 32 T have passed since the frame start, INT stays inactive until the next
frame boundary. -/
theorem no_second_int_same_frame (c : Ctl) (w : Nat) (h : c.frameClocks ≥ 32)
    (hno : c.frameClocks + w < c.kind.specs.clocksFrame) : (c.waitInternal w).intActive = false := by
  have hk := waitInternal_kind c w
  have hf : (c.waitInternal w).frameClocks = c.frameClocks + w := by
    unfold Ctl.waitInternal
    have : ¬ (c.frameClocks + w ≥ c.kind.specs.clocksFrame) := by omega
    simp [this]
  have hin : (c.waitInternal w).frameClocks < (c.waitInternal w).kind.specs.clocksFrame := by
    rw [hk, hf]; exact hno
  cases hi : (c.waitInternal w).intActive
  · rfl
  · have := (int_window _ hin).1 hi
    omega

/-! Non-vacuity -/
example : let c := [69880, 13, 20].foldl Ctl.waitInternal (Ctl.new .k48)
    c.passedFrames = 1 ∧ c.frameClocks = 25 ∧ c.intActive = true := by decide

end ZxVerif.C05
