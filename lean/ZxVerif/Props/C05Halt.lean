/-
C05/C02 (whole machine) — HALT always wakes up at the next frame interrupt.

`EI; HALT` is how Spectrum programs wait for the frame. On the composed machine (Z80 reference on
the Spectrum bus) a halted CPU with interrupts enabled re-fetches the HALT opcode (4 T-states plus at
most 6 of ULA delay per turn, so it cannot step over the 32-T INT window) until the frame ends;
at the first instruction boundary of the next frame the interrupt is accepted. So the interrupt
of *every* frame is taken by a waiting program, less than 10 T-states after the frame start —
"interrupted exactly once per frame at the frame start" for the canonical waiting program, as a
liveness statement (Props/C05Sys.once_per_frame is the "at most once" half).
-/
import ZxVerif.Props.C05Prog
namespace ZxVerif.C05Halt
open ZxVerif.Z80 ZxVerif.Machine ZxVerif.Spectrum ZxVerif.C05

/-- a CPU waiting in HALT with interrupts enabled, on a machine in a regular state -/
structure Waiting (s : Cpu) (z : ZX) : Prop where
  halted : s.halted = true
  iff1 : s.iff1 = true
  noSkip : s.skipInt = false
  noPrefix : s.activePrefix = .none
  opcode : z.ctl.readInternal s.pc = 0x76
  good : C04Sys.Good z.ctl

theorem decision_waiting {s : Cpu} {z : ZX} (w : Waiting s z) :
    decision s z = if z.ctl.frameClocks < 32 then .int else .none := by
  have hw := C05.int_window z.ctl w.good.inFrame
  have hn : Bus.nmiActive z = false := rfl
  have hi : Bus.intActive z = z.ctl.intActive := rfl
  unfold decision
  simp only [w.noSkip, hn, hi, w.iff1, Bool.false_eq_true, if_false, Bool.and_true]
  by_cases h : z.ctl.frameClocks < 32
  · simp [h, hw.2 h]
  · have : z.ctl.intActive = false := by
      cases hx : z.ctl.intActive
      · rfl
      · exact absurd (hw.1 hx) h
    simp [h, this]

/-- one turn of the halted CPU outside the INT window: the same waiting state, 4..10 T-states later -/
theorem waiting_step {s : Cpu} {z : ZX} (w : Waiting s z) (h32 : 32 ≤ z.ctl.frameClocks) :
    Waiting (emulate .hw (s, z)).1 (emulate .hw (s, z)).2 ∧
    (emulate .hw (s, z)).1.pc = s.pc ∧
    total z.ctl + 4 ≤ total (emulate .hw (s, z)).2.ctl ∧
    total (emulate .hw (s, z)).2.ctl ≤ total z.ctl + 10 := by
  have hd : decision s z = .none := by rw [decision_waiting w]; simp; omega
  have hmem : (z.ctl.waitMreq s.pc 4).mem = z.ctl.mem := C06Sys.waitMreq_mem _ _ _
  have hrd : read s.pc 4 z = (0x76, Bus.waitMreq s.pc 4 z) := by
    show ((z.ctl.waitMreq s.pc 4).readInternal s.pc, Bus.waitMreq s.pc 4 z) = _
    have : (z.ctl.waitMreq s.pc 4).readInternal s.pc = z.ctl.readInternal s.pc := by
      unfold Ctl.readInternal; rw [hmem]
    rw [this, w.opcode]
  rw [C02.halt_spins .hw s z _ w.halted hd w.noPrefix hrd]
  obtain ⟨ht, hg, _⟩ := C04Sys.mem_time z.ctl s.pc 4 w.good (by omega)
  have hdec := C04Sys.opTime_decomposes z.ctl.kind z.ctl.port7ffd (total z.ctl) (.mem s.pc 4)
  have hle : C04Sys.specDelayOf z.ctl.kind z.ctl.port7ffd (total z.ctl) (.mem s.pc 4) ≤ 6 := by
    unfold C04Sys.specDelayOf
    simp only [C04Sys.toSpec, Spec.opTime, C04Sys.plainClocks]
    have := C04.specDelay_le z.ctl.kind (total z.ctl % Spec.frameLen z.ctl.kind)
    split <;> omega
  have hctl : (Bus.pcCallback s.pc (Bus.halt true (Bus.waitMreq s.pc 4 z)) : ZX).ctl = z.ctl.waitMreq s.pc 4 := rfl
  refine ⟨⟨w.halted, w.iff1, rfl, w.noPrefix, ?_, ?_⟩, rfl, ?_, ?_⟩
  · show (z.ctl.waitMreq s.pc 4).readInternal s.pc = 0x76
    unfold Ctl.readInternal; rw [hmem]; exact w.opcode
  · rw [hctl]; exact hg
  · rw [hctl, ht]; simp only [C04Sys.toSpec, C04Sys.plainClocks] at hdec; omega
  · rw [hctl, ht]; simp only [C04Sys.toSpec, C04Sys.plainClocks] at hdec; omega

/-- the time at which the frame in progress ends -/
def frameEnd (z : ZX) : Nat := (z.ctl.passedFrames + 1) * z.ctl.kind.specs.clocksFrame

theorem kind_step {s : Cpu} {z : ZX} : (emulate .hw (s, z)).2.ctl.kind = z.ctl.kind :=
  (C05Sys.timeFwd_closed.emulate .hw s z).1

/-- **HALT wakes up at the next frame interrupt.** From a waiting state, after finitely many turns
(at most a quarter of a frame length) the CPU stands at an instruction boundary at which the
interrupt is accepted, still at the HALT, and that boundary lies less than 10 T-states after the
end of the frame in progress (or right now, if the INT window is still open). -/
theorem halt_wakes (s : Cpu) (z : ZX) (w : Waiting s z) :
    ∃ n, decision (Z80.run .hw n (s, z)).1 (Z80.run .hw n (s, z)).2 = .int ∧
      (Z80.run .hw n (s, z)).1.pc = s.pc ∧ (Z80.run .hw n (s, z)).1.halted = true ∧
      total (Z80.run .hw n (s, z)).2.ctl < max (total z.ctl + 1) (frameEnd z + 10) := by
  -- induction on the distance to the end of the frame
  generalize hm : z.ctl.kind.specs.clocksFrame - z.ctl.frameClocks = m
  induction m using Nat.strongRecOn generalizing s z with
  | _ m ih =>
    by_cases h32 : z.ctl.frameClocks < 32
    · refine ⟨0, ?_, rfl, w.halted, ?_⟩
      · show decision s z = .int
        rw [decision_waiting w]; simp [h32]
      · show total z.ctl < _
        omega
    · have h32' : 32 ≤ z.ctl.frameClocks := by omega
      obtain ⟨w1, hpc, hlo, hhi⟩ := waiting_step w h32'
      have hk : (emulate .hw (s, z)).2.ctl.kind = z.ctl.kind := kind_step
      have hin := w.good.inFrame
      have hin1 := w1.good.inFrame
      rw [hk] at hin1
      -- either the frame ended (offset < 10: the window is open) or the offset grew
      have hcase : (emulate .hw (s, z)).2.ctl.frameClocks < 10 ∧
            (emulate .hw (s, z)).2.ctl.passedFrames = z.ctl.passedFrames + 1 ∨
          (z.ctl.frameClocks < (emulate .hw (s, z)).2.ctl.frameClocks ∧
            (emulate .hw (s, z)).2.ctl.passedFrames = z.ctl.passedFrames) := by
        unfold total at hlo hhi
        rw [hk] at hlo hhi
        have hL := C04Sys.frameLen_big z.ctl.kind
        -- passedFrames can only stay or grow by one within 10 T-states
        rcases Nat.lt_trichotomy (emulate .hw (s, z)).2.ctl.passedFrames z.ctl.passedFrames with hp | hp | hp
        · exfalso
          have : ((emulate .hw (s, z)).2.ctl.passedFrames + 1) * z.ctl.kind.specs.clocksFrame ≤
              z.ctl.passedFrames * z.ctl.kind.specs.clocksFrame := Nat.mul_le_mul_right _ hp
          rw [Nat.add_mul, Nat.one_mul] at this
          omega
        · right; rw [hp] at hlo hhi; exact ⟨by omega, hp⟩
        · left
          have : (z.ctl.passedFrames + 1) * z.ctl.kind.specs.clocksFrame ≤
              (emulate .hw (s, z)).2.ctl.passedFrames * z.ctl.kind.specs.clocksFrame := Nat.mul_le_mul_right _ hp
          rw [Nat.add_mul, Nat.one_mul] at this
          have hp1 : (emulate .hw (s, z)).2.ctl.passedFrames = z.ctl.passedFrames + 1 := by
            rcases Nat.lt_or_ge (emulate .hw (s, z)).2.ctl.passedFrames (z.ctl.passedFrames + 2) with hlt2 | hp2
            · omega
            · exfalso
              have : (z.ctl.passedFrames + 2) * z.ctl.kind.specs.clocksFrame ≤
                  (emulate .hw (s, z)).2.ctl.passedFrames * z.ctl.kind.specs.clocksFrame := Nat.mul_le_mul_right _ hp2
              rw [Nat.add_mul] at this
              omega
          rw [hp1, Nat.add_mul, Nat.one_mul] at hhi
          exact ⟨by omega, hp1⟩
      rcases hcase with ⟨hsmall, hpf⟩ | ⟨hgrow, hpf⟩
      · -- the frame has ended: the interrupt is accepted at this boundary
        refine ⟨1, ?_, hpc, w1.halted, ?_⟩
        · show decision (emulate .hw (s, z)).1 (emulate .hw (s, z)).2 = .int
          rw [decision_waiting w1]; simp; omega
        · show total (emulate .hw (s, z)).2.ctl < _
          unfold total frameEnd; rw [hk, hpf]; omega
      · -- still inside the frame, closer to its end
        have hlt : z.ctl.kind.specs.clocksFrame - (emulate .hw (s, z)).2.ctl.frameClocks < m := by omega
        obtain ⟨n, h1, h2, h3, h4⟩ := ih _ hlt _ _ w1 (by rw [hk])
        have eta : ((emulate .hw (s, z)).1, (emulate .hw (s, z)).2) = emulate .hw (s, z) := rfl
        rw [eta] at h1 h2 h3 h4
        refine ⟨n + 1, h1, h2.trans hpc, h3, ?_⟩
        show total (Z80.run .hw n (emulate .hw (s, z))).2.ctl < _
        have hfe : frameEnd (emulate .hw (s, z)).2 = frameEnd z := by unfold frameEnd; rw [hk, hpf]
        rw [hfe] at h4
        have : total (emulate .hw (s, z)).2.ctl + 1 ≤ frameEnd z + 10 := by
          unfold total frameEnd; rw [hk, hpf, Nat.add_mul, Nat.one_mul]; omega
        omega

/-- non-vacuity: `EI; HALT` at 0x8000 on a 48K — a waiting state exists -/
example : Waiting { (default : Cpu) with halted := true, iff1 := true, pc := 0x8000 }
    { ZX.new .k48 false false with ctl := (Ctl.new .k48).writeInternal 0x8000 0x76 } where
  halted := rfl
  iff1 := rfl
  noSkip := rfl
  noPrefix := rfl
  opcode := by decide
  good := (C04Sys.writeInternal_good _ _ _ (C04Sys.good_new .k48)).1

end ZxVerif.C05Halt
