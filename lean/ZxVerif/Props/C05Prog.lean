/-
C05 (whole programs) — statements of `Props/C05Sys.lean` freed from their "offset inside the frame"
hypothesis: `Props/C04Sys.lean` shows that the in-frame offset stays below the frame length in
every state a program can reach from reset, so the INT window characterisation applies at every
instruction boundary of every program.
-/
import ZxVerif.Props.C05Sys
import ZxVerif.Props.C06Prog
namespace ZxVerif.C05Prog
open ZxVerif.Z80 ZxVerif.Machine ZxVerif.Spectrum

/-- the frame offset of every reachable state lies inside the frame: 0 ≤ offset < 69888/70908 -/
theorem offset_in_frame (k : Kind) (ke mo : Bool) (n : Nat) (s : Cpu) :
    (Z80.run .hw n (s, ZX.new k ke mo)).2.ctl.frameClocks < k.specs.clocksFrame := by
  have h := (C06Prog.good_after_program k ke mo n s).inFrame
  rw [C06Prog.kind_after_program] at h
  exact h

/-- **INT only in the first 32 T-states of a frame, for every program**: at whatever instruction
boundary a program started from reset gets a maskable interrupt accepted, the frame offset is below
32, IFF1 is set and the previous instruction was not EI/DI/a prefix. -/
theorem int_only_in_window (k : Kind) (ke mo : Bool) (n : Nat) (s : Cpu)
    (h : decision (Z80.run .hw n (s, ZX.new k ke mo)).1 (Z80.run .hw n (s, ZX.new k ke mo)).2 = .int) :
    (Z80.run .hw n (s, ZX.new k ke mo)).2.ctl.frameClocks < 32 ∧
    (Z80.run .hw n (s, ZX.new k ke mo)).1.iff1 = true ∧ (Z80.run .hw n (s, ZX.new k ke mo)).1.skipInt = false :=
  C05Sys.accept_only_in_int_window _ _ (C06Prog.good_after_program k ke mo n s).inFrame h

/-- the INT line as the CPU sees it after any program: asserted exactly while the time since reset,
modulo the frame length, is below 32 -/
theorem int_line_after_program (k : Kind) (ke mo : Bool) (n : Nat) (s : Cpu) :
    (Z80.run .hw n (s, ZX.new k ke mo)).2.ctl.intActive = true ↔
      C05.total (Z80.run .hw n (s, ZX.new k ke mo)).2.ctl % Spec.frameLen k < 32 := by
  have hg := C06Prog.good_after_program k ke mo n s
  have hk := C06Prog.kind_after_program k ke mo n s
  have hm := C04Sys.fc_eq_mod _ hg.inFrame
  rw [hk] at hm
  rw [C05.int_window _ hg.inFrame, hm]

end ZxVerif.C05Prog
