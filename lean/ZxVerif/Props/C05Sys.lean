/-
C05 (system level) — the CPU model running on the Spectrum bus model.

Combines the interrupt acceptance rule of the Z80 model (Props/C02.lean) with the INT window of the
machine clock (Props/C05.lean) for the composed machine `Spectrum.ZX` (Model/Spectrum.lean), which
the lock-step correspondence ties to the real `Emulator`.
-/
import ZxVerif.Model.Spectrum
import ZxVerif.Props.C02
import ZxVerif.Props.C05
namespace ZxVerif.C05Sys
open ZxVerif.Z80 ZxVerif.Machine ZxVerif.Spectrum

/-- On the Spectrum a maskable interrupt is accepted only at an instruction boundary that lies in
the first 32 T-states of a frame, with IFF1 set and not directly after EI/DI/a prefix. -/
theorem accept_only_in_int_window (s : Cpu) (z : ZX)
    (hin : z.ctl.frameClocks < z.ctl.kind.specs.clocksFrame) (h : decision s z = .int) :
    z.ctl.frameClocks < 32 ∧ s.iff1 = true ∧ s.skipInt = false := by
  obtain ⟨h1, h2, h3, _⟩ := C02.int_only_when_enabled s z h
  have : z.ctl.intActive = true := h3
  exact ⟨(C05.int_window z.ctl hin).1 this, h1, h2⟩

/-- The Spectrum never raises NMI. -/
theorem never_nmi (s : Cpu) (z : ZX) : decision s z ≠ .nmi := by
  unfold decision
  have : Bus.nmiActive z = false := rfl
  simp only [this]
  split <;> simp
  split <;> simp

/-- **Once per frame.** Two acceptances whose instruction boundaries lie in the same frame are less
than 32 T-states apart — so a handler that takes longer than 32 T-states before it re-enables
interrupts (or simply returns later than that) cannot be re-entered in the frame that called it. -/
theorem once_per_frame (s1 s2 : Cpu) (z1 z2 : ZX)
    (hk : z2.ctl.kind = z1.ctl.kind)
    (hin1 : z1.ctl.frameClocks < z1.ctl.kind.specs.clocksFrame)
    (hin2 : z2.ctl.frameClocks < z2.ctl.kind.specs.clocksFrame)
    (hsame : z2.ctl.passedFrames = z1.ctl.passedFrames)
    (hlater : C05.total z1.ctl ≤ C05.total z2.ctl)
    (h1 : decision s1 z1 = .int) (h2 : decision s2 z2 = .int) :
    C05.total z2.ctl - C05.total z1.ctl < 32 := by
  have a1 := (accept_only_in_int_window s1 z1 hin1 h1).1
  have a2 := (accept_only_in_int_window s2 z2 hin2 h2).1
  unfold C05.total at *
  rw [hsame, hk] at *
  omega

/-- … and an acceptance in a *later* frame is at least a frame length minus 32 T-states later:
interrupts of a program that is always ready come exactly one frame apart (± the 32-T window). -/
theorem next_frame_distance (s1 s2 : Cpu) (z1 z2 : ZX)
    (hk : z2.ctl.kind = z1.ctl.kind)
    (hin1 : z1.ctl.frameClocks < z1.ctl.kind.specs.clocksFrame)
    (hin2 : z2.ctl.frameClocks < z2.ctl.kind.specs.clocksFrame)
    (hnext : z2.ctl.passedFrames = z1.ctl.passedFrames + 1)
    (h1 : decision s1 z1 = .int) (h2 : decision s2 z2 = .int) :
    z1.ctl.kind.specs.clocksFrame - 32 < C05.total z2.ctl - C05.total z1.ctl ∧
    C05.total z2.ctl - C05.total z1.ctl < z1.ctl.kind.specs.clocksFrame + 32 := by
  have a1 := (accept_only_in_int_window s1 z1 hin1 h1).1
  have a2 := (accept_only_in_int_window s2 z2 hin2 h2).1
  have hL : 69888 ≤ z1.ctl.kind.specs.clocksFrame := by cases z1.ctl.kind <;> decide
  unfold C05.total at *
  rw [hnext, hk] at *
  simp only [Nat.add_mul, Nat.one_mul]
  omega

/-- every primitive memory-side bus operation of the Spectrum bus conserves time:
it adds exactly its clocks plus the ULA delay at its start if the address is contended -/
theorem bus_wait_conserves (z : ZX) (a : BitVec 16) (clk : Nat) :
    C05.total (Bus.waitMreq a clk z).ctl =
      C05.total z.ctl + clk +
        (if z.ctl.addrIsContended a then contentionClocks z.ctl.kind z.ctl.frameClocks else 0) := by
  show C05.total (z.ctl.waitMreq a clk) = _
  unfold Ctl.waitMreq Ctl.doContention
  split
  · rw [C05.wait_conserves, C05.wait_conserves]; omega
  · rw [C05.wait_conserves]; omega

end ZxVerif.C05Sys
