/-
C05 (system level) — the CPU model running on the Spectrum bus model.

Combines the interrupt acceptance rule of the Z80 model (Props/C02.lean) with the INT window of the
machine clock (Props/C05.lean) for the composed machine `Spectrum.ZX` (Model/Spectrum.lean), which
the lock-step correspondence ties to the real `Emulator`.
-/
import ZxVerif.Model.Spectrum
import ZxVerif.Props.C02
import ZxVerif.Props.C05
import ZxVerif.Props.C04
import ZxVerif.Lemmas.Z80Closed
namespace ZxVerif.C05Sys
open ZxVerif.Z80 ZxVerif.Machine ZxVerif.Spectrum

/-- On the Spectrum a maskable interrupt is accepted only at an instruction boundary that lies in
the first 32 T-states of a frame, with IFF1 set and not directly after EI/DI/a prefix. -/
theorem accept_only_in_int_window (s : Cpu) (z : ZX)
    (hin : z.ctl.frameClocks < z.ctl.kind.specs.clocksFrame) (h : decision s z = .int) :
    z.ctl.frameClocks < 32 ∧ s.iff1 = true ∧ s.skipInt = false := by
  obtain ⟨h1, h2, h3, _⟩ := C02.int_only_when_enabled s z h
  have : z.ctl.intActive = true := h3
  exact ⟨(C05.int_window z.ctl hin).1 this, h1, h2⟩

/-- The Spectrum never raises NMI. -/
theorem never_nmi (s : Cpu) (z : ZX) : decision s z ≠ .nmi := by
  unfold decision
  have : Bus.nmiActive z = false := rfl
  simp only [this]
  split <;> simp
  split <;> simp

/-- **Once per frame.** Two acceptances whose instruction boundaries lie in the same frame are less
than 32 T-states apart — so a handler that takes longer than 32 T-states before it re-enables
interrupts (or simply returns later than that) cannot be re-entered in the frame that called it. -/
theorem once_per_frame (s1 s2 : Cpu) (z1 z2 : ZX)
    (hk : z2.ctl.kind = z1.ctl.kind)
    (hin1 : z1.ctl.frameClocks < z1.ctl.kind.specs.clocksFrame)
    (hin2 : z2.ctl.frameClocks < z2.ctl.kind.specs.clocksFrame)
    (hsame : z2.ctl.passedFrames = z1.ctl.passedFrames)
    (hlater : C05.total z1.ctl ≤ C05.total z2.ctl)
    (h1 : decision s1 z1 = .int) (h2 : decision s2 z2 = .int) :
    C05.total z2.ctl - C05.total z1.ctl < 32 := by
  have a1 := (accept_only_in_int_window s1 z1 hin1 h1).1
  have a2 := (accept_only_in_int_window s2 z2 hin2 h2).1
  unfold C05.total at *
  rw [hsame, hk] at *
  omega

/-- … and an acceptance in a *later* frame is at least a frame length minus 32 T-states later:
interrupts of a program that is always ready come exactly one frame apart (± the 32-T window). -/
theorem next_frame_distance (s1 s2 : Cpu) (z1 z2 : ZX)
    (hk : z2.ctl.kind = z1.ctl.kind)
    (hin1 : z1.ctl.frameClocks < z1.ctl.kind.specs.clocksFrame)
    (hin2 : z2.ctl.frameClocks < z2.ctl.kind.specs.clocksFrame)
    (hnext : z2.ctl.passedFrames = z1.ctl.passedFrames + 1)
    (h1 : decision s1 z1 = .int) (h2 : decision s2 z2 = .int) :
    z1.ctl.kind.specs.clocksFrame - 32 < C05.total z2.ctl - C05.total z1.ctl ∧
    C05.total z2.ctl - C05.total z1.ctl < z1.ctl.kind.specs.clocksFrame + 32 := by
  have a1 := (accept_only_in_int_window s1 z1 hin1 h1).1
  have a2 := (accept_only_in_int_window s2 z2 hin2 h2).1
  have hL : 69888 ≤ z1.ctl.kind.specs.clocksFrame := by cases z1.ctl.kind <;> decide
  unfold C05.total at *
  rw [hnext, hk] at *
  simp only [Nat.add_mul, Nat.one_mul]
  omega

/-- every primitive memory-side bus operation of the Spectrum bus conserves time:
it adds exactly its clocks plus the ULA delay at its start if the address is contended -/
theorem bus_wait_conserves (z : ZX) (a : BitVec 16) (clk : Nat) :
    C05.total (Bus.waitMreq a clk z).ctl =
      C05.total z.ctl + clk +
        (if z.ctl.addrIsContended a then contentionClocks z.ctl.kind z.ctl.frameClocks else 0) := by
  show C05.total (z.ctl.waitMreq a clk) = _
  unfold Ctl.waitMreq Ctl.doContention
  split
  · rw [C05.wait_conserves, C05.wait_conserves]; omega
  · rw [C05.wait_conserves]; omega

/-! ### Whole programs: time never runs backwards and is never lost -/

/-- emulated time only moves forward and the machine kind never changes -/
def TimeFwd (z z' : ZX) : Prop := z'.ctl.kind = z.ctl.kind ∧ C05.total z.ctl ≤ C05.total z'.ctl

theorem wait_fwd (c : Ctl) (k : Nat) :
    (c.waitInternal k).kind = c.kind ∧ C05.total c ≤ C05.total (c.waitInternal k) := by
  refine ⟨C05.waitInternal_kind c k, ?_⟩
  rw [C05.wait_conserves]; omega

theorem chain {a b c : Ctl} (h1 : b.kind = a.kind ∧ C05.total a ≤ C05.total b)
    (h2 : c.kind = b.kind ∧ C05.total b ≤ C05.total c) : c.kind = a.kind ∧ C05.total a ≤ C05.total c :=
  ⟨h2.1.trans h1.1, Nat.le_trans h1.2 h2.2⟩

theorem mreq_fwd (c : Ctl) (a : BitVec 16) (k : Nat) :
    (c.waitMreq a k).kind = c.kind ∧ C05.total c ≤ C05.total (c.waitMreq a k) := by
  unfold Ctl.waitMreq Ctl.doContention
  split
  · exact chain (wait_fwd c _) (wait_fwd _ k)
  · exact wait_fwd c k

theorem ioFirst_fwd (c : Ctl) (p : BitVec 16) :
    (c.ioContentionFirst p).kind = c.kind ∧ C05.total c ≤ C05.total (c.ioContentionFirst p) := by
  unfold Ctl.ioContentionFirst Ctl.doContention
  split
  · exact chain (wait_fwd c _) (wait_fwd _ 1)
  · exact wait_fwd c 1

theorem ioLast_fwd (c : Ctl) (p : BitVec 16) :
    (c.ioContentionLast p).kind = c.kind ∧ C05.total c ≤ C05.total (c.ioContentionLast p) := by
  unfold Ctl.ioContentionLast Ctl.doContentionAndWait Ctl.doContention
  split
  · exact wait_fwd c _
  · split
    · exact chain (chain (wait_fwd c _) (wait_fwd _ _)) (wait_fwd _ _)
    · exact wait_fwd c 2

theorem write7ffd_clock (c : Ctl) (v : BitVec 8) :
    (c.write7ffd v).kind = c.kind ∧ (c.write7ffd v).frameClocks = c.frameClocks ∧
    (c.write7ffd v).passedFrames = c.passedFrames := by
  unfold Ctl.write7ffd
  split
  · exact ⟨rfl, rfl, rfl⟩
  · split
    · exact ⟨rfl, rfl, rfl⟩
    · split <;> exact ⟨rfl, rfl, rfl⟩

theorem timeFwd_closed : BusClosed TimeFwd where
  refl _ := ⟨rfl, Nat.le_refl _⟩
  trans h1 h2 := ⟨h2.1.trans h1.1, Nat.le_trans h1.2 h2.2⟩
  waitMreq a k z := mreq_fwd z.ctl a k
  waitNoMreq a k z := mreq_fwd z.ctl a k
  waitInternal k z := wait_fwd z.ctl k
  readInternal _ _ := ⟨rfl, Nat.le_refl _⟩
  writeInternal _ _ _ := ⟨rfl, Nat.le_refl _⟩
  readIo p z := chain (chain (ioFirst_fwd z.ctl p) (ioLast_fwd _ p)) (wait_fwd _ 1)
  writeIo p v z := by
    show (ZX.writeIo p v z).ctl.kind = z.ctl.kind ∧ C05.total z.ctl ≤ C05.total (ZX.writeIo p v z).ctl
    unfold ZX.writeIo
    have hf := ioFirst_fwd z.ctl p
    have key : ∀ c1 : Ctl, (c1.kind = z.ctl.kind ∧ C05.total z.ctl ≤ C05.total c1) →
        ((c1.ioContentionLast p).waitInternal 1).kind = z.ctl.kind ∧
        C05.total z.ctl ≤ C05.total ((c1.ioContentionLast p).waitInternal 1) :=
      fun c1 h1 => chain h1 (chain (ioLast_fwd c1 p) (wait_fwd _ 1))
    split <;> simp only
    all_goals first
      | exact key _ hf
      | (apply key
         have hw := write7ffd_clock (z.ctl.ioContentionFirst p) v
         refine ⟨hw.1.trans hf.1, ?_⟩
         unfold C05.total at *
         rw [hw.1, hw.2.1, hw.2.2]; exact hf.2)
  readInterrupt _ := ⟨rfl, Nat.le_refl _⟩
  reti _ := ⟨rfl, Nat.le_refl _⟩
  halt _ _ := ⟨rfl, Nat.le_refl _⟩
  pcCallback _ _ := ⟨rfl, Nat.le_refl _⟩

/-- **Time never runs backwards, whatever program runs**: after any number of instructions
(interrupt entries, port accesses, paging included) the total emulated time — completed frames ×
frame length + offset — is at least what it was. -/
theorem program_time_forward (n : Nat) (s : Cpu) (z : ZX) :
    C05.total z.ctl ≤ C05.total (Z80.run .hw n (s, z)).2.ctl :=
  (timeFwd_closed.run .hw n (s, z)).2

/-- every executed instruction (or interrupt entry + instruction, or prefix byte) costs at least
the 4 T-states of its first opcode fetch -/
theorem step_costs_at_least_4 (s : Cpu) (z : ZX) :
    C05.total z.ctl + 4 ≤ C05.total (Spectrum.step (s, z)).2.ctl := by
  have hfetch : ∀ (s1 : Cpu) (z1 : ZX),
      C05.total z1.ctl + 4 ≤ C05.total (fetchByte 4 s1 z1).2.2.ctl := by
    intro s1 z1
    show C05.total z1.ctl + 4 ≤ C05.total (z1.ctl.waitMreq s1.pc 4)
    unfold Ctl.waitMreq Ctl.doContention
    split
    · rw [C05.wait_conserves, C05.wait_conserves]; omega
    · rw [C05.wait_conserves]; omega
  -- interrupt check: forward; first fetch: + at least 4; rest of the instruction and pc_callback: forward
  have h1 := (timeFwd_closed.k_checkInterrupt s (timeFwd_closed.refl z)).2
  obtain ⟨s', h2⟩ := timeFwd_closed.execOne_after_fetch .hw (checkInterrupt s z).1 (checkInterrupt s z).2
  have h3 := hfetch s' (checkInterrupt s z).2
  have h4 : (Spectrum.step (s, z)).2.ctl =
      (execOne .hw (checkInterrupt s z).1 (checkInterrupt s z).2).2.ctl := rfl
  rw [h4]
  exact Nat.le_trans (Nat.le_trans (Nat.add_le_add_right h1 4) h3) h2.2

/-- a run of `n` steps takes at least `4·n` T-states: programs cannot stall emulated time -/
theorem program_time_progress (n : Nat) (s : Cpu) (z : ZX) :
    C05.total z.ctl + 4 * n ≤ C05.total (Z80.run .hw n (s, z)).2.ctl := by
  induction n generalizing s z with
  | zero => exact Nat.le_refl _
  | succ n ih =>
    simp only [Z80.run]
    have h1 := step_costs_at_least_4 s z
    have h2 := ih (Z80.emulate .hw (s, z)).1 (Z80.emulate .hw (s, z)).2
    have : Z80.emulate .hw (s, z) = ((Z80.emulate .hw (s, z)).1, (Z80.emulate .hw (s, z)).2) := rfl
    rw [← this] at h2
    unfold Spectrum.step at h1
    omega

end ZxVerif.C05Sys
