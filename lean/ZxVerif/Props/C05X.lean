/-
C05 — theorems over the frame-clock code *translated from the Rust source on every run*
(tools/extract.py, table FrameClock → ZxVerif/Extracted/FrameClock.lean): `wait_internal`, `new_frame`,
`int_active`, `frames_count`, `reset_frame_counter`, `restore_frame_clocks` and the clock fields of
`ZXController::new` (controller.rs), statement by statement over `Nat`; the frame length and the INT
length come from the builder chains of machine/mod.rs (table Machine → Extracted/Machine.lean).

What the source text says now is what Model/Machine.lean runs: the translated `wait_internal` equals
`Ctl.waitInternal` for every clock value and every wait (`clock += n`; `>=` against the frame length;
the overrun carried; one frame counted), the translated `int_active` is `frame clock < 32` inside a
frame, and the conservation theorem of Props/C05.lean holds of the translated function itself.
-/
import ZxVerif.Extracted.FrameClock
import ZxVerif.Extracted.Machine
import ZxVerif.Props.C05
namespace ZxVerif.C05X
open ZxVerif.Machine
open ZxVerif.Extracted

/-- the two numbers of a machine's `ZXSpecs` the clock methods read, taken from the model's table -/
def specsOf (k : Kind) : FrameClock.Specs :=
  { clocks_frame := k.specs.clocksFrame, interrupt_length := k.specs.interruptLength }

/-- … and from the builder chains as extracted from machine/mod.rs -/
def specsSrc : Kind → FrameClock.Specs
  | .k48 => { clocks_frame := Extracted.specs_k48.clocksFrame, interrupt_length := Extracted.specs_k48.interruptLength }
  | .k128 => { clocks_frame := Extracted.specs_k128.clocksFrame, interrupt_length := Extracted.specs_k128.interruptLength }

/-- the clock fields of a model state -/
def clkOf (c : Ctl) : FrameClock.Clk := { frame_clocks := c.frameClocks, passed_frames := c.passedFrames }

/-- the frame length and INT length the source's builder chains derive are the model's and the
property's: 69888 / 70908 T-states, 32 T-states -/
theorem specs_src_is_model (k : Kind) :
    specsSrc k = specsOf k ∧ (specsSrc k).clocks_frame = Spec.frameLen k ∧ (specsSrc k).interrupt_length = 32 := by
  cases k <;> decide

/-- `ZXController::new` starts the clock at frame 0, T-state 0, like the model -/
theorem new_clock_is_model (k : Kind) : FrameClock.newClk = clkOf (Ctl.new k) := by
  cases k <;> rfl

/-! ### `wait_internal` -/

/-- the translated `wait_internal` in closed form, for every frame length, clock, frame count and wait:
add; if the sum is `>=` the frame length subtract it (`new_frame`) and count one frame -/
theorem waitInternal_closed (sp : FrameClock.Specs) (s : FrameClock.Clk) (n : Nat) :
    FrameClock.waitInternal sp s n =
      if s.frame_clocks + n ≥ sp.clocks_frame then
        { frame_clocks := s.frame_clocks + n - sp.clocks_frame, passed_frames := s.passed_frames + 1 }
      else { frame_clocks := s.frame_clocks + n, passed_frames := s.passed_frames } := by
  unfold FrameClock.waitInternal FrameClock.newFrame
  by_cases h : s.frame_clocks + n ≥ sp.clocks_frame <;> simp [h]

/-- **The translated `wait_internal` is the model's `Ctl.waitInternal`**: for every model state (any
clock value, any frame count, either machine) and every wait, the clock fields after the translated
function are the clock fields after the model's. A general proof over all naturals, not a sample. -/
theorem waitInternal_is_model (c : Ctl) (n : Nat) :
    FrameClock.waitInternal (specsOf c.kind) (clkOf c) n = clkOf (c.waitInternal n) := by
  rw [waitInternal_closed]
  unfold Ctl.waitInternal clkOf specsOf
  by_cases h : c.frameClocks + n ≥ c.kind.specs.clocksFrame <;> simp [h]

/-- the same with the frame length as the source's builder chain derives it -/
theorem waitInternal_src_is_model (c : Ctl) (n : Nat) :
    FrameClock.waitInternal (specsSrc c.kind) (clkOf c) n = clkOf (c.waitInternal n) := by
  rw [(specs_src_is_model c.kind).1]; exact waitInternal_is_model c n

/-- arithmetic form, independent of the model: after the translated `wait_internal` the new clock is
`clock + n` below the frame length and `clock + n − L` from it on (`>=`, not `>`: a wait that ends
exactly on the frame end starts the next frame at T-state 0), the frame count grows by exactly that
one frame -/
theorem waitInternal_arith (sp : FrameClock.Specs) (s : FrameClock.Clk) (n : Nat) :
    (s.frame_clocks + n < sp.clocks_frame →
      (FrameClock.waitInternal sp s n).frame_clocks = s.frame_clocks + n ∧
      (FrameClock.waitInternal sp s n).passed_frames = s.passed_frames) ∧
    (s.frame_clocks + n ≥ sp.clocks_frame →
      (FrameClock.waitInternal sp s n).frame_clocks = s.frame_clocks + n - sp.clocks_frame ∧
      (FrameClock.waitInternal sp s n).passed_frames = s.passed_frames + 1) ∧
    (s.frame_clocks + n = sp.clocks_frame → (FrameClock.waitInternal sp s n).frame_clocks = 0) := by
  rw [waitInternal_closed]
  refine ⟨fun h => ?_, fun h => ?_, fun h => ?_⟩
  · have : ¬ (s.frame_clocks + n ≥ sp.clocks_frame) := by omega
    simp [this]
  · simp [h]
  · have : s.frame_clocks + n ≥ sp.clocks_frame := by omega
    simp only [this, if_true]; omega

/-! ### Conservation, over the translated function -/

/-- total emulated time of a translated clock state: frames × frame length + offset -/
def totalX (sp : FrameClock.Specs) (s : FrameClock.Clk) : Nat := s.passed_frames * sp.clocks_frame + s.frame_clocks

/-- **One translated wait conserves time**: frames·L + offset grows by exactly the wait, for every
frame length, state and wait — across the frame boundary too (the overrun is carried, nothing lost) -/
theorem wait_conserves_src (sp : FrameClock.Specs) (s : FrameClock.Clk) (n : Nat) :
    totalX sp (FrameClock.waitInternal sp s n) = totalX sp s + n := by
  rw [waitInternal_closed]; unfold totalX
  split
  · simp only [Nat.add_mul, Nat.one_mul]; omega
  · simp only; omega

/-- a translated wait shorter than a frame keeps the offset inside the frame -/
theorem wait_in_frame_src (sp : FrameClock.Specs) (s : FrameClock.Clk) (n : Nat)
    (hs : s.frame_clocks < sp.clocks_frame) (hn : n < sp.clocks_frame) :
    (FrameClock.waitInternal sp s n).frame_clocks < sp.clocks_frame := by
  rw [waitInternal_closed]; split <;> simp only <;> omega

/-- **Time is conserved over every list of waits, by the translated function** (C05's
`time_conserved`, restated over `wait_internal` as it stands in the source): after any list of waits,
each shorter than a frame, frames × frame length + offset = time before + sum of the waits, and the
offset is inside the frame -/
theorem time_conserved_src (sp : FrameClock.Specs) (s : FrameClock.Clk) (ws : List Nat)
    (hs : s.frame_clocks < sp.clocks_frame) (hw : ∀ w ∈ ws, w < sp.clocks_frame) :
    totalX sp (ws.foldl (FrameClock.waitInternal sp) s) = totalX sp s + ws.sum ∧
    (ws.foldl (FrameClock.waitInternal sp) s).frame_clocks < sp.clocks_frame := by
  induction ws generalizing s with
  | nil => simp [hs]
  | cons w ws ih =>
    have h1 := wait_in_frame_src sp s w hs (hw w List.mem_cons_self)
    have := ih (FrameClock.waitInternal sp s w) h1 (fun w' hw' => hw w' (List.mem_cons_of_mem _ hw'))
    simp only [List.foldl_cons, List.sum_cons]
    rw [this.1, wait_conserves_src]
    exact ⟨by omega, this.2⟩

/-- every run of the translated function is the model's run: folding the translated `wait_internal`
over a list of waits gives the clock fields of the model's fold -/
theorem run_is_model (c : Ctl) (ws : List Nat) :
    ws.foldl (FrameClock.waitInternal (specsOf c.kind)) (clkOf c) = clkOf (ws.foldl Ctl.waitInternal c) := by
  induction ws generalizing c with
  | nil => rfl
  | cons w ws ih =>
    simp only [List.foldl_cons]
    rw [waitInternal_is_model, ← C05.waitInternal_kind c w]
    exact ih (c.waitInternal w)

/-- from power-on, with the source's frame length: frames·L + offset = Σ waits, L = 69888 / 70908 -/
theorem time_conserved_from_reset_src (k : Kind) (ws : List Nat) (hw : ∀ w ∈ ws, w < Spec.frameLen k) :
    let s := ws.foldl (FrameClock.waitInternal (specsSrc k)) FrameClock.newClk
    s.passed_frames * Spec.frameLen k + s.frame_clocks = ws.sum ∧ s.frame_clocks < Spec.frameLen k := by
  have hL := (specs_src_is_model k).2.1
  have h := time_conserved_src (specsSrc k) FrameClock.newClk ws
    (by rw [hL]; cases k <;> decide) (by rw [hL]; exact hw)
  simp only [totalX, hL] at h
  have h0 : FrameClock.newClk.passed_frames * Spec.frameLen k + FrameClock.newClk.frame_clocks = 0 := by
    simp [FrameClock.newClk]
  exact ⟨by omega, h.2⟩

/-! ### `int_active` -/

/-- **The translated `int_active` is the model's**, for every state -/
theorem intActive_is_model (c : Ctl) :
    FrameClock.intActive (specsOf c.kind) (clkOf c) = c.intActive := rfl

/-- **INT test is `< 32`**: with the frame length and the INT length of the source's builder chains,
the translated `int_active` of a state inside the frame is true exactly when the frame clock is below
32 — T-states 0…31, not 32 -/
theorem int_window_src (k : Kind) (s : FrameClock.Clk) (h : s.frame_clocks < Spec.frameLen k) :
    FrameClock.intActive (specsSrc k) s = true ↔ s.frame_clocks < 32 := by
  obtain ⟨_, hL, hI⟩ := specs_src_is_model k
  unfold FrameClock.intActive
  rw [hL, hI, Nat.mod_eq_of_lt h]
  simp

/-- the boundary cases on both machines, computed on the translated function: active at T-state 31,
inactive at 32 and at the last T-state of the frame, active again at 0 -/
theorem int_window_edges :
    FrameClock.intActive (specsSrc .k48) ⟨31, 0⟩ = true ∧ FrameClock.intActive (specsSrc .k48) ⟨32, 0⟩ = false ∧
    FrameClock.intActive (specsSrc .k48) ⟨69887, 0⟩ = false ∧ FrameClock.intActive (specsSrc .k48) ⟨0, 3⟩ = true ∧
    FrameClock.intActive (specsSrc .k128) ⟨31, 0⟩ = true ∧ FrameClock.intActive (specsSrc .k128) ⟨32, 0⟩ = false ∧
    FrameClock.intActive (specsSrc .k128) ⟨70907, 0⟩ = false := by decide

/-- INT as a function of total time, over the translated functions: from power-on, after any list of
waits (each shorter than a frame) `int_active` holds iff (Σ waits) mod frame length < 32 -/
theorem int_every_frame_start_src (k : Kind) (ws : List Nat) (hw : ∀ w ∈ ws, w < Spec.frameLen k) :
    FrameClock.intActive (specsSrc k) (ws.foldl (FrameClock.waitInternal (specsSrc k)) FrameClock.newClk) = true ↔
      ws.sum % Spec.frameLen k < 32 := by
  have h := time_conserved_from_reset_src k ws hw
  simp only at h
  rw [int_window_src k _ h.2]
  have : ws.sum % Spec.frameLen k =
      (ws.foldl (FrameClock.waitInternal (specsSrc k)) FrameClock.newClk).frame_clocks := by
    rw [← h.1, Nat.add_comm, Nat.add_mul_mod_self_right, Nat.mod_eq_of_lt h.2]
  rw [this]

/-! ### The frame counter -/

/-- `frames_count` reads the counter `wait_internal` increments; `reset_frame_counter` zeroes it and
leaves the clock alone; `restore_frame_clocks` sets the clock to the value mod frame length and
leaves the counter alone -/
theorem frame_counter_extracted (sp : FrameClock.Specs) (s : FrameClock.Clk) (n : Nat) :
    FrameClock.framesCount s = s.passed_frames ∧
    FrameClock.resetFrameCounter s = { s with passed_frames := 0 } ∧
    FrameClock.restoreFrameClocks sp s n = { s with frame_clocks := n % sp.clocks_frame } :=
  ⟨rfl, rfl, rfl⟩

/-! Non-vacuity: the run of C05's example through the translated functions -/
example : let s := [69880, 13, 20].foldl (FrameClock.waitInternal (specsSrc .k48)) FrameClock.newClk
    s.passed_frames = 1 ∧ s.frame_clocks = 25 ∧ FrameClock.intActive (specsSrc .k48) s = true := by decide

end ZxVerif.C05X
