/-
C06 — CPU-visible memory follows the Spectrum memory map and 128K paging rules.

Concrete model: `Ctl` (ZXMemory + the paging fields of ZXController) in Model/Machine.lean.
Abstract spec : `Spec.Mem128` (contents per bank, last accepted latch value, lock) in
Spec/Machine.lean. Refinement: `abs` commutes with every operation and reads agree; the
corollaries then hold for every finite history of paging writes and memory writes.
-/
import ZxVerif.Spec.Machine
import Std.Tactic.BVDecide
namespace ZxVerif.C06
open ZxVerif.Machine

/-- abstraction map -/
def abs (c : Ctl) : Spec.Mem128 :=
  { banks := c.mem.ram, roms := c.mem.rom, latch := c.port7ffd, locked := !c.pagingEnabled }

/-- concrete step for an abstract operation: a paging write that reached the latch decoder, or
the memory part of a CPU write -/
def stepC (c : Ctl) : Spec.MemOp → Ctl
  | .out7ffd v => c.write7ffd v
  | .write a v => c.writeInternal a v

def runC (c : Ctl) (ops : List Spec.MemOp) : Ctl := ops.foldl stepC c

/-- The representation invariant of a 128K machine: the four-slot map is what the latch says. -/
structure MapInv (c : Ctl) : Prop where
  kind : c.kind = .k128
  ramPages : c.mem.ramPages = 8
  romPages : c.mem.romPages = 2
  noPanic : c.panicked = false
  slot0 : c.mem.map 0 = .rom (if c.port7ffd &&& 0x10 = 0 then 0 else 1)
  slot1 : c.mem.map 1 = .ram 5
  slot2 : c.mem.map 2 = .ram 2
  slot3 : c.mem.map 3 = .ram (c.port7ffd &&& 0x07).toNat
  screen : c.screenBank = (if c.port7ffd &&& 0x08 = 0 then 5 else 7)

theorem rom_bit (v : BitVec 8) : ((v >>> 4) &&& 0x01).toNat = if v &&& 0x10 = 0 then 0 else 1 := by
  have h : ((v >>> 4) &&& 0x01) = if v &&& 0x10 = 0 then 0#8 else 1#8 := by bv_decide
  rw [h]; split <;> rfl

theorem bank_lt (v : BitVec 8) : (v &&& 0x07).toNat < 8 := by
  have h : (v &&& 0x07) < 8#8 := by bv_decide
  exact h

theorem init_inv : MapInv (Ctl.new .k128) := by
  constructor <;> simp [Ctl.new, Mem.new]

theorem write7ffd_eq (c : Ctl) (hi : MapInv c) (v : BitVec 8) (he : c.pagingEnabled = true) :
    c.write7ffd v =
      { c with
        port7ffd := v
        mem := { c.mem with map := fun b => if b = 0 then .rom ((v >>> 4) &&& 0x01).toNat
                                             else if b = 3 then .ram (v &&& 0x07).toNat else c.mem.map b }
        screenBank := if v &&& 0x08 = 0 then 5 else 7
        pagingEnabled := if v &&& 0x20 ≠ 0 then false else c.pagingEnabled } := by
  have hb := bank_lt v
  have hr : ((v >>> 4) &&& 0x01).toNat < 2 := by rw [rom_bit]; split <;> omega
  unfold Ctl.write7ffd Mem.remap
  simp only [he, Bool.not_true, Bool.false_eq_true, if_false, hi.ramPages, hi.romPages]
  have h1 : ¬ ((v &&& 0x07).toNat + 1 > 8) := by omega
  have h2 : ¬ (((v >>> 4) &&& 0x01).toNat + 1 > 2) := by omega
  simp only [h1, h2, if_false]

/-- every operation preserves the invariant -/
theorem step_inv (c : Ctl) (hi : MapInv c) (op : Spec.MemOp) : MapInv (stepC c op) := by
  cases op with
  | write a v =>
    simp only [stepC, Ctl.writeInternal, Mem.write]
    split
    · exact ⟨hi.kind, hi.ramPages, hi.romPages, hi.noPanic, hi.slot0, hi.slot1, hi.slot2, hi.slot3, hi.screen⟩
    · exact ⟨hi.kind, hi.ramPages, hi.romPages, hi.noPanic, hi.slot0, hi.slot1, hi.slot2, hi.slot3, hi.screen⟩
  | out7ffd v =>
    simp only [stepC]
    cases he : c.pagingEnabled
    · have : c.write7ffd v = c := by simp [Ctl.write7ffd, he]
      rw [this]; exact hi
    · rw [write7ffd_eq c hi v he]
      refine ⟨hi.kind, hi.ramPages, hi.romPages, hi.noPanic, ?_, ?_, ?_, ?_, ?_⟩
      · show Page.rom ((v >>> 4) &&& 0x01).toNat = _
        rw [rom_bit]
      · simp [hi.slot1]
      · simp [hi.slot2]
      · simp
      · simp

theorem run_inv (c : Ctl) (hi : MapInv c) (ops : List Spec.MemOp) : MapInv (runC c ops) := by
  induction ops generalizing c with
  | nil => exact hi
  | cons op ops ih => exact ih _ (step_inv c hi op)

/-- **Window map**: a CPU read returns the byte the property's window function designates:
0x0000 the ROM selected by bit 4, 0x4000 bank 5, 0x8000 bank 2, 0xC000 the bank of bits 0–2. -/
theorem window_map (c : Ctl) (hi : MapInv c) (a : BitVec 16) :
    c.readInternal a = (abs c).read a := by
  have hq : a.toNat / 16384 < 4 := by have := a.isLt; omega
  unfold Ctl.readInternal Mem.read Mem.pagedAddress Spec.Mem128.read Spec.Mem128.phys Spec.window128 abs pageSize
  simp only [show (16 * 1024 : Nat) = 16384 from rfl]
  have : a.toNat / 16384 = 0 ∨ a.toNat / 16384 = 1 ∨ a.toNat / 16384 = 2 ∨ a.toNat / 16384 = 3 := by omega
  rcases this with h | h | h | h <;> rw [h]
  · rw [hi.slot0]; rfl
  · rw [hi.slot1]; rfl
  · rw [hi.slot2]; rfl
  · rw [hi.slot3]; rfl

/-- the physical location of an address, concretely -/
theorem phys_eq (c : Ctl) (hi : MapInv c) (a : BitVec 16) :
    (match c.mem.pagedAddress a with
      | (.rom n, off) => Spec.Phys.rom n off
      | (.ram b, off) => Spec.Phys.ram b off) = (abs c).phys a := by
  have hq : a.toNat / 16384 < 4 := by have := a.isLt; omega
  unfold Mem.pagedAddress Spec.Mem128.phys Spec.window128 abs pageSize
  simp only [show (16 * 1024 : Nat) = 16384 from rfl]
  have : a.toNat / 16384 = 0 ∨ a.toNat / 16384 = 1 ∨ a.toNat / 16384 = 2 ∨ a.toNat / 16384 = 3 := by omega
  rcases this with h | h | h | h <;> rw [h]
  · rw [hi.slot0]; rfl
  · rw [hi.slot1]; rfl
  · rw [hi.slot2]; rfl
  · rw [hi.slot3]; rfl

/-- **Refinement step**: the abstraction commutes with every operation. -/
theorem step_refines (c : Ctl) (hi : MapInv c) (op : Spec.MemOp) :
    abs (stepC c op) = (abs c).step op := by
  cases op with
  | write a v =>
    have hp := phys_eq c hi a
    simp only [stepC, Ctl.writeInternal, Mem.write, Spec.Mem128.step, Spec.Mem128.write]
    rw [← hp]
    rcases hpa : c.mem.pagedAddress a with ⟨pg, off⟩
    cases pg <;> simp [abs]
  | out7ffd v =>
    simp only [stepC, Spec.Mem128.step, Spec.Mem128.out7ffd]
    cases he : c.pagingEnabled
    · have : c.write7ffd v = c := by simp [Ctl.write7ffd, he]
      rw [this]; simp [abs, he]
    · rw [write7ffd_eq c hi v he]
      simp only [abs, he, Bool.not_true, Bool.false_eq_true, if_false]
      congr 1
      by_cases hl : v &&& 0x20 = 0 <;> simp [hl]

/-- **Refinement for every history** of paging writes and memory writes, from power-on. -/
theorem run_refines (ops : List Spec.MemOp) :
    abs (runC (Ctl.new .k128) ops) = ops.foldl Spec.Mem128.step (abs (Ctl.new .k128)) := by
  have : ∀ (ops : List Spec.MemOp) (c : Ctl), MapInv c →
      abs (runC c ops) = ops.foldl Spec.Mem128.step (abs c) := by
    intro ops
    induction ops with
    | nil => intro c _; rfl
    | cons op ops ih =>
      intro c hi
      simp only [runC, List.foldl_cons] at ih ⊢
      rw [ih _ (step_inv c hi op), step_refines c hi op]
  exact this ops _ init_inv

/-- every read after every history is the spec's read -/
theorem read_after_history (ops : List Spec.MemOp) (a : BitVec 16) :
    (runC (Ctl.new .k128) ops).readInternal a =
      (ops.foldl Spec.Mem128.step (abs (Ctl.new .k128))).read a := by
  rw [← run_refines]
  exact window_map _ (run_inv _ init_inv ops) a

/-- The `panic!` inside `remap` is unreachable: no history makes the model panic. -/
theorem remap_in_bounds (ops : List Spec.MemOp) : (runC (Ctl.new .k128) ops).panicked = false :=
  (run_inv _ init_inv ops).noPanic

/-- **Lock is forever**: once a value with bit 5 set has been accepted, no later history of
paging writes and memory writes changes the latch, the map, the lock or the displayed screen. -/
theorem lock_is_forever (c : Ctl) (hl : c.pagingEnabled = false) (ops : List Spec.MemOp) :
    (runC c ops).port7ffd = c.port7ffd ∧ (runC c ops).mem.map = c.mem.map ∧
    (runC c ops).pagingEnabled = false ∧ (runC c ops).screenBank = c.screenBank := by
  induction ops generalizing c with
  | nil => exact ⟨rfl, rfl, hl, rfl⟩
  | cons op ops ih =>
    have h1 : (stepC c op).port7ffd = c.port7ffd ∧ (stepC c op).mem.map = c.mem.map ∧
        (stepC c op).pagingEnabled = false ∧ (stepC c op).screenBank = c.screenBank := by
      cases op with
      | out7ffd v => simp [stepC, Ctl.write7ffd, hl]
      | write a v =>
        simp only [stepC, Ctl.writeInternal, Mem.write]
        split <;> simp [hl]
    obtain ⟨a1, a2, a3, a4⟩ := h1
    obtain ⟨b1, b2, b3, b4⟩ := ih (stepC c op) a3
    simp only [runC, List.foldl_cons] at b1 b2 b3 b4 ⊢
    exact ⟨b1.trans a1, b2.trans a2, b3, b4.trans a4⟩

/-- a paging value with bit 5 set, accepted, locks -/
theorem bit5_locks (c : Ctl) (hi : MapInv c) (he : c.pagingEnabled = true) (v : BitVec 8)
    (h5 : v &&& 0x20 ≠ 0) : (c.write7ffd v).pagingEnabled = false := by
  rw [write7ffd_eq c hi v he]
  have : (v &&& 0x20 ≠ 0) := h5
  simp only [this, ne_eq, not_false_eq_true, if_true]

/-- **ROM is read-only**: a write below 0x4000 changes nothing at all. -/
theorem rom_readonly (c : Ctl) (hi : MapInv c) (a : BitVec 16) (ha : a.toNat < 0x4000) (v : BitVec 8) :
    (c.writeInternal a v).mem = c.mem := by
  have h0 : a.toNat / 16384 = 0 := by omega
  simp only [Ctl.writeInternal, Mem.write, Mem.pagedAddress, pageSize,
    show (16 * 1024 : Nat) = 16384 from rfl, h0, hi.slot0]

/-- **Read your write through every alias and through nothing else** (spec level; carried to
the code model by `read_after_history`): after writing `v` at `a`, an address `a'` reads `v`
iff it maps to the same physical RAM byte, and otherwise reads what it read before. -/
theorem alias_read_your_write (s : Spec.Mem128) (a a' : BitVec 16) (v : BitVec 8) :
    (s.write a v).read a' =
      (match s.phys a with
       | .rom _ _ => s.read a'
       | .ram b off => if s.phys a' = .ram b off then v else s.read a') := by
  unfold Spec.Mem128.write Spec.Mem128.read
  cases hp : s.phys a with
  | rom n off => simp
  | ram b off =>
    have hphys : ∀ x, ({ s with banks := fun b' o' => if b' = b ∧ o' = off then v else s.banks b' o' } : Spec.Mem128).phys x = s.phys x := by
      intro x; rfl
    simp only [hphys]
    cases hp' : s.phys a' with
    | rom n' off' => simp
    | ram b' off' =>
      by_cases hb : b' = b ∧ off' = off
      · simp [hb]
      · have : ¬ (Spec.Phys.ram b' off' = Spec.Phys.ram b off) := by
          intro h; injection h with h1 h2; exact hb ⟨h1, h2⟩
        simp [hb, this]

/-- 48K: paging writes are ignored, whatever the value and the history. -/
theorem k48_ignores_paging (c : Ctl) (h : c.pagingEnabled = false) (v : BitVec 8) : c.write7ffd v = c := by
  simp [Ctl.write7ffd, h]

theorem k48_starts_locked : (Ctl.new .k48).pagingEnabled = false := rfl

/-- 48K window map: ROM, then the three fixed RAM areas; holds after any history. -/
theorem k48_window (ops : List Spec.MemOp) (a : BitVec 16) :
    (match (runC (Ctl.new .k48) ops).mem.pagedAddress a with
      | (.rom n, off) => Spec.Phys.rom n off
      | (.ram b, off) => Spec.Phys.ram b off) = Spec.window48 a := by
  have hmap : (runC (Ctl.new .k48) ops).mem.map = (Ctl.new .k48).mem.map :=
    (lock_is_forever (Ctl.new .k48) rfl ops).2.1
  have hq : a.toNat / 16384 < 4 := by have := a.isLt; omega
  unfold Mem.pagedAddress Spec.window48 pageSize
  rw [hmap]
  simp only [show (16 * 1024 : Nat) = 16384 from rfl, Ctl.new, Mem.new]
  have : a.toNat / 16384 = 0 ∨ a.toNat / 16384 = 1 ∨ a.toNat / 16384 = 2 ∨ a.toNat / 16384 = 3 := by omega
  rcases this with h | h | h | h <;> rw [h] <;> rfl

/-! Non-vacuity -/

example : (runC (Ctl.new .k128) [.out7ffd 0x17, .write 0xC005 0xAB, .out7ffd 0x00]).readInternal 0xC005 = 0
    ∧ (runC (Ctl.new .k128) [.out7ffd 0x17, .write 0xC005 0xAB, .out7ffd 0x07]).readInternal 0xC005 = 0xAB
    ∧ (runC (Ctl.new .k128) [.out7ffd 0x25, .out7ffd 0x03]).port7ffd = 0x25
    ∧ (runC (Ctl.new .k128) [.out7ffd 0x05, .write 0xC123 0x77]).readInternal 0x4123 = 0x77 := by
  decide

end ZxVerif.C06
