/-
C06 (whole programs) — the window map of the property holds after *every program*.

`Props/C06.lean` proves the refinement for abstract histories of paging writes and memory writes;
`Props/C04Sys.lean` shows that the representation invariant (`Good`: the four-slot map is what the
latch says) is kept by everything the CPU can do on the Spectrum bus. Together: whatever program
has run on a 128K machine since reset — any instructions, port writes to any port, interrupts — a
CPU read at any address returns the byte the property's window function designates for the value
last accepted by the paging latch; and the 48K machine always shows its fixed map.
-/
import ZxVerif.Props.C04Sys
namespace ZxVerif.C06Prog
open ZxVerif.Z80 ZxVerif.Machine ZxVerif.Spectrum

/-- the representation invariant after any program from reset -/
theorem good_after_program (k : Kind) (ke mo : Bool) (n : Nat) (s : Cpu) :
    C04Sys.Good (Z80.run .hw n (s, ZX.new k ke mo)).2.ctl :=
  (C04Sys.program_time_is_spec_time n s (ZX.new k ke mo)
    (by have := C04Sys.good_new k; cases k <;> exact this) rfl).2

theorem kind_after_program (k : Kind) (ke mo : Bool) (n : Nat) (s : Cpu) :
    (Z80.run .hw n (s, ZX.new k ke mo)).2.ctl.kind = k := by
  obtain ⟨d, _, h⟩ := C04Sys.timed_closed.run .hw n (s, ZX.new k ke mo)
  have hg : C04Sys.Good (ZX.new k ke mo).ctl := by have := C04Sys.good_new k; cases k <;> exact this
  have := (h hg).2.1
  rw [this]; cases k <;> rfl

/-- 128K: the map invariant of C06 holds after any program -/
theorem mapInv_after_program (ke mo : Bool) (n : Nat) (s : Cpu) :
    C06.MapInv (Z80.run .hw n (s, ZX.new .k128 ke mo)).2.ctl := by
  have hg := good_after_program .k128 ke mo n s
  have hk := kind_after_program .k128 ke mo n s
  rcases hg.map with ⟨h48, _, _⟩ | hi
  · rw [hk] at h48; cases h48
  · exact hi

/-- **Window map after every program (128K)**: a CPU read returns the byte of the ROM selected by
bit 4 of the last accepted latch value / bank 5 / bank 2 / the bank selected by bits 0–2. -/
theorem window_map_after_program (ke mo : Bool) (n : Nat) (s : Cpu) (a : BitVec 16) :
    (Z80.run .hw n (s, ZX.new .k128 ke mo)).2.ctl.readInternal a =
      (C06.abs (Z80.run .hw n (s, ZX.new .k128 ke mo)).2.ctl).read a :=
  C06.window_map _ (mapInv_after_program ke mo n s) a

/-- … and where a CPU write lands -/
theorem phys_after_program (ke mo : Bool) (n : Nat) (s : Cpu) (a : BitVec 16) :
    (match (Z80.run .hw n (s, ZX.new .k128 ke mo)).2.ctl.mem.pagedAddress a with
      | (.rom r, off) => Spec.Phys.rom r off
      | (.ram b, off) => Spec.Phys.ram b off) =
      Spec.window128 (Z80.run .hw n (s, ZX.new .k128 ke mo)).2.ctl.port7ffd a :=
  C06.phys_eq _ (mapInv_after_program ke mo n s) a

/-- the displayed screen bank follows bit 3 of the latch after every program -/
theorem screen_bank_after_program (ke mo : Bool) (n : Nat) (s : Cpu) :
    (Z80.run .hw n (s, ZX.new .k128 ke mo)).2.ctl.screenBank =
      (if (Z80.run .hw n (s, ZX.new .k128 ke mo)).2.ctl.port7ffd &&& 0x08 = 0 then 5 else 7) :=
  (mapInv_after_program ke mo n s).screen

/-- the code's `remap` never hits its out-of-range panic, whatever program runs -/
theorem never_panics (ke mo : Bool) (n : Nat) (s : Cpu) :
    (Z80.run .hw n (s, ZX.new .k128 ke mo)).2.ctl.panicked = false :=
  (mapInv_after_program ke mo n s).noPanic

end ZxVerif.C06Prog
