/-
C06 (system level) — whole-program corollaries for the composed machine
(`Z80.emulate` on the Spectrum bus, Model/Spectrum.lean), by the closure theorem
`Z80.BusClosed.run` (Lemmas/Z80Closed.lean): for *every program*, every CPU state, every number
of executed instructions, with interrupts, I/O and paging writes included.
-/
import ZxVerif.Model.Spectrum
import ZxVerif.Lemmas.Z80Closed
import ZxVerif.Props.C06
namespace ZxVerif.C06Sys
open ZxVerif.Z80 ZxVerif.Machine ZxVerif.Spectrum

/-- nothing the CPU can do changes ROM contents -/
def RomSame (z z' : ZX) : Prop := z'.ctl.mem.rom = z.ctl.mem.rom

theorem remap_rom {m m' : Mem} {blk : Nat} {pg : Page} (h : m.remap blk pg = some m') : m'.rom = m.rom := by
  unfold Mem.remap at h
  cases pg <;> simp only at h <;> split at h <;> cases h <;> rfl

theorem write7ffd_rom (c : Ctl) (v : BitVec 8) : (c.write7ffd v).mem.rom = c.mem.rom := by
  unfold Ctl.write7ffd
  split
  · rfl
  · cases h1 : c.mem.remap 3 (.ram (v &&& 0x07).toNat) with
    | none => rfl
    | some m1 =>
      simp only
      cases h2 : m1.remap 0 (.rom ((v >>> 4) &&& 0x01).toNat) with
      | none => rfl
      | some m2 => simp only; rw [remap_rom h2, remap_rom h1]

theorem waitInternal_mem (c : Ctl) (k : Nat) : (c.waitInternal k).mem = c.mem := by
  unfold Ctl.waitInternal; split <;> rfl

theorem waitMreq_mem (c : Ctl) (a : BitVec 16) (k : Nat) : (c.waitMreq a k).mem = c.mem := by
  unfold Ctl.waitMreq Ctl.doContention
  split <;> simp [waitInternal_mem]

theorem ioFirst_mem (c : Ctl) (p : BitVec 16) : (c.ioContentionFirst p).mem = c.mem := by
  unfold Ctl.ioContentionFirst Ctl.doContention
  split <;> simp [waitInternal_mem]

theorem ioLast_mem (c : Ctl) (p : BitVec 16) : (c.ioContentionLast p).mem = c.mem := by
  unfold Ctl.ioContentionLast Ctl.doContentionAndWait Ctl.doContention
  split
  · simp [waitInternal_mem]
  · split <;> simp [waitInternal_mem]

theorem writeInternal_rom (c : Ctl) (a : BitVec 16) (v : BitVec 8) :
    (c.writeInternal a v).mem.rom = c.mem.rom := by
  unfold Ctl.writeInternal Mem.write
  split <;> rfl

theorem romSame_closed : BusClosed RomSame where
  refl _ := rfl
  trans h1 h2 := by unfold RomSame at *; rw [h2, h1]
  waitMreq a k z := by show (z.ctl.waitMreq a k).mem.rom = _; rw [waitMreq_mem]
  waitNoMreq a k z := by show (z.ctl.waitMreq a k).mem.rom = _; rw [waitMreq_mem]
  waitInternal k z := by show (z.ctl.waitInternal k).mem.rom = _; rw [waitInternal_mem]
  readInternal _ _ := rfl
  writeInternal a v z := writeInternal_rom z.ctl a v
  readIo p z := by
    show (((z.ctl.ioContentionFirst p).ioContentionLast p).waitInternal 1).mem.rom = _
    rw [waitInternal_mem, ioLast_mem, ioFirst_mem]
  writeIo p v z := by
    unfold RomSame
    show (ZX.writeIo p v z).ctl.mem.rom = _
    unfold ZX.writeIo
    simp only [waitInternal_mem, ioLast_mem]
    split <;> simp only [ioFirst_mem, write7ffd_rom]
  readInterrupt _ := rfl
  reti _ := rfl
  halt _ _ := rfl
  pcCallback _ _ := rfl

/-- **ROM is read-only for every program**: whatever code runs, for however long, with whatever
interrupts, port writes and paging, the ROM images are unchanged. -/
theorem rom_never_changes (n : Nat) (s : Cpu) (z : ZX) :
    (Z80.run .hw n (s, z)).2.ctl.mem.rom = z.ctl.mem.rom :=
  romSame_closed.run .hw n (s, z)

/-- the paging state of a machine whose lock is set (or of a 48K machine) -/
def LockKept (z z' : ZX) : Prop :=
  z.ctl.pagingEnabled = false →
    z'.ctl.pagingEnabled = false ∧ z'.ctl.port7ffd = z.ctl.port7ffd ∧
    z'.ctl.mem.map = z.ctl.mem.map ∧ z'.ctl.screenBank = z.ctl.screenBank

theorem waitInternal_paging (c : Ctl) (k : Nat) :
    (c.waitInternal k).pagingEnabled = c.pagingEnabled ∧ (c.waitInternal k).port7ffd = c.port7ffd ∧
    (c.waitInternal k).screenBank = c.screenBank := by
  unfold Ctl.waitInternal; split <;> exact ⟨rfl, rfl, rfl⟩

theorem waitMreq_paging (c : Ctl) (a : BitVec 16) (k : Nat) :
    (c.waitMreq a k).pagingEnabled = c.pagingEnabled ∧ (c.waitMreq a k).port7ffd = c.port7ffd ∧
    (c.waitMreq a k).screenBank = c.screenBank := by
  unfold Ctl.waitMreq Ctl.doContention
  split
  · have h1 := waitInternal_paging (c.waitInternal (contentionClocks c.kind c.frameClocks)) k
    have h2 := waitInternal_paging c (contentionClocks c.kind c.frameClocks)
    exact ⟨h1.1.trans h2.1, h1.2.1.trans h2.2.1, h1.2.2.trans h2.2.2⟩
  · exact waitInternal_paging c k

theorem ioFirst_paging (c : Ctl) (p : BitVec 16) :
    (c.ioContentionFirst p).pagingEnabled = c.pagingEnabled ∧ (c.ioContentionFirst p).port7ffd = c.port7ffd ∧
    (c.ioContentionFirst p).screenBank = c.screenBank := by
  unfold Ctl.ioContentionFirst Ctl.doContention
  split
  · have h1 := waitInternal_paging (c.waitInternal (contentionClocks c.kind c.frameClocks)) 1
    have h2 := waitInternal_paging c (contentionClocks c.kind c.frameClocks)
    exact ⟨h1.1.trans h2.1, h1.2.1.trans h2.2.1, h1.2.2.trans h2.2.2⟩
  · exact waitInternal_paging c 1

theorem ioLast_paging (c : Ctl) (p : BitVec 16) :
    (c.ioContentionLast p).pagingEnabled = c.pagingEnabled ∧ (c.ioContentionLast p).port7ffd = c.port7ffd ∧
    (c.ioContentionLast p).screenBank = c.screenBank := by
  unfold Ctl.ioContentionLast Ctl.doContentionAndWait Ctl.doContention
  split
  · exact waitInternal_paging c _
  · split
    · have h1 := waitInternal_paging c (contentionClocks c.kind c.frameClocks + 1)
      have h2 := waitInternal_paging (c.waitInternal (contentionClocks c.kind c.frameClocks + 1))
        (contentionClocks (c.waitInternal (contentionClocks c.kind c.frameClocks + 1)).kind
          (c.waitInternal (contentionClocks c.kind c.frameClocks + 1)).frameClocks + 1)
      have h3 := waitInternal_paging
        ((c.waitInternal (contentionClocks c.kind c.frameClocks + 1)).waitInternal
          (contentionClocks (c.waitInternal (contentionClocks c.kind c.frameClocks + 1)).kind
            (c.waitInternal (contentionClocks c.kind c.frameClocks + 1)).frameClocks + 1))
      exact ⟨(h3 _).1.trans (h2.1.trans h1.1), (h3 _).2.1.trans (h2.2.1.trans h1.2.1),
        (h3 _).2.2.trans (h2.2.2.trans h1.2.2)⟩
    · exact waitInternal_paging c 2

theorem lockKept_of_fields {z z' : ZX}
    (h1 : z'.ctl.pagingEnabled = z.ctl.pagingEnabled) (h2 : z'.ctl.port7ffd = z.ctl.port7ffd)
    (h3 : z'.ctl.mem.map = z.ctl.mem.map) (h4 : z'.ctl.screenBank = z.ctl.screenBank) : LockKept z z' :=
  fun hl => ⟨h1.trans hl, h2, h3, h4⟩

theorem writeInternal_map (c : Ctl) (a : BitVec 16) (v : BitVec 8) :
    (c.writeInternal a v).mem.map = c.mem.map := by
  unfold Ctl.writeInternal Mem.write
  split <;> rfl

theorem lockKept_closed : BusClosed LockKept where
  refl _ := fun hl => ⟨hl, rfl, rfl, rfl⟩
  trans h1 h2 := fun hl => by
    obtain ⟨a1, a2, a3, a4⟩ := h1 hl
    obtain ⟨b1, b2, b3, b4⟩ := h2 a1
    exact ⟨b1, b2.trans a2, b3.trans a3, b4.trans a4⟩
  waitMreq a k z := by
    have h := waitMreq_paging z.ctl a k
    exact lockKept_of_fields h.1 h.2.1 (by show (z.ctl.waitMreq a k).mem.map = _; rw [waitMreq_mem]) h.2.2
  waitNoMreq a k z := by
    have h := waitMreq_paging z.ctl a k
    exact lockKept_of_fields h.1 h.2.1 (by show (z.ctl.waitMreq a k).mem.map = _; rw [waitMreq_mem]) h.2.2
  waitInternal k z := by
    have h := waitInternal_paging z.ctl k
    exact lockKept_of_fields h.1 h.2.1 (by show (z.ctl.waitInternal k).mem.map = _; rw [waitInternal_mem]) h.2.2
  readInternal _ _ := lockKept_of_fields rfl rfl rfl rfl
  writeInternal a v z := lockKept_of_fields rfl rfl (writeInternal_map z.ctl a v) rfl
  readIo p z := by
    have h1 := ioFirst_paging z.ctl p
    have h2 := ioLast_paging (z.ctl.ioContentionFirst p) p
    have h3 := waitInternal_paging ((z.ctl.ioContentionFirst p).ioContentionLast p) 1
    refine lockKept_of_fields (h3.1.trans (h2.1.trans h1.1)) (h3.2.1.trans (h2.2.1.trans h1.2.1)) ?_
      (h3.2.2.trans (h2.2.2.trans h1.2.2))
    show (((z.ctl.ioContentionFirst p).ioContentionLast p).waitInternal 1).mem.map = _
    rw [waitInternal_mem, ioLast_mem, ioFirst_mem]
  writeIo p v z := by
    intro hl
    have h1 := ioFirst_paging z.ctl p
    have hfirst : (z.ctl.ioContentionFirst p).pagingEnabled = false := h1.1.trans hl
    -- whichever device the write reaches, the controller after the device step has the same paging state
    have hdev : ∀ c1 : Ctl, c1.pagingEnabled = false → c1.write7ffd v = c1 := fun c1 hc =>
      C06.k48_ignores_paging c1 hc v
    show (ZX.writeIo p v z).ctl.pagingEnabled = false ∧ (ZX.writeIo p v z).ctl.port7ffd = z.ctl.port7ffd ∧
      (ZX.writeIo p v z).ctl.mem.map = z.ctl.mem.map ∧ (ZX.writeIo p v z).ctl.screenBank = z.ctl.screenBank
    unfold ZX.writeIo
    have key : ∀ c1 : Ctl, c1.pagingEnabled = false → c1.port7ffd = z.ctl.port7ffd → c1.mem.map = z.ctl.mem.map →
        c1.screenBank = z.ctl.screenBank →
        ((c1.ioContentionLast p).waitInternal 1).pagingEnabled = false ∧
        ((c1.ioContentionLast p).waitInternal 1).port7ffd = z.ctl.port7ffd ∧
        ((c1.ioContentionLast p).waitInternal 1).mem.map = z.ctl.mem.map ∧
        ((c1.ioContentionLast p).waitInternal 1).screenBank = z.ctl.screenBank := by
      intro c1 e1 e2 e3 e4
      have a := ioLast_paging c1 p
      have b := waitInternal_paging (c1.ioContentionLast p) 1
      refine ⟨b.1.trans (a.1.trans e1), b.2.1.trans (a.2.1.trans e2), ?_, b.2.2.trans (a.2.2.trans e4)⟩
      rw [waitInternal_mem, ioLast_mem]; exact e3
    have hmap : (z.ctl.ioContentionFirst p).mem.map = z.ctl.mem.map := by rw [ioFirst_mem]
    split <;> simp only
    all_goals first
      | exact key _ hfirst h1.2.1 hmap h1.2.2
      | (rw [hdev _ hfirst]; exact key _ hfirst h1.2.1 hmap h1.2.2)
  readInterrupt _ := lockKept_of_fields rfl rfl rfl rfl
  reti _ := lockKept_of_fields rfl rfl rfl rfl
  halt _ _ := lockKept_of_fields rfl rfl rfl rfl
  pcCallback _ _ := lockKept_of_fields rfl rfl rfl rfl

/-- **Lock is forever, for every program**: once the paging lock is set (bit 5 of an accepted
paging write) — and always on a 48K machine — no program, however long it runs and whatever it
writes to whatever port, changes the latch, the memory map, the displayed screen bank or the lock. -/
theorem locked_stays_locked (n : Nat) (s : Cpu) (z : ZX) (hl : z.ctl.pagingEnabled = false) :
    (Z80.run .hw n (s, z)).2.ctl.pagingEnabled = false ∧
    (Z80.run .hw n (s, z)).2.ctl.port7ffd = z.ctl.port7ffd ∧
    (Z80.run .hw n (s, z)).2.ctl.mem.map = z.ctl.mem.map ∧
    (Z80.run .hw n (s, z)).2.ctl.screenBank = z.ctl.screenBank :=
  lockKept_closed.run .hw n (s, z) hl

/-- a 48K machine keeps its fixed memory map under every program -/
theorem k48_map_fixed (n : Nat) (s : Cpu) (ke mo : Bool) :
    (Z80.run .hw n (s, ZX.new .k48 ke mo)).2.ctl.mem.map = (Ctl.new .k48).mem.map :=
  (locked_stays_locked n s (ZX.new .k48 ke mo) rfl).2.2.1

end ZxVerif.C06Sys
