/-
C06 — theorems over the paging code *translated from the Rust source on every run*
(tools/extract.py, table Paging → ZxVerif/Extracted/Paging.lean): `write_7ffd`, `restore_7ffd`,
`read_7ffd` and the paging fields of `ZXController::new` (controller.rs), the constants, `enum Page`,
the two reset maps of `ZXMemory::new`, the slot / offset arithmetic of `paged_address` and `get_page`,
the arrays `read` and `write` go to and the panic guards of `remap` (memory.rs), statement by statement.

What the source text says now is what Model/Machine.lean runs: the translated `write_7ffd` equals
`Ctl.write7ffd` for every state and every written byte, hence (Props/C06.lean) the property's
`Spec.Mem128.out7ffd`; the reset maps are the model's and the property's; a store aimed at a ROM page
is dropped.
-/
import ZxVerif.Extracted.Paging
import ZxVerif.Props.C06
namespace ZxVerif.C06X
open ZxVerif.Machine
open ZxVerif.Extracted

/-- a page of the source (`Page::Ram(u8)` / `Page::Rom(u8)`) as the model's page -/
def absPage : Paging.Page → Page
  | .Ram n => .ram n.toNat
  | .Rom n => .rom n.toNat

/-- The translated controller state `x` and the model state `c` describe the same paging state: lock
flag, latch mirror, screen bank, the four slots of the map; the array lengths are whole pages, as
many as the model counts. -/
structure Rel (x : Paging.St) (c : Ctl) : Prop where
  enabled : x.paging_enabled = c.pagingEnabled
  latch : x.current_port_7ffd = c.port7ffd
  screen : x.screen_bank.toNat = c.screenBank
  slots : x.memory.map.map absPage = [c.mem.map 0, c.mem.map 1, c.mem.map 2, c.mem.map 3]
  ram : x.memory.ramLen = c.mem.ramPages * 16384
  rom : x.memory.romLen = c.mem.romPages * 16384

/-- a list whose image is a four-element list has four elements -/
theorem four {α β : Type} (f : α → β) (l : List α) (a b c d : β) (h : l.map f = [a, b, c, d]) :
    ∃ p0 p1 p2 p3, l = [p0, p1, p2, p3] ∧ f p0 = a ∧ f p1 = b ∧ f p2 = c ∧ f p3 = d := by
  rcases l with _ | ⟨p0, _ | ⟨p1, _ | ⟨p2, _ | ⟨p3, _ | ⟨p4, t⟩⟩⟩⟩⟩ <;> simp at h
  exact ⟨p0, p1, p2, p3, rfl, h⟩

/-! ### Constants, reset maps -/

/-- `PAGE_SIZE` and the four sizes of memory.rs are 16K, 16K, 32K, 48K, 128K; four slots; the model's
`pageSize` is the source's -/
theorem sizes_extracted :
    Paging.PAGE_SIZE = 16384 ∧ Paging.PAGE_SIZE = pageSize ∧ Paging.SIZE_16K = 16384 ∧
    Paging.SIZE_32K = 2 * 16384 ∧ Paging.SIZE_48K = 3 * 16384 ∧ Paging.SIZE_128K = 8 * 16384 ∧
    Paging.MEM_BLOCKS = 4 := by decide

/-- **Reset map of the 48K** as `ZXMemory::new` / `ZXController::new` build it: ROM 0, RAM 0, RAM 1,
RAM 2 in the four 16K slots — the model's `Mem.new .k48` slot by slot and the property's `window48`
at the first address of every slot; 3 pages of RAM, 1 of ROM; paging off, latch 0 -/
theorem reset_map_48 :
    Paging.new_Sinclair48K.memory.map.map absPage = [.rom 0, .ram 0, .ram 1, .ram 2] ∧
    Paging.new_Sinclair48K.memory.map.map absPage =
      [(Mem.new .k48).map 0, (Mem.new .k48).map 1, (Mem.new .k48).map 2, (Mem.new .k48).map 3] ∧
    Paging.new_Sinclair48K.memory.map.map absPage =
      [0x0000, 0x4000, 0x8000, 0xC000].map (fun (a : BitVec 16) =>
        match Spec.window48 a with | .rom n _ => Page.rom n | .ram b _ => Page.ram b) ∧
    Paging.new_Sinclair48K.memory.ramLen = (Mem.new .k48).ramPages * 16384 ∧
    Paging.new_Sinclair48K.memory.romLen = (Mem.new .k48).romPages * 16384 ∧
    Paging.new_Sinclair48K.paging_enabled = false ∧ Paging.new_Sinclair48K.current_port_7ffd = 0 := by
  decide

/-- **Reset map of the 128K**: ROM 0, RAM 5, RAM 2, RAM 0 — the model's `Mem.new .k128` and the
property's `window128` for latch 0; 8 pages of RAM, 2 of ROM; paging on, latch 0, screen bank 5 -/
theorem reset_map_128 :
    Paging.new_Sinclair128K.memory.map.map absPage = [.rom 0, .ram 5, .ram 2, .ram 0] ∧
    Paging.new_Sinclair128K.memory.map.map absPage =
      [(Mem.new .k128).map 0, (Mem.new .k128).map 1, (Mem.new .k128).map 2, (Mem.new .k128).map 3] ∧
    Paging.new_Sinclair128K.memory.map.map absPage =
      [0x0000, 0x4000, 0x8000, 0xC000].map (fun (a : BitVec 16) =>
        match Spec.window128 0 a with | .rom n _ => Page.rom n | .ram b _ => Page.ram b) ∧
    Paging.new_Sinclair128K.memory.ramLen = (Mem.new .k128).ramPages * 16384 ∧
    Paging.new_Sinclair128K.memory.romLen = (Mem.new .k128).romPages * 16384 ∧
    Paging.new_Sinclair128K.paging_enabled = true ∧ Paging.new_Sinclair128K.current_port_7ffd = 0 ∧
    Paging.new_Sinclair128K.screen_bank = 5 := by
  decide

/-- the state `ZXController::new` builds stands for the model's `Ctl.new`, on both machines -/
theorem new_is_model :
    Rel Paging.new_Sinclair48K (Ctl.new .k48) ∧ Rel Paging.new_Sinclair128K (Ctl.new .k128) := by
  constructor <;> constructor <;> decide

/-! ### `write_7ffd` -/

/-- the bank mask and the ROM bit of the source stay inside the 128K's 8 RAM / 2 ROM pages -/
theorem pages_in_range (v : BitVec 8) : (v &&& 7).toNat < 8 ∧ ((v >>> 4) &&& 1).toNat < 2 := by
  refine ⟨C06.bank_lt v, ?_⟩
  have := C06.rom_bit v
  rw [this]; split <;> omega

/-- **`write_7ffd` while the lock is set** (always, on the 48K): the translated function returns
the state unchanged, like the model's, whatever the byte -/
theorem write7ffd_locked_is_model (x : Paging.St) (c : Ctl) (h : Rel x c) (hl : c.pagingEnabled = false)
    (v : BitVec 8) : Paging.write7ffd x v = some x ∧ c.write7ffd v = c := by
  have hx : x.paging_enabled = false := h.enabled.trans hl
  constructor
  · simp [Paging.write7ffd, hx]
  · simp [Ctl.write7ffd, hl]

/-- the translated `write_7ffd` in closed form, for an unlocked state of a machine with 128K of RAM and
32K of ROM: no panic; latch mirror := the byte; slot 3 := RAM page `val & 7`; slot 0 := ROM page
`(val >> 4) & 1`; slots 1, 2 kept; screen bank := 5 / 7 by bit 0x08 (field and screen device); lock
flag := bit 0x20 clear -/
theorem write7ffd_closed (mach : Paging.Machine) (p0 p1 p2 p3 : Paging.Page) (sb la : BitVec 8)
    (sh : Option Nat) (v : BitVec 8) :
    Paging.write7ffd ⟨mach, ⟨[p0, p1, p2, p3], 8 * 16384, 2 * 16384⟩, true, sb, la, sh⟩ v =
      some ⟨mach, ⟨[.Rom ((v >>> 4) &&& 1), p1, p2, .Ram (v &&& 7)], 8 * 16384, 2 * 16384⟩,
        decide (v &&& 32 = 0), BitVec.ofNat 8 (if v &&& 8 = 0 then 5 else 7), v,
        some (if v &&& 8 = 0 then 5 else 7)⟩ := by
  obtain ⟨hb, hr⟩ := pages_in_range v
  have g1 : ¬ (((v &&& 7).toNat + 1) * Paging.PAGE_SIZE > 8 * 16384) := by
    simp only [Paging.PAGE_SIZE]; omega
  have g2 : ¬ ((((v >>> 4) &&& 1).toNat + 1) * Paging.PAGE_SIZE > 2 * 16384) := by
    simp only [Paging.PAGE_SIZE]; omega
  unfold Paging.write7ffd Paging.Mem.remap
  simp only [Paging.remapPanics, g1, g2, decide_false, Bool.not_true, Bool.false_eq_true, if_false, List.set]
  by_cases h20 : v &&& 32#8 = 0#8 <;> simp [h20]

/-- the model's `write7ffd` in closed form under the size facts alone (`C06.write7ffd_eq` without the
map invariant) -/
theorem model_write7ffd_closed (c : Ctl) (he : c.pagingEnabled = true) (hram : c.mem.ramPages = 8)
    (hrom : c.mem.romPages = 2) (v : BitVec 8) :
    c.write7ffd v =
      { c with
        port7ffd := v
        mem := { c.mem with map := fun b => if b = 0 then .rom ((v >>> 4) &&& 0x01).toNat
                                             else if b = 3 then .ram (v &&& 0x07).toNat else c.mem.map b }
        screenBank := if v &&& 0x08 = 0 then 5 else 7
        pagingEnabled := if v &&& 0x20 ≠ 0 then false else c.pagingEnabled } := by
  obtain ⟨hb, hr⟩ := pages_in_range v
  unfold Ctl.write7ffd Mem.remap
  simp only [he, Bool.not_true, Bool.false_eq_true, if_false, hram, hrom]
  have h1 : ¬ ((v &&& 0x07).toNat + 1 > 8) := by omega
  have h2 : ¬ (((v >>> 4) &&& 0x01).toNat + 1 > 2) := by omega
  simp only [h1, h2, if_false]

/-- **The translated `write_7ffd` is the model's `Ctl.write7ffd`**, for every state of a machine with
8 RAM and 2 ROM pages and every written byte: it does not panic, and the state it returns stands for
the model's result — same lock flag (test `!paging_enabled` first, bit 0x20 clears it last), same
latch mirror (the byte written), same screen bank (bit 0x08: 5 or 7, also handed to the screen device),
slot 3 = RAM page `val & 0x07`, slot 0 = ROM page `(val >> 4) & 1`, slots 1 and 2 untouched. -/
theorem write7ffd_is_model (x : Paging.St) (c : Ctl) (h : Rel x c)
    (hram : c.mem.ramPages = 8) (hrom : c.mem.romPages = 2) (hp : c.panicked = false) (v : BitVec 8) :
    ∃ x', Paging.write7ffd x v = some x' ∧ Rel x' (c.write7ffd v) ∧
      (c.write7ffd v).mem.ramPages = 8 ∧ (c.write7ffd v).mem.romPages = 2 ∧ (c.write7ffd v).panicked = false ∧
      x'.screen_shown = (if c.pagingEnabled then some (c.write7ffd v).screenBank else x.screen_shown) := by
  cases he : c.pagingEnabled
  · obtain ⟨h1, h2⟩ := write7ffd_locked_is_model x c h he v
    exact ⟨x, h1, by rw [h2]; exact h, by rw [h2]; exact hram, by rw [h2]; exact hrom, by rw [h2]; exact hp, by simp⟩
  · have hx : x.paging_enabled = true := h.enabled.trans he
    obtain ⟨mach, ⟨map, rl, ol⟩, en, sb, la, sh⟩ := x
    have hrl : rl = 8 * 16384 := by have := h.ram; simp only [hram] at this; exact this
    have hol : ol = 2 * 16384 := by have := h.rom; simp only [hrom] at this; exact this
    have hslots := h.slots
    simp only at hslots hx
    obtain ⟨p0, p1, p2, p3, rfl, _, s1, s2, _⟩ := four _ _ _ _ _ _ hslots
    subst hx hrl hol
    refine ⟨_, write7ffd_closed mach p0 p1 p2 p3 sb la sh v, ?_⟩
    rw [model_write7ffd_closed c he hram hrom v]
    refine ⟨⟨?_, rfl, ?_, ?_, ?_, ?_⟩, hram, hrom, hp, ?_⟩
    · by_cases h20 : v &&& 32#8 = 0#8 <;> simp [h20, he]
    · by_cases h8 : v &&& 8#8 = 0#8 <;> simp [h8]
    · simp only [List.map_cons, List.map_nil, s1, s2]
      simp [absPage]
    · simp [hram]
    · simp [hrom]
    · simp

/-- `restore_7ffd` as translated: on the 128K the lock is lifted first and the byte then goes through
`write_7ffd`; on the 48K it is `write_7ffd` alone (which ignores it) -/
theorem restore7ffd_extracted (x : Paging.St) (v : BitVec 8) :
    Paging.restore7ffd x v =
      Paging.write7ffd (if x.machine = .Sinclair128K then { x with paging_enabled := true } else x) v := by
  unfold Paging.restore7ffd
  by_cases hm : x.machine = .Sinclair128K
  · simp only [hm, beq_self_eq_true, if_true]
    generalize Paging.write7ffd _ v = r; cases r <;> rfl
  · have : (x.machine == Paging.Machine.Sinclair128K) = false := by simp [hm]
    simp only [this, hm, if_false, Bool.false_eq_true]
    generalize Paging.write7ffd _ v = r; cases r <;> rfl

/-- `read_7ffd` returns the latch mirror -/
theorem read7ffd_extracted (x : Paging.St) (c : Ctl) (h : Rel x c) : Paging.read7ffd x = c.port7ffd := h.latch

/-! ### Histories, and the property's `out7ffd` -/

/-- a history of bytes reaching `write_7ffd`, through the translated function (`none`: a panic) -/
def runX (x : Paging.St) : List (BitVec 8) → Option Paging.St
  | [] => some x
  | v :: vs => match Paging.write7ffd x v with
    | none => none
    | some x' => runX x' vs

/-- **Every history of paging writes from the 128K's reset state**, run through the translated
`write_7ffd`, never panics and ends in the state that stands for the model's after the same history -/
theorem history_is_model (vs : List (BitVec 8)) :
    ∃ x', runX Paging.new_Sinclair128K vs = some x' ∧
      Rel x' (C06.runC (Ctl.new .k128) (vs.map Spec.MemOp.out7ffd)) := by
  have key : ∀ (vs : List (BitVec 8)) (x : Paging.St) (c : Ctl), Rel x c → c.mem.ramPages = 8 →
      c.mem.romPages = 2 → c.panicked = false →
      ∃ x', runX x vs = some x' ∧ Rel x' (C06.runC c (vs.map Spec.MemOp.out7ffd)) := by
    intro vs
    induction vs with
    | nil => intro x c h _ _ _; exact ⟨x, rfl, h⟩
    | cons v vs ih =>
      intro x c h h1 h2 h3
      obtain ⟨x1, e1, r1, a1, a2, a3, _⟩ := write7ffd_is_model x c h h1 h2 h3 v
      obtain ⟨x2, e2, r2⟩ := ih x1 (c.write7ffd v) r1 a1 a2 a3
      refine ⟨x2, ?_, ?_⟩
      · simp only [runX, e1]; exact e2
      · simpa [C06.runC, C06.stepC] using r2
  exact key vs _ _ new_is_model.2 rfl rfl rfl

/-- a history of `out7ffd` operations folds like the list of its bytes -/
theorem fold_out7ffd (vs : List (BitVec 8)) (s : Spec.Mem128) :
    (vs.map Spec.MemOp.out7ffd).foldl Spec.Mem128.step s = vs.foldl Spec.Mem128.out7ffd s := by
  induction vs generalizing s with
  | nil => rfl
  | cons v vs ih => simp only [List.map_cons, List.foldl_cons, Spec.Mem128.step]; exact ih _

/-- **The translated `write_7ffd` is the property's `out7ffd`**: after every history of paging writes
from reset, the latch mirror and the lock of the translated state are the abstract machine's (last
accepted value; bit 5 of an accepted value locks, a locked latch ignores writes), the four slots are
the property's window map for that latch (ROM by bit 4, bank 5, bank 2, bank by bits 0–2) and the
screen bank is 5, or 7 while bit 3 is set -/
theorem history_is_spec (vs : List (BitVec 8)) :
    ∃ x', runX Paging.new_Sinclair128K vs = some x' ∧
      x'.current_port_7ffd = (vs.foldl Spec.Mem128.out7ffd (C06.abs (Ctl.new .k128))).latch ∧
      (!x'.paging_enabled) = (vs.foldl Spec.Mem128.out7ffd (C06.abs (Ctl.new .k128))).locked ∧
      x'.memory.map.map absPage =
        [.rom (if x'.current_port_7ffd &&& 0x10 = 0 then 0 else 1), .ram 5, .ram 2,
         .ram (x'.current_port_7ffd &&& 0x07).toNat] ∧
      x'.screen_bank.toNat = (if x'.current_port_7ffd &&& 0x08 = 0 then 5 else 7) := by
  obtain ⟨x', e, r⟩ := history_is_model vs
  have hi := C06.run_inv _ C06.init_inv (vs.map Spec.MemOp.out7ffd)
  have hr := C06.run_refines (vs.map Spec.MemOp.out7ffd)
  have hf := fold_out7ffd vs (C06.abs (Ctl.new .k128))
  rw [hf] at hr
  refine ⟨x', e, ?_, ?_, ?_, ?_⟩
  · rw [← hr, r.latch]; rfl
  · rw [← hr, r.enabled]; rfl
  · rw [r.slots, hi.slot0, hi.slot1, hi.slot2, hi.slot3, r.latch]
  · rw [r.screen, hi.screen, r.latch]

/-- one accepted write, in the property's words: from an unlocked state of the 128K the translated
function stores the byte in the latch mirror and sets the lock iff bit 5 of it is set -/
theorem write7ffd_is_out7ffd (x : Paging.St) (c : Ctl) (h : Rel x c) (hi : C06.MapInv c) (v : BitVec 8) :
    ∃ x', Paging.write7ffd x v = some x' ∧
      x'.current_port_7ffd = ((C06.abs c).out7ffd v).latch ∧
      (!x'.paging_enabled) = ((C06.abs c).out7ffd v).locked := by
  obtain ⟨x', e, r, _⟩ := write7ffd_is_model x c h hi.ramPages hi.romPages hi.noPanic v
  have := C06.step_refines c hi (.out7ffd v)
  simp only [C06.stepC, Spec.Mem128.step] at this
  exact ⟨x', e, by rw [← this, r.latch]; rfl, by rw [← this, r.enabled]; rfl⟩

/-! ### `ZXMemory::read` / `write` / `paged_address` -/

/-- **ROM writes are ignored**: `ZXMemory::write` as it stands in the source stores into `ram` for a
RAM page and stores nothing for a ROM page; `read` takes a RAM page from `ram` and a ROM page from
`rom`; both at index page × 16384 + offset — the model's (page, offset) addressing, read back by
division for every offset inside a page -/
theorem rom_writes_ignored_src (n : BitVec 8) (off : Nat) (h : off < 16384) :
    Paging.writeTo (.Rom n) off = none ∧
    Paging.writeTo (.Ram n) off = some (.ram, n.toNat * 16384 + off) ∧
    Paging.readFrom (.Ram n) off = (.ram, n.toNat * 16384 + off) ∧
    Paging.readFrom (.Rom n) off = (.rom, n.toNat * 16384 + off) ∧
    (n.toNat * 16384 + off) / 16384 = n.toNat ∧ (n.toNat * 16384 + off) % 16384 = off := by
  refine ⟨rfl, rfl, rfl, rfl, ?_, ?_⟩ <;> omega

/-- the model's `Mem.write` through the source's `writeTo`: a CPU write changes RAM exactly where the
translated `write` stores (page, offset of `paged_address`) and nothing when `writeTo` is `none` -/
theorem write_is_model (mem : Mem) (a : BitVec 16) (v : BitVec 8) (pg : Paging.Page)
    (hpg : absPage pg = mem.map (Paging.pagedSlot a)) :
    mem.write a v =
      (match Paging.writeTo pg (Paging.pagedOffset a) with
       | none => mem
       | some (.ram, i) => { mem with ram := fun p' o' => if p' = i / 16384 ∧ o' = i % 16384 then v else mem.ram p' o' }
       | some (.rom, _) => mem) := by
  have ho : a.toNat % 16384 < 16384 := Nat.mod_lt _ (by decide)
  unfold Mem.write Mem.pagedAddress
  simp only [Paging.pagedSlot, Paging.pagedOffset, Paging.PAGE_SIZE, pageSize] at hpg ⊢
  rw [← hpg]
  cases pg with
  | Rom n => rfl
  | Ram n =>
    simp only [absPage, Paging.writeTo, Paging.PAGE_SIZE]
    have e1 : (n.toNat * (16 * 1024) + a.toNat % (16 * 1024)) / 16384 = n.toNat := by omega
    have e2 : (n.toNat * (16 * 1024) + a.toNat % (16 * 1024)) % 16384 = a.toNat % (16 * 1024) := by omega
    rw [e1, e2]

/-- `paged_address` and `get_page` as translated: slot = address / 16384 (one of the four), offset =
address mod 16384 — the model's `pagedAddress` / `getPage` -/
theorem paged_address_extracted (mem : Mem) (a : BitVec 16) :
    Paging.pagedSlot a < Paging.MEM_BLOCKS ∧
    mem.pagedAddress a = (mem.map (Paging.pagedSlot a), Paging.pagedOffset a) ∧
    mem.getPage a = mem.map (Paging.getPageSlot a) := by
  refine ⟨?_, rfl, rfl⟩
  have := a.isLt
  simp only [Paging.pagedSlot, Paging.PAGE_SIZE, Paging.MEM_BLOCKS]; omega

/-- `remap` as translated panics exactly when the model's does (page + 1 pages do not fit), for whole-page
array lengths -/
theorem remap_guard_extracted (ramPages romPages : Nat) (n : BitVec 8) :
    Paging.remapPanics (ramPages * 16384) (romPages * 16384) (.Ram n) = decide (n.toNat + 1 > ramPages) ∧
    Paging.remapPanics (ramPages * 16384) (romPages * 16384) (.Rom n) = decide (n.toNat + 1 > romPages) := by
  refine ⟨decide_eq_decide.mpr ?_, decide_eq_decide.mpr ?_⟩ <;> (simp only [Paging.PAGE_SIZE]; omega)

/-! Non-vacuity: the translated function on concrete bytes -/
example :
    runX Paging.new_Sinclair128K [0x17, 0x03] =
      some { Paging.new_Sinclair128K with
        current_port_7ffd := 0x03, screen_shown := some 5,
        memory := { Paging.new_Sinclair128K.memory with map := [.Rom 0, .Ram 5, .Ram 2, .Ram 3] } } ∧
    runX Paging.new_Sinclair128K [0x3F, 0x00] =
      some { Paging.new_Sinclair128K with
        current_port_7ffd := 0x3F, paging_enabled := false, screen_bank := 7, screen_shown := some 7,
        memory := { Paging.new_Sinclair128K.memory with map := [.Rom 1, .Ram 5, .Ram 2, .Ram 7] } } ∧
    runX Paging.new_Sinclair48K [0x17] = some Paging.new_Sinclair48K := by decide

end ZxVerif.C06X
