/-
C07 — Port addresses reach the right device under Spectrum partial decoding.

Model: `readDecode`/`writeDecode` (the if/else chains of `read_io`/`write_io`), `floatingBusAddr`
in ZxVerif/Model/Machine.lean. Spec: per-device select predicates in ZxVerif/Spec/Machine.lean.
The quantifier "all 65536 ports × all device configurations" is the bound variables themselves;
`bv_decide` decides each statement over the whole space (it adds a native axiom, listed in the
evidence).
-/
import ZxVerif.Spec.Machine
import Std.Tactic.BVDecide
namespace ZxVerif.C07
open ZxVerif.Machine

/-- Reads: whenever a port selects exactly one device (or none), the code's decode chain routes
it to that device (floating bus when nobody claims it) — for every port and configuration. -/
theorem read_routes_unique (cfg : IoCfg) (p : BitVec 16)
    (h : Spec.readExactlyOne cfg p = true ∨ Spec.readNobody cfg p = true) :
    Spec.readRouteOk cfg p (readDecode cfg p) = true := by
  revert h
  unfold Spec.readExactlyOne Spec.readNobody Spec.readRouteOk Spec.readNobody Spec.one5 Spec.none5
    Spec.mouseRegOk readDecode Spec.selUla Spec.selMouse Spec.selAySelect Spec.selKempston
  bv_decide

/-- Writes: likewise for the five write-side devices; a port nobody claims has no effect. -/
theorem write_routes_unique (cfg : IoCfg) (p : BitVec 16)
    (h : Spec.writeExactlyOne cfg p = true ∨ Spec.writeNobody cfg p = true) :
    Spec.writeRouteOk cfg p (writeDecode cfg p) = true := by
  revert h
  unfold Spec.writeExactlyOne Spec.writeNobody Spec.writeRouteOk Spec.writeNobody Spec.one5 Spec.none5
    writeDecode Spec.selUla Spec.selAySelect Spec.selAyData Spec.selPaging Kind.is128
  bv_decide

/-- The routed device is unique: the decode functions are functions, and when exactly one device
is selected no *other* device's predicate holds — so "that device and no other". -/
theorem read_no_other (cfg : IoCfg) (p : BitVec 16) (d : ReadDev)
    (h : Spec.readExactlyOne cfg p = true) (hd : Spec.readRouteOk cfg p d = true) :
    (d = .mouseButtons ∨ d = .mouseX ∨ d = .mouseY) ∧
      (readDecode cfg p = .mouseButtons ∨ readDecode cfg p = .mouseX ∨ readDecode cfg p = .mouseY)
    ∨ d = readDecode cfg p := by
  revert h hd
  unfold Spec.readExactlyOne Spec.readRouteOk Spec.readNobody Spec.one5 Spec.none5
    Spec.mouseRegOk readDecode Spec.selUla Spec.selMouse Spec.selAySelect Spec.selKempston
  cases d <;> bv_decide

/-- A host extender receives exactly the ports it claims — and then nothing else sees them. -/
theorem extender_exact (cfg : IoCfg) (p : BitVec 16) :
    (readDecode cfg p = .extender ↔ cfg.extender = true) ∧
    (writeDecode cfg p = .extender ↔ cfg.extender = true) := by
  unfold readDecode writeDecode Kind.is128
  bv_decide

/-- The 128K paging latch is never written on a 48K machine. -/
theorem paging_only_128 (cfg : IoCfg) (p : BitVec 16) (h : writeDecode cfg p = .paging) :
    cfg.kind = .k128 := by
  revert h; unfold writeDecode Kind.is128; bv_decide

/-- The canonical addresses of the property decode as named. -/
theorem canonical_addresses :
    readDecode ⟨.k128, true, true, false⟩ 0xFADF = .mouseButtons ∧
    readDecode ⟨.k128, true, true, false⟩ 0xFBDF = .mouseX ∧
    readDecode ⟨.k128, true, true, false⟩ 0xFFDF = .mouseY ∧
    readDecode ⟨.k128, true, false, false⟩ 0x001F = .kempston ∧
    readDecode ⟨.k128, false, false, false⟩ 0xFFFD = .ay ∧
    writeDecode ⟨.k128, false, false, false⟩ 0xFFFD = .aySelect ∧
    writeDecode ⟨.k128, false, false, false⟩ 0xBFFD = .ayData ∧
    writeDecode ⟨.k128, false, false, false⟩ 0x7FFD = .paging ∧
    writeDecode ⟨.k48, false, false, false⟩ 0x7FFD = .none ∧
    writeDecode ⟨.k48, false, false, false⟩ 0x00FE = .ula := by decide

/-- Floating bus: outside the ULA's fetch windows the bus is idle (0xFF) — before the first
fetch, after the 192 picture lines, and in the border/retrace part of every line. -/
theorem floating_bus_idle (m : Kind) (t : Nat)
    (h : t < m.specs.clocksFirstPixel + 2 ∨
         (t - (m.specs.clocksFirstPixel + 2)) / m.specs.clocksLine ≥ 192 ∨
         (t - (m.specs.clocksFirstPixel + 2)) % m.specs.clocksLine ≥ 124) :
    floatingBusAddr m t = none := by
  unfold floatingBusAddr
  rcases h with h | h | h
  · simp [h]
  · by_cases h0 : t < m.specs.clocksFirstPixel + 2
    · simp [h0]
    · simp only [h0, if_false]
      have : ¬ ((t - (m.specs.clocksFirstPixel + 2)) / m.specs.clocksLine < 192) := by omega
      simp [this]
  · by_cases h0 : t < m.specs.clocksFirstPixel + 2
    · simp [h0]
    · simp only [h0, if_false]
      have hs : m.specs.clocksScreenRow - 4 = 124 := by cases m <;> rfl
      have : ¬ ((t - (m.specs.clocksFirstPixel + 2)) % m.specs.clocksLine < m.specs.clocksScreenRow - 4) := by
        rw [hs]; omega
      simp [this]

theorem bitmapLineAddr_range : ∀ row, row < 192 →
    0x4000 ≤ bitmapLineAddr row ∧ bitmapLineAddr row ≤ 0x57E0 := by
  decide +kernel

/-- Floating bus: when a byte is on the bus it is a display-file or attribute byte of the
current picture line (CPU addresses 0x4000–0x5AFF). -/
theorem floating_bus_addr (m : Kind) (t a : Nat) (h : floatingBusAddr m t = some a) :
    0x4000 ≤ a ∧ a < 0x5B00 := by
  unfold floatingBusAddr at h
  by_cases h0 : t < m.specs.clocksFirstPixel + 2
  · simp [h0] at h
  · simp only [h0, if_false] at h
    generalize (t - (m.specs.clocksFirstPixel + 2)) / m.specs.clocksLine = row at h
    generalize hc : (t - (m.specs.clocksFirstPixel + 2)) % m.specs.clocksLine = c at h
    have hs : m.specs.clocksScreenRow - 4 = 124 := by cases m <;> rfl
    rw [hs] at h
    split at h
    · rename_i hcond
      obtain ⟨hrow, hc124, _⟩ := hcond
      split at h
      · have := Option.some.inj h
        subst this
        have := bitmapLineAddr_range row hrow
        omega
      · have := Option.some.inj h
        subst this
        have : row / 8 < 24 := by omega
        omega
    · cases h

end ZxVerif.C07
