/-
C07 (system level) — port decoding for *every program* on the composed machine.

Props/C07.lean proves the routing clauses about the decode functions in isolation. Here the accesses
are the ones a Z80 program performs: `Z80.emulate` runs on the bus `IoZX` (Lemmas/IoBus.lean) = the
machine bus `Spectrum.ZX` plus a ghost log (oldest first) of every port access the CPU made:
direction, port, value written or returned, device reached, frame clock / total time / paging latch at
the start of the port cycle and, for reads, the frame clock at which the bus was sampled.

* `IoZX.zx` is a bus homomorphism, so by the second free theorem of the CPU model (Lemmas/Z80Hom.lean)
  every program goes through the same CPU states on `IoZX` as on `ZX` and the machine component of the
  run *is* the run on `ZX` (`machine_is_zx_run`). Statements about "the machine" below are about
  `(Z80.run v n (s, z0)).2` on `ZX`, the model the lock-step correspondence (harness/src/sys.rs) ties
  to the real `Emulator`.
* The invariant `Ext` is carried through every instruction by the closure theorem
  `Z80.BusClosedB.run` (Lemmas/Z80Closed.lean): all opcode pages, block I/O instructions, interrupts,
  both machines, any keyboard / joystick / mouse configuration, any memory contents, any CPU state,
  either CPU variant, any run length.

Start states: any machine state `z0`. The clauses that speak about time and about the paging latch
need the representation invariant of C04 (`C04Sys.Good z0.ctl`: the in-frame offset is below the frame
length and the four-slot map is what the latch says) — true at power-on of either machine
(`C04Sys.good_new`) and kept by every program, so true of every state a program can reach.

Host extender: the machine model `ZX` has none (`ZX.cfg` has `extender := false`; the entries' devices
are never `.extender`: `no_extender`). "The extender gets exactly the ports it claims" stays with
`C07.extender_exact` and the port sweep of the correspondence.
-/
import ZxVerif.Lemmas.IoBus
import ZxVerif.Props.C07
import ZxVerif.Props.C06Prog
import ZxVerif.Props.C18Sys
set_option linter.unusedSimpArgs false
set_option linter.unusedVariables false
namespace ZxVerif.C07Sys
open ZxVerif.Z80 ZxVerif.Machine ZxVerif.Spectrum

/-- the machine with its log after `n` instructions of whatever program is in memory -/
def after (v : Variant) (n : Nat) (s : Cpu) (z0 : ZX) : IoZX := (Z80.run v n (s, IoZX.start z0)).2

/-- the port accesses of the first `n` instructions, oldest first -/
def log (v : Variant) (n : Nat) (s : Cpu) (z0 : ZX) : List IoEntry := (after v n s z0).log

/-- **Adding the log changes nothing for the program.** The CPU state after any program is the same on
`IoZX` as on the machine bus, and the machine component of the run on `IoZX` is the run on `ZX`. -/
theorem machine_is_zx_run (v : Variant) (n : Nat) (s : Cpu) (z0 : ZX) :
    (Z80.run v n (s, IoZX.start z0)).1 = (Z80.run v n (s, z0)).1 ∧
    (after v n s z0).zx = (Z80.run v n (s, z0)).2 :=
  io_run_zx v n s (IoZX.start z0)

/-- the facts every theorem below starts from -/
theorem after_ext (v : Variant) (n : Nat) (s : Cpu) (z0 : ZX) :
    Ext (IoZX.start z0) (after v n s z0) (log v n s z0) := by
  obtain ⟨d, h⟩ := program_grows v n s (IoZX.start z0)
  have : log v n s z0 = d := by
    show (Z80.run v n (s, IoZX.start z0)).2.log = d
    rw [h.log]; rfl
  rw [this]
  exact h

/-- the same, about the run on the machine bus `ZX` -/
theorem after_facts (v : Variant) (n : Nat) (s : Cpu) (z0 : ZX) :
    let z := (Z80.run v n (s, z0)).2
    z.kbd = z0.kbd ∧ z.earIn = z0.earIn ∧ z.ctl.kind = z0.ctl.kind ∧
    (∀ e ∈ log v n s z0, Recorded z0.ctl.kind z0.kbd z0.earIn e) ∧
    devState z = (log v n s z0).foldl DevState.step (devState z0) ∧
    (C04Sys.Good z0.ctl → C04Sys.Good z.ctl ∧
      pagState z = (log v n s z0).foldl PagState.step (pagState z0) ∧
      ∀ e ∈ log v n s z0, Stamped z0.ctl.kind e) ∧
    ReadsSee (devState z0) (log v n s z0) := by
  intro z
  have h := after_ext v n s z0
  have hz : (after v n s z0).zx = z := (machine_is_zx_run v n s z0).2
  rw [← hz]
  exact ⟨h.kbd, h.earIn, h.kind, h.recd, h.dev, h.good, h.sees⟩

/-- no program changes the configuration the ports are decoded with: machine kind, joystick, mouse -/
theorem cfg_constant (v : Variant) (n : Nat) (s : Cpu) (z0 : ZX) : (Z80.run v n (s, z0)).2.cfg = z0.cfg := by
  obtain ⟨h1, _, h3, _⟩ := after_facts v n s z0
  unfold ZX.cfg
  rw [h1, h3]

/-! ### 1. every access reaches the device the property names -/

/-- the decode chain of `read_io` only ever selects a device whose select predicate holds (and the
floating bus only when nobody's does) — for every port and configuration, also when several devices
are selected at once -/
theorem read_route_ok (cfg : IoCfg) (p : BitVec 16) : Spec.readRouteOk cfg p (readDecode cfg p) = true := by
  obtain ⟨k, ke, mo, ex⟩ := cfg
  unfold readDecode
  simp only [apply_ite (Spec.readRouteOk _ p), Spec.readRouteOk, Spec.readNobody, Spec.none5, Spec.mouseRegOk,
    Spec.selUla, Spec.selMouse, Spec.selAySelect, Spec.selKempston]
  bv_decide

/-- likewise for `write_io` -/
theorem write_route_ok (cfg : IoCfg) (p : BitVec 16) : Spec.writeRouteOk cfg p (writeDecode cfg p) = true := by
  obtain ⟨k, ke, mo, ex⟩ := cfg
  unfold writeDecode
  cases k <;>
  · simp only [Kind.is128, Bool.and_false, Bool.and_true]
    simp only [apply_ite (Spec.writeRouteOk _ p), Spec.writeRouteOk, Spec.writeNobody, Spec.none5,
      Spec.selUla, Spec.selPaging, Spec.selAySelect, Spec.selAyData, Kind.is128]
    bv_decide

/-- when the property selects exactly one write-side device, only that device's routing is acceptable -/
theorem write_no_other (cfg : IoCfg) (p : BitVec 16) (d d' : WriteDev)
    (h : Spec.writeExactlyOne cfg p = true) (hd : Spec.writeRouteOk cfg p d = true)
    (hd' : Spec.writeRouteOk cfg p d' = true) : d' = d := by
  revert h hd hd'
  unfold Spec.writeExactlyOne Spec.writeRouteOk Spec.writeNobody Spec.one5 Spec.none5
  generalize cfg.extender = a
  generalize Spec.selUla p = b
  generalize Spec.selAySelect p = c
  generalize Spec.selAyData p = e
  generalize Spec.selPaging cfg.kind p = f
  cases d <;> cases d' <;> cases a <;> cases b <;> cases c <;> cases e <;> cases f <;> simp

/-- what the property demands of one logged access in configuration `cfg`: the device reached is the
one the decode chain gives, and that is a device the property allows for the port —
reads: ULA only for even ports (A0 = 0); a mouse register only with the mouse attached and A0 = 1, A5 = 0
(buttons A8 = 0, X (A8,A10) = (1,0), Y (1,1)); the AY only for A15 = A14 = 1, A1 = 0; the Kempston
joystick only when attached and A7 = A6 = A5 = 0; the floating bus only when none of these claims the port;
writes: AY select only for 0xC002-masked 0xC000, AY data only for 0x8000; ULA only for even ports; the
paging latch only on the 128K and only for A15 = 0, A1 = 0; no device only when none of these claims it.
When the property selects exactly one device, the device reached is that one and no other. -/
def Routed (cfg : IoCfg) : IoEntry → Prop
  | .rd p _ d _ _ _ _ =>
    d = readDecode cfg p ∧ Spec.readRouteOk cfg p d = true ∧ Spec.readVerdict cfg p d ≠ some false ∧
    (Spec.readExactlyOne cfg p = true → ∀ d', Spec.readRouteOk cfg p d' = true →
      d' = d ∨ ((d' = .mouseButtons ∨ d' = .mouseX ∨ d' = .mouseY) ∧ (d = .mouseButtons ∨ d = .mouseX ∨ d = .mouseY)))
  | .wr p _ d _ _ _ =>
    d = writeDecode cfg p ∧ Spec.writeRouteOk cfg p d = true ∧ Spec.writeVerdict cfg p d ≠ some false ∧
    (Spec.writeExactlyOne cfg p = true → ∀ d', Spec.writeRouteOk cfg p d' = true → d' = d)

theorem routed_of_recorded (z0 : ZX) (e : IoEntry) (h : Recorded z0.ctl.kind z0.kbd z0.earIn e) :
    Routed z0.cfg e := by
  cases e with
  | rd p val d clock time latch sample =>
    obtain ⟨hd, _⟩ := h
    have hd' : d = readDecode z0.cfg p := hd
    subst hd'
    refine ⟨rfl, read_route_ok _ p, ?_, ?_⟩
    · unfold Spec.readVerdict
      split
      · rw [read_route_ok]; simp
      · simp
    · intro h1 d' hd'
      have := C07.read_no_other z0.cfg p d' h1 hd'
      rcases this with ⟨a, b⟩ | a
      · exact Or.inr ⟨a, b⟩
      · exact Or.inl a
  | wr p val d clock time latch =>
    obtain ⟨hd, _⟩ := h
    have hd' : d = writeDecode z0.cfg p := hd
    subst hd'
    refine ⟨rfl, write_route_ok _ p, ?_, ?_⟩
    · unfold Spec.writeVerdict
      split
      · rw [write_route_ok]; simp
      · simp
    · intro h1 d' hd'
      exact write_no_other z0.cfg p _ d' h1 (write_route_ok _ p) hd'

/-- **Every port access of every program reaches the device the property names.** Whatever program
runs (either CPU variant, any number of instructions, any CPU state) from whatever machine state `z0`
(48K or 128K, Kempston joystick and mouse attached or not, any memory, clock and paging state), every
entry of the log names the device the property's routing gives for that port in the configuration of
`z0` (`Routed`) — the configuration no program can change (`cfg_constant`). -/
theorem every_access_reaches_spec_device (v : Variant) (n : Nat) (s : Cpu) (z0 : ZX) :
    ∀ e ∈ log v n s z0, Routed z0.cfg e :=
  fun e he => routed_of_recorded z0 e ((after_facts v n s z0).2.2.2.1 e he)

/-- the machine model has no host extender: no logged access was routed to one -/
theorem no_extender (v : Variant) (n : Nat) (s : Cpu) (z0 : ZX) :
    ∀ e ∈ log v n s z0, (∀ p val d c t l sm, e = .rd p val d c t l sm → d ≠ .extender) ∧
      (∀ p val d c t l, e = .wr p val d c t l → d ≠ .extender) := by
  intro e he
  have h := (after_facts v n s z0).2.2.2.1 e he
  constructor
  · intro p val d c t l sm heq; subst heq; exact h.2.2.2.2.2.2.2
  · intro p val d c t l heq; subst heq; exact h.2

/-- the routing clauses spelled out on the ports of the property: on every machine state an `OUT` to
0x7FFD reaches the paging latch on the 128K and nobody on the 48K, `OUT (0xFE)` the ULA, `IN` from
0x1F the Kempston joystick when one is attached and no mouse is, 0xFFFD / 0xBFFD the AY -/
theorem canonical_ports (z : ZX) :
    writeDecode z.cfg 0x7FFD = (if z.ctl.kind = .k128 then .paging else .none) ∧
    writeDecode z.cfg 0x00FE = .ula ∧ readDecode z.cfg 0xFEFE = .ula ∧
    (z.kbd.kempston.isSome = true → z.kbd.mouse.isSome = false → readDecode z.cfg 0x001F = .kempston) ∧
    (z.kbd.kempston.isSome = false → z.kbd.mouse.isSome = false → readDecode z.cfg 0x001F = .floating) ∧
    readDecode z.cfg 0xFFFD = .ay ∧ writeDecode z.cfg 0xFFFD = .aySelect ∧ writeDecode z.cfg 0xBFFD = .ayData := by
  have : ∀ (k : Kind) (ke mo : Bool),
      writeDecode ⟨k, ke, mo, false⟩ 0x7FFD = (if k = .k128 then .paging else .none) ∧
      writeDecode ⟨k, ke, mo, false⟩ 0x00FE = .ula ∧ readDecode ⟨k, ke, mo, false⟩ 0xFEFE = .ula ∧
      (ke = true → mo = false → readDecode ⟨k, ke, mo, false⟩ 0x001F = .kempston) ∧
      (ke = false → mo = false → readDecode ⟨k, ke, mo, false⟩ 0x001F = .floating) ∧
      readDecode ⟨k, ke, mo, false⟩ 0xFFFD = .ay ∧ writeDecode ⟨k, ke, mo, false⟩ 0xFFFD = .aySelect ∧
      writeDecode ⟨k, ke, mo, false⟩ 0xBFFD = .ayData := by
    intro k ke mo; cases k <;> cases ke <;> cases mo <;> decide
  exact this _ _ _

/-! ### 2. a write changes only its device -/

/-- the ULA writes of a log (the bytes), oldest first -/
def ulaWrites (l : List IoEntry) : List (BitVec 8) :=
  l.filterMap fun e => match e with | .wr _ v .ula _ _ _ => some v | _ => none

/-- the bytes written to the paging latch decoder, oldest first -/
def pagingWrites (l : List IoEntry) : List (BitVec 8) :=
  l.filterMap fun e => match e with | .wr _ v .paging _ _ _ => some v | _ => none

/-- **An `OUT` changes the state of the device it is routed to and of no other; nothing else changes
any.** After every program the machine's ULA output latch (border, EAR, MIC) and its AY latch and file
are the fold of the device state machine `DevState.step` over the log: an entry routed to the ULA sets
border = low three bits, MIC = bit 3, EAR = bit 4 and nothing else; AY select sets the register latch;
AY data writes the selected register; writes routed to the paging latch or to nobody, all reads, and
everything the program does that is not a port access (memory traffic, interrupts, HALT) leave them
alone. Under the representation invariant of C04, likewise the paging latch and its lock are the fold
of `PagState.step`: only writes routed to the latch count, accepted unless the lock is set, bit 5 of an
accepted value sets the lock — and the invariant still holds, so the memory map is the one the latch
value prescribes (`C06.MapInv`, `paging_map_is_fold`). -/
theorem writes_change_only_their_device (v : Variant) (n : Nat) (s : Cpu) (z0 : ZX) :
    let z := (Z80.run v n (s, z0)).2
    devState z = (log v n s z0).foldl DevState.step (devState z0) ∧
    (C04Sys.Good z0.ctl →
      pagState z = (log v n s z0).foldl PagState.step (pagState z0) ∧ C04Sys.Good z.ctl) := by
  intro z
  obtain ⟨_, _, _, _, hd, hg, _⟩ := after_facts v n s z0
  exact ⟨hd, fun g => ⟨(hg g).2.1, (hg g).1⟩⟩

theorem ula_fold (l : List IoEntry) (d : DevState) :
    let r := l.foldl DevState.step d
    (r.border, r.ear, r.mic) =
      (match (ulaWrites l).getLast? with
       | some w => (w &&& 0x07, decide (w &&& 0x10 ≠ 0), decide (w &&& 0x08 ≠ 0))
       | none => (d.border, d.ear, d.mic)) := by
  induction l generalizing d with
  | nil => rfl
  | cons e t ih =>
    have key : ∀ (w : BitVec 8) (d' : DevState), d'.border = w &&& 0x07 → d'.ear = decide (w &&& 0x10 ≠ 0) →
        d'.mic = decide (w &&& 0x08 ≠ 0) →
        (let r := t.foldl DevState.step d'
         (r.border, r.ear, r.mic) =
          (match (w :: ulaWrites t).getLast? with
           | some w => (w &&& 0x07, decide (w &&& 0x10 ≠ 0), decide (w &&& 0x08 ≠ 0))
           | none => (d.border, d.ear, d.mic))) := by
      intro w d' h1 h2 h3
      have := ih d'
      simp only [] at this ⊢
      rw [this]
      cases hq : ulaWrites t with
      | nil => simp [h1, h2, h3]
      | cons a r => simp [List.getLast?_cons]
    have same : ∀ d' : DevState, d'.border = d.border → d'.ear = d.ear → d'.mic = d.mic →
        ulaWrites (e :: t) = ulaWrites t →
        (let r := t.foldl DevState.step d'
         (r.border, r.ear, r.mic) =
          (match (ulaWrites (e :: t)).getLast? with
           | some w => (w &&& 0x07, decide (w &&& 0x10 ≠ 0), decide (w &&& 0x08 ≠ 0))
           | none => (d.border, d.ear, d.mic))) := by
      intro d' h1 h2 h3 h4
      have := ih d'
      simp only [] at this ⊢
      rw [this, h4, h1, h2, h3]
    cases e with
    | rd p val dv c tm l sm => exact same _ rfl rfl rfl rfl
    | wr p val dv c tm l =>
      cases dv with
      | ula => exact key val _ rfl rfl rfl
      | extender => exact same _ rfl rfl rfl rfl
      | aySelect => exact same _ rfl rfl rfl rfl
      | ayData => exact same _ rfl rfl rfl rfl
      | paging => exact same _ rfl rfl rfl rfl
      | none => exact same _ rfl rfl rfl rfl

/-- **Border, EAR and MIC are those of the program's last ULA write** (an `OUT` to an even port that
the AY does not claim): border = its low three bits, MIC = bit 3, EAR = bit 4; untouched if the program
made none — whatever else it wrote to whatever other port in between. -/
theorem border_is_last_ula_write (v : Variant) (n : Nat) (s : Cpu) (z0 : ZX) :
    let z := (Z80.run v n (s, z0)).2
    (z.border, z.ear, z.mic) =
      (match (ulaWrites (log v n s z0)).getLast? with
       | some w => (w &&& 0x07, decide (w &&& 0x10 ≠ 0), decide (w &&& 0x08 ≠ 0))
       | none => (z0.border, z0.ear, z0.mic)) := by
  intro z
  have h := (writes_change_only_their_device v n s z0).1
  have := ula_fold (log v n s z0) (devState z0)
  simp only [] at this h
  rw [← h] at this
  exact this

theorem pag_fold (l : List IoEntry) (m : Spec.Mem128) :
    l.foldl PagState.step ⟨m.latch, m.locked⟩ =
      ⟨((pagingWrites l).foldl Spec.Mem128.out7ffd m).latch, ((pagingWrites l).foldl Spec.Mem128.out7ffd m).locked⟩ := by
  induction l generalizing m with
  | nil => rfl
  | cons e t ih =>
    have same : PagState.step ⟨m.latch, m.locked⟩ e = ⟨m.latch, m.locked⟩ → pagingWrites (e :: t) = pagingWrites t →
        (e :: t).foldl PagState.step ⟨m.latch, m.locked⟩ =
        ⟨((pagingWrites (e :: t)).foldl Spec.Mem128.out7ffd m).latch,
         ((pagingWrites (e :: t)).foldl Spec.Mem128.out7ffd m).locked⟩ := by
      intro h1 h2
      rw [List.foldl_cons, h1, h2]; exact ih m
    cases e with
    | rd p val dv c tm l sm => exact same rfl rfl
    | wr p val dv c tm l =>
      cases dv with
      | paging =>
        show t.foldl PagState.step (PagState.step ⟨m.latch, m.locked⟩ (.wr p val .paging c tm l)) =
          ⟨((val :: pagingWrites t).foldl Spec.Mem128.out7ffd m).latch, ((val :: pagingWrites t).foldl Spec.Mem128.out7ffd m).locked⟩
        rw [List.foldl_cons, ← ih (m.out7ffd val)]
        have e1 : PagState.step ⟨m.latch, m.locked⟩ (.wr p val .paging c tm l) =
            ⟨(m.out7ffd val).latch, (m.out7ffd val).locked⟩ := by
          show (if m.locked = true then PagState.mk m.latch m.locked else ⟨val, decide (val &&& 0x20 ≠ 0)⟩) = _
          unfold Spec.Mem128.out7ffd
          cases hl : m.locked <;> simp [hl]
        rw [e1]
      | extender => exact same rfl rfl
      | aySelect => exact same rfl rfl
      | ayData => exact same rfl rfl
      | ula => exact same rfl rfl
      | none => exact same rfl rfl

/-- **The paging latch is the property's latch folded over the accepted paging writes, and the memory
map follows it.** From any state in which the rules apply (`Good`; e.g. power-on), after every program
the machine's latch and lock are `Spec.Mem128.out7ffd` (accepted unless locked; bit 5 locks) folded over
exactly the bytes the program wrote to ports routed to the latch (A15 = 0, A1 = 0, 128K only), in program
order; and on the 128K a CPU read at any address returns the byte the property's window function
designates for that latch value (ROM by bit 4, bank 5, bank 2, bank by bits 0–2). -/
theorem paging_map_is_fold (v : Variant) (n : Nat) (s : Cpu) (z0 : ZX) (g : C04Sys.Good z0.ctl) :
    let z := (Z80.run v n (s, z0)).2
    let m := (pagingWrites (log v n s z0)).foldl Spec.Mem128.out7ffd (C06.abs z0.ctl)
    z.ctl.port7ffd = m.latch ∧ (!z.ctl.pagingEnabled) = m.locked ∧
    (z0.ctl.kind = .k128 → ∀ a : BitVec 16,
      z.ctl.readInternal a =
        Spec.Mem128.read { banks := z.ctl.mem.ram, roms := z.ctl.mem.rom, latch := m.latch, locked := m.locked } a) := by
  intro z m
  obtain ⟨hp, gz⟩ := (writes_change_only_their_device v n s z0).2 g
  have hf := pag_fold (log v n s z0) (C06.abs z0.ctl)
  have e : pagState z = ⟨m.latch, m.locked⟩ := by
    rw [hp]; exact hf
  have e1 : z.ctl.port7ffd = m.latch := congrArg PagState.latch e
  have e2 : (!z.ctl.pagingEnabled) = m.locked := congrArg PagState.locked e
  refine ⟨e1, e2, ?_⟩
  intro hk a
  have hkz : z.ctl.kind = .k128 := (after_facts v n s z0).2.2.1.trans hk
  rcases gz.map with ⟨h48, _, _⟩ | hi
  · rw [hkz] at h48; cases h48
  · rw [C06.window_map _ hi a, ← e1, ← e2]; rfl

/-- **The AY latch and file are the C18 fold of the program's AY port writes.** The AY port operations
inside the log (`ayOps`: the writes routed to the AY select / AY data device, in program order) are
exactly the ghost history of Props/C18Sys.lean, whatever the sample schedule; so from an AY at power-on
the machine's AY latch and register file are those of the chip model folded over them
(`Chip.run {}`), and all C18 system theorems speak about this log. -/
theorem ay_file_is_c18_fold (v : Variant) (n : Nat) (s : Cpu) (z0 : ZX) (sched : Nat → Nat) :
    let z := (Z80.run v n (s, z0)).2
    ayOps (log v n s z0) = (C18Sys.after v n s z0 sched).hist ∧
    (C18Sys.AyPowerOn z0 →
      z.ayReg = (Ay.Chip.run {} (ayOps (log v n s z0))).currentReg ∧
      z.ayRegs = (Ay.Chip.run {} (ayOps (log v n s z0))).regs) := by
  intro z
  have h1 : ayOps (log v n s z0) = (Z80.run v n (s, HistZX.mk z0 [])).2.hist :=
    congrArg (fun r => r.2.hist) (io_toHist_hom.run v n s (IoZX.start z0)).symm
  have h2 := (C18Sys.history_independent_of_schedule v n s z0 sched sched).2
  have e : ayOps (log v n s z0) = (C18Sys.after v n s z0 sched).hist := h1.trans h2.symm
  refine ⟨e, fun h0 => ?_⟩
  obtain ⟨m1, m2⟩ := C18Sys.machine_file_is_chip_file v n s z0 sched h0
  obtain ⟨c1, c2, _⟩ := C18Sys.chip_is_fold_of_port_history v n s z0 sched h0
  rw [e]
  exact ⟨m1.trans c1, m2.trans c2⟩

/-- **A read routed to the AY sees exactly the earlier writes of the log.** Every logged `IN` that reached
the AY returned the register which the writes logged before it had selected, with the contents they had
given it (the fold of the device state machine over the entries in front of it) — so a logged AY read
is a read of the device the earlier AY writes went to, and of nothing else. -/
theorem ay_reads_see_earlier_writes (v : Variant) (n : Nat) (s : Cpu) (z0 : ZX) :
    ReadsSee (devState z0) (log v n s z0) ∧
    ∀ l1 l2 p val c t l sm, log v n s z0 = l1 ++ IoEntry.rd p val .ay c t l sm :: l2 →
      val = (l1.foldl DevState.step (devState z0)).ayRegs (l1.foldl DevState.step (devState z0)).ayReg := by
  have h := (after_facts v n s z0).2.2.2.2.2.2
  refine ⟨h, ?_⟩
  intro l1 l2 p val c t l sm e
  rw [e] at h
  exact ((readsSee_append _ _ _).mp h).2.1

/-! ### 3. unclaimed ports show the floating bus -/

/-- the byte the ULA has on the bus at frame T-state `t` of a machine of kind `k` whose CPU-visible
memory is `read`: idle (0xFF) outside the fetch slots, else the display-file or attribute byte it is
fetching (`floatingBusAddr`, Model/Machine.lean) -/
def floatingBus (k : Kind) (read : BitVec 16 → BitVec 8) (t : Nat) : BitVec 8 :=
  match floatingBusAddr k t with
  | none => 0xFF
  | some a => read (BitVec.ofNat 16 a)

/-- a port nobody claims is routed to the floating bus -/
theorem nobody_floating (cfg : IoCfg) (p : BitVec 16) (h : Spec.readNobody cfg p = true) :
    readDecode cfg p = .floating := by
  have hr := read_route_ok cfg p
  revert h hr
  unfold Spec.readNobody Spec.none5
  cases readDecode cfg p <;> simp [Spec.readRouteOk] <;> intros <;> simp_all

/-- … and only such a port is -/
theorem floating_nobody (cfg : IoCfg) (p : BitVec 16) (h : readDecode cfg p = .floating) :
    Spec.readNobody cfg p = true := by
  have hr := read_route_ok cfg p
  rw [h] at hr
  exact hr

/-- the frame clock at which an `IN` from `p` started in machine state `z` samples the bus -/
def sampleClock (z : ZX) (p : BitVec 16) : Nat := ((z.ctl.ioContentionFirst p).ioContentionLast p).frameClocks

/-- **An `IN` from a port nobody claims returns the floating bus — in every machine state.** The value
is `floatingBus` of the machine's memory at the sample T-state: 0xFF while the ULA is idle, the
display/attribute byte (an address in 0x4000–0x5AFF, `C07.floating_bus_addr`) while it fetches. In a
state in which the rules of C04 apply the sample T-state is the property's: one T-state before the end
of the port cycle `Spec.opTime` prescribes for that port (pattern by A0 and contendedness of the high
byte, delays from the contention table), modulo the frame length. -/
theorem unclaimed_read_value (z : ZX) (p : BitVec 16) (h : Spec.readNobody z.cfg p = true) :
    (Bus.readIo p z).1 = floatingBus z.ctl.kind z.ctl.readInternal (sampleClock z p) ∧
    (C04Sys.Good z.ctl → sampleClock z p =
      (Spec.opTime z.ctl.kind z.ctl.port7ffd (C05.total z.ctl) (.io p) - 1) % Spec.frameLen z.ctl.kind) := by
  have hd := nobody_floating z.cfg p h
  have hk : ((z.ctl.ioContentionFirst p).ioContentionLast p).kind = z.ctl.kind :=
    (C05Sys.ioLast_fwd _ p).1.trans (C05Sys.ioFirst_fwd z.ctl p).1
  have hm : ((z.ctl.ioContentionFirst p).ioContentionLast p).mem = z.ctl.mem := by
    rw [C06Sys.ioLast_mem, C06Sys.ioFirst_mem]
  constructor
  · show (ZX.readIo p z).1 = _
    simp only [ZX.readIo, hd]
    unfold Ctl.floatingBusValue floatingBus sampleClock Ctl.readInternal
    rw [hk, hm]
    rfl
  · intro g
    exact (readEntry_stamped z p g).2.2.1

/-- **Unclaimed ports show the floating bus, for every program.** (a) Every logged read of a port
nobody claims was routed to the floating bus and returned 0xFF whenever the ULA was idle at its sample
T-state; from a start state in which the rules of C04 apply, that sample T-state is the property's
(`Spec.opTime` of the port cycle − 1, modulo the frame length, from the logged start time and latch)
and the logged frame clock is the logged time modulo the frame length. (b) In the state any program
leaves the machine in, an `IN` from such a port returns `floatingBus` of the machine's memory at the
sample T-state (`unclaimed_read_value`). -/
theorem unclaimed_read_is_floating_bus (v : Variant) (n : Nat) (s : Cpu) (z0 : ZX) :
    (∀ p val d clock time latch sample, IoEntry.rd p val d clock time latch sample ∈ log v n s z0 →
      Spec.readNobody z0.cfg p = true →
      d = .floating ∧ (floatingBusAddr z0.ctl.kind sample = none → val = 0xFF) ∧
      (C04Sys.Good z0.ctl →
        sample = (Spec.opTime z0.ctl.kind latch time (.io p) - 1) % Spec.frameLen z0.ctl.kind ∧
        clock = time % Spec.frameLen z0.ctl.kind ∧ time + 4 ≤ Spec.opTime z0.ctl.kind latch time (.io p))) ∧
    (let z := (Z80.run v n (s, z0)).2
     ∀ p, Spec.readNobody z0.cfg p = true →
      (Bus.readIo p z).1 = floatingBus z0.ctl.kind z.ctl.readInternal (sampleClock z p) ∧
      (C04Sys.Good z0.ctl → sampleClock z p =
        (Spec.opTime z0.ctl.kind z.ctl.port7ffd (C05.total z.ctl) (.io p) - 1) % Spec.frameLen z0.ctl.kind)) := by
  obtain ⟨_, _, hkind, hrec, _, hgood, _⟩ := after_facts v n s z0
  constructor
  · intro p val d clock time latch sample he hn
    have hr := hrec _ he
    have hd : d = .floating := hr.1.trans (nobody_floating z0.cfg p hn)
    refine ⟨hd, hr.2.2.2.2.2.2.1 hd, fun g => ?_⟩
    have hs := (hgood g).2.2 _ he
    exact ⟨hs.2.2.1, hs.2.1, hs.2.2.2⟩
  · intro z p hn
    have hk : z.ctl.kind = z0.ctl.kind := hkind
    have hc : z.cfg = z0.cfg := cfg_constant v n s z0
    have := unclaimed_read_value z p (by rw [hc]; exact hn)
    rw [hk] at this
    exact ⟨this.1, fun g => this.2 (hgood g).1⟩

/-! ### 4. keyboard reads -/

/-- **Every `IN` from an even port of every program is a keyboard read.** Each logged read of a port
with A0 = 0 was routed to the ULA and returned the machine's keyboard value for the selector on the high
address byte — the AND of the selected half-rows of its key matrices, bit 6 from the EAR input
(`Input.readUla`, of the input state `z0.kbd`, `z0.earIn`, which no program can change). If that input
state came from the event history `evs`, the value is the held-set spec's (Props/C17.lean): bit `b < 5`
reads 0 exactly when some source holds a key at bit `b` of a selected half-row, bit 6 is the EAR level,
bits 5 and 7 read 1. -/
theorem keyboard_read_every_program (v : Variant) (n : Nat) (s : Cpu) (z0 : ZX) :
    ∀ p val d clock time latch sample, IoEntry.rd p val d clock time latch sample ∈ log v n s z0 →
      Spec.selUla p = true →
      d = .ula ∧ val = Input.readUla z0.kbd (p.extractLsb' 8 8) z0.earIn ∧
      (∀ (ke mo : Bool) (evs : List Input.Event),
        z0.kbd = Input.run Input.Spec.sinclairMap (Input.Kbd.init ke mo) evs →
        let held := Input.Spec.Held.run {} evs
        val = Input.Spec.readUla held (p.extractLsb' 8 8) z0.earIn ∧
        val.getLsbD 6 = z0.earIn ∧ val.getLsbD 5 = true ∧ val.getLsbD 7 = true ∧
        (∀ b < 5, val.getLsbD b = !Input.Spec.bitLow held (p.extractLsb' 8 8) b)) := by
  intro p val d clock time latch sample he hu
  have hr := (after_facts v n s z0).2.2.2.1 _ he
  have hd : d = .ula := by
    rw [hr.1]
    have hu' : p &&& 0x0001 = 0 := of_decide_eq_true hu
    unfold readDecode
    simp only [Bool.false_eq_true, if_false]
    rw [if_pos hu']
  have hv := hr.2.1 hd
  refine ⟨hd, hv, ?_⟩
  intro ke mo evs hk held
  have e : val = Input.Spec.readUla held (p.extractLsb' 8 8) z0.earIn := by
    rw [hv, hk]; exact C17.keyboard_refines_held_sets ke mo evs _ _
  refine ⟨e, ?_, ?_, ?_, ?_⟩
  · rw [e, Input.Spec.readUla, C17.getLsbD_ofBits _ _ (by omega)]; simp [Input.Spec.readBit]
  · rw [e, Input.Spec.readUla, C17.getLsbD_ofBits _ _ (by omega)]
    simp [Input.Spec.readBit, Input.Spec.bitLow, Input.Spec.cellHeld, Input.Spec.keyAt]
  · rw [e, Input.Spec.readUla, C17.getLsbD_ofBits _ _ (by omega)]
    simp [Input.Spec.readBit, Input.Spec.bitLow, Input.Spec.cellHeld, Input.Spec.keyAt]
  · intro b hb
    rw [e, Input.Spec.readUla, C17.getLsbD_ofBits _ _ (by omega)]
    have : b ≠ 6 := by omega
    simp [Input.Spec.readBit, this]

/-! ### 5. the history is the program's -/

theorem run_add (v : Variant) {β : Type} [Bus β] (n m : Nat) (sb : Cpu × β) :
    Z80.run v (n + m) sb = Z80.run v m (Z80.run v n sb) := by
  induction n generalizing sb with
  | zero => simp [Z80.run]
  | succ n ih =>
    have : n + 1 + m = (n + m) + 1 := by omega
    rw [this]
    simp only [Z80.run]
    exact ih _

/-- **The log is a function of the run and of nothing else.** The ghost is never read back: (a) CPU
state and machine state of a run on the logging bus are those of the run on the plain machine bus;
(b) what was logged before has no influence — a run started with any earlier history `l0` logs `l0`
followed by exactly what it logs started with an empty log; (c) hence the log of `n + m` instructions
is the log of the first `n` followed by the log of the next `m` started from the CPU and machine state
the first `n` left behind; (d) runs from equal CPU and machine states log the same, whatever had been
logged before. -/
theorem log_is_function_of_run (v : Variant) (n : Nat) (s : Cpu) (z0 : ZX) :
    ((Z80.run v n (s, IoZX.start z0)).1 = (Z80.run v n (s, z0)).1 ∧
     (after v n s z0).zx = (Z80.run v n (s, z0)).2) ∧
    (∀ l0, (Z80.run v n (s, IoZX.mk z0 l0)).2.log = l0 ++ log v n s z0) ∧
    (∀ m, log v (n + m) s z0 =
      log v n s z0 ++ log v m (Z80.run v n (s, z0)).1 (Z80.run v n (s, z0)).2) ∧
    (∀ (x y : IoZX), x.zx = y.zx → ∃ d, (Z80.run v n (s, x)).2.log = x.log ++ d ∧
      (Z80.run v n (s, y)).2.log = y.log ++ d) := by
  have hb : ∀ (n : Nat) (s : Cpu) (z0 : ZX) (l0 : List IoEntry),
      (Z80.run v n (s, IoZX.mk z0 l0)).2.log = l0 ++ log v n s z0 := by
    intro n s z0 l0
    have h := (prefix_hom l0).run v n s (IoZX.start z0)
    have e : IoZX.withPrefix l0 (IoZX.start z0) = IoZX.mk z0 l0 := by
      show IoZX.mk z0 (l0 ++ []) = _
      rw [List.append_nil]
    rw [e] at h
    rw [h]; rfl
  refine ⟨machine_is_zx_run v n s z0, hb n s z0, ?_, ?_⟩
  · intro m
    show (Z80.run v (n + m) (s, IoZX.start z0)).2.log = _
    rw [run_add]
    obtain ⟨c1, c2⟩ := machine_is_zx_run v n s z0
    have e : Z80.run v n (s, IoZX.start z0) =
        ((Z80.run v n (s, z0)).1, IoZX.mk (Z80.run v n (s, z0)).2 (log v n s z0)) := by
      rw [← c1, ← c2]; rfl
    rw [e, hb]
  · intro x y hxy
    refine ⟨log v n s x.zx, ?_, ?_⟩
    · exact hb n s x.zx x.log
    · rw [hxy]; exact hb n s y.zx y.log

/-- **The log does not depend on the machine's other ghost histories.** The machine model keeps two
ghost histories of its own (`tlog`: timed bus operations, `wlog`: RAM stores; both newest first). Whatever
they contain at the start — `T`, `W` behind whatever `z0` has — the program logs the same port accesses:
the log depends on the CPU state and on the real state of the machine only. -/
theorem log_independent_of_machine_ghosts (v : Variant) (n : Nat) (s : Cpu) (z0 : ZX)
    (T : List (BitVec 8 × TOp)) (W : List (Nat × Nat × BitVec 8)) :
    log v n s (z0.withOlder T W) = log v n s z0 := by
  have h := (older_hom T W).run v n s (IoZX.start z0)
  show (Z80.run v n (s, IoZX.start (z0.withOlder T W))).2.log = _
  have e : IoZX.start (z0.withOlder T W) = IoZX.withOlder T W (IoZX.start z0) := rfl
  rw [e, h]; rfl

/-! ### Non-vacuity: a program that uses the ports -/

/-- `LD A,5 ; OUT (0xFE),A ; IN A,(0x1F) ; LD BC,0x7FFD ; LD A,0x13 ; OUT (C),A ; IN A,(0xFE) ; IN A,(0xFF)` —
border 5 through 0x05FE; a read of 0x051F (Kempston joystick, or nobody); 0x13 to the paging port; a
keyboard read through 0x13FE; a read of the unclaimed port 0xBFFF (eight instructions) -/
def prog : List (BitVec 8) :=
  [0x3E, 0x05, 0xD3, 0xFE, 0xDB, 0x1F, 0x01, 0xFD, 0x7F, 0x3E, 0x13, 0xED, 0x79, 0xDB, 0xFE, 0xDB, 0xFF]

/-- the power-on machine with the program at 0x8000 -/
def demo (k : Kind) (kempston mouse : Bool) : ZX := C18Sys.load (ZX.new k kempston mouse) 0x8000 prog

/-- storing a program through the CPU's own `write_internal` keeps the representation invariant -/
theorem load_good (z : ZX) (a : BitVec 16) (l : List (BitVec 8)) (g : C04Sys.Good z.ctl) :
    C04Sys.Good (C18Sys.load z a l).ctl := by
  induction l generalizing z a with
  | nil => exact g
  | cons b t ih => exact ih _ _ (C04Sys.writeInternal_good z.ctl a b g).1

/-- the hypotheses of the theorems are met at power-on with a program in memory -/
example (k : Kind) (ke mo : Bool) : C04Sys.Good (demo k ke mo).ctl ∧ C18Sys.AyPowerOn (demo k ke mo) :=
  ⟨load_good _ _ _ (C04Sys.good_new k), rfl, rfl⟩

/-- the bus at work (kernel evaluation of eight `emulate` calls) on a 128K with a Kempston joystick: the
log is the program's five port accesses with the devices the property names (ULA, joystick, paging
latch, ULA, floating bus), the byte written or returned and the T-state each port cycle started at (the
keyboard read saw the latch value 0x13 the program had just written); the machine's border is 5, its
latch 0x13, bank 3 and ROM 1 are paged in -/
example : let x := after .hw 8 { pc := 0x8000 } (demo .k128 true false)
    x.log = [.wr 0x05FE 0x05 .ula 14 14 0x00, .rd 0x051F 0x00 .kempston 25 25 0x00 28,
             .wr 0x7FFD 0x13 .paging 54 54 0x00, .rd 0x13FE 0xBF .ula 65 65 0x13 68,
             .rd 0xBFFF 0xFF .floating 76 76 0x13 79] ∧
    x.zx.border = 5 ∧ x.zx.ctl.port7ffd = 0x13 ∧ x.zx.ctl.mem.map 3 = .ram 3 ∧ x.zx.ctl.mem.map 0 = .rom 1 ∧
    ulaWrites x.log = [0x05] ∧ pagingWrites x.log = [0x13] ∧ ayOps x.log = [] := by
  decide +kernel

/-- the same program on a 48K without joystick: 0x051F and 0x7FFD are claimed by nobody — the read shows
the floating bus, the write reaches no device and the latch stays 0 -/
example : let x := after .hw 8 { pc := 0x8000 } (demo .k48 false false)
    x.log = [.wr 0x05FE 0x05 .ula 14 14 0x00, .rd 0x051F 0xFF .floating 25 25 0x00 28,
             .wr 0x7FFD 0x13 .none 54 54 0x00, .rd 0x13FE 0xBF .ula 65 65 0x00 68,
             .rd 0xBFFF 0xFF .floating 76 76 0x00 79] ∧
    x.zx.border = 5 ∧ x.zx.ctl.port7ffd = 0 ∧ pagingWrites x.log = [] := by
  decide +kernel

/-- with a Kempston mouse attached 0x051F (A0 = 1, A5 = 0, A8 = A10 = 1) is the mouse's Y register -/
example : (log .hw 3 { pc := 0x8000 } (demo .k128 false true)).getLast? =
    some (.rd 0x051F 0xFF .mouseY 25 25 0x00 28) := by
  decide +kernel

/-- the AY program of Props/C18Sys.lean (select register 8 through 0xFFFD, write 0x0F through 0xBFFD)
followed by `LD B,0xFF ; IN A,(C)` — read the register back through 0xFFFD -/
def progAy : List (BitVec 8) := C18Sys.prog 8 ++ [0x06, 0xFF, 0xED, 0x78]

/-- the AY ports at work: select, data write, and a read that returns what the two writes left in the
selected register; the AY port history inside the log is the C18 history of the program -/
example : let l := log .hw 8 { pc := 0x8000 } (C18Sys.load (ZX.new .k128 false false) 0x8000 progAy)
    l = [.wr 0xFFFD 0x08 .aySelect 25 25 0x00, .wr 0xBFFD 0x0F .ayData 51 51 0x00,
         .rd 0xFFFD 0x0F .ay 70 70 0x00 73] ∧
    ayOps l = [.select 0x08, .write 0x0F] ∧
    ((l.take 2).foldl DevState.step (devState (ZX.new .k128 false false))).ayReg = 8 := by
  decide +kernel

/-- `LD A,0xFF ; IN A,(0xFF)` — a read of the unclaimed port 0xFFFF -/
def progFb : List (BitVec 8) := [0x3E, 0xFF, 0xDB, 0xFF]

/-- a 48K whose frame clock stands `t` T-states into the frame, with 0xA5 in the first display-file byte
and 0x38 in the first attribute byte, and `progFb` at 0x8000 -/
def demoFb (t : Nat) : ZX :=
  C18Sys.load
    (C18Sys.load
      (C18Sys.load { ZX.new .k48 false false with ctl := { Ctl.new .k48 with frameClocks := t } } 0x4000 [0xA5])
      0x5800 [0x38])
    0x8000 progFb

/-- the floating bus inside the picture: the port cycle of the `IN` starts 14 T-states after the
instruction pair, its bus sample falls 3 T-states later; sampled at T-state 14338 (the first fetch slot of
the 48K) the unclaimed port shows the first display-file byte, one T-state later the first attribute
byte, four T-states later (ULA idle between fetches) 0xFF -/
example :
    log .hw 2 { pc := 0x8000 } (demoFb 14321) = [.rd 0xFFFF 0xA5 .floating 14335 14335 0x00 14338] ∧
    log .hw 2 { pc := 0x8000 } (demoFb 14322) = [.rd 0xFFFF 0x38 .floating 14336 14336 0x00 14339] ∧
    log .hw 2 { pc := 0x8000 } (demoFb 14325) = [.rd 0xFFFF 0xFF .floating 14339 14339 0x00 14342] ∧
    floatingBusAddr .k48 14338 = some 0x4000 ∧ floatingBusAddr .k48 14339 = some 0x5800 ∧
    floatingBusAddr .k48 14342 = none := by
  decide +kernel

/-- the theorems instantiated on the program: after the eight instructions, on either machine with any
controller configuration, border / EAR / MIC are those of the last ULA write of the log, and latch and
lock are the property's latch folded over the log's paging writes -/
example (k : Kind) (ke mo : Bool) :
    let z := (Z80.run .hw 8 ({ pc := 0x8000 }, demo k ke mo)).2
    let l := log .hw 8 { pc := 0x8000 } (demo k ke mo)
    (z.border, z.ear, z.mic) =
      (match (ulaWrites l).getLast? with
       | some w => (w &&& 0x07, decide (w &&& 0x10 ≠ 0), decide (w &&& 0x08 ≠ 0))
       | none => ((demo k ke mo).border, (demo k ke mo).ear, (demo k ke mo).mic)) ∧
    z.ctl.port7ffd = ((pagingWrites l).foldl Spec.Mem128.out7ffd (C06.abs (demo k ke mo).ctl)).latch :=
  ⟨border_is_last_ula_write .hw 8 { pc := 0x8000 } (demo k ke mo),
   (paging_map_is_fold .hw 8 { pc := 0x8000 } (demo k ke mo) (load_good _ _ _ (C04Sys.good_new k))).1⟩

end ZxVerif.C07Sys
