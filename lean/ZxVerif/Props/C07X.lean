/-
C07 — theorems over the port decode chains *translated from the Rust source on every run*
(tools/extract.py → ZxVerif/Extracted/Ports.lean): every `if` / `else if` of `read_io` and `write_io`
in controller.rs, in source order, as (guard, mask, value, device), evaluated as a decision list.
What the source text says now is, for all 65536 ports and all configurations, the model's
`readDecode` / `writeDecode` — so every theorem of Props/C07.lean is a theorem about the chains as
they stand in the source, restated here clause by clause.
-/
import ZxVerif.Extracted.Ports
import ZxVerif.Lemmas.PortDecode
set_option linter.unusedSimpArgs false
namespace ZxVerif.C07X
open ZxVerif.Machine

/-- The `if` / `else if` chain of `read_io` as extracted from controller.rs selects, for every
port and every configuration (machine, Kempston joystick, mouse, extender claim), the device the
model's `readDecode` selects. (Proved by normalising both decision lists; should the source be
reordered into an equivalent chain, by `bv_decide` over all ports.) -/
theorem read_chain_is_model (cfg : IoCfg) (p : BitVec 16) :
    Extracted.readDecode cfg p = readDecode cfg p := by
  first
    | (simp [Extracted.readDecode, Extracted.readChain, Extracted.readElse, Extracted.evalChain,
        Extracted.Guard.holds, readDecode, and_comm]; done)
    | (simp [Extracted.readDecode, Extracted.readChain, Extracted.readElse, Extracted.evalChain,
        Extracted.Guard.holds, readDecode]
       bv_decide)

/-- The chain of `write_io` as extracted from controller.rs (the 128K-only guard of the paging
branch included; no final `else` = nothing happens) selects, for every port and every configuration,
the device the model's `writeDecode` selects. -/
theorem write_chain_is_model (cfg : IoCfg) (p : BitVec 16) :
    Extracted.writeDecode cfg p = writeDecode cfg p := by
  first
    | (simp [Extracted.writeDecode, Extracted.writeChain, Extracted.writeElse, Extracted.evalChain,
        Extracted.Guard.holds, writeDecode, and_comm]; done)
    | (simp [Extracted.writeDecode, Extracted.writeChain, Extracted.writeElse, Extracted.evalChain,
        Extracted.Guard.holds, writeDecode]
       bv_decide)

/-! ### The theorems of Props/C07.lean, about the source's chains -/

/-- Reads, source chain: whenever a port selects exactly one device (or none), the chain in
controller.rs routes it to that device (floating bus when nobody claims it). -/
theorem read_routes_unique_src (cfg : IoCfg) (p : BitVec 16)
    (h : Spec.readExactlyOne cfg p = true ∨ Spec.readNobody cfg p = true) :
    Spec.readRouteOk cfg p (Extracted.readDecode cfg p) = true := by
  rw [read_chain_is_model]; exact C07.read_routes_unique cfg p h

/-- Writes, source chain: likewise for the five write-side devices; a port nobody claims has no effect. -/
theorem write_routes_unique_src (cfg : IoCfg) (p : BitVec 16)
    (h : Spec.writeExactlyOne cfg p = true ∨ Spec.writeNobody cfg p = true) :
    Spec.writeRouteOk cfg p (Extracted.writeDecode cfg p) = true := by
  rw [write_chain_is_model]; exact C07.write_routes_unique cfg p h

/-- Source chain: when exactly one device is selected, any device the property would accept is the
one the chain picks (up to the choice of mouse register). -/
theorem read_no_other_src (cfg : IoCfg) (p : BitVec 16) (d : ReadDev)
    (h : Spec.readExactlyOne cfg p = true) (hd : Spec.readRouteOk cfg p d = true) :
    (d = .mouseButtons ∨ d = .mouseX ∨ d = .mouseY) ∧
      (Extracted.readDecode cfg p = .mouseButtons ∨ Extracted.readDecode cfg p = .mouseX ∨
        Extracted.readDecode cfg p = .mouseY)
    ∨ d = Extracted.readDecode cfg p := by
  rw [read_chain_is_model]; exact C07.read_no_other cfg p d h hd

/-- Extender first, source chains: the host extender receives exactly the ports it claims, on reads
and on writes, whatever else the address would select. -/
theorem extender_first_src (cfg : IoCfg) (p : BitVec 16) :
    (Extracted.readDecode cfg p = .extender ↔ cfg.extender = true) ∧
    (Extracted.writeDecode cfg p = .extender ↔ cfg.extender = true) := by
  rw [read_chain_is_model, write_chain_is_model]; exact C07.extender_exact cfg p

/-- The canonical addresses of the property decode as named — evaluated on the extracted chains
themselves (0xFADF/0xFBDF/0xFFDF mouse, 0x1F joystick, 0xFFFD/0xBFFD AY, 0x7FFD paging on the 128K
and nothing on the 48K, 0xFE ULA). -/
theorem canonical_addresses_src :
    Extracted.readDecode ⟨.k128, true, true, false⟩ 0xFADF = .mouseButtons ∧
    Extracted.readDecode ⟨.k128, true, true, false⟩ 0xFBDF = .mouseX ∧
    Extracted.readDecode ⟨.k128, true, true, false⟩ 0xFFDF = .mouseY ∧
    Extracted.readDecode ⟨.k128, true, false, false⟩ 0x001F = .kempston ∧
    Extracted.readDecode ⟨.k128, false, false, false⟩ 0xFFFD = .ay ∧
    Extracted.readDecode ⟨.k48, false, false, false⟩ 0x00FE = .ula ∧
    Extracted.readDecode ⟨.k48, false, false, false⟩ 0x00FF = .floating ∧
    Extracted.writeDecode ⟨.k128, false, false, false⟩ 0xFFFD = .aySelect ∧
    Extracted.writeDecode ⟨.k128, false, false, false⟩ 0xBFFD = .ayData ∧
    Extracted.writeDecode ⟨.k128, false, false, false⟩ 0x7FFD = .paging ∧
    Extracted.writeDecode ⟨.k48, false, false, false⟩ 0x7FFD = .none ∧
    Extracted.writeDecode ⟨.k48, false, false, false⟩ 0x00FE = .ula := by decide

/-! ### The clauses of the property, one by one, about the source's chains -/

/-- ULA, source chains: with no extender claim every even port (A0 = 0) reads the ULA — and only
even ports do; a write reaches the ULA exactly on the even ports that are not AY addresses. -/
theorem ula_even_ports_src (cfg : IoCfg) (p : BitVec 16) (h : cfg.extender = false) :
    (Extracted.readDecode cfg p = .ula ↔ p &&& 0x0001 = 0) ∧
    (Extracted.writeDecode cfg p = .ula ↔
      (p &&& 0x0001 = 0 ∧ ¬ p &&& 0xC002 = 0xC000 ∧ ¬ p &&& 0xC002 = 0x8000)) := by
  rw [read_chain_is_model, write_chain_is_model]
  have r := (C07L.read_priority cfg p).2.1
  have w := (C07L.write_priority cfg p).2.2.2.1
  simp [h, Spec.selUla, Spec.selAySelect, Spec.selAyData] at r w
  exact ⟨r, by rw [w]; exact ⟨fun ⟨⟨b, c⟩, a⟩ => ⟨a, b, c⟩, fun ⟨a, b, c⟩ => ⟨⟨b, c⟩, a⟩⟩⟩

/-- AY masks, source chains: with no extender claim a write selects an AY register exactly when
`port & 0xC002 = 0xC000` and writes AY data exactly when `port & 0xC002 = 0x8000`; a read that
reaches the AY has `port & 0xC002 = 0xC000`, and every odd such port does unless the mouse claims it. -/
theorem ay_masks_src (cfg : IoCfg) (p : BitVec 16) (h : cfg.extender = false) :
    (Extracted.writeDecode cfg p = .aySelect ↔ p &&& 0xC002 = 0xC000) ∧
    (Extracted.writeDecode cfg p = .ayData ↔ p &&& 0xC002 = 0x8000) ∧
    (Extracted.readDecode cfg p = .ay ↔
      (p &&& 0xC002 = 0xC000 ∧ ¬ p &&& 0x0001 = 0 ∧ Spec.selMouse cfg p = false)) := by
  rw [read_chain_is_model, write_chain_is_model]
  have r := (C07L.read_priority cfg p).2.2.2.1
  have w1 := (C07L.write_priority cfg p).2.1
  have w2 := (C07L.write_priority cfg p).2.2.1
  simp [h, Spec.selUla, Spec.selAySelect, Spec.selAyData] at r w1 w2
  refine ⟨w1, w2, ?_⟩
  rw [r]; constructor
  · intro ⟨⟨a, b⟩, c⟩; exact ⟨c, a, b⟩
  · intro ⟨c, a, b⟩; exact ⟨⟨a, b⟩, c⟩

/-- 0x7FFD, source chain: the paging latch is written only on the 128K, and there exactly on the odd
ports with A15 = A1 = 0 that no extender claims; on a 48K machine no port reaches it. -/
theorem paging_decode_src (cfg : IoCfg) (p : BitVec 16) :
    (Extracted.writeDecode cfg p = .paging ↔
      (cfg.kind = .k128 ∧ cfg.extender = false ∧ p &&& 0x8002 = 0 ∧ ¬ p &&& 0x0001 = 0)) ∧
    (Extracted.writeDecode cfg p = .paging → cfg.kind = .k128) := by
  rw [write_chain_is_model]
  refine ⟨?_, C07.paging_only_128 cfg p⟩
  have w := (C07L.write_priority cfg p).2.2.2.2.1
  rw [w]
  obtain ⟨k, ke, mo, ex⟩ := cfg
  cases k <;> cases ex <;> simp [Spec.selUla, Spec.selPaging, Kind.is128, and_comm]

/-- Kempston joystick and mouse, source chain: neither is ever selected unless it is enabled; an
enabled mouse answers every odd port with A5 = 0 the ULA and extender leave (buttons with A8 = 0, X with
(A8, A10) = (1, 0), Y with (1, 1)); an enabled joystick answers `port & 0x00E0 = 0` when nothing before
it in the chain does. -/
theorem kempston_mouse_only_enabled_src (cfg : IoCfg) (p : BitVec 16) :
    (Extracted.readDecode cfg p = .kempston → cfg.kempston = true ∧ p &&& 0x00E0 = 0) ∧
    ((Extracted.readDecode cfg p = .mouseButtons ∨ Extracted.readDecode cfg p = .mouseX ∨
        Extracted.readDecode cfg p = .mouseY) ↔
      (cfg.extender = false ∧ cfg.mouse = true ∧ p &&& 0x0021 = 0x0001)) ∧
    (Extracted.readDecode cfg p = .mouseButtons → p &&& 0x0100 = 0) ∧
    (Extracted.readDecode cfg p = .mouseX → p &&& 0x0500 = 0x0100) ∧
    (Extracted.readDecode cfg p = .mouseY → p &&& 0x0500 = 0x0500) := by
  rw [read_chain_is_model]
  have k := (C07L.read_priority cfg p).2.2.2.2.1
  have m := (C07L.read_priority cfg p).2.2.1
  refine ⟨?_, ?_, C07L.read_mouse_register cfg p⟩
  · intro hk
    have := k.mp hk
    simp [Spec.selKempston] at this
    exact this.2
  · rw [m]
    unfold Spec.selUla Spec.selMouse
    obtain ⟨kd, ke, mo, ex⟩ := cfg
    cases ex <;> cases mo <;> simp <;> bv_decide

/-- Floating bus otherwise, source chains: a read shows the floating bus exactly when none of
extender, ULA, mouse, AY, joystick claims the port; a write does nothing exactly when none of
extender, ULA, AY select, AY data, paging latch claims it. -/
theorem floating_otherwise_src (cfg : IoCfg) (p : BitVec 16) :
    (Extracted.readDecode cfg p = .floating ↔ Spec.readNobody cfg p = true) ∧
    (Extracted.writeDecode cfg p = .none ↔ Spec.writeNobody cfg p = true) := by
  rw [read_chain_is_model, write_chain_is_model]
  exact ⟨(C07L.read_priority cfg p).2.2.2.2.2, (C07L.write_priority cfg p).2.2.2.2.2⟩

end ZxVerif.C07X
