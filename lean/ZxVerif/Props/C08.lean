/-
C08 — the displayed picture is the standard decode of the ULA-visible screen memory.

Only property theorems live here (helper lemmas: ZxVerif/Lemmas/Video*.lean).
Model : ZxVerif/Model/Video.lean (transcription of utils/screen.rs, video/{screen,colors}.rs,
        memory.rs and the video-feeding parts of controller.rs, emulator/mod.rs, screenshot/scr.rs)
Spec  : ZxVerif/Spec/Video.lean (`stdDecode`, flash phase, visible bank, beam margins)
Quantifiers are Lean-universal: all screen contents, all operation lists, all clock schedules,
both machines, both 128K screens; nothing is bounded except the two address tables, which are
finite and checked completely by kernel evaluation.
-/
import ZxVerif.Lemmas.VideoFrame
namespace ZxVerif.C08
open ZxVerif.Video

/-- **Address decode.** For every pixel line `y < 192` and character column `col < 32` the
property's offset formula lands in the display file, the code's `bitmap_line_rel`/`bitmap_col_rel`
recover `(y, col)` from it, the code's `bitmap_line_addr` produces it, and the attribute helpers
recover `(y / 8, col)` from the property's attribute offset. -/
theorem addr_decode_inverse (y col : Nat) (hy : y < 192) (hc : col < 32) :
    Spec.bitmapOffset (8 * col) y < 0x1800 ∧
    bitmapLineRel (BitVec.ofNat 16 (Spec.bitmapOffset (8 * col) y)) = y ∧
    bitmapColRel (BitVec.ofNat 16 (Spec.bitmapOffset (8 * col) y)) = col ∧
    (bitmapLineAddr y).toNat + col = 0x4000 + Spec.bitmapOffset (8 * col) y ∧
    attrRowRel (BitVec.ofNat 16 (Spec.attrOffset (8 * col) y)) = y / 8 ∧
    attrColRel (BitVec.ofNat 16 (Spec.attrOffset (8 * col) y)) = col := by
  obtain ⟨d1, d2, d3, d4⟩ := decode_encode y col hy hc
  have ha : Spec.attrOffset (8 * col) y = 0x1800 + (y / 8) * 32 + col := by
    have := attrOffset_col col 0 y (by omega)
    rw [show col * 8 + 0 = 8 * col by omega] at this
    exact this
  refine ⟨d3, d1, d2, d4, ?_, ?_⟩
  · unfold attrRowRel
    rw [ha, ofNat16_toNat _ (by omega)]
    omega
  · unfold attrColRel
    rw [ha, ofNat16_toNat _ (by omega)]
    omega

/-- … and the other way round: every display-file address `a < 0x1800` is the offset of the
`(line, column)` the code decodes it to, so the 6144 shadow cells and the 6144 display bytes
correspond one to one. -/
theorem addr_encode_inverse (a : Nat) (ha : a < 0x1800) :
    bitmapLineRel (BitVec.ofNat 16 a) < 192 ∧ bitmapColRel (BitVec.ofNat 16 a) < 32 ∧
    Spec.bitmapOffset (8 * bitmapColRel (BitVec.ofNat 16 a)) (bitmapLineRel (BitVec.ofNat 16 a)) = a := by
  obtain ⟨e, l, c⟩ := encode_decode a ha
  exact ⟨l, c, e⟩

/-- **Render invariant.** For every schedule of screen events within a frame whose clock never
runs backwards (`process_clocks` calls interleaved with any `update`s and bank switches): every
8x1 block `b` the beam has passed since the start of the schedule was painted by exactly one
`process_clocks` call, and its eight pixels are the standard decode of the shadow bank that was
active at that moment, with the bytes it held at that moment. -/
theorem render_invariant : ∀ (evs : List SEv) (s : Screen) (lo : Nat), s.WF →
    s.last.le (Blocks.fromClocks s.machine lo) → Monotone lo evs →
    ∀ b, s.last.idx ≤ b → b < (s.srun evs).last.idx →
    ∃ pre c post, evs = pre ++ SEv.clock c :: post ∧
      (s.srun pre).last.idx ≤ b ∧ b < ((s.srun pre).processClocks c).last.idx ∧
      ∀ px d, px < 8 → (s.srun evs).back.getD (b * 8 + px) d =
        Spec.stdPx ((s.srun pre).bank (s.srun pre).active).mem (s.srun pre).flash
          ((b * 8 + px) % 256) ((b * 8 + px) / 256) := by
  intro evs
  induction evs with
  | nil => intro s lo _ _ _ b h1 h2; exact absurd h2 (by simp only [Screen.srun, List.foldl_nil]; omega)
  | cons e r ih =>
    intro s lo hwf hb hm b h1 h2
    obtain ⟨w, m1, b1, l1, k1⟩ := sstep_inv s hwf lo hb e hm.head
    have hb1 : (s.sstep e).last.le (Blocks.fromClocks (s.sstep e).machine (e.nextLo lo)) := by rw [m1]; exact b1
    by_cases hdrawn : b < (s.sstep e).last.idx
    · -- painted by this very event, which must be a clock event
      cases e with
      | clock c =>
        refine ⟨[], c, r, rfl, h1, hdrawn, ?_⟩
        intro px d hpx
        obtain ⟨_, _, k3⟩ := srun_inv r (s.processClocks c) c w hb1 hm.tail
        have hle : s.last.le (Blocks.fromClocks s.machine c) :=
          Blocks.le_trans hb (fromClocks_mono _ _ _ hm.1)
        obtain ⟨p1, _, _, _, _, _, _, _, _, _, p11⟩ := processClocks_spec s hwf c hle
        have htot := Blocks.idx_le_total (fromClocks_norm s.machine c)
        have hd : b < (s.processClocks c).last.idx := hdrawn
        show ((s.processClocks c).srun r).back.getD (b * 8 + px) d = _
        rw [k3 _ d (by omega), p11, if_pos ⟨by omega, by rw [← p1]; omega⟩]
        exact renderPixel_std_lin _ _ _ (by rw [p1] at hd; omega)
      | update rr bb dd =>
        have : (s.update rr bb dd).last = s.last := (update_wf_any s hwf rr bb dd).2.1
        have hd : b < (s.update rr bb dd).last.idx := hdrawn
        rw [this] at hd
        omega
      | switch bb =>
        have : (s.switchBank bb).last = s.last := (switchBank_fields s hwf bb).2.1
        have hd : b < (s.switchBank bb).last.idx := hdrawn
        rw [this] at hd
        omega
    · obtain ⟨pre, c, post, he, q1, q2, q3⟩ := ih (s.sstep e) (e.nextLo lo) w hb1 hm.tail b (by omega) h2
      exact ⟨e :: pre, c, post, by rw [he]; rfl, q1, q2, q3⟩

/-- **A frame is the decode.** Start of a frame (nothing rendered yet), screen cache coherent;
only time passes — by *any* partition of the frame into waits — until the frame ends. Then one
frame has been completed and the canvas handed to the host is, pixel for pixel, the standard
decode of the RAM bank the ULA displays (bank 5, or bank 7 while latch bit 3 is set; 48K: the RAM
at 0x4000) with the flash phase of that frame — for all memory contents. -/
theorem frame_is_decode (c : Ctl) (hwf : c.WF) (hcoh : c.Coherent) (hstart : c.screen.last = ⟨0, 0⟩)
    (ws : List Nat) (w : Nat) (hin : c.frameClocks + ws.sum < c.machine.clocksFrame)
    (hend : c.machine.clocksFrame ≤ c.frameClocks + ws.sum + w) (x y : Nat) (hx : x < 256) (hy : y < 192) (d : Px) :
    ((ws.foldl Ctl.waitInternal c).waitInternal w).passedFrames = c.passedFrames + 1 ∧
    ((ws.foldl Ctl.waitInternal c).waitInternal w).screen.front.getD (y * 256 + x) d =
      Spec.stdPx (fun off => c.mem.ramByte (Spec.visibleBank c.machine c.port7ffd) off) c.screen.flash x y := by
  have hbeam : c.screen.last.le (Blocks.fromClocks c.machine c.frameClocks) := by
    rw [hstart]
    unfold Blocks.le
    dsimp only
    omega
  obtain ⟨f1, f2⟩ := frame_rest c hwf hcoh hbeam ws w hin hend
  refine ⟨f1, ?_⟩
  have h0 : (⟨0, 0⟩ : Blocks).idx * 8 = 0 := by decide
  rw [f2 (y * 256 + x) d (by omega), hstart, h0, if_neg (by omega)]
  have e1 : (y * 256 + x) % 256 = x := by omega
  have e2 : (y * 256 + x) / 256 = y := by omega
  rw [e1, e2]
  rfl

/-- **Cache coherence, repaired model.** With a poke that refreshes the cache
(proposed_fixes/C08-1.diff), after *every* list of operations — CPU write cycles through any
window, fast-load writes, paging, port writes, SCR and snapshot loads, pokes, time passing — both
shadow banks equal the first 6912 bytes of their RAM banks (5 and 7; 48K: page 0). -/
theorem cache_coherent_fixed (m : Machine) (ops : List Op) : ((Ctl.new m).run true ops).Coherent :=
  (run_good true ops _ (Ctl.new_wf m) (Ctl.new_coherent m) (Or.inl rfl)).2

/-- **Cache coherence, the code as it is**: the same for every operation list in which no poke
hits screen memory. (Without that hypothesis the statement is false: `cache_coherent_violates`.) -/
theorem cache_coherent_partial (m : Machine) (ops : List Op) (h : NoScreenPoke ops) :
    ((Ctl.new m).run false ops).Coherent :=
  (run_good false ops _ (Ctl.new_wf m) (Ctl.new_coherent m) (Or.inr h)).2

/-- … and it does fail: after `execute_poke` of 0x4000 <- 0xFF the RAM holds 0xFF but the
shadow bank still holds 0x00 (known finding `C08/stable-frame/stale-writer=poke`). -/
theorem cache_coherent_violates : ¬ ((Ctl.new .k48).run false [.poke 0x4000 0xFF]).Coherent := by
  intro h
  have := h 0 false rfl 0 (by decide)
  have hl : (((Ctl.new .k48).run false [.poke 0x4000 0xFF]).screen.bank false).mem 0 = 0 := by
    show Bank.empty.mem 0 = 0
    unfold Bank.mem Bank.empty
    rw [if_pos (by decide)]
    simp only [getD_replicate]
    split <;> rfl
  have hr : ((Ctl.new .k48).run false [.poke 0x4000 0xFF]).mem.ramByte 0 0 = 0xFF := by
    show ((Mem.new .k48).forceWrite 0x4000 0xFF).ramByte 0 0 = 0xFF
    have hp : (Mem.new .k48).getPage 0x4000 = .ram 0 := by decide
    rw [Mem.ramByte_forceWrite_ram _ _ _ 0 0 0 hp (by simp [Mem.new]) (by decide)]
    decide
  rw [hl, hr] at this
  exact absurd this (by decide)

/-- **Flash period.** After any list of operations of either model variant the flash phase is a
function of the number of completed frames alone: `((n + 15) / 16) mod 2` — it swaps every 16
frames, whatever else happens (an instance of the spec's `∃ k, phase n = ((n + k) / 16) mod 2`). -/
theorem flash_period (fixed : Bool) (m : Machine) (ops : List Op) (h : fixed = true ∨ NoScreenPoke ops) :
    ((Ctl.new m).run fixed ops).screen.flash =
      Spec.phaseAt Spec.codePhaseOrigin ((Ctl.new m).run fixed ops).passedFrames := by
  have w := (run_good fixed ops _ (Ctl.new_wf m) (Ctl.new_coherent m) h).1
  rw [w.flashInv, w.counter]

/-- **Bank select.** After any list of operations the shadow bank being rendered is the cache of
the RAM bank the property names (bank 5, or 7 while latch bit 3 is set; 48K: page 0); and while
paging is not locked a write of `v` to the latch makes bit 3 of `v` decide. -/
theorem bank_select (fixed : Bool) (m : Machine) (ops : List Op) (h : fixed = true ∨ NoScreenPoke ops) :
    let c := (Ctl.new m).run fixed ops
    localBank c.machine (Spec.visibleBank c.machine c.port7ffd) = some c.screen.active ∧
    (∀ off, off < 0x1B00 → (c.screen.bank c.screen.active).mem off
        = c.mem.ramByte (Spec.visibleBank c.machine c.port7ffd) off) ∧
    (c.pagingEnabled = true → ∀ v, (c.write7ffd v).port7ffd = v ∧ (c.write7ffd v).screen.active = v.getLsbD 3) := by
  obtain ⟨w, k⟩ := run_good fixed ops _ (Ctl.new_wf m) (Ctl.new_coherent m) h
  refine ⟨localBank_visible _ w, fun off hoff => active_mem _ w k off hoff, ?_⟩
  intro hp v
  generalize (Ctl.new m).run fixed ops = c at *
  have hm : c.machine = .k128 := by
    cases hmm : c.machine with
    | k48 => rw [w.paging48 hmm] at hp; cases hp
    | k128 => rfl
  unfold Ctl.write7ffd
  simp only [hp, Bool.not_true, Bool.false_eq_true, if_false]
  rw [latch_bit3, switchBank_k128 _ (w.mach.trans hm)]
  exact ⟨trivial, rfl⟩

/-- **Before / after the beam.** A byte is written (`write_internal`) while a frame is in progress
and then only time passes until the frame ends. For every pixel (x, y): if the write happened at
least 8 T-states before the ULA reaches the pixel's character cell on line y, the delivered frame
shows the standard decode of the memory *with* the new byte; if it happened at least 8 T-states
after (and the render cursor is level with the clock, as it is after every wait), the delivered
frame shows what had been drawn before the write — the new byte then appears in the next frame
by `frame_is_decode`. -/
theorem beam_before_after (c : Ctl) (hwf : c.WF) (hcoh : c.Coherent)
    (hbeam : c.screen.last.le (Blocks.fromClocks c.machine c.frameClocks))
    (a : BitVec 16) (v : BitVec 8) (ws : List Nat) (w : Nat)
    (hin : c.frameClocks + ws.sum < c.machine.clocksFrame)
    (hend : c.machine.clocksFrame ≤ c.frameClocks + ws.sum + w)
    (x y : Nat) (hx : x < 256) (hy : y < 192) (d : Px) :
    let c1 := c.writeInternal a v
    let c' := (ws.foldl Ctl.waitInternal c1).waitInternal w
    (Spec.clearlyBefore c.machine c.frameClocks y (x / 8) = true →
      c'.screen.front.getD (y * 256 + x) d =
        Spec.stdPx (fun off => c1.mem.ramByte (Spec.visibleBank c.machine c.port7ffd) off) c.screen.flash x y) ∧
    (Spec.clearlyAfter c.machine c.frameClocks y (x / 8) = true →
      c.screen.last.idx = (Blocks.fromClocks c.machine c.frameClocks).idx →
      c'.screen.front.getD (y * 256 + x) d = c.screen.back.getD (y * 256 + x) d) := by
  intro c1 c'
  obtain ⟨w1, k1⟩ := writeInternal_good c hwf hcoh a v
  -- what `write_internal` leaves alone
  have hfc : c1.frameClocks = c.frameClocks := by
    show (c.writeInternal a v).frameClocks = _
    unfold Ctl.writeInternal; simp only; split <;> rfl
  have hmach : c1.machine = c.machine := by
    show (c.writeInternal a v).machine = _
    unfold Ctl.writeInternal; simp only; split <;> rfl
  have hport : c1.port7ffd = c.port7ffd := by
    show (c.writeInternal a v).port7ffd = _
    unfold Ctl.writeInternal; simp only; split <;> rfl
  have hscr : c1.screen.last = c.screen.last ∧ c1.screen.back = c.screen.back ∧ c1.screen.flash = c.screen.flash := by
    show (c.writeInternal a v).screen.last = _ ∧ (c.writeInternal a v).screen.back = _ ∧ (c.writeInternal a v).screen.flash = _
    unfold Ctl.writeInternal
    simp only
    split
    · rename_i bank _
      cases hl : localBank c.screen.machine bank with
      | none => rw [update_none _ _ _ _ hl]; exact ⟨rfl, rfl, rfl⟩
      | some lb =>
        obtain ⟨_, _, _, _, u5, u6, _, u8, _, _⟩ :=
          update_spec c.screen hwf.screen (a.toNat % pageSize) bank lb v (by unfold pageSize; omega) hl
        exact ⟨u6, u5, u8⟩
    · exact ⟨rfl, rfl, rfl⟩
  have hbeam1 : c1.screen.last.le (Blocks.fromClocks c1.machine c1.frameClocks) := by
    rw [hscr.1, hmach, hfc]; exact hbeam
  obtain ⟨_, f2⟩ := frame_rest c1 w1 k1 hbeam1 ws w (by rw [hfc, hmach]; exact hin) (by rw [hfc, hmach]; exact hend)
  have hpix := f2 (y * 256 + x) d (by omega)
  have e1 : (y * 256 + x) % 256 = x := by omega
  have e2 : (y * 256 + x) / 256 = y := by omega
  have hblock : (y * 256 + x) < c.screen.last.idx * 8 ↔ y * 32 + x / 8 < c.screen.last.idx := by omega
  rw [hscr.1, hscr.2.1, hscr.2.2, e1, e2] at hpix
  constructor
  · intro hbefore
    have hb : c.frameClocks + 8 ≤ Spec.fetchClock c.machine y (x / 8) := by
      simpa [Spec.clearlyBefore] using hbefore
    have hidx := Blocks.idx_le_of_le hwf.screen.lastNorm.c hbeam
    have := fromClocks_before c.machine c.frameClocks y (x / 8) hy (by omega) (by
      unfold Spec.fetchClock at hb
      cases hm : c.machine <;> rw [hm] at hb <;> simp only [Machine.firstPixel, Machine.clocksLine, Machine.ulaReadOrigin] at * <;> omega)
    show c'.screen.front.getD _ d = _
    rw [hpix, if_neg (by omega)]
    show Spec.stdPx c1.visibleMem _ _ _ = _
    unfold Ctl.visibleMem
    rw [hmach, hport]
  · intro hafter hsync
    have ha : Spec.fetchClock c.machine y (x / 8) + 8 ≤ c.frameClocks := by
      simpa [Spec.clearlyAfter] using hafter
    have := fromClocks_after c.machine c.frameClocks y (x / 8) hy (by omega) (by
      unfold Spec.fetchClock at ha
      cases hm : c.machine <;> rw [hm] at ha <;> simp only [Machine.firstPixel, Machine.clocksLine, Machine.ulaReadOrigin] at * <;> omega)
    show c'.screen.front.getD _ d = _
    rw [hpix, if_pos (by omega)]

/-- **Before / after the beam, pokes.** `execute_poke` (repaired: `ZXController::force_write`) of
a RAM address is a `write_internal` at the current beam position — no clock passes and nothing is
rendered on its behalf — so `beam_before_after` holds for it word for word: a poke at least 8 T
before the fetch shows in the frame in progress, a poke at least 8 T after it leaves that frame as
drawn (the canvas must have been rendered up to the clock *before* the poke, which is what
`wait_internal` guarantees after every wait). -/
theorem beam_before_after_poke (c : Ctl) (hwf : c.WF) (hcoh : c.Coherent)
    (hbeam : c.screen.last.le (Blocks.fromClocks c.machine c.frameClocks))
    (a : BitVec 16) (v : BitVec 8) (p : Nat) (hp : c.mem.getPage a = .ram p) (ws : List Nat) (w : Nat)
    (hin : c.frameClocks + ws.sum < c.machine.clocksFrame)
    (hend : c.machine.clocksFrame ≤ c.frameClocks + ws.sum + w)
    (x y : Nat) (hx : x < 256) (hy : y < 192) (d : Px) :
    let c1 := c.poke true a v
    let c' := (ws.foldl Ctl.waitInternal c1).waitInternal w
    (Spec.clearlyBefore c.machine c.frameClocks y (x / 8) = true →
      c'.screen.front.getD (y * 256 + x) d =
        Spec.stdPx (fun off => c1.mem.ramByte (Spec.visibleBank c.machine c.port7ffd) off) c.screen.flash x y) ∧
    (Spec.clearlyAfter c.machine c.frameClocks y (x / 8) = true →
      c.screen.last.idx = (Blocks.fromClocks c.machine c.frameClocks).idx →
      c'.screen.front.getD (y * 256 + x) d = c.screen.back.getD (y * 256 + x) d) := by
  rw [poke_fixed_ram c a v p hp]
  exact beam_before_after c hwf hcoh hbeam a v ws w hin hend x y hx hy d

/-- after every wait that stays inside the frame the render cursor is level with the clock — the
hypothesis of the "after" halves above -/
theorem wait_syncs (c : Ctl) (hwf : c.WF) (hbeam : c.screen.last.le (Blocks.fromClocks c.machine c.frameClocks))
    (clk : Nat) (hin : c.frameClocks + clk < c.machine.clocksFrame) :
    (c.waitInternal clk).screen.last.idx =
      (Blocks.fromClocks (c.waitInternal clk).machine (c.waitInternal clk).frameClocks).idx := by
  have hle : c.screen.last.le (Blocks.fromClocks c.screen.machine (c.frameClocks + clk)) := by
    rw [hwf.mach]
    exact Blocks.le_trans hbeam (fromClocks_mono _ _ _ (by omega))
  obtain ⟨p1, _⟩ := processClocks_spec c.screen hwf.screen (c.frameClocks + clk) hle
  rw [waitInternal_eq, if_neg (by omega)]
  show (c.screen.processClocks (c.frameClocks + clk)).last.idx = (Blocks.fromClocks c.machine (c.frameClocks + clk)).idx
  rw [p1, hwf.mach]

/-! Non-vacuity: concrete states on which the statements say something. -/

/-- a coherent, well-formed 128K state with the shadow screen displayed and visible content -/
example : let c := (Ctl.new .k128).run false [.out 0x7FFD 0x0F, .cpuWrite 0xC000 0xFF 3, .cpuWrite 0xD800 0x47 3]
    c.WF ∧ c.Coherent ∧ NoScreenPoke [.out 0x7FFD 0x0F, .cpuWrite 0xC000 0xFF 3, .cpuWrite 0xD800 0x47 3] := by
  refine ⟨(run_good false _ _ (Ctl.new_wf _) (Ctl.new_coherent _) (Or.inr ?_)).1,
    (run_good false _ _ (Ctl.new_wf _) (Ctl.new_coherent _) (Or.inr ?_)).2, ?_⟩ <;>
  · intro a v hm
    simp at hm

/-- the standard decode of "display byte 0xFF, attribute 0x47" is bright white ink -/
example : Spec.stdDecode (fun off => if off = 0 then 0xFF else if off = 0x1800 then 0x47 else 0) false 3 0 = (7, true) := by
  decide

/-- a monotone schedule with a write between two beam positions -/
example : Monotone 0 [.clock 14338, .update 0x0001 0 0xFF, .clock 14346, .switch 0, .clock 20000] := by
  simp [Monotone]

/-- the spec's flash relation accepts the code's alignment and rejects a 32-frame period -/
example : Spec.flashOk [(0, false), (1, true), (16, true), (17, false), (33, true)] = true ∧
    Spec.flashOk [(0, false), (1, true), (16, true), (17, true), (33, false)] = false := by decide

end ZxVerif.C08
