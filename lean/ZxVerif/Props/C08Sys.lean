/-
C08 (system level) — the C08 statements for *every program*.

Props/C08.lean quantifies over lists of controller operations. Here the operations are the ones a
Z80 program performs: `Z80.emulate` runs on the bus `VBus` (Lemmas/VideoBus.lean), whose
primitives are exactly the `Video.Ctl` operations of the C08 model (`wait_internal`, `wait_mreq`,
`write_internal`, `write_io`, … — `VBus.ctl_*`), and the closure theorem `Z80.BusClosedB.run`
(Lemmas/Z80Closed.lean) carries the C08 invariants through every instruction — all opcode pages,
interrupt acceptance, port reads with arbitrary input values (`inp`), paging writes, both machines,
both decoder variants, any CPU state, any run length. Waits are bounded (`BusClosedB 7`: the CPU
never asks for more than 7 clocks at once, contention adds at most 6), which is what keeps the
clock inside the frame and the renderer level with it across frame ends.

Ghost fields of `VBus` used in the statements (they record, nothing reads them): `anchor` = the
controller right after the last *touching* event of the frame in progress — a CPU store into the
6912 displayed bytes (`Ctl.hitsDisplayed`) or a port write that switched the displayed bank — or
right after the `wait_internal` that started the frame if there was none; `touches` counts those
events; `doneAnchor`/`doneTouches` are their final values for the frame completed last.
-/
import ZxVerif.Lemmas.VideoBusScreen
import ZxVerif.Lemmas.VideoBusIdle
import ZxVerif.Lemmas.Z80Closed
import ZxVerif.Props.C08
namespace ZxVerif.C08Sys
open ZxVerif.Z80 ZxVerif.Video

/-- the C08 invariants of the bus state (`SGood`: well-formedness, cache coherence, clock inside
the frame, render cursor level with the clock, frame-in-progress and last-frame records) carry over -/
def Keeps (m : Machine) (z z' : VBus) : Prop := SGood m z → SGood m z'

/-- every primitive bus operation keeps them, the timed ones for at most 7 clocks per call -/
theorem keeps_closed (m : Machine) : BusClosedB 7 (Keeps m) where
  big := Nat.le_refl 7
  refl _ := id
  trans h1 h2 := fun h => h2 (h1 h)
  waitMreq a k _ hk := fun h => h.waitMreq a k (by omega)
  waitNoMreq a k _ hk := fun h => h.waitMreq a k (by omega)
  waitInternal k _ hk := fun h => h.wait k (by omega)
  readInternal _ _ := id
  writeInternal a v _ := fun h => h.store a v
  readIo p _ := fun h => h.readIo p
  writeIo p v _ := fun h => h.writeIo p v
  readInterrupt _ := id
  reti _ := id
  halt _ _ := id
  pcCallback _ _ := id

/-- the ghost records of a later state continue those of an earlier one (`Track`), whatever happens -/
theorem track_closed : BusClosed Track where
  refl := Track.refl
  trans := Track.trans
  waitMreq a k z := Track.waitMreq z a k
  waitNoMreq a k z := Track.waitMreq z a k
  waitInternal k z := Track.wait z k
  readInternal _ z := Track.refl z
  writeInternal a v z := Track.store z a v
  readIo p z := Track.readIo z p
  writeIo p v z := Track.writeIo z p v
  readInterrupt z := Track.refl z
  reti z := Track.refl z
  halt _ z := Track.refl z
  pcCallback _ z := Track.refl z

/-- **Every program keeps the invariants**, from any state that has them (every state a program can
be in, also in the middle of an instruction, has them: they are kept by each bus primitive). -/
theorem program_keeps_good (m : Machine) (v : Variant) (n : Nat) (s : Cpu) (z : VBus) (h : SGood m z) :
    SGood m (Z80.run v n (s, z)).2 :=
  (keeps_closed m).run v n (s, z) h

/-- **Cache coherence, well-formedness and render sync for every program.** Power-on state of
either machine, any input behaviour, any CPU state, any number of instructions of any program:
afterwards the machine state is well formed, the screen cache equals RAM (`Coherent`: every shadow
bank holds the first 6912 bytes of its RAM bank), the frame clock is inside the frame, and the
renderer has drawn exactly the blocks the beam has passed. -/
theorem cache_coherent_every_program (m : Machine) (inp : Nat → BitVec 8) (v : Variant) (n : Nat) (s : Cpu) :
    let c := (Z80.run v n (s, VBus.new m inp)).2.ctl
    c.machine = m ∧ c.WF ∧ c.Coherent ∧ c.frameClocks < m.clocksFrame ∧
    c.screen.last.le (Blocks.fromClocks m c.frameClocks) ∧
    c.screen.last.idx = (Blocks.fromClocks m c.frameClocks).idx := by
  intro c
  have g : SGood m (Z80.run v n (s, VBus.new m inp)).2 := program_keeps_good m v n s _ (SGood.new m inp)
  have h1 := g.level.inFrame
  have h2 := g.level.beam
  have h3 := g.level.sync
  rw [g.mach] at h1 h2 h3
  exact ⟨g.mach, g.wf, g.coh, h1, h2, h3⟩

/-- … spelled out: after every program the 48K shadow screen equals RAM page 0 (the RAM at 0x4000),
and on the 128K *both* shadow screens equal their RAM banks 5 and 7, byte for byte. -/
theorem cache_equals_ram_every_program (m : Machine) (inp : Nat → BitVec 8) (v : Variant) (n : Nat) (s : Cpu)
    (off : Nat) (hoff : off < 0x1B00) :
    let c := (Z80.run v n (s, VBus.new m inp)).2.ctl
    match m with
    | .k48 => (c.screen.bank false).mem off = c.mem.ramByte 0 off
    | .k128 => (c.screen.bank false).mem off = c.mem.ramByte 5 off ∧
               (c.screen.bank true).mem off = c.mem.ramByte 7 off := by
  intro c
  obtain ⟨hm, _, hc, _⟩ := cache_coherent_every_program m inp v n s
  cases m with
  | k48 => exact hc 0 false (by rw [hm]; rfl) off hoff
  | k128 => exact ⟨hc 5 false (by rw [hm]; rfl) off hoff, hc 7 true (by rw [hm]; rfl) off hoff⟩

/-- **What has been drawn so far, for every program.** At any point of any program, every pixel
the renderer has passed in the frame in progress either was drawn before the last touching event
(and is as it was then) or is the standard decode of the displayed RAM as of that event — the
whole-program form of `C08.render_invariant`. -/
theorem drawn_so_far_every_program (m : Machine) (inp : Nat → BitVec 8) (v : Variant) (n : Nat) (s : Cpu)
    (p : Nat) (d : Px) :
    let z := (Z80.run v n (s, VBus.new m inp)).2
    p < z.ctl.screen.last.idx * 8 →
    z.ctl.screen.back.getD p d =
      if p < z.anchor.screen.last.idx * 8 then z.anchor.screen.back.getD p d
      else Spec.stdPx (fun off => z.anchor.mem.ramByte (Spec.visibleBank m z.anchor.port7ffd) off)
        z.anchor.screen.flash (p % 256) (p / 256) := by
  intro z hp
  have g : SGood m z := program_keeps_good m v n s _ (SGood.new m inp)
  by_cases h1 : p < z.anchor.screen.last.idx * 8
  · rw [if_pos h1]; exact g.inv.old p d h1
  · rw [if_neg h1, g.inv.new p d (by omega) hp]
    unfold Ctl.visibleMem
    rw [g.amach]

/-- … and since that event the displayed bytes have not changed: at any point of any program the
6912 bytes of the RAM bank on display are what they were right after the last touching event of
the frame in progress (so "the displayed RAM as of that event" above is the displayed RAM now). -/
theorem displayed_bytes_since_anchor (m : Machine) (inp : Nat → BitVec 8) (v : Variant) (n : Nat) (s : Cpu)
    (off : Nat) (hoff : off < 0x1B00) :
    let z := (Z80.run v n (s, VBus.new m inp)).2
    z.ctl.mem.ramByte (Spec.visibleBank m z.ctl.port7ffd) off =
      z.anchor.mem.ramByte (Spec.visibleBank m z.anchor.port7ffd) off := by
  intro z
  have g : SGood m z := program_keeps_good m v n s _ (SGood.new m inp)
  have h1 := active_mem z.ctl g.wf g.coh off hoff
  have h2 := active_mem z.anchor g.awf g.acoh off hoff
  have h3 := g.inv.vis off hoff
  unfold Ctl.visibleMem at h1 h2
  rw [g.mach] at h1
  rw [g.amach] at h2
  rw [← h1, ← h2, h3]

/-- **The delivered frame, for every program.** Once a frame has been completed, the canvas the
host is handed is: the pixels the beam had passed at the last touching event of that frame as
they had been drawn by then; every other pixel the standard decode of the displayed RAM bank as of
that event, with that frame's flash phase. (The program may have written anything else in the
meantime: other memory, the other 128K screen, ports, the border.) Whole-program form of
`frame_rest` behind `C08.frame_is_decode` / `C08.beam_before_after`. -/
theorem frame_rest_every_program (m : Machine) (inp : Nat → BitVec 8) (v : Variant) (n : Nat) (s : Cpu)
    (p : Nat) (hp : p < 49152) (d : Px) :
    let z := (Z80.run v n (s, VBus.new m inp)).2
    1 ≤ z.ctl.passedFrames →
    z.doneAnchor.passedFrames + 1 = z.ctl.passedFrames ∧
    z.ctl.screen.front.getD p d =
      if p < z.doneAnchor.screen.last.idx * 8 then z.doneAnchor.screen.back.getD p d
      else Spec.stdPx (fun off => z.doneAnchor.mem.ramByte (Spec.visibleBank m z.doneAnchor.port7ffd) off)
        (Spec.phaseAt Spec.codePhaseOrigin (z.ctl.passedFrames - 1)) (p % 256) (p / 256) := by
  intro z h1
  have g : SGood m z := program_keeps_good m v n s _ (SGood.new m inp)
  have dn := g.done h1
  refine ⟨dn.frame, ?_⟩
  rw [dn.pixels p d hp]
  have hf : z.doneAnchor.screen.flash = Spec.phaseAt Spec.codePhaseOrigin (z.ctl.passedFrames - 1) := by
    rw [dn.wf.flashInv, dn.wf.counter, ← dn.frame]
    rfl
  unfold Ctl.visibleMem
  rw [dn.mach, hf]

/-- **A frame no program write touched shows exactly the standard decode.** If during the frame
completed last no CPU store went into the 6912 displayed bytes and no port write switched the
displayed bank (`doneTouches = 0`), then every pixel of the delivered canvas is `stdDecode` of the
displayed RAM bank (bank 5, or 7 while latch bit 3 is set; 48K: the RAM at 0x4000) as it was when
the frame started — for every program, both machines, all memory contents. -/
theorem frame_is_decode_every_program (m : Machine) (inp : Nat → BitVec 8) (v : Variant) (n : Nat) (s : Cpu)
    (x y : Nat) (hx : x < 256) (hy : y < 192) (d : Px) :
    let z := (Z80.run v n (s, VBus.new m inp)).2
    1 ≤ z.ctl.passedFrames → z.doneTouches = 0 →
    z.ctl.screen.front.getD (y * 256 + x) d =
      Spec.stdPx (fun off => z.doneAnchor.mem.ramByte (Spec.visibleBank m z.doneAnchor.port7ffd) off)
        (Spec.phaseAt Spec.codePhaseOrigin (z.ctl.passedFrames - 1)) x y := by
  intro z h1 h0
  have g : SGood m z := program_keeps_good m v n s _ (SGood.new m inp)
  have h00 := (g.done h1).fresh h0
  obtain ⟨_, hpix⟩ := frame_rest_every_program m inp v n s (y * 256 + x) (by omega) d h1
  have e1 : (y * 256 + x) % 256 = x := by omega
  have e2 : (y * 256 + x) / 256 = y := by omega
  show z.ctl.screen.front.getD (y * 256 + x) d = _
  rw [hpix, h00, if_neg (by omega), e1, e2]

/-- **A CPU write before / after the beam, inside any program.** `z1` is any state a program can be
in (`SGood`). A store of `b` at `a` hits the displayed bytes; then the program goes on — any
instructions at all — such that exactly one frame end has passed and that store was the last
touching event of its frame. For every pixel (x, y) of the canvas then delivered: if the store
happened at least 8 T-states before the ULA fetches the pixel's character cell, the pixel is the
standard decode of the displayed RAM *with* the new byte; if at least 8 T-states after, it is what
had been drawn before the store — the new byte then shows in the next frame
(`frame_is_decode_every_program`, whose reference memory is the memory at that frame's start). -/
theorem cpu_write_before_after_beam (m : Machine) (z1 : VBus) (h1 : SGood m z1) (a : BitVec 16) (b : BitVec 8)
    (hhit : z1.ctl.hitsDisplayed a = true) (v : Variant) (n : Nat) (s : Cpu)
    (x y : Nat) (hx : x < 256) (hy : y < 192) (d : Px) :
    let c1 := z1.ctl.writeInternal a b
    let z3 := (Z80.run v n (s, Bus.writeInternal a b z1)).2
    z3.ctl.passedFrames = z1.ctl.passedFrames + 1 → z3.doneTouches = z1.touches + 1 →
    (Spec.clearlyBefore m z1.ctl.frameClocks y (x / 8) = true →
      z3.ctl.screen.front.getD (y * 256 + x) d =
        Spec.stdPx (fun off => c1.mem.ramByte (Spec.visibleBank m z1.ctl.port7ffd) off) z1.ctl.screen.flash x y) ∧
    (Spec.clearlyAfter m z1.ctl.frameClocks y (x / 8) = true →
      z3.ctl.screen.front.getD (y * 256 + x) d = z1.ctl.screen.back.getD (y * 256 + x) d) := by
  intro c1 z3 hpf hdt
  have h2 : SGood m (z1.store a b) := h1.store a b
  have g3 : SGood m z3 := program_keeps_good m v n s _ h2
  have t : Track (z1.store a b) z3 := track_closed.run v n (s, z1.store a b)
  obtain ⟨ha, ht⟩ := VBus.anchor_store z1 a b
  rw [hhit, if_pos rfl] at ha ht
  have hpf2 : (z1.store a b).ctl.passedFrames = z1.ctl.passedFrames := by
    rw [VBus.ctl_store]; exact writeInternal_pf _ _ _
  have hda : z3.doneAnchor = c1 := by
    rw [(t.next (by rw [hpf2]; exact hpf)).2 (by rw [ht]; exact hdt), ha]
  have dn := g3.done (by omega)
  have hpix := dn.pixels (y * 256 + x) d (by omega)
  rw [hda] at hpix
  obtain ⟨e1, e2, _, e4, e5, _, _, e8, _⟩ := writeInternal_screen z1.ctl h1.wf a b
  have hvis : c1.visibleMem = fun off => c1.mem.ramByte (Spec.visibleBank m z1.ctl.port7ffd) off := by
    unfold Ctl.visibleMem
    rw [e2, h1.mach, writeInternal_port]
  have x1 : (y * 256 + x) % 256 = x := by omega
  have x2 : (y * 256 + x) / 256 = y := by omega
  rw [e4, e5, e8, hvis, x1, x2] at hpix
  have hsync := h1.level.sync
  rw [h1.mach] at hsync
  constructor
  · intro hbefore
    have hb : z1.ctl.frameClocks + 8 ≤ Spec.fetchClock m y (x / 8) := by
      simpa [Spec.clearlyBefore] using hbefore
    have := fromClocks_before m z1.ctl.frameClocks y (x / 8) hy (by omega) (by
      unfold Spec.fetchClock at hb
      cases m <;> simp only [Machine.firstPixel, Machine.clocksLine, Machine.ulaReadOrigin] at * <;> omega)
    show z3.ctl.screen.front.getD _ d = _
    rw [hpix, if_neg (by omega)]
  · intro hafter
    have hb : Spec.fetchClock m y (x / 8) + 8 ≤ z1.ctl.frameClocks := by
      simpa [Spec.clearlyAfter] using hafter
    have := fromClocks_after m z1.ctl.frameClocks y (x / 8) hy (by omega) (by
      unfold Spec.fetchClock at hb
      cases m <;> simp only [Machine.firstPixel, Machine.clocksLine, Machine.ulaReadOrigin] at * <;> omega)
    show z3.ctl.screen.front.getD _ d = _
    rw [hpix, if_pos (by omega)]

/-- **… and the next frame shows it everywhere.** The same store; the program goes on (`n1` more
instructions) until that frame has ended with the store as its last touching event, and on (`n2`
more) through the whole next frame without touching the picture. The canvas delivered for that next
frame is, at *every* pixel, the standard decode of the displayed RAM with the new byte (with the
flash phase of that frame) — so a write the beam had already passed is on screen one frame later. -/
theorem cpu_write_shows_next_frame (m : Machine) (z1 : VBus) (h1 : SGood m z1) (a : BitVec 16) (b : BitVec 8)
    (hhit : z1.ctl.hitsDisplayed a = true) (v : Variant) (n1 n2 : Nat) (s : Cpu)
    (x y : Nat) (hx : x < 256) (hy : y < 192) (d : Px) :
    let c1 := z1.ctl.writeInternal a b
    let sb2 := Z80.run v n1 (s, Bus.writeInternal a b z1)
    let z2 := sb2.2
    let z3 := (Z80.run v n2 sb2).2
    z2.ctl.passedFrames = z1.ctl.passedFrames + 1 → z2.doneTouches = z1.touches + 1 → z2.touches = 0 →
    z3.ctl.passedFrames = z1.ctl.passedFrames + 2 → z3.doneTouches = 0 →
    z3.ctl.screen.front.getD (y * 256 + x) d =
      Spec.stdPx (fun off => c1.mem.ramByte (Spec.visibleBank m z1.ctl.port7ffd) off)
        (Spec.phaseAt Spec.codePhaseOrigin (z1.ctl.passedFrames + 1)) x y := by
  intro c1 sb2 z2 z3 hpf2 hdt2 ht2 hpf3 hdt3
  have g2 : SGood m z2 := program_keeps_good m v n1 s _ (h1.store a b)
  have g3 : SGood m z3 := program_keeps_good m v n2 sb2.1 sb2.2 g2
  have t12 : Track (z1.store a b) z2 := track_closed.run v n1 (s, z1.store a b)
  have t23 : Track z2 z3 := track_closed.run v n2 sb2
  obtain ⟨ha, ht⟩ := VBus.anchor_store z1 a b
  rw [hhit, if_pos rfl] at ha ht
  have hpfs : (z1.store a b).ctl.passedFrames = z1.ctl.passedFrames := by
    rw [VBus.ctl_store]; exact writeInternal_pf _ _ _
  have hda2 : z2.doneAnchor = c1 := by
    rw [(t12.next (by rw [hpfs]; exact hpf2)).2 (by rw [ht]; exact hdt2), ha]
  have hda3 : z3.doneAnchor = z2.anchor :=
    (t23.next (by omega)).2 (by rw [ht2]; exact hdt3)
  have d2 := g2.done (by omega)
  have d3 := g3.done (by omega)
  have hpix := d3.pixels (y * 256 + x) d (by omega)
  have h00 := d3.fresh hdt3
  rw [hda3] at hpix h00
  have x1 : (y * 256 + x) % 256 = x := by omega
  have x2 : (y * 256 + x) / 256 = y := by omega
  rw [h00, if_neg (by omega), x1, x2] at hpix
  -- the flash phase of that frame
  have hfl : z2.anchor.screen.flash = Spec.phaseAt Spec.codePhaseOrigin (z1.ctl.passedFrames + 1) := by
    rw [g2.awf.flashInv, g2.awf.counter, ← g2.inv.passed, hpf2]
  -- the displayed bytes at its start are those right after the store
  have hwf1 : c1.WF := by rw [← hda2]; exact d2.wf
  have hcoh1 : c1.Coherent := by rw [← hda2]; exact d2.coh
  have hbytes : ∀ off, off < 0x1B00 → z2.anchor.visibleMem off = c1.visibleMem off := by
    intro off hoff
    rw [← active_mem z2.anchor g2.awf g2.acoh off hoff, ← active_mem c1 hwf1 hcoh1 off hoff, g2.start0 ht2,
      d2.carry off hoff, hda2]
  obtain ⟨_, e2, _⟩ := writeInternal_screen z1.ctl h1.wf a b
  have hvis : c1.visibleMem = fun off => c1.mem.ramByte (Spec.visibleBank m z1.ctl.port7ffd) off := by
    unfold Ctl.visibleMem
    rw [e2, h1.mach, writeInternal_port]
  show z3.ctl.screen.front.getD (y * 256 + x) d = _
  rw [hpix, hfl, ← hvis]
  exact stdPx_congr _ _ _ _ _ hx hy hbytes

/-! Non-vacuity -/

/-- **The statements above do say something: a program that completes untouched frames.** The
power-on machine of the model has all-zero memory, so with interrupts disabled the CPU executes
NOPs (one 4-T opcode fetch each, plus ULA delays) for ever. After 17727 or more instructions — from
any such CPU state, on either machine, with any input — at least one frame has been completed and
the frame completed last was not touched; `frame_is_decode_every_program` then applies and says that
every pixel of the delivered canvas is the decode of an all-zero screen: black paper, not bright. -/
theorem idle_machine_delivers_decoded_frames (m : Machine) (inp : Nat → BitVec 8) (v : Variant) (s : Cpu)
    (h1 : s.iff1 = false) (h2 : s.skipInt = false) (h3 : s.activePrefix = .none) (n : Nat) (hn : 17727 ≤ n)
    (x y : Nat) (hx : x < 256) (hy : y < 192) (d : Px) :
    let z := (Z80.run v n (s, VBus.new m inp)).2
    1 ≤ z.ctl.passedFrames ∧ z.doneTouches = 0 ∧
    z.ctl.screen.front.getD (y * 256 + x) d = pxCode 0 false := by
  intro z
  obtain ⟨hi, ht⟩ := idle_run m v n s _ (Idle.new m inp s h1 h2 h3)
  have g : SGood m z := program_keeps_good m v n s _ (SGood.new m inp)
  have hin := g.level.inFrame
  have hpf : 1 ≤ z.ctl.passedFrames := by
    have ht' : 4 * n ≤ z.ctl.passedFrames * z.ctl.machine.clocksFrame + z.ctl.frameClocks := by
      have h0 : (VBus.new m inp).ctl.total = 0 := by simp [Ctl.total, VBus.new, Ctl.new]
      rw [h0] at ht
      simpa [Ctl.total] using ht
    have hcf : z.ctl.machine.clocksFrame ≤ 70908 := by cases z.ctl.machine <;> decide
    cases hz : z.ctl.passedFrames with
    | zero => rw [hz] at ht'; omega
    | succ k => omega
  refine ⟨hpf, hi.dtouches, ?_⟩
  have hdec := frame_is_decode_every_program m inp v n s x y hx hy d hpf hi.dtouches
  show z.ctl.screen.front.getD (y * 256 + x) d = _
  rw [hdec, hi.dmem]
  simp [new_ramByte, Spec.stdPx, Spec.stdDecode]

/-- the power-on bus state of either machine has the invariants (the base of every statement above) -/
example : SGood .k48 (VBus.new .k48 (fun _ => 0xFF)) ∧ SGood .k128 (VBus.new .k128 (fun n => BitVec.ofNat 8 n)) :=
  ⟨SGood.new _ _, SGood.new _ _⟩

/-- which stores touch the picture at power-on: the display file and the attributes of the bank at
0x4000, nothing above them; on the 128K the window at 0xC000 holds bank 0, not a screen -/
example : (Ctl.new .k48).hitsDisplayed 0x4000 = true ∧ (Ctl.new .k48).hitsDisplayed 0x5AFF = true ∧
    (Ctl.new .k48).hitsDisplayed 0x5B00 = false ∧ (Ctl.new .k48).hitsDisplayed 0x8000 = false ∧
    (Ctl.new .k48).hitsDisplayed 0x0000 = false ∧
    (Ctl.new .k128).hitsDisplayed 0x4000 = true ∧ (Ctl.new .k128).hitsDisplayed 0xC000 = false := by
  decide

/-- the bus at work (kernel evaluation of one `emulate`): `LD (HL),A` at 0x8000 with HL = 0x4000,
A = 0xFF on the 48K — a 4-T fetch and a 3-T write cycle; the store hits the displayed bytes (one
touching event), RAM page 0 and the shadow screen both hold the new byte -/
example : let z := (Z80.run .hw 1 ({ pc := 0x8000, h := 0x40, a := 0xFF },
      (VBus.new .k48 (fun _ => 0xFF)).store 0x8000 0x77)).2
    z.touches = 1 ∧ z.ctl.frameClocks = 7 ∧ z.ctl.mem.ramByte 0 0 = 0xFF ∧ (z.ctl.screen.bank false).mem 0 = 0xFF := by
  decide +kernel

end ZxVerif.C08Sys
