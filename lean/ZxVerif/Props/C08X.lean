/-
C08 — theorems over the constants *and expressions* translated from the Rust sources on every run
(tools/extract.py, table VideoConsts → ZxVerif/Extracted/VideoConsts.lean): `bitmap_line_addr`,
`bitmap_line_rel`, `bitmap_col_rel`, `attr_row_rel`, `attr_col_rel` (utils/screen.rs), the index
expressions of `ZXScreen::process_clocks` / `update` / `new_frame` and `BlocksCount::from_clocks`
(video/screen.rs), `ZXAttribute::from_byte` / `active_color` and the colour enums (video/colors.rs),
the host palette (rustzx-utils/src/palette.rs), the canvas constants (constants.rs) and the
per-machine numbers of the `ZXSpecsBuilder` chains with their derivations (machine/{mod,specs}.rs).
What the source text says now is the property's address arithmetic and what Model/Video.lean runs.
Finite tables are checked completely by kernel evaluation (`decide +kernel`), so an algebraically
equivalent rewrite of an expression in the source keeps the theorems true, a wrong one does not.
-/
import ZxVerif.Lemmas.VideoX
set_option linter.unusedSimpArgs false
namespace ZxVerif.C08X
open ZxVerif.Video

/-- canvas constants of constants.rs are the model's and the Spectrum's: 256×192 pixels, 32×24
attribute cells, 4 T-states per character column; `update` accepts display-file offsets
0…0x17FF and attribute offsets 0x1800…0x1AFF; a block is 8 pixels wide -/
theorem canvas_consts_extracted :
    Extracted.Video.CANVAS_WIDTH = canvasWidth ∧ Extracted.Video.CANVAS_HEIGHT = canvasHeight ∧
    Extracted.Video.ATTR_COLS = attrCols ∧ Extracted.Video.ATTR_ROWS = attrRows ∧
    Extracted.Video.CLOCKS_PER_COL = clocksPerCol ∧
    canvasWidth = 256 ∧ canvasHeight = 192 ∧ attrCols = 32 ∧ attrRows = 24 ∧
    Extracted.Video.updateBitmapRange = (0, 0x17FF) ∧ Extracted.Video.updateAttrRange = (0x1800, 0x1AFF) ∧
    Extracted.Video.renderPixelRange = (0, 8) := by decide

/-- the whole table of `bitmap_line_addr` as it stands in the source: for every line `y < 192` and
character column `c < 32` the address of the display byte is 0x4000 + the property's offset, and it
is the value of the model's transcription -/
theorem bitmap_line_addr_table : ∀ y : Fin 192, ∀ c : Fin 32,
    (Extracted.Video.bitmapLineAddr y.val).toNat + c.val = 0x4000 + Spec.bitmapOffset (8 * c.val) y.val ∧
    Extracted.Video.bitmapLineAddr y.val = Video.bitmapLineAddr y.val := by
  decide +kernel

/-- **Display-byte address.** For every pixel `x < 256`, `y < 192`: `bitmap_line_addr(y) + x/8`, with
the source's expression for `bitmap_line_addr`, is
`0x4000 + (((y & 0xC0) << 5) | ((y & 7) << 8) | ((y & 0x38) << 2) | (x >> 3))` -/
theorem bitmap_addr_is_formula (x y : Nat) (hx : x < 256) (hy : y < 192) :
    (Extracted.Video.bitmapLineAddr y).toNat + (x >>> 3) =
      0x4000 + (((y &&& 0xC0) <<< 5) ||| ((y &&& 7) <<< 8) ||| ((y &&& 0x38) <<< 2) ||| (x >>> 3)) := by
  have h := (bitmap_line_addr_table ⟨y, hy⟩ ⟨x / 8, by omega⟩).1
  simp only at h
  have e : Spec.bitmapOffset (8 * (x / 8)) y = Spec.bitmapOffset x y := by
    have := bitmapOffset_col (x / 8) (x % 8) y (by omega)
    rw [show x / 8 * 8 + x % 8 = x by omega] at this
    exact this.symm
  rw [e] at h
  have e3 : x >>> 3 = x / 8 := by simp [Nat.shiftRight_eq_div_pow]
  show _ + x >>> 3 = 0x4000 + Spec.bitmapOffset x y
  rw [e3]
  exact h

/-- `bitmap_line_addr` of the source is the model's, on every line it may be called with -/
theorem bitmap_line_addr_is_model (y : Nat) (hy : y < 192) : Extracted.Video.bitmapLineAddr y = Video.bitmapLineAddr y :=
  (bitmap_line_addr_table ⟨y, hy⟩ ⟨0, by omega⟩).2

/-- the whole tables of `bitmap_line_rel` / `bitmap_col_rel` (all 6144 display-file offsets) and of
`attr_row_rel` / `attr_col_rel` (all 768 attribute offsets) as they stand in the source are the model's -/
theorem addr_helpers_table :
    (∀ h : Fin 24, ∀ l : Fin 256,
      Extracted.Video.bitmapLineRel (BitVec.ofNat 16 (h.val * 256 + l.val)) = Video.bitmapLineRel (BitVec.ofNat 16 (h.val * 256 + l.val)) ∧
      Extracted.Video.bitmapColRel (BitVec.ofNat 16 (h.val * 256 + l.val)) = Video.bitmapColRel (BitVec.ofNat 16 (h.val * 256 + l.val))) ∧
    (∀ a : Fin 768,
      Extracted.Video.attrRowRel (BitVec.ofNat 16 (0x1800 + a.val)) = Video.attrRowRel (BitVec.ofNat 16 (0x1800 + a.val)) ∧
      Extracted.Video.attrColRel (BitVec.ofNat 16 (0x1800 + a.val)) = Video.attrColRel (BitVec.ofNat 16 (0x1800 + a.val))) := by
  constructor <;> decide +kernel

/-- the four decoding helpers of utils/screen.rs are the model's on the ranges their `assert!`s admit -/
theorem addr_helpers_are_model (a : Nat) :
    (a < 0x1800 → Extracted.Video.bitmapLineRel (BitVec.ofNat 16 a) = Video.bitmapLineRel (BitVec.ofNat 16 a) ∧
                  Extracted.Video.bitmapColRel (BitVec.ofNat 16 a) = Video.bitmapColRel (BitVec.ofNat 16 a)) ∧
    (0x1800 ≤ a → a ≤ 0x1AFF → Extracted.Video.attrRowRel (BitVec.ofNat 16 a) = Video.attrRowRel (BitVec.ofNat 16 a) ∧
                  Extracted.Video.attrColRel (BitVec.ofNat 16 a) = Video.attrColRel (BitVec.ofNat 16 a)) := by
  refine ⟨fun ha => ?_, fun h1 h2 => ?_⟩
  · have := addr_helpers_table.1 ⟨a / 256, by omega⟩ ⟨a % 256, by omega⟩
    simp only at this
    rwa [show a / 256 * 256 + a % 256 = a by omega] at this
  · have := addr_helpers_table.2 ⟨a - 0x1800, by omega⟩
    simp only at this
    rwa [show 0x1800 + (a - 0x1800) = a by omega] at this

/-- the cache-cell table: for every line `y < 192` and column `c < 32`, the cell `update` stores the
byte at the property's display offset in is the cell `process_clocks` reads for block `(y, c)`, and the
cell `update` stores the byte at the property's attribute offset in is the attribute cell
`process_clocks` uses for that block — all four index expressions and the four address helpers as
they stand in the source -/
theorem cache_cell_table : ∀ y : Fin 192, ∀ c : Fin 32,
    Extracted.Video.updateBitmapIdx (Extracted.Video.bitmapLineRel (BitVec.ofNat 16 (Spec.bitmapOffset (8 * c.val) y.val)))
        (Extracted.Video.bitmapColRel (BitVec.ofNat 16 (Spec.bitmapOffset (8 * c.val) y.val)))
      = Extracted.Video.renderBitmapIdx (Extracted.Video.blockIdx y.val c.val) ∧
    Extracted.Video.updateAttrIdx (Extracted.Video.attrRowRel (BitVec.ofNat 16 (0x1800 + (y.val / 8) * 32 + c.val)))
        (Extracted.Video.attrColRel (BitVec.ofNat 16 (0x1800 + (y.val / 8) * 32 + c.val)))
      = Extracted.Video.renderAttrIdx (Extracted.Video.renderAttrRow (Extracted.Video.blockIdx y.val c.val))
          (Extracted.Video.renderAttrCol (Extracted.Video.blockIdx y.val c.val)) ∧
    Extracted.Video.renderY (Extracted.Video.blockIdx y.val c.val) = y.val ∧
    Extracted.Video.blockIdxPrev y.val c.val = Extracted.Video.blockIdx y.val c.val ∧
    (∀ px : Fin 8, Extracted.Video.renderX (Extracted.Video.blockIdx y.val c.val) px.val = c.val * 8 + px.val) := by
  decide +kernel

/-- **Display and attribute address of a pixel.** For every pixel `x < 256`, `y < 192`, with
`block` the 8×1 block containing it: the byte `process_clocks` decodes the pixel from is the one
`update` filed under display offset `((y&0xC0)<<5)|((y&7)<<8)|((y&0x38)<<2)|(x>>3)`, its attribute the
one filed under `0x1800 + (y>>3)*32 + (x>>3)`, and the pixel is painted at `(x, y)` -/
theorem pixel_addresses_are_formula (x y : Nat) (hx : x < 256) (hy : y < 192) :
    let block := Extracted.Video.blockIdx y (x / 8)
    let dOff := ((y &&& 0xC0) <<< 5) ||| ((y &&& 7) <<< 8) ||| ((y &&& 0x38) <<< 2) ||| (x >>> 3)
    let aOff := 0x1800 + (y >>> 3) * 32 + (x >>> 3)
    Extracted.Video.updateBitmapIdx (Extracted.Video.bitmapLineRel (BitVec.ofNat 16 dOff)) (Extracted.Video.bitmapColRel (BitVec.ofNat 16 dOff))
      = Extracted.Video.renderBitmapIdx block ∧
    Extracted.Video.updateAttrIdx (Extracted.Video.attrRowRel (BitVec.ofNat 16 aOff)) (Extracted.Video.attrColRel (BitVec.ofNat 16 aOff))
      = Extracted.Video.renderAttrIdx (Extracted.Video.renderAttrRow block) (Extracted.Video.renderAttrCol block) ∧
    Extracted.Video.renderX block (x % 8) = x ∧ Extracted.Video.renderY block = y ∧
    dOff = Spec.bitmapOffset x y ∧ aOff = Spec.attrOffset x y := by
  intro block dOff aOff
  obtain ⟨t1, t2, t3, _, t5⟩ := cache_cell_table ⟨y, hy⟩ ⟨x / 8, by omega⟩
  simp only at t1 t2 t3 t5
  have e : Spec.bitmapOffset (8 * (x / 8)) y = dOff := by
    have := bitmapOffset_col (x / 8) (x % 8) y (by omega)
    rw [show x / 8 * 8 + x % 8 = x by omega] at this
    exact this.symm
  have ea : 0x1800 + (y / 8) * 32 + x / 8 = aOff := by
    show _ = 0x1800 + (y >>> 3) * 32 + (x >>> 3)
    simp only [Nat.shiftRight_eq_div_pow] <;> omega
  rw [e] at t1
  rw [ea] at t2
  refine ⟨t1, t2, ?_, t3, rfl, rfl⟩
  have := t5 ⟨x % 8, by omega⟩
  simp only at this
  show Extracted.Video.renderX (Extracted.Video.blockIdx y (x / 8)) (x % 8) = x
  omega

/-- the renderer's index expressions as they stand in the source are the model's: attribute cell
and frame-buffer position of every block and pixel (`renderPixel`, `drawPixels`, `Blocks.idx`) -/
theorem render_indices_are_model :
    (∀ y : Fin 192, ∀ c : Fin 32,
      Extracted.Video.renderAttrIdx (Extracted.Video.renderAttrRow (y.val * 32 + c.val)) (Extracted.Video.renderAttrCol (y.val * 32 + c.val))
        = ((y.val * 32 + c.val) / (attrCols * 8)) * attrCols + (y.val * 32 + c.val) % attrCols ∧
      Extracted.Video.renderBitmapIdx (y.val * 32 + c.val) = y.val * 32 + c.val ∧
      (∀ px : Fin 8, Extracted.Video.renderY (y.val * 32 + c.val) * canvasWidth + Extracted.Video.renderX (y.val * 32 + c.val) px.val
        = ((y.val * 32 + c.val) / attrCols) * canvasWidth + ((y.val * 32 + c.val) % attrCols) * 8 + px.val)) ∧
    (∀ lines cols : Nat, Extracted.Video.blockIdx lines cols = (Blocks.mk lines cols).idx) ∧
    (∀ line col : Nat, Extracted.Video.updateBitmapIdx line col = line * attrCols + col ∧
                       Extracted.Video.updateAttrIdx line col = line * attrCols + col) := by
  refine ⟨by decide +kernel, fun _ _ => rfl, fun _ _ => ⟨rfl, rfl⟩⟩

/-- which bit of the display byte a pixel is, as the source computes it (`(bitmap << pixel) & 0x80`):
pixel 0 is bit 7 … pixel 7 is bit 0 — the property's "leftmost pixel = most significant bit" -/
theorem pixel_bit_extracted : ∀ (b : BitVec 8) (px : Fin 8),
    Extracted.Video.renderPixelOn b px.val = b.getLsbD (7 - px.val) := by decide

/-- **Attribute byte layout.** `ZXAttribute::from_byte` as it stands in the source: ink = bits 0–2,
paper = bits 3–5, bright = bit 6, flash = bit 7 — the model's `Attr.fromByte` and the masks and
shifts `stdDecode` uses -/
theorem attr_bits_extracted : ∀ d : BitVec 8,
    (Extracted.Video.attrInk d).setWidth 3 = (Attr.fromByte d).ink ∧
    (Extracted.Video.attrPaper d).setWidth 3 = (Attr.fromByte d).paper ∧
    Extracted.Video.attrBright d = (Attr.fromByte d).bright ∧
    Extracted.Video.attrFlash d = (Attr.fromByte d).flash ∧
    Extracted.Video.attrInk d = d &&& 7 ∧ Extracted.Video.attrPaper d = (d >>> 3) &&& 7 ∧
    Extracted.Video.attrBright d = d.getLsbD 6 ∧ Extracted.Video.attrFlash d = d.getLsbD 7 ∧
    Extracted.Video.attrInk d < 8 ∧ Extracted.Video.attrPaper d < 8 := by decide

/-- `ZXAttribute::active_color` as it stands in the source: ink iff the pixel bit differs from
"flash cell in the swapped phase" — the model's `Attr.activeColor` -/
theorem active_colour_extracted (a : Attr) (state enableFlash : Bool) :
    a.activeColor state enableFlash =
      (if Extracted.Video.activeIsInk state a.flash enableFlash then a.ink else a.paper) ∧
    Extracted.Video.activeIsInk state a.flash enableFlash = (state ^^ (a.flash && enableFlash)) := by
  cases state <;> cases enableFlash <;> cases h : a.flash <;> simp [Attr.activeColor, Extracted.Video.activeIsInk, h]

/-- **The standard decode, from the source's own pieces.** For all screen contents, flash phase and
pixel `(x, y)`: the property's `stdDecode` is "source's `active_color` of the source's pixel bit and
the source's attribute fields", with the bytes at the property's two offsets -/
theorem std_decode_from_source (mem : Nat → BitVec 8) (phase : Bool) (x y : Nat) :
    Spec.stdDecode mem phase x y =
      (let b := mem (Spec.bitmapOffset x y)
       let a := mem (Spec.attrOffset x y)
       (if Extracted.Video.activeIsInk (Extracted.Video.renderPixelOn b (x % 8)) (Extracted.Video.attrFlash a) phase
          then (Extracted.Video.attrInk a).setWidth 3 else (Extracted.Video.attrPaper a).setWidth 3,
        Extracted.Video.attrBright a)) := by
  have hb := pixel_bit_extracted (mem (Spec.bitmapOffset x y)) ⟨x % 8, by omega⟩
  obtain ⟨_, _, _, _, i1, i2, i3, i4, _, _⟩ := attr_bits_extracted (mem (Spec.attrOffset x y))
  simp only at hb
  simp only [Spec.stdDecode, hb, i1, i2, i3, i4, Extracted.Video.activeIsInk]

/-- the colour enums of colors.rs: eight colours numbered 0…7 in the order black, blue, red,
purple (magenta), green, cyan, yellow, white — bit 0 blue, bit 1 red, bit 2 green —,
`from_bits` and `u8::from` are that numbering in both directions, brightness is 0 / 1 -/
theorem colour_enum_extracted :
    Extracted.Video.colourNames = ["Black", "Blue", "Red", "Purple", "Green", "Cyan", "Yellow", "White"] ∧
    Extracted.Video.colourDiscriminants = List.range 8 ∧
    Extracted.Video.colourFromBits = (List.range 8).map (fun i => (i, i)) ∧
    Extracted.Video.colourToByte = (List.range 8).map (fun i => (i, i)) ∧
    Extracted.Video.brightnessDiscriminants = (0, 1) := by decide

/-- the colour a palette index stands for on a Spectrum: index = 8·bright + colour, red = bit 1,
green = bit 2, blue = bit 0 at level 0xCD (0xFF when bright), opaque; as 0xRRGGBBAA -/
def stdRGBA (i : Nat) : Nat :=
  let lv := if i / 8 % 2 = 1 then 0xFF else 0xCD
  ((if i / 2 % 2 = 1 then lv else 0) <<< 24) ||| ((if i / 4 % 2 = 1 then lv else 0) <<< 16) |||
    ((if i % 2 = 1 then lv else 0) <<< 8) ||| 0xFF

/-- the 16-entry host palette (`rustzx_utils::palette::rgba::ORIGINAL`) is the standard one -/
theorem palette_extracted : Extracted.Video.paletteRGBA = (List.range 16).map stdRGBA := by decide

/-- parity flips with every step -/
theorem parity_flip (a : Nat) : decide ((a + 1) % 2 = 1) = !decide (a % 2 = 1) := by
  have : (a + 1) % 2 = 1 ↔ ¬ a % 2 = 1 := by omega
  simp only [this, decide_not]

/-- the flash phase after `n` frame ends when `new_frame` applies the source's toggle rule, starting
from the power-on state (counter 0, phase off) -/
def flashAfter : Nat → Bool
  | 0 => false
  | n + 1 => if Extracted.Video.flashToggles n then !flashAfter n else flashAfter n

/-- **FLASH swaps every 16 frames.** The condition under which `ZXScreen::new_frame` toggles the
phase, as it stands in the source, is "frame counter divisible by 16", the counter advances by one
per frame, this is the model's `Screen.newFrame`, and iterated from power-on it gives the spec's
16-frame square wave `phaseAt` -/
theorem flash_period_extracted :
    (∀ n, Extracted.Video.flashToggles n = decide (n % 16 = 0)) ∧
    Extracted.Video.frameCounterStep = 1 ∧
    (∀ s : Screen, s.newFrame.flash = (if Extracted.Video.flashToggles s.frameCounter then !s.flash else s.flash) ∧
                   s.newFrame.frameCounter = s.frameCounter + Extracted.Video.frameCounterStep) ∧
    (∀ n, flashAfter n = Spec.phaseAt Spec.codePhaseOrigin n) ∧
    (∀ k n, Spec.phaseAt k (n + 16) = !Spec.phaseAt k n) := by
  have h1 : ∀ n, Extracted.Video.flashToggles n = decide (n % 16 = 0) := by
    intro n
    unfold Extracted.Video.flashToggles
    by_cases h : n % 16 = 0 <;> simp [h]
  refine ⟨h1, rfl, fun s => ⟨?_, rfl⟩, ?_, ?_⟩
  · simp only [Screen.newFrame, h1]
    by_cases h : s.frameCounter % 16 = 0 <;> simp [h]
  · have key : ∀ n, flashAfter n = true ↔ (n + 15) / 16 % 2 = 1 := by
      intro n
      induction n with
      | zero => decide
      | succ n ih =>
        have step : flashAfter (n + 1) = if decide (n % 16 = 0) then !flashAfter n else flashAfter n := by
          rw [flashAfter, h1]
        rw [step]
        by_cases h : n % 16 = 0
        · rw [decide_eq_true h]
          cases hf : flashAfter n <;> rw [hf] at ih <;> simp at ih ⊢ <;> omega
        · rw [decide_eq_false h]
          cases hf : flashAfter n <;> rw [hf] at ih <;> simp at ih ⊢ <;> omega
    intro n
    rw [Bool.eq_iff_iff, key n]
    unfold Spec.phaseAt Spec.codePhaseOrigin
    exact decide_eq_true_iff.symm
  · intro k n
    have e : (n + 16 + k) / 16 = (n + k) / 16 + 1 := by omega
    unfold Spec.phaseAt
    rw [e]
    exact parity_flip _

/-- the per-machine numbers the screen renderer depends on, as the `ZXSpecsBuilder` chains and the
builder's own derivations (translated) give them, are the model's: first pixel, ULA read origin
(first pixel + read shift), line and frame length; and they are the Spectrum's (224/228 T per
line = 24 + 128 + 24 + 48/52, 312/311 lines) -/
theorem screen_geometry_extracted (m : Machine) :
    (geomOf m).clocks_first_pixel = m.firstPixel ∧
    (geomOf m).clocks_ula_read_origin = m.ulaReadOrigin ∧
    (geomOf m).clocks_line = m.clocksLine ∧
    (geomOf m).clocks_frame = m.clocksFrame ∧
    (geomOf m).clocks_screen_row = 128 ∧ (geomOf m).lines_screen = 192 ∧
    (geomOf m).lines_all + (geomOf m).lines_vsync = (match m with | .k48 => 312 | .k128 => 311) := by
  cases m <;> decide

/-- **`BlocksCount::from_clocks`, translated statement by statement, is the model's** for every
frame clock on both machines: how many 8×1 blocks the ULA has fetched at clock `t` -/
theorem from_clocks_is_model (m : Machine) (t : Nat) :
    Extracted.Video.fromClocks (geomOf m) t = ((Blocks.fromClocks m t).lines, (Blocks.fromClocks m t).cols) := by
  have c1 : Extracted.Video.CLOCKS_PER_COL = 4 := rfl
  have c2 : Extracted.Video.ATTR_COLS = 32 := by decide
  have c3 : Extracted.Video.CANVAS_HEIGHT = 192 := rfl
  have d1 : clocksPerCol = 4 := rfl
  have d2 : attrCols = 32 := rfl
  have d3 : canvasHeight = 192 := rfl
  cases m
  · have g1 : (geomOf .k48).clocks_ula_read_origin = 14338 := by decide
    have g2 : (geomOf .k48).clocks_line = 224 := by decide
    have e1 : Machine.k48.ulaReadOrigin = 14338 := rfl
    have e2 : Machine.k48.clocksLine = 224 := rfl
    unfold Extracted.Video.fromClocks Blocks.fromClocks
    rw [g1, g2, e1, e2, c1, c2, c3, d1, d2, d3]
    simp only [decide_eq_true_eq]
    (repeat' split) <;> first | (exfalso; omega) | (with_reducible rfl) | (simp only [Prod.mk.injEq, and_true, true_and]; omega)
  · have g1 : (geomOf .k128).clocks_ula_read_origin = 14364 := by decide
    have g2 : (geomOf .k128).clocks_line = 228 := by decide
    have e1 : Machine.k128.ulaReadOrigin = 14364 := rfl
    have e2 : Machine.k128.clocksLine = 228 := rfl
    unfold Extracted.Video.fromClocks Blocks.fromClocks
    rw [g1, g2, e1, e2, c1, c2, c3, d1, d2, d3]
    simp only [decide_eq_true_eq]
    (repeat' split) <;> first | (exfalso; omega) | (with_reducible rfl) | (simp only [Prod.mk.injEq, and_true, true_and]; omega)

end ZxVerif.C08X
