/-
C09 — border pixels show the colour written to the ULA before the beam got there.

Only property theorems live here (helper lemmas: ZxVerif/Lemmas/VideoBorder.lean, VideoReport.lean).
Model : ZxVerif/Model/Video.lean (ZXBorder: next_border_pixel, fill_to, set_border, new_frame;
        controller: set_border_color, write_io)
Spec  : ZxVerif/Spec/Video.lean (`beamPos`, `colourAt`, `allowedAt`, `reportedColour`)
All theorems quantify over every frame clock, every write list with non-decreasing clocks
(any number of writes per line, in retrace, after the last visible line), both machines.
-/
import ZxVerif.Lemmas.VideoReport
namespace ZxVerif.C09
open ZxVerif.Video

/-- **Beam position.** The code's `next_border_pixel` is the property's beam position for every
frame clock on both machines: `frame_end` exactly when the beam has left the last visible line,
otherwise the same (line, pixel). The constants are the property's: the buffer starts at frame
clock 8945 / 8875, a line lasts 224 / 228 T, the first picture pixel (line 24, column 32) is
reached at T 14336 / 14362, and within a line the beam advances 2 pixels per T-state. -/
theorem beam_pos_formula (m : Machine) (t : Nat) :
    (Spec.beamPos m t = none ↔ (nextBorderPixel m t).2.2 = true) ∧
    (∀ P, Spec.beamPos m t = some P →
      (nextBorderPixel m t).2.2 = false ∧ P = (nextBorderPixel m t).1 * 320 + (nextBorderPixel m t).2.1) ∧
    Spec.borderOrigin m = m.borderOrigin ∧
    Spec.beamPos m m.firstPixel = some (24 * 320 + 32) ∧
    (m.borderOrigin ≤ t → (t - m.borderOrigin) % m.clocksLine + 1 < 160 → (t - m.borderOrigin) / m.clocksLine < 240 →
      ∃ P, Spec.beamPos m t = some P ∧ Spec.beamPos m (t + 1) = some (P + 2) ∧
        Spec.beamPos m (t + m.clocksLine) = (if (t - m.borderOrigin) / m.clocksLine + 1 < 240 then some (P + 320) else none)) := by
  rw [nextBorderPixel_lit, beamPos_lit]
  refine ⟨nbp_none _ _ _, fun P h => ?_, (borderOrigin_eq m).symm, ?_, ?_⟩
  · obtain ⟨a, b, _, _⟩ := nbp_some _ _ _ _ h
    exact ⟨a, b⟩
  · cases m <;> decide
  · intro h1 h2 h3
    rw [beamPos_lit, beamPos_lit]
    cases m
    · have e1 : Machine.k48.borderOrigin = 8945 := rfl
      have e2 : Machine.k48.clocksLine = 224 := rfl
      rw [e1] at h1 h2 h3 ⊢
      rw [e2] at h2 h3 ⊢
      unfold bpLit
      refine ⟨(t - 8945) / 224 * 320 + ((t - 8945) % 224 + 1) * 2, ?_, ?_, ?_⟩ <;> (repeat' split) <;>
        first | (exfalso; omega) | (exact congrArg some (by omega)) | rfl
    · have e1 : Machine.k128.borderOrigin = 8875 := rfl
      have e2 : Machine.k128.clocksLine = 228 := rfl
      rw [e1] at h1 h2 h3 ⊢
      rw [e2] at h2 h3 ⊢
      unfold bpLit
      refine ⟨(t - 8875) / 228 * 320 + ((t - 8875) % 228 + 1) * 2, ?_, ?_, ?_⟩ <;> (repeat' split) <;>
        first | (exfalso; omega) | (exact congrArg some (by omega)) | rfl

/-- **Fill is monotone.** Later writes never take effect before earlier ones (positions are
monotone in the frame clock; once past the last visible line the beam stays there), and `fill_to`
paints only from `beam_last` forwards: no pixel before `beam_last` is ever repainted. -/
theorem fill_monotone (m : Machine) (t t' : Nat) (h : t ≤ t') :
    (Spec.beamPos m t = none → Spec.beamPos m t' = none) ∧
    (∀ P P', Spec.beamPos m t = some P → Spec.beamPos m t' = some P' → P ≤ P') ∧
    (∀ (b : Border) (line pixel q : Nat) (d : Px), b.buf.size = 76800 → line * 320 + pixel ≤ 76800 → q < b.pos →
      (b.fillTo line pixel).buf.getD q d = b.buf.getD q d) := by
  rw [beamPos_lit, beamPos_lit]
  refine ⟨(bpLit_mono m t t' h).1, (bpLit_mono m t t' h).2, ?_⟩
  intro b line pixel q d hsz hhi hq
  rw [(fillTo_spec b line pixel hsz hhi).2.2.2.2.2 q d, if_neg (by omega)]

/-- **A frame is what was written.** Frame start (beam at (0,0) carrying colour `c0`, nothing
painted yet), then any list of port writes `(frame clock, colour)` with non-decreasing clocks —
several per line, in horizontal retrace, before the first and after the last visible line — then
`new_frame`. Every one of the 76800 border-buffer pixels then shows exactly the colour of the
last write whose beam position is ≤ the pixel (`c0` if there is none): the spec with zero
tolerance, hence also within its ±16 px. The next frame starts clean with the last colour. -/
theorem frame_matches_writes (m : Machine) (b : Border) (c0 : BitVec 3) (hs : FrameStart m b c0)
    (ws : List (Nat × BitVec 3)) (hsorted : Sorted ws) (q : Nat) (hq : q < 76800) (d : Px) :
    let b' := (ws.foldl (fun b w => b.setBorder w.1 w.2) b).newFrame
    (∃ c, Spec.colourAt m (some c0) ws q = some c ∧ b'.buf.getD q d = pxCode c false ∧
      Spec.allowedAt m (some c0) ws q c = true) ∧
    FrameStart m b' (lastCol c0 ws) := by
  intro b'
  have inv := setBorders_inv m c0 ws [] b hs.inv (fun w hw => nomatch hw) hsorted
  rw [List.nil_append] at inv
  obtain ⟨px, fs⟩ := newFrame_inv m c0 ws _ inv
  refine ⟨⟨colAt m c0 ws q, colourAt_some m ws q c0, px q d hq, ?_⟩, fs⟩
  -- zero tolerance implies the ±16 px tolerance: take the pixel itself (offset 16 of 0..32)
  unfold Spec.allowedAt Spec.allowedAtPos
  rw [List.any_eq_true]
  refine ⟨16, by decide, ?_⟩
  have hc := colourAt_some m ws q c0
  unfold Spec.colourAt at hc
  have e : q / 320 * 320 + (q % 320 + 16 - 16) = q := by omega
  simp only [e, hc, beq_self_eq_true, Bool.and_true, Bool.and_eq_true, decide_eq_true_eq]
  omega

/-- **Unchanged frames repaint.** A frame without any port write shows the current colour on all
76800 pixels — and so does every following frame without a write. -/
theorem unchanged_frame_repaints (m : Machine) (b : Border) (c0 : BitVec 3) (hs : FrameStart m b c0) (n : Nat)
    (q : Nat) (hq : q < 76800) (d : Px) :
    (b.idleFrames (n + 1)).buf.getD q d = pxCode c0 false ∧
    FrameStart m (b.idleFrames (n + 1)) c0 := by
  induction n generalizing b with
  | zero =>
    obtain ⟨⟨c, h1, h2, _⟩, fs⟩ := frame_matches_writes m b c0 hs [] trivial q hq d
    have : c = c0 := by
      have := colourAt_some m [] q c0
      rw [this] at h1
      exact (Option.some.inj h1).symm
    subst this
    exact ⟨h2, fs⟩
  | succ n ih =>
    obtain ⟨_, fs⟩ := frame_matches_writes m b c0 hs [] trivial q hq d
    exact ih b.newFrame fs

/-- **Reported colour.** After any list of operations of the controller model the colour reported
to the host (`border_color()`) is the low three bits of the last value written to a port routed
to the ULA, or the border of the last loaded snapshot — whichever came last; no other operation
(time passing, memory writes, paging, loads, pokes, writes to other ports) changes it. -/
theorem reported_colour (fixed : Bool) (ops : List Op) (c : Ctl) :
    (c.run fixed ops).borderColor = ops.foldl (fun acc op => (op.borderWrite).getD acc) c.borderColor := by
  induction ops generalizing c with
  | nil => rfl
  | cons op ops ih =>
    show ((c.step fixed op).run fixed ops).borderColor = _
    rw [ih, step_bc]
    rfl

/-! Non-vacuity -/

/-- port 0xFE is routed to the ULA; the AY register-select port and odd ports are not -/
example : ulaRouted 0x00FE ∧ ¬ ulaRouted 0xFFFD ∧ ¬ ulaRouted 0x7FFD := by decide

/-- the power-on border is a frame start carrying white -/
example : FrameStart .k48 (Border.new .k48) 7 :=
  ⟨by simp [Border.new], rfl, rfl, rfl, rfl, rfl⟩

/-- a sorted write list with two writes on one line, one in retrace and one after the last line -/
example : Sorted [(9000, 1), (9050, 2), (9120, 3), (69000, 4)] := by
  simp [Sorted]

/-- positions: left edge of line 0, 110 px further, retrace -> start of line 1, past the end -/
example : Spec.beamPos .k48 8945 = some 2 ∧ Spec.beamPos .k48 9000 = some 112 ∧
    Spec.beamPos .k48 9120 = some 320 ∧ Spec.beamPos .k48 69000 = none := by decide

end ZxVerif.C09
