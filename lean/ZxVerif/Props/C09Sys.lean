/-
C09 (system level) — the C09 statements for *every program*.

Props/C09.lean proves the frame theorem for lists of `set_border` calls whose clocks do not decrease
("sorted write list"), and the reported colour for operation lists. Here the calls are the ones a
Z80 program makes: `Z80.emulate` runs on the bus `VBus` (Lemmas/VideoBus.lean), whose `write_io` is
`Video.Ctl.writeIo` (`VBus.ctl_writeIo`); every write to a port routed to the ULA is logged, in
time order, with the frame clock and colour `set_border` is called with (`VBus.device_log`: the
logged pair is the argument pair of that very call). The closure theorem `Z80.BusClosed.run`
(Lemmas/Z80Closed.lean) carries the invariants through every instruction: all opcode pages,
interrupts, port reads with arbitrary input values, both machines, any CPU state, any run length —
no bound on the waits is needed for the border.

Ghost fields of `VBus` used in the statements: `ulaWrites` / `frameCol` = the ULA writes of the
frame in progress and the colour the beam carried when it started; `doneWrites` / `doneCol` = the
same for the frame completed last; `frameStart` = the controller right after the `wait_internal`
that completed that frame (its border buffer is what the host is handed); `ulaHist` = every data
byte written to the ULA so far.
-/
import ZxVerif.Lemmas.VideoBusBorder
import ZxVerif.Lemmas.Z80Closed
import ZxVerif.Props.C09
import ZxVerif.Props.C08Sys
namespace ZxVerif.C09Sys
open ZxVerif.Z80 ZxVerif.Video

/-- the C09 invariants of the bus state (`BGood`) carry over -/
def Keeps (m : Machine) (z z' : VBus) : Prop := BGood m z → BGood m z'

/-- every primitive bus operation keeps them, whatever the clock counts -/
theorem keeps_closed (m : Machine) : BusClosed (Keeps m) where
  refl _ := id
  trans h1 h2 := fun h => h2 (h1 h)
  waitMreq a k _ := fun h => h.waitMreq a k
  waitNoMreq a k _ := fun h => h.waitMreq a k
  waitInternal k _ := fun h => h.wait k
  readInternal _ _ := id
  writeInternal a v _ := fun h => h.store a v
  readIo p _ := fun h => h.readIo p
  writeIo p v _ := fun h => h.writeIo p v
  readInterrupt _ := id
  reti _ := id
  halt _ _ := id
  pcCallback _ _ := id

/-- **Every program keeps the invariants**, from any state that has them. -/
theorem program_keeps_good (m : Machine) (v : Variant) (n : Nat) (s : Cpu) (z : VBus) (h : BGood m z) :
    BGood m (Z80.run v n (s, z)).2 :=
  (keeps_closed m).run v n (s, z) h

/-- **The ULA writes of every program are a sorted write list.** Whatever program runs from
power-on, for however long: the port writes it has made to the ULA in the frame in progress reached
`set_border` with non-decreasing frame clocks, none of them later than the present frame clock (so
the next one will not be earlier either), and the same holds for the complete write list of the
frame completed last — the hypothesis `Sorted` of `C09.frame_matches_writes` is met by every
program. -/
theorem ula_writes_sorted_every_program (m : Machine) (inp : Nat → BitVec 8) (v : Variant) (n : Nat) (s : Cpu) :
    let z := (Z80.run v n (s, VBus.new m inp)).2
    Sorted z.ulaWrites ∧ (∀ w, w ∈ z.ulaWrites → w.1 ≤ z.ctl.frameClocks) ∧
    (1 ≤ z.ctl.passedFrames → Sorted z.doneWrites) := by
  intro z
  have g : BGood m z := program_keeps_good m v n s _ (BGood.new m inp)
  exact ⟨g.sorted, g.le, fun h => (g.done h).sorted⟩

/-- **The border buffer invariant holds after every program.** At any point of any program the
frame invariant of `set_border` (`BInv`, the invariant behind `C09.frame_matches_writes`) holds for
the writes of the frame in progress; in particular, while the beam has not left the last visible
line, every border pixel before the position of the last write already shows the colour of the
last write whose beam position is at or before it. -/
theorem border_invariant_every_program (m : Machine) (inp : Nat → BitVec 8) (v : Variant) (n : Nat) (s : Cpu) :
    let z := (Z80.run v n (s, VBus.new m inp)).2
    BInv m z.frameCol z.ulaWrites z.ctl.border ∧
    z.ctl.border.beamLast.color = lastCol z.frameCol z.ulaWrites ∧
    (z.ctl.border.block = false → ∀ q d, q < z.ctl.border.pos →
      z.ctl.border.buf.getD q d = pxCode (colAt m z.frameCol z.ulaWrites q) false) := by
  intro z
  have g : BGood m z := program_keeps_good m v n s _ (BGood.new m inp)
  exact ⟨g.inv, g.inv.cur, fun hb => (g.inv.open_ hb).1⟩

/-- **A frame is what the program wrote.** Once a frame has been completed, every one of the 76800
pixels of the border buffer handed to the host shows exactly the colour of the last ULA write of
that frame whose beam position is at or before the pixel (the colour carried over from the frame
before if there is none) — the spec's `colourAt` with zero tolerance, hence within its ±16 px —
and the next frame started clean, carrying the last colour. For every program, any number of writes
per line, in retrace, before the first and after the last visible line. -/
theorem frame_matches_writes_every_program (m : Machine) (inp : Nat → BitVec 8) (v : Variant) (n : Nat) (s : Cpu)
    (q : Nat) (hq : q < 76800) (d : Px) :
    let z := (Z80.run v n (s, VBus.new m inp)).2
    1 ≤ z.ctl.passedFrames →
    (∃ c, Spec.colourAt m (some z.doneCol) z.doneWrites q = some c ∧
      z.frameStart.border.buf.getD q d = pxCode c false ∧
      Spec.allowedAt m (some z.doneCol) z.doneWrites q c = true) ∧
    FrameStart m z.frameStart.border (lastCol z.doneCol z.doneWrites) := by
  intro z h1
  have g : BGood m z := program_keeps_good m v n s _ (BGood.new m inp)
  have dn := g.done h1
  refine ⟨⟨colAt m z.doneCol z.doneWrites q, colourAt_some m _ q _, dn.pixels q d hq, ?_⟩, by rw [← dn.carry]; exact dn.start⟩
  unfold Spec.allowedAt Spec.allowedAtPos
  rw [List.any_eq_true]
  refine ⟨16, by decide, ?_⟩
  have hc := colourAt_some m z.doneWrites q z.doneCol
  unfold Spec.colourAt at hc
  have e : q / 320 * 320 + (q % 320 + 16 - 16) = q := by omega
  simp only [e, hc, beq_self_eq_true, Bool.and_true, Bool.and_eq_true, decide_eq_true_eq]
  omega

/-- … which is, pixel for pixel, the frame `C09.frame_matches_writes` computes from the program's
write list: replaying the logged writes as a plain list of `set_border` calls on any border that is
at a frame start with the same carried colour, then `new_frame`, gives the same buffer. -/
theorem frame_equals_write_list_frame (m : Machine) (inp : Nat → BitVec 8) (v : Variant) (n : Nat) (s : Cpu)
    (b0 : Border) (q : Nat) (hq : q < 76800) (d : Px) :
    let z := (Z80.run v n (s, VBus.new m inp)).2
    1 ≤ z.ctl.passedFrames → FrameStart m b0 z.doneCol →
    z.frameStart.border.buf.getD q d =
      ((z.doneWrites.foldl (fun b w => b.setBorder w.1 w.2) b0).newFrame).buf.getD q d := by
  intro z h1 hs
  have g : BGood m z := program_keeps_good m v n s _ (BGood.new m inp)
  have dn := g.done h1
  obtain ⟨⟨c, k1, k2, _⟩, _⟩ := C09.frame_matches_writes m b0 z.doneCol hs z.doneWrites dn.sorted q hq d
  rw [colourAt_some] at k1
  rw [dn.pixels q d hq, k2, Option.some.inj k1]

/-- **Reported colour.** After every program the colour reported to the host (`border_color()`) is
the low three bits of the last byte the program wrote to a port routed to the ULA (black, the
power-on value, before the first such write); nothing else a program can do changes it. -/
theorem reported_colour_every_program (m : Machine) (inp : Nat → BitVec 8) (v : Variant) (n : Nat) (s : Cpu) :
    let z := (Z80.run v n (s, VBus.new m inp)).2
    z.ctl.borderColor = (Spec.reportedColour z.ulaHist).getD 0 := by
  intro z
  have g : BGood m z := program_keeps_good m v n s _ (BGood.new m inp)
  exact g.colour

/-! Non-vacuity -/

/-- **The statements above do say something: a program that completes frames.** The idle power-on
machine (all-zero memory, interrupts disabled: NOPs for ever, see
`C08Sys.idle_machine_delivers_decoded_frames`) has completed a frame after 17727 instructions;
it never writes to the ULA, so `frame_matches_writes_every_program` applies with an empty write
list and says that every border pixel handed to the host shows the colour the beam carried since
power-on (white), while the reported colour is still the power-on black. -/
theorem idle_machine_border (m : Machine) (inp : Nat → BitVec 8) (v : Variant) (s : Cpu)
    (h1 : s.iff1 = false) (h2 : s.skipInt = false) (h3 : s.activePrefix = .none) (n : Nat) (hn : 17727 ≤ n)
    (q : Nat) (hq : q < 76800) (d : Px) :
    let z := (Z80.run v n (s, VBus.new m inp)).2
    1 ≤ z.ctl.passedFrames ∧ z.frameStart.border.buf.getD q d = pxCode 7 false ∧ z.ctl.borderColor = 0 := by
  intro z
  obtain ⟨hpf, _, _⟩ := C08Sys.idle_machine_delivers_decoded_frames m inp v s h1 h2 h3 n hn 0 0 (by decide) (by decide) d
  obtain ⟨hi, _⟩ := idle_run m v n s _ (Idle.new m inp s h1 h2 h3)
  obtain ⟨⟨c, k1, k2, _⟩, _⟩ := frame_matches_writes_every_program m inp v n s q hq d hpf
  refine ⟨hpf, ?_, ?_⟩
  · show z.frameStart.border.buf.getD q d = _
    rw [k2]
    rw [hi.dnoUla, hi.dcol] at k1
    have : c = 7 := (Option.some.inj k1).symm
    rw [this]
  · have g : BGood m z := program_keeps_good m v n s _ (BGood.new m inp)
    have hh : z.ulaHist = [] := hi.hist
    show z.ctl.borderColor = 0
    rw [g.colour, hh]
    rfl

/-- the power-on bus state of either machine has the invariants -/
example : BGood .k48 (VBus.new .k48 (fun _ => 0xFF)) ∧ BGood .k128 (VBus.new .k128 (fun _ => 0)) :=
  ⟨BGood.new _ _, BGood.new _ _⟩

/-- what a port write logs: OUT (0xFE),0x12 at power-on is a ULA write of colour 2 at frame clock 0;
a write to the AY data port or to the 128K paging port is none -/
example : ((VBus.new .k48 (fun _ => 0xFF)).device 0x00FE 0x12).ulaWrites = [(0, 2)] ∧
    ((VBus.new .k48 (fun _ => 0xFF)).device 0x00FE 0x12).ulaHist = [0x12] ∧
    ((VBus.new .k128 (fun _ => 0xFF)).device 0xBFFD 0x12).ulaWrites = [] ∧
    ((VBus.new .k128 (fun _ => 0xFF)).device 0x7FFD 0x12).ulaWrites = [] := by
  decide

/-- the reported colour of a history is that of its last byte -/
example : Spec.reportedColour [0x07, 0x12] = some 2 ∧ Spec.reportedColour [] = none := by decide

/-- the bus at work (kernel evaluation of one `emulate`): `OUT (0xFE),A` at 0x8000 with A = 2 on the
48K — `set_border` is called at frame clock 8 (4-T fetch, 3-T operand read, first I/O T-state) with
colour 2, which is then the reported colour; the instruction ends at T 11 -/
example : let z := (Z80.run .hw 1 ({ pc := 0x8000, a := 0x02 },
      ((VBus.new .k48 (fun _ => 0xFF)).store 0x8000 0xD3).store 0x8001 0xFE)).2
    z.ulaWrites = [(8, 2)] ∧ z.ulaHist = [0x02] ∧ z.ctl.borderColor = 2 ∧ z.ctl.frameClocks = 11 := by
  decide +kernel

end ZxVerif.C09Sys
