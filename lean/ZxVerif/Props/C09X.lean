/-
C09 — theorems over the border constants and expressions translated from the Rust sources on every
run (tools/extract.py, table VideoConsts → ZxVerif/Extracted/VideoConsts.lean): the border size and
pixels-per-T-state constants of constants.rs, `ZXBorder::next_border_pixel` translated statement by
statement, the range and coordinate expressions of `fill_to`, the end-of-frame `fill_to` call, and
the per-machine numbers of the `ZXSpecsBuilder` chains (machine/{mod,specs}.rs).
What the source text says now is what Model/Video.lean runs and the property's beam arithmetic.
-/
import ZxVerif.Lemmas.VideoX
import ZxVerif.Props.C09
set_option linter.unusedSimpArgs false
namespace ZxVerif.C09X
open ZxVerif.Video

/-- border constants of constants.rs are the model's and the property's: a 320×240 buffer = the
256×192 picture plus 4 character columns / 3 character rows of border on each side, the beam
paints 2 pixels per T-state, a character column takes 4 T-states -/
theorem border_consts_extracted :
    Extracted.Video.SCREEN_WIDTH = screenWidth ∧ Extracted.Video.SCREEN_HEIGHT = screenHeight ∧
    Extracted.Video.BORDER_COLS = borderCols ∧ Extracted.Video.BORDER_ROWS = borderRows ∧
    Extracted.Video.PIXELS_PER_CLOCK = pixelsPerClock ∧ Extracted.Video.CLOCKS_PER_COL = clocksPerCol ∧
    screenWidth = 320 ∧ screenHeight = 240 ∧ pixelsPerClock = 2 ∧
    Extracted.Video.SCREEN_WIDTH = Extracted.Video.CANVAS_WIDTH + 2 * (8 * Extracted.Video.BORDER_COLS) ∧
    Extracted.Video.SCREEN_HEIGHT = Extracted.Video.CANVAS_HEIGHT + 2 * (8 * Extracted.Video.BORDER_ROWS) := by
  decide

/-- the per-machine numbers the border depends on, as the `ZXSpecsBuilder` chains and the builder's
derivations (translated) give them, are the model's and the property's: first picture pixel at
14336 / 14362, 224 / 228 T per line, 69888 / 70908 T per frame, beam shift 1, 48 border lines above
and below the picture of which the buffer shows 24; hence the buffer origin 8945 / 8875 -/
theorem border_geometry_extracted (m : Machine) :
    (geomOf m).clocks_first_pixel = m.firstPixel ∧
    (geomOf m).clocks_line = m.clocksLine ∧
    (geomOf m).clocks_frame = m.clocksFrame ∧
    (geomOf m).clocks_ula_beam_shift = ulaBeamShift ∧
    (geomOf m).lines_top_border = 48 ∧ (geomOf m).lines_bottom_border = 48 ∧
    8 * Extracted.Video.BORDER_ROWS ≤ (geomOf m).lines_top_border ∧
    (geomOf m).clocks_left_border = 24 ∧ (geomOf m).clocks_right_border = 24 ∧
    Extracted.Video.BORDER_COLS * Extracted.Video.CLOCKS_PER_COL ≤ (geomOf m).clocks_left_border ∧
    (geomOf m).clocks_first_pixel - 8 * Extracted.Video.BORDER_ROWS * (geomOf m).clocks_line
        - Extracted.Video.BORDER_COLS * Extracted.Video.CLOCKS_PER_COL + (geomOf m).clocks_ula_beam_shift
      = m.borderOrigin ∧
    m.borderOrigin = Spec.borderOrigin m := by
  cases m <;> decide

/-- **`ZXBorder::next_border_pixel`, translated statement by statement, is the model's** for every
frame clock on both machines: (line, pixel, frame end) of the first border pixel a write at frame
clock `t` affects -/
theorem next_border_pixel_is_model (m : Machine) (t : Nat) :
    Extracted.Video.nextBorderPixel (geomOf m) t = nextBorderPixel m t := by
  have c1 : Extracted.Video.CLOCKS_PER_COL = 4 := rfl
  have c2 : Extracted.Video.BORDER_COLS = 4 := rfl
  have c3 : Extracted.Video.BORDER_ROWS = 3 := rfl
  have c4 : Extracted.Video.PIXELS_PER_CLOCK = 2 := rfl
  have c5 : Extracted.Video.SCREEN_WIDTH = 320 := by decide
  have c6 : Extracted.Video.SCREEN_HEIGHT = 240 := by decide
  have d1 : pixelsPerClock = 2 := rfl
  have d2 : screenWidth = 320 := rfl
  have d3 : screenHeight = 240 := rfl
  cases m
  · have g1 : (geomOf .k48).clocks_first_pixel = 14336 := by decide
    have g2 : (geomOf .k48).clocks_line = 224 := by decide
    have g3 : (geomOf .k48).clocks_ula_beam_shift = 1 := by decide
    have e1 : Machine.k48.borderOrigin = 8945 := rfl
    have e2 : Machine.k48.clocksLine = 224 := rfl
    unfold Extracted.Video.nextBorderPixel nextBorderPixel
    rw [g1, g2, g3, e1, e2, c1, c2, c3, c4, c5, c6, d1, d2, d3]
    simp only [decide_eq_true_eq]
    (repeat' split) <;> first | (exfalso; omega) | (with_reducible rfl) | (simp only [Prod.mk.injEq, and_true, true_and]; omega)
  · have g1 : (geomOf .k128).clocks_first_pixel = 14362 := by decide
    have g2 : (geomOf .k128).clocks_line = 228 := by decide
    have g3 : (geomOf .k128).clocks_ula_beam_shift = 1 := by decide
    have e1 : Machine.k128.borderOrigin = 8875 := rfl
    have e2 : Machine.k128.clocksLine = 228 := rfl
    unfold Extracted.Video.nextBorderPixel nextBorderPixel
    rw [g1, g2, g3, e1, e2, c1, c2, c3, c4, c5, c6, d1, d2, d3]
    simp only [decide_eq_true_eq]
    (repeat' split) <;> first | (exfalso; omega) | (with_reducible rfl) | (simp only [Prod.mk.injEq, and_true, true_and]; omega)

/-- **Beam position, from the source.** `next_border_pixel` as it stands in the source is the
property's beam position for every frame clock on both machines: frame end exactly when the beam has
left the last visible line, otherwise the same linear position `line·320 + pixel` -/
theorem beam_pos_from_source (m : Machine) (t : Nat) :
    (Spec.beamPos m t = none ↔ (Extracted.Video.nextBorderPixel (geomOf m) t).2.2 = true) ∧
    (∀ P, Spec.beamPos m t = some P →
      (Extracted.Video.nextBorderPixel (geomOf m) t).2.2 = false ∧
      P = (Extracted.Video.nextBorderPixel (geomOf m) t).1 * Extracted.Video.SCREEN_WIDTH
            + (Extracted.Video.nextBorderPixel (geomOf m) t).2.1) := by
  rw [next_border_pixel_is_model, show Extracted.Video.SCREEN_WIDTH = 320 by decide]
  exact ⟨(C09.beam_pos_formula m t).1, (C09.beam_pos_formula m t).2.1⟩

/-- the range and coordinate expressions of `fill_to` and the end-of-frame fill as they stand in
the source are the model's (`Border.fillTo`, `fillRange`, `Border.newFrame` / `setBorder`): linear
position `line·320 + pixel`, painted at `(p mod 320, p div 320)`, a frame is completed by filling up
to `(239, 320)` -/
theorem fill_exprs_extracted :
    (∀ line pixel : Nat, Extracted.Video.fillFrom line pixel = line * screenWidth + pixel ∧
                         Extracted.Video.fillUpTo line pixel = line * screenWidth + pixel) ∧
    (∀ p : Nat, Extracted.Video.fillY p * screenWidth + Extracted.Video.fillX p
                  = (p / screenWidth) * screenWidth + p % screenWidth) ∧
    Extracted.Video.fillEnd = (screenHeight - 1, screenWidth) := by
  refine ⟨fun _ _ => ⟨rfl, rfl⟩, fun _ => rfl, by decide⟩

end ZxVerif.C09X
