/-
C10 — fast tape loading leaves the machine exactly as the ROM's LD-BYTES would.
(work in progress: theorems are added below)
-/
import ZxVerif.Spec.Tape
set_option linter.constructorNameAsVariable false
namespace ZxVerif.C10
open ZxVerif.Tape

/-- a CPU state at the trap for the witness below -/
def witnessCpu : Cpu :=
  { a := 0x02, f := 0x42, a' := 0xFF, f' := 0x01, ix := 0x8000, de := 0x0010, hl := 0x053F,
    sp := 0xFF3E, pc := 0x056B }

/-- `no_block_no_effect` is false for the code as it is: on an empty tape the trap swaps AF/AF'. -/
theorem no_block_no_effect_fails :
    (fastLoadTap false witnessCpu { base := fun _ => 0 } (Tap.new [])).2.1 ≠ witnessCpu := by
  decide

end ZxVerif.C10
