/-
C10 — fast tape loading leaves the machine exactly as the ROM's LD-BYTES would.

Only property theorems live here (helper lemmas: ZxVerif/Lemmas/Tape.lean).
Model : ZxVerif/Model/Tape.lean  (Reader = the 128-byte buffer machine of `Tap`; `fastLoadTap`;
        `sysCall` = the ROM glue around the trap). `fixed = false` is the code as found,
        `fixed = true` the code with proposed_fixes/C10-1.diff.
Spec  : ZxVerif/Spec/Tape.lean   (`ldBytes`, byte-level reading of ROM 0x0556–0x05E2; `encodeBlock`)
Quantifiers: every block payload shorter than 65536 bytes (so 0, 127/128/129, 255/256/257, 65535 are
instances), every continuation `post` of the image (further blocks, junk, nothing), every reader
position reachable between requests (`Ahead`), every CPU state and memory.
-/
import ZxVerif.Lemmas.Tape
set_option linter.constructorNameAsVariable false
namespace ZxVerif.C10
open ZxVerif.Tape

/-- **The buffer machine is a stream.** Wherever the reader stands between two blocks, if the image
continues with a block `len_lo len_hi bs` (any length below 65536, crossing any number of 128-byte
windows), `next_block` opens it and repeated `next_block_byte` delivers exactly the bytes `bs`, in
order, and then `None` — leaving the reader between blocks again with the rest of the image ahead. -/
theorem buffer_is_stream (bs post : List Byte) (hlen : bs.length < 65536) (r : Reader)
    (h : Ahead r (Spec.encodeBlock bs ++ post)) :
    ∃ r1 r2, nextBlock r = (.ok true, r1) ∧ Yields r1 bs r2 ∧ Idle r2 post := by
  obtain ⟨r1, he, hinv, h0⟩ := nextBlock_block h hlen
  obtain ⟨r2, hy, hinv2, hk⟩ := yields_of_inv _ r1 hinv rfl
  rw [h0, List.drop_zero] at hy
  exact ⟨r1, r2, he, hy, hinv2.idle hk⟩

/-- … in particular for a freshly inserted tape. -/
theorem buffer_is_stream_fresh (bs post : List Byte) (hlen : bs.length < 65536) :
    ∃ r1 r2, nextBlock (Reader.new (Spec.encodeBlock bs ++ post)) = (.ok true, r1) ∧ Yields r1 bs r2
      ∧ Idle r2 post :=
  buffer_is_stream bs post hlen _ (Ahead.fresh _)

/-- **`next_block` skips leftovers.** From any position inside a block `bs` (any number of its
bytes consumed), `next_block` opens exactly the following block `bs'` at its first byte. -/
theorem next_block_skips_leftovers (bs bs' post : List Byte) (hlen : bs.length < 65536)
    (hlen' : bs'.length < 65536) (r : Reader) (h : Inv r bs (Spec.encodeBlock bs' ++ post)) :
    ∃ r1 r2, nextBlock r = (.ok true, r1) ∧ Yields r1 bs' r2 ∧ Idle r2 post :=
  buffer_is_stream bs' post hlen' r (.mid hlen h)

/-- When fewer than two bytes of the image are left, `next_block` reports the end of the tape and
keeps reporting it. -/
theorem next_block_at_end (post : List Byte) (hp : post.length < 2) (r : Reader) (h : Ahead r post) :
    ∃ r1, nextBlock r = (.ok false, r1) ∧ nextBlock r1 = (.ok false, r1) := by
  obtain ⟨r1, he, hend⟩ := nextBlock_end h hp
  exact ⟨r1, he, nextBlock_ended hend⟩

/-- **Fast loading refines LD-BYTES.** For every tape position with a block `bs` ahead, every CPU
state at the trap whose saved flags come from the ROM prologue (`prologOk`: Z' ⇔ D = 0xFF) and every
memory: `fast_load_tap` ends without error and leaves memory, IX, DE and carry exactly as the
byte-level LD-BYTES does when it reads `bs` (stores/compares in order, flag check unless D = 0xFF,
parity, early end); both the code as found and the repaired code. -/
theorem fastload_refines_ldbytes (fixed : Bool) (bs post : List Byte) (hlen : bs.length < 65536)
    (c : Cpu) (m : Mem) (t : Tap) (h : Ahead t.rd (Spec.encodeBlock bs ++ post)) (hp : c.prologOk) :
    ∃ c' t', fastLoadTap fixed c m t = (none, c', (Spec.ldBytes c.request m bs).mem, t')
      ∧ c'.ix = (Spec.ldBytes c.request m bs).ix
      ∧ c'.de = (Spec.ldBytes c.request m bs).de
      ∧ (c'.f &&& FLAG_CARRY != 0) = (Spec.ldBytes c.request m bs).carry := by
  obtain ⟨r1, he, hinv, h0⟩ := nextBlock_block h hlen
  obtain ⟨c', rd', hb, _, hix, hde, hcy, _, _⟩ :=
    fastLoadBody_refines c.swapAf m t r1 hinv h0 hlen hp
  refine ⟨c', { t with rd := rd' }, ?_, hix, hde, hcy⟩
  cases fixed <;> simp only [fastLoadTap, he, Bool.false_eq_true, if_false, if_true] <;> exact hb

/-- **Exactly one block is consumed.** Whatever the request did with the block (all of it, a
prefix, only the flag byte), afterwards the tape stands so that the rest of the image `post` is
what comes next; the pulse-generator fields of the tape are untouched. -/
theorem consumes_exactly_one_block (fixed : Bool) (bs post : List Byte) (hlen : bs.length < 65536)
    (c : Cpu) (m : Mem) (t : Tap) (h : Ahead t.rd (Spec.encodeBlock bs ++ post)) (hp : c.prologOk) :
    ∃ rd', (fastLoadTap fixed c m t).2.2.2 = { t with rd := rd' } ∧ Ahead rd' post := by
  obtain ⟨r1, he, hinv, h0⟩ := nextBlock_block h hlen
  obtain ⟨c', rd', hb, hinv', _⟩ := fastLoadBody_refines c.swapAf m t r1 hinv h0 hlen hp
  refine ⟨rd', ?_, .mid hlen hinv'⟩
  cases fixed <;> simp only [fastLoadTap, he, Bool.false_eq_true, if_false, if_true] <;> rw [hb]

/-- … so the following request is served from the following block. -/
theorem second_request_sees_second_block (fixed : Bool) (bs bs' post : List Byte)
    (hlen : bs.length < 65536) (hlen' : bs'.length < 65536) (c c2 : Cpu) (m : Mem) (t : Tap)
    (h : Ahead t.rd (Spec.encodeBlock bs ++ (Spec.encodeBlock bs' ++ post)))
    (hp : c.prologOk) (hp2 : c2.prologOk) :
    let r1 := fastLoadTap fixed c m t
    ∃ c' t', fastLoadTap fixed c2 r1.2.2.1 r1.2.2.2 = (none, c', (Spec.ldBytes c2.request r1.2.2.1 bs').mem, t')
      ∧ (c'.f &&& FLAG_CARRY != 0) = (Spec.ldBytes c2.request r1.2.2.1 bs').carry := by
  intro r1
  obtain ⟨rd', ht, ha⟩ := consumes_exactly_one_block fixed bs _ hlen c m t h hp
  have ha' : Ahead r1.2.2.2.rd (Spec.encodeBlock bs' ++ post) := by
    show Ahead (fastLoadTap fixed c m t).2.2.2.rd _
    rw [ht]; exact ha
  obtain ⟨c', t', he, _, _, hc⟩ := fastload_refines_ldbytes fixed bs' post hlen' c2 r1.2.2.1 r1.2.2.2 ha' hp2
  exact ⟨c', t', he, hc⟩

/-- **No block, no effect** — for the repaired code: at the end of the tape (or on an empty tape)
the trap changes neither the CPU nor memory and does not return, every time it is raised. -/
theorem no_block_no_effect (post : List Byte) (hp : post.length < 2) (c : Cpu) (m : Mem) (t : Tap)
    (h : Ahead t.rd post) :
    ∃ t', fastLoadTap true c m t = (none, c, m, t') ∧ fastLoadTap true c m t' = (none, c, m, t') := by
  obtain ⟨r1, he, hend⟩ := nextBlock_end h hp
  refine ⟨{ t with rd := r1 }, ?_, ?_⟩
  · simp [fastLoadTap, he]
  · simp [fastLoadTap, nextBlock_ended hend]

/-- At system level (repaired code): a call of 0x0556 against a tape with no block left neither
returns to its caller nor changes anything — the ROM keeps polling, as with a silent tape. -/
theorem no_block_no_effect_sys (post : List Byte) (hp : post.length < 2) (r : Request)
    (sp : BitVec 16) (m : Mem) (t : Tap) (hs : t.state = .stop) (h : Ahead t.rd post) :
    ∃ t', sysCall true r sp m t = (.loops, cpuAtTrap r sp, memAtTrap m sp, t') := by
  obtain ⟨t', he, _⟩ := no_block_no_effect post hp (cpuAtTrap r sp) (memAtTrap m sp) t h
  refine ⟨t', ?_⟩
  have hcan : t.canFastLoad = true := by simp [Tap.canFastLoad, hs]
  simp only [sysCall, fastLoadEvent, hcan, if_true, he]
  simp [cpuAtTrap, SA_LD_RET, LD_BREAK, FLAG_ZERO]

/-- The code as found, partial statement: at the end of the tape memory, IX, DE, HL, SP and PC are
untouched — but AF and AF' have been exchanged … -/
theorem no_block_no_effect_partial (post : List Byte) (hp : post.length < 2) (c : Cpu) (m : Mem)
    (t : Tap) (h : Ahead t.rd post) :
    ∃ t', fastLoadTap false c m t = (none, c.swapAf, m, t') := by
  obtain ⟨r1, he, _⟩ := nextBlock_end h hp
  exact ⟨{ t with rd := r1 }, by simp [fastLoadTap, he]⟩

/-- … and therefore `no_block_no_effect` is **false** for the code as found: on an empty tape a
LOAD request (A = 0xFF, carry set, D ≠ 0xFF) comes back to its caller with carry set although
nothing was loaded (known finding `C10/end-of-tape/success-reported`). -/
theorem no_block_no_effect_fails :
    (sysCall false ⟨0xFF, true, 0x8000, 0x0010⟩ 0xFF40 { base := fun _ => 0 } (Tap.new [])).1
      = .returned true := by
  decide

/-- the same request against the repaired code does not come back -/
theorem no_block_no_effect_witness_fixed :
    (sysCall true ⟨0xFF, true, 0x8000, 0x0010⟩ 0xFF40 { base := fun _ => 0 } (Tap.new [])).1
      = .loops := by
  decide

/-- **System level.** A call of ROM 0x0556 with fast loading on and the tape stopped returns to
its caller with exactly LD-BYTES' memory, IX, DE and carry — provided the load did not overwrite the
two stack bytes holding SA/LD-RET. -/
theorem syscall_refines_ldbytes (fixed : Bool) (bs post : List Byte) (hlen : bs.length < 65536)
    (r : Request) (sp : BitVec 16) (m : Mem) (t : Tap) (hs : t.state = .stop)
    (h : Ahead t.rd (Spec.encodeBlock bs ++ post))
    (hstack : ((Spec.ldBytes r (memAtTrap m sp) bs).mem.read (sp - 2)).toNat
        + 256 * ((Spec.ldBytes r (memAtTrap m sp) bs).mem.read (sp - 2 + 1)).toNat = 0x053F) :
    ∃ c' t', sysCall fixed r sp m t
        = (.returned (Spec.ldBytes r (memAtTrap m sp) bs).carry, c', (Spec.ldBytes r (memAtTrap m sp) bs).mem, t')
      ∧ c'.ix = (Spec.ldBytes r (memAtTrap m sp) bs).ix
      ∧ c'.de = (Spec.ldBytes r (memAtTrap m sp) bs).de := by
  have hreq : (cpuAtTrap r sp).request = r := by
    cases r with | mk a load ix de =>
    cases load <;> simp only [Cpu.request, cpuAtTrap, prologFlags, FLAG_CARRY, FLAG_ZERO] <;>
      (split <;> simp)
  have hpro : (cpuAtTrap r sp).prologOk := by
    cases r with | mk a load ix de =>
    cases load <;> simp only [Cpu.prologOk, cpuAtTrap, prologFlags, FLAG_CARRY, FLAG_ZERO] <;>
      (split <;> simp [*])
  obtain ⟨r1, he, hinv, h0⟩ := nextBlock_block h hlen
  obtain ⟨c', rd', hb, _, hix, hde, hcy, _, _⟩ :=
    fastLoadBody_refines (cpuAtTrap r sp).swapAf (memAtTrap m sp) t r1 hinv h0 hlen hpro
  have hreq' : (⟨(cpuAtTrap r sp).swapAf.a, (cpuAtTrap r sp).swapAf.f &&& FLAG_CARRY != 0,
      (cpuAtTrap r sp).swapAf.ix, (cpuAtTrap r sp).swapAf.de⟩ : Request) = r := hreq
  rw [hreq'] at hb hix hde hcy
  have hfl : fastLoadEvent fixed (cpuAtTrap r sp) (memAtTrap m sp) t
      = (none, c', (Spec.ldBytes r (memAtTrap m sp) bs).mem, { t with rd := rd' }) := by
    have hcan : t.canFastLoad = true := by simp [Tap.canFastLoad, hs]
    simp only [fastLoadEvent, hcan, if_true]
    cases fixed <;> simp only [fastLoadTap, he, Bool.false_eq_true, if_false, if_true] <;> exact hb
  -- the popped return address is SA/LD-RET
  have hpc : c'.pc = SA_LD_RET := by
    simp only [fastLoadBody] at hb
    split at hb
    · simp at hb
    · rename_i s fl m' rd'' heq
      simp only [Prod.mk.injEq, true_and] at hb
      obtain ⟨hc', hm', _⟩ := hb
      rw [← hc', Cpu.finish, Cpu.popPc]
      simp only [Cpu.swapAf, cpuAtTrap]
      rw [hm', hstack]; rfl
  refine ⟨c', { t with rd := rd' }, ?_, hix, hde⟩
  simp only [sysCall, hfl, hpc, if_true]
  rw [hcy]

/-- **Every sequence of requests, also past the end of the tape** (repaired code). For a TAP image
made of any blocks (each shorter than 65536 bytes) followed by at most one stray byte, any list of
requests served by the trap one after the other gives, request by request, what LD-BYTES gives on
the blocks taken in order — and `none` (no return, nothing changed) for every request after the
last block; the final memories are equal too. -/
theorem request_sequence_refines (cs : List Cpu) (hcs : ∀ c ∈ cs, c.prologOk) :
    ∀ (blocks : List (List Byte)) (tail : List Byte) (m : Mem) (t : Tap),
      (∀ b ∈ blocks, b.length < 65536) → tail.length < 2 →
      (Ahead t.rd (Spec.encode blocks ++ tail) ∨ (blocks = [] ∧ t.rd.tapeEnded = true)) →
      modelSeq true cs m t = specSeq cs m blocks := by
  induction cs with
  | nil => intros; rfl
  | cons c cs ih =>
    intro blocks tail m t hb ht hpos
    have hc := hcs c List.mem_cons_self
    have hcs' : ∀ c ∈ cs, c.prologOk := fun c' h' => hcs c' (List.mem_cons_of_mem _ h')
    cases blocks with
    | nil =>
      have hnb : ∃ t', fastLoadTap true c m t = (none, c, m, t') ∧ t'.rd.tapeEnded = true := by
        rcases hpos with ha | ⟨_, hend⟩
        · obtain ⟨r1, he, hend⟩ := nextBlock_end (by simpa [Spec.encode] using ha) ht
          exact ⟨{ t with rd := r1 }, by simp [fastLoadTap, he], hend⟩
        · exact ⟨t, by simp [fastLoadTap, nextBlock_ended hend], hend⟩
      obtain ⟨t', he, hend⟩ := hnb
      simp only [modelSeq, specSeq, he, if_true]
      rw [ih hcs' [] tail m t' (by simp) ht (.inr ⟨rfl, hend⟩)]
    | cons b bs =>
      have hbl : b.length < 65536 := hb b List.mem_cons_self
      have ha : Ahead t.rd (Spec.encodeBlock b ++ (Spec.encode bs ++ tail)) := by
        rcases hpos with ha | ⟨h, _⟩
        · simpa [encode_cons, List.append_assoc] using ha
        · cases h
      obtain ⟨c', t', he, hix, hde, hcy⟩ := fastload_refines_ldbytes true b _ hbl c m t ha hc
      obtain ⟨rd', ht', hah⟩ := consumes_exactly_one_block true b _ hbl c m t ha hc
      have hsp : c'.sp ≠ c.sp := by
        obtain ⟨r1, he1, hinv, h0⟩ := nextBlock_block ha hbl
        have hbody : fastLoadBody c.swapAf m t r1 = (none, c', (Spec.ldBytes c.request m b).mem, t') := by
          simpa [fastLoadTap, he1] using he
        simp only [fastLoadBody] at hbody
        split at hbody
        · simp at hbody
        · simp only [Prod.mk.injEq, true_and] at hbody
          rw [← hbody.1]
          simp only [Cpu.finish, Cpu.popPc, Cpu.swapAf]
          exact add_two_ne _
      have ht'' : t' = { t with rd := rd' } := by rw [he] at ht'; exact ht'
      simp only [modelSeq, specSeq, he, hsp, if_false, hix, hde, hcy]
      rw [ih hcs' bs tail _ t' (fun b' h' => hb b' (List.mem_cons_of_mem _ h')) ht
        (.inl (by rw [ht'']; exact hah))]

/-- The code as found, partial statement: the same holds as long as no request is made past the
last block. -/
theorem request_sequence_refines_partial (cs : List Cpu) (hcs : ∀ c ∈ cs, c.prologOk) :
    ∀ (blocks : List (List Byte)) (post : List Byte) (m : Mem) (t : Tap),
      (∀ b ∈ blocks, b.length < 65536) → cs.length ≤ blocks.length →
      Ahead t.rd (Spec.encode blocks ++ post) →
      modelSeq false cs m t = specSeq cs m blocks := by
  induction cs with
  | nil => intros; rfl
  | cons c cs ih =>
    intro blocks post m t hb hlen ha
    have hc := hcs c List.mem_cons_self
    have hcs' : ∀ c ∈ cs, c.prologOk := fun c' h' => hcs c' (List.mem_cons_of_mem _ h')
    cases blocks with
    | nil => simp at hlen
    | cons b bs =>
      have hbl : b.length < 65536 := hb b List.mem_cons_self
      have ha : Ahead t.rd (Spec.encodeBlock b ++ (Spec.encode bs ++ post)) := by
        simpa [encode_cons, List.append_assoc] using ha
      obtain ⟨c', t', he, hix, hde, hcy⟩ := fastload_refines_ldbytes false b _ hbl c m t ha hc
      obtain ⟨rd', ht', hah⟩ := consumes_exactly_one_block false b _ hbl c m t ha hc
      have hsp : c'.sp ≠ c.sp := by
        obtain ⟨r1, he1, hinv, h0⟩ := nextBlock_block ha hbl
        have hbody : fastLoadBody c.swapAf m t r1 = (none, c', (Spec.ldBytes c.request m b).mem, t') := by
          simpa [fastLoadTap, he1] using he
        simp only [fastLoadBody] at hbody
        split at hbody
        · simp at hbody
        · simp only [Prod.mk.injEq, true_and] at hbody
          rw [← hbody.1]
          simp only [Cpu.finish, Cpu.popPc, Cpu.swapAf]
          exact add_two_ne _
      have ht'' : t' = { t with rd := rd' } := by rw [he] at ht'; exact ht'
      simp only [modelSeq, specSeq, he, hsp, if_false, hix, hde, hcy]
      rw [ih hcs' bs post _ t' (fun b' h' => hb b' (List.mem_cons_of_mem _ h')) (by simpa using hlen)
        (by rw [ht'']; exact hah)]

/-! Non-vacuity: concrete instances on which the statements say something. -/

/-- a two-block tape: header-like block ff 01 fe and a second block 00 00 -/
example : Ahead (Reader.new (Spec.encodeBlock [0xFF, 0x01, 0xFE] ++ Spec.encodeBlock [0x00, 0x00]))
    (Spec.encodeBlock [0xFF, 0x01, 0xFE] ++ Spec.encodeBlock [0x00, 0x00]) := Ahead.fresh _

example : (Spec.ldBytes ⟨0xFF, true, 0x8000, 0x0001⟩ { base := fun _ => 0 } [0xFF, 0x01, 0xFE]).carry = true
    ∧ (Spec.ldBytes ⟨0xFF, true, 0x8000, 0x0001⟩ { base := fun _ => 0 } [0xFF, 0x01, 0xFE]).mem.read 0x8000 = 0x01 := by
  decide

example : (sysCall false ⟨0xFF, true, 0x8000, 0x0001⟩ 0xFF40 { base := fun _ => 0 }
    (Tap.new (Spec.encodeBlock [0xFF, 0x01, 0xFE]))).1 = .returned true := by decide

example : Cpu.prologOk (cpuAtTrap ⟨0xFF, true, 0x8000, 0xFF10⟩ 0xFF40) := by unfold Cpu.prologOk; decide

end ZxVerif.C10
