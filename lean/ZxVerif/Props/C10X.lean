/-
C10 — theorems over `fast_load_tap` *translated from the Rust source on every run* (tools/extract.py, table
FastLoad → ZxVerif/Extracted/FastLoad.lean): the prologue (block request, AF swap) in source order, the
register reads that set up the locals, one iteration of the `'loader` loop statement by statement (for
`Some(byte)` and for `None`: flag comparison, store through `write_internal` or compare for VERIFY,
parity accumulation, `dest.wrapping_add(1)`, `length -= 1`, every `break` / `continue`), and the
write-back after the loop (IX, DE, HL, A, the popped PC, the flags); the flag masks come from
rustzx-z80/src/registers.rs.

What the source text says now is exactly what the hand-written model `Model/Tape.lean` runs: one
iteration of the translated loop is one unfolding of the model's `loadLoop` for every state of the locals,
every tape byte and every memory; the loop, the body and the whole function assembled from the translated
pieces are *equal* to the model's `loadLoop`, `fastLoadBody`, `fastLoadTap true`. So the refinement
theorems of Props/C10.lean (fast loading = the ROM's LD-BYTES) are theorems about the statements as they
stand in fastload/tap.rs; a comparison, the parity rule, the order of store and increment or an exit
changed there breaks a theorem here.
-/
import ZxVerif.Extracted.FastLoad
import ZxVerif.Props.C10
set_option linter.constructorNameAsVariable false
namespace ZxVerif.C10X
open ZxVerif.Tape
open ZxVerif.Extracted.FastLoad (Regs Locals Iter Next Pre)

/-! ### the model's state seen as the source's -/

/-- the model's CPU as the register file the source reads and writes (BC, IY are not touched) -/
def toRegs (c : Cpu) : Regs :=
  { a := c.a, f := c.f, a' := c.a', f' := c.f', bc := 0, de := c.de, hl := c.hl, ix := c.ix, iy := 0,
    sp := c.sp, pc := c.pc }

/-- … and back -/
def ofRegs (r : Regs) : Cpu :=
  { a := r.a, f := r.f, a' := r.a', f' := r.f', ix := r.ix, de := r.de, hl := r.hl, sp := r.sp, pc := r.pc }

/-- the model's loop state as the source's locals, with `result_flags` -/
def loc (s : LoadSt) (rf : Option Byte) : Locals :=
  { f := s.f, acc := s.acc, dest := s.dest, length := s.len, parity_acc := s.parity, current_byte := s.cur,
    result_flags := rf }

/-- **Flag masks and prologue.** `FLAG_CARRY` = bit 0 and `FLAG_ZERO` = bit 6 as registers.rs defines
them are the model's; the function asks the tape for the next block first and swaps AF with AF' only when
there is one (the repaired order, `fastLoadTap true`: with the other order `C10.no_block_no_effect` is false). -/
theorem flags_and_prologue_extracted :
    Extracted.FastLoad.FLAG_CARRY = FLAG_CARRY ∧ Extracted.FastLoad.FLAG_ZERO = FLAG_ZERO ∧
    Extracted.FastLoad.prologue = [.nextBlockElseReturn, .swapAf] :=
  ⟨rfl, rfl, rfl⟩

/-- **Register reads at the trap.** After the AF swap the locals are: the flag byte A (the former A'),
the flags F (the former F': Z = flag byte already checked, carry = LOAD / VERIFY), destination IX, length
DE, parity and current byte 0, no result yet — the model's initial `LoadSt`, for every CPU state. -/
theorem init_extracted (c : Cpu) :
    Extracted.FastLoad.init (toRegs c) = loc { acc := c.a, f := c.f, dest := c.ix, len := c.de } none ∧
    Extracted.FastLoad.init (toRegs c.swapAf) =
      loc { acc := c.a', f := c.f', dest := c.ix, len := c.de } none :=
  ⟨rfl, rfl⟩

/-! ### one iteration -/

/-- **One iteration of the loop with a tape byte, statement by statement = the model's step**, for
every state of the locals, every tape byte `b` and every memory (`rd` = `memory.read`). With
`cur := b`, `parity := parity ⊕ b` first:
* `length = 0`: A := parity; leave with carry exactly when the parity is 0 (else no flags);
* Z clear in F (flag byte not yet compared): A := A ⊕ b; leave with no flags when that is not 0, else
  set Z in F and go on (nothing stored, `dest` / `length` unchanged);
* carry set in F (LOAD): store `b` at `dest` through `write_internal`, **then** `dest + 1` (wrapping),
  `length − 1`, go on;
* else (VERIFY): A := mem[dest] ⊕ b; leave with no flags when that is not 0, else `dest + 1`,
  `length − 1`, go on. -/
theorem iter_some_is_model (s : LoadSt) (b : Byte) (rd : BitVec 16 → Byte) :
    Extracted.FastLoad.iterSome (loc s none) b rd =
      (let s1 : LoadSt := { s with cur := b, parity := s.parity ^^^ b }
       if s1.len = 0 then
         ⟨loc { s1 with acc := s1.parity } (some (if s1.parity = 0 then FLAG_CARRY else 0)), none, .leave⟩
       else if s1.f &&& FLAG_ZERO = 0 then
         if s1.acc ^^^ b ≠ 0 then ⟨loc { s1 with acc := s1.acc ^^^ b } (some 0), none, .leave⟩
         else ⟨loc { s1 with acc := s1.acc ^^^ b, f := s1.f ||| FLAG_ZERO } none, none, .again⟩
       else if s1.f &&& FLAG_CARRY ≠ 0 then
         ⟨loc { s1 with dest := s1.dest + 1, len := s1.len - 1 } none, some (s1.dest, b), .again⟩
       else if rd s1.dest ^^^ b ≠ 0 then
         ⟨loc { s1 with acc := rd s1.dest ^^^ b } (some 0), none, .leave⟩
       else
         ⟨loc { s1 with acc := rd s1.dest ^^^ b, dest := s1.dest + 1, len := s1.len - 1 } none, none, .again⟩) := by
  simp only [Extracted.FastLoad.iterSome, loc, Extracted.FastLoad.FLAG_CARRY, Extracted.FastLoad.FLAG_ZERO,
    FLAG_CARRY, FLAG_ZERO]
  -- (comparisons written `0 == x` in the source are turned round first)
  try simp only [beq_iff_eq, bne_iff_ne, ne_eq, @eq_comm (BitVec 8) 0, @eq_comm (BitVec 16) 0,
    @eq_comm (BitVec 8) 0#8, @eq_comm (BitVec 16) 0#16]
  by_cases h1 : s.len = 0#16
  · by_cases h2 : s.parity ^^^ b = 0#8 <;> simp_all
  · by_cases h3 : s.f &&& 0x40#8 = 0#8
    · by_cases h4 : s.acc ^^^ b = 0#8 <;> simp_all
    · by_cases h5 : s.f &&& 0x01#8 = 0#8
      · by_cases h6 : rd s.dest ^^^ b = 0#8 <;> simp_all
      · simp_all

/-- **The block ends early**: when `next_block_byte()` has nothing more the loop is left with Z as the
result flags (carry clear: the ROM's "tape loading error" path), the locals untouched, nothing stored. -/
theorem iter_none_is_model (s : LoadSt) :
    Extracted.FastLoad.iterNone (loc s none) = ⟨loc s (some FLAG_ZERO), none, .leave⟩ := rfl

/-- **Store first, then increment** (the LOAD path, spelled out): with the flag byte checked, carry set
and `length ≠ 0`, the byte goes to the address `dest` held *before* the increment; afterwards `dest` is
one higher (modulo 65536), `length` one lower, the parity has taken the byte in, the loop goes on. -/
theorem load_stores_then_increments (s : LoadSt) (b : Byte) (rd : BitVec 16 → Byte)
    (hl : s.len ≠ 0) (hz : s.f &&& FLAG_ZERO ≠ 0) (hc : s.f &&& FLAG_CARRY ≠ 0) :
    (Extracted.FastLoad.iterSome (loc s none) b rd).store = some (s.dest, b) ∧
    (Extracted.FastLoad.iterSome (loc s none) b rd).locals.dest = s.dest + 1 ∧
    (Extracted.FastLoad.iterSome (loc s none) b rd).locals.length = s.len - 1 ∧
    (Extracted.FastLoad.iterSome (loc s none) b rd).locals.parity_acc = s.parity ^^^ b ∧
    (Extracted.FastLoad.iterSome (loc s none) b rd).next = .again := by
  rw [iter_some_is_model]
  simp only [loc]
  repeat' split
  all_goals simp_all

/-- **The final parity test** (spelled out): when the requested length is used up the byte just read is
the checksum; A becomes the XOR of every byte of the block including it, and the result is carry set
exactly when that XOR is 0, no flag otherwise; the loop is left, nothing is stored. -/
theorem parity_test_extracted (s : LoadSt) (b : Byte) (rd : BitVec 16 → Byte) (hl : s.len = 0) :
    (Extracted.FastLoad.iterSome (loc s none) b rd).locals.acc = s.parity ^^^ b ∧
    (Extracted.FastLoad.iterSome (loc s none) b rd).locals.result_flags =
      some (if s.parity ^^^ b = 0 then FLAG_CARRY else 0) ∧
    (Extracted.FastLoad.iterSome (loc s none) b rd).store = none ∧
    (Extracted.FastLoad.iterSome (loc s none) b rd).next = .leave := by
  rw [iter_some_is_model]
  simp only [loc]
  repeat' split
  all_goals simp_all

/-! ### the loop, the write-back, the function -/

/-- the `'loader` loop run with the translated iteration: ask the tape for a byte (an error ends the
function), run `iterSome` / `iterNone`, perform its store through `write_internal` (ROM ignores it), go
on or leave as it says -/
def srcLoop : Nat → Locals → Mem → Reader → Except Err Locals × Mem × Reader
  | 0, _, m, r => (.error .fuel, m, r)
  | n + 1, s, m, r =>
    match nextBlockByte r with
    | (.error e, r) => (.error e, m, r)
    | (.ok ob, r) =>
      let it := match ob with
        | some b => Extracted.FastLoad.iterSome s b m.read
        | none => Extracted.FastLoad.iterNone s
      let m := match it.store with
        | some (a, v) => m.write a v
        | none => m
      match it.next with
      | .leave => (.ok it.locals, m, r)
      | .again => srcLoop n it.locals m r

/-- the model's loop result in the source's terms -/
def locResult : Except Err (LoadSt × Byte) × Mem × Reader → Except Err Locals × Mem × Reader
  | (.error e, m, r) => (.error e, m, r)
  | (.ok (s, fl), m, r) => (.ok (loc s (some fl)), m, r)

/-- **The loop of the source is the model's `loadLoop`**: same final locals, same result flags, same
memory, same tape position (or the same error), for every bound, every state of the locals, every memory
and every tape. -/
theorem loop_is_source (n : Nat) (s : LoadSt) (m : Mem) (r : Reader) :
    srcLoop n (loc s none) m r = locResult (loadLoop n s m r) := by
  induction n generalizing s m r with
  | zero => rfl
  | succ n ih =>
    unfold srcLoop loadLoop
    rcases hnb : nextBlockByte r with ⟨res, r'⟩
    cases res with
    | error e => rfl
    | ok ob =>
      cases ob with
      | none => rfl
      | some b =>
        simp only [iter_some_is_model]
        by_cases h1 : s.len = 0#16
        · by_cases h2 : s.parity ^^^ b = 0#8 <;> simp_all [locResult]
        · by_cases h3 : s.f &&& FLAG_ZERO = 0#8
          · by_cases h4 : s.acc ^^^ b = 0#8 <;> simp_all [locResult]
          · by_cases h5 : s.f &&& FLAG_CARRY = 0#8
            · by_cases h6 : m.read s.dest ^^^ b = 0#8 <;> simp_all [locResult]
            · simp_all [locResult]

/-- `pop_pc_from_stack` of the model on the source's register file -/
def popPcRegs (m : Mem) (r : Regs) : Regs := toRegs ((ofRegs r).popPc m)

/-- **Write-back and RET.** The statements after the loop as they stand in the source — IX := dest,
DE := length, HL := (current byte, parity), A := acc, and, a result being there, F := the result flags
after PC has been popped from the stack — are the model's `Cpu.finish`, for every CPU state, final
locals, result and memory. -/
theorem finish_is_model (c : Cpu) (s : LoadSt) (fl : Byte) (m : Mem) :
    ofRegs (Extracted.FastLoad.finish (loc s (some fl)) (toRegs c) (popPcRegs m)) = c.finish s fl m := rfl

/-- without a result (not reachable: every exit of the loop sets one) only F is written back, PC stays -/
theorem finish_without_result (c : Cpu) (s : LoadSt) (m : Mem) :
    ofRegs (Extracted.FastLoad.finish (loc s none) (toRegs c) (popPcRegs m)) =
      { c with ix := s.dest, de := s.len, hl := BitVec.ofNat 16 (s.cur.toNat + 256 * s.parity.toNat),
               a := s.acc, f := s.f } := rfl

/-- everything after the prologue, from the translated pieces -/
def srcBody (c : Cpu) (m : Mem) (t : Tap) (rd : Reader) : Option Err × Cpu × Mem × Tap :=
  match srcLoop 65537 (Extracted.FastLoad.init (toRegs c)) m rd with
  | (.error e, m, rd) => (some e, c, m, { t with rd := rd })
  | (.ok l, m, rd) =>
    (none, ofRegs (Extracted.FastLoad.finish l (toRegs c) (popPcRegs m)), m, { t with rd := rd })

/-- the prologue events in source order; `.error` = the function is over (tape error, or no block) -/
def runPre : List Pre → Cpu → Reader → Except (Option Err × Cpu × Reader) (Cpu × Reader)
  | [], c, rd => .ok (c, rd)
  | .swapAf :: ps, c, rd => runPre ps c.swapAf rd
  | .nextBlockElseReturn :: ps, c, rd =>
    match nextBlock rd with
    | (.error e, rd) => .error (some e, c, rd)
    | (.ok false, rd) => .error (none, c, rd)
    | (.ok true, rd) => runPre ps c rd

/-- `fast_load_tap` from the translated pieces -/
def srcFastLoadTap (c : Cpu) (m : Mem) (t : Tap) : Option Err × Cpu × Mem × Tap :=
  match runPre Extracted.FastLoad.prologue c t.rd with
  | .error (e, c, rd) => (e, c, m, { t with rd := rd })
  | .ok (c, rd) => srcBody c m t rd

/-- the body assembled from the translated pieces is the model's `fastLoadBody` -/
theorem body_is_source (c : Cpu) (m : Mem) (t : Tap) (rd : Reader) :
    srcBody c m t rd = fastLoadBody c m t rd := by
  unfold srcBody fastLoadBody
  rw [(init_extracted c).1, loop_is_source]
  dsimp only
  generalize loadLoop 65537 { acc := c.a, f := c.f, dest := c.ix, len := c.de } m rd = q
  obtain ⟨res, m', rd'⟩ := q
  cases res with
  | error e => rfl
  | ok p => obtain ⟨s, fl⟩ := p; rfl

/-- **`fast_load_tap` as it stands in the source is the model's `fastLoadTap`** (repaired order), for
every CPU state, memory and tape: same error or none, same registers, memory and tape afterwards. -/
theorem fastload_is_source (c : Cpu) (m : Mem) (t : Tap) :
    srcFastLoadTap c m t = fastLoadTap true c m t := by
  unfold srcFastLoadTap fastLoadTap
  have hp : Extracted.FastLoad.prologue = [.nextBlockElseReturn, .swapAf] := rfl
  rw [hp]
  simp only [runPre, if_true]
  rcases nextBlock t.rd with ⟨res, rd'⟩
  cases res with
  | error e => rfl
  | ok b => cases b <;> simp [body_is_source]

/-- **Fast loading, as written in the source, refines LD-BYTES.** `C10.fastload_refines_ldbytes` through
`fastload_is_source`: for every tape position with a block `bs` ahead, every CPU state at the trap whose
saved flags come from the ROM prologue and every memory, the function assembled from the translated
statements ends without error and leaves memory, IX, DE and carry exactly as the byte-level LD-BYTES does
when it reads `bs`. -/
theorem fastload_src_refines_ldbytes (bs post : List Byte) (hlen : bs.length < 65536)
    (c : Cpu) (m : Mem) (t : Tap) (h : Ahead t.rd (Spec.encodeBlock bs ++ post)) (hp : c.prologOk) :
    ∃ c' t', srcFastLoadTap c m t = (none, c', (Spec.ldBytes c.request m bs).mem, t')
      ∧ c'.ix = (Spec.ldBytes c.request m bs).ix
      ∧ c'.de = (Spec.ldBytes c.request m bs).de
      ∧ (c'.f &&& FLAG_CARRY != 0) = (Spec.ldBytes c.request m bs).carry := by
  rw [fastload_is_source]
  exact C10.fastload_refines_ldbytes true bs post hlen c m t h hp

/-- **No block, no effect, as written in the source**: at the end of the tape the function changes
neither the CPU (AF is not swapped) nor memory and does not return, every time it is called
(`C10.no_block_no_effect` through `fastload_is_source`). -/
theorem no_block_no_effect_src (post : List Byte) (hp : post.length < 2) (c : Cpu) (m : Mem) (t : Tap)
    (h : Ahead t.rd post) :
    ∃ t', srcFastLoadTap c m t = (none, c, m, t') ∧ srcFastLoadTap c m t' = (none, c, m, t') := by
  simp only [fastload_is_source]
  exact C10.no_block_no_effect post hp c m t h

/-- Non-vacuity: the translated function loads the block `ff 01 fe` of a one-block tape to 0x8000 and
returns to the popped address with carry set. -/
example :
    let r := srcFastLoadTap (cpuAtTrap ⟨0xFF, true, 0x8000, 0x0001⟩ 0xFF40)
      (memAtTrap { base := fun _ => 0 } 0xFF40) (Tap.new (Spec.encodeBlock [0xFF, 0x01, 0xFE]))
    r.1 = none ∧ r.2.2.1.read 0x8000 = 0x01 ∧ r.2.1.pc = SA_LD_RET ∧ r.2.1.f &&& FLAG_CARRY = FLAG_CARRY := by
  decide

end ZxVerif.C10X
