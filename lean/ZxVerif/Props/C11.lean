/-
C11 — a playing tape presents each TAP block as the standard loader waveform.

Only property theorems live here (helper lemmas: ZxVerif/Lemmas/TapePulse.lean, Tape.lean).
Model : ZxVerif/Model/Tape.lean  (`fire` = the `'state_machine` loop of `process_clocks`,
        `processClocks`, `runLog` = a schedule of `process_clocks` calls with every firing logged)
Spec  : ZxVerif/Spec/Tape.lean   (`nominal`: 8063/3223 × 2168, 667, 735, 2 × 855/1710 per bit MSB first,
        pause; `withinTolerance`: every pulse `L … L+32`; `decodeBytes`: a threshold decoder)
Quantifiers: every tape made of non-empty blocks shorter than 65536 bytes (plus at most one stray
byte), every schedule of steps of 1..16 T-states of any length, both variants of the code.
-/
import ZxVerif.Lemmas.TapePulse
set_option linter.constructorNameAsVariable false
namespace ZxVerif.C11
open ZxVerif.Tape

/-- **Timer lemma.** A delay `L > 0` set at a transition fires — under any schedule of steps of
1..16 T-states — after an elapsed time in `[L+1, L+31]` (time counted up to and including the call
that performs the next transition); a zero delay fires on the next call. -/
theorem timer_lemma (L : Nat) (hL : 0 < L) (cs : List Nat) (hcs : ∀ c ∈ cs, 1 ≤ c ∧ c ≤ 16)
    (e : Nat) (rest : List Nat) (h : untilFire cs L = some (e, rest)) :
    L + 1 ≤ e ∧ e ≤ L + 31 :=
  (timer_bounds cs L e rest hcs h).1.2 hL

/-- both bounds are attained -/
theorem timer_bounds_tight :
    untilFire [16, 1] 16 = some (17, []) ∧ untilFire [16, 16, 16] 17 = some (48, []) := by
  decide

/-- `untilFire` is the countdown of `process_clocks`: while a delay is pending a call only
decrements it (saturating at 0); a call that finds `delay = 0` runs the state machine. -/
theorem process_clocks_is_timer (fixed : Bool) (t : Tap) (c : Nat) (hs : t.state ≠ .stop) :
    (0 < t.delay → processClocks fixed t c = (none, { t with delay := if c > t.delay then 0 else t.delay - c }))
    ∧ (t.delay = 0 → processClocks fixed t c = fire fixed t) := by
  constructor
  · intro hd; simp [processClocks, hs, hd]
  · intro hd; simp [processClocks, hs, hd]

/-- **The transitions are the nominal sequence.** On a tape of well-formed blocks, started from the
beginning, the state machine fires without error exactly `nominal.length` times before the end:
the delays it sets are, in order, the pulses of `nominal` (pilot count by flag byte, sync, every
bit of every byte MSB first including flag and checksum, pause, next block), every firing toggles
the EAR level starting from low; the next firing finds no block, stops the deck and leaves the
level low. -/
theorem transitions_are_nominal (fixed : Bool) (blocks : List (List Byte)) (tail : List Byte)
    (hwf : WellFormed blocks) (ht : tail.length < 2) :
    ∃ t' t'', Fires fixed (Tap.new (Spec.encode blocks ++ tail)).play (Spec.nominal blocks) t'
      ∧ t'.state = .play
      ∧ fire fixed t' = (none, t'') ∧ t''.state = .stop ∧ t''.currBit = false ∧ t''.delay = 0 := by
  obtain ⟨t', hf, hs, _, ha, _⟩ := fires_tape fixed blocks tail (Tap.new (Spec.encode blocks ++ tail)).play
    hwf rfl rfl (Ahead.fresh _)
  obtain ⟨t'', he, h1, h2, h3, _, _⟩ := fire_end fixed t' tail ht hs ha
  exact ⟨t', t'', hf, hs, he, h1, h2, h3⟩

/-- **Waveform, for every schedule.** Driving `process_clocks` with any schedule of steps of 1..16 T
never fails, and the logged firings follow the nominal sequence: the `k`-th firing sets delay
`nominal[k]` and level `k even`, and comes `L+1 … L+31` T-states after the firing that set the
delay `L`; the first firing happens on the first call; the last one is the end-of-tape stop. -/
theorem waveform_spaced (fixed : Bool) (blocks : List (List Byte)) (tail : List Byte)
    (hwf : WellFormed blocks) (ht : tail.length < 2) (cs : List Nat) (hcs : ValidSched cs) :
    (runLog fixed cs (Tap.new (Spec.encode blocks ++ tail)).play 0).1 = none
    ∧ Spaced 0 0 (annotate false (Spec.nominal blocks) ++ [(0, false)])
        (runLog fixed cs (Tap.new (Spec.encode blocks ++ tail)).play 0).2.2 := by
  obtain ⟨t', t'', hf, hs, he, hstop, hb, hd⟩ := transitions_are_nominal fixed blocks tail hwf ht
  have hlast : FiresL fixed t' [(0, false)] t'' := by
    have := FiresL.cons (fixed := fixed) (t := t') (by simp [hs]) he FiresL.nil
    rwa [hd, hb] at this
  exact runLog_chain fixed (hf.toL.append hlast) hstop cs 0 hcs

/-- **Waveform within tolerance.** Under every schedule of steps of 1..16 T the lengths of the pulses
between consecutive firings are the nominal lengths, each at least nominal and at most 32 T-states
longer (the model gives `+1 … +31`), in the nominal order, as far as the schedule goes; and the EAR
level during pulse `k` is high exactly for even `k` (each block starts high, each pause is low). -/
theorem waveform (fixed : Bool) (blocks : List (List Byte)) (tail : List Byte)
    (hwf : WellFormed blocks) (ht : tail.length < 2) (cs : List Nat) (hcs : ValidSched cs) :
    Spec.withinTolerance (Spec.nominal blocks)
        (gaps (runLog fixed cs (Tap.new (Spec.encode blocks ++ tail)).play 0).2.2) = true
    ∧ ∀ (k : Nat) (f : Fire), (runLog fixed cs (Tap.new (Spec.encode blocks ++ tail)).play 0).2.2[k]? = some f →
        k < (Spec.nominal blocks).length → f.level = Spec.levelOf k ∧ some f.delay = (Spec.nominal blocks)[k]? := by
  obtain ⟨_, hsp⟩ := waveform_spaced fixed blocks tail hwf ht cs hcs
  generalize (runLog fixed cs (Tap.new (Spec.encode blocks ++ tail)).play 0).2.2 = log at hsp
  constructor
  · have hlen := spaced_length log _ 0 0 hsp
    cases log with
    | nil => simp [gaps, Spec.withinTolerance]
    | cons f log =>
      cases hn : annotate false (Spec.nominal blocks) ++ [(0, false)] with
      | nil => simp at hn
      | cons x l =>
        rw [hn] at hsp hlen
        have h := spaced_tolerance log l 0 0 f x hsp
        have hmap : x.1 :: l.map (·.1) = Spec.nominal blocks ++ [0] := by
          have := congrArg (List.map (·.1)) hn
          simp only [List.map_append, annotate_map_fst, List.map_cons, List.map_nil] at this
          exact this.symm
        rw [hmap] at h
        rw [← withinTolerance_prefix (Spec.nominal blocks) [0]]
        · exact h
        · rw [gaps_length]
          have : (x :: l).length = (Spec.nominal blocks).length + 1 := by
            rw [← hn]; simp [List.length_append]
            have := congrArg List.length (annotate_map_fst false (Spec.nominal blocks))
            simpa using this
          simp only [List.length_cons] at hlen this ⊢
          omega
  · intro k f hk hlt
    have hget := spaced_get log _ 0 0 k f hsp hk
    have hlen : (annotate false (Spec.nominal blocks)).length = (Spec.nominal blocks).length := by
      have := congrArg List.length (annotate_map_fst false (Spec.nominal blocks))
      simpa using this
    rw [List.getElem?_append_left (by omega)] at hget
    have hlvl := annotate_level _ _ _ _ hget
    have hdel : ((annotate false (Spec.nominal blocks)).map (·.1))[k]? = some f.delay := by
      rw [List.getElem?_map, hget]; rfl
    rw [annotate_map_fst] at hdel
    refine ⟨?_, hdel.symm⟩
    simp only at hlvl
    rw [hlvl, Spec.levelOf]
    rcases Nat.mod_two_eq_zero_or_one k with h | h <;> simp [h]

/-- **A threshold decoder recovers the bytes.** Any decoder that classifies a pulse pair by comparing
its first pulse with a threshold anywhere in `[887, 1710)` reads, from pulses that are within
tolerance of the nominal bit pulses of the bytes `bs`, exactly `bs` — so what a loader sees on EAR
is what C10's block stream delivers. -/
theorem threshold_decoder_recovers (th : Nat) (hlo : 887 ≤ th) (hhi : th < 1710) (bs : List Byte)
    (measured : List Nat) (hlen : measured.length = 16 * bs.length)
    (htol : Spec.withinTolerance (bs.flatMap Spec.bytePulses) measured = true) :
    Spec.decodeBytes th bs.length measured = bs :=
  decodeBytes_tolerant th hlo hhi bs measured hlen htol

/-- **Sampling never invents a violation.** If a pulse is within tolerance and all an observer knows
is that its length lies strictly between `lo` and `hi`, the widened test accepts it: the
system-level layer of the check (EAR sampled once per emulated instruction) cannot alarm on a
machine whose pulses are within tolerance. -/
theorem wide_tolerance_sound (L x lo hi : Nat) (h : Spec.pulseOk L x = true) (h1 : lo < x) (h2 : x < hi) :
    Spec.pulseOkWide L lo hi = true := by
  simp only [Spec.pulseOk, Bool.and_eq_true, decide_eq_true_eq] at h
  simp only [Spec.pulseOkWide, decide_eq_true_eq]
  omega

/-- … and it rejects exactly when no length compatible with the samples is within tolerance. -/
theorem wide_tolerance_complete (L lo hi : Nat) (h : Spec.pulseOkWide L lo hi = false) (x : Nat)
    (h1 : lo < x) (h2 : x < hi) : Spec.pulseOk L x = false := by
  simp only [Spec.pulseOkWide, decide_eq_false_iff_not] at h
  simp only [Spec.pulseOk, Bool.and_eq_false_iff, decide_eq_false_iff_not]
  omega

/-- Pulses within tolerance add up to a total within `Σ nominal … Σ nominal + 32·k` … -/
theorem cumulative_tolerance : ∀ (ns xs : List Nat), xs.length = ns.length →
    Spec.withinTolerance ns xs = true → ns.sum ≤ xs.sum ∧ xs.sum ≤ ns.sum + 32 * ns.length := by
  intro ns
  induction ns with
  | nil => intro xs hl _; cases xs <;> simp_all
  | cons n ns ih =>
    intro xs hl ht
    cases xs with
    | nil => simp at hl
    | cons x xs =>
      simp only [Spec.withinTolerance, Bool.and_eq_true, Spec.pulseOk, decide_eq_true_eq] at ht
      obtain ⟨⟨h1, h2⟩, hrest⟩ := ht
      obtain ⟨h3, h4⟩ := ih xs (by simpa using hl) hrest
      simp only [List.sum_cons, List.length_cons]
      omega

/-- … so the cumulative test of the sampled observation is sound as well: it cannot reject a machine
whose pulses are all within tolerance, however far apart the samples are. -/
theorem cumulative_wide_sound (ns xs : List Nat) (hl : xs.length = ns.length)
    (ht : Spec.withinTolerance ns xs = true) (lo hi : Nat) (h1 : lo < xs.sum) (h2 : xs.sum < hi) :
    Spec.sumOkWide ns.sum ns.length lo hi = true := by
  obtain ⟨h3, h4⟩ := cumulative_tolerance ns xs hl ht
  simp only [Spec.sumOkWide, decide_eq_true_eq]
  omega

/-! Non-vacuity -/

example : WellFormed [[0xFF, 0x01, 0xFE], [0x00, 0x00]] := by
  intro b hb; simp at hb; rcases hb with rfl | rfl <;> simp

example : (Spec.nominal [[0xFF, 0x01, 0xFE]]).length = 3223 + 2 + 48 + 1 := by
  simp only [Spec.nominal, List.flatMap_cons, List.flatMap_nil, List.append_nil, Spec.blockPulses,
    List.length_append, List.length_replicate, flatMap_bytePulses_length, List.length_cons, List.length_nil]
  decide

example : ValidSched [1, 16, 7, 8] := by intro c hc; simp at hc; omega

example : Spec.decodeBytes 1200 2 ((Spec.bytePulses 0xA5 ++ Spec.bytePulses 0x3C).map (· + 20)) = [0xA5, 0x3C] := by
  decide

end ZxVerif.C11
