/-
C11 (system level) — the standard loader waveform under the step schedule the *machine* really
produces, for every program.

`Props/C11.lean` proves the waveform for every schedule of `process_clocks` calls of 1..16 T-states.
The machine calls `tape.process_clocks(clk)` from every `wait_internal(clk)`; the arguments of those
calls, for everything a program does on the bus, are the machine's raw wait schedule
(Lemmas/RawWaits.lean: `rawReplay` of the log of timed bus operations — the `wait_internal` calls of
`wait_mreq`, `do_contention`, `io_contention_first/last`, zero-length calls included). That schedule
is NOT a schedule of 1..16 T steps: `do_contention` calls `wait_internal(0)` whenever a contended
address is touched while the ULA is idle (`schedule_has_zero_steps` below). A zero-length call with a
delay pending does nothing, one with `delay = 0` fires the state machine like any other call
(Model/Tape.lean `processClocks`), so a pulse can come out exactly nominal (`L` instead of `L + 1`).

Here: the timer lemma and the waveform theorem for steps `0 … M` (Lemmas/TapePulse0.lean), and their
instance for the machine: whatever program runs (contended code, port cycles, interrupts, paging), from
any state in which the contention rules apply, a tape played alongside — the `Tape` model fed with the
machine's raw schedule — never fails, shows the pulses of `Spec.nominal` in order, each lasting
`nominal … nominal + 25` T-states (within the property's `0 … 32`), with the nominal levels; and the
pulses really come (zero-length calls cannot starve the tape).
Quantifiers: every program, run length, CPU state, both machines, every `Good` start state (e.g.
reset), every tape of non-empty blocks shorter than 65536 bytes, both variants of the tape code.
-/
import ZxVerif.Lemmas.RawWaits
import ZxVerif.Lemmas.TapePulse0
import ZxVerif.Props.C11
set_option linter.constructorNameAsVariable false
namespace ZxVerif.C11Sys
open ZxVerif.Tape ZxVerif.Z80 ZxVerif.Machine ZxVerif.Spectrum ZxVerif.RawWaits

/-! ### Steps of 0 … M T-states -/

/-- **Timer lemma with zero-length calls.** A delay `L > 0` set at a transition fires — under any
schedule of steps of `0 … 16` T-states, zero-length calls included — after an elapsed time in
`[L, L + 31]` (counted up to and including the firing call). Under steps of `0 … M`: `[L, L + 2M − 1]`. -/
theorem timer_lemma0 (M L : Nat) (hL : 0 < L) (cs : List Nat) (hcs : SchedLe M cs)
    (e : Nat) (rest : List Nat) (h : untilFire cs L = some (e, rest)) :
    L ≤ e ∧ e + 1 ≤ L + 2 * M :=
  (timer_boundsM M cs L e rest hcs h).1.2 hL

/-- the lower bound `L` is attained by a zero-length firing call (under steps ≥ 1 it is `L + 1`,
`C11.timer_lemma`); the upper bound `L + 31` as before -/
theorem timer_bounds0_tight :
    untilFire [16, 0] 16 = some (16, []) ∧ untilFire [16, 16, 16] 17 = some (48, []) := by decide

/-- a zero-length call is the countdown with nothing to count: no effect while a delay is pending -/
theorem zero_call_waits (fixed : Bool) (t : Tap) (hs : t.state ≠ .stop) (hd : 0 < t.delay) :
    processClocks fixed t 0 = (none, t) := by
  have h := (C11.process_clocks_is_timer fixed t 0 hs).1 hd
  rw [h]
  have : ¬ (0 > t.delay) := by omega
  simp [this]

/-- … and it fires the state machine when the delay has run out -/
theorem zero_call_fires (fixed : Bool) (t : Tap) (hs : t.state ≠ .stop) (hd : t.delay = 0) :
    processClocks fixed t 0 = fire fixed t :=
  (C11.process_clocks_is_timer fixed t 0 hs).2 hd

/-- **Waveform under steps `0 … M`, spaced.** `process_clocks` never fails and the logged firings
follow the nominal chain, the firing after a delay `L` coming `L … L + 2M − 1` T-states later. -/
theorem waveform_spaced0 (fixed : Bool) (M : Nat) (blocks : List (List Byte)) (tail : List Byte)
    (hwf : WellFormed blocks) (ht : tail.length < 2) (cs : List Nat) (hcs : SchedLe M cs) :
    (runLog fixed cs (Tap.new (Spec.encode blocks ++ tail)).play 0).1 = none
    ∧ SpacedG (gapOkM M) 0 0 (annotate false (Spec.nominal blocks) ++ [(0, false)])
        (runLog fixed cs (Tap.new (Spec.encode blocks ++ tail)).play 0).2.2 := by
  obtain ⟨t', t'', hf, hs, he, hstop, hb, hd⟩ := C11.transitions_are_nominal fixed blocks tail hwf ht
  have hlast : FiresL fixed t' [(0, false)] t'' := by
    have := FiresL.cons (fixed := fixed) (t := t') (by simp [hs]) he FiresL.nil
    rwa [hd, hb] at this
  exact runLog_chainM fixed M (hf.toL.append hlast) hstop cs 0 hcs

/-- **Waveform within tolerance under steps `0 … 16`, zero-length calls included**: the statement of
`C11.waveform` for the wider class of schedules. -/
theorem waveform0 (fixed : Bool) (M : Nat) (hM : M ≤ 16) (blocks : List (List Byte)) (tail : List Byte)
    (hwf : WellFormed blocks) (ht : tail.length < 2) (cs : List Nat) (hcs : SchedLe M cs) :
    Spec.withinTolerance (Spec.nominal blocks)
        (gaps (runLog fixed cs (Tap.new (Spec.encode blocks ++ tail)).play 0).2.2) = true
    ∧ ∀ (k : Nat) (f : Fire), (runLog fixed cs (Tap.new (Spec.encode blocks ++ tail)).play 0).2.2[k]? = some f →
        k < (Spec.nominal blocks).length → f.level = Spec.levelOf k ∧ some f.delay = (Spec.nominal blocks)[k]? :=
  spacedG_waveform (fun _ _ h => gapOkM_pulseOk hM h) _ _ (waveform_spaced0 fixed M blocks tail hwf ht cs hcs).2

/-- **The pulses come.** Under steps `0 … M` (`1 ≤ M`), once the schedule covers the first `k` nominal
pulses plus `2M` T-states for each edge, at least `k + 1` edges (`k` complete pulses) have been
logged: zero-length calls cannot hold the tape back. -/
theorem pulses_arrive0 (fixed : Bool) (M : Nat) (hM : 1 ≤ M) (blocks : List (List Byte)) (tail : List Byte)
    (hwf : WellFormed blocks) (ht : tail.length < 2) (cs : List Nat) (hcs : SchedLe M cs)
    (k : Nat) (hk : k ≤ (Spec.nominal blocks).length)
    (hcov : ((Spec.nominal blocks).take k).sum + 2 * M * (k + 1) ≤ cs.sum) :
    k + 1 ≤ (runLog fixed cs (Tap.new (Spec.encode blocks ++ tail)).play 0).2.2.length := by
  obtain ⟨t', t'', hf, hs, he, hstop, hb, hd⟩ := C11.transitions_are_nominal fixed blocks tail hwf ht
  have hlast : FiresL fixed t' [(0, false)] t'' := by
    have := FiresL.cons (fixed := fixed) (t := t') (by simp [hs]) he FiresL.nil
    rwa [hd, hb] at this
  have hch : FiresL fixed (Tap.new (Spec.encode blocks ++ tail)).play
      (annotate false (Spec.nominal blocks) ++ [(0, false)]) t'' := hf.toL.append hlast
  have hlen : (annotate false (Spec.nominal blocks)).length = (Spec.nominal blocks).length := by
    have := congrArg List.length (annotate_map_fst false (Spec.nominal blocks))
    simpa using this
  refine runLog_progress fixed M hM hch cs 0 (k + 1) hcs (by simp [hlen]; omega) ?_
  rw [budget_eq M _ _ k (by simp [hlen]; omega)]
  rw [List.take_append_of_le_length (by omega), List.map_take, annotate_map_fst]
  have h0 : (Tap.new (Spec.encode blocks ++ tail)).play.delay = 0 := rfl
  rw [h0]; omega

/-! ### The machine's schedule -/

/-- **The raw wait schedule of a program**: the arguments of all `wait_internal` calls — hence of all
`tape.process_clocks` calls — the machine makes while the CPU runs `n` instructions from `(s, z)`, in
order, zero-length calls included (the replay of the machine's log of timed bus operations). -/
def machineSched (n : Nat) (s : Z80.Cpu) (z : ZX) : List Nat :=
  rawReplay z.ctl.kind z.ctl.frameClocks (Z80.run .hw n (s, z)).2.tlog.reverse

/-- the machine never passes more than 13 T-states to the tape at a time (6 of ULA delay + the 7 of the
interrupt acknowledge), and what it passes adds up to the emulated time that has gone by -/
theorem machine_sched_ok (n : Nat) (s : Z80.Cpu) (z : ZX) (hg : C04Sys.Good z.ctl) (h0 : z.tlog = []) :
    SchedLe 13 (machineSched n s z) ∧
    C05.total (Z80.run .hw n (s, z)).2.ctl = C05.total z.ctl + (machineSched n s z).sum :=
  ⟨(program_schedule n s z hg h0).1, (program_schedule n s z hg h0).2.2.1⟩

/-- **Timer lemma on the machine.** Whatever program runs: a delay `L > 0` that the tape sets while the
machine feeds it the rest `cs` of its raw schedule fires `L … L + 25` T-states later. -/
theorem sys_timer (n : Nat) (s : Z80.Cpu) (z : ZX) (hg : C04Sys.Good z.ctl) (h0 : z.tlog = [])
    (pre cs : List Nat) (hsplit : machineSched n s z = pre ++ cs)
    (L : Nat) (hL : 0 < L) (e : Nat) (rest : List Nat) (h : untilFire cs L = some (e, rest)) :
    L ≤ e ∧ e ≤ L + 25 := by
  have hv : SchedLe 13 cs := fun c hc =>
    (machine_sched_ok n s z hg h0).1 c (by rw [hsplit]; exact List.mem_append_right _ hc)
  have := timer_lemma0 13 L hL cs hv e rest h
  omega

/-- **The waveform on the machine, for every program.** Start the machine in any state in which the
contention rules apply (after reset, or after any program) and start a well-formed tape playing; let the
CPU run any program for any number of instructions (contended code and data, port cycles, interrupts,
paging). The tape model fed with the raw schedule of `wait_internal` calls the machine makes never
fails; the pulses between its edges are the pulses of `Spec.nominal` in order (pilot count by flag
byte, 667, 735, two pulses per bit MSB first for every byte, pause, next block), each within the
property's tolerance `nominal … nominal + 32` T-states of emulated time, as far as the program has run;
the EAR level during pulse `k` is high exactly for even `k`; every edge lies within the emulated time
that has gone by. -/
theorem sys_waveform (fixed : Bool) (blocks : List (List Byte)) (tail : List Byte)
    (hwf : WellFormed blocks) (ht : tail.length < 2)
    (n : Nat) (s : Z80.Cpu) (z : ZX) (hg : C04Sys.Good z.ctl) (h0 : z.tlog = []) :
    (runLog fixed (machineSched n s z) (Tap.new (Spec.encode blocks ++ tail)).play 0).1 = none
    ∧ Spec.withinTolerance (Spec.nominal blocks)
        (gaps (runLog fixed (machineSched n s z) (Tap.new (Spec.encode blocks ++ tail)).play 0).2.2) = true
    ∧ (∀ (k : Nat) (f : Fire),
        (runLog fixed (machineSched n s z) (Tap.new (Spec.encode blocks ++ tail)).play 0).2.2[k]? = some f →
        k < (Spec.nominal blocks).length → f.level = Spec.levelOf k ∧ some f.delay = (Spec.nominal blocks)[k]?)
    ∧ ∀ f ∈ (runLog fixed (machineSched n s z) (Tap.new (Spec.encode blocks ++ tail)).play 0).2.2,
        C05.total z.ctl + f.time ≤ C05.total (Z80.run .hw n (s, z)).2.ctl := by
  obtain ⟨hv, hsum⟩ := machine_sched_ok n s z hg h0
  obtain ⟨h1, h2⟩ := waveform0 fixed 13 (by omega) blocks tail hwf ht _ hv
  refine ⟨(waveform_spaced0 fixed 13 blocks tail hwf ht _ hv).1, h1, h2, fun f hf => ?_⟩
  have := runLog_times fixed _ _ 0 f hf
  omega

/-- **… and sharper than the tolerance**: on the machine every pulse lasts `nominal … nominal + 25`
T-states (the firing after a delay `L` comes `L … L + 2·13 − 1` T-states after the one that set it). -/
theorem sys_waveform_spaced (fixed : Bool) (blocks : List (List Byte)) (tail : List Byte)
    (hwf : WellFormed blocks) (ht : tail.length < 2)
    (n : Nat) (s : Z80.Cpu) (z : ZX) (hg : C04Sys.Good z.ctl) (h0 : z.tlog = []) :
    SpacedG (gapOkM 13) 0 0 (annotate false (Spec.nominal blocks) ++ [(0, false)])
      (runLog fixed (machineSched n s z) (Tap.new (Spec.encode blocks ++ tail)).play 0).2.2 :=
  (waveform_spaced0 fixed 13 blocks tail hwf ht _ (machine_sched_ok n s z hg h0).1).2

/-- **The pulses come on the machine.** Once the program has run for the length of the first `k`
nominal pulses plus 26 T-states per edge, at least `k` complete pulses have been played — whatever the
program does, however many of the machine's `wait_internal` calls are zero-length. -/
theorem sys_pulses_arrive (fixed : Bool) (blocks : List (List Byte)) (tail : List Byte)
    (hwf : WellFormed blocks) (ht : tail.length < 2)
    (n : Nat) (s : Z80.Cpu) (z : ZX) (hg : C04Sys.Good z.ctl) (h0 : z.tlog = [])
    (k : Nat) (hk : k ≤ (Spec.nominal blocks).length)
    (hrun : C05.total z.ctl + ((Spec.nominal blocks).take k).sum + 26 * (k + 1) ≤
      C05.total (Z80.run .hw n (s, z)).2.ctl) :
    k + 1 ≤ (runLog fixed (machineSched n s z) (Tap.new (Spec.encode blocks ++ tail)).play 0).2.2.length := by
  obtain ⟨hv, hsum⟩ := machine_sched_ok n s z hg h0
  exact pulses_arrive0 fixed 13 (by omega) blocks tail hwf ht _ hv k hk (by omega)

/-- from reset, on either machine, with or without joystick/mouse -/
theorem sys_waveform_from_reset (fixed : Bool) (blocks : List (List Byte)) (tail : List Byte)
    (hwf : WellFormed blocks) (ht : tail.length < 2) (k : Kind) (ke mo : Bool) (n : Nat) (s : Z80.Cpu) :
    (runLog fixed (machineSched n s (ZX.new k ke mo)) (Tap.new (Spec.encode blocks ++ tail)).play 0).1 = none
    ∧ Spec.withinTolerance (Spec.nominal blocks)
        (gaps (runLog fixed (machineSched n s (ZX.new k ke mo))
          (Tap.new (Spec.encode blocks ++ tail)).play 0).2.2) = true :=
  let h := sys_waveform fixed blocks tail hwf ht n s (ZX.new k ke mo) (C04Sys.good_new k) rfl
  ⟨h.1, h.2.1⟩

/-! ### Non-vacuity -/

/-- a 48K machine inside the picture area with `LD A,(HL)` at 0x8000 and HL pointing into contended
RAM (the example state of `Props/C03Sys.lean`, one T-state later so that the ULA is idle at the
contended read) -/
def exampleZX : ZX :=
  { ZX.new .k48 false false with
    ctl := { Ctl.new .k48 with
      frameClocks := 14337
      mem := { Mem.new .k48 with ram := fun p o => if p = 1 ∧ o = 0 then 0x7E else 0 } } }

def exampleCpu : Z80.Cpu := { pc := 0x8000, h := 0x40, l := 0x01 }

/-- the hypotheses of the system theorems hold in that state … -/
example : C04Sys.Good exampleZX.ctl ∧ exampleZX.tlog = [] :=
  ⟨⟨by decide, Or.inl ⟨rfl, rfl, rfl⟩⟩, rfl⟩

/-- **… and the machine's schedule has zero-length steps**: the fetch at 0x8000 is one call of 4
T-states; the read at 0x4001 (contended RAM) starts at offset 14341 = T0 + 6, where the ULA delay is 0,
so `do_contention` calls `wait_internal(0)` — a `process_clocks(0)` for the tape — before the 3 T-states
of the read. The hypothesis of `C11.waveform` (steps 1..16) fails for this schedule, the one of
`waveform0` holds. -/
theorem schedule_has_zero_steps :
    machineSched 1 exampleCpu exampleZX = [4, 0, 3] ∧
    ¬ ValidSched (machineSched 1 exampleCpu exampleZX) ∧ SchedLe 13 (machineSched 1 exampleCpu exampleZX) := by
  have h : machineSched 1 exampleCpu exampleZX = [4, 0, 3] := by decide
  rw [h]
  refine ⟨rfl, fun hv => ?_, fun c hc => ?_⟩
  · have := hv 0 (by simp); omega
  · simp at hc; omega

/-- one T-state earlier the same read is delayed by 1: the steps depend on where in the frame the
program runs -/
example : machineSched 1 exampleCpu
    { exampleZX with ctl := { exampleZX.ctl with frameClocks := 14336 } } = [4, 1, 3] := by decide

/-- a schedule with zero-length calls: 0, 166 × 13, 10, 0, 167 × 13, 13 -/
def exampleSched : List Nat := 0 :: List.replicate 166 13 ++ [10, 0] ++ List.replicate 167 13 ++ [13]

/-- a tape of one block `[0xFF]` driven by that schedule: the first call (of 0 T-states) starts the
pilot, the first pilot pulse ends at T = 2168 exactly — the nominal length, which steps of 1..16
T-states can never produce — the second lasts 2168 + 16 -/
example : SchedLe 13 exampleSched ∧
    ((runLog false exampleSched (Tap.new (Spec.encode [[0xFF]])).play 0).2.2.map (·.time)) = [0, 2168, 4352] ∧
    gaps (runLog false exampleSched (Tap.new (Spec.encode [[0xFF]])).play 0).2.2 = [2168, 2184] := by
  refine ⟨?_, by decide +kernel, by decide +kernel⟩
  unfold SchedLe
  decide +kernel

/-- the hypothesis of `sys_pulses_arrive` is met (k = 0) after seven instructions from the example
state: 7 + 6 × 4 T-states have gone by, so the first edge of the tape has been played -/
example : C05.total exampleZX.ctl + ((Spec.nominal [[0xFF]]).take 0).sum + 26 * (0 + 1) ≤
    C05.total (Z80.run .hw 7 (exampleCpu, exampleZX)).2.ctl := by
  rw [List.take_zero]
  decide

example : WellFormed [[0xFF]] := by intro b hb; simp at hb; subst hb; simp

end ZxVerif.C11Sys
