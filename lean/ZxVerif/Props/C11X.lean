/-
C10–C12 — theorems over the tape constants *extracted from the Rust source on every run*
(tools/extract.py → ZxVerif/Extracted/TapeConsts.lean): what tap.rs says now is what the model runs
and what the property's nominal waveform prescribes.
-/
import ZxVerif.Extracted.TapeConsts
import ZxVerif.Model.Tape
namespace ZxVerif.C11X
open ZxVerif.Tape

/-- the pulse lengths and pilot counts in tap.rs are the model's -/
theorem tape_consts_extracted :
    Extracted.PILOT_LENGTH = PILOT_LENGTH ∧ Extracted.PILOT_PULSES_HEADER = PILOT_PULSES_HEADER ∧
    Extracted.PILOT_PULSES_DATA = PILOT_PULSES_DATA ∧ Extracted.SYNC1_LENGTH = SYNC1_LENGTH ∧
    Extracted.SYNC2_LENGTH = SYNC2_LENGTH ∧ Extracted.BIT_ONE_LENGTH = BIT_ONE_LENGTH ∧
    Extracted.BIT_ZERO_LENGTH = BIT_ZERO_LENGTH ∧ Extracted.PAUSE_LENGTH = PAUSE_LENGTH ∧
    Extracted.BUFFER_SIZE = BUFFER_SIZE := by decide

/-- … and they are the ROM loader's nominal values: pilot 2168 T (8063 pulses before a header, 3223
before data), sync 667 + 735 T, bit 0 = 2 × 855 T, bit 1 = 2 × 1710 T, one second of pause -/
theorem tape_consts_nominal :
    Extracted.PILOT_LENGTH = 2168 ∧ Extracted.PILOT_PULSES_HEADER = 8063 ∧ Extracted.PILOT_PULSES_DATA = 3223 ∧
    Extracted.SYNC1_LENGTH = 667 ∧ Extracted.SYNC2_LENGTH = 735 ∧ Extracted.BIT_ONE_LENGTH = 2 * Extracted.BIT_ZERO_LENGTH ∧
    Extracted.BIT_ZERO_LENGTH = 855 ∧ Extracted.PAUSE_LENGTH = 3500000 := by decide

end ZxVerif.C11X
