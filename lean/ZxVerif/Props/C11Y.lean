/-
C11 — the waveform theorems restated over `process_clocks` *translated from the Rust source on every run*
(tools/extract.py, table TapeMachine → ZxVerif/Extracted/TapeMachine.lean; the arm-by-arm tie to the model is
Props/C12X.lean).

A schedule of `process_clocks` calls is run on the translated function (`srcRunLog`: the guard, the countdown,
the `'state_machine` loop assembled from the translated arms), every firing call logged with the level
`current_bit()` shows and the delay it left. That log is the model's `runLog`, so `C11.waveform` — the pulses
between firings are the nominal sequence of the TAP image, each nominal … nominal+32 T, levels alternating from
high — and `C11.transitions_are_nominal` are statements about the source text; and the per-pulse facts are
spelled out over the translated arms: a pilot of exactly `n` more pulses, the two sync pulses, two equal
half-pulses per bit with the length chosen by the bit under the mask, the masks running 0x80 … 0x01.
Quantifiers: as in Props/C11 (every tape of non-empty blocks shorter than 65536 bytes plus at most one stray
byte, every schedule of steps of 1..16 T); the reader calls are the model's (`C12X.calls`).
-/
import ZxVerif.Props.C12X
set_option linter.constructorNameAsVariable false
namespace ZxVerif.C11Y
open ZxVerif.Tape ZxVerif.Extracted ZxVerif.C12X

/-- a schedule of calls of the translated `process_clocks`, every firing (a call that found a running deck with
no delay pending) logged: time, `current_bit()` afterwards, the delay left behind; stops at the first error -/
def srcRunLog (fuel : Nat) : List Nat → Src → Nat → Option (TapeMachine.Fault Err) × Src × List Fire
  | [], s, _ => (none, s, [])
  | c :: cs, s, now =>
    let fired := !TapeMachine.canFastLoad s && s.delay == 0
    match TapeMachine.processClocks calls fuel s c with
    | (s', some f) => (some f, s', [])
    | (s', none) =>
      let r := srcRunLog fuel cs s' (now + c)
      (r.1, r.2.1, if fired then ⟨now + c, TapeMachine.currentBit s', s'.delay⟩ :: r.2.2 else r.2.2)

/-- **The log of the source's `process_clocks` is the model's `runLog`**: same firings (time, level, delay), same
final struct, same error, for every schedule, every tape state and every loop bound of at least two rounds. -/
theorem src_run_log_is_model (cs : List Nat) (t : Tap) (now fuel : Nat) :
    (srcRunLog (fuel + 2) cs (toSrc t) now).2.2 = (runLog true cs t now).2.2 ∧
    (srcRunLog (fuel + 2) cs (toSrc t) now).2.1 = toSrc (runLog true cs t now).2.1 ∧
    (srcRunLog (fuel + 2) cs (toSrc t) now).1.map errOf = (runLog true cs t now).1 := by
  induction cs generalizing t now with
  | nil => exact ⟨rfl, rfl, rfl⟩
  | cons c cs ih =>
    obtain ⟨h1, h2⟩ := process_clocks_is_model t c fuel
    have hf : (!TapeMachine.canFastLoad (toSrc t) && (toSrc t).delay == 0) = (t.state != .stop && t.delay == 0) := by
      rw [(getters_are_model t).1]
      simp only [Tap.canFastLoad, bne]
      rfl
    simp only [srcRunLog, runLog, hf]
    rcases hm : processClocks true t c with ⟨_ | e, t'⟩
    · rw [hm] at h1 h2
      rcases hx : TapeMachine.processClocks calls (fuel + 2) (toSrc t) c with ⟨s', _ | f⟩
      · rw [hx] at h1; simp only at h1; subst h1
        obtain ⟨i1, i2, i3⟩ := ih t' (now + c)
        simp only [i1, i2, i3]
        refine ⟨?_, trivial, trivial⟩
        split <;> simp [TapeMachine.currentBit, toSrc]
      · rw [hx] at h2; simp at h2
    · rw [hm] at h1 h2
      rcases hx : TapeMachine.processClocks calls (fuel + 2) (toSrc t) c with ⟨s', _ | f⟩
      · rw [hx] at h2; simp at h2
      · rw [hx] at h1 h2; simp only at h1 h2 ⊢
        exact ⟨trivial, h1, h2⟩

/-- **Waveform of the source's state machine** (`C11.waveform` carried over). From `from_asset` and `play`, under
every schedule of steps of 1..16 T, the translated `process_clocks` never fails; the times between its
firings are the nominal pulse lengths of the TAP image in the nominal order, each at least nominal and at
most 32 T longer; the `k`-th firing leaves delay `nominal[k]` and `current_bit()` high exactly for even `k`. -/
theorem waveform_src (blocks : List (List Byte)) (tail : List Byte) (hwf : WellFormed blocks)
    (ht : tail.length < 2) (cs : List Nat) (hcs : ValidSched cs) (fuel : Nat) :
    let r := srcRunLog (fuel + 2) cs (TapeMachine.play (toSrc (Tap.new (Spec.encode blocks ++ tail)))) 0
    r.1 = none ∧ Spec.withinTolerance (Spec.nominal blocks) (gaps r.2.2) = true
    ∧ ∀ (k : Nat) (f : Fire), r.2.2[k]? = some f → k < (Spec.nominal blocks).length →
        f.level = Spec.levelOf k ∧ some f.delay = (Spec.nominal blocks)[k]? := by
  obtain ⟨h1, _, h3⟩ := src_run_log_is_model cs (Tap.new (Spec.encode blocks ++ tail)).play 0 fuel
  obtain ⟨hn, _⟩ := C11.waveform_spaced true blocks tail hwf ht cs hcs
  obtain ⟨hw, hk⟩ := C11.waveform true blocks tail hwf ht cs hcs
  simp only [play_is_model, h1]
  rw [hn] at h3
  exact ⟨by simpa using h3, hw, hk⟩

/-- **A pilot of exactly `n + 1` pulses.** From `Pilot { pulses_left: n + 1 }` with no delay pending, `n` calls of the
translated arm each toggle the level and set 2168 T, counting down; the next one toggles, sets SYNC1 (667 T)
and goes to `Sync` — so a block whose first firing (arm `Play`) chose 8063 / 3223 shows that many pilot
pulses (the first being the one `Play` started) before the sync. -/
theorem pilot_counts_down (t : Tap) (clocks n : Nat) :
    (TapeMachine.armPilot calls (toSrc t) clocks (n + 2)).1 =
        toSrc { t with currBit := !t.currBit, delay := 2168, state := .pilot (n + 1) } ∧
    (TapeMachine.armPilot calls (toSrc t) clocks 1).1 =
        toSrc { t with currBit := !t.currBit, delay := 667, state := .sync } := by
  constructor <;> simp [arm_pilot_is_model, PILOT_LENGTH, SYNC1_LENGTH]

/-- **Two equal half-pulses per bit, MSB first.** On a deck in `NextBit { mask }`: the first firing toggles and
sets 855 T when the bit of the current byte under the mask is 0 and 1710 T when it is 1; the second firing
(arm `BitHalf`) toggles again and sets the same length; after it the mask has moved one bit down, and after
the mask 0x01 the state is `NextByte`. -/
theorem bit_is_two_equal_halves (t : Tap) (clocks : Nat) (mask : Byte) :
    let len := if t.currByte &&& mask = 0 then 855 else 1710
    let t1 : Tap := { t with currBit := !t.currBit, delay := len, state := .bitHalf len mask }
    (TapeMachine.armNextBit calls (toSrc t) clocks mask).1 = toSrc t1 ∧
    (TapeMachine.armBitHalf calls (toSrc t1) clocks len mask).1 =
      toSrc { t with currBit := t.currBit, delay := len,
                     state := if mask >>> 1 = 0 then .nextByte else .nextBit (mask >>> 1) } ∧
    [(0x80 : Byte) >>> 1, 0x40 >>> 1, 0x20 >>> 1, 0x10 >>> 1, 0x08 >>> 1, 0x04 >>> 1, 0x02 >>> 1, 0x01 >>> 1]
      = [0x40, 0x20, 0x10, 0x08, 0x04, 0x02, 0x01, 0x00] := by
  refine ⟨?_, ?_, by decide⟩
  · simp [arm_next_bit_is_model, smNextBit, BIT_ZERO_LENGTH, BIT_ONE_LENGTH]
  · simp [arm_bit_half_is_model]

end ZxVerif.C11Y
