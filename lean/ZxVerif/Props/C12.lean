/-
C12 — play, stop and rewind behave like a cassette deck for every command history.

Only property theorems live here (helper lemmas: ZxVerif/Lemmas/TapeDeck.lean, TapePulse.lean).
Model : ZxVerif/Model/Tape.lean  (`Tap.cmd`: play / stop / rewind / process_clocks;
        `fixed = false` the code as found, `fixed = true` with proposed_fixes/C12-1.diff)
Spec  : ZxVerif/Spec/Tape.lean   (`Deck`: cursor into the nominal pulse list, remaining T-states of
        the current pulse, level, motor)
`Sim t d` (Lemmas/TapeDeck.lean) relates a tape and a deck: the tape — resumed by `play` if stopped —
has the deck's level and remaining delay and will fire exactly the pulses the deck has ahead, and it
runs iff the deck's motor is on.
Quantifiers: every finite history over {play, stop, rewind, advance n} (any n), every tape of
non-empty blocks shorter than 65536 bytes followed by at most one stray byte.
-/
import ZxVerif.Lemmas.TapeDeck
set_option linter.constructorNameAsVariable false
namespace ZxVerif.C12
open ZxVerif.Tape

/-- **Deck refinement** (repaired code). After any command history the tape model never has
failed and stands exactly where the cassette deck stands. -/
theorem deck_refinement (blocks : List (List Byte)) (tail : List Byte) (hwf : WellFormed blocks)
    (ht : tail.length < 2) (cmds : List DeckCmd) :
    (runCmds true cmds (Tap.new (Spec.encode blocks ++ tail))).1 = none
    ∧ Sim true blocks tail (runCmds true cmds (Tap.new (Spec.encode blocks ++ tail))).2
        (cmds.foldl Spec.Deck.cmd (Spec.Deck.init blocks)) :=
  sim_run hwf ht cmds _ _ (sim_init true blocks tail hwf)

/-- What an observer sees after any history is what the deck shows: the same EAR level and the same
running/stopped state — hence, history by history and call by call, the same edge stream. -/
theorem deck_observables (blocks : List (List Byte)) (tail : List Byte) (hwf : WellFormed blocks)
    (ht : tail.length < 2) (cmds : List DeckCmd) :
    let t := (runCmds true cmds (Tap.new (Spec.encode blocks ++ tail))).2
    let d := cmds.foldl Spec.Deck.cmd (Spec.Deck.init blocks)
    t.currBit = d.level ∧ (t.state != .stop) = d.playing := by
  obtain ⟨_, hs⟩ := deck_refinement blocks tail hwf ht cmds
  exact ⟨hs.level, hs.2.symm⟩

/-- **Stopped is frozen** (both variants): time passing over a stopped tape changes nothing — no
level change, no tape consumed. -/
theorem stopped_is_frozen (fixed : Bool) (t : Tap) (n : Nat) (hs : t.state = .stop) :
    Tap.cmd fixed t (.advance n) = (none, t) := by
  simp [Tap.cmd, processClocks, hs]

/-- **Resume is exact** (repaired code): stop, then any mixture of further stops and passing time,
then play gives back the running tape exactly as it was stopped (only the remembered state now
records where that was); in particular stop;stop;play. -/
theorem resume_exact (t : Tap) (hs : t.state ≠ .stop) (ws : List DeckCmd)
    (hws : ∀ c ∈ ws, c = .stop ∨ ∃ n, c = .advance n) :
    runCmds true ([.stop] ++ ws ++ [.play]) t = (none, { t with prevState := t.state }) := by
  have hstop : Tap.cmd true t .stop = (none, { t with prevState := t.state, state := .stop }) := by
    simp [Tap.cmd, Tap.stop, hs]
  have hfrozen : ∀ (ws : List DeckCmd), (∀ c ∈ ws, c = .stop ∨ ∃ n, c = .advance n) →
      runCmds true (ws ++ [.play]) { t with prevState := t.state, state := .stop }
        = (none, { t with prevState := t.state }) := by
    intro ws
    induction ws with
    | nil => intro _; simp [runCmds, Tap.cmd, Tap.play, hs]
    | cons c cs ih =>
      intro h
      have hc := h c List.mem_cons_self
      have hstep : Tap.cmd true { t with prevState := t.state, state := .stop } c
          = (none, { t with prevState := t.state, state := .stop }) := by
        rcases hc with rfl | ⟨n, rfl⟩
        · simp [Tap.cmd, Tap.stop]
        · simp [Tap.cmd, processClocks]
      simp only [List.cons_append, runCmds, hstep]
      exact ih (fun c' h' => h c' (List.mem_cons_of_mem _ h'))
  simp only [List.singleton_append, List.cons_append, runCmds, hstop]
  exact hfrozen ws hws

/-- `play` on a running tape changes nothing (play;play). -/
theorem play_idempotent (t : Tap) : t.play.play = t.play := play_play t

/-- **Blocks once and in order** (repaired code). After any history, what the tape will emit when
it plays on is exactly the part of the nominal sequence the deck has not started yet — the cursor
moves through `nominal` one pulse at a time (or back to the start), so nothing is repeated and
nothing is skipped. -/
theorem blocks_once_in_order (blocks : List (List Byte)) (tail : List Byte) (hwf : WellFormed blocks)
    (ht : tail.length < 2) (cmds : List DeckCmd) :
    let t := (runCmds true cmds (Tap.new (Spec.encode blocks ++ tail))).2
    let d := cmds.foldl Spec.Deck.cmd (Spec.Deck.init blocks)
    ∃ tE, Fires true t.play ((Spec.nominal blocks).drop d.started) tE ∧ tE.state = .play := by
  obtain ⟨_, hs⟩ := deck_refinement blocks tail hwf ht cmds
  obtain ⟨tE, hf, hsE, _⟩ := hs.1.fut
  obtain ⟨hcur, htape⟩ := deck_cursor cmds (Spec.Deck.init blocks) rfl
  refine ⟨tE, ?_, hsE⟩
  rw [hcur, htape] at hf
  exact hf

/-- **Rewind gives a clean pilot** (repaired code): after any history, `rewind` puts the deck at the
start with the level low, and from there the tape emits the whole nominal sequence, beginning with
the full pilot of the first block. -/
theorem rewind_clean_pilot (blocks : List (List Byte)) (tail : List Byte) (hwf : WellFormed blocks)
    (ht : tail.length < 2) (cmds : List DeckCmd) :
    let t := (runCmds true (cmds ++ [.rewind]) (Tap.new (Spec.encode blocks ++ tail))).2
    t.currBit = false ∧ t.delay = 0 ∧ ∃ tE, Fires true t.play (Spec.nominal blocks) tE ∧ tE.state = .play := by
  obtain ⟨_, hs⟩ := deck_refinement blocks tail hwf ht (cmds ++ [.rewind])
  simp only [List.foldl_append, List.foldl_cons, List.foldl_nil] at hs
  obtain ⟨tE, hf, hsE, _⟩ := hs.1.fut
  have hlvl := hs.level
  have hrem := hs.1.rem
  refine ⟨by rw [hlvl]; rfl, ?_, tE, ?_, hsE⟩
  · have : (runCmds true (cmds ++ [.rewind]) (Tap.new (Spec.encode blocks ++ tail))).2.play.delay = 0 := by
      rw [hrem]; rfl
    unfold Tap.play at this
    split at this <;> (try split at this) <;> exact this
  · have htape := (deck_cursor cmds (Spec.Deck.init blocks) rfl).2
    have hf2 : Fires true _ (cmds.foldl Spec.Deck.cmd (Spec.Deck.init blocks)).tape tE := hf
    rw [htape] at hf2
    exact hf2

/-- **Running off the end rewinds and stops** (repaired code): when the deck has played its last
pause, the next call stops it with the level low, rewound, and the next `play` emits the whole tape
again. -/
theorem end_of_tape_rewinds (blocks : List (List Byte)) (tail : List Byte) (hwf : WellFormed blocks)
    (ht : tail.length < 2) (cmds : List DeckCmd) (n : Nat)
    (hend : let d := cmds.foldl Spec.Deck.cmd (Spec.Deck.init blocks)
            d.playing = true ∧ d.remaining = 0 ∧ d.ahead = []) :
    let t := (runCmds true (cmds ++ [.advance n]) (Tap.new (Spec.encode blocks ++ tail))).2
    t.state = .stop ∧ t.currBit = false
      ∧ ∃ tE, Fires true t.play (Spec.nominal blocks) tE ∧ tE.state = .play := by
  obtain ⟨_, hs⟩ := deck_refinement blocks tail hwf ht (cmds ++ [.advance n])
  simp only [List.foldl_append, List.foldl_cons, List.foldl_nil] at hs
  obtain ⟨hp, hr, ha⟩ := hend
  have hd : (Spec.Deck.cmd (cmds.foldl Spec.Deck.cmd (Spec.Deck.init blocks)) (.advance n))
      = { (cmds.foldl Spec.Deck.cmd (Spec.Deck.init blocks)).rewind with playing := false } := by
    simp [Spec.Deck.cmd, Spec.Deck.advance, hp, hr, ha]
  rw [hd] at hs
  obtain ⟨tE, hf, hsE, _⟩ := hs.1.fut
  have htape := (deck_cursor cmds (Spec.Deck.init blocks) rfl).2
  refine ⟨?_, by rw [hs.level]; rfl, tE, ?_, hsE⟩
  · have h2 : false = ((runCmds true (cmds ++ [.advance n]) (Tap.new (Spec.encode blocks ++ tail))).2.state != .stop) := hs.2
    simpa using h2.symm
  · have hf2 : Fires true _ (cmds.foldl Spec.Deck.cmd (Spec.Deck.init blocks)).tape tE := hf
    rw [htape] at hf2
    exact hf2

/-- **The code as found, partial statement.** For histories that never stop a stopped deck, never
rewind and never advance a deck that has run out of tape, the code as found behaves exactly like
the repaired code — hence like the cassette deck. -/
theorem deck_refinement_partial (blocks : List (List Byte)) (tail : List Byte) (hwf : WellFormed blocks)
    (ht : tail.length < 2) (cmds : List DeckCmd) (hclean : cleanFrom (Spec.Deck.init blocks) cmds) :
    (runCmds false cmds (Tap.new (Spec.encode blocks ++ tail))).1 = none
    ∧ Sim true blocks tail (runCmds false cmds (Tap.new (Spec.encode blocks ++ tail))).2
        (cmds.foldl Spec.Deck.cmd (Spec.Deck.init blocks)) := by
  rw [run_variant hwf ht cmds _ _ (sim_init true blocks tail hwf) hclean]
  exact deck_refinement blocks tail hwf ht cmds

/-! The full refinement is **false** for the code as found; three witness histories, one per
stale-state path (known findings `C12/stop-while-stopped`, `C12/rewind-stale-state`,
`C12/end-of-tape-stale-state`). `tapeAfter`/`deckAfter` run a history on the tape of two one-byte
blocks `[0xFF]`, `[0xFF]`. -/

def tapeAfter (fixed : Bool) (cmds : List DeckCmd) : Tap :=
  (runCmds fixed cmds (Tap.new (Spec.encode [[0xFF], [0xFF]]))).2

def deckAfter (cmds : List DeckCmd) : Spec.Deck := cmds.foldl Spec.Deck.cmd (Spec.Deck.init [[0xFF], [0xFF]])

/-- stop;stop;play: the second `stop` forgets the position, `play` restarts at the next block — the
level two calls later differs from the deck's … -/
theorem stop_stop_play_fails :
    (tapeAfter false [.play, .advance 1, .stop, .stop, .play, .advance 3000, .advance 1]).currBit
      ≠ (deckAfter [.play, .advance 1, .stop, .stop, .play, .advance 3000, .advance 1]).level := by
  decide

/-- … while the repaired code agrees with the deck on this history. -/
theorem stop_stop_play_fixed :
    (tapeAfter true [.play, .advance 1, .stop, .stop, .play, .advance 3000, .advance 1]).currBit
      = (deckAfter [.play, .advance 1, .stop, .stop, .play, .advance 3000, .advance 1]).level := by
  decide

/-- rewind while playing keeps the generator state: the tape is not at its start state (`Play`,
which opens the first block with a full pilot) but still inside the old pilot (one pulse short). -/
theorem rewind_keeps_stale_state :
    (tapeAfter false [.play, .advance 1, .rewind]).state = .pilot 3223
    ∧ (tapeAfter true [.play, .advance 1, .rewind]).state = .play := by
  decide

/-- stop;play earlier, then the end of the tape: `prev_state` still holds the pilot state saved by
that stop, and `play` after the end resumes it instead of starting the tape over. Shown on the
stopped tape at the end of the tape (state reached by construction of `smStop`). -/
theorem end_of_tape_keeps_stale_state (t : Tap) (hs : t.state = .play) (hp : t.prevState = .pilot 7)
    (hn : nextBlock t.rd = (.ok false, t.rd)) :
    ((fire false t).2.play).state = .pilot 7 ∧ ((fire true t).2.play).state = .play := by
  constructor
  · simp [fire, hs, hn, smStop, Tap.rewind, Tap.play, hp]
  · simp [fire, hs, hn, smStop, Tap.rewind, Tap.play]

/-! Non-vacuity -/

example : WellFormed [[0xFF], [0xFF]] := by
  intro b hb; simp at hb; subst hb; simp

example : cleanFrom (Spec.Deck.init [[0xFF], [0xFF]]) [.play, .stop, .advance 9, .play, .play] := by
  simp [cleanFrom, Spec.Deck.cmd, Spec.Deck.init, Spec.Deck.advance]

example : (deckAfter [.play, .advance 1, .advance 3000, .advance 1]).started = 2 := by decide

end ZxVerif.C12
