/-
C12 — play, stop and rewind behave like a cassette deck (work in progress).
-/
import ZxVerif.Lemmas.TapePulse
set_option linter.constructorNameAsVariable false
namespace ZxVerif.C12
open ZxVerif.Tape

/-- two one-byte blocks -/
def twoBlocks : List Byte := Spec.encode [[0xFF], [0xFF]]

/-- `resume_exact` fails for the code as found: after play, stop, stop, play the level seen two
calls later differs from the cassette deck's. -/
theorem stop_stop_play_fails :
    let cmds : List DeckCmd := [.play, .advance 1, .stop, .stop, .play, .advance 3000, .advance 1]
    (cmds.foldl (fun t c => (Tap.cmd false t c).2) (Tap.new twoBlocks)).currBit
      ≠ (cmds.foldl Spec.Deck.cmd (Spec.Deck.init [[0xFF], [0xFF]])).level := by
  decide

end ZxVerif.C12
