/-
C12 (and the state machine of C11) — theorems over the tape deck of tap.rs *translated from the Rust source on
every run* (tools/extract.py, table TapeMachine → ZxVerif/Extracted/TapeMachine.lean): `enum TapeState`, the
fields of `struct Tap`, `from_asset`, `can_fast_load`, `current_bit`, `stop`, `play`, `rewind`, and
`process_clocks` — the statements before the `'state_machine` loop (`gate`) and every arm of its
`match self.state`, statement by statement, as state transformers. `next_block`, `next_block_byte` and the asset
seek are parameters of the translation; here they are the model's `nextBlock`, `nextBlockByte`, `Asset.rewind`
(tied to the code by C10's theorems and correspondence), and which fields the two methods touch at all is read
off the source (`reader_frame_extracted`).

What the source text says now is exactly what the hand-written model `Model/Tape.lean` (repaired variant,
`fixed = true`) runs: every arm, for every value of its pulse counter / mask / half-bit delay, every level and
byte, is the model's transition; the loop assembled from the arms is the model's `fire`; `process_clocks`,
`play`, `stop`, `rewind` are the model's. Hence the theorems of Props/C12.lean (cassette deck refinement, stop
then play resumes where it stopped) and of Props/C11.lean (the firings are the nominal pulse sequence) are
theorems about the statements as they stand in tap.rs; a comparison, a constant, a successor state or the
order of the countdown changed there breaks a theorem here.

About the countdown (`gate`): the source does **not** carry a remainder. A call that finds `delay > 0` only
lowers the delay, saturating at 0 (`clocks > delay` ⇒ 0: the excess is dropped); a call that finds `delay = 0`
runs the state machine and ignores its `clocks` argument. That is what the model does and what C11's timer
lemma (every pulse nominal+1 … nominal+31 under 1..16 T steps) is about; it is stated here as it is
(`countdown_saturates`, `firing_ignores_clocks`).
-/
import ZxVerif.Extracted.TapeMachine
import ZxVerif.Props.C12
import ZxVerif.Props.C11
set_option linter.constructorNameAsVariable false
namespace ZxVerif.C12X
open ZxVerif.Tape

open ZxVerif.Extracted

/-! ### the model's state seen as the source's -/

/-- the model's generator state as the source's `TapeState` -/
def conv : Tape.TapeState → TapeMachine.TapeState
  | .stop => .Stop
  | .play => .Play
  | .pilot n => .Pilot n
  | .sync => .Sync
  | .nextByte => .NextByte
  | .nextBit m => .NextBit m
  | .bitHalf h m => .BitHalf h m
  | .pause => .Pause

/-- … and back -/
def back : TapeMachine.TapeState → Tape.TapeState
  | .Stop => .stop
  | .Play => .play
  | .Pilot n => .pilot n
  | .Sync => .sync
  | .NextByte => .nextByte
  | .NextBit m => .nextBit m
  | .BitHalf h m => .bitHalf h m
  | .Pause => .pause

/-- the source's `Tap` over the model's in-memory asset and a list as the 128-byte buffer -/
abbrev Src := TapeMachine.St Asset (List Byte)

/-- the model's tape as the struct of the source, field by field -/
def toSrc (t : Tap) : Src :=
  { asset := t.rd.asset, state := conv t.state, prev_state := conv t.prevState, buffer := t.rd.buffer,
    buffer_offset := t.rd.bufferOffset, block_bytes_read := t.rd.blockBytesRead,
    current_block_size := t.rd.currentBlockSize, tape_ended := t.rd.tapeEnded,
    curr_bit := t.currBit, curr_byte := t.currByte, delay := t.delay }

/-- … and back -/
def ofSrc (s : Src) : Tap :=
  { rd := { asset := s.asset, buffer := s.buffer, bufferOffset := s.buffer_offset,
            blockBytesRead := s.block_bytes_read, currentBlockSize := s.current_block_size,
            tapeEnded := s.tape_ended },
    state := back s.state, prevState := back s.prev_state, currBit := s.curr_bit, currByte := s.curr_byte,
    delay := s.delay }

/-- the reader half of the source's struct replaced (what `next_block` / `next_block_byte` may touch) -/
def withRd (s : Src) (rd : Reader) : Src :=
  { s with asset := rd.asset, buffer := rd.buffer, buffer_offset := rd.bufferOffset,
           block_bytes_read := rd.blockBytesRead, current_block_size := rd.currentBlockSize,
           tape_ended := rd.tapeEnded }

/-- the calls the translation leaves open, answered by the model: `next_block`, `next_block_byte` on the reader
half of the struct, `asset.seek(SeekFrom::Start(n))` on the in-memory asset (cannot fail) -/
def calls : TapeMachine.Calls Asset (List Byte) Err :=
  { next_block := fun s => ((nextBlock (ofSrc s).rd).1, withRd s (nextBlock (ofSrc s).rd).2),
    next_block_byte := fun s => ((nextBlockByte (ofSrc s).rd).1, withRd s (nextBlockByte (ofSrc s).rd).2),
    seek_start := fun n a => (.ok (), { a with rest := a.data.drop n }) }

/-- an error of the source in the model's terms: a failed call hands on the callee's error, the one named error
is `TapeLoadError::InvalidTapFile` -/
def errOf : TapeMachine.Fault Err → Err
  | .call e => e
  | .named _ => .invalidTap

/-- model state → source state → model state is the identity -/
theorem back_conv (x : Tape.TapeState) : back (conv x) = x := by cases x <;> rfl
/-- source state → model state → source state is the identity -/
theorem conv_back (y : TapeMachine.TapeState) : conv (back y) = y := by cases y <;> rfl
/-- model tape → source struct → model tape is the identity -/
theorem ofSrc_toSrc (t : Tap) : ofSrc (toSrc t) = t := by
  simp [ofSrc, toSrc, back_conv]
/-- source struct → model tape → source struct is the identity -/
theorem toSrc_ofSrc (s : Src) : toSrc (ofSrc s) = s := by
  simp [ofSrc, toSrc, conv_back]

/-- **The two state spaces are the same.** `enum TapeState` as declared in the source has exactly the model's
eight states with the same payloads (pulse counter; mask; half-bit delay and mask), and the source's struct is
the model's tape field by field: the translations are inverse bijections. -/
theorem state_spaces_agree :
    (∀ x, back (conv x) = x) ∧ (∀ y, conv (back y) = y) ∧ (∀ t, ofSrc (toSrc t) = t) ∧ (∀ s, toSrc (ofSrc s) = s) :=
  ⟨back_conv, conv_back, ofSrc_toSrc, toSrc_ofSrc⟩

/-- **Constants as the state machine uses them** are the model's (and so, by `C11X.tape_consts_nominal`, the
ROM loader's). -/
theorem machine_consts_extracted :
    TapeMachine.PILOT_LENGTH = PILOT_LENGTH ∧ TapeMachine.PILOT_PULSES_HEADER = PILOT_PULSES_HEADER ∧
    TapeMachine.PILOT_PULSES_DATA = PILOT_PULSES_DATA ∧ TapeMachine.SYNC1_LENGTH = SYNC1_LENGTH ∧
    TapeMachine.SYNC2_LENGTH = SYNC2_LENGTH ∧ TapeMachine.BIT_ONE_LENGTH = BIT_ONE_LENGTH ∧
    TapeMachine.BIT_ZERO_LENGTH = BIT_ZERO_LENGTH ∧ TapeMachine.PAUSE_LENGTH = PAUSE_LENGTH ∧
    TapeMachine.BUFFER_SIZE = BUFFER_SIZE := by decide

/-- **A fresh tape** (`from_asset`): stopped, nothing remembered, level low, no delay pending, nothing read, the
buffer 128 zero bytes — the model's `Tap.new`. -/
theorem from_asset_is_model (data : List Byte) :
    TapeMachine.fromAsset (Asset.new data) (fun fill n => List.replicate n (BitVec.ofNat 8 fill)) = toSrc (Tap.new data) := by
  simp [TapeMachine.fromAsset, toSrc, Tap.new, Reader.new, conv, TapeMachine.BUFFER_SIZE, BUFFER_SIZE]

/-- **`can_fast_load` and `current_bit`**: fast loading is offered exactly while the deck is stopped; the EAR
level is the `curr_bit` field. -/
theorem getters_are_model (t : Tap) :
    TapeMachine.canFastLoad (toSrc t) = t.canFastLoad ∧ TapeMachine.currentBit (toSrc t) = t.currBit := by
  refine ⟨?_, rfl⟩
  cases h : t.state <;> simp [TapeMachine.canFastLoad, toSrc, conv, Tap.canFastLoad, h]

/-- **The reader methods leave the pulse generator alone.** Read off the bodies of `next_block` and
`next_block_byte`: the only parts of `self` they store into, borrow mutably or call a method on are the asset,
the buffer and the four reader counters, and the only method of `self` they call is `next_block_byte` — none of
`state`, `prev_state`, `curr_bit`, `curr_byte`, `delay`, which are all that `process_clocks`, `play`, `stop`
and the two getters look at themselves. (This is why the two calls can be parameters acting on the reader
half only.) -/
theorem reader_frame_extracted :
    (∀ f ∈ TapeMachine.next_block_touches ++ TapeMachine.next_block_byte_touches,
        f ∈ ["asset", "buffer", "buffer_offset", "block_bytes_read", "current_block_size", "tape_ended"]) ∧
    (∀ f ∈ TapeMachine.next_block_calls ++ TapeMachine.next_block_byte_calls, f = "next_block_byte") ∧
    (∀ f ∈ TapeMachine.pulse_fields, f ∈ ["state", "prev_state", "curr_bit", "curr_byte", "delay"]) := by
  decide

/-! ### stop, play, rewind -/

/-- **`stop` is the model's** (repaired variant): a running deck remembers its state in `prev_state` and goes
to `Stop`; stopping a stopped deck changes nothing (it must not forget where it was stopped). -/
theorem stop_is_model (t : Tap) : TapeMachine.stop (toSrc t) = toSrc (t.stop true) := by
  cases h : t.state <;> simp [TapeMachine.stop, toSrc, conv, Tap.stop, h]

/-- **`play` is the model's**: a stopped deck resumes the remembered state, or starts at `Play` when nothing is
remembered; a running deck is left alone. -/
theorem play_is_model (t : Tap) : TapeMachine.play (toSrc t) = toSrc t.play := by
  cases h : t.state <;> cases h2 : t.prevState <;> simp [TapeMachine.play, toSrc, conv, Tap.play, h, h2]

/-- **`rewind` is the model's** (repaired variant), and it cannot fail on an in-memory asset: level low, byte 0,
no delay, reader counters cleared, asset at position 0, end-of-tape mark cleared, the remembered state
forgotten; a running deck restarts at `Play`, a stopped one stays stopped. -/
theorem rewind_is_model (t : Tap) : TapeMachine.rewind calls (toSrc t) = (toSrc (t.rewind true), none) := by
  cases h : t.state <;>
    simp [TapeMachine.rewind, calls, toSrc, conv, Tap.rewind, Reader.rewind, Asset.rewind, h]

/-! ### the statements before the loop -/

/-- **The guard and the countdown are the model's.** A stopped deck returns at once, untouched. A running deck
with a delay pending only counts it down — to 0 when more clocks come than are left, by `clocks` otherwise —
and returns; only a running deck with no delay pending reaches the state machine. -/
theorem gate_is_model (t : Tap) (clocks : Nat) :
    TapeMachine.gate (toSrc t) clocks =
      if t.state = .stop then .returned (toSrc t)
      else if t.delay > 0 then .returned (toSrc { t with delay := if clocks > t.delay then 0 else t.delay - clocks })
      else .enter (toSrc t) := by
  by_cases h0 : t.delay > 0 <;> by_cases h1 : clocks > t.delay <;>
    cases h : t.state <;> simp [TapeMachine.gate, toSrc, conv, h, h0, h1]

/-- **`Stop` returns at once**: nothing of the struct changes while the deck is stopped, whatever `clocks` is. -/
theorem stopped_returns_at_once (t : Tap) (clocks : Nat) (h : t.state = .stop) :
    TapeMachine.gate (toSrc t) clocks = .returned (toSrc t) := by
  rw [gate_is_model]; simp [h]

/-- **The countdown saturates; no remainder is carried.** With `delay > 0` on a running deck the call ends
with `delay' = delay − clocks` cut off at 0 and nothing else changed: when `clocks` exceeds the delay the
excess is dropped, not credited to the next pulse (so a pulse lasts its nominal length plus whatever the
calls overshoot — C11's `timer_lemma` bounds that by 31 T for steps of 1..16 T). -/
theorem countdown_saturates (t : Tap) (clocks : Nat) (hs : t.state ≠ .stop) (hd : 0 < t.delay) :
    TapeMachine.gate (toSrc t) clocks = .returned (toSrc { t with delay := t.delay - clocks }) := by
  rw [gate_is_model]
  by_cases h1 : clocks > t.delay
  · have : t.delay - clocks = 0 := by omega
    simp [hs, hd, h1, this]
  · simp [hs, hd, h1]

/-! ### the arms of `match self.state`, one by one -/

/-- **Arm `Stop`** (reached from `Play` when the tape has run out): rewind, stay stopped, leave the loop. -/
theorem arm_stop_is_model (t : Tap) (clocks : Nat) :
    TapeMachine.armStop calls (toSrc t) clocks = (toSrc (smStop true t), .leave) := by
  simp only [TapeMachine.armStop, rewind_is_model]
  cases h : t.state <;> simp [toSrc, conv, smStop, Tap.rewind, h]

/-- **Arm `Pilot { pulses_left }`**, for every counter value and level: the level toggles, the counter goes down
by one; when it reaches 0 the delay is SYNC1 (667) and the next state `Sync`, otherwise the delay is PILOT
(2168) and the state `Pilot` with the lowered counter; the loop is left. -/
theorem arm_pilot_is_model (t : Tap) (clocks n : Nat) :
    TapeMachine.armPilot calls (toSrc t) clocks n =
      (toSrc (if n - 1 = 0 then { t with currBit := !t.currBit, delay := SYNC1_LENGTH, state := .sync }
              else { t with currBit := !t.currBit, delay := PILOT_LENGTH, state := .pilot (n - 1) }), .leave) := by
  by_cases h : n - 1 = 0 <;>
    simp [TapeMachine.armPilot, toSrc, conv, h, TapeMachine.SYNC1_LENGTH, TapeMachine.PILOT_LENGTH, SYNC1_LENGTH, PILOT_LENGTH]

/-- **Arm `Sync`**: toggle, delay SYNC2 (735), first bit of the flag byte next (mask 0x80), leave. -/
theorem arm_sync_is_model (t : Tap) (clocks : Nat) :
    TapeMachine.armSync calls (toSrc t) clocks =
      (toSrc { t with currBit := !t.currBit, delay := SYNC2_LENGTH, state := .nextBit 0x80 }, .leave) := by
  simp [TapeMachine.armSync, toSrc, conv, TapeMachine.SYNC2_LENGTH, SYNC2_LENGTH]

/-- **Arm `NextBit { mask }`**, for every mask, byte and level: toggle; the bit of the current byte under the
mask selects 855 T (clear) or 1710 T (set) as the delay of this half and, carried in `BitHalf`, of the
second half; the mask is kept; leave. -/
theorem arm_next_bit_is_model (t : Tap) (clocks : Nat) (mask : Byte) :
    TapeMachine.armNextBit calls (toSrc t) clocks mask = (toSrc (smNextBit t mask), .leave) := by
  by_cases h : t.currByte &&& mask = 0#8 <;>
    simp [TapeMachine.armNextBit, toSrc, conv, smNextBit, h, TapeMachine.BIT_ZERO_LENGTH, TapeMachine.BIT_ONE_LENGTH,
      BIT_ZERO_LENGTH, BIT_ONE_LENGTH]

/-- **Arm `BitHalf { half_bit_delay, mask }`**, for every delay, mask and level: toggle, the second half lasts
`half_bit_delay`, the mask moves one bit down; when it has left the byte the next state is `NextByte`,
otherwise `NextBit` with the shifted mask (MSB first); leave. -/
theorem arm_bit_half_is_model (t : Tap) (clocks half : Nat) (mask : Byte) :
    TapeMachine.armBitHalf calls (toSrc t) clocks half mask =
      (toSrc { t with currBit := !t.currBit, delay := half,
                      state := if mask >>> 1 = 0 then .nextByte else .nextBit (mask >>> 1) }, .leave) := by
  by_cases h : mask >>> 1 = 0#8 <;> simp [TapeMachine.armBitHalf, toSrc, conv, h]

/-- **Arm `Pause`**: toggle, one second (3 500 000 T) of delay, then `Play` (next block or end of tape); leave. -/
theorem arm_pause_is_model (t : Tap) (clocks : Nat) :
    TapeMachine.armPause calls (toSrc t) clocks = (toSrc (smPause t), .leave) := by
  simp [TapeMachine.armPause, toSrc, conv, smPause, TapeMachine.PAUSE_LENGTH, PAUSE_LENGTH]

/-- **Arm `NextByte`**, one round: ask the reader for a byte (its error ends the call); a byte becomes the
current byte and the state `NextBit` with mask 0x80, no byte left means `Pause`; level and delay are **not**
touched and the loop goes round again (the next arm makes the edge in the same call). -/
theorem arm_next_byte_is_model (t : Tap) (clocks : Nat) :
    TapeMachine.armNextByte calls (toSrc t) clocks =
      match nextBlockByte t.rd with
      | (.error e, rd) => (toSrc { t with rd := rd }, .fail (.call e))
      | (.ok (some b), rd) => (toSrc { t with rd := rd, currByte := b, state := .nextBit 0x80 }, .again)
      | (.ok none, rd) => (toSrc { t with rd := rd, state := .pause }, .again) := by
  simp only [TapeMachine.armNextByte, calls, ofSrc_toSrc]
  rcases nextBlockByte t.rd with ⟨_ | ob, rd⟩
  · simp [withRd, toSrc]
  · cases ob <;> simp [withRd, toSrc, conv]

/-- **Arm `Play`**, one round: ask the reader for the next block (its error ends the call). None left: the state
becomes `Stop` and the loop goes round again (arm `Stop` then rewinds). Otherwise the first byte of the
block is fetched (an empty block is `InvalidTapFile`); it becomes the current byte and selects 8063 pilot
pulses when it is 0 (header) and 3223 otherwise; level **high**, delay PILOT (2168), state `Pilot`; leave. -/
theorem arm_play_is_model (t : Tap) (clocks : Nat) :
    TapeMachine.armPlay calls (toSrc t) clocks =
      match nextBlock t.rd with
      | (.error e, rd) => (toSrc { t with rd := rd }, .fail (.call e))
      | (.ok false, rd) => (toSrc { t with rd := rd, state := .stop }, .again)
      | (.ok true, rd) =>
        match nextBlockByte rd with
        | (.error e, rd) => (toSrc { t with rd := rd }, .fail (.call e))
        | (.ok none, rd) => (toSrc { t with rd := rd }, .fail (.named "TapeLoadError::InvalidTapFile"))
        | (.ok (some b), rd) =>
          (toSrc { t with rd := rd, currByte := b, currBit := true, delay := PILOT_LENGTH,
                          state := .pilot (if b = 0 then PILOT_PULSES_HEADER else PILOT_PULSES_DATA) }, .leave) := by
  simp only [TapeMachine.armPlay, calls, ofSrc_toSrc]
  rcases nextBlock t.rd with ⟨_ | b, rd⟩
  · simp [withRd, toSrc]
  · cases b
    · simp [withRd, toSrc, conv]
    · simp only [Bool.not_true, Bool.false_eq_true, if_false]
      have hrd : (ofSrc (withRd (toSrc t) rd)).rd = rd := rfl
      simp only [hrd]
      rcases nextBlockByte rd with ⟨_ | ob, rd2⟩
      · simp [withRd, toSrc]
      · cases ob with
        | none => simp [withRd, toSrc]
        | some b =>
          by_cases hb : b = 0#8 <;>
            simp [withRd, toSrc, conv, hb, TapeMachine.PILOT_LENGTH, PILOT_LENGTH, TapeMachine.PILOT_PULSES_HEADER,
              TapeMachine.PILOT_PULSES_DATA, PILOT_PULSES_HEADER, PILOT_PULSES_DATA]

/-- **The arms read off syntactically, in source order** (variant; number of `curr_bit = !curr_bit` statements;
the delays assigned; the states assigned; the calls on `self`; the number of `break`s; whether a path reaches
the end of the arm so that the loop goes round again): `Stop`, `Play` and `NextByte` make no edge themselves,
every other arm toggles the level exactly once; only `Play` (no block left) and `NextByte` go round again;
the reader is consulted in `Play` and `NextByte` only, `rewind` is called in `Stop` only. (A syntactic
tie: a rewrite of an arm that keeps its meaning but not these lists is reported by this theorem alone.) -/
theorem arm_table_extracted :
    TapeMachine.armTable.map (fun r => (r.variant, r.toggles, r.delays, r.successors, r.calls, r.breaks, r.fallsThrough)) =
    [("Stop", 0, [], ["TapeState::Stop"], ["rewind?"], 1, false),
     ("Play", 0, ["PILOT_LENGTH"], ["TapeState::Stop", "TapeState::Pilot{pulses_left: pulses_left}"],
        ["next_block?", "next_block_byte?"], 1, true),
     ("Pilot", 1, ["SYNC1_LENGTH", "PILOT_LENGTH"], ["TapeState::Sync", "TapeState::Pilot{pulses_left: pulses_left}"], [], 1, false),
     ("Sync", 1, ["SYNC2_LENGTH"], ["TapeState::NextBit{mask: 128}"], [], 1, false),
     ("NextByte", 0, [], ["TapeState::NextBit{mask: 128}", "TapeState::Pause"], ["next_block_byte?"], 0, true),
     ("NextBit", 1, ["BIT_ZERO_LENGTH", "BIT_ONE_LENGTH"],
        ["TapeState::BitHalf{half_bit_delay: BIT_ZERO_LENGTH, mask: mask}",
         "TapeState::BitHalf{half_bit_delay: BIT_ONE_LENGTH, mask: mask}"], [], 1, false),
     ("BitHalf", 1, ["half_bit_delay"], ["TapeState::NextByte", "TapeState::NextBit{mask: mask}"], [], 1, false),
     ("Pause", 1, ["PAUSE_LENGTH"], ["TapeState::Play"], [], 1, false)] := rfl

/-! ### the loop, `process_clocks` -/

/-- `match self.state` dispatches on the model's state -/
theorem round_toSrc (t : Tap) (clocks : Nat) :
    TapeMachine.round calls (toSrc t) clocks =
      match t.state with
      | .stop => TapeMachine.armStop calls (toSrc t) clocks
      | .play => TapeMachine.armPlay calls (toSrc t) clocks
      | .pilot n => TapeMachine.armPilot calls (toSrc t) clocks n
      | .sync => TapeMachine.armSync calls (toSrc t) clocks
      | .nextByte => TapeMachine.armNextByte calls (toSrc t) clocks
      | .nextBit m => TapeMachine.armNextBit calls (toSrc t) clocks m
      | .bitHalf h m => TapeMachine.armBitHalf calls (toSrc t) clocks h m
      | .pause => TapeMachine.armPause calls (toSrc t) clocks := by
  obtain ⟨rd, state, prev, bit, byte, delay⟩ := t
  cases state <;> rfl

/-- **The `'state_machine` loop assembled from the translated arms is the model's `fire`**, for every tape
state and every bound of at least two rounds: same struct afterwards, same error. Two rounds are all the
loop ever takes (`Play → Stop → break` at the end of the tape, `NextByte → NextBit | Pause → break`; every
other arm breaks at once). -/
theorem machine_is_fire (t : Tap) (clocks fuel : Nat) :
    (TapeMachine.machine calls (fuel + 2) (toSrc t) clocks).1 = toSrc (fire true t).2 ∧
    (TapeMachine.machine calls (fuel + 2) (toSrc t) clocks).2.map errOf = (fire true t).1 := by
  obtain ⟨rd, state, prev, bit, byte, delay⟩ := t
  cases state with
  | stop => simp [TapeMachine.machine, round_toSrc, arm_stop_is_model, fire]
  | pilot n =>
    simp only [TapeMachine.machine, round_toSrc, arm_pilot_is_model, fire]
    split <;> simp
  | sync => simp [TapeMachine.machine, round_toSrc, arm_sync_is_model, fire]
  | nextBit m => simp [TapeMachine.machine, round_toSrc, arm_next_bit_is_model, fire]
  | bitHalf h m => simp [TapeMachine.machine, round_toSrc, arm_bit_half_is_model, fire]
  | pause => simp [TapeMachine.machine, round_toSrc, arm_pause_is_model, fire]
  | nextByte =>
    simp only [TapeMachine.machine, round_toSrc, arm_next_byte_is_model, fire]
    rcases nextBlockByte rd with ⟨_ | ob, rd2⟩
    · simp [errOf]
    · cases ob <;> simp [round_toSrc, arm_next_bit_is_model, arm_pause_is_model]
  | play =>
    simp only [TapeMachine.machine, round_toSrc, arm_play_is_model, fire]
    rcases nextBlock rd with ⟨_ | b, rd1⟩
    · simp [errOf]
    · cases b
      · simp [round_toSrc, arm_stop_is_model]
      · simp only []
        rcases nextBlockByte rd1 with ⟨_ | ob, rd2⟩
        · simp [errOf]
        · cases ob <;> simp [errOf]

/-- **`process_clocks` as it stands in the source is the model's `processClocks`** (repaired variant), for every
tape state, every `clocks` and every loop bound of at least two rounds: same struct afterwards, same error. -/
theorem process_clocks_is_model (t : Tap) (clocks fuel : Nat) :
    (TapeMachine.processClocks calls (fuel + 2) (toSrc t) clocks).1 = toSrc (processClocks true t clocks).2 ∧
    (TapeMachine.processClocks calls (fuel + 2) (toSrc t) clocks).2.map errOf = (processClocks true t clocks).1 := by
  simp only [TapeMachine.processClocks, gate_is_model, processClocks]
  by_cases hs : t.state = .stop
  · simp [hs]
  · by_cases hd : t.delay > 0
    · simp [hs, hd]
    · simp only [hs, hd, if_false]
      exact machine_is_fire t clocks fuel

/-- one round of the loop does not look at `clocks` -/
theorem round_ignores_clocks (s : Src) (c1 c2 : Nat) :
    TapeMachine.round calls s c1 = TapeMachine.round calls s c2 := by
  unfold TapeMachine.round
  split <;> rfl

/-- **A firing call ignores its `clocks` argument.** When a running deck has no delay pending, the call runs the
state machine and the result does not depend on how many clocks were passed: whatever the previous call
overshot and whatever this call brings is not subtracted from the new delay (no remainder is carried). -/
theorem firing_ignores_clocks (t : Tap) (fuel c1 c2 : Nat) (hs : t.state ≠ .stop) (hd : t.delay = 0) :
    TapeMachine.processClocks calls fuel (toSrc t) c1 = TapeMachine.processClocks calls fuel (toSrc t) c2 := by
  have hm : ∀ (fuel : Nat) (s : Src), TapeMachine.machine calls fuel s c1 = TapeMachine.machine calls fuel s c2 := by
    intro fuel
    induction fuel with
    | zero => intro s; rfl
    | succ n ih =>
      intro s
      simp only [TapeMachine.machine, round_ignores_clocks s c1 c2]
      split <;> simp [ih]
  simp only [TapeMachine.processClocks, gate_is_model, hs, hd, if_false, Nat.lt_irrefl, gt_iff_lt]
  exact hm fuel _

/-! ### command histories on the source's functions; the theorems of Props/C12 and Props/C11 restated -/

/-- one deck command carried out by the translated functions -/
def srcCmd (fuel : Nat) (s : Src) : DeckCmd → Src × Option (TapeMachine.Fault Err)
  | .play => (TapeMachine.play s, none)
  | .stop => (TapeMachine.stop s, none)
  | .rewind => TapeMachine.rewind calls s
  | .advance n => TapeMachine.processClocks calls fuel s n

/-- a command history on the translated functions; stops at the first error -/
def srcRun (fuel : Nat) : List DeckCmd → Src → Src × Option (TapeMachine.Fault Err)
  | [], s => (s, none)
  | c :: cs, s =>
    match srcCmd fuel s c with
    | (s', some f) => (s', some f)
    | (s', none) => srcRun fuel cs s'

/-- **Every deck command on the source's functions is the model's `Tap.cmd`.** -/
theorem src_cmd_is_model (t : Tap) (c : DeckCmd) (fuel : Nat) :
    (srcCmd (fuel + 2) (toSrc t) c).1 = toSrc (Tap.cmd true t c).2 ∧
    (srcCmd (fuel + 2) (toSrc t) c).2.map errOf = (Tap.cmd true t c).1 := by
  cases c with
  | play => exact ⟨play_is_model t, rfl⟩
  | stop => exact ⟨stop_is_model t, rfl⟩
  | rewind => simp [srcCmd, rewind_is_model, Tap.cmd]
  | advance n => exact process_clocks_is_model t n fuel

/-- **Every command history on the source's functions is the model's run**: same struct, same error. -/
theorem src_run_is_model (cmds : List DeckCmd) (t : Tap) (fuel : Nat) :
    (srcRun (fuel + 2) cmds (toSrc t)).1 = toSrc (runCmds true cmds t).2 ∧
    (srcRun (fuel + 2) cmds (toSrc t)).2.map errOf = (runCmds true cmds t).1 := by
  induction cmds generalizing t with
  | nil => exact ⟨rfl, rfl⟩
  | cons c cs ih =>
    obtain ⟨h1, h2⟩ := src_cmd_is_model t c fuel
    simp only [srcRun, runCmds]
    rcases hm : Tap.cmd true t c with ⟨_ | e, t'⟩
    · rw [hm] at h1 h2
      rcases hx : srcCmd (fuel + 2) (toSrc t) c with ⟨s', _ | f⟩
      · rw [hx] at h1; simp only at h1; subst h1
        exact ih t'
      · rw [hx] at h2; simp at h2
    · rw [hm] at h1 h2
      rcases hx : srcCmd (fuel + 2) (toSrc t) c with ⟨s', _ | f⟩
      · rw [hx] at h2; simp at h2
      · rw [hx] at h1 h2; simp only at h1 h2 ⊢
        exact ⟨h1, h2⟩

/-- **Cassette-deck refinement, about the source text** (C12's `deck_refinement` and `deck_observables` carried
over): for every well-formed tape and every finite history of play / stop / rewind / advance n run on the
translated `play`, `stop`, `rewind`, `process_clocks` from `from_asset`, no call fails, and afterwards
`current_bit()` is the deck's level and `!can_fast_load()` (running) is the deck's motor. -/
theorem deck_refinement_src (blocks : List (List Byte)) (tail : List Byte) (hwf : WellFormed blocks)
    (ht : tail.length < 2) (cmds : List DeckCmd) (fuel : Nat) :
    let r := srcRun (fuel + 2) cmds (toSrc (Tap.new (Spec.encode blocks ++ tail)))
    let d := cmds.foldl Spec.Deck.cmd (Spec.Deck.init blocks)
    r.2 = none ∧ TapeMachine.currentBit r.1 = d.level ∧ (!TapeMachine.canFastLoad r.1) = d.playing
      ∧ Sim true blocks tail (ofSrc r.1) d := by
  obtain ⟨h1, h2⟩ := src_run_is_model cmds (Tap.new (Spec.encode blocks ++ tail)) fuel
  obtain ⟨he, hsim⟩ := C12.deck_refinement blocks tail hwf ht cmds
  obtain ⟨hl, hp⟩ := C12.deck_observables blocks tail hwf ht cmds
  simp only at hl hp ⊢
  rw [he] at h2
  refine ⟨by simpa using h2, ?_, ?_, ?_⟩
  · rw [h1, (getters_are_model _).2]; exact hl
  · rw [h1, (getters_are_model _).1, ← hp]
    simp only [Tap.canFastLoad, bne]
    rfl
  · rw [h1, ofSrc_toSrc]; exact hsim

/-- **Stop then play resumes where it stopped, about the source text** (C12's `resume_exact` carried over): on a
running deck, `stop`, then any mixture of further `stop`s and passing time, then `play` — carried out by the
translated functions — leaves every field of the struct as it was when the deck was stopped, except that
`prev_state` now records that state; no call fails. -/
theorem resume_exact_src (s : Src) (hs : TapeMachine.canFastLoad s = false) (ws : List DeckCmd)
    (hws : ∀ c ∈ ws, c = .stop ∨ ∃ n, c = .advance n) (fuel : Nat) :
    srcRun (fuel + 2) ([.stop] ++ ws ++ [.play]) s = ({ s with prev_state := s.state }, none) := by
  have hrun : (ofSrc s).state ≠ .stop := by
    have := (getters_are_model (ofSrc s)).1
    rw [toSrc_ofSrc, hs] at this
    simpa [Tap.canFastLoad] using this.symm
  obtain ⟨h1, h2⟩ := src_run_is_model ([.stop] ++ ws ++ [.play]) (ofSrc s) fuel
  rw [toSrc_ofSrc, C12.resume_exact (ofSrc s) hrun ws hws] at h1 h2
  have h3 : (srcRun (fuel + 2) ([.stop] ++ ws ++ [.play]) s).2 = none := by simpa using h2
  have h4 : toSrc { ofSrc s with prevState := (ofSrc s).state } = { s with prev_state := s.state } := by
    simp [toSrc, ofSrc, conv_back]
  rw [h4] at h1
  exact Prod.ext h1 h3

end ZxVerif.C12X
