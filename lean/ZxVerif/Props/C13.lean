/-
C13 — SNA save then load restores the machine; saving is side-effect free.

Only property theorems live here (helper lemmas: ZxVerif/Lemmas/Snapshot.lean).
Model : ZxVerif/Model/Snapshot.lean (`snaSave`, `snaSaveEffect`, `snaLoad`, parameterised by the
        candidate repairs `Fixes`; `Fixes.none` = the code in /repo, `Fixes.all` = all repairs applied)
Spec  : ZxVerif/Spec/Snapshot.lean (SNA layout `Spec.snaOf`, carried state `Spec.snaCarried`)
All statements quantify over every machine state `s` (registers, paging incl. lock, RAM banks as
abstract 16 KiB byte lists) and every state `r` of the receiving emulator; nothing is bounded.
For each known defect of the unrepaired code there is a `_partial` theorem (the hypothesis excludes
exactly the defect) and a proved counter-example for `Fixes.none`.
-/
import ZxVerif.Lemmas.C13
namespace ZxVerif.C13
open ZxVerif.Snap

theorem save_pure_all (s : Machine) : snaSaveEffect Fixes.all s = s := by
  unfold snaSaveEffect
  split <;> rfl

/-- **C13, 128K round trip (repaired code).** For ALL reachable 128K states `s` (any registers, any
7FFD value incl. lock, any RAM, hence every bank n at 0xC000 and both file sizes) and ALL states `r`
of the receiving 128K emulator (halted, mid prefix chain, EI pending, paging locked, other border,
other RAM): loading what `save` wrote succeeds and restores every carried item, the latch with its
lock and memory map, all eight banks and the display's view; nothing of `r`'s execution state survives. -/
theorem sna_roundtrip_128 (s r : Machine) (hs : WF128 s) (hr : r.kind = .k128) :
    ∃ s', snaLoad Fixes.all (snaSave Fixes.all s) r = .ok s' ∧ Restored128 s s' ∧ CleanExec s' := by
  refine ⟨loaded128 Fixes.all s r, ?_, ?_, ?_⟩
  · unfold snaSave; rw [hs.kind]
    exact snaLoad_save128 Fixes.all s r hs hr (Or.inl rfl)
  · exact restored128_of_loaded Fixes.all s r hs hr (Or.inl rfl) rfl rfl
  · have h := exec_of_loaded128 Fixes.all s r
    simp only [execState, Cpu.resetExec, Fixes.all, if_true, Prod.mk.injEq] at h
    exact h

/-- **C13, back into the same emulator.** The receiver may be the saving machine itself (after
`save`): its latch then already holds exactly the byte the file carries — the restore must still
re-apply it, in particular the lock. -/
theorem sna_roundtrip_same_emulator (s : Machine) (hs : WF128 s) :
    ∃ s', snaLoad Fixes.all (snaSave Fixes.all s) (snaSaveEffect Fixes.all s) = .ok s' ∧
      Restored128 s s' ∧ CleanExec s' ∧ s'.pagingEnabled = s.pagingEnabled := by
  rw [save_pure_all s]
  obtain ⟨s', h1, h2, h3⟩ := sna_roundtrip_128 s s hs hs.kind
  exact ⟨s', h1, h2, h3, h2.2.2.2.2.1⟩

/-- **C13, 128K round trip, the code as it is.** The same holds for the unrepaired code provided
the state has HL' = HL (defect: `get_h_alt/get_l_alt`) and the receiver is not paging-locked
(defect: `write_7ffd` returns early); the receiver's halted / EI-pending / prefix state survives
(defect, see `exec_state_leaks`). -/
theorem sna_roundtrip_128_partial (s r : Machine) (hs : WF128 s) (hr : r.kind = .k128)
    (hh : s.cpu.h' = s.cpu.h) (hl : s.cpu.l' = s.cpu.l) (hu : r.pagingEnabled = true) :
    ∃ s', snaLoad Fixes.none (snaSave Fixes.none s) r = .ok s' ∧ Restored128 s s' ∧
      execState s'.cpu = execState r.cpu := by
  refine ⟨loaded128 Fixes.none s r, ?_, ?_, ?_⟩
  · unfold snaSave; rw [hs.kind]
    exact snaLoad_save128 Fixes.none s r hs hr (Or.inr hu)
  · exact restored128_of_loaded Fixes.none s r hs hr (Or.inr hu)
      (by simp [saveHAlt, Fixes.none, hh]) (by simp [saveLAlt, Fixes.none, hl])
  · exact exec_of_loaded128 Fixes.none s r

/-- **Defect #2 is real.** For the code as it is, whenever HL' ≠ HL the round trip loses HL': the
loaded machine has HL' = HL of the saved one. -/
theorem hl_alt_not_restored (s r : Machine) (hs : WF128 s) (hr : r.kind = .k128)
    (hu : r.pagingEnabled = true) (hne : s.cpu.h' ≠ s.cpu.h ∨ s.cpu.l' ≠ s.cpu.l) :
    ∃ s', snaLoad Fixes.none (snaSave Fixes.none s) r = .ok s' ∧
      (Spec.absRegs s'.cpu).hl' = (Spec.absRegs s.cpu).hl ∧
      (Spec.absRegs s'.cpu).hl' ≠ (Spec.absRegs s.cpu).hl' := by
  refine ⟨loaded128 Fixes.none s r, ?_, ?_⟩
  · unfold snaSave; rw [hs.kind]
    exact snaLoad_save128 Fixes.none s r hs hr (Or.inr hu)
  · obtain ⟨c1, _⟩ := restore7ffd_same Fixes.none
      ({ (hdrLoaded Fixes.none s { r with cpu := r.cpu.resetExec Fixes.none }) with
          cpu := { (hdrLoaded Fixes.none s { r with cpu := r.cpu.resetExec Fixes.none }).cpu with pc := s.cpu.pc } }) s.latch
    have hcpu : (loaded128 Fixes.none s r).cpu.h' = s.cpu.h ∧ (loaded128 Fixes.none s r).cpu.l' = s.cpu.l := by
      unfold loaded128 fin128
      rw [(refresh_same _).1]
      show (Machine.restore7ffd Fixes.none _ s.latch).cpu.h' = _ ∧ (Machine.restore7ffd Fixes.none _ s.latch).cpu.l' = _
      rw [c1]
      exact ⟨rfl, rfl⟩
    have e1 : (Spec.absRegs (loaded128 Fixes.none s r).cpu).hl' = (Spec.absRegs s.cpu).hl := by
      simp [Spec.absRegs, hcpu.1, hcpu.2]
    refine ⟨e1, ?_⟩
    rw [e1]
    intro h
    simp only [Spec.absRegs] at h
    have h1 : lo (word s.cpu.l s.cpu.h) = lo (word s.cpu.l' s.cpu.h') := by
      show lo (Spec.w16 _ _) = lo (Spec.w16 _ _); rw [h]
    have h2 : hi (word s.cpu.l s.cpu.h) = hi (word s.cpu.l' s.cpu.h') := by
      show hi (Spec.w16 _ _) = hi (Spec.w16 _ _); rw [h]
    rw [lo_word, lo_word] at h1
    rw [hi_word, hi_word] at h2
    rcases hne with h | h
    · exact h h2.symm
    · exact h h1.symm

/-- **Defect #11 is real.** With the code as it is, whatever file is loaded, the halted flag, the
EI-pending flag and the pending prefix of the machine that was running before are those of the
loaded machine. -/
theorem exec_state_leaks (f : Bytes) (r s' : Machine) (h : snaLoad Fixes.none f r = .ok s') :
    s'.cpu.halted = r.cpu.halted ∧ s'.cpu.skipInt = r.cpu.skipInt ∧ s'.cpu.pfx = r.cpu.pfx := by
  have := (snaLoad_none_keeps f r s' h).1
  simpa [execState] using this

/-- **Defect #5 is real.** With the code as it is, a load into a paging-locked machine keeps the
old latch and the lock, whatever the file says. -/
theorem lock_leaks (f : Bytes) (r s' : Machine) (hl : r.pagingEnabled = false)
    (h : snaLoad Fixes.none f r = .ok s') : s'.latch = r.latch ∧ s'.pagingEnabled = false :=
  (snaLoad_none_keeps f r s' h).2 hl

/-- Hence no state whose latch differs from a locked receiver's survives a round trip there. -/
theorem roundtrip_fails_into_locked (s r s' : Machine) (hl : r.pagingEnabled = false)
    (hne : s.latch ≠ r.latch) (h : snaLoad Fixes.none (snaSave Fixes.none s) r = .ok s') :
    ¬ Restored128 s s' := by
  intro hres
  have h1 := (lock_leaks _ r s' hl h).1
  exact hne (by rw [← hres.2.2.2.1, h1])

/-! ### 48K -/

/-- **C13, 48K round trip (repaired code)**, under "the two bytes below SP are RAM". -/
theorem sna_roundtrip_48 (s r : Machine) (hs : WF48 s) (hr : r.kind = .k48) (hst : stackInRam s) :
    ∃ s', snaLoad Fixes.all (snaSave Fixes.all s) r = .ok s' ∧ Restored48 s s' ∧ CleanExec s' := by
  refine ⟨loaded48 Fixes.all s r, ?_, ?_⟩
  · unfold snaSave; rw [hs.kind]
    exact snaLoad_save48 Fixes.all s r hs hr
  · obtain ⟨h1, h2⟩ := restored48_of_loaded Fixes.all s r hs hr hst rfl rfl
    refine ⟨h1, ?_⟩
    simp only [execState, Cpu.resetExec, Fixes.all, if_true, Prod.mk.injEq] at h2
    exact h2

/-- **C13, 48K round trip, the code as it is**: needs HL' = HL; the receiver's execution state survives. -/
theorem sna_roundtrip_48_partial (s r : Machine) (hs : WF48 s) (hr : r.kind = .k48) (hst : stackInRam s)
    (hh : s.cpu.h' = s.cpu.h) (hl : s.cpu.l' = s.cpu.l) :
    ∃ s', snaLoad Fixes.none (snaSave Fixes.none s) r = .ok s' ∧ Restored48 s s' ∧
      execState s'.cpu = execState r.cpu := by
  refine ⟨loaded48 Fixes.none s r, ?_, ?_⟩
  · unfold snaSave; rw [hs.kind]
    exact snaLoad_save48 Fixes.none s r hs hr
  · exact restored48_of_loaded Fixes.none s r hs hr hst
      (by simp [saveHAlt, Fixes.none, hh]) (by simp [saveLAlt, Fixes.none, hl])

/-- Apart from the two stack bytes the loaded 48K machine reads like the saved one. -/
theorem pushed_bytes_only (s : Machine) (hs : WF48 s) (hst : stackInRam s) (a : BitVec 16)
    (h1 : a ≠ s.cpu.sp - 1) (h2 : a ≠ s.cpu.sp - 2) : s.pushPc.read a = s.read a :=
  (pushPc_read s hs hst).2.2 a h1 h2

/-! ### saving is side-effect free -/

/-- **C13, purity (repaired code).** Taking a snapshot leaves the whole machine unchanged — for
every state, both machines, wherever the stack is. -/
theorem save_pure (s : Machine) : snaSaveEffect Fixes.all s = s := by
  unfold snaSaveEffect
  split <;> rfl

/-- On the 128K saving is pure already in the code as it is. -/
theorem save_pure_128 (fx : Fixes) (s : Machine) (h : s.kind = .k128) : snaSaveEffect fx s = s := by
  unfold snaSaveEffect
  rw [h]

/-- **Purity, 48K, the code as it is**: with the two bytes below SP in RAM the registers are
unchanged and memory is unchanged *except those two bytes* (defect: they now hold PC, see
`save48_writes_live_ram`). -/
theorem save_pure_48_partial (s : Machine) (hs : WF48 s) (hst : stackInRam s) :
    (snaSaveEffect Fixes.none s).cpu = s.cpu ∧
    ∀ a, a ≠ s.cpu.sp - 1 → a ≠ s.cpu.sp - 2 → (snaSaveEffect Fixes.none s).read a = s.read a := by
  rw [saveEffect48_none s hs.kind]
  obtain ⟨r1, r2, r3⟩ := pushPc_read s hs hst
  obtain ⟨a1, a2⟩ := sp_arith s.cpu.sp
  have ecpu : s.pushPc.cpu = { s.cpu with sp := s.cpu.sp - 2 } := by
    show { ((s.write _ _).write _ _).cpu with sp := s.cpu.sp - 2 } = _
    rw [write_cpu, write_cpu]
  have hsp : s.pushPc.cpu.sp = s.cpu.sp - 2 := by rw [ecpu]
  constructor
  · unfold Machine.popPc
    simp only [hsp, r1, a2, r2, word_lo_hi, a1, ecpu]
  · intro a h1 h2
    show s.pushPc.read a = _
    exact r3 a h1 h2

/-- **Defect #11 (save) is real.** With the code as it is, after taking a 48K snapshot the byte
below SP holds the high byte of PC, whatever was there. -/
theorem save48_writes_live_ram (s : Machine) (hs : WF48 s) (hst : stackInRam s) :
    (snaSaveEffect Fixes.none s).read (s.cpu.sp - 1) = hi s.cpu.pc ∧
    (snaSaveEffect Fixes.none s).read (s.cpu.sp - 2) = lo s.cpu.pc := by
  rw [saveEffect48_none s hs.kind]
  obtain ⟨r1, r2, _⟩ := pushPc_read s hs hst
  exact ⟨r2, r1⟩

/-! ### layout -/

/-- **C13, layout of the header.** The 27 bytes `save` writes are exactly
`I, HL', DE', BC', AF', HL, DE, BC, IY, IX, IFF2<<2, R, AF, SP, IM, border`, little-endian — given
the alternate-HL getters are right (repaired code) or HL' = HL. -/
theorem layout_header (fx : Fixes) (s : Machine)
    (hh : saveHAlt fx s.cpu = s.cpu.h') (hl : saveLAlt fx s.cpu = s.cpu.l') :
    snaHeader fx s = Spec.snaHeader (Spec.absRegs s.cpu) s.cpu.sp s.border := by
  unfold snaHeader Spec.snaHeader Spec.absRegs
  simp only [spec_lo_w16, spec_hi_w16, hh, hl]
  rfl

/-- **C13, layout of the 128K file**: header, banks 5, 2, n, `PC, latch, 0`, the other banks
ascending — the writer's output is the file the SNA layout prescribes for the state. -/
theorem layout_128 (fx : Fixes) (s : Machine) (hs : WF128 s)
    (hh : saveHAlt fx s.cpu = s.cpu.h') (hl : saveLAlt fx s.cpu = s.cpu.l') :
    snaSave fx s = Spec.snaOf (Spec.abs s) := by
  have hn : ((Spec.abs s).latch &&& 7).toNat = s.pagedBank := by rw [hs.paged]; rfl
  have hpage : (Spec.abs s).page = s.ram := by
    funext n; simp [Spec.abs, Spec.absPage, hs.kind]
  unfold snaSave Spec.snaOf
  have hk : (Spec.abs s).model = .k128 := hs.kind
  rw [hs.kind, hk]
  show snaSave128 fx s = Spec.sna128 (Spec.abs s)
  unfold snaSave128 Spec.sna128
  simp only [hn, hpage]
  rw [layout_header fx s hh hl]
  simp only [List.append_assoc]
  rfl

/-- **C13, layout of the 48K file**: the header with SP already decremented, then RAM
0x4000–0xFFFF with PC pushed below SP — the writer's output is the file the layout prescribes. -/
theorem layout_48 (fx : Fixes) (s : Machine) (hs : WF48 s)
    (hh : saveHAlt fx s.cpu = s.cpu.h') (hl : saveLAlt fx s.cpu = s.cpu.l') :
    snaSave fx s = Spec.snaOf (Spec.abs s) := by
  have hk : (Spec.abs s).model = .k48 := hs.kind
  have hpages := abs_pushPc_pages s hs.kind
  have ecpu : s.pushPc.cpu = { s.cpu with sp := s.cpu.sp - 2 } := by
    show { ((s.write _ _).write _ _).cpu with sp := s.cpu.sp - 2 } = _
    rw [write_cpu, write_cpu]
  have ebd : s.pushPc.border = s.border := by
    show ((s.write _ _).write _ _).border = _
    rw [write_border, write_border]
  have hkp : s.pushPc.kind = .k48 := hs.pushPc.kind
  unfold snaSave Spec.snaOf
  rw [hs.kind, hk]
  show snaSave48 fx s = Spec.sna48 (Spec.abs s)
  unfold snaSave48 Spec.sna48 Machine.entered48
  have hhdr : snaHeader fx s.pushPc = Spec.snaHeader (Spec.abs s).regs ((Spec.abs s).regs.sp - 2) (Spec.abs s).border := by
    rw [layout_header fx s.pushPc (by rw [ecpu]; exact hh) (by rw [ecpu]; exact hl), ecpu, ebd]
    rfl
  simp only []
  rw [hhdr, ← hpages]
  simp only [List.append_assoc]
  have hp : ∀ n, (Spec.abs s.pushPc).page n = s.pushPc.ram (Spec.absPage .k48 n) := by
    intro n; simp [Spec.abs, hkp]
  rw [hp 5, hp 2, hp 0]
  rfl

/-- **C13, `layout`** (both machines, repaired getters): what `save` writes is byte for byte the file
the SNA layout prescribes for the machine's abstract state — every header offset, the bank order,
the secondary header, the pushed PC. -/
theorem layout (s : Machine) (h : WF48 s ∨ WF128 s) : snaSave Fixes.all s = Spec.snaOf (Spec.abs s) := by
  rcases h with h | h
  · exact layout_48 Fixes.all s h rfl rfl
  · exact layout_128 Fixes.all s h rfl rfl

/-- The defect made visible in the layout: the code as it is writes HL where HL' belongs. -/
theorem layout_header_code_writes_hl (s : Machine) :
    (snaHeader Fixes.none s).getD 1 0 = s.cpu.l ∧ (snaHeader Fixes.none s).getD 2 0 = s.cpu.h := ⟨rfl, rfl⟩

/-! ### concrete witnesses (non-vacuity, and the defects on concrete states) -/

/-- a 128K state: HL = 0x4433, HL' = 0x2211, bank 3 at 0xC000, bank k filled with byte k -/
def w128 : Machine :=
  { kind := .k128, cpu := { h := 0x44, l := 0x33, h' := 0x22, l' := 0x11, pc := 0x9000, sp := 0x8000, im := 1 },
    border := 2, borderDev := 2, latch := 3, pagingEnabled := true, screenBank := 5, map0 := 0, map3 := 3,
    ram := fun k => List.replicate 16384 (BitVec.ofNat 8 k) }

theorem w128_wf : WF128 w128 :=
  ⟨rfl, by decide, by decide, by decide, by decide, by decide, by decide,
   fun k _ => List.length_replicate ..⟩

/-- a dirty 128K receiver: paging locked, halted, in the middle of a DD chain, other border -/
def dirty128 : Machine :=
  { kind := .k128, cpu := { halted := true, skipInt := true, pfx := .dd, h' := 0x77 }, border := 5, borderDev := 5,
    latch := 0x20, pagingEnabled := false, screenBank := 5, map0 := 0, map3 := 0 }

/-- a fresh 128K receiver -/
def fresh128 : Machine := { kind := .k128, pagingEnabled := true, screenBank := 5, map3 := 0 }

/-- a 48K state with the stack in RAM -/
def w48 : Machine :=
  { kind := .k48, cpu := { sp := 0x8000, pc := 0x1234, h' := 0x22, h := 0x44 },
    ram := fun _ => List.replicate 16384 0 }

theorem w48_wf : WF48 w48 := ⟨rfl, by decide, by decide, fun k _ => List.length_replicate ..⟩
theorem w48_stack : stackInRam w48 := ⟨by decide, by decide⟩

/-- the repaired code round-trips `w128` even into the dirty, locked receiver -/
example : ∃ s', snaLoad Fixes.all (snaSave Fixes.all w128) dirty128 = .ok s' ∧ Restored128 w128 s' ∧ CleanExec s' :=
  sna_roundtrip_128 w128 dirty128 w128_wf rfl

/-- the code as it is loses HL' of `w128` (file says 0x4433 where 0x2211 belongs) -/
theorem code_loses_hl_alt : ∃ s', snaLoad Fixes.none (snaSave Fixes.none w128) fresh128 = .ok s' ∧
    (Spec.absRegs s'.cpu).hl' = 0x4433 ∧ (Spec.absRegs w128.cpu).hl' = 0x2211 := by
  obtain ⟨s', h, e, _⟩ := hl_alt_not_restored w128 fresh128 w128_wf rfl rfl (Or.inl (by decide))
  exact ⟨s', h, by rw [e]; decide, by decide⟩

/-- the header the code writes for `w128` is not the header the layout prescribes -/
theorem code_header_violates :
    snaHeader Fixes.none w128 ≠ Spec.snaHeader (Spec.absRegs w128.cpu) w128.cpu.sp w128.border := by
  decide

/-- the code as it is cannot restore `w128` into the locked receiver, and leaves it halted mid-prefix -/
theorem code_leaks_receiver (s' : Machine)
    (h : snaLoad Fixes.none (snaSave Fixes.none w128) dirty128 = .ok s') :
    ¬ Restored128 w128 s' ∧ s'.cpu.halted = true ∧ s'.cpu.pfx = .dd :=
  ⟨roundtrip_fails_into_locked w128 dirty128 s' rfl (by decide) h,
   (exec_state_leaks _ _ _ h).1, (exec_state_leaks _ _ _ h).2.2⟩

/-- the code as it is changes RAM of `w48` by saving: 0x7FFF read 0x00 before, 0x12 after -/
theorem code_save_not_pure :
    (snaSaveEffect Fixes.none w48).read 0x7FFF = 0x12 ∧ w48.read 0x7FFF = 0x00 := by
  refine ⟨?_, ?_⟩
  · have := (save48_writes_live_ram w48 w48_wf w48_stack).1
    have e : w48.cpu.sp - 1 = 0x7FFF := by decide
    rw [e] at this
    rw [this]; decide
  · show (List.replicate 16384 (0 : Byte)).getD (0x7FFF % 16384) 0 = 0
    rw [List.getD_eq_getElem?_getD, List.getElem?_replicate]
    split <;> rfl

example : ∃ s', snaLoad Fixes.all (snaSave Fixes.all w48) { kind := .k48 } = .ok s' ∧ Restored48 w48 s' ∧ CleanExec s' :=
  sna_roundtrip_48 w48 _ w48_wf rfl w48_stack

end ZxVerif.C13
