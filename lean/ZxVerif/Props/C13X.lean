/-
C13 — theorems over the SNA byte layout *translated from the Rust source on every run*
(tools/extract.py → ZxVerif/Extracted/SnaLayout.lean): every `header[k] = …` of `sna::save`, every
register setter of `sna::load` with the header bytes it is fed (EXX / EX AF,AF' followed through), the
order of the pieces both functions write / read after the header, the seek offsets and size tests.

What the source text says now is (a) the documented SNA format, stated outright here, and (b) exactly
the layout the hand-written model `Model/Snapshot.lean` encodes and decodes with: the model's
`snaHeader` / `snaLoadHeader` / `snaSave128` / `snaSave48` are *equal* to generic interpreters run on the
extracted tables, for every machine state and every byte string. So the theorems of Props/C13.lean are
theorems about the layout as it stands in sna.rs; an offset, order, width or mask changed there
(consistently in `save` and `load`, so that a round trip still works) breaks a theorem here.
-/
import ZxVerif.Extracted.SnaLayout
import ZxVerif.Props.C13
namespace ZxVerif.C13X
open ZxVerif.Snap
open ZxVerif.Extracted

abbrev F := Sna.Field

/-! ### the documented format -/

/-- The SNA header as the format documents it: (field, offset, width), little-endian words —
`I, HL', DE', BC', AF', HL, DE, BC, IY, IX, IFF2, R, AF, SP, IM, border`. -/
def docHeader : List (F × Nat × Nat) :=
  [(.i, 0, 1), (.hl', 1, 2), (.de', 3, 2), (.bc', 5, 2), (.af', 7, 2), (.hl, 9, 2), (.de, 11, 2), (.bc, 13, 2),
   (.iy, 15, 2), (.ix, 17, 2), (.iff2, 19, 1), (.r, 20, 1), (.af, 21, 2), (.sp, 23, 2), (.im, 25, 1),
   (.border, 26, 1)]

/-- What a loader takes from the header: the same, and IFF1 from the IFF2 byte as well. -/
def docHeaderLoad : List (F × Nat × Nat) :=
  [(.i, 0, 1), (.hl', 1, 2), (.de', 3, 2), (.bc', 5, 2), (.af', 7, 2), (.hl, 9, 2), (.de, 11, 2), (.bc, 13, 2),
   (.iy, 15, 2), (.ix, 17, 2), (.iff1, 19, 1), (.iff2, 19, 1), (.r, 20, 1), (.af, 21, 2), (.sp, 23, 2),
   (.im, 25, 1), (.border, 26, 1)]

/-- byte `k` of a field at `offset + k` (little-endian), with the mask the field is written / read under -/
def expand (mask : F → Nat) : List (F × Nat × Nat) → List (F × Nat × Nat × Nat)
  | [] => []
  | (f, off, w) :: r => (List.range w).map (fun k => (f, k, off + k, mask f)) ++ expand mask r

/-- `save` writes whole bytes, except IFF2 = bit 2 (mask 0x04) -/
def saveMask : F → Nat
  | .iff2 => 0x04
  | _ => 0xFF

/-- `load` reads whole bytes, except IFF = bit 2, IM = the low two bits, border = the low three -/
def loadMask : F → Nat
  | .iff1 => 0x04
  | .iff2 => 0x04
  | .im => 0x03
  | .border => 0x07
  | _ => 0xFF

/-- **`save`, source text = documented format.** The header stores of `sna::save`, as they stand in the
source, are the documented SNA header: fields, offsets 0,1,3,…,25,26, widths, every word low byte
first, IFF2 as the bit 0x04 of byte 19. -/
theorem save_layout_is_documented :
    Sna.saveFields = docHeader ∧ Sna.saveBytes = expand saveMask docHeader := by decide

/-- **`load`, source text = documented format.** Following the setters of `sna::load` through its
`exx()` / `swap_af_alt()` calls, every register is loaded from the documented offset, low byte first;
IFF1 and IFF2 both from bit 2 of byte 19, IM from byte 25 under mask 3, border from byte 26 under mask 7. -/
theorem load_layout_is_documented :
    Sna.loadFields = docHeaderLoad ∧ Sna.loadBytes = expand loadMask docHeaderLoad := by decide

/-- `save` and `load` use one and the same layout (the only differences: `load` also sets IFF1 from
the IFF2 byte, and masks IM and border). -/
theorem save_load_same_layout :
    Sna.saveBytes.map (fun e => (e.1, e.2.1, e.2.2.1)) =
      (Sna.loadBytes.filter (fun e => e.1 != .iff1)).map (fun e => (e.1, e.2.1, e.2.2.1)) := by decide

/-- **No overlap, no gap (save).** The stores of `save` hit every offset 0…26 of the 27-byte header
exactly once. -/
theorem save_header_covered_once :
    Sna.saveHeaderSize = 27 ∧ Sna.saveBytes.map (fun e => e.2.2.1) = List.range Sna.saveHeaderSize := by decide

/-- **No overlap, no gap (load).** `load` reads a 27-byte header from file offset 0 and consumes every
offset 0…26; no two registers share a byte except IFF1/IFF2 (byte 19), and no register byte is loaded
from two places. -/
theorem load_header_covered :
    Sna.loadHeaderSize = 27 ∧ Sna.loadHeaderAt = 0 ∧
    (Sna.loadBytes.map (fun e => e.2.2.1)).eraseDups = List.range Sna.loadHeaderSize ∧
    ((Sna.loadBytes.filter (fun e => e.1 != .iff1)).map (fun e => e.2.2.1)) = List.range Sna.loadHeaderSize ∧
    (Sna.loadBytes.map (fun e => (e.1, e.2.1))).eraseDups = Sna.loadBytes.map (fun e => (e.1, e.2.1)) := by
  decide

/-- **IFF2 is bit 2 of byte 19**, for the writer and for the reader (which feeds IFF1 from it too). -/
theorem iff2_is_bit2_of_byte19 :
    (Sna.Field.iff2, 0, 19, 1 <<< 2) ∈ Sna.saveBytes ∧ (Sna.Field.iff2, 0, 19, 1 <<< 2) ∈ Sna.loadBytes ∧
    (Sna.Field.iff1, 0, 19, 1 <<< 2) ∈ Sna.loadBytes := by decide

/-- Interrupt mode 3 does not exist: `load` rejects a header whose byte 25, under mask 3, exceeds 2 —
and tests nothing else about the header. -/
theorem load_rejects_im3_only : Sna.loadLimits = [(25, 0x03, 2)] := by decide

/-! ### the model encodes with the extracted layout -/

/-- the value `save` stores for (field, byte of the field) — the model's view of the accessor the
source names (`get_l_alt`/`get_h_alt` as `saveLAlt`/`saveHAlt`: what they return is registers.rs' business) -/
def srcByte (fx : Fixes) (m : Machine) : F → Nat → Nat → Byte
  | .i, 0, _ => m.cpu.i
  | .hl', 0, _ => saveLAlt fx m.cpu
  | .hl', 1, _ => saveHAlt fx m.cpu
  | .de', 0, _ => m.cpu.e'
  | .de', 1, _ => m.cpu.d'
  | .bc', 0, _ => m.cpu.c'
  | .bc', 1, _ => m.cpu.b'
  | .af', 0, _ => m.cpu.f'
  | .af', 1, _ => m.cpu.a'
  | .hl, 0, _ => m.cpu.l
  | .hl, 1, _ => m.cpu.h
  | .de, 0, _ => m.cpu.e
  | .de, 1, _ => m.cpu.d
  | .bc, 0, _ => m.cpu.c
  | .bc, 1, _ => m.cpu.b
  | .iy, 0, _ => lo m.cpu.iy
  | .iy, 1, _ => hi m.cpu.iy
  | .ix, 0, _ => lo m.cpu.ix
  | .ix, 1, _ => hi m.cpu.ix
  | .iff2, 0, mask => if m.cpu.iff2 then BitVec.ofNat 8 mask else 0
  | .r, 0, _ => m.cpu.r
  | .af, 0, _ => m.cpu.f
  | .af, 1, _ => m.cpu.a
  | .sp, 0, _ => lo m.cpu.sp
  | .sp, 1, _ => hi m.cpu.sp
  | .im, 0, _ => BitVec.ofNat 8 m.cpu.im
  | .border, 0, _ => m.border
  | .pc, 0, _ => lo m.cpu.pc
  | .pc, 1, _ => hi m.cpu.pc
  | .port7ffd, 0, _ => m.latch
  | _, _, _ => 0

/-- A zeroed array of `size` bytes with the table's stores applied: byte `k` is what the one entry
at offset `k` says (no entry, or several: the byte stays out of the comparison as 0). -/
def encodeHeader (fx : Fixes) (tbl : List (F × Nat × Nat × Nat)) (size : Nat) (m : Machine) : Bytes :=
  (List.range size).map fun k =>
    match tbl.filter (fun e => e.2.2.1 == k) with
    | [(f, p, _, mask)] => srcByte fx m f p mask
    | _ => 0

/-- **The model writes the header the source lays out.** For every machine state, the 27 bytes of the
model's `snaHeader` are the extracted stores of `sna::save`, evaluated. -/
theorem save_header_is_model (fx : Fixes) (m : Machine) :
    encodeHeader fx Sna.saveBytes Sna.saveHeaderSize m = snaHeader fx m := rfl

/-- … hence the header the *source's* layout produces is the one the SNA spec prescribes for the
machine's abstract state (given the alternate-HL getters are right). -/
theorem save_header_is_spec (fx : Fixes) (m : Machine)
    (hh : saveHAlt fx m.cpu = m.cpu.h') (hl : saveLAlt fx m.cpu = m.cpu.l') :
    encodeHeader fx Sna.saveBytes Sna.saveHeaderSize m =
      Spec.snaHeader (Spec.absRegs m.cpu) m.cpu.sp m.border := by
  rw [save_header_is_model]; exact C13.layout_header fx m hh hl

/-! ### the model decodes with the extracted layout -/

/-- offset of (field, byte) in a table; a field the table does not place exactly once reads from
outside every header -/
def offOf (tbl : List (F × Nat × Nat × Nat)) (f : F) (p : Nat) : Nat :=
  match tbl.filter (fun e => e.1 == f && e.2.1 == p) with
  | [(_, _, o, _)] => o
  | _ => 1000000

/-- mask of (field, byte) in a table -/
def maskOf (tbl : List (F × Nat × Nat × Nat)) (f : F) (p : Nat) : Nat :=
  match tbl.filter (fun e => e.1 == f && e.2.1 == p) with
  | [(_, _, _, k)] => k
  | _ => 0

/-- the header byte the table assigns to (field, byte), under its mask -/
def readField (tbl : List (F × Nat × Nat × Nat)) (hd : Bytes) (f : F) (p : Nat) : Byte :=
  if maskOf tbl f p = 0xFF then hd.getD (offOf tbl f p) 0
  else hd.getD (offOf tbl f p) 0 &&& BitVec.ofNat 8 (maskOf tbl f p)

/-- A header applied to a machine the way a layout table says: every register from its bytes,
IFF from a non-zero masked byte, `limits` rejected first. -/
def decodeHeader (tbl : List (F × Nat × Nat × Nat)) (limits : List (Nat × Nat × Nat)) (hd : Bytes) (m : Machine) :
    Option Machine :=
  let g := readField tbl hd
  if limits.any (fun l => decide (l.2.2 < (hd.getD l.1 0 &&& BitVec.ofNat 8 l.2.1).toNat)) then none else
  let c := m.cpu
  let c := { c with i := g .i 0, l' := g .hl' 0, h' := g .hl' 1, e' := g .de' 0, d' := g .de' 1, c' := g .bc' 0,
                    b' := g .bc' 1, f' := g .af' 0, a' := g .af' 1, l := g .hl 0, h := g .hl 1, e := g .de 0,
                    d := g .de 1, c := g .bc 0, b := g .bc 1, iy := word (g .iy 0) (g .iy 1),
                    ix := word (g .ix 0) (g .ix 1), iff1 := g .iff1 0 != 0, iff2 := g .iff2 0 != 0,
                    r := g .r 0, f := g .af 0, a := g .af 1, sp := word (g .sp 0) (g .sp 1),
                    im := (g .im 0).toNat }
  some ({ m with cpu := c }.setBorder (g .border 0))

/-- a two-bit number exceeds 2 exactly when it is 3 -/
theorem two_bits_gt2 (b : Byte) : 2 < (b &&& 3).toNat ↔ (b &&& 3).toNat = 3 := by
  have h : (b &&& 3).toNat ≤ 3 := by
    rw [BitVec.toNat_and]; exact Nat.and_le_right
  omega

/-- the extracted rejection test of `load` is the model's "interrupt mode 3" test -/
theorem limits_guard (hd : Bytes) :
    (Sna.loadLimits.any fun l => decide (l.2.2 < (hd.getD l.1 0 &&& BitVec.ofNat 8 l.2.1).toNat)) =
      decide ((hd.getD 25 0 &&& 3).toNat = 3) := by
  show (decide (2 < (hd.getD 25 0 &&& 3).toNat) || false) = _
  rw [Bool.or_false]; exact decide_eq_decide.mpr (two_bits_gt2 _)

/-- **The model reads the header the source lays out.** For every byte string and every receiving
machine, the model's `snaLoadHeader` is the extracted register/offset/mask table of `sna::load`,
applied — including which headers are rejected. -/
theorem load_header_is_model (hd : Bytes) (m : Machine) :
    decodeHeader Sna.loadBytes Sna.loadLimits hd m = snaLoadHeader hd m := by
  unfold decodeHeader snaLoadHeader
  rw [limits_guard]
  by_cases h3 : (hd.getD 25 0 &&& 3).toNat = 3
  · rw [if_pos (decide_eq_true h3)]; exact (if_pos h3).symm
  · rw [if_neg (by rw [decide_eq_false h3]; exact Bool.false_ne_true)]; exact (if_neg h3).symm

/-! ### the pieces of the file after the header -/

/-- the bytes one piece stands for -/
def segBytes (fx : Fixes) (m : Machine) : Sna.Seg → Bytes
  | .bank n => m.ram n
  | .paged => m.ram m.pagedBank
  | .bytes fs => fs.map fun e => srcByte fx m e.1 e.2 0xFF
  | .rest bs => (bs.filter (· != m.pagedBank)).flatMap m.ram

/-- **128K file, model = source.** The model's 128K file is the header followed by the pieces
`sna::save` writes, in the source's order: banks 5, 2, the bank at 0xFFFF, then `PC, 0x7FFD, 0`,
then banks 0,1,3,4,6,7 without the one already written. -/
theorem save128_is_model (fx : Fixes) (m : Machine) :
    snaSave128 fx m =
      encodeHeader fx Sna.saveBytes Sna.saveHeaderSize m ++ Sna.save128.flatMap (segBytes fx m) := by
  rw [save_header_is_model]
  simp [snaSave128, Sna.save128, segBytes, srcByte, tailBanks, snaTailBanks]

/-- **48K file, model = source.** The model's 48K file is the header — with SP already lowered by the
extracted `saveSpDelta48` = 2 — followed by pages 0, 1, 2 (PC patched in below SP, `entered48`). -/
theorem save48_is_model (fx : Fixes) (m : Machine) :
    snaSave48 fx m =
      encodeHeader fx Sna.saveBytes Sna.saveHeaderSize m.entered48 ++
        Sna.save48.flatMap (segBytes fx m.entered48) ∧
    m.entered48.cpu.sp = m.cpu.sp - BitVec.ofNat 16 Sna.saveSpDelta48 := by
  refine ⟨?_, rfl⟩
  rw [save_header_is_model]
  simp [snaSave48, Sna.save48, segBytes]

/-- The bank called "paged" is the one at 0xFFFF, i.e. in the fourth 16K block — the model's `page 3`
— for the writer and for the reader. -/
theorem paged_is_block3 :
    Sna.savePagedAddr = 0xFFFF ∧ Sna.loadPagedAddr = 0xFFFF ∧ Sna.savePagedAddr / Sna.pageSize = 3 := by decide

/-- length of a piece when bank `p` is paged in at 0xC000 -/
def segLen (p : Nat) : Sna.Seg → Nat
  | .bank _ => Sna.pageSize
  | .paged => Sna.pageSize
  | .bytes fs => fs.length
  | .rest bs => Sna.pageSize * (bs.filter (· != p)).length

/-- (file offset, piece) of consecutive pieces starting at `start` -/
def place (p : Nat) : Nat → List Sna.Seg → List (Nat × Sna.Seg)
  | _, [] => []
  | start, s :: r => (start, s) :: place p (start + segLen p s) r

/-- file length: header plus pieces -/
def fileLen (p : Nat) (segs : List Sna.Seg) : Nat := Sna.saveHeaderSize + (segs.map (segLen p)).sum

/-- **The documented file sizes and offsets follow from the source's layout.** A 48K file is
49179 bytes; in a 128K file banks 5, 2, n start at 27, 16411, 32795, PC is at 49179 (after 49152 bytes
of banks), the 0x7FFD byte at 49181, the remaining banks from 49183; the file is 131103 bytes long, or
147487 when bank 2 or 5 is paged in and therefore stored twice. -/
theorem file_sizes_documented :
    fileLen 0 Sna.save48 = 49179 ∧
    ∀ p, p < 8 →
      (place p Sna.saveHeaderSize Sna.save128).map (·.1) = [27, 16411, 32795, 49179, 49183] ∧
      fileLen p Sna.save128 = (if p = 2 ∨ p = 5 then 147487 else 131103) := by decide

/-- the places `load` reads from: seeks move the cursor, reads advance it -/
def reads (p : Nat) : Nat → List Sna.Op → List (Nat × Sna.Seg)
  | _, [] => []
  | _, .seek o :: r => reads p o r
  | cur, .read s :: r => (cur, s) :: reads p (cur + segLen p s) r

/-- the secondary header as both sides see it: `save` writes a literal 0 where `load` ignores a byte -/
def normSeg : Sna.Seg → Sna.Seg
  | .bytes fs => .bytes (fs.map fun e => if e.1 = .zero then (.ignored, e.2) else e)
  | s => s

/-- **`load` reads every piece from where `save` puts it.** With any bank paged in, the (offset, piece)
pairs `load` visits — 128K: the secondary header at 49179 first (PC, the 0x7FFD byte that decides the
paged bank, one ignored byte), then back to 27 for banks 5, 2, n, then 49183 for the rest; 48K: pages
0, 1, 2 from 27 on, then PC popped from the loaded stack — are exactly those `save` produces. -/
theorem load_reads_where_save_writes :
    (∀ p, p < 8 →
      (∀ x ∈ (reads p (Sna.loadHeaderAt + Sna.loadHeaderSize) Sna.load128).map (fun x => (x.1, normSeg x.2)),
         x ∈ (place p Sna.saveHeaderSize Sna.save128).map (fun x => (x.1, normSeg x.2))) ∧
      (reads p (Sna.loadHeaderAt + Sna.loadHeaderSize) Sna.load128).length =
        (place p Sna.saveHeaderSize Sna.save128).length) ∧
    reads 0 (Sna.loadHeaderAt + Sna.loadHeaderSize) Sna.load48 = place 0 Sna.saveHeaderSize Sna.save48 ∧
    Sna.load48PopsPc = true ∧ Sna.load128PopsPc = false := by decide

/-- **The model's constants are the source's**: header size, the 48K size that separates the two
formats (`size > 49179` is a 128K file, `size < 49179` is rejected), the offsets of secondary header
and tail banks, the bank lists and the page size. -/
theorem model_constants_are_source :
    snaHeaderSize = Sna.saveHeaderSize ∧ snaHeaderSize = Sna.loadHeaderSize ∧
    sna48Size = Sna.loadIs128Above ∧ sna48Size = Sna.loadMinSize ∧ pageSize = Sna.pageSize ∧
    Sna.load128 = [.seek sna48Size, .read (.bytes [(.pc, 0), (.pc, 1), (.port7ffd, 0), (.ignored, 0)]),
                   .seek snaHeaderSize, .read (.bank 5), .read (.bank 2), .read .paged,
                   .seek snaTailOffset, .read (.rest snaTailBanks)] ∧
    Sna.load48 = [.read (.bank 0), .read (.bank 1), .read (.bank 2)] := by decide

end ZxVerif.C13X
