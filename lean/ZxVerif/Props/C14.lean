/-
C14 — Loading a well-formed SNA / SZX / SCR file yields exactly the described state.

Only property theorems live here (helper lemmas: ZxVerif/Lemmas/Snapshot.lean, Szx.lean).
Model : ZxVerif/Model/Snapshot.lean (`szxLoad`, `snaLoad`, `scrLoad`; `inflate` is a parameter)
Spec  : ZxVerif/Spec/Snapshot.lean (`describeSzx`, `describeSna`, `describeScr`: what a file says,
        written from the format documents; `abs` maps a model machine to the abstract state)
`Fixes.all` = the code with the candidate repairs, `Fixes.none` = the code as it is in /repo.
-/
import ZxVerif.Lemmas.C14
namespace ZxVerif.C14
open ZxVerif.Snap

/-! ### a file for the other model is rejected -/

/-- **Mismatch, SNA (repaired code).** A file whose size says "128K" offered to a 48K machine, or
a 48K-sized file offered to a 128K machine, is rejected with `MachineNotSupported`; nothing is applied. -/
theorem model_mismatch_rejected_sna (f : Bytes) (r : Machine) (hlen : sna48Size ≤ f.length)
    (hmis : decide (sna48Size < f.length) ≠ (r.kind == .k128)) :
    snaLoad Fixes.all f r = .error .machineNotSupported := by
  unfold snaLoad
  have h1 : ¬ f.length < sna48Size := by omega
  rw [if_neg h1]
  have : (Fixes.all.rejectMismatch && (decide (sna48Size < f.length) != (r.kind == Kind.k128))) = true := by
    simp only [Fixes.all, Bool.true_and, bne_iff_ne, ne_eq]
    exact hmis
  simp only [this, if_true]

/-- **Mismatch, SZX (repaired code).** A ZXST file whose machine id is for the other model is
rejected with `MachineNotSupported`, whatever its chunks are and whatever `inflate` does. -/
theorem model_mismatch_rejected_szx (inflate : Bytes → Option Bytes) (f : Bytes) (r : Machine)
    (hlen : 8 ≤ f.length) (hmagic : f.take 4 = magicZXST) (hmid : (f.getD 6 0).toNat ≤ 2)
    (hmis : decide (2 ≤ (f.getD 6 0).toNat) ≠ (r.kind == .k128)) :
    szxLoad Fixes.all inflate f r = .error .machineNotSupported := by
  unfold szxLoad
  have h1 : ¬ f.length < 8 := by omega
  have h2 : ¬ 2 < (f.getD 6 0).toNat := by omega
  rw [if_neg h1, if_neg (by simpa using hmagic)]
  simp only [h2, if_false]
  have : (Fixes.all.rejectMismatch && (decide (2 ≤ (f.getD 6 0).toNat) != (r.kind == Kind.k128))) = true := by
    simp only [Fixes.all, Bool.true_and, bne_iff_ne, ne_eq]
    exact hmis
  simp only [this, if_true]

/-- **C14, `model_mismatch_rejected`** (repaired code): both loaders refuse a file for the other model. -/
theorem model_mismatch_rejected (inflate : Bytes → Option Bytes) (f : Bytes) (r : Machine) :
    (sna48Size ≤ f.length → decide (sna48Size < f.length) ≠ (r.kind == .k128) →
      snaLoad Fixes.all f r = .error .machineNotSupported) ∧
    (8 ≤ f.length → f.take 4 = magicZXST → (f.getD 6 0).toNat ≤ 2 →
      decide (2 ≤ (f.getD 6 0).toNat) ≠ (r.kind == .k128) →
      szxLoad Fixes.all inflate f r = .error .machineNotSupported) :=
  ⟨model_mismatch_rejected_sna f r, model_mismatch_rejected_szx inflate f r⟩

/-- **Defect #6 is real (128K file, 48K machine).** The code as it is panics: after the header it
asks for RAM page 5 of a machine that has three pages. -/
theorem code_panics_on_128k_sna_in_48k (f : Bytes) (r : Machine) (hk : r.kind = .k48)
    (hlen : sna48Size + 4 ≤ f.length) (him : ((f.take snaHeaderSize).getD 25 0 &&& 3).toNat ≠ 3) :
    snaLoad Fixes.none f r = .error .panic := by
  unfold snaLoad
  have h1 : ¬ f.length < sna48Size := by omega
  have h2 : sna48Size < f.length := by omega
  have hrm : Fixes.none.rejectMismatch = false := rfl
  rw [if_neg h1, hrm]
  simp only [Bool.false_and, Bool.false_eq_true, if_false, h2, decide_true, if_true]
  obtain ⟨m, hm⟩ := snaLoadHeader_isSome (f.take snaHeaderSize) { r with cpu := r.cpu.resetExec Fixes.none } him
  rw [hm]
  have hkm : m.kind = .k48 := by
    rw [(snaLoadHeader_exec _ _ _ hm).2.2.2.1]; exact hk
  exact snaLoad128_panics_48k _ f m hkm hlen

/-- **Defect #6 is real (48K file, 128K machine).** The code as it is returns `Ok` and fills RAM
banks 0, 1, 2: bank 5 — what the CPU and the display see at 0x4000 — is still the old machine's. -/
theorem code_misplaces_48k_sna_in_128k (f : Bytes) (r : Machine) (hk : r.kind = .k128)
    (hlen : f.length = sna48Size) (him : ((f.take snaHeaderSize).getD 25 0 &&& 3).toNat ≠ 3) :
    ∃ m', snaLoad Fixes.none f r = .ok m' ∧ m'.ram 5 = r.ram 5 ∧ m'.kind = .k128 := by
  unfold snaLoad
  have h1 : ¬ f.length < sna48Size := by omega
  have h2 : ¬ sna48Size < f.length := by omega
  have hrm : Fixes.none.rejectMismatch = false := rfl
  rw [if_neg h1, hrm]
  simp only [Bool.false_and, Bool.false_eq_true, if_false, h2, decide_false]
  obtain ⟨m, hm⟩ := snaLoadHeader_isSome (f.take snaHeaderSize) { r with cpu := r.cpu.resetExec Fixes.none } him
  rw [hm]
  have hkm : m.kind = .k128 := by
    rw [(snaLoadHeader_exec _ _ _ hm).2.2.2.1]; exact hk
  have hram : m.ram = r.ram := by
    unfold snaLoadHeader at hm
    simp only at hm
    split at hm
    · cases hm
    · cases hm; rfl
  obtain ⟨m3, e1, e2, ram', e3⟩ := readBanks_ok f [0, 1, 2] snaHeaderSize m
    (by intro b hb; simp [Machine.ramPages, hkm]; simp at hb; omega)
    (by simp [snaHeaderSize, pageSize, hlen, sna48Size])
  show ∃ m', snaLoad48 f m = .ok m' ∧ _
  unfold snaLoad48
  rw [e1]
  refine ⟨m3.popPc.refresh, rfl, ?_, ?_⟩
  · rw [(refresh_same _).2.2.2.1]
    show m3.ram 5 = _
    rw [e2 5 (by simp), hram]
  · rw [(refresh_same _).2.2.2.2.2.2.2.2.2]
    show m3.kind = _
    rw [e3]; exact hkm

/-! ### SCR -/

/-- **C14, SCR.** Loading a 6912-byte screen file into either machine succeeds; the first 6912
bytes of the page at 0x4000 (page 5; on the 48K the first RAM page) are then the file — for the
CPU and for the display alike — and the rest of that page is unchanged. -/
theorem scr_is_screen (f : Bytes) (r : Machine) (hlen : f.length = scrSize) :
    ∃ m' b, r.page 1 = .ram b ∧ scrLoad f r = .ok m' ∧
      (m'.ram b).take scrSize = f ∧ (m'.ram b).drop scrSize = (r.ram b).drop scrSize ∧
      (m'.displayable b = true → m'.scr b = m'.ram b) := by
  have hne : ¬ f.length ≠ scrSize := by simp [hlen]
  -- the three bytes of the parking loop go to another bank
  have hw : ∀ (m : Machine) (a : BitVec 16) (v : Byte) (b : Nat), m.page (a.toNat / pageSize) ≠ .ram b →
      (m.write a v).ram b = m.ram b := by
    intro m a v b hb
    unfold Machine.write
    split
    · next n hn =>
      have : b ≠ n := by intro h; subst h; exact hb hn
      simp [setBank, this]
    · rfl
  have hpg : ∀ (m : Machine) (a : BitVec 16) (v : Byte) (k : Nat), (m.write a v).page k = m.page k := by
    intro m a v k
    have h1 := write_kind m a v
    unfold Machine.page
    rw [h1]
    have : (m.write a v).map0 = m.map0 ∧ (m.write a v).map3 = m.map3 := by
      unfold Machine.write; split <;> exact ⟨rfl, rfl⟩
    rw [this.1, this.2]
  cases hk : r.kind with
  | k48 =>
    have hp : r.page 1 = .ram 0 := by simp [Machine.page, hk]
    have h2 : r.page 2 = .ram 1 := by simp [Machine.page, hk]
    refine ⟨scrApply f r 0, 0, hp, ?_, ?_, ?_, ?_⟩
    · unfold scrLoad; rw [if_neg hne, hp]
    · unfold scrApply; rw [(refresh_same _).2.2.2.1]; simp [setBank, hlen.symm ▸ List.take_left' rfl]
    · unfold scrApply; rw [(refresh_same _).2.2.2.1]
      simp only [setBank, if_true, List.drop_left' hlen]
      congr 1
      rw [hw _ _ _ _ (by rw [hpg, hpg]; simp [pageSize, h2]), hw _ _ _ _ (by rw [hpg]; simp [pageSize, h2]),
        hw _ _ _ _ (by simp [pageSize, h2])]
    · intro _
      unfold scrApply
      rw [(refresh_same _).2.2.2.1]
      exact refresh_scr48 _ (by
        show (((r.write 0x8000 0xC3).write 0x8001 0x00).write 0x8002 0x80).kind = _
        rw [write_kind, write_kind, write_kind]; exact hk)
  | k128 =>
    have hp : r.page 1 = .ram 5 := by simp [Machine.page, hk]
    have h2 : r.page 2 = .ram 2 := by simp [Machine.page, hk]
    refine ⟨scrApply f r 5, 5, hp, ?_, ?_, ?_, ?_⟩
    · unfold scrLoad; rw [if_neg hne, hp]
    · unfold scrApply; rw [(refresh_same _).2.2.2.1]; simp [setBank, hlen.symm ▸ List.take_left' rfl]
    · unfold scrApply; rw [(refresh_same _).2.2.2.1]
      simp only [setBank, if_true, List.drop_left' hlen]
      congr 1
      rw [hw _ _ _ _ (by rw [hpg, hpg]; simp [pageSize, h2]), hw _ _ _ _ (by rw [hpg]; simp [pageSize, h2]),
        hw _ _ _ _ (by simp [pageSize, h2])]
    · intro _
      unfold scrApply
      rw [(refresh_same _).2.2.2.1]
      exact (refresh_scr128 _ (by
        show (((r.write 0x8000 0xC3).write 0x8001 0x00).write 0x8002 0x80).kind = _
        rw [write_kind, write_kind, write_kind]; exact hk)).1

/-- **C14, the display after a load.** Whatever file was loaded by whichever loader (SNA, SZX,
SCR; any repair setting; any receiver), after a successful load the screen device's copy of EVERY
displayable bank — bank 5 *and* bank 7 on the 128K, whichever is being shown — equals RAM: the
picture is right also after the program flips the displayed screen without redrawing. -/
theorem display_follows_ram (fx : Fixes) (inflate : Bytes → Option Bytes) (f : Bytes) (r m : Machine)
    (h : snaLoad fx f r = .ok m ∨ szxLoad fx inflate f r = .ok m ∨ scrLoad f r = .ok m) :
    ∀ b, m.displayable b = true → m.scr b = m.ram b := by
  intro b hb
  rcases h with h | h | h
  · obtain ⟨m0, rfl⟩ := snaLoad_is_refresh fx f r m h
    exact refresh_display m0 b hb
  · obtain ⟨m0, rfl⟩ := szxLoad_is_refresh fx inflate f r m h
    exact refresh_display m0 b hb
  · unfold scrLoad at h
    split at h
    · cases h
    · split at h
      · cases h
      · cases h
        unfold scrApply at hb ⊢
        exact refresh_display _ b hb

/-! ### SZX: load = describe -/

/-- **C14, SZX (repaired code).** For every byte string `f` that is a well-formed zx-state file for
the receiver's model — i.e. the spec's `describeSzx` accepts it: header, then chunks in ANY order,
unknown chunks anywhere, each RAM page stored or compressed (with whatever `inflate` is), pages
possibly missing — and for every state `r` of the receiving emulator (halted, mid prefix chain,
paging locked, anything in RAM, any AY state): loading succeeds and the abstract state of the
result is exactly what the file describes on top of `r`; the display cache agrees with RAM.
`HALTED` is read as "PC at the HALT opcode" here; see `szx_halted_reading` for the other reading. -/
theorem szx_load_is_describe (inflate : Bytes → Option Bytes) (f : Bytes) (r : Machine) (a : Spec.AState)
    (hchip : r.ayChip.length = 14) (h48 : r.kind = .k48 → r.pagingEnabled = false)
    (hd : Spec.describeSzx .pcAtHalt inflate f (Spec.abs r) = some a) (hk : a.model = r.kind) :
    ∃ m, szxLoad Fixes.all inflate f r = .ok m ∧ Spec.abs m = a ∧
      (∀ b, m.displayable b = true → m.scr b = m.ram b) := by
  unfold Spec.describeSzx at hd
  cases hmid : Spec.szxMachine f with
  | none => rw [hmid] at hd; cases hd
  | some mid =>
    rw [hmid] at hd
    simp only at hd
    cases hcs : Spec.parseChunks f.length (f.drop 8) with
    | none => rw [hcs] at hd; cases hd
    | some cs =>
      rw [hcs] at hd
      simp only at hd
      split at hd
      · next hall =>
        simp only [Option.some.injEq] at hd
        -- header facts
        unfold Spec.szxMachine at hmid
        split at hmid
        · cases hmid
        · next hhdr =>
          split at hmid
          · cases hmid
          · next hle =>
            simp only [Option.some.injEq] at hmid
            have hlen : ¬ f.length < 8 := by
              intro h; exact hhdr (Or.inl h)
            have hmagic : ¬ f.take 4 ≠ magicZXST := by
              intro h; exact hhdr (Or.inr h)
            -- the start state
            let r0 : Machine := { r with cpu := r.cpu.resetExec Fixes.all }
            have hI0 : Inv r0 := ⟨hchip, h48, rfl⟩
            have hkr : r.kind = Spec.kindOfMid mid := by
              rw [← hk, ← hd]
              rw [foldl_applyChunk_model]
            obtain ⟨m, w1, w2, w3, w4⟩ := walk_sim inflate mid f.length (f.drop 8) r0 cs hI0 hkr hcs hall
            have habs0 : Spec.abs r0 = { (Spec.abs r).atBoundary with model := Spec.kindOfMid mid } := by
              simp only [Spec.abs, Spec.AState.atBoundary, r0, Cpu.resetExec, Fixes.all, if_true]
              simp [hkr, Spec.absRegs]
            refine ⟨m.refresh, ?_, ?_, ?_⟩
            · unfold szxLoad
              rw [if_neg hlen, if_neg hmagic]
              rw [hmid] at hle
              simp only [hmid, hle, if_false]
              have hrej : (Fixes.all.rejectMismatch && (decide (2 ≤ mid) != (r.kind == Kind.k128))) = false := by
                rw [hkr]
                unfold Spec.kindOfMid
                by_cases h2 : mid < 2
                · have : ¬ 2 ≤ mid := by omega
                  simp [h2, this]
                · have : 2 ≤ mid := by omega
                  simp [h2, this]
              rw [hrej]
              simp only [Bool.false_eq_true, if_false]
              show (match szxWalk Fixes.all inflate mid f.length (f.drop 8) r0 with
                | .error e => Except.error e
                | .ok m => Except.ok m.refresh) = _
              rw [w1]
            · have : Spec.abs m.refresh = Spec.abs m := abs_refresh m
              rw [this, w4, habs0, ← hd]
            · intro b hb
              have hkm : m.refresh.kind = m.kind := (refresh_same m).2.2.2.2.2.2.2.2.2
              unfold Machine.displayable at hb
              rw [hkm] at hb
              rw [(refresh_same m).2.2.2.1]
              cases hkk : m.kind with
              | k48 =>
                rw [hkk] at hb
                have : b = 0 := by simpa using hb
                subst this
                exact refresh_scr48 m hkk
              | k128 =>
                rw [hkk] at hb
                simp only [Bool.or_eq_true, beq_iff_eq] at hb
                rcases hb with h | h <;> subst h
                · exact (refresh_scr128 m hkk).1
                · exact (refresh_scr128 m hkk).2
      · cases hd

/-! ### AY: audible state -/

/-- **C14, AY (repaired code).** After an AY chunk is applied to a machine with the AY present, the
sound generator is in the state a program reaches by writing registers 0..13 through the ports —
whatever the chip held and whatever its envelope generator was doing before: the same 14 registers
AND the envelope back at the start of its shape (a write of register 13 restarts it even when the
value is unchanged) — and the register file and the selected register are the file's. -/
theorem ay_audible_state (mid : Nat) (d : Bytes) (m : Machine) (hc : m.ayChip.length = 14)
    (hl : d.length = 18) (hen : (ayStep1 mid d m).ayEnabled = true) :
    ∃ m', szxAY Fixes.all mid d m = some m' ∧
      m'.ayChip = (m.ayViaPorts (d.drop 2)).ayChip ∧ m'.ayChip = (d.drop 2).take 14 ∧
      m'.ayRegs = (d.drop 2).take 16 ∧ m'.aySel = (d.getD 1 0 &&& 0x0F).toNat ∧
      m'.ayEnvAtStart = (m.ayViaPorts (d.drop 2)).ayEnvAtStart ∧ m'.ayEnvAtStart = true := by
  have hregs : 14 ≤ (d.drop 2).length := by simp [hl]
  have hvia := ayViaPorts_chip m (d.drop 2) hc hregs
  have hprog : chipProgram (ayStep1 mid d m).ayChip (d.drop 2) = (d.drop 2).take 14 :=
    chipProgram_eq _ _ (by rw [ayStep1_chip]; exact hc) hregs
  rw [szxAY_eq _ _ _ _ hl, if_pos hen]
  obtain ⟨e1, e2, e3, e4⟩ := aySetRegs_all (ayStep1 mid d m) (d.getD 1 0) (d.drop 2)
  exact ⟨_, rfl, by rw [hvia, e1]; exact hprog, by rw [e1]; exact hprog, e2, e3,
    by rw [e4, ayViaPorts_env], e4⟩

/-- **Defect #12 (AY) is real.** The code as it is loads the register file but leaves the sound
generator exactly as it was: read-back is right, the audible state is the previous machine's. -/
theorem code_ay_not_audible (mid : Nat) (d : Bytes) (m m' : Machine) (hl : d.length = 18)
    (h : szxAY Fixes.none mid d m = some m') :
    m'.ayChip = m.ayChip ∧ m'.ayEnvAtStart = m.ayEnvAtStart ∧
    ((ayStep1 mid d m).ayEnabled = true → m'.ayRegs = (d.drop 2).take 16) := by
  rw [szxAY_eq _ _ _ _ hl] at h
  simp only [Option.some.injEq] at h
  subst h
  by_cases hen : (ayStep1 mid d m).ayEnabled = true
  · rw [if_pos hen]
    obtain ⟨e1, e2, e3⟩ := aySetRegs_none (ayStep1 mid d m) (d.getD 1 0) (d.drop 2)
    exact ⟨by rw [e1]; exact ayStep1_chip _ _ _, by rw [e3]; exact ayStep1_env _ _ _, fun _ => e2⟩
  · rw [if_neg hen]
    exact ⟨ayStep1_chip _ _ _, ayStep1_env _ _ _, fun h => absurd h hen⟩

/-! ### two encodings of one state -/

/-- **Compressed = stored.** Under the assumed law of the decompressor (`inflate (deflate x) = some x`
— a hypothesis, `inflate` and `deflate` are parameters) a compressed RAM page chunk and the stored
chunk with the same 16 KiB describe the same state; by `szx_load_is_describe` the loaded machines
are then abstractly equal. -/
theorem ramp_compressed_eq_stored (inflate deflate : Bytes → Bytes) (inflate' : Bytes → Option Bytes)
    (hlaw : ∀ x, inflate' (deflate x) = some x) (n : Byte) (x : Bytes) (a : Spec.AState) :
    Spec.applyRAMP inflate' ([1, 0, n] ++ deflate x) a = Spec.applyRAMP inflate' ([0, 0, n] ++ x) a := by
  let _ := inflate
  unfold Spec.applyRAMP
  simp [hlaw]

/-- **C14, SNA (repaired code).** For every well-formed SNA file of the receiver's model (48K:
49179 bytes, stack pointer in RAM; 128K: 131103 or 147487 bytes as the latch demands; IM ≤ 2) and
every state of the receiving emulator, loading succeeds and the abstract state of the result is
exactly what the file describes; the display cache agrees with RAM. -/
theorem sna_load_is_describe (f : Bytes) (r : Machine) (a : Spec.AState)
    (hm : Spec.snaModel f = some r.kind) (hd : Spec.describeSna f (Spec.abs r) = some a) :
    ∃ m, snaLoad Fixes.all f r = .ok m ∧ Spec.abs m = a ∧
      (∀ b, m.displayable b = true → m.scr b = m.ram b) := by
  cases hk : r.kind with
  | k48 =>
    rw [hk] at hm
    obtain ⟨m, e1, e2, e3, hkm⟩ := sna_describe_48 f r a hk hm hd
    refine ⟨m, e1, e2, ?_⟩
    intro b hb
    unfold Machine.displayable at hb
    rw [hkm] at hb
    have : b = 0 := by simpa using hb
    subst this; exact e3
  | k128 =>
    rw [hk] at hm
    obtain ⟨m, e1, e2, e3, e4, hkm⟩ := sna_describe_128 f r a hk hm hd
    refine ⟨m, e1, e2, ?_⟩
    intro b hb
    unfold Machine.displayable at hb
    rw [hkm] at hb
    simp only [Bool.or_eq_true, beq_iff_eq] at hb
    rcases hb with h | h <;> subst h
    · exact e3
    · exact e4

/-- **SNA and SZX agree (repaired code).** Whenever an SNA file and an SZX file describe the same
abstract state on top of the same receiver, loading either one gives machines with exactly that
abstract state: registers, interrupt state, paging, border, every RAM page, AY, mouse — the two
loaded machines are indistinguishable through `Spec.abs`. -/
theorem sna_szx_agree (inflate : Bytes → Option Bytes) (f1 f2 : Bytes) (r : Machine) (a : Spec.AState)
    (hchip : r.ayChip.length = 14) (h48 : r.kind = .k48 → r.pagingEnabled = false)
    (hm : Spec.snaModel f1 = some r.kind) (hk : a.model = r.kind)
    (hd1 : Spec.describeSna f1 (Spec.abs r) = some a)
    (hd2 : Spec.describeSzx .pcAtHalt inflate f2 (Spec.abs r) = some a) :
    ∃ m1 m2, snaLoad Fixes.all f1 r = .ok m1 ∧ szxLoad Fixes.all inflate f2 r = .ok m2 ∧
      Spec.abs m1 = Spec.abs m2 := by
  obtain ⟨m1, e1, e2, _⟩ := sna_load_is_describe f1 r a hm hd1
  obtain ⟨m2, g1, g2, _⟩ := szx_load_is_describe inflate f2 r a hchip h48 hd2 hk
  exact ⟨m1, m2, e1, g1, by rw [e2, g2]⟩

/-! ### the defects of the code as it is, chunk by chunk -/

/-- **Defect #7 is real.** With ZXSTZF_HALTED the code as it is leaves PC one *past* the file's PC —
neither the file's PC (HALT at PC) nor PC−1 (HALT before PC) — with `halted` set. -/
theorem code_halted_pc (d : Bytes) (m m' : Machine) (hh : d.getD 34 0 &&& 2 != 0)
    (h : szxZ80R Fixes.none d m = some m') :
    m'.cpu.halted = true ∧ m'.cpu.pc = word (d.getD 22 0) (d.getD 23 0) + 1 := by
  unfold szxZ80R at h
  split at h
  · cases h
  · simp only at h
    split at h
    · cases h
    · simp only [Option.some.injEq] at h
      subst h
      refine ⟨hh, ?_⟩
      show (if (d.getD 34 0 &&& 2 != 0) && !Fixes.none.haltedPc then
        word (d.getD 22 0) (d.getD 23 0) + 1 else word (d.getD 22 0) (d.getD 23 0)) = _
      rw [hh]; rfl

/-- **Defect #12 (border) is real.** The code as it is hands the low bits of chFe to the border
device and stores chBorder only in the `border_color` field. -/
theorem code_szx_border_device (mid : Nat) (d : Bytes) (m m' : Machine)
    (h : szxSPCR Fixes.none mid d m = some m') :
    m'.border = d.getD 0 0 ∧ m'.borderDev = d.getD 3 0 &&& 7 := by
  unfold szxSPCR at h
  split at h
  · cases h
  · simp only at h
    split at h
    · cases h
    · simp only [Option.some.injEq] at h
      subst h
      simp [Fixes.none, Machine.setBorder]

/-- **Defect #5 in SZX.** A paging-locked receiver keeps its latch through an SPCR chunk. -/
theorem code_szx_lock_leaks (mid : Nat) (d : Bytes) (m m' : Machine) (hl : m.pagingEnabled = false)
    (h : szxSPCR Fixes.none mid d m = some m') : m'.latch = m.latch ∧ m'.pagingEnabled = false := by
  unfold szxSPCR at h
  split at h
  · cases h
  · simp only at h
    split at h
    · cases h
    · simp only [Option.some.injEq] at h
      subst h
      have hb := restore7ffd_blocked m (if mid < 2 then 0 else d.getD 1 0) hl
      have hszx : Fixes.none.szxBorderDevice = false := rfl
      rw [hszx]
      simp only [Bool.false_eq_true, if_false]
      refine ⟨?_, ?_⟩
      · show (Machine.restore7ffd Fixes.none m (if mid < 2 then 0 else d.getD 1 0)).latch = _
        rw [hb]
      · show (Machine.restore7ffd Fixes.none m (if mid < 2 then 0 else d.getD 1 0)).pagingEnabled = _
        rw [hb]; exact hl

/-- **Defect #11 in SZX.** The Z80R chunk leaves the pending prefix of the receiving CPU alone
(and the code as it is never clears it before walking the chunks). -/
theorem code_szx_prefix_survives (fx : Fixes) (d : Bytes) (m m' : Machine)
    (h : szxZ80R fx d m = some m') : m'.cpu.pfx = m.cpu.pfx := by
  unfold szxZ80R at h
  split at h
  · cases h
  · simp only at h
    split at h
    · cases h
    · simp only [Option.some.injEq] at h
      subst h
      rfl

/-- **Defect #11 in SZX, whole file.** With the code as it is, whatever SZX file is loaded — any
chunks, any order — the machine ends up in the middle of the prefix chain the *previous* program
was executing: the pending prefix of the receiving CPU is that of the loaded machine. -/
theorem code_szx_prefix_leaks (inflate : Bytes → Option Bytes) (f : Bytes) (r m : Machine)
    (h : szxLoad Fixes.none inflate f r = .ok m) : m.cpu.pfx = r.cpu.pfx := by
  unfold szxLoad at h
  split at h
  · cases h
  split at h
  · cases h
  simp only at h
  split at h
  · cases h
  split at h
  · cases h
  split at h
  · cases h
  · next m1 hw =>
    cases h
    rw [(refresh_same m1).1, szxWalk_pfx _ _ _ _ _ _ _ hw]
    simp [Cpu.resetExec, Fixes.none]

/-! ### non-vacuity -/

/-- a small well-formed 128K zx-state file: header, Z80R (PC = 0x8000, IM 1), SPCR (border 2, latch 0x13) -/
def tinySzx : Bytes :=
  [0x5A, 0x58, 0x53, 0x54, 1, 4, 2, 0] ++
  [0x5A, 0x38, 0x30, 0x52, 37, 0, 0, 0] ++
  [0x44, 0x55, 0x01, 0x02, 0x03, 0x04, 0x05, 0x06, 0, 0, 0, 0, 0, 0, 0x11, 0x22, 0, 0, 0, 0, 0x00, 0x90, 0x00, 0x80,
   0x3F, 0x7E, 1, 1, 1, 0, 0, 0, 0, 0, 0, 0, 0] ++
  [0x53, 0x50, 0x43, 0x52, 8, 0, 0, 0] ++ [2, 0x13, 0, 0x1F, 0, 0, 0, 0]

/-- a dirty 128K receiver -/
def dirty : Machine :=
  { kind := .k128, cpu := { halted := true, skipInt := true, pfx := .dd }, border := 5, borderDev := 5,
    latch := 0x20, pagingEnabled := false, screenBank := 5, map0 := 0, map3 := 0 }

/-- the spec accepts the file -/
theorem tinySzx_described :
    (Spec.describeSzx .pcAtHalt (fun _ => none) tinySzx (Spec.abs dirty)).isSome = true := by decide

/-- ... and the repaired loader puts the dirty, locked, halted receiver into exactly that state -/
example : ∃ m a, Spec.describeSzx .pcAtHalt (fun _ => none) tinySzx (Spec.abs dirty) = some a ∧
    szxLoad Fixes.all (fun _ => none) tinySzx dirty = .ok m ∧ Spec.abs m = a := by
  cases hd : Spec.describeSzx .pcAtHalt (fun _ => none) tinySzx (Spec.abs dirty) with
  | none => have := tinySzx_described; rw [hd] at this; cases this
  | some a =>
    have hk : a.model = dirty.kind := by
      obtain ⟨mid, h1, h2⟩ := describeSzx_model _ _ _ _ _ hd
      have h3 : Spec.szxMachine tinySzx = some 2 := by decide
      rw [h3] at h1
      cases h1
      rw [h2]; rfl
    obtain ⟨m, e1, e2, _⟩ := szx_load_is_describe (fun _ => none) tinySzx dirty a rfl (by intro h; cases h) hd hk
    exact ⟨m, a, rfl, e1, e2⟩

end ZxVerif.C14
