/-
C14 — Loading a well-formed SNA / SZX / SCR file yields exactly the described state.

Only property theorems live here (helper lemmas: ZxVerif/Lemmas/Snapshot.lean, Szx.lean).
Model : ZxVerif/Model/Snapshot.lean (`szxLoad`, `snaLoad`, `scrLoad`; `inflate` is a parameter)
Spec  : ZxVerif/Spec/Snapshot.lean (`describeSzx`, `describeSna`, `describeScr`: what a file says,
        written from the format documents; `abs` maps a model machine to the abstract state)
`Fixes.all` = the code with the candidate repairs, `Fixes.none` = the code as it is in /repo.
-/
import ZxVerif.Lemmas.Szx
namespace ZxVerif.C14
open ZxVerif.Snap

/-! ### a file for the other model is rejected -/

/-- **Mismatch, SNA (repaired code).** A file whose size says "128K" offered to a 48K machine, or
a 48K-sized file offered to a 128K machine, is rejected with `MachineNotSupported`; nothing is applied. -/
theorem model_mismatch_rejected_sna (f : Bytes) (r : Machine) (hlen : sna48Size ≤ f.length)
    (hmis : decide (sna48Size < f.length) ≠ (r.kind == .k128)) :
    snaLoad Fixes.all f r = .error .machineNotSupported := by
  unfold snaLoad
  have h1 : ¬ f.length < sna48Size := by omega
  rw [if_neg h1]
  have : (Fixes.all.rejectMismatch && (decide (sna48Size < f.length) != (r.kind == Kind.k128))) = true := by
    simp only [Fixes.all, Bool.true_and, bne_iff_ne, ne_eq]
    exact hmis
  simp only [this, if_true]

/-- **Mismatch, SZX (repaired code).** A ZXST file whose machine id is for the other model is
rejected with `MachineNotSupported`, whatever its chunks are and whatever `inflate` does. -/
theorem model_mismatch_rejected_szx (inflate : Bytes → Option Bytes) (f : Bytes) (r : Machine)
    (hlen : 8 ≤ f.length) (hmagic : f.take 4 = magicZXST) (hmid : (f.getD 6 0).toNat ≤ 2)
    (hmis : decide (2 ≤ (f.getD 6 0).toNat) ≠ (r.kind == .k128)) :
    szxLoad Fixes.all inflate f r = .error .machineNotSupported := by
  unfold szxLoad
  have h1 : ¬ f.length < 8 := by omega
  have h2 : ¬ 2 < (f.getD 6 0).toNat := by omega
  rw [if_neg h1, if_neg (by simpa using hmagic)]
  simp only [h2, if_false]
  have : (Fixes.all.rejectMismatch && (decide (2 ≤ (f.getD 6 0).toNat) != (r.kind == Kind.k128))) = true := by
    simp only [Fixes.all, Bool.true_and, bne_iff_ne, ne_eq]
    exact hmis
  simp only [this, if_true]

/-- **Defect #6 is real (128K file, 48K machine).** The code as it is panics: after the header it
asks for RAM page 5 of a machine that has three pages. -/
theorem code_panics_on_128k_sna_in_48k (f : Bytes) (r : Machine) (hk : r.kind = .k48)
    (hlen : sna48Size + 4 ≤ f.length) (him : ((f.take snaHeaderSize).getD 25 0 &&& 3).toNat ≠ 3) :
    snaLoad Fixes.none f r = .error .panic := by
  unfold snaLoad
  have h1 : ¬ f.length < sna48Size := by omega
  have h2 : sna48Size < f.length := by omega
  have hrm : Fixes.none.rejectMismatch = false := rfl
  rw [if_neg h1, hrm]
  simp only [Bool.false_and, Bool.false_eq_true, if_false, h2, decide_true, if_true]
  obtain ⟨m, hm⟩ := snaLoadHeader_isSome (f.take snaHeaderSize) { r with cpu := r.cpu.resetExec Fixes.none } him
  rw [hm]
  have hkm : m.kind = .k48 := by
    rw [(snaLoadHeader_exec _ _ _ hm).2.2.2.1]; exact hk
  exact snaLoad128_panics_48k _ f m hkm hlen

/-- **Defect #6 is real (48K file, 128K machine).** The code as it is returns `Ok` and fills RAM
banks 0, 1, 2: bank 5 — what the CPU and the display see at 0x4000 — is still the old machine's. -/
theorem code_misplaces_48k_sna_in_128k (f : Bytes) (r : Machine) (hk : r.kind = .k128)
    (hlen : f.length = sna48Size) (him : ((f.take snaHeaderSize).getD 25 0 &&& 3).toNat ≠ 3) :
    ∃ m', snaLoad Fixes.none f r = .ok m' ∧ m'.ram 5 = r.ram 5 ∧ m'.kind = .k128 := by
  unfold snaLoad
  have h1 : ¬ f.length < sna48Size := by omega
  have h2 : ¬ sna48Size < f.length := by omega
  have hrm : Fixes.none.rejectMismatch = false := rfl
  rw [if_neg h1, hrm]
  simp only [Bool.false_and, Bool.false_eq_true, if_false, h2, decide_false]
  obtain ⟨m, hm⟩ := snaLoadHeader_isSome (f.take snaHeaderSize) { r with cpu := r.cpu.resetExec Fixes.none } him
  rw [hm]
  have hkm : m.kind = .k128 := by
    rw [(snaLoadHeader_exec _ _ _ hm).2.2.2.1]; exact hk
  have hram : m.ram = r.ram := by
    unfold snaLoadHeader at hm
    simp only at hm
    split at hm
    · cases hm
    · cases hm; rfl
  obtain ⟨m3, e1, e2, ram', e3⟩ := readBanks_ok f [0, 1, 2] snaHeaderSize m
    (by intro b hb; simp [Machine.ramPages, hkm]; simp at hb; omega)
    (by simp [snaHeaderSize, pageSize, hlen, sna48Size])
  show ∃ m', snaLoad48 f m = .ok m' ∧ _
  unfold snaLoad48
  rw [e1]
  refine ⟨m3.popPc.refresh, rfl, ?_, ?_⟩
  · rw [(refresh_same _).2.2.2.1]
    show m3.ram 5 = _
    rw [e2 5 (by simp), hram]
  · rw [(refresh_same _).2.2.2.2.2.2.2.2.2]
    show m3.kind = _
    rw [e3]; exact hkm

/-! ### SCR -/

/-- **C14, SCR.** Loading a 6912-byte screen file into either machine succeeds; the first 6912
bytes of the page at 0x4000 (page 5; on the 48K the first RAM page) are then the file — for the
CPU and for the display alike — and the rest of that page is unchanged. -/
theorem scr_is_screen (f : Bytes) (r : Machine) (hlen : f.length = scrSize) :
    ∃ m' b, r.page 1 = .ram b ∧ scrLoad f r = .ok m' ∧
      (m'.ram b).take scrSize = f ∧ (m'.ram b).drop scrSize = (r.ram b).drop scrSize ∧
      (m'.displayable b = true → m'.scr b = m'.ram b) := by
  have hne : ¬ f.length ≠ scrSize := by simp [hlen]
  -- the three bytes of the parking loop go to another bank
  have hw : ∀ (m : Machine) (a : BitVec 16) (v : Byte) (b : Nat), m.page (a.toNat / pageSize) ≠ .ram b →
      (m.write a v).ram b = m.ram b := by
    intro m a v b hb
    unfold Machine.write
    split
    · next n hn =>
      have : b ≠ n := by intro h; subst h; exact hb hn
      simp [setBank, this]
    · rfl
  have hpg : ∀ (m : Machine) (a : BitVec 16) (v : Byte) (k : Nat), (m.write a v).page k = m.page k := by
    intro m a v k
    have h1 := write_kind m a v
    unfold Machine.page
    rw [h1]
    have : (m.write a v).map0 = m.map0 ∧ (m.write a v).map3 = m.map3 := by
      unfold Machine.write; split <;> exact ⟨rfl, rfl⟩
    rw [this.1, this.2]
  cases hk : r.kind with
  | k48 =>
    have hp : r.page 1 = .ram 0 := by simp [Machine.page, hk]
    have h2 : r.page 2 = .ram 1 := by simp [Machine.page, hk]
    refine ⟨scrApply f r 0, 0, hp, ?_, ?_, ?_, ?_⟩
    · unfold scrLoad; rw [if_neg hne, hp]
    · unfold scrApply; rw [(refresh_same _).2.2.2.1]; simp [setBank, hlen.symm ▸ List.take_left' rfl]
    · unfold scrApply; rw [(refresh_same _).2.2.2.1]
      simp only [setBank, if_true, List.drop_left' hlen]
      congr 1
      rw [hw _ _ _ _ (by rw [hpg, hpg]; simp [pageSize, h2]), hw _ _ _ _ (by rw [hpg]; simp [pageSize, h2]),
        hw _ _ _ _ (by simp [pageSize, h2])]
    · intro _
      unfold scrApply
      rw [(refresh_same _).2.2.2.1]
      exact refresh_scr48 _ (by
        show (((r.write 0x8000 0xC3).write 0x8001 0x00).write 0x8002 0x80).kind = _
        rw [write_kind, write_kind, write_kind]; exact hk)
  | k128 =>
    have hp : r.page 1 = .ram 5 := by simp [Machine.page, hk]
    have h2 : r.page 2 = .ram 2 := by simp [Machine.page, hk]
    refine ⟨scrApply f r 5, 5, hp, ?_, ?_, ?_, ?_⟩
    · unfold scrLoad; rw [if_neg hne, hp]
    · unfold scrApply; rw [(refresh_same _).2.2.2.1]; simp [setBank, hlen.symm ▸ List.take_left' rfl]
    · unfold scrApply; rw [(refresh_same _).2.2.2.1]
      simp only [setBank, if_true, List.drop_left' hlen]
      congr 1
      rw [hw _ _ _ _ (by rw [hpg, hpg]; simp [pageSize, h2]), hw _ _ _ _ (by rw [hpg]; simp [pageSize, h2]),
        hw _ _ _ _ (by simp [pageSize, h2])]
    · intro _
      unfold scrApply
      rw [(refresh_same _).2.2.2.1]
      exact (refresh_scr128 _ (by
        show (((r.write 0x8000 0xC3).write 0x8001 0x00).write 0x8002 0x80).kind = _
        rw [write_kind, write_kind, write_kind]; exact hk)).1

/-! ### SZX: load = describe -/

/-- **C14, SZX (repaired code).** For every byte string `f` that is a well-formed zx-state file for
the receiver's model — i.e. the spec's `describeSzx` accepts it: header, then chunks in ANY order,
unknown chunks anywhere, each RAM page stored or compressed (with whatever `inflate` is), pages
possibly missing — and for every state `r` of the receiving emulator (halted, mid prefix chain,
paging locked, anything in RAM, any AY state): loading succeeds and the abstract state of the
result is exactly what the file describes on top of `r`; the display cache agrees with RAM.
`HALTED` is read as "PC at the HALT opcode" here; see `szx_halted_reading` for the other reading. -/
theorem szx_load_is_describe (inflate : Bytes → Option Bytes) (f : Bytes) (r : Machine) (a : Spec.AState)
    (hchip : r.ayChip.length = 14) (h48 : r.kind = .k48 → r.pagingEnabled = false)
    (hd : Spec.describeSzx .pcAtHalt inflate f (Spec.abs r) = some a) (hk : a.model = r.kind) :
    ∃ m, szxLoad Fixes.all inflate f r = .ok m ∧ Spec.abs m = a ∧
      (∀ b, m.displayable b = true → m.scr b = m.ram b) := by
  unfold Spec.describeSzx at hd
  cases hmid : Spec.szxMachine f with
  | none => rw [hmid] at hd; cases hd
  | some mid =>
    rw [hmid] at hd
    simp only at hd
    cases hcs : Spec.parseChunks f.length (f.drop 8) with
    | none => rw [hcs] at hd; cases hd
    | some cs =>
      rw [hcs] at hd
      simp only at hd
      split at hd
      · next hall =>
        simp only [Option.some.injEq] at hd
        -- header facts
        unfold Spec.szxMachine at hmid
        split at hmid
        · cases hmid
        · next hhdr =>
          split at hmid
          · cases hmid
          · next hle =>
            simp only [Option.some.injEq] at hmid
            have hlen : ¬ f.length < 8 := by
              intro h; exact hhdr (Or.inl h)
            have hmagic : ¬ f.take 4 ≠ magicZXST := by
              intro h; exact hhdr (Or.inr h)
            -- the start state
            let r0 : Machine := { r with cpu := r.cpu.resetExec Fixes.all }
            have hI0 : Inv r0 := ⟨hchip, h48, rfl⟩
            have hkr : r.kind = Spec.kindOfMid mid := by
              rw [← hk, ← hd]
              rw [foldl_applyChunk_model]
            obtain ⟨m, w1, w2, w3, w4⟩ := walk_sim inflate mid f.length (f.drop 8) r0 cs hI0 hkr hcs hall
            have habs0 : Spec.abs r0 = { (Spec.abs r).atBoundary with model := Spec.kindOfMid mid } := by
              simp only [Spec.abs, Spec.AState.atBoundary, r0, Cpu.resetExec, Fixes.all, if_true]
              simp [hkr, Spec.absRegs]
            refine ⟨m.refresh, ?_, ?_, ?_⟩
            · unfold szxLoad
              rw [if_neg hlen, if_neg hmagic]
              rw [hmid] at hle
              simp only [hmid, hle, if_false]
              have hrej : (Fixes.all.rejectMismatch && (decide (2 ≤ mid) != (r.kind == Kind.k128))) = false := by
                rw [hkr]
                unfold Spec.kindOfMid
                by_cases h2 : mid < 2
                · have : ¬ 2 ≤ mid := by omega
                  simp [h2, this]
                · have : 2 ≤ mid := by omega
                  simp [h2, this]
              rw [hrej]
              simp only [Bool.false_eq_true, if_false]
              show (match szxWalk Fixes.all inflate mid f.length (f.drop 8) r0 with
                | .error e => Except.error e
                | .ok m => Except.ok m.refresh) = _
              rw [w1]
            · have : Spec.abs m.refresh = Spec.abs m := by
                obtain ⟨f1, f2, f3, f4, f5, f6, _, _, _, f10⟩ := refresh_same m
                have hay : m.refresh.ayRegs = m.ayRegs ∧ m.refresh.aySel = m.aySel ∧ m.refresh.ayChip = m.ayChip ∧
                    m.refresh.ayEnabled = m.ayEnabled ∧ m.refresh.mouse = m.mouse := by
                  unfold Machine.refresh; split <;> exact ⟨rfl, rfl, rfl, rfl, rfl⟩
                simp only [Spec.abs, f1, f2, f3, f4, f5, f6, f10, hay.1, hay.2.1, hay.2.2.1, hay.2.2.2.1, hay.2.2.2.2]
              rw [this, w4, habs0, ← hd]
            · intro b hb
              have hkm : m.refresh.kind = m.kind := (refresh_same m).2.2.2.2.2.2.2.2.2
              unfold Machine.displayable at hb
              rw [hkm] at hb
              rw [(refresh_same m).2.2.2.1]
              cases hkk : m.kind with
              | k48 =>
                rw [hkk] at hb
                have : b = 0 := by simpa using hb
                subst this
                exact refresh_scr48 m hkk
              | k128 =>
                rw [hkk] at hb
                simp only [Bool.or_eq_true, beq_iff_eq] at hb
                rcases hb with h | h <;> subst h
                · exact (refresh_scr128 m hkk).1
                · exact (refresh_scr128 m hkk).2
      · cases hd

end ZxVerif.C14
