/-
C14 — SNA save then load restores the machine; saving is side-effect free.
(theorems are being added; see Lemmas/Snapshot.lean)
-/
import ZxVerif.Spec.Snapshot
namespace ZxVerif.C14
open ZxVerif.Snap

/-- The writer's header has 27 bytes. -/
theorem header_length (fx : Fixes) (m : Machine) : (snaHeader fx m).length = 27 := rfl

end ZxVerif.C14
