/-
C14 — theorems over the SZX (zx-state) and SNA byte layouts *translated from the Rust source on every
run* (tools/extract.py → ZxVerif/Extracted/SzxLayout.lean, SnaLayout.lean): the magic, the machine-id
tests, the chunk dispatch of `szx::load`, and for every `process_*_block` function which byte of the
chunk feeds which setter (EXX / EX AF,AF' followed through), under which mask, after which length
and range tests.

What the source text says now is (a) the zx-state specification, stated outright here (Z80R: AF BC DE HL
AF' BC' DE' HL' IX IY SP PC I R IFF1 IFF2 IM dwCyclesStart chHoldIntReqCycles chFlags wMemPtr at
0,2,…,35; SPCR: chBorder ch7ffd ch1ffd chFe; RAMP: wFlags chPageNo data) and (b) exactly what the
hand-written model `Model/Snapshot.lean` decodes with: `szxZ80R`, `szxSPCR`, `szxAY`, `szxKEYB`,
`szxAMXM`, `szxRAMP`, `szxChunk` are *equal*, for every byte string and machine, to generic decoders run
on the extracted tables. An offset, width, order, mask or flag bit changed in szx.rs breaks a theorem here.
-/
import ZxVerif.Extracted.SzxLayout
import ZxVerif.Props.C13X
import ZxVerif.Props.C14
namespace ZxVerif.C14X
open ZxVerif.Snap
open ZxVerif.Extracted

abbrev F := Szx.Field

/-! ### generic table lookups -/

/-- byte `k` of a field at `offset + k` (little-endian), whole bytes -/
def expand : List (F × Nat × Nat) → List (F × Nat × Nat × Nat)
  | [] => []
  | (f, off, w) :: r => (List.range w).map (fun k => (f, k, off + k, 0xFF)) ++ expand r

/-- offset of (field, byte) in a table; a field the table does not place exactly once reads from
outside every chunk -/
def offOf (tbl : List (F × Nat × Nat × Nat)) (f : F) (p : Nat) : Nat :=
  match tbl.filter (fun e => e.1 == f && e.2.1 == p) with
  | [(_, _, o, _)] => o
  | _ => 1000000

/-- the chunk byte the table assigns to (field, byte) -/
def rd (tbl : List (F × Nat × Nat × Nat)) (d : Bytes) (f : F) (p : Nat) : Byte := d.getD (offOf tbl f p) 0

/-- the only element of a one-element list (else a value no test accepts) -/
def the (l : List Nat) : Nat :=
  match l with
  | [x] => x
  | _ => 0

/-- the mask a tested flag has in the Z80R table -/
def bitOf (bits : List (Szx.ZFlag × Nat)) (z : Szx.ZFlag) : Nat :=
  match bits.filter (fun e => e.1 == z) with
  | [(_, k)] => k
  | _ => 0

/-- "too short": some extracted length test fires -/
def tooShort (minLen : List Nat) (d : Bytes) : Bool := minLen.any fun n => decide (d.length < n)

/-- "out of range": some extracted `data[o] & mask > max` test fires (mask 0xFF = no mask) -/
def outOfRange (limits : List (Nat × Nat × Nat)) (d : Bytes) : Bool :=
  limits.any fun l => decide (l.2.2 < (if l.2.1 = 0xFF then d.getD l.1 0 else d.getD l.1 0 &&& BitVec.ofNat 8 l.2.1).toNat)

/-! ### file header, block header, dispatch -/

/-- **Magic and header.** `load` compares file bytes 0…3 with "ZXST" (the model's `magicZXST`), reads
an 8-byte header, takes the machine id from byte 6 and drops the two version bytes 4, 5. -/
theorem header_layout :
    Szx.magic.map (BitVec.ofNat 8) = magicZXST ∧ Szx.magic = [0x5A, 0x58, 0x53, 0x54] ∧
    Szx.magicOffsets = [0, 1, 2, 3] ∧ Szx.headerSize = 8 ∧ Szx.machineIdOffset = 6 ∧
    Szx.headerIgnored = [4, 5] := by decide

/-- **Machine ids.** Ids above 2 are rejected, id 2 is the 128K, ids 0 and 1 (16K, 48K) load as a 48K —
the classification of the spec (`Spec.szxMachine`, `Spec.kindOfMid`) and of the model (`2 < mid`,
`2 ≤ mid`); the three chunk handlers that look at the id use the same threshold. -/
theorem machine_ids :
    Szx.midRejectAbove = some 2 ∧ Szx.mid128 = some 2 ∧
    Szx.spcrMid48Below = [2] ∧ Szx.ayMid48Below = [2] ∧ Szx.rampMid48Below = [2] ∧
    ∀ mid, mid ≤ 2 → (Spec.kindOfMid mid = .k128 ↔ some mid = Szx.mid128) := by decide

/-- **Block header.** Every chunk starts with 8 bytes: the id in bytes 0…3, the size in bytes 4…7,
least significant first (the model's `f.take 4`, `le32 (f.getD 4 0) … (f.getD 7 0)`, `f.drop 8`). -/
theorem block_header_layout :
    Szx.blockHeaderSize = 8 ∧ Szx.idOffsets = [0, 1, 2, 3] ∧ Szx.sizeOffsets = [4, 5, 6, 7] := by decide

/-- the model's handler for a dispatch target -/
def runHandler (fx : Fixes) (inflate : Bytes → Option Bytes) (mid : Nat) (d : Bytes) (m : Machine) :
    Szx.Handler → Except Err Machine
  | .crtr => optE (szxCRTR d m)
  | .z80r => optE (szxZ80R fx d m)
  | .spcr => optE (szxSPCR fx mid d m)
  | .ay => optE (szxAY fx mid d m)
  | .keyb => optE (szxKEYB d m)
  | .amxm => optE (szxAMXM d m)
  | .ramp => szxRAMP inflate mid d m

/-- a `match` over string literals, first arm first; no arm: nothing happens -/
def dispatch (fx : Fixes) (inflate : Bytes → Option Bytes) (mid : Nat) (id d : Bytes) (m : Machine) :
    List (List Nat × Szx.Handler × Bool) → Except Err Machine
  | [] => .ok m
  | (idb, h, _) :: rest =>
    if id = idb.map (BitVec.ofNat 8) then runHandler fx inflate mid d m h else dispatch fx inflate mid id d m rest

/-- **The dispatch of the source is the model's.** The arms of `match id_str.as_str()` — "CRTR", "Z80R",
"SPCR", "AY\0\0", "KEYB", "AMXM", "RAMP", compared after upper-casing, anything else skipped — select
the handler the model's `szxChunk` selects, for every id, chunk and machine. -/
theorem dispatch_is_model (fx : Fixes) (inflate : Bytes → Option Bytes) (mid : Nat) (id d : Bytes) (m : Machine) :
    dispatch fx inflate mid (id.map upperByte) d m Szx.chunks = szxChunk fx inflate mid id d m ∧
    Szx.idCaseFold = true := ⟨rfl, rfl⟩

/-- **Chunk ids.** The ids handled are exactly the spec's known ids; the machine id is handed to the
SPCR, AY and RAMP handlers only. -/
theorem chunk_ids :
    (∀ c ∈ Szx.chunks, c.1.map (BitVec.ofNat 8) ∈ Spec.knownIds) ∧
    (∀ k ∈ Spec.knownIds, k ∈ Szx.chunks.map (fun c => c.1.map (BitVec.ofNat 8))) ∧
    Szx.chunks.map (fun c => (c.2.1, c.2.2)) =
      [(.crtr, false), (.z80r, false), (.spcr, true), (.ay, true), (.keyb, false), (.amxm, false), (.ramp, true)] := by
  decide

/-! ### Z80R -/

/-- ZXSTZ80REGS as the zx-state specification lays it out, less `chHoldIntReqCycles` (byte 33), which
the loader has no use for: (field, offset, width). -/
def docZ80R : List (F × Nat × Nat) :=
  [(.af, 0, 2), (.bc, 2, 2), (.de, 4, 2), (.hl, 6, 2), (.af', 8, 2), (.bc', 10, 2), (.de', 12, 2), (.hl', 14, 2),
   (.ix, 16, 2), (.iy, 18, 2), (.sp, 20, 2), (.pc, 22, 2), (.i, 24, 1), (.r, 25, 1), (.iff1, 26, 1), (.iff2, 27, 1),
   (.im, 28, 1), (.cyclesStart, 29, 4), (.flags, 34, 1), (.memptr, 35, 2)]

/-- **Z80R, source text = specification.** Following the setters of `process_z80r_block` through its
`swap_af_alt()` / `exx()` pairs, every register comes from the offset the zx-state specification gives
it, low byte first, whole bytes; the chunk must have 37 bytes and an interrupt mode ≤ 2. -/
theorem z80r_layout_is_spec :
    Szx.z80rFields = docZ80R ∧ Szx.z80rBytes = expand docZ80R ∧
    Szx.z80rMinLen = [37] ∧ Szx.z80rLimits = [(28, 0xFF, 2)] := by decide

/-- **Z80R: no overlap; everything but byte 33 used.** No two fields share a byte, no field is fed
from two places, and the bytes used are 0…36 without 33 (`chHoldIntReqCycles`). -/
theorem z80r_covered_once :
    Szx.z80rBytes.map (fun e => e.2.2.1) = (List.range 37).filter (· != 33) ∧
    (Szx.z80rBytes.map (fun e => (e.1, e.2.1))).eraseDups = Szx.z80rBytes.map (fun e => (e.1, e.2.1)) := by decide

/-- **Z80R flag bits**: ZXSTZF_EILAST = 1 sets `skip_interrupt`, ZXSTZF_HALTED = 2 sets `halted`,
ZXSTZF_FSET = 4 decides Q — all three tested on byte 34. -/
theorem z80r_flag_bits :
    Szx.z80rFlagBits = [(.eiLast, 1), (.halted, 2), (.fSet, 4)] ∧ offOf Szx.z80rBytes .flags 0 = 34 := by decide

/-- `process_z80r_block` as a layout table says (registers from their bytes, IFF = byte > 0, flags by
bit; the frame clock of `dwCyclesStart` is outside the snapshot model) -/
def decodeZ80R (tbl : List (F × Nat × Nat × Nat)) (bits : List (Szx.ZFlag × Nat)) (minLen : List Nat)
    (limits : List (Nat × Nat × Nat)) (fx : Fixes) (d : Bytes) (m : Machine) : Option Machine :=
  if tooShort minLen d then none else
  if outOfRange limits d then none else
  let g := rd tbl d
  let flag (z : Szx.ZFlag) : Bool := g .flags 0 &&& BitVec.ofNat 8 (bitOf bits z) != 0
  let pc := word (g .pc 0) (g .pc 1)
  let c := m.cpu
  some { m with cpu := { c with
    f := g .af 0, a := g .af 1, c := g .bc 0, b := g .bc 1, e := g .de 0, d := g .de 1, l := g .hl 0, h := g .hl 1,
    f' := g .af' 0, a' := g .af' 1, c' := g .bc' 0, b' := g .bc' 1, e' := g .de' 0, d' := g .de' 1,
    l' := g .hl' 0, h' := g .hl' 1,
    ix := word (g .ix 0) (g .ix 1), iy := word (g .iy 0) (g .iy 1), sp := word (g .sp 0) (g .sp 1),
    pc := if flag .halted && !fx.haltedPc then pc + 1 else pc,
    i := g .i 0, r := g .r 0, iff1 := (g .iff1 0).toNat > 0, iff2 := (g .iff2 0).toNat > 0, im := (g .im 0).toNat,
    skipInt := flag .eiLast, halted := flag .halted,
    q := if flag .fSet then g .af 0 else 0,
    memptr := word (g .memptr 0) (g .memptr 1) } }

/-- the extracted tests of `process_z80r_block` are the model's -/
theorem z80r_guards (d : Bytes) :
    tooShort Szx.z80rMinLen d = decide (d.length < 37) ∧
    outOfRange Szx.z80rLimits d = decide (3 ≤ (d.getD 28 0).toNat) := by
  constructor
  · show (decide (d.length < 37) || false) = _
    rw [Bool.or_false]
  · show (decide (2 < (d.getD 28 0).toNat) || false) = _
    rw [Bool.or_false]; rfl

/-- **The model reads Z80R the way the source lays it out**: for every chunk, machine and repair
setting, `szxZ80R` is the extracted offset / flag-bit / length tables of `process_z80r_block`, applied. -/
theorem z80r_is_model (fx : Fixes) (d : Bytes) (m : Machine) :
    decodeZ80R Szx.z80rBytes Szx.z80rFlagBits Szx.z80rMinLen Szx.z80rLimits fx d m = szxZ80R fx d m := by
  unfold decodeZ80R szxZ80R
  rw [(z80r_guards d).1, (z80r_guards d).2]
  by_cases h1 : d.length < 37
  · rw [if_pos (decide_eq_true h1)]; exact (if_pos h1).symm
  · rw [if_neg (by rw [decide_eq_false h1]; exact Bool.false_ne_true), if_neg h1]
    by_cases h2 : 3 ≤ (d.getD 28 0).toNat
    · rw [if_pos (decide_eq_true h2)]; exact (if_pos h2).symm
    · rw [if_neg (by rw [decide_eq_false h2]; exact Bool.false_ne_true)]; exact (if_neg h2).symm

/-- … hence a well-formed Z80R chunk decoded *with the source's table* yields the registers the
zx-state specification describes (`Spec.applyZ80R`; repaired loader, HALTED read as "PC at the HALT"). -/
theorem z80r_source_layout_is_described (d : Bytes) (m : Machine) (hI : Inv m) (hl : d.length = 37)
    (him : (d.getD 28 0).toNat < 3) :
    ∃ m', decodeZ80R Szx.z80rBytes Szx.z80rFlagBits Szx.z80rMinLen Szx.z80rLimits Fixes.all d m = some m' ∧
      Spec.abs m' = Spec.applyZ80R .pcAtHalt d (Spec.abs m) := by
  obtain ⟨m', h, _, _, ha⟩ := sim_z80r d m hI hl him
  exact ⟨m', by rw [z80r_is_model]; exact h, ha⟩

/-! ### SPCR -/

/-- **SPCR, source text = specification**: chBorder at 0 (rejected above 7), ch7ffd at 1, chFe at 3
(written to port 0xFE); byte 2 (ch1ffd / chEff7) is not looked at; at least 4 bytes. The latch is
restored first, then the OUT to 0xFE, then the border — so chBorder wins over the low bits of chFe. -/
theorem spcr_layout_is_spec :
    Szx.spcrFields = [(.border, 0, 1), (.port7ffd, 1, 1), (.portFe, 3, 1)] ∧
    Szx.spcrBytes = expand [(.border, 0, 1), (.port7ffd, 1, 1), (.portFe, 3, 1)] ∧
    Szx.spcrMinLen = [4] ∧ Szx.spcrLimits = [(0, 0xFF, 7)] ∧ Szx.spcrFePort = 0xFE ∧
    Szx.spcrOrder = [.port7ffd, .portFe, .border] := by decide

/-- `process_spcr_block` as a layout table says -/
def decodeSPCR (tbl : List (F × Nat × Nat × Nat)) (minLen : List Nat) (limits : List (Nat × Nat × Nat))
    (below : List Nat) (fx : Fixes) (mid : Nat) (d : Bytes) (m : Machine) : Option Machine :=
  if tooShort minLen d then none else
  let g := rd tbl d
  let m := m.restore7ffd fx (if mid < the below then 0 else g .port7ffd 0)
  let fe := g .portFe 0
  let m := { m.setBorder (fe &&& 7) with mic := fe &&& 8 != 0, ear := fe &&& 0x10 != 0 }
  if outOfRange limits d then none else
  some (if fx.szxBorderDevice then m.setBorder (g .border 0) else { m with border := g .border 0 })

/-- **The model reads SPCR the way the source lays it out.** -/
theorem spcr_is_model (fx : Fixes) (mid : Nat) (d : Bytes) (m : Machine) :
    decodeSPCR Szx.spcrBytes Szx.spcrMinLen Szx.spcrLimits Szx.spcrMid48Below fx mid d m = szxSPCR fx mid d m := by
  unfold decodeSPCR szxSPCR
  have g1 : tooShort Szx.spcrMinLen d = decide (d.length < 4) := by
    show (decide (d.length < 4) || false) = _
    rw [Bool.or_false]
  have g2 : outOfRange Szx.spcrLimits d = decide (7 < (d.getD 0 0).toNat) := by
    show (decide (7 < (d.getD 0 0).toNat) || false) = _
    rw [Bool.or_false]
  rw [g1, g2]
  by_cases h1 : d.length < 4
  · rw [if_pos (decide_eq_true h1)]; exact (if_pos h1).symm
  · rw [if_neg (by rw [decide_eq_false h1]; exact Bool.false_ne_true), if_neg h1]
    by_cases h2 : 7 < (d.getD 0 0).toNat
    · simp only [decide_eq_true h2, if_true]; exact (if_pos h2).symm
    · simp only [decide_eq_false h2, Bool.false_eq_true, if_false]; exact (if_neg h2).symm

/-- … hence a well-formed SPCR chunk decoded with the source's table yields what the specification
describes (`Spec.applySPCR`; repaired loader). -/
theorem spcr_source_layout_is_described (mid : Nat) (d : Bytes) (m : Machine) (hI : Inv m)
    (hk : m.kind = Spec.kindOfMid mid) (hl : d.length = 8) (hb : (d.getD 0 0).toNat < 8) :
    ∃ m', decodeSPCR Szx.spcrBytes Szx.spcrMinLen Szx.spcrLimits Szx.spcrMid48Below Fixes.all mid d m = some m' ∧
      Spec.abs m' = Spec.applySPCR mid d (Spec.abs m) := by
  obtain ⟨m', h, _, _, ha⟩ := sim_spcr mid d m hI hk hl hb
  exact ⟨m', by rw [spcr_is_model]; exact h, ha⟩

/-! ### AY, KEYB, AMXM, CRTR -/

/-- **AY chunk**: chFlags at 0 (bit ZXSTAYF_128AY = 2, looked at on 48K ids only), chCurrentRegister at 1,
chAyRegs from 2 on; at least 1 byte, 18 when the AY is enabled. -/
theorem ay_layout_is_spec :
    Szx.ayBytes = expand [(.flags, 0, 1), (.reg, 1, 1)] ∧ Szx.aySlices = [(2, none)] ∧
    Szx.ayMinLen = [1, 18] ∧ Szx.ayFlagMasks = [2] ∧ Szx.ayLimits = [] := by decide

/-- `process_ay_block` as its tables say -/
def decodeAY (tbl : List (F × Nat × Nat × Nat)) (minLen masks below : List Nat) (slices : List (Nat × Option Nat))
    (fx : Fixes) (mid : Nat) (d : Bytes) (m : Machine) : Option Machine :=
  if d.length < minLen.headD 0 then none else
  let flags := rd tbl d .flags 0
  let m := if mid < the below then { m with ayEnabled := flags &&& BitVec.ofNat 8 (the masks) != 0 } else m
  if !m.ayEnabled then some m else
  if d.length < minLen.getD 1 0 then none else
  some ((m.aySelect (rd tbl d .reg 0)).aySetRegs fx (d.drop ((slices.map (·.1)).headD 0)))

/-- **The model reads the AY chunk the way the source lays it out.** -/
theorem ay_is_model (fx : Fixes) (mid : Nat) (d : Bytes) (m : Machine) :
    decodeAY Szx.ayBytes Szx.ayMinLen Szx.ayFlagMasks Szx.ayMid48Below Szx.aySlices fx mid d m = szxAY fx mid d m := rfl

/-- **KEYB, AMXM, CRTR**: chKeyboardJoystick at 4 tested with ZXSTKJT_KEMPSTON = 1 (dwFlags 0…3 read
and dropped), at least 5 bytes; mouse chType at 0 tested with ZXSTM_KEMPSTON = 2, at least 1 byte;
the creator chunk needs 37 bytes (name 0…32, two version words) and changes nothing. -/
theorem small_chunks_layout :
    Szx.keybBytes = [(.ignored, 0, 0, 0xFF), (.ignored, 0, 1, 0xFF), (.ignored, 0, 2, 0xFF), (.ignored, 0, 3, 0xFF),
                     (.flags, 0, 4, 0xFF)] ∧
    Szx.keybMinLen = [5] ∧ Szx.keybFlagMasks = [1] ∧
    Szx.amxmBytes = [(.flags, 0, 0, 0xFF)] ∧ Szx.amxmMinLen = [1] ∧ Szx.amxmFlagMasks = [2] ∧
    Szx.crtrMinLen = [37] ∧ Szx.crtrSlices = [(0, some 33)] ∧ Szx.crtrFields = [(.ignored, 33, 4)] := by decide

/-- **The model reads KEYB, AMXM and CRTR the way the source lays them out**: one tested bit of one
byte each, after the extracted length test. -/
theorem small_chunks_are_model (d : Bytes) (m : Machine) :
    (if d.length < the Szx.keybMinLen then none
     else some { m with kempston := rd Szx.keybBytes d .flags 0 &&& BitVec.ofNat 8 (the Szx.keybFlagMasks) != 0 })
      = szxKEYB d m ∧
    (if d.length < the Szx.amxmMinLen then none
     else some { m with mouse := rd Szx.amxmBytes d .flags 0 &&& BitVec.ofNat 8 (the Szx.amxmFlagMasks) != 0 })
      = szxAMXM d m ∧
    (if d.length < the Szx.crtrMinLen then none else some m) = szxCRTR d m := ⟨rfl, rfl, rfl⟩

/-! ### RAMP -/

/-- **RAMP, source text = specification**: wFlags at 0 (low byte first; bit ZXSTRF_COMPRESSED = 1),
chPageNo at 2, the page data from byte 3 to the end (both for stored and for compressed pages);
at least 3 bytes; pages are 16384 bytes; on 48K machine ids pages 5, 2, 0 are banks 0, 1, 2; the
inflater may produce up to 65535 bytes, enough for a page. -/
theorem ramp_layout_is_spec :
    Szx.rampFields = [(.flags, 0, 2), (.pageNo, 2, 1)] ∧
    Szx.rampBytes = expand [(.flags, 0, 2), (.pageNo, 2, 1)] ∧
    Szx.rampSlices = [(3, none), (3, none)] ∧ Szx.rampMinLen = [3] ∧ Szx.rampFlagMasks = [1] ∧
    Szx.rampRemap = [(5, 0), (2, 1), (0, 2)] ∧ Szx.pageSize = 16384 ∧ Szx.pageSize = pageSize ∧
    Szx.inflateLimit = some 65535 ∧ Szx.pageSize ≤ 65535 := by decide

/-- first matching pair of a renumbering table -/
def remap (tbl : List (Nat × Nat)) (n : Nat) : Nat :=
  match tbl with
  | [] => n
  | (a, b) :: r => if n = a then b else remap r n

/-- `process_ramp_block` as its tables say (a mask below 256 tests the low byte of wFlags) -/
def decodeRAMP (tbl : List (F × Nat × Nat × Nat)) (minLen masks below : List Nat) (slices : List (Nat × Option Nat))
    (rm : List (Nat × Nat)) (page : Nat) (inflate : Bytes → Option Bytes) (mid : Nat) (d : Bytes) (m : Machine) :
    Except Err Machine :=
  if d.length < the minLen then .error .panic else
  let flags := rd tbl d .flags 0
  let n0 := (rd tbl d .pageNo 0).toNat
  let n := if mid < the below then remap rm n0 else n0
  if m.ramPages ≤ n then .error .panic else
  if flags &&& BitVec.ofNat 8 (the masks) != 0 then
    match inflate (d.drop ((slices.map (·.1)).headD 0)) with
    | none => .error .invalidSzx
    | some x => if x.length < page then .error .panic
                else .ok { m with ram := setBank m.ram n (x.take page) }
  else
    let x := d.drop ((slices.map (·.1)).getD 1 0)
    if x.length < page then .error .panic
    else .ok { m with ram := setBank m.ram n (x.take page) }

/-- **The model reads RAMP the way the source lays it out.** -/
theorem ramp_is_model (inflate : Bytes → Option Bytes) (mid : Nat) (d : Bytes) (m : Machine) :
    decodeRAMP Szx.rampBytes Szx.rampMinLen Szx.rampFlagMasks Szx.rampMid48Below Szx.rampSlices Szx.rampRemap
      Szx.pageSize inflate mid d m = szxRAMP inflate mid d m := rfl

/-! ### SNA loads (C14 covers them too) -/

/-- **A header decoded with the source's SNA table is the described one.** For every file whose
interrupt-mode byte is not 3, applying the extracted `sna::load` table (Props/C13X `decodeHeader`)
yields the registers `Spec.snaRegs` reads off the documented header. -/
theorem sna_source_layout_is_described (f : Bytes) (r : Machine) (pc : BitVec 16)
    (him : (f.getD 25 0 &&& 3).toNat ≠ 3) :
    ∃ m', C13X.decodeHeader Sna.loadBytes Sna.loadLimits f r = some m' ∧
      Spec.absRegs ({ m'.cpu with pc := pc } : Cpu) = Spec.snaRegs f pc ∧
      m'.border = f.getD 26 0 &&& 7 := by
  refine ⟨hdrApplied f r, ?_, absRegs_hdr f r pc, rfl⟩
  rw [C13X.load_header_is_model]
  unfold snaLoadHeader hdrApplied
  simp only [him, if_false]
  rfl

end ZxVerif.C14X
