/-
C15 — Loaders are total: any file or failing asset gives Ok/Err, never crash/hang/huge allocation.

Only property theorems live here (helper lemmas: ZxVerif/Lemmas/Loaders/*.lean).
Model : ZxVerif/Model/Loaders/{Asset,Snapshot,Tape,Vtx}.lean — control-flow transcriptions of
        host/io.rs (read_exact), snapshot/{sna,szx}.rs, screenshot/scr.rs, load_rom, zx/tape/tap.rs,
        fastload/tap.rs, vtx/src/lib.rs with explicit partiality (panic sites, loop fuel, allocations).
Spec  : ZxVerif/Spec/Loaders.lean — outcome ∈ {Ok, Err}; largest request ≤ input + extra + 64 KiB;
        steps ≤ 4·input + 256.
Every `*_total` theorem quantifies over *all* byte strings, *all* fault scripts (short reads of any
size pattern, failing reads/seeks at any set of indices, either end-of-file convention) and all
receiving machines; it is about the model with every repair flag set (`Fix.all`). `Fix.none` is
rustzx before any repair, `Fix.head` is /repo as of e55b22a (machine-model checks and
`restore_7ffd` in, the C15 sites still open). The code as it stands violates several of the
`*_total` statements: each violation is proved on a concrete witness (`*_violates_*`, by
evaluation, for `Fix.head` where the defect is still there), and the `*_partial` theorems hold for
*every* flag record under exactly the well-formedness of the input that excludes the unrepaired
sites.
-/
import ZxVerif.Lemmas.Loaders.Vtx
import ZxVerif.Lemmas.Loaders.Tape
namespace ZxVerif.C15
open ZxVerif.Loaders ZxVerif.Loaders.Spec

/-! ### read_exact -/

/-- `read_exact` is total under every fault script: it ends (the fuel is never the reason), the
asset stays the same byte string under the same script, no seek happens, the cursor moves
forward by at most `n`, every `read` call but the last delivered at least one byte (so at most
`delivered + 1` calls), and on success exactly the window `[pos, pos+n)` inside the data was
delivered — the result depends only on the delivered bytes. -/
theorem read_exact_total (a : Asset) (n : Nat) :
    ReadExactSpec a n (a.readExact n).1 (a.readExact n).2 :=
  readExact_spec a n

/-- Chunking independence: without scripted failures `read_exact(n)` succeeds exactly when `n`
bytes are left (or `n = 0`), whatever sizes the single `read` calls deliver and whether the end
of data is reported as `Err(UnexpectedEof)` or as `Ok(0)`. -/
theorem read_exact_chunking (a : Asset) (n : Nat) (hf : a.sc.readFails = []) :
    (a.readExact n).1 = .ok () ↔ (n = 0 ∨ a.pos + n ≤ a.len) := by
  constructor
  · intro h
    have := (readExact_spec a n).ok h
    by_cases h0 : n = 0
    · exact Or.inl h0
    · exact Or.inr (this.2 (by omega))
  · intro h
    cases h with
    | inl h0 => subst h0; rfl
    | inr hp => exact readExactGo_ok n a n (Nat.le_refl n) hf hp

/-! ### SNA -/

/-- **SNA, repaired code**: for every byte string, fault script and receiving machine
(48K/128K, locked or not, any bank paged in) loading returns Ok or Err, allocates nothing beyond
the bound and takes at most `4·len + 256` steps. -/
theorem sna_total (bytes : List Byte) (sc : Script) (r : Recv) (hr : r.WF) :
    Meets bytes.length 0 (M.run (snaLoad Fix.all r) (Asset.ofList bytes sc)) :=
  Triple.meets (Asset.ofList_fresh bytes sc)
    (snaLoad_triple Fix.all r hr ⟨Or.inl rfl, Or.inl rfl⟩ _)

/-- **SNA, any state of repair** (in particular `Fix.none` and `Fix.head`): total on the inputs
whose interrupt-mode byte (offset 25, low two bits) is not 3 — unless that site is repaired — and
that are not 128K-sized files offered to a 48K machine — unless the loader refuses those. -/
theorem sna_partial (fx : Fix) (bytes : List Byte) (sc : Script) (r : Recv) (hr : r.WF)
    (him : fx .snaIm = true ∨ (Asset.ofList bytes sc).u8 25 % 4 ≠ 3)
    (hmachine : fx .snaPage = true ∨ r.m128 = true ∨ bytes.length ≤ SNA_48K_SIZE) :
    Meets bytes.length 0 (M.run (snaLoad fx r) (Asset.ofList bytes sc)) :=
  Triple.meets (Asset.ofList_fresh bytes sc) (snaLoad_triple fx r hr ⟨him, hmachine⟩ _)

/-- a 49179-byte file whose byte 25 is `im` and whose other bytes are 0 -/
def snaFile (len im : Nat) : Asset :=
  { len := len, byte := fun i => if i = 25 then BitVec.ofNat 8 im else 0 }

/-- witness: IM byte 3 in an otherwise fine 48K snapshot panics (`set_im`: assert!(value < 3)) -/
theorem sna_violates_im :
    (M.run (snaLoad Fix.head (Recv.init false false)) (snaFile 49179 3)).outcome = .panic .snaIm := by
  decide +kernel

/-- witness (rustzx before fce5ee2): a 128K-sized snapshot offered to the 48K machine panics (RAM
page 5 does not exist); with the machine check of `Fix.head` it is refused -/
theorem sna_violates_machine :
    (M.run (snaLoad Fix.none (Recv.init false false)) (snaFile 49183 1)).outcome = .panic .snaPage := by
  decide +kernel

example : (M.run (snaLoad Fix.head (Recv.init false false)) (snaFile 49183 1)).outcome
    = .err .machineNotSupported := by decide +kernel
/-- `restore_7ffd`: a locked 128K receiver takes the file's bank 2, so the 131103-byte file is one bank short -/
example : (M.run (snaLoad Fix.head { m128 := true, locked := true, bank := 0, ay := false })
    { len := 131103, byte := fun i => if i = 49181 then 2 else 0 }).outcome = .err (.io .unexpectedEof) := by
  decide +kernel
example : (M.run (snaLoad Fix.none { m128 := true, locked := true, bank := 0, ay := false })
    { len := 131103, byte := fun i => if i = 49181 then 2 else 0 }).outcome = .ok := by decide +kernel
example : (M.run (snaLoad Fix.none (Recv.init false false)) (snaFile 49179 1)).outcome = .ok := by decide +kernel
example : (M.run (snaLoad Fix.none (Recv.init true false)) (snaFile 131103 2)).outcome = .ok := by decide +kernel
example : (Recv.init true false).WF := ⟨by decide, fun _ => rfl⟩

/-! ### SZX -/

/-- **SZX, repaired code**: header, chunk walker and every chunk handler are total for every byte
string, fault script, receiving machine and behaviour of the zlib decompressor (`inflate` is
arbitrary): Ok/Err only; no request beyond `len + 64 KiB` (the chunk buffer is bounded by the
file, the inflate buffer by 65535); at most `4·len + 256` steps — the walker's cursor strictly
increases, which is the termination measure. -/
theorem szx_total (bytes : List Byte) (sc : Script) (r : Recv) (inflate : Inflate) :
    Meets bytes.length 0 (M.run (szxLoad Fix.all r inflate) (Asset.ofList bytes sc)) :=
  Triple.meets (Asset.ofList_fresh bytes sc)
    (szxLoad_triple Fix.all r inflate (szxOK_all _ _ _ _ _) _)

/-- **SZX, any state of repair**: total on the files whose chunk chain is well formed (`szxGuard fx`:
ids are UTF-8, declared sizes fit into the file, CRTR/Z80R ≥ 37 bytes with a UTF-8 creator and
IM < 3, SPCR ≥ 4 bytes with border ≤ 7, AY ≥ 1 (≥ 18 with the AY on), KEYB ≥ 5, AMXM ≥ 1, RAMP ≥ 3
bytes naming a page the receiving machine has and carrying/inflating to ≥ 16384 bytes — each
clause waived where its site is repaired). Every clause of the guard is one finding. -/
theorem szx_partial (fx : Fix) (bytes : List Byte) (sc : Script) (r : Recv) (inflate : Inflate)
    (hwf : szxGuard fx r inflate (Asset.ofList bytes sc)) :
    Meets bytes.length 0 (M.run (szxLoad fx r inflate) (Asset.ofList bytes sc)) :=
  Triple.meets (Asset.ofList_fresh bytes sc) (szxLoad_triple fx r inflate hwf _)

/-- the guard is satisfiable: a header-only file, and a file with a well-formed KEYB chunk -/
example : szxGuard Fix.head (Recv.init false false) (fun _ _ => none)
    (Asset.ofList [0x5A, 0x58, 0x53, 0x54, 1, 4, 1, 0]) := by
  unfold szxGuard szxOK
  intro h; simp [Asset.ofList] at h

/-- `ZXST` header for machine `mid` followed by one chunk -/
def szxFile (mid : Nat) (id : List Nat) (size : Nat) (data : List Nat) : Asset :=
  Asset.ofList (([0x5A, 0x58, 0x53, 0x54, 1, 4, mid, 0] ++ id ++
    [size % 256, size / 256 % 256, size / 65536 % 256, size / 16777216] ++ data).map (BitVec.ofNat 8))

def run48 (a : Asset) : Res := M.run (szxLoad Fix.head (Recv.init false false) (fun _ _ => none)) a

theorem szx_violates_id_utf8 :
    (run48 (szxFile 1 [0xFF, 0xFF, 0xFF, 0xFF] 0 [])).outcome = .panic .szxIdUtf8 := by decide +kernel

/-- a 16-byte file makes the loader request 4 GiB (`vec![0; size]` from the chunk header) -/
theorem szx_violates_alloc :
    (run48 (szxFile 1 [0x41, 0x42, 0x43, 0x44] 0xFFFFFFFF [])).maxAlloc = 4294967295 := by decide +kernel

theorem szx_violates_crtr_short :
    (run48 (szxFile 1 [0x43, 0x52, 0x54, 0x52] 5 [65, 65, 65, 65, 65])).outcome = .panic .szxCrtrShort := by
  decide +kernel

theorem szx_violates_crtr_utf8 :
    (run48 (szxFile 1 [0x43, 0x52, 0x54, 0x52] 37 (0xFF :: List.replicate 36 65))).outcome
      = .panic .szxCrtrUtf8 := by decide +kernel

theorem szx_violates_z80r_short :
    (run48 (szxFile 1 [0x5A, 0x38, 0x30, 0x52] 5 [0, 0, 0, 0, 0])).outcome = .panic .szxZ80rShort := by decide +kernel

theorem szx_violates_z80r_im :
    (run48 (szxFile 1 [0x5A, 0x38, 0x30, 0x52] 37 (List.replicate 28 0 ++ [3] ++ List.replicate 8 0))).outcome
      = .panic .szxZ80rIm := by decide +kernel

theorem szx_violates_spcr_short :
    (run48 (szxFile 1 [0x53, 0x50, 0x43, 0x52] 2 [0, 0])).outcome = .panic .szxSpcrShort := by decide +kernel

theorem szx_violates_spcr_border :
    (run48 (szxFile 1 [0x53, 0x50, 0x43, 0x52] 8 [8, 0, 0, 0, 0, 0, 0, 0])).outcome = .panic .szxSpcrBorder := by
  decide +kernel

theorem szx_violates_ay_short :
    (M.run (szxLoad Fix.head (Recv.init true true) (fun _ _ => none))
      (szxFile 2 [0x41, 0x59, 0, 0] 5 [0, 0, 0, 0, 0])).outcome = .panic .szxAyShort := by decide +kernel

theorem szx_violates_keyb_short :
    (run48 (szxFile 1 [0x4B, 0x45, 0x59, 0x42] 2 [0, 0])).outcome = .panic .szxKeybShort := by decide +kernel

theorem szx_violates_amxm_short :
    (run48 (szxFile 1 [0x41, 0x4D, 0x58, 0x4D] 0 [])).outcome = .panic .szxAmxmShort := by decide +kernel

theorem szx_violates_ramp_short :
    (run48 (szxFile 1 [0x52, 0x41, 0x4D, 0x50] 1 [0])).outcome = .panic .szxRampShort := by decide +kernel

/-- RAM page 9 exists on no machine; page 3 does not exist on the 48K machine -/
theorem szx_violates_ramp_page :
    (run48 (szxFile 1 [0x52, 0x41, 0x4D, 0x50] 3 [0, 0, 3])).outcome = .panic .szxRampPage := by decide +kernel

/-- the machine check of `Fix.head`: a 128K file is refused by the 48K machine before any chunk is read -/
example : (run48 (szxFile 2 [0x52, 0x41, 0x4D, 0x50] 3 [0, 0, 3])).outcome = .err .machineNotSupported := by
  decide +kernel

theorem szx_violates_ramp_data :
    (run48 (szxFile 1 [0x52, 0x41, 0x4D, 0x50] 10 [0, 0, 5, 0, 0, 0, 0, 0, 0, 0])).outcome
      = .panic .szxRampData := by decide +kernel

/-- a compressed page that inflates to 100 bytes -/
theorem szx_violates_ramp_inflated :
    (M.run (szxLoad Fix.head (Recv.init false false) (fun _ _ => some 100))
      (szxFile 1 [0x52, 0x41, 0x4D, 0x50] 5 [1, 0, 5, 0x78, 0x01])).outcome = .panic .szxRampInflated := by
  decide +kernel

example : (run48 (szxFile 1 [0x4B, 0x45, 0x59, 0x42] 5 [0, 0, 0, 0, 1])).outcome = .ok := by decide +kernel

/-! ### SCR and ROM -/

/-- **SCR**: total as the code stands (6912-byte check, then one `read_exact`). -/
theorem scr_total (bytes : List Byte) (sc : Script) :
    Meets bytes.length 0 (M.run scrLoad (Asset.ofList bytes sc)) :=
  Triple.meets (Asset.ofList_fresh bytes sc) (scrLoad_triple _)

/-- **ROM**: total as the code stands, for any number of page assets of any lengths under any
fault scripts; `len` is the total length offered. -/
theorem rom_total (r : Recv) (pages : List (List Byte × Script)) :
    let assets := pages.map fun p => Asset.ofList p.1 p.2
    let res := romLoad r assets
    acceptable res.outcome = true ∧ res.maxAlloc = 0 ∧ res.steps ≤ stepBound (sumLen assets) := by
  intro assets res
  have := romGo_meets r.romPages assets 0 (by
    intro a ha
    obtain ⟨p, _, rfl⟩ := List.mem_map.1 ha
    exact Asset.ofList_fresh _ _)
  simp only at this
  refine ⟨this.1, this.2.1, ?_⟩
  have h2 : r.romPages ≤ 2 := by unfold Recv.romPages; split <;> omega
  have := this.2.2
  show (romLoad.go r.romPages assets 0).steps ≤ _
  simp only [stepBound]
  omega

/-! ### TAP: load, play, fast-load -/

/-- **TAP**: `Tap::from_asset` reads nothing; whatever the emulator then does with the tape — any
history of play/stop/rewind, `process_clocks`, `next_block`, `next_block_byte` and fast-load
requests, on any byte string under any fault script — every single operation answers Ok or Err:
no checked subtraction underflows, no index leaves the 128-byte buffer, the pilot counter is
never decremented at 0, and every loop (skipping a block's rest, the state machine, the
fast-load byte loop) ends within its fuel. -/
theorem tap_total (bytes : List Byte) (sc : Script) (mem : Nat → Nat) (ops : List TapOp) :
    ∀ o ∈ Tap.runOps mem (Tap.fromAsset (Asset.ofList bytes sc)) ops, acceptable o = true :=
  runOps_spec mem ops _ (fromAsset_inv _)

/-- one operation from any state satisfying the struct invariant: Ok/Err, invariant kept (also
on failure, so the next operation is covered again), bounded number of loop iterations
(`tapStepBound` = three blocks' worth; `count` times that for a batch of `process_clocks`) -/
theorem tap_step_total (mem : Nat → Nat) (t : Tap) (op : TapOp) (h : t.Inv) :
    (t.step mem op).2.Inv ∧ acceptable (t.step mem op).1 = true ∧
    (t.step mem op).2.ticks ≤ t.ticks + op.cost :=
  step_spec mem t op h

example : (Tap.fromAsset (Asset.ofList [])).Inv := fromAsset_inv _

/-! ### VTX -/

/-- **VTX header, repaired code** (a zero-byte read is an invalid header, NUL search limited to the
bytes read, the assert replaced by an error, a player frequency of 0 refused, the frame buffer
grown while the decoder delivers): for every byte string, reader fault script and amount
`produced` the LH5 decoder delivers, `Vtx::load` + `Player::new` is Ok/Err; the largest request is
at most `len + 2·produced + 2·64 KiB + 64 KiB`; at most `4·len + 256` steps. The decoder itself is
a parameter assumed not to panic (`lha = some produced`). -/
theorem vtx_header_total (bytes : List Byte) (sc : Script) (produced : Nat) :
    Meets bytes.length (vtxExtra produced) (M.run (vtxLoad Fix.all (some produced)) (Asset.ofList bytes sc)) :=
  Triple.meets (Asset.ofList_fresh bytes sc)
    (vtxLoad_triple Fix.all produced ⟨rfl, rfl, rfl, rfl, Or.inl rfl, Or.inl rfl⟩ rfl)

/-- **VTX header, scan loop repaired, header fields as they stand**: total when the declared frame
size is within the allocation bound and the player frequency is not 0. -/
theorem vtx_header_partial (fx : Fix) (bytes : List Byte) (sc : Script) (produced : Nat)
    (hspin : fx .vtxSpin = true) (hscan : fx .vtxScan = true) (hstr : fx .vtxStrings = true)
    (har : fx .vtxArith = true)
    (hsize : (Asset.ofList bytes sc).le32 12 ≤ allocBound bytes.length (vtxExtra produced))
    (hfreq : (Asset.ofList bytes sc).u8 9 ≠ 0) :
    Meets bytes.length (vtxExtra produced) (M.run (vtxLoad fx (some produced)) (Asset.ofList bytes sc)) :=
  Triple.meets (Asset.ofList_fresh bytes sc)
    (vtxLoad_triple fx produced ⟨hspin, hscan, hstr, har, Or.inr hsize, Or.inr hfreq⟩ rfl)

/-- fixed 16-byte VTX header (`ay`, stereo 1, player frequency `pf`, declared size `claim`) + tail -/
def vtxFile (pf claim : Nat) (tail : List Nat) (sc : Script := { eofZero := true }) : Asset :=
  Asset.ofList (([0x61, 0x79, 1, 0, 0, 0x58, 0x0F, 0x1B, 0, pf, 0, 0,
    claim % 256, claim / 256 % 256, claim / 65536 % 256, claim / 16777216] ++ tail).map (BitVec.ofNat 8)) sc

/-- witness: a valid header followed by `abc` and the end of the file: the scan loop spins -/
theorem vtx_violates_spin :
    (M.run (vtxLoad Fix.none (some 0)) (vtxFile 50 0 [0x61, 0x62, 0x63])).outcome = .hang := by decide +kernel

/-- witness: a reader delivering 3 bytes per call makes the scan count zero padding as string
terminators; the assert on the number of strings then fails -/
theorem vtx_violates_strings :
    (M.run (vtxLoad Fix.none (some 0))
      (vtxFile 50 0 (List.replicate 15 0x61 ++ [0x62, 0x62, 0x62, 0x62, 0])
        { chunk := fun _ => 3, eofZero := true })).outcome = .panic .vtxStrings := by decide +kernel

/-- witness: 21 bytes request 128 MiB -/
theorem vtx_violates_alloc :
    (M.run (vtxLoad Fix.none (some 0)) (vtxFile 50 134217720 [0, 0, 0, 0, 0])).maxAlloc = 134217720 := by decide +kernel

/-- witness: player frequency 0 loads fine and `Player::new` divides by zero -/
theorem vtx_violates_player_freq :
    (M.run (vtxLoad Fix.none (some 0)) (vtxFile 0 0 [0, 0, 0, 0, 0])).outcome = .panic .vtxPlayerFreq := by decide +kernel

example : (M.run (vtxLoad Fix.none (some 0)) (vtxFile 50 0 [0x41, 0, 0, 0, 0x42, 0, 0])).outcome = .ok := by decide +kernel
example : (M.run (vtxLoad Fix.all (some 0)) (vtxFile 50 0 [0x61, 0x62, 0x63])).outcome = .err .vtxHeader := by decide +kernel

end ZxVerif.C15
