/-
C16 — Emulation is deterministic and independent of how the host drives it.

Only property theorems live here (helper lemmas: ZxVerif/Lemmas/Driving.lean).
Model : ZxVerif/Model/Driving.lean (the `emulate_frames` loop over an abstract deterministic
        machine; `read_exact`/`seek` over scripted chunkings; loaders as programs over both)
Spec  : ZxVerif/Spec/Driving.lean  (`runToFrame K`: iterate `step` until K frame boundaries have
        passed; `readExactSpec`: the next n bytes or "unexpected end of file")

The theorems quantify over every machine (`step`, `crossed`, `err` arbitrary functions), every
list of calls, every mode, time limit, stopwatch script, breakpoint behaviour and fuel; every
byte string, position, read size and productive chunk script; every loader program.

What is *not* proved here, and cannot be: that the real `cpu.emulate` + controller is a function
of the emulator state alone (no hidden input such as wall-clock time, addresses, thread state)
and that the mixer really is not read back. Those are the hypotheses "`mc` is a `Machine`" and
`NonInterference`; the harness checks them on the real code (metamorphic runs, run-twice runs).
-/
import ZxVerif.Lemmas.Driving
namespace ZxVerif.C16
open ZxVerif.Driving ZxVerif.Driving.Spec

variable {M : Type}

/-- One call of `emulate_frames` — whatever mode, time limit, stopwatch readings, breakpoints — only
moves the machine along its own trajectory: the state it leaves is `iter step j` of the state it
found, `j` = number of `cpu.emulate` calls it made, and `j ≥ 1` unless the model ran out of fuel. -/
theorem call_advances_trajectory (mc : Machine M) (c : Call M) (fuel : Nat) (m : M)
    (sw : List Nat) :
    (emulateFrames mc c fuel m sw).m = iter mc.step (emulateFrames mc c fuel m sw).steps m
      ∧ ((emulateFrames mc c fuel m sw).reason ≠ .outOfFuel →
          1 ≤ (emulateFrames mc c fuel m sw).steps) := by
  obtain ⟨j, h1, h2, h3, -⟩ := run_traj mc c fuel m 0 sw 0 0
  unfold emulateFrames
  rw [h1, h2, Nat.zero_add]
  exact ⟨rfl, h3⟩

/-- A call that ends `Completed` (`FrameCount(n)`, `n ≥ 1`) or `Timeout` (`Max`) stops at the
first instruction boundary at or after a frame boundary: its last step is one that passed a frame
boundary. -/
theorem call_stops_at_boundary (mc : Machine M) (c : Call M) (fuel : Nat) (m : M)
    (sw : List Nat) (hb : AtBoundary c.mode (emulateFrames mc c fuel m sw).reason) :
    ∃ j', (emulateFrames mc c fuel m sw).steps = j' + 1
      ∧ 1 ≤ mc.crossed (iter mc.step j' m) := by
  obtain ⟨j, h1, _, _, _, h5⟩ := run_traj mc c fuel m 0 sw 0 0
  obtain ⟨hpre, hr⟩ := hb.pre
  obtain ⟨j', hj, hc⟩ := h5 hpre hr
  exact ⟨j', by unfold emulateFrames; omega, hc⟩

/-- In `FrameCount` mode the counter the call reports (`frames_count()` on return) is the number of
frame boundaries it passed. -/
theorem frames_accounting_frameCount (mc : Machine M) (c : Call M) (n : Nat)
    (hmode : c.mode = .frameCount n) (fuel : Nat) (m : M) (sw : List Nat) :
    (emulateFrames mc c fuel m sw).passed
      = crossedSum mc (emulateFrames mc c fuel m sw).steps m := by
  obtain ⟨j, h1, _, _, h4, _⟩ := run_traj mc c fuel m 0 sw 0 0
  unfold emulateFrames
  rw [h4 n hmode, h1]
  simp

/-- In `Max` mode the host can count the frames of a call on its stopwatch (an instruction never
spans two frame boundaries): a `Timeout` return has read it once per passed frame plus once; a
`Breakpoint` return once per *accounted* frame plus once, where the frame possibly passed by the
very last step is still in `frames_count()`. -/
theorem frames_accounting_max (mc : Machine M) (c : Call M) (hmode : c.mode = .max)
    (h1 : ∀ m, mc.crossed m ≤ 1) (fuel : Nat) (m : M) (sw : List Nat) :
    ((emulateFrames mc c fuel m sw).reason = .timeout →
        (emulateFrames mc c fuel m sw).measures
          = crossedSum mc (emulateFrames mc c fuel m sw).steps m + 1)
    ∧ ((emulateFrames mc c fuel m sw).reason = .breakpoint →
        (emulateFrames mc c fuel m sw).measures + (emulateFrames mc c fuel m sw).passed
          = crossedSum mc (emulateFrames mc c fuel m sw).steps m + 1) := by
  obtain ⟨j, e1, e2, e3⟩ := run_max_measures mc c hmode h1 fuel m sw 0 0
  unfold emulateFrames
  rw [e1]
  simp only [Nat.zero_add] at e2 e3 ⊢
  exact ⟨e2, e3⟩

/-- **Slicing is irrelevant.** Partition a run into calls in any way: arbitrary earlier calls
`pre` (any modes `FrameCount(n)`/`Max`, time limits, stopwatch readings, breakpoint stops and
resumes, even calls that failed or ran out of fuel) followed by a call `last` that ends at a frame
boundary (`Completed` with `n ≥ 1`, or `Timeout`). If `K` frame boundaries were passed in total,
the machine is exactly in the state `runToFrame K s0` — the state reached by stepping from `s0`
until `K` boundaries have passed, in which no call structure appears. The composition is exact
because every call stops at the first instruction boundary at or after a frame boundary and the
next call resumes from precisely there. -/
theorem slicing_irrelevant (mc : Machine M) (s0 : M) (pre : List (CallSpec M))
    (last : CallSpec M) (K fuel : Nat)
    (hb : AtBoundary last.call.mode
      (emulateFrames mc last.call last.fuel (finalOf s0 (drive mc pre s0)) last.sw).reason)
    (hK : K = crossedSum mc (totalSteps (drive mc (pre ++ [last]) s0)) s0)
    (hfuel : totalSteps (drive mc (pre ++ [last]) s0) ≤ fuel) :
    runToFrame mc fuel K s0 = some (finalOf s0 (drive mc (pre ++ [last]) s0)) := by
  have htraj := drive_traj mc (pre ++ [last]) s0
  have hpre := drive_traj mc pre s0
  obtain ⟨j', hj, hc⟩ :=
    call_stops_at_boundary mc last.call last.fuel (finalOf s0 (drive mc pre s0)) last.sw hb
  have hsteps : totalSteps (drive mc (pre ++ [last]) s0)
      = (totalSteps (drive mc pre s0) + j') + 1 := by
    rw [drive_append]
    simp only [totalSteps, List.map_append, List.sum_append, List.map_cons, List.map_nil,
      List.sum_cons, List.sum_nil] at hj ⊢
    omega
  rw [hpre, ← iter_add] at hc
  rw [htraj, hsteps]
  rw [hsteps] at hK hfuel
  apply runToFrame_eq_iter mc _ s0 K fuel _ (by omega) hfuel
  rw [hK, crossedSum_succ']
  omega

/-- Two hosts, two completely different drivings of the same machine from the same state: if both
end at a frame boundary having passed the same number of frames, the machines are in the same
state. -/
theorem drivings_agree (mc : Machine M) (s0 : M) (pre pre' : List (CallSpec M))
    (last last' : CallSpec M)
    (hb : AtBoundary last.call.mode
      (emulateFrames mc last.call last.fuel (finalOf s0 (drive mc pre s0)) last.sw).reason)
    (hb' : AtBoundary last'.call.mode
      (emulateFrames mc last'.call last'.fuel (finalOf s0 (drive mc pre' s0)) last'.sw).reason)
    (hK : crossedSum mc (totalSteps (drive mc (pre ++ [last]) s0)) s0
        = crossedSum mc (totalSteps (drive mc (pre' ++ [last']) s0)) s0) :
    finalOf s0 (drive mc (pre ++ [last]) s0) = finalOf s0 (drive mc (pre' ++ [last']) s0) := by
  have h1 := slicing_irrelevant mc s0 pre last _
    (max (totalSteps (drive mc (pre ++ [last]) s0)) (totalSteps (drive mc (pre' ++ [last']) s0)))
    hb rfl (Nat.le_max_left _ _)
  have h2 := slicing_irrelevant mc s0 pre' last' _
    (max (totalSteps (drive mc (pre ++ [last]) s0)) (totalSteps (drive mc (pre' ++ [last']) s0)))
    hb' rfl (Nat.le_max_right _ _)
  rw [hK] at h1
  rw [h1] at h2
  exact Option.some.inj h2

/-- The fuel of the model is enough — i.e. the Rust loop terminates — in `FrameCount(n)` mode as
soon as every step advances time by at least 1 T and a frame has `L` T: `max 1 (n·L)` iterations. -/
theorem fuel_suffices_frameCount (mc : Machine M) (c : Call M) (n L : Nat) (clock : M → Nat)
    (Inv : M → Prop) (ht : Timed mc L clock Inv) (hmode : c.mode = .frameCount n)
    (m : M) (hi : Inv m) (sw : List Nat) (fuel : Nat) (h1 : 1 ≤ fuel) (hf : n * L ≤ fuel) :
    (emulateFrames mc c fuel m sw).reason ≠ .outOfFuel := by
  unfold emulateFrames
  cases n with
  | zero =>
    obtain ⟨f, rfl⟩ : ∃ f, fuel = f + 1 := ⟨fuel - 1, by omega⟩
    rw [run]
    simp only [hmode, Nat.zero_le, if_true]
    split
    · simp
    · split <;> simp
  | succ n =>
    apply run_fuel_frameCount mc c (n + 1) L clock Inv ht hmode fuel m 0 sw 0 0 hi (by omega)
    simp only [Nat.sub_zero]
    omega

/-- … and in `Max` mode as soon as, additionally, the host's stopwatch eventually (at its `k`-th
reading) exceeds the time limit: `(k+1)·L` iterations. (If it never does, `emulate_frames` in
`Max` mode does not return; that is the documented contract, not a defect.) -/
theorem fuel_suffices_max (mc : Machine M) (c : Call M) (L : Nat) (clock : M → Nat)
    (Inv : M → Prop) (ht : Timed mc L clock Inv) (hmode : c.mode = .max)
    (m : M) (hi : Inv m) (sw : List Nat) (k t : Nat) (hk : sw[k]? = some t) (hl : c.limit < t)
    (fuel : Nat) (hf : (k + 1) * L ≤ fuel) :
    (emulateFrames mc c fuel m sw).reason ≠ .outOfFuel := by
  unfold emulateFrames
  exact run_fuel_max mc c L clock Inv ht hmode fuel m sw 0 0 k hi ⟨t, hk, hl⟩ (by omega)

/-- **The mixer does not interfere.** Split the state into (core, mixer) and assume the core's
step does not read the mixer (`NonInterference`). Then for any driving, any two initial mixer
states (sound on or off, any volume, any queue contents) and any two sequences of things the host
does to the mixer between calls (drain every frame, sometimes, never), the two runs agree call by
call on the core state, stop reason, frame counter, stopwatch use and step count. -/
theorem mixer_noninterference {C X : Type} (mc : Machine (C × X)) (hni : NonInterference mc)
    (cs : List (CallSpec (C × X))) (hbp : ∀ c ∈ cs, CoreBp c.call)
    (gs gs' : List (X → X)) (c0 : C) (x x' : X) :
    CoreEqAll (driveWith mc cs gs (c0, x)) (driveWith mc cs gs' (c0, x')) := by
  suffices h : ∀ (cs : List (CallSpec (C × X))), (∀ c ∈ cs, CoreBp c.call) →
      ∀ (gs gs' : List (X → X)) (m m' : C × X), m.1 = m'.1 →
        CoreEqAll (driveWith mc cs gs m) (driveWith mc cs gs' m') from
    h cs hbp gs gs' _ _ rfl
  intro cs
  induction cs with
  | nil => intro _ gs gs' m m' _; exact True.intro
  | cons c cs ih =>
    intro hbp gs gs' m m' hm
    have hc : CoreBp c.call := hbp c (by simp)
    have h := run_core mc hni c.call hc c.fuel (m.1, (gs.headD id) m.2) (m'.1, (gs'.headD id) m'.2)
      0 c.sw 0 0 hm
    simp only [driveWith, emulateFrames]
    exact ⟨h, ih (fun d hd => hbp d (by simp [hd])) _ _ _ _ h.1⟩

/-- `read_exact` refines the spec for every productive chunking: the caller gets the next `n`
bytes, or — if fewer are left — what is left and `UnexpectedEof`, whether the end of the file is
signalled by `Ok(0)` or by `Err`; the file position afterwards is fixed too. -/
theorem read_exact_refines_spec (a : Asset) (n : Nat) (hp : a.productive) :
    (readExact a n).1 = readExactSpec a.data a.pos n
      ∧ (readExact a n).2.pos = posAfter a.data a.pos n := by
  obtain ⟨h1, _, h3, _⟩ := readExact_spec a n hp
  exact ⟨h1, h3⟩

/-- the `read_exact` loop always terminates (the fuel outcome of the model is unreachable) -/
theorem read_exact_never_diverges (a : Asset) (n : Nat) (hp : a.productive) :
    (readExact a n).1.out ≠ .diverged := by
  rw [(readExact_spec a n hp).1, readExactSpec]
  simp only
  split <;> simp

/-- **Chunking of reads is irrelevant** (DESIGN Appendix A): for the same bytes, any productive
chunk script (reads of 1..n bytes) and either end-of-file convention give the caller of
`read_exact` the same buffer and the same outcome as the whole-buffer asset. -/
theorem read_exact_chunking (bytes : List Byte) (n : Nat) (chunks : List Nat) (eofZero : Bool)
    (h : (Asset.chunked bytes chunks eofZero).productive) :
    (readExact (Asset.chunked bytes chunks eofZero) n).1 = (readExact (Asset.whole bytes) n).1 := by
  have hw : (Asset.whole bytes).productive := by intro c hc; simp [Asset.whole] at hc
  rw [(readExact_spec _ n h).1, (readExact_spec _ n hw).1]
  rfl

/-- **Loaders are chunking-independent.** Any computation that uses its asset only through
`read_exact` and `seek` (inspecting outcomes as it likes) returns the same result — and leaves the
same file position — on any two assets that present the same bytes, whatever their chunkings and
end-of-file conventions. -/
theorem loader_chunking_independent {α : Type} (p : Prog α) (a a' : Asset)
    (hs : SameFile a a') (hp : a.productive) (hp' : a'.productive) :
    (p.run a).1 = (p.run a').1 ∧ SameFile (p.run a).2 (p.run a').2 := by
  induction p generalizing a a' with
  | ret x => exact ⟨rfl, hs⟩
  | readExact n k ih =>
    obtain ⟨e1, e2, e3, _, e5⟩ := readExact_spec a n hp
    obtain ⟨f1, f2, f3, _, f5⟩ := readExact_spec a' n hp'
    have hres : (readExact a n).1 = (readExact a' n).1 := by rw [e1, f1, hs.1, hs.2]
    have hsame : SameFile (readExact a n).2 (readExact a' n).2 :=
      ⟨by rw [e2, f2, hs.1], by rw [e3, f3, hs.1, hs.2]⟩
    simp only [Prog.run]
    rw [hres]
    exact ih _ _ _ hsame e5 f5
  | seek s k ih =>
    obtain ⟨g1, g2, g3, g4⟩ := seek_sameFile a a' s hs
    simp only [Prog.run]
    rw [g1]
    refine ih _ _ _ g2 ?_ ?_
    · intro c hc; rw [g3] at hc; exact hp c hc
    · intro c hc; rw [g4] at hc; exact hp' c hc

/-- **Determinism**, as a statement about the model: two runs from equal states with equal host
inputs (calls, stopwatch readings, fuel) are equal, call by call. In Lean this is the congruence
of a function and carries no weight by itself; the real content of "deterministic" is that the
code has no input *besides* these — no wall clock, allocator address, hash-map order, thread — and
that is what the harness checks by running every driving twice on the real emulator. -/
theorem run_deterministic (mc : Machine M) (cs cs' : List (CallSpec M)) (s s' : M)
    (hc : cs = cs') (hs : s = s') : drive mc cs s = drive mc cs' s' := by
  subst hc; subst hs; rfl

/-! ### non-vacuity -/

/-- `FrameCount(2)`, then `Max` for two frames (stopwatch 1, 9 against limit 5), after a
breakpoint stop: the hypotheses of `slicing_irrelevant` hold and 4 frames are passed. -/
example :
    let pre : List (CallSpec Toy) :=
      [⟨⟨.frameCount 2, 0, fun _ m => m.idx == 1⟩, [], 100⟩, ⟨⟨.frameCount 2, 0, fun _ _ => false⟩, [], 100⟩]
    let last : CallSpec Toy := ⟨⟨.max, 5, fun _ _ => false⟩, [1, 9, 9], 100⟩
    AtBoundary last.call.mode
        (emulateFrames toy last.call last.fuel (finalOf ⟨0, 0⟩ (drive toy pre ⟨0, 0⟩)) last.sw).reason
      ∧ crossedSum toy (totalSteps (drive toy (pre ++ [last]) ⟨0, 0⟩)) ⟨0, 0⟩ = 4
      ∧ ((drive toy pre ⟨0, 0⟩).map (·.reason)) = [.breakpoint, .completed]
      ∧ runToFrame toy 100 4 ⟨0, 0⟩ = some (finalOf ⟨0, 0⟩ (drive toy (pre ++ [last]) ⟨0, 0⟩)) := by
  refine ⟨Or.inl ⟨rfl, by decide⟩, by decide, by decide, by decide⟩

/-- the toy machine satisfies the timing hypothesis of the fuel theorems -/
example : Timed toy 20 (·.clocks) (fun m => m.clocks < 20) where
  inv_step m h := by
    have : toyLen [4, 7, 11] m ≤ 11 := by
      unfold toyLen
      have : m.idx % 3 < 3 := Nat.mod_lt _ (by decide)
      rcases (by omega : m.idx % 3 = 0 ∨ m.idx % 3 = 1 ∨ m.idx % 3 = 2) with h | h | h <;>
        simp [h]
    simp only [toy, toyMachine]
    split <;> omega
  bound m h := h
  advance m h := by
    have : 4 ≤ toyLen [4, 7, 11] m := by
      unfold toyLen
      have : m.idx % 3 < 3 := Nat.mod_lt _ (by decide)
      rcases (by omega : m.idx % 3 = 0 ∨ m.idx % 3 = 1 ∨ m.idx % 3 = 2) with h | h | h <;>
        simp [h]
    simp only [toy, toyMachine]
    split <;> omega
  crossed_le m _ := by simp only [toy, toyMachine]; split <;> omega

/-- a machine with a mixer that accumulates the clock but is never read: `NonInterference` holds -/
example : NonInterference
    ({ step := fun m => (toy.step m.1, m.2 + m.1.clocks), crossed := fun m => toy.crossed m.1,
       err := fun m => toy.err m.1 } : Machine (Toy × Nat)) := by
  intro c x x'; exact ⟨rfl, rfl, rfl⟩

/-- … gives the same block whether the file arrives whole or byte by byte with `Ok(0)` at EOF -/
example :
    (tapNextBlock.run (Asset.whole [3, 0, 0xAA, 0xBB, 0xCC, 0xDD])).1 = some [0xAA, 0xBB, 0xCC]
      ∧ (tapNextBlock.run (Asset.chunked [3, 0, 0xAA, 0xBB, 0xCC, 0xDD] [1, 1, 1, 2, 1] true)).1
          = some [0xAA, 0xBB, 0xCC] := by
  decide

end ZxVerif.C16
