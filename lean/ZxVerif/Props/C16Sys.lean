/-
C16 (system level) — the loop theorems of `Props/C16.lean`, instantiated for the composed machine.

`Props/C16.lean` proves that slicing is irrelevant for the `emulate_frames` loop over an *abstract*
deterministic machine (`Driving.Machine`: arbitrary `step`, `crossed`, `err`). Here the machine is
the concrete one of `Model/Spectrum.lean` — the Z80 model running on the Spectrum bus model, which
the lock-step correspondence (harness/src/sys.rs) ties to the real `Emulator`:

* `zxMachine`: `step` = one `cpu.emulate(&mut controller)` (`Spectrum.step`), `crossed` = the number
  of frame ends during that step (growth of the controller's frame counter), `err` = never (the
  composed model has neither tape nor fast loading, the only sources of `last_emulation_error` and
  of an `Err` from `process_fast_load_event`).
* The side conditions the abstract theorems ask for are *proved* for every regular state
  (`C04Sys.Good`: in-frame offset below the frame length, memory map as the paging latch says — true
  after reset and kept by every program): one step takes between 4 and 560 T-states
  (`step_time_bounds`; upper bound by the graded closure theorem `Lemmas/Z80Graded.lean`: at most
  20 timed bus operations per `emulate`, each at most 28 T-states on this bus), hence passes at most
  one frame end (`crossed_le_one`) and does so exactly when the in-frame offset wraps
  (`crossed_iff_wrap`); the in-frame offset, counted in units of 4 T-states, is a clock in the sense
  of `Driving.Timed` with `L` = frame length / 4 (`zx_timed`): a frame ends after at most 17472
  (48K) / 17727 (128K) steps.
* Instances: `zx_slicing_irrelevant`, `zx_drivings_agree`, `zx_call_advances_trajectory`,
  `zx_call_stops_at_boundary`, `zx_frames_accounting_frameCount/max`, `zx_fuel_suffices_frameCount/max`,
  with the abstract frame count `crossedSum` replaced by what it is on this machine: the growth of
  the frame counter of the controller (`passedFrames_run`).

Nothing here is partial: every hypothesis left in the statements is either `Good` of the start state
(true after reset: `regular_new`, `regular_after_program`) or a hypothesis of the abstract theorem
about the *calls* (the last call ends at a frame boundary, the fuel of the model, the stopwatch
eventually exceeding the limit in `Max` mode).

Helper lemmas: Lemmas/Z80Graded.lean, Lemmas/DrivingSys.lean.
-/
import ZxVerif.Props.C16
import ZxVerif.Lemmas.DrivingSys
namespace ZxVerif.C16Sys
open ZxVerif.Driving ZxVerif.Driving.Spec ZxVerif.Machine ZxVerif.Spectrum ZxVerif.C05
open ZxVerif.Z80 (Cpu)
open ZxVerif.C04Sys (Good)

/-- the whole state of the composed machine: CPU and everything behind the bus -/
abbrev State := Cpu × ZX

/-- **The composed Lean machine as a `Driving.Machine`.** `passedFrames` of the model's controller is
never reset (the model has no `reset_frame_counter`; `Driving.run` keeps the per-call counter), so
the number of `passed_frames += 1` executed during one step is its growth over the step. No step
reports an error: tape, fast loading and snapshot loading — the only places where the Rust code sets
`last_emulation_error` or returns `Err` out of the loop — are outside the composed model. -/
def zxMachine : Machine State where
  step := Spectrum.step
  crossed sb := (Spectrum.step sb).2.ctl.passedFrames - sb.2.ctl.passedFrames
  err _ := false

/-- a regular state of a machine of kind `k` -/
def Regular (k : Kind) (sb : State) : Prop := Good sb.2.ctl ∧ sb.2.ctl.kind = k

/-! ### Determinism and compositionality on the concrete machine -/

/-- the trajectory of the loop machine is the run of the Z80 model on the Spectrum bus -/
theorem iter_is_run (n : Nat) (sb : State) : iter zxMachine.step n sb = Z80.run .hw n sb := by
  induction n generalizing sb with
  | zero => rfl
  | succ n ih =>
    show iter zxMachine.step n (Z80.emulate .hw sb) = Z80.run .hw n (Z80.emulate .hw sb)
    exact ih _

/-- **Runs compose** (any bus, either CPU variant): `a + b` instructions are `a` instructions and then
`b` instructions from wherever those left the machine — the state after an instruction is all that the
next one depends on. -/
theorem run_add {β : Type} [Z80.Bus β] (v : Z80.Variant) (a b : Nat) (sb : Cpu × β) :
    Z80.run v (a + b) sb = Z80.run v b (Z80.run v a sb) := by
  induction a generalizing sb with
  | zero => simp [Z80.run]
  | succ a ih =>
    have : a + 1 + b = (a + b) + 1 := by omega
    rw [this]
    simp only [Z80.run]
    exact ih _

/-- a run cut into any number of pieces of any lengths is the run of the total length -/
theorem run_pieces {β : Type} [Z80.Bus β] (v : Z80.Variant) (ns : List Nat) (sb : Cpu × β) :
    ns.foldl (fun x n => Z80.run v n x) sb = Z80.run v ns.sum sb := by
  induction ns generalizing sb with
  | nil => rfl
  | cons n ns ih => rw [List.foldl_cons, ih, List.sum_cons, run_add]

/-! ### One step of the machine in a regular state -/

/-- **One instruction takes between 4 and 560 T-states** on the machine, ULA delays, interrupt entry
and prefixes included, and leaves a regular state regular. -/
theorem step_time_bounds (sb : State) (hg : Good sb.2.ctl) :
    Good (zxMachine.step sb).2.ctl ∧ (zxMachine.step sb).2.ctl.kind = sb.2.ctl.kind ∧
    total sb.2.ctl + 4 ≤ total (zxMachine.step sb).2.ctl ∧
    total (zxMachine.step sb).2.ctl ≤ total sb.2.ctl + 560 :=
  DrivingSys.step_bounds sb.1 sb.2 hg

/-- … so the frame counter goes up by 0 or 1 and the in-frame offset moves forward by 4..560 T-states
modulo the frame length -/
theorem step_frame (sb : State) (hg : Good sb.2.ctl) :
    Good (zxMachine.step sb).2.ctl ∧ (zxMachine.step sb).2.ctl.kind = sb.2.ctl.kind ∧
    (((zxMachine.step sb).2.ctl.passedFrames = sb.2.ctl.passedFrames ∧
        sb.2.ctl.frameClocks + 4 ≤ (zxMachine.step sb).2.ctl.frameClocks ∧
        (zxMachine.step sb).2.ctl.frameClocks ≤ sb.2.ctl.frameClocks + 560) ∨
     ((zxMachine.step sb).2.ctl.passedFrames = sb.2.ctl.passedFrames + 1 ∧
        sb.2.ctl.frameClocks + 4 ≤ (zxMachine.step sb).2.ctl.frameClocks + sb.2.ctl.kind.specs.clocksFrame ∧
        (zxMachine.step sb).2.ctl.frameClocks + sb.2.ctl.kind.specs.clocksFrame
          ≤ sb.2.ctl.frameClocks + 560)) := by
  obtain ⟨g, k, lo, hi⟩ := step_time_bounds sb hg
  refine ⟨g, k, ?_⟩
  have hin := g.inFrame
  unfold total at lo hi
  rw [k] at lo hi hin
  exact DrivingSys.frame_arith (C04Sys.frameLen_big _) hg.inFrame hin lo hi

theorem step_regular {k : Kind} {sb : State} (h : Regular k sb) : Regular k (zxMachine.step sb) := by
  obtain ⟨g, kd, _⟩ := step_frame sb h.1
  exact ⟨g, kd.trans h.2⟩

theorem run_regular {k : Kind} (n : Nat) {sb : State} (h : Regular k sb) :
    Regular k (Z80.run .hw n sb) := by
  induction n generalizing sb with
  | zero => exact h
  | succ n ih => exact ih (step_regular h)

/-- **An instruction never spans two frame ends.** -/
theorem crossed_le_one (sb : State) (hg : Good sb.2.ctl) : zxMachine.crossed sb ≤ 1 := by
  obtain ⟨_, _, h⟩ := step_frame sb hg
  show (zxMachine.step sb).2.ctl.passedFrames - sb.2.ctl.passedFrames ≤ 1
  omega

/-- the frame counter after a step is the counter before plus `crossed` (it never goes back) -/
theorem passedFrames_step (sb : State) (hg : Good sb.2.ctl) :
    (zxMachine.step sb).2.ctl.passedFrames = sb.2.ctl.passedFrames + zxMachine.crossed sb := by
  obtain ⟨_, _, h⟩ := step_frame sb hg
  show _ = _ + ((zxMachine.step sb).2.ctl.passedFrames - sb.2.ctl.passedFrames)
  omega

/-- a step passes a frame end exactly when the in-frame offset wraps around -/
theorem crossed_iff_wrap (sb : State) (hg : Good sb.2.ctl) :
    zxMachine.crossed sb = 1 ↔ (zxMachine.step sb).2.ctl.frameClocks < sb.2.ctl.frameClocks := by
  obtain ⟨_, _, h⟩ := step_frame sb hg
  have hL := C04Sys.frameLen_big sb.2.ctl.kind
  show (zxMachine.step sb).2.ctl.passedFrames - sb.2.ctl.passedFrames = 1 ↔ _
  omega

/-- **What `crossedSum` is on this machine**: the growth of the controller's frame counter. -/
theorem passedFrames_run (n : Nat) (sb : State) (hg : Good sb.2.ctl) :
    (Z80.run .hw n sb).2.ctl.passedFrames = sb.2.ctl.passedFrames + crossedSum zxMachine n sb := by
  induction n generalizing sb with
  | zero => rfl
  | succ n ih =>
    have h1 := passedFrames_step sb hg
    have h2 := ih (zxMachine.step sb) (step_frame sb hg).1
    show (Z80.run .hw n (zxMachine.step sb)).2.ctl.passedFrames = _
    rw [h2, h1, crossedSum]
    omega

/-- **The machine is `Timed`**: counting the in-frame offset in units of 4 T-states (both frame lengths
are multiples of 4), every step advances the clock by at least one unit, so a frame ends after at most
`L/4` = 17472 (48K) / 17727 (128K) calls of `cpu.emulate`; and no step passes two frame ends. -/
theorem zx_timed (k : Kind) :
    Timed zxMachine (k.specs.clocksFrame / 4) (fun sb => sb.2.ctl.frameClocks / 4) (Regular k) where
  inv_step _ h := step_regular h
  bound sb h := by
    have hin := h.1.inFrame
    rw [h.2] at hin
    have hd : k.specs.clocksFrame % 4 = 0 := by cases k <;> decide
    show sb.2.ctl.frameClocks / 4 < k.specs.clocksFrame / 4
    omega
  advance sb h := by
    obtain ⟨_, _, hc⟩ := step_frame sb h.1
    rw [h.2] at hc
    have hd : k.specs.clocksFrame % 4 = 0 := by cases k <;> decide
    show sb.2.ctl.frameClocks / 4 + 1 ≤ (zxMachine.step sb).2.ctl.frameClocks / 4 +
      k.specs.clocksFrame / 4 * ((zxMachine.step sb).2.ctl.passedFrames - sb.2.ctl.passedFrames)
    rcases hc with ⟨e, lo, _⟩ | ⟨e, lo, _⟩
    · rw [e, Nat.sub_self, Nat.mul_zero]; omega
    · rw [e, Nat.add_sub_cancel_left, Nat.mul_one]; omega
  crossed_le sb h := crossed_le_one sb h.1

/-- after reset the machine is regular, on either model, with or without joystick/mouse … -/
theorem regular_new (k : Kind) (ke mo : Bool) (s : Cpu) : Regular k (s, ZX.new k ke mo) := by
  cases k
  · exact ⟨C04Sys.good_new .k48, rfl⟩
  · exact ⟨C04Sys.good_new .k128, rfl⟩

/-- … and stays so whatever program runs for however long -/
theorem regular_after_program (k : Kind) (ke mo : Bool) (n : Nat) (s : Cpu) :
    Regular k (Z80.run .hw n (s, ZX.new k ke mo)) :=
  run_regular n (regular_new k ke mo s)

/-! ### The loop theorems of C16 on the concrete machine -/

/-- One call of `emulate_frames` on the composed machine — whatever mode, time limit, stopwatch
readings, breakpoints — leaves it in the state `Z80.run .hw j` of the state it found, `j` = the number
of `cpu.emulate` calls it made (`j ≥ 1` unless the model ran out of fuel). -/
theorem zx_call_advances_trajectory (c : Call State) (fuel : Nat) (sb : State) (sw : List Nat) :
    (emulateFrames zxMachine c fuel sb sw).m
        = Z80.run .hw (emulateFrames zxMachine c fuel sb sw).steps sb
      ∧ ((emulateFrames zxMachine c fuel sb sw).reason ≠ .outOfFuel →
          1 ≤ (emulateFrames zxMachine c fuel sb sw).steps) := by
  have h := C16.call_advances_trajectory zxMachine c fuel sb sw
  rw [iter_is_run] at h
  exact h

/-- any list of calls leaves the machine on its own trajectory, as many instructions along as the calls
executed together -/
theorem zx_driving_on_trajectory (cs : List (CallSpec State)) (s0 : State) :
    finalOf s0 (drive zxMachine cs s0) = Z80.run .hw (totalSteps (drive zxMachine cs s0)) s0 := by
  rw [drive_traj, iter_is_run]

/-- A call that ends `Completed` (`FrameCount(n)`, `n ≥ 1`) or `Timeout` (`Max`) stops at the first
instruction boundary after a frame end: its last instruction is the one during which the frame counter
went up, and the machine is less than 560 T-states into the new frame. -/
theorem zx_call_stops_at_boundary (c : Call State) (fuel : Nat) (sb : State) (hg : Good sb.2.ctl)
    (sw : List Nat) (hb : AtBoundary c.mode (emulateFrames zxMachine c fuel sb sw).reason) :
    ∃ j', (emulateFrames zxMachine c fuel sb sw).steps = j' + 1
      ∧ (emulateFrames zxMachine c fuel sb sw).m.2.ctl.passedFrames
          = (Z80.run .hw j' sb).2.ctl.passedFrames + 1
      ∧ (emulateFrames zxMachine c fuel sb sw).m.2.ctl.frameClocks < 560 := by
  obtain ⟨j', hj, hc⟩ := C16.call_stops_at_boundary zxMachine c fuel sb sw hb
  refine ⟨j', hj, ?_⟩
  rw [(zx_call_advances_trajectory c fuel sb sw).1, hj]
  rw [iter_is_run] at hc
  have hg' : Good (Z80.run .hw j' sb).2.ctl := (run_regular j' (k := sb.2.ctl.kind) ⟨hg, rfl⟩).1
  obtain ⟨_, _, hf⟩ := step_frame _ hg'
  have hin := hg'.inFrame
  have e : Z80.run .hw (j' + 1) sb = zxMachine.step (Z80.run .hw j' sb) := by
    rw [run_add]; rfl
  have hc' : 1 ≤ (zxMachine.step (Z80.run .hw j' sb)).2.ctl.passedFrames
      - (Z80.run .hw j' sb).2.ctl.passedFrames := hc
  rw [e]
  omega

/-- In `FrameCount` mode the counter the call reports (`frames_count()` on return) is the number of
frame ends the machine passed during the call. -/
theorem zx_frames_accounting_frameCount (c : Call State) (n : Nat) (hmode : c.mode = .frameCount n)
    (fuel : Nat) (sb : State) (hg : Good sb.2.ctl) (sw : List Nat) :
    (emulateFrames zxMachine c fuel sb sw).m.2.ctl.passedFrames
      = sb.2.ctl.passedFrames + (emulateFrames zxMachine c fuel sb sw).passed := by
  rw [C16.frames_accounting_frameCount zxMachine c n hmode fuel sb sw,
    (zx_call_advances_trajectory c fuel sb sw).1]
  exact passedFrames_run _ sb hg

/-- In `Max` mode the host can count the frames of a call on its stopwatch: a `Timeout` return has
read it once per frame end passed plus once; a `Breakpoint` return once per accounted frame plus once,
the frame possibly passed by the very last instruction still being in `frames_count()`. Needs
`crossed ≤ 1` only along the trajectory, where it is proved. -/
theorem zx_frames_accounting_max (c : Call State) (hmode : c.mode = .max) (fuel : Nat) (sb : State)
    (hg : Good sb.2.ctl) (sw : List Nat) :
    ((emulateFrames zxMachine c fuel sb sw).reason = .timeout →
        sb.2.ctl.passedFrames + (emulateFrames zxMachine c fuel sb sw).measures
          = (emulateFrames zxMachine c fuel sb sw).m.2.ctl.passedFrames + 1)
    ∧ ((emulateFrames zxMachine c fuel sb sw).reason = .breakpoint →
        sb.2.ctl.passedFrames + (emulateFrames zxMachine c fuel sb sw).measures
            + (emulateFrames zxMachine c fuel sb sw).passed
          = (emulateFrames zxMachine c fuel sb sw).m.2.ctl.passedFrames + 1) := by
  obtain ⟨j, e1, e2, e3⟩ := DrivingSys.run_max_measures_inv zxMachine c hmode (fun m => Good m.2.ctl)
    (fun m h => (step_frame m h).1) crossed_le_one fuel sb sw 0 0 hg
  have ht := (zx_call_advances_trajectory c fuel sb sw).1
  have hp := passedFrames_run (emulateFrames zxMachine c fuel sb sw).steps sb hg
  rw [ht, hp]
  unfold emulateFrames at *
  rw [e1]
  simp only [Nat.zero_add] at e2 e3 ⊢
  exact ⟨fun h => by rw [e2 h]; omega, fun h => by have := e3 h; omega⟩

/-- **Slicing is irrelevant, on the composed machine.** Start in a regular state `s0` (e.g. reset).
Drive the machine by any list of `emulate_frames` calls — any modes `FrameCount(n)`/`Max`, time limits,
stopwatch readings, breakpoint stops and resumes, even calls that ran out of fuel — followed by a call
that ends at a frame boundary (`Completed` with `n ≥ 1`, or `Timeout`). If the frame counter has grown by
`K` in total, the machine is exactly in the state `runToFrame K s0`: the state reached by executing
instructions from `s0` until `K` frame ends have passed, in which no call structure appears. -/
theorem zx_slicing_irrelevant (s0 : State) (hg : Good s0.2.ctl) (pre : List (CallSpec State))
    (last : CallSpec State) (K fuel : Nat)
    (hb : AtBoundary last.call.mode
      (emulateFrames zxMachine last.call last.fuel (finalOf s0 (drive zxMachine pre s0)) last.sw).reason)
    (hK : (finalOf s0 (drive zxMachine (pre ++ [last]) s0)).2.ctl.passedFrames
        = s0.2.ctl.passedFrames + K)
    (hfuel : totalSteps (drive zxMachine (pre ++ [last]) s0) ≤ fuel) :
    runToFrame zxMachine fuel K s0 = some (finalOf s0 (drive zxMachine (pre ++ [last]) s0)) := by
  apply C16.slicing_irrelevant zxMachine s0 pre last K fuel hb _ hfuel
  rw [zx_driving_on_trajectory, passedFrames_run _ s0 hg] at hK
  omega

/-- **Two hosts, two completely different drivings of the composed machine from the same regular
state**: if both end at a frame boundary and the frame counters agree, the machines are in the same
state — registers, all of memory, paging, clock, keyboard/AY/ULA latches and the ghost logs. -/
theorem zx_drivings_agree (s0 : State) (hg : Good s0.2.ctl) (pre pre' : List (CallSpec State))
    (last last' : CallSpec State)
    (hb : AtBoundary last.call.mode
      (emulateFrames zxMachine last.call last.fuel (finalOf s0 (drive zxMachine pre s0)) last.sw).reason)
    (hb' : AtBoundary last'.call.mode
      (emulateFrames zxMachine last'.call last'.fuel (finalOf s0 (drive zxMachine pre' s0)) last'.sw).reason)
    (hK : (finalOf s0 (drive zxMachine (pre ++ [last]) s0)).2.ctl.passedFrames
        = (finalOf s0 (drive zxMachine (pre' ++ [last']) s0)).2.ctl.passedFrames) :
    finalOf s0 (drive zxMachine (pre ++ [last]) s0) = finalOf s0 (drive zxMachine (pre' ++ [last']) s0) := by
  apply C16.drivings_agree zxMachine s0 pre pre' last last' hb hb'
  rw [zx_driving_on_trajectory, zx_driving_on_trajectory, passedFrames_run _ s0 hg,
    passedFrames_run _ s0 hg] at hK
  omega

/-- **The loop never runs out of fuel — the Rust loop terminates — in `FrameCount(n)` mode**: from a
regular state of a machine of kind `k`, `n · L/4` iterations suffice (`L/4` = 17472 on the 48K, 17727
on the 128K: every instruction takes at least 4 T-states). -/
theorem zx_fuel_suffices_frameCount (k : Kind) (c : Call State) (n : Nat)
    (hmode : c.mode = .frameCount n) (sb : State) (hr : Regular k sb) (sw : List Nat) (fuel : Nat)
    (h1 : 1 ≤ fuel) (hf : n * (k.specs.clocksFrame / 4) ≤ fuel) :
    (emulateFrames zxMachine c fuel sb sw).reason ≠ .outOfFuel :=
  C16.fuel_suffices_frameCount zxMachine c n _ _ _ (zx_timed k) hmode sb hr sw fuel h1 hf

/-- … and in `Max` mode as soon as the host's stopwatch eventually (at its `j`-th reading) exceeds the
time limit: `(j+1) · L/4` iterations. -/
theorem zx_fuel_suffices_max (k : Kind) (c : Call State) (hmode : c.mode = .max) (sb : State)
    (hr : Regular k sb) (sw : List Nat) (j t : Nat) (hj : sw[j]? = some t) (hl : c.limit < t)
    (fuel : Nat) (hf : (j + 1) * (k.specs.clocksFrame / 4) ≤ fuel) :
    (emulateFrames zxMachine c fuel sb sw).reason ≠ .outOfFuel :=
  C16.fuel_suffices_max zxMachine c _ _ _ (zx_timed k) hmode sb hr sw j t hj hl fuel hf

/-- **The state at frame boundary `K` exists** for every `K` and every program: from a regular state,
executing instructions until `K` frame ends have passed takes at most `K · L/4` instructions — the
right-hand side of `zx_slicing_irrelevant` is defined without reference to any driving. -/
theorem zx_frame_boundary_exists (k : Kind) (s0 : State) (hr : Regular k s0) (K fuel : Nat)
    (hf : K * (k.specs.clocksFrame / 4) ≤ fuel) :
    ∃ s, runToFrame zxMachine fuel K s0 = some s :=
  DrivingSys.runToFrame_total zxMachine _ _ _ (zx_timed k) fuel K s0 hr (by omega)

/-! ### non-vacuity -/

/-- a 48K machine 8 T-states before the end of a frame, with the program
`8000: INC A ; 8001: JR 8000` in (uncontended) RAM -/
def demoZX : ZX :=
  { ZX.new .k48 false false with
    ctl := { Ctl.new .k48 with
      frameClocks := 69880
      mem := { Mem.new .k48 with
        ram := fun p o => if p = 1 then (if o = 0 then 0x3C else if o = 1 then 0x18 else if o = 2 then 0xFD else 0)
                          else 0 } } }

def demo : State := ({ pc := 0x8000 }, demoZX)

/-- the start state is regular -/
example : Regular .k48 demo := ⟨⟨by decide, Or.inl ⟨rfl, rfl, rfl⟩⟩, rfl⟩

/-- `INC A` (4 T) stays inside the frame, `JR` (12 T) passes its end: offset 69884 + 12 − 69888 = 8 -/
example : zxMachine.crossed demo = 0 ∧ zxMachine.crossed (zxMachine.step demo) = 1 ∧
    (Z80.run .hw 2 demo).2.ctl.frameClocks = 8 ∧ (Z80.run .hw 2 demo).1.a = 1 := by decide

/-- host A: one call `FrameCount(1)` -/
def hostA : CallSpec State := ⟨⟨.frameCount 1, 0, fun _ _ => false⟩, [], 10⟩
/-- host B: a debugger that stops after every instruction (`FrameCount(1)`, breakpoint after one step),
then `Max` with a time limit of 5 against a stopwatch that reads 9 -/
def hostB1 : CallSpec State := ⟨⟨.frameCount 1, 0, fun _ _ => true⟩, [], 10⟩
def hostB2 : CallSpec State := ⟨⟨.max, 5, fun _ _ => false⟩, [9, 9], 10⟩

/-- the hypotheses of `zx_drivings_agree` hold for these two hosts: A completes after two
instructions, B stops at a breakpoint after one and times out after the second; both frame counters
read 1 … -/
example :
    ((drive zxMachine [hostA] demo).map (·.reason)) = [.completed] ∧
    ((drive zxMachine [hostB1, hostB2] demo).map (·.reason)) = [.breakpoint, .timeout] ∧
    (finalOf demo (drive zxMachine ([] ++ [hostA]) demo)).2.ctl.passedFrames = 1 ∧
    (finalOf demo (drive zxMachine ([hostB1] ++ [hostB2]) demo)).2.ctl.passedFrames = 1 := by decide

/-- … hence the two machines are in the same state (all of memory and the logs included: an equation
that cannot be tested, only proved), and it is `runToFrame 1` -/
example :
    finalOf demo (drive zxMachine ([] ++ [hostA]) demo)
        = finalOf demo (drive zxMachine ([hostB1] ++ [hostB2]) demo) ∧
    runToFrame zxMachine 10 1 demo = some (finalOf demo (drive zxMachine ([hostB1] ++ [hostB2]) demo)) := by
  have hgd : Good demo.2.ctl := ⟨by decide, Or.inl ⟨rfl, rfl, rfl⟩⟩
  have hbA : AtBoundary hostA.call.mode
      (emulateFrames zxMachine hostA.call hostA.fuel (finalOf demo (drive zxMachine [] demo)) hostA.sw).reason :=
    Or.inr ⟨1, rfl, Nat.le_refl 1, by decide⟩
  have hbB : AtBoundary hostB2.call.mode
      (emulateFrames zxMachine hostB2.call hostB2.fuel (finalOf demo (drive zxMachine [hostB1] demo)) hostB2.sw).reason :=
    Or.inl ⟨rfl, by decide⟩
  exact ⟨zx_drivings_agree demo hgd [] [hostB1] hostA hostB2 hbA hbB (by decide),
    zx_slicing_irrelevant demo hgd [hostB1] hostB2 1 10 hbB (by decide) (by decide)⟩

/-- the fuel theorems apply to every program from reset: e.g. `FrameCount(3)` on a 48K needs at most
3 · 17472 iterations, whatever is in memory -/
example (s : Cpu) (c : Call State) (hmode : c.mode = .frameCount 3) (sw : List Nat) :
    (emulateFrames zxMachine c 52416 (s, ZX.new .k48 true false) sw).reason ≠ .outOfFuel :=
  zx_fuel_suffices_frameCount .k48 c 3 hmode _ (regular_new .k48 true false s) sw 52416 (by decide) (by decide)

end ZxVerif.C16Sys
