/-
C16 — theorems over the host loop *translated from the Rust source on every run* (tools/extract.py, table
HostLoop → ZxVerif/Extracted/HostLoop.lean): `Emulator::emulate_frames` statement by statement — the stopwatch
creation, the frame loop with its `reset_frame_counter()` call, the `'cpu` loop (`cpu.emulate`, the error
test, `take_events`, the event tests in source order, the `match self.mode` with the stop test of each mode),
the time-out test after the `'cpu` loop, what each `return` builds — as *data* (ordered lists of classified
statements; every test with its operands and comparison operator as written), together with a small
interpreter over an abstract emulator; and `have_sound` / `set_speed`.

What the source text says now is the loop the model `Model/Driving.lean` runs: the interpreter over the
extracted statements, on the calls of any abstract machine and any host (mode, time limit, stopwatch
readings, breakpoints, fuel), returns exactly `Driving.emulateFrames` — state, stop reason, frame counter,
unread stopwatch readings, duration, number of `cpu.emulate` calls, number of stopwatch readings
(`src_call_is_model`). The stop conditions are pinned with their comparison (`frames_count() >= n`, strict
`measure() > limit`) and their edges, the order of the tests inside an iteration is pinned both as data and
by what it means (a breakpoint stop does not lose the fast load raised by the same instruction; an emulation
error returns before the events are taken), and the partition-independence theorems of Props/C16.lean are
restated about drivings that go through the extracted loop.

Helper definitions and the one new model fact: Lemmas/HostLoop.lean.
-/
import ZxVerif.Lemmas.HostLoop
import ZxVerif.Props.C16
set_option linter.unusedSimpArgs false
namespace ZxVerif.C16X
open ZxVerif.Driving ZxVerif.Driving.Spec ZxVerif.HostLoopL
open ZxVerif.Extracted
open ZxVerif.Extracted.HostLoop (World Ctx St Events Program Stmt Act Val Cmp Guarded Flow)

variable {M : Type}

/-! ### the shape of the loop, as data -/

/-- what kind of statement it is (the tests' operands and actions dropped) -/
inductive Kind | newStopwatch | resetFrameCounter | cpuEmulate | errorTest | takeEvents
  | eventTest (e : HostLoop.Event) | cmpTest | modeMatch
  deriving DecidableEq, Repr

def kind : Stmt → Kind
  | .newStopwatch => .newStopwatch
  | .resetFrameCounter => .resetFrameCounter
  | .cpuEmulate => .cpuEmulate
  | .takeEvents => .takeEvents
  | .ifError _ => .errorTest
  | .ifEvent _ e _ => .eventTest e
  | .ifCmp _ => .cmpTest
  | .matchMode _ _ => .modeMatch

/-- the two arms of the `match self.mode` of a statement list -/
def modeArms : List Stmt → Option (List Guarded × List Guarded)
  | [] => none
  | .matchMode fc mx :: _ => some (fc, mx)
  | _ :: xs => modeArms xs

/-- the stop test of `FrameCount(n)` in the source -/
def fcArm : List Guarded := ((modeArms HostLoop.cpuBody).getD ([], [])).1
/-- the test of `Max` in the source -/
def maxArm : List Guarded := ((modeArms HostLoop.cpuBody).getD ([], [])).2

/-- **Order of the statements.** One stopwatch, created once before the frame loop; the frame loop begins
with `reset_frame_counter()` and nothing else; an iteration of the `'cpu` loop is `cpu.emulate`, the error
test, `take_events`, the fast-load trigger test, the breakpoint test — in this order — and then the
`match` on the mode; after the `'cpu` loop there is the one time-out test. -/
theorem statement_order :
    HostLoop.prologue.map kind = [.newStopwatch] ∧
    HostLoop.frameHead.map kind = [.resetFrameCounter] ∧
    HostLoop.cpuBody.map kind =
      [.cpuEmulate, .errorTest, .takeEvents, .eventTest .fastLoadTrigger, .eventTest .pcBreakpoint, .modeMatch] ∧
    HostLoop.frameTail.map kind = [.cmpTest] := by
  decide

/-- **What each test does when it fires**, with the operands and operators as written: the error test
returns `Err(e)`; the trigger runs `process_fast_load_event()?`; the breakpoint, `FrameCount` and time-out
tests return an `EmulationInfo` whose duration is a fresh `stopwatch.measure()` and whose reason is
`Breakpoint` / `Completed` / `Timeout`; `FrameCount(frames)` stops on `frames_count() >= frames`; `Max`
leaves the `'cpu` loop on `frames_count() != 0` and times out on `stopwatch.measure() > emulation_limit`. -/
theorem tests_and_actions :
    HostLoop.cpuBody.filterMap (fun s => match s with
      | .ifError a => some a | .ifEvent _ _ a => some a | _ => none)
      = [.returnErr, .processFastLoad, .returnInfo .measure .breakpoint] ∧
    fcArm = [⟨.framesCount, .ge, .frames, .returnInfo .measure .completed⟩] ∧
    maxArm = [⟨.framesCount, .ne, .lit 0, .breakCpu⟩] ∧
    HostLoop.frameTail = [.ifCmp ⟨.measure, .gt, .limit, .returnInfo .measure .timeout⟩] := by
  decide

/-! ### the stop rules as decision functions, for all inputs -/

/-- **`FrameCount(n)`: `Completed` exactly when `frames_count() >= n`.** The extracted arm, run on any
emulator in any state: when the counter has reached `n` the call returns `Completed` with one stopwatch
reading as its duration; otherwise nothing happens (no reading) and the `'cpu` loop goes on. -/
theorem stop_rule_frameCount {S : Type} (w : World S) (limit n : Nat) (st : St S) :
    HostLoop.execGuards w limit n fcArm st =
      if n ≤ w.framesCount st.s then
        .ret { st with sw := (measure st.sw).2, measures := st.measures + 1 } .completed (measure st.sw).1
      else .next st := by
  by_cases h : n ≤ w.framesCount st.s <;>
    simp [fcArm, modeArms, HostLoop.cpuBody, HostLoop.execGuards, Guarded.exec, Val.eval, Cmp.eval, Act.exec,
      readStopwatch_eq, HostLoop.Reason.toStop, h]

/-- the comparison is `>=`, not `>`: at exactly `n` frames the call stops, one short of `n` it does not
(so `FrameCount(0)` "completes" after one instruction) -/
theorem stop_rule_frameCount_edge {S : Type} (w : World S) (limit n : Nat) (st : St S) :
    (w.framesCount st.s = n → ∃ st' d, HostLoop.execGuards w limit n fcArm st = .ret st' .completed d) ∧
    (w.framesCount st.s + 1 = n → HostLoop.execGuards w limit n fcArm st = .next st) := by
  rw [stop_rule_frameCount]
  constructor
  · intro h; rw [if_pos (by omega)]; exact ⟨_, _, rfl⟩
  · intro h; rw [if_neg (by omega)]

/-- **`Max`: the `'cpu` loop is left exactly when a frame has ended** (`frames_count() != 0`), without
reading the stopwatch; until then nothing happens. -/
theorem frame_end_rule_max {S : Type} (w : World S) (limit : Nat) (st : St S) :
    HostLoop.execGuards w limit 0 maxArm st = if w.framesCount st.s ≠ 0 then .brk st else .next st := by
  by_cases h : w.framesCount st.s = 0 <;>
    simp [maxArm, modeArms, HostLoop.cpuBody, HostLoop.execGuards, Guarded.exec, Val.eval, Cmp.eval, Act.exec, h]

/-- **`Max`: `Timeout` exactly when `stopwatch.measure() > emulation_limit`** (strict). The extracted tail
of the frame loop, on any emulator in any state: one reading is compared with the limit; when it is
larger the call returns `Timeout` and its duration is a *second* reading; otherwise the frame loop goes
round (having used one reading). -/
theorem stop_rule_max {S : Type} (w : World S) (c : Ctx) (st : St S) :
    HostLoop.execList w c HostLoop.frameTail st =
      if c.limit < (measure st.sw).1 then
        .ret { st with sw := (measure (measure st.sw).2).2, measures := st.measures + 1 + 1 } .timeout
          (measure (measure st.sw).2).1
      else .next { st with sw := (measure st.sw).2, measures := st.measures + 1 } := by
  by_cases h : c.limit < (measure st.sw).1 <;>
    simp [HostLoop.frameTail, HostLoop.execList, Stmt.exec, Guarded.exec, Val.eval, Cmp.eval, Act.exec,
      readStopwatch_eq, HostLoop.Reason.toStop, h]

/-- the comparison is strict: a reading equal to the limit does not stop the call, one more does -/
theorem stop_rule_max_edge {S : Type} (w : World S) (c : Ctx) (st : St S) (rest : List Nat) :
    (st.sw = c.limit :: rest → ∃ st', HostLoop.execList w c HostLoop.frameTail st = .next st') ∧
    (st.sw = (c.limit + 1) :: rest → ∃ st' d, HostLoop.execList w c HostLoop.frameTail st = .ret st' .timeout d) := by
  rw [stop_rule_max]
  constructor
  · intro h; rw [h, if_neg (by simp [Driving.measure])]; exact ⟨_, rfl⟩
  · intro h; rw [h, if_pos (by simp [Driving.measure])]; exact ⟨_, _, rfl⟩

/-! ### the order of the tests, by what it means -/

/-- **An emulation error returns at once.** On any emulator: when `cpu.emulate` leaves an error, the
iteration returns `Err` with the emulator as `take_last_emulation_error()` left it — the events are not
taken, no fast load runs, the stopwatch is not read. -/
theorem error_returns_before_events {S : Type} (w : World S) (c : Ctx) (st : St S)
    (he : (w.takeError (w.emulate st.s)).1 = true) :
    HostLoop.execList w c HostLoop.cpuBody st =
      .ret { st with s := (w.takeError (w.emulate st.s)).2, emulates := st.emulates + 1 } .error 0 := by
  simp [HostLoop.cpuBody, HostLoop.execList, Stmt.exec, Act.exec, he]

/-- **Fast load before breakpoint.** On any emulator: when the instruction raised both the fast-load trigger
and a breakpoint (and the fast load succeeds), the call stops with `Breakpoint` *after*
`process_fast_load_event` has run: the state the host finds is the one the fast loader left, and the
duration is one stopwatch reading. (With the tests in the other order the block would be lost.) -/
theorem fast_load_before_breakpoint {S : Type} (w : World S) (c : Ctx) (st : St S)
    (he : (w.takeError (w.emulate st.s)).1 = false)
    (hev : (w.takeEvents (w.takeError (w.emulate st.s)).2).1 = ⟨true, true⟩)
    (hf : (w.fastLoad (w.takeEvents (w.takeError (w.emulate st.s)).2).2).1 = false) :
    HostLoop.execList w c HostLoop.cpuBody st =
      .ret { s := (w.fastLoad (w.takeEvents (w.takeError (w.emulate st.s)).2).2).2, events := ⟨true, true⟩,
             sw := (measure st.sw).2, measures := st.measures + 1, emulates := st.emulates + 1 }
        .breakpoint (measure st.sw).1 := by
  simp [HostLoop.cpuBody, HostLoop.execList, Stmt.exec, Act.exec, Val.eval, Events.isEmpty, Events.contains,
    readStopwatch_eq, HostLoop.Reason.toStop, he, hev, hf]

/-- … and a failing fast load returns its error: the breakpoint raised by the same instruction is not
reported and the stopwatch is not read -/
theorem fast_load_error_wins {S : Type} (w : World S) (c : Ctx) (st : St S)
    (he : (w.takeError (w.emulate st.s)).1 = false)
    (hev : ((w.takeEvents (w.takeError (w.emulate st.s)).2).1).fastLoadTrigger = true)
    (hf : (w.fastLoad (w.takeEvents (w.takeError (w.emulate st.s)).2).2).1 = true) :
    ∃ st', HostLoop.execList w c HostLoop.cpuBody st = .ret st' .error 0 ∧ st'.measures = st.measures := by
  simp [HostLoop.cpuBody, HostLoop.execList, Stmt.exec, Act.exec, Events.isEmpty, Events.contains, he, hev, hf]

/-! ### the extracted loop is the model's loop -/

/-- **The `'cpu` / frame loops of the source are the model's `run`**, for every machine (resolved into
the calls the source makes: `Fine`), every host (mode, time limit, breakpoint oracle), every fuel, machine
state, frame counter, stopwatch script and counters: the interpreter over the extracted statements and
`Driving.run` return the same state, stop reason, `frames_count()`, unread readings, duration, number of
`cpu.emulate` calls and number of stopwatch readings. A changed comparison, constant, action or order of
statements in `emulate_frames` that changes any of these for some input makes this theorem false. -/
theorem src_loop_is_model (f : Fine M) (c : Call M) (script : List Nat) :
    ∀ (fuel : Nat) (m prev : M) (passed : Nat) (sw : List Nat) (steps ms : Nat) (ev : Events),
      toResult (HostLoop.program.loop (worldOf f c) (ctxOf c script) fuel
          ⟨⟨m, prev, passed, steps⟩, ev, sw, ms, steps⟩)
        = run f.toMachine c fuel m passed sw steps ms := by
  intro fuel
  induction fuel with
  | zero => intros; rfl
  | succ fuel ih =>
    intro m prev passed sw steps ms ev
    rw [run, Program.loop]
    have hstep : f.toMachine.step m =
        if f.emuErr m then f.emulate m else if f.trig m then f.fastLoad (f.emulate m) else f.emulate m := rfl
    have herr : f.toMachine.err m = (f.emuErr m || (f.trig m && f.fastErr (f.emulate m))) := rfl
    have hcr : f.toMachine.crossed m = f.crossed m := rfl
    rw [herr, hcr]
    cases he : f.emuErr m <;> cases ht : f.trig m <;>
      cases hf : f.fastErr (f.emulate m) <;>
      cases hb : c.bp steps (f.toMachine.step m) <;>
      simp [HostLoop.cpuBody, HostLoop.execList, Stmt.exec,
        Act.exec, Val.eval, Events.isEmpty, Events.contains,
        readStopwatch_eq, toResult, ofStop, HostLoop.Reason.toStop, he, ht, hf, hb, hstep] <;>
      simp [hstep, he, ht] at hb <;> simp [hb]
    all_goals
      cases hm : c.mode with
      | frameCount n =>
        by_cases hn : n ≤ passed + f.crossed m <;>
          simp [HostLoop.execGuards, Guarded.exec, Val.eval, Cmp.eval, Act.exec, readStopwatch_eq, ofMode,
            HostLoop.Reason.toStop, hm, hn, hb, hstep, he, ht] <;> exact ih _ _ _ _ _ _ _
      | max =>
        by_cases hz : passed + f.crossed m = 0
        · obtain ⟨hp, hc⟩ : passed = 0 ∧ f.crossed m = 0 := by omega
          subst hp
          simp [HostLoop.execGuards, Guarded.exec, Val.eval, Cmp.eval, Act.exec, ofMode, hm, hc, hb, hstep, he, ht]
          exact ih _ _ _ _ _ _ _
        · have hz' : passed = 0 → ¬f.crossed m = 0 := by omega
          by_cases hl : c.limit < (Driving.measure sw).1 <;>
            simp [HostLoop.execGuards, Guarded.exec, Val.eval, Cmp.eval, Act.exec, readStopwatch_eq, ofMode,
              HostLoop.frameTail, HostLoop.frameHead, HostLoop.execList, Stmt.exec,
              HostLoop.Reason.toStop, hm, hz, hl, hb, hstep, he, ht, -Nat.add_eq_zero_iff]
          · intro h1 h2; omega
          · rw [if_pos hz']; exact ih _ _ _ _ _ _ _

/-- one call of the *source's* `emulate_frames` (the extracted program under the interpreter) on machine
`f`, by host `c`, from machine state `m` with the controller's frame counter at `p0` (whatever the previous
call left there), with a stopwatch that will read `sw` -/
def srcCall (f : Fine M) (c : Call M) (fuel : Nat) (m : M) (p0 : Nat) (sw : List Nat) : Result M :=
  toResult (HostLoop.program.run (worldOf f c) (ctxOf c sw) fuel ⟨m, m, p0, 0⟩)

/-- **One call of the source's `emulate_frames` is one call of the model's**, everything observable
included — for every machine, host, fuel, state, stopwatch script, and whatever the frame counter was
before the call. -/
theorem src_call_is_model (f : Fine M) (c : Call M) (fuel : Nat) (m : M) (p0 : Nat) (sw : List Nat) :
    srcCall f c fuel m p0 sw = emulateFrames f.toMachine c fuel m sw := by
  unfold srcCall emulateFrames Program.run
  simp only [prog_prologue, prog_frameHead, HostLoop.prologue, HostLoop.frameHead, HostLoop.execList, Stmt.exec,
    ctx_script, w_reset]
  exact src_loop_is_model f c sw fuel m m 0 sw 0 0 _

/-- **The frame counter is reset on entry**: the head of the frame loop is `reset_frame_counter()`, so a
call does not depend on the count the previous call left — in particular `FrameCount(n)` always runs `n`
*new* frames and the count reported on return is this call's. -/
theorem counter_reset_on_entry (f : Fine M) (c : Call M) (fuel : Nat) (m : M) (p0 p1 : Nat) (sw : List Nat) :
    HostLoop.frameHead = [.resetFrameCounter] ∧ srcCall f c fuel m p0 sw = srcCall f c fuel m p1 sw := by
  refine ⟨by decide, ?_⟩
  rw [src_call_is_model, src_call_is_model]

/-- **A fresh stopwatch per call**: `emulate_frames` creates its stopwatch before the frame loop and nowhere
else, so the durations a call reports and compares are readings of *its own* stopwatch, in order: the
`k`-th reading taken is the `k`-th entry of the script (`measures` counts them, `sw` is what is left). -/
theorem stopwatch_is_per_call (f : Fine M) (c : Call M) (fuel : Nat) (m : M) (p0 : Nat) (sw : List Nat) :
    HostLoop.prologue = [.newStopwatch] ∧
    (srcCall f c fuel m p0 sw).sw = (emulateFrames f.toMachine c fuel m sw).sw ∧
    (srcCall f c fuel m p0 sw).measures = (emulateFrames f.toMachine c fuel m sw).measures := by
  refine ⟨by decide, ?_, ?_⟩ <;> rw [src_call_is_model]

/-! ### when the stopwatch is read -/

/-- **`FrameCount(n)`: the stopwatch is read once, at the end.** A call of the source's loop in
`FrameCount` mode that returns an `EmulationInfo` (`Completed`, `Breakpoint`) has read its stopwatch
exactly once — the reading it reports as duration; a call that ends in `Err` has not read it; `Timeout`
does not occur. -/
theorem stopwatch_reads_frameCount (f : Fine M) (c : Call M) (n : Nat) (hmode : c.mode = .frameCount n)
    (fuel : Nat) (m : M) (p0 : Nat) (sw : List Nat) :
    ((srcCall f c fuel m p0 sw).reason = .completed ∨ (srcCall f c fuel m p0 sw).reason = .breakpoint →
        (srcCall f c fuel m p0 sw).measures = 1 ∧ (srcCall f c fuel m p0 sw).duration = (measure sw).1) ∧
    ((srcCall f c fuel m p0 sw).reason = .error → (srcCall f c fuel m p0 sw).measures = 0) ∧
    (srcCall f c fuel m p0 sw).reason ≠ .timeout := by
  rw [src_call_is_model]
  unfold emulateFrames
  obtain ⟨h1, h2, h3⟩ := run_frameCount_measures f.toMachine c n hmode fuel m 0 sw 0 0
  refine ⟨fun h => ?_, fun h => ?_, h3⟩
  · obtain ⟨a, _, b⟩ := h1 h
    exact ⟨by simpa using a, b⟩
  · exact (h2 (Or.inl h)).1

/-- **`Max`: the stopwatch is read at frame ends only** — once per frame that ended, plus the reading
reported as duration (`C16.frames_accounting_max`, restated about the source's loop; instructions shorter
than a frame). -/
theorem stopwatch_reads_max (f : Fine M) (c : Call M) (hmode : c.mode = .max) (h1 : ∀ m, f.crossed m ≤ 1)
    (fuel : Nat) (m : M) (p0 : Nat) (sw : List Nat) :
    ((srcCall f c fuel m p0 sw).reason = .timeout →
        (srcCall f c fuel m p0 sw).measures
          = crossedSum f.toMachine (srcCall f c fuel m p0 sw).steps m + 1) ∧
    ((srcCall f c fuel m p0 sw).reason = .breakpoint →
        (srcCall f c fuel m p0 sw).measures + (srcCall f c fuel m p0 sw).passed
          = crossedSum f.toMachine (srcCall f c fuel m p0 sw).steps m + 1) := by
  rw [src_call_is_model]
  exact C16.frames_accounting_max f.toMachine c hmode h1 fuel m sw

/-! ### C16's theorems, about drivings through the source's loop -/

/-- a driving through the source's loop: consecutive calls, each starting from the machine state *and the
frame counter* the previous one left -/
def srcDrive (f : Fine M) : List (CallSpec M) → M → Nat → List (Result M)
  | [], _, _ => []
  | c :: cs, m, p =>
    let r := srcCall f c.call c.fuel m p c.sw
    r :: srcDrive f cs r.m r.passed

/-- a driving through the source's loop is the model's driving, call by call -/
theorem src_drive_is_model (f : Fine M) (cs : List (CallSpec M)) (m : M) (p : Nat) :
    srcDrive f cs m p = drive f.toMachine cs m := by
  induction cs generalizing m p with
  | nil => rfl
  | cons c cs ih =>
    simp only [srcDrive, drive, src_call_is_model]
    rw [ih]

/-- **Slicing is irrelevant — for the loop as written in the source.** Any earlier calls `pre` (any modes,
limits, stopwatch readings, breakpoint stops, failures) followed by a call that stops by the *extracted*
stop rule at a frame boundary (`Completed` by `frames_count() >= n` with `n ≥ 1`, or `Timeout` by
`measure() > limit`): if `K` frame ends were passed in all, the machine is in the state `runToFrame K s0`,
in which no call structure appears. -/
theorem src_slicing_irrelevant (f : Fine M) (s0 : M) (p0 : Nat) (pre : List (CallSpec M))
    (last : CallSpec M) (K fuel : Nat)
    (hb : AtBoundary last.call.mode
      (srcCall f last.call last.fuel (finalOf s0 (srcDrive f pre s0 p0))
        ((srcDrive f pre s0 p0).getLast?.elim p0 (·.passed)) last.sw).reason)
    (hK : K = crossedSum f.toMachine (totalSteps (srcDrive f (pre ++ [last]) s0 p0)) s0)
    (hfuel : totalSteps (srcDrive f (pre ++ [last]) s0 p0) ≤ fuel) :
    runToFrame f.toMachine fuel K s0 = some (finalOf s0 (srcDrive f (pre ++ [last]) s0 p0)) := by
  simp only [src_drive_is_model, src_call_is_model] at hb hK hfuel ⊢
  exact C16.slicing_irrelevant f.toMachine s0 pre last K fuel hb hK hfuel

/-- **Two hosts, two drivings through the source's loop**, from the same machine state (and any two frame
counter values): if both end at a frame boundary having passed the same number of frames, the machines
are in the same state. -/
theorem src_drivings_agree (f : Fine M) (s0 : M) (p0 p0' : Nat) (pre pre' : List (CallSpec M))
    (last last' : CallSpec M)
    (hb : AtBoundary last.call.mode
      (emulateFrames f.toMachine last.call last.fuel (finalOf s0 (srcDrive f pre s0 p0)) last.sw).reason)
    (hb' : AtBoundary last'.call.mode
      (emulateFrames f.toMachine last'.call last'.fuel (finalOf s0 (srcDrive f pre' s0 p0')) last'.sw).reason)
    (hK : crossedSum f.toMachine (totalSteps (srcDrive f (pre ++ [last]) s0 p0)) s0
        = crossedSum f.toMachine (totalSteps (srcDrive f (pre' ++ [last']) s0 p0')) s0) :
    finalOf s0 (srcDrive f (pre ++ [last]) s0 p0) = finalOf s0 (srcDrive f (pre' ++ [last']) s0 p0') := by
  simp only [src_drive_is_model] at hb hb' hK ⊢
  exact C16.drivings_agree f.toMachine s0 pre pre' last last' hb hb' hK

/-- … and for every machine of the loop model as it stands (`Driving.Machine`, fast loading inside its
`step`): a driving through the source's loop is `Driving.drive`, so every theorem of Props/C16.lean and
Props/C16Sys.lean about `drive` is a theorem about the loop in emulator/mod.rs. -/
theorem src_drive_every_machine (mc : Machine M) (cs : List (CallSpec M)) (m : M) (p : Nat) :
    srcDrive (Fine.ofMachine mc) cs m p = drive mc cs m := by
  rw [src_drive_is_model, Fine.ofMachine_toMachine]

/-- a call through the source's loop stops at the first instruction boundary at or after a frame boundary
whenever it stops by one of the two frame rules (`C16.call_stops_at_boundary`, for the source's loop) -/
theorem src_call_stops_at_boundary (f : Fine M) (c : Call M) (fuel : Nat) (m : M) (p0 : Nat) (sw : List Nat)
    (hb : AtBoundary c.mode (srcCall f c fuel m p0 sw).reason) :
    ∃ j', (srcCall f c fuel m p0 sw).steps = j' + 1 ∧ 1 ≤ f.crossed (iter f.toMachine.step j' m) := by
  rw [src_call_is_model] at hb ⊢
  exact C16.call_stops_at_boundary f.toMachine c fuel m sw hb

/-! ### `have_sound`, `set_speed` -/

/-- **Sound only at normal speed**: `have_sound()` is true exactly when the mode is `FrameCount(1)` and
sound is enabled — never in `Max` mode, never when several frames are emulated per call. -/
theorem have_sound_iff (e : HostLoop.HostFlags) :
    HostLoop.haveSound e = true ↔ e.mode = .frameCount 1 ∧ e.sound_enabled = true := by
  unfold HostLoop.haveSound HostLoop.haveSoundPattern
  by_cases h : e.mode = .frameCount 1 <;> simp [h]

/-- `set_speed` stores its argument as the mode and touches nothing else; so switching to `Max` or to
`FrameCount(n)`, `n ≠ 1`, silences `have_sound()` and switching back to `FrameCount(1)` restores it -/
theorem set_speed_stores_mode (e : HostLoop.HostFlags) (mode : HostLoop.Mode) :
    (HostLoop.setSpeed e mode).mode = mode ∧ (HostLoop.setSpeed e mode).sound_enabled = e.sound_enabled ∧
    HostLoop.haveSound (HostLoop.setSpeed e .max) = false ∧
    HostLoop.haveSound (HostLoop.setSpeed e (.frameCount 1)) = e.sound_enabled := by
  simp [HostLoop.setSpeed, HostLoop.haveSound, HostLoop.haveSoundPattern]

/-! ### non-vacuity -/

/-- the toy machine of Props/C16.lean through the source's loop: `FrameCount(2)` stopped by a breakpoint,
resumed, then `Max` for two frames (readings 1, 9 against limit 5) — stop reasons, and four frames in all -/
example :
    let pre : List (CallSpec Toy) :=
      [⟨⟨.frameCount 2, 0, fun _ m => m.idx == 1⟩, [], 100⟩, ⟨⟨.frameCount 2, 0, fun _ _ => false⟩, [], 100⟩]
    let last : CallSpec Toy := ⟨⟨.max, 5, fun _ _ => false⟩, [1, 9, 9], 100⟩
    ((srcDrive (Fine.ofMachine toy) (pre ++ [last]) ⟨0, 0⟩ 7).map (·.reason)) = [.breakpoint, .completed, .timeout]
      ∧ ((srcDrive (Fine.ofMachine toy) (pre ++ [last]) ⟨0, 0⟩ 7).map (·.measures)) = [1, 1, 3] := by
  decide

end ZxVerif.C16X
