/-
C17 — Input ports reflect exactly the controls held, for every event history.

Only property theorems live here (helper lemmas: ZxVerif/Lemmas/Input.lean, Bits.lean).
Model  : ZxVerif/Model/Input.lean  (transcription of keys.rs, sinclair.rs, kempston.rs,
         mouse/kempston.rs and the input parts of controller.rs)
Spec   : ZxVerif/Spec/Input.lean   (held-control sets, the property's own words)
All theorems quantify over *every* finite event history (`evs : List Event`), every selector
byte and both device configurations; nothing is bounded.
-/
import ZxVerif.Lemmas.Input
set_option linter.constructorNameAsVariable false
namespace ZxVerif.C17
open ZxVerif.Input ZxVerif.Bits

/-- reading `ofBits` back -/
theorem getLsbD_ofBits (f : Nat → Bool) (b : Nat) (hb : b < 8) : (Spec.ofBits f).getLsbD b = f b := by
  unfold Spec.ofBits
  rw [getLsbD_foldl_or _ _ _ _ (by intro n hn; simpa using hn)]
  simp [hb]

/-- **Main refinement.** With the key map the property prescribes, after any event history the
ULA port read of the model equals the held-set spec, for all 256 selector bytes and both EAR
levels: a half-row bit reads 0 exactly when some source holds a key at that position, selected
rows are AND-ed, bit 6 is EAR, bits 5 and 7 read 1. -/
theorem keyboard_refines_held_sets (ke mo : Bool) (evs : List Event) (sel : BitVec 8) (ear : Bool) :
    readUla (run Spec.sinclairMap (Kbd.init ke mo) evs) sel ear
      = Spec.readUla (Spec.Held.run {} evs) sel ear := by
  have hr := (Rel.init ke mo).run evs
  apply BitVec.eq_of_getLsbD_eq
  intro b hb
  rw [Spec.readUla, getLsbD_ofBits _ _ hb, Spec.readBit]
  have hrow := readRows_bit hr sel b hb
  unfold readUla
  by_cases h6 : b = 6
  · subst h6
    have hlow : Spec.bitLow (Spec.Held.run {} evs) sel 6 = false := by
      unfold Spec.bitLow Spec.cellHeld
      rw [range8]; simp [Spec.keyAt]
    rw [hlow] at hrow
    cases ear <;> simp [hrow]
  · have hx : (0x40#8).getLsbD b = false := by
      have : b = 0 ∨ b = 1 ∨ b = 2 ∨ b = 3 ∨ b = 4 ∨ b = 5 ∨ b = 7 := by omega
      rcases this with h | h | h | h | h | h | h <;> subst h <;> decide
    cases ear <;> simp [h6, hrow, hx]

/-- A key held by *any* source reads 0 through every selector that selects its half-row —
whatever else happened in the history; in particular a release by one source never releases a
key that another source still holds. -/
theorem held_position_reads_low (ke mo : Bool) (evs : List Event) (k : ZXKey) (sel : BitVec 8)
    (ear : Bool) (hsel : sel.getLsbD k.rowId = false)
    (hheld : Spec.positionHeld (Spec.Held.run {} evs) k = true) :
    (readUla (run Spec.sinclairMap (Kbd.init ke mo) evs) sel ear).getLsbD k.bitIdx = false := by
  rw [keyboard_refines_held_sets, Spec.readUla, getLsbD_ofBits _ _ k.bitIdx_lt, Spec.readBit]
  have h6 : k.bitIdx ≠ 6 := by cases k <;> decide
  simp only [h6, if_false, Bool.not_eq_false']
  unfold Spec.bitLow
  rw [List.any_eq_true]
  refine ⟨k.rowId, by simpa using k.rowId_lt, ?_⟩
  simp [hsel, Spec.cellHeld, keyAt_self, hheld]

/-- A position nobody holds reads 1 whatever is selected. -/
theorem free_position_reads_high (ke mo : Bool) (evs : List Event) (sel : BitVec 8) (ear : Bool)
    (b : Nat) (hb : b < 5)
    (hfree : ∀ r, r < 8 → Spec.cellHeld (Spec.Held.run {} evs) r b = false) :
    (readUla (run Spec.sinclairMap (Kbd.init ke mo) evs) sel ear).getLsbD b = true := by
  rw [keyboard_refines_held_sets, Spec.readUla, getLsbD_ofBits _ _ (by omega), Spec.readBit]
  have h6 : b ≠ 6 := by omega
  simp only [h6, if_false, Bool.not_eq_true']
  unfold Spec.bitLow
  rw [List.any_eq_false]
  intro r hr
  simp [hfree r (by simpa using hr)]

/-- CAPS SHIFT (half-row 0, bit 0) is down exactly while the CAPS SHIFT key itself or at least
one compound key is held: it is released only with the last held compound key. -/
theorem caps_released_with_last_compound (ke mo : Bool) (evs : List Event) (ear : Bool) :
    (readUla (run Spec.sinclairMap (Kbd.init ke mo) evs) 0xFE ear).getLsbD 0 =
      !((Spec.Held.run {} evs).keys .shift || Spec.anyCompound (Spec.Held.run {} evs)) := by
  rw [keyboard_refines_held_sets, Spec.readUla, getLsbD_ofBits _ _ (by decide), Spec.readBit]
  generalize Spec.Held.run {} evs = h
  simp only [Nat.reduceEqDiff, if_false, Spec.bitLow, range8]
  have : Spec.positionHeld h .shift = (h.keys .shift || Spec.anyCompound h) := by
    simp [Spec.positionHeld, CompoundKey.all, CompoundKey.primaryKey, JoyNum.all, SinclairKey.all,
      Spec.sinclairMap]
  simp [Spec.cellHeld, Spec.keyAt, this]

/-- Kempston joystick: the port is the OR of the held bits. -/
theorem kempston_or (mo : Bool) (evs : List Event) :
    (run Spec.sinclairMap (Kbd.init true mo) evs).kempston
      = some (Spec.kempstonPort (Spec.Held.run {} evs)) := by
  have hr := (Rel.init true mo).run evs
  have hsome : ∀ (s : Kbd) (e : Event), s.kempston.isSome → (step Spec.sinclairMap s e).kempston.isSome := by
    intro s e hs
    cases e <;> simp only [step, sendKey, sendCompound, sendSinclair, sendKempston]
    all_goals (first | (split <;> first | exact hs | simp_all) | exact hs | simp_all)
  have hk : ∀ (evs : List Event) (s : Kbd), s.kempston.isSome → (run Spec.sinclairMap s evs).kempston.isSome := by
    intro evs
    induction evs with
    | nil => intro s hs; exact hs
    | cons e es ih => intro s hs; exact ih _ (hsome s e hs)
  have := hk evs (Kbd.init true mo) (by simp [Kbd.init])
  obtain ⟨st, hst⟩ := Option.isSome_iff_exists.1 this
  rw [hst]
  congr 1
  apply BitVec.eq_of_getLsbD_eq
  intro b hb
  rw [Spec.kempstonPort, getLsbD_ofBits _ _ hb, Spec.kempstonBit, Bool.eq_iff_iff, hr.kemp st hst b]
  simp only [List.any_eq_true, Bool.and_eq_true]
  constructor
  · rintro ⟨k, hk1, hk2⟩; exact ⟨k, KempstonKey.mem_all k, hk1, hk2⟩
  · rintro ⟨k, _, hk1, hk2⟩; exact ⟨k, hk1, hk2⟩

/-- Kempston mouse: X adds and Y subtracts the host deltas modulo 256 (from the power-on value
0xFF); buttons are active-low in bits 0-3 and bits 4-7 hold the wheel counter modulo 16. -/
theorem mouse_ports (ke : Bool) (evs : List Event) :
    ∃ m, (run Spec.sinclairMap (Kbd.init ke true) evs).mouse = some m
      ∧ m.x = Spec.mouseX (Spec.Held.run {} evs)
      ∧ m.y = Spec.mouseY (Spec.Held.run {} evs)
      ∧ m.buttons = Spec.mouseButtonsPort (Spec.Held.run {} evs) := by
  have hr := (Rel.init ke true).run evs
  have hsome : ∀ (s : Kbd) (e : Event), s.mouse.isSome → (step Spec.sinclairMap s e).mouse.isSome := by
    intro s e hs
    cases e <;> simp only [step, sendKey, sendCompound, sendSinclair, sendKempston]
    all_goals (first | (split <;> first | exact hs | simp_all) | exact hs | simp_all)
  have hk : ∀ (evs : List Event) (s : Kbd), s.mouse.isSome → (run Spec.sinclairMap s evs).mouse.isSome := by
    intro evs
    induction evs with
    | nil => intro s hs; exact hs
    | cons e es ih => intro s hs; exact ih _ (hsome s e hs)
  have := hk evs (Kbd.init ke true) (by simp [Kbd.init])
  obtain ⟨m, hm⟩ := Option.isSome_iff_exists.1 this
  have hmr := hr.mouse m hm
  refine ⟨m, hm, hmr.x, hmr.y, ?_⟩
  generalize Spec.Held.run {} evs = h at hmr
  apply BitVec.eq_of_getLsbD_eq
  intro b hb
  unfold Spec.mouseButtonsPort
  simp only [BitVec.getLsbD_or, getLsbD_ofBits _ _ hb]
  by_cases h4 : b < 4
  · have hw : (BitVec.ofInt 8 (15 + h.wheel) <<< 4).getLsbD b = false := by
      simp [BitVec.getLsbD_shiftLeft, h4]
    rw [hw, Bool.or_false]
    simp only [h4, decide_true, Bool.true_and]
    rw [Bool.eq_iff_iff]
    have hb' := hmr.btn b h4
    constructor
    · intro ht
      simp only [Bool.not_eq_true', List.any_eq_false, Bool.and_eq_true, not_and]
      intro mb _ hheld hbit
      have := hb'.2 ⟨mb, hheld, hbit⟩
      rw [ht] at this; cases this
    · intro hn
      cases hx : m.buttons.getLsbD b
      · obtain ⟨mb, hheld, hbit⟩ := hb'.1 hx
        simp only [Bool.not_eq_true', List.any_eq_false, Bool.and_eq_true, not_and] at hn
        exact absurd hbit (hn mb (MouseButton.mem_all mb) hheld)
      · rfl
  · have hlow : (decide (b < 4) && !(MouseButton.all.any fun mb => h.buttons mb && mb.bit.getLsbD b)) = false := by
      simp [h4]
    rw [hlow, Bool.false_or]
    have h1 : m.buttons.getLsbD b = (m.buttons &&& (0xF0 : BitVec 8)).getLsbD b := by
      have : (0xF0#8).getLsbD b = true := by
        have : b = 4 ∨ b = 5 ∨ b = 6 ∨ b = 7 := by omega
        rcases this with h | h | h | h <;> subst h <;> decide
      simp [this]
    rw [h1, hmr.wheel]

/-- The code's Sinclair map agrees with the property everywhere except joystick 2 "down". -/
theorem sinclair_map_code_vs_spec (n : JoyNum) (k : SinclairKey) (h : ¬ (n = .second ∧ k = .down)) :
    codeSinclairMap n k = Spec.sinclairMap n k := by
  cases n <;> cases k <;> first | rfl | exact absurd ⟨rfl, rfl⟩ h

/-- … and there it differs: the code presses key 2 where the property says key 3
(known finding `C17/controls=sinc.second.down`). -/
theorem sinclair_map_code_differs :
    codeSinclairMap .second .down = .n2 ∧ Spec.sinclairMap .second .down = .n3 := ⟨rfl, rfl⟩

/-- Partial version of the main theorem for the key map *as the code has it*: every history
that does not touch joystick 2 "down". (The full statement is false for the code's map:
`code_map_violates`.) -/
theorem keyboard_refines_held_sets_code_partial (ke mo : Bool) (evs : List Event)
    (hno : ∀ e ∈ evs, ∀ p, e ≠ .sinclair .second .down p) (sel : BitVec 8) (ear : Bool) :
    readUla (run codeSinclairMap (Kbd.init ke mo) evs) sel ear
      = Spec.readUla (Spec.Held.run {} evs) sel ear := by
  have : ∀ (evs : List Event) (s : Kbd), (∀ e ∈ evs, ∀ p, e ≠ .sinclair .second .down p) →
      run codeSinclairMap s evs = run Spec.sinclairMap s evs := by
    intro evs
    induction evs with
    | nil => intro s _; rfl
    | cons e es ih =>
      intro s hno
      have he : step codeSinclairMap s e = step Spec.sinclairMap s e := by
        cases e with
        | sinclair n k p =>
          have : ¬ (n = .second ∧ k = .down) := by
            rintro ⟨rfl, rfl⟩; exact hno _ List.mem_cons_self p rfl
          simp only [step, sendSinclair, sinclair_map_code_vs_spec n k this]
        | _ => rfl
      simp only [run, List.foldl_cons] at ih ⊢
      rw [he]
      exact ih _ (fun e' he' => hno e' (List.mem_cons_of_mem _ he'))
  rw [this evs _ hno]
  exact keyboard_refines_held_sets ke mo evs sel ear

/-- The full refinement is false for the code's map: pressing joystick-2 "down" and reading
half-row 3 gives 0xBD (key 2) where the property requires 0xBB (key 3). -/
theorem code_map_violates :
    readUla (run codeSinclairMap (Kbd.init true true) [.sinclair .second .down true]) 0xF7 false
      ≠ Spec.readUla (Spec.Held.run {} [.sinclair .second .down true]) 0xF7 false := by
  decide

/-! Non-vacuity: concrete histories on which the statements say something. -/

example : readUla (run Spec.sinclairMap (Kbd.init true true)
    [.compound .arrowLeft true, .compound .delete true, .compound .arrowLeft false]) 0xFE true = 0xFE := by
  decide

example : Spec.positionHeld (Spec.Held.run {} [.key .n7 true, .sinclair .first .right true,
    .key .n7 false]) .n7 = true := by decide

example : (run Spec.sinclairMap (Kbd.init true false) [.kempston .fire true, .kempston .up true,
    .kempston .fire false]).kempston = some 0x08 := by decide

end ZxVerif.C17
