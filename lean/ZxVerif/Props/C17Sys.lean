/-
C17 (system level) — what a program does cannot disturb the input state: after any event history
and any program run on the composed machine, a keyboard read is still exactly the held-set spec.
-/
import ZxVerif.Model.Spectrum
import ZxVerif.Lemmas.Z80Closed
import ZxVerif.Props.C17
namespace ZxVerif.C17Sys
open ZxVerif.Z80 ZxVerif.Machine ZxVerif.Spectrum ZxVerif.Input

def KbdSame (z z' : ZX) : Prop := z'.kbd = z.kbd ∧ z'.earIn = z.earIn

theorem kbdSame_closed : BusClosed KbdSame where
  refl _ := ⟨rfl, rfl⟩
  trans h1 h2 := ⟨h2.1.trans h1.1, h2.2.trans h1.2⟩
  waitMreq _ _ _ := ⟨rfl, rfl⟩
  waitNoMreq _ _ _ := ⟨rfl, rfl⟩
  waitInternal _ _ := ⟨rfl, rfl⟩
  readInternal _ _ := ⟨rfl, rfl⟩
  writeInternal _ _ _ := ⟨rfl, rfl⟩
  readIo _ _ := ⟨rfl, rfl⟩
  writeIo p v z := by
    show (ZX.writeIo p v z).kbd = z.kbd ∧ (ZX.writeIo p v z).earIn = z.earIn
    unfold ZX.writeIo
    split <;> exact ⟨rfl, rfl⟩
  readInterrupt _ := ⟨rfl, rfl⟩
  reti _ := ⟨rfl, rfl⟩
  halt _ _ := ⟨rfl, rfl⟩
  pcCallback _ _ := ⟨rfl, rfl⟩

/-- no program changes the key matrices, the joystick or the mouse state -/
theorem program_keeps_input_state (n : Nat) (s : Cpu) (z : ZX) :
    (Z80.run .hw n (s, z)).2.kbd = z.kbd :=
  (kbdSame_closed.run .hw n (s, z)).1

/-- **Input ports reflect the controls held, whatever the program did in between**: on a machine
whose input state came from the event history `evs`, after any `n` instructions of any program,
a ULA read with selector `sel` returns exactly the held-set spec's value. -/
theorem keyboard_after_any_program (k : Kind) (ke mo : Bool) (evs : List Event) (n : Nat) (s : Cpu)
    (sel : BitVec 8) :
    let z0 : ZX := { ZX.new k ke mo with kbd := Input.run Spec.sinclairMap (Kbd.init ke mo) evs }
    let z := (Z80.run .hw n (s, z0)).2
    Input.readUla z.kbd sel z.earIn = Spec.readUla (Spec.Held.run {} evs) sel z0.earIn := by
  intro z0 z
  have h := kbdSame_closed.run .hw n (s, z0)
  show Input.readUla (Z80.run .hw n (s, z0)).2.kbd sel (Z80.run .hw n (s, z0)).2.earIn = _
  rw [h.1, h.2]
  exact C17.keyboard_refines_held_sets ke mo evs sel z0.earIn

end ZxVerif.C17Sys
