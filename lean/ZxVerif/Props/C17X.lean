/-
C17 — theorems over the key tables *extracted from the Rust sources on every run*
(tools/extract.py → ZxVerif/Extracted/Keys.lean, Sinclair.lean).
-/
import ZxVerif.Extracted.Keys
import ZxVerif.Extracted.Sinclair
import ZxVerif.Spec.Input
set_option linter.constructorNameAsVariable false
namespace ZxVerif.C17X
open ZxVerif.Input

/-- `ZXKey::mask` and `ZXKey::row_id` in keys.rs are the model's tables -/
theorem key_tables_extracted (k : ZXKey) :
    Extracted.keyMask k = k.mask ∧ Extracted.keyRow k = k.rowId := by
  cases k <;> decide

/-- … and they realise the 8×5 Spectrum keyboard matrix of the spec -/
theorem key_matrix_extracted (k : ZXKey) :
    ∃ b, b < 5 ∧ Extracted.keyMask k = 1#8 <<< b ∧ Spec.keyAt (Extracted.keyRow k) b = some k := by
  cases k <;> first
    | exact ⟨0, by decide, by decide, rfl⟩ | exact ⟨1, by decide, by decide, rfl⟩
    | exact ⟨2, by decide, by decide, rfl⟩ | exact ⟨3, by decide, by decide, rfl⟩
    | exact ⟨4, by decide, by decide, rfl⟩

/-- the compound-key tables are the model's -/
theorem compound_tables_extracted (c : CompoundKey) :
    Extracted.compoundPrimary c = c.primaryKey ∧ Extracted.compoundMask c = c.modifierMask := by
  cases c <;> decide

/-- `sinclair_event_to_zx_key` as it stands in the source is the map the model runs … -/
theorem sinclair_map_extracted (n : JoyNum) (k : SinclairKey) :
    Extracted.sinclairMap n k = codeSinclairMap n k := by
  cases n <;> cases k <;> rfl

/-- … and it is the property's map except at (joystick 2, down) — the open known finding.
A change of any other entry breaks this theorem; a repair of this one keeps it true (and breaks
`sinclair_map_extracted`, telling the maintainer to update the model). -/
theorem sinclair_map_extracted_vs_spec (n : JoyNum) (k : SinclairKey) :
    Extracted.sinclairMap n k = Spec.sinclairMap n k ∨ (n = .second ∧ k = .down) := by
  cases n <;> cases k <;> first | exact Or.inl rfl | exact Or.inr ⟨rfl, rfl⟩

end ZxVerif.C17X
