/-
C17 — theorems over the input *handlers* translated from the Rust source on every run (tools/extract.py,
table InputHandlers → ZxVerif/Extracted/InputHandlers.lean): `send_key`, `send_sinclair_key`,
`send_compound_key` (with its `&mut` alias chosen by `modifier_key()`), `send_mouse_button` / `_wheel` /
`_pos_diff` and the half-row scan of the ULA branch of `read_io` (controller.rs), `KempstonJoy::key` / `read`
and the `KempstonKey` discriminants (joy/kempston.rs), `KempstonMouse::send_button` / `send_wheel` /
`send_pos_diff`, its constants, defaults and discriminants (mouse/kempston.rs), the `send_*` entry points of
emulator/mod.rs, the input fields of `ZXController::new` — statement by statement, calling the *extracted*
key tables (Keys, Sinclair; Props/C17X.lean).

What the source text says now is what the hand-written model `Model/Input.lean` runs: every translated
handler equals the model's step function for every state and every event, the translated read scan equals
the model's `readUla` for every port address (hence all 256 selectors), the reset state is the model's. So
the theorems of Props/C17.lean (the AND-of-held-sources rule, Kempston OR, mouse counters) are theorems about
the statements as they stand in the source; a comparison, a mask, a shift, the order of two stores or a
swapped argument changed there breaks a theorem here.
-/
import ZxVerif.Extracted.InputHandlers
import ZxVerif.Props.C17
import ZxVerif.Props.C17X
set_option linter.constructorNameAsVariable false
namespace ZxVerif.C17Y
open ZxVerif.Input
open ZxVerif.Extracted

/-! ### the source's state seen as the model's -/

/-- `KempstonMouse` as the model's mouse -/
def absMouse (m : InputHandlers.Mouse) : Mouse :=
  { buttons := m.buttons_port, x := m.x_pos_port, y := m.y_pos_port }

/-- the input fields of `ZXController` as the model's `Kbd` (the three matrices and the modifier mask are
taken over as they are, the joystick is its state byte) -/
def absCtl (s : InputHandlers.Ctl) : Kbd :=
  { keyboard := s.keyboard, extended := s.keyboard_extended, sinclair := s.keyboard_sinclair,
    capsMask := s.caps_shift_modifier_mask, kempston := s.kempston.map (·.state),
    mouse := s.mouse.map absMouse }

/-- the model's wheel event (`up : Bool`) as the source's `KempstonMouseWheelDirection` -/
def dirOf (up : Bool) : InputHandlers.WheelDir := if up then .Up else .Down

/-- the source's entry point for each event of the model (the `Emulator::send_*` functions) -/
def srcStep (s : InputHandlers.Ctl) : Event → InputHandlers.Ctl
  | .key k p => InputHandlers.emuSendKey s k p
  | .compound c p => InputHandlers.emuSendCompoundKey s c p
  | .sinclair n k p => InputHandlers.emuSendSinclairKey s n k p
  | .kempston k p => InputHandlers.sendKempstonKey s k p
  | .mouseButton b p => InputHandlers.emuSendMouseButton s b p
  | .mouseWheel up => InputHandlers.emuSendMouseWheel s (dirOf up)
  | .mouseMove dx dy => InputHandlers.emuSendMousePosDiff s dx dy

/-- an event history through the source's entry points -/
def srcRun (s : InputHandlers.Ctl) (evs : List Event) : InputHandlers.Ctl := evs.foldl srcStep s

/-! ### constants, discriminants, reset state -/

/-- **Port-bit tables.** `KempstonKey as u8` (right, left, down, up, fire = bits 0-4, the three extra
buttons bits 5-7) and `KempstonMouseButton as u8` (left, right, middle, additional = bits 0-3) are the
model's; the wheel directions are +1 / −1 as `i8`; the wheel counter is the high nibble
(`WHEEL_MASK` = 0xF0, `WHEEL_SHIFT` = 4); every compound key's modifier is CAPS SHIFT. -/
theorem bit_tables_extracted :
    (∀ k, InputHandlers.kempstonBit k = k.bit) ∧ (∀ b, InputHandlers.mouseButtonBit b = b.bit) ∧
    InputHandlers.wheelDirVal .Up = 1 ∧ InputHandlers.wheelDirVal .Down = 0xFF ∧
    InputHandlers.WHEEL_MASK = 0xF0 ∧ InputHandlers.WHEEL_SHIFT = 4 ∧
    (∀ c, InputHandlers.compoundModifier c = c.modifierKey) := by
  refine ⟨?_, ?_, rfl, rfl, rfl, rfl, ?_⟩
  · intro k; cases k <;> rfl
  · intro b; cases b <;> rfl
  · intro c; cases c <;> rfl

/-- **Reset state.** The input fields `ZXController::new` builds (all three matrices 0xFF = nothing held,
modifier mask 0, joystick state 0 and mouse ports 0xFF / 0xFF / 0xFF when the devices are enabled, absent
otherwise) are the model's `Kbd.init`, for the four device configurations. -/
theorem new_is_model (ke mo : Bool) : absCtl (InputHandlers.newCtl ke mo) = Kbd.init ke mo := by
  cases ke <;> cases mo <;> rfl

/-! ### the handlers, one by one -/

/-- the extracted tables the handlers call are the model's (Props/C17X.lean) -/
theorem tables (k : ZXKey) : keyMask k = k.mask ∧ keyRow k = k.rowId := C17X.key_tables_extracted k

/-- **`send_key`, statement by statement = the model's `sendKey`**, for every state, key and direction:
press clears the key's mask bit in its row of `keyboard`, release sets it; nothing else changes. -/
theorem send_key_is_model (s : InputHandlers.Ctl) (k : ZXKey) (p : Bool) :
    absCtl (InputHandlers.sendKey s k p) = sendKey (absCtl s) k p := by
  unfold InputHandlers.sendKey sendKey
  rw [(tables k).1, (tables k).2]
  cases p <;> rfl

/-- **`send_sinclair_key` = the model's `sendSinclair`** run with the key map as the code has it (the
arguments reach `sinclair_event_to_zx_key` in the right order), on the `keyboard_sinclair` matrix only. -/
theorem send_sinclair_is_model (s : InputHandlers.Ctl) (n : JoyNum) (k : SinclairKey) (p : Bool) :
    absCtl (InputHandlers.sendSinclairKey s n k p) = sendSinclair codeSinclairMap (absCtl s) n k p := by
  unfold InputHandlers.sendSinclairKey sendSinclair InputHandlers.sinclairEventToZxKey
  rw [C17X.sinclair_map_extracted]
  simp only [(tables _).1, (tables _).2]
  cases p <;> rfl

/-- **`send_compound_key` = the model's `sendCompound`**, for every state, compound key and direction. The
`&mut` alias always denotes `caps_shift_modifier_mask` (every modifier is CAPS SHIFT; the dummy local is
never the target). Press: the key's bit is OR-ed into the mask, then the primary key and then CAPS SHIFT are
pressed in `keyboard_extended`. Release: the bit is cleared, CAPS SHIFT is released **only if the mask has
become 0**, then the primary key is released. -/
theorem send_compound_is_model (s : InputHandlers.Ctl) (c : CompoundKey) (p : Bool) :
    absCtl (InputHandlers.sendCompoundKey s c p) = sendCompound (absCtl s) c p := by
  unfold InputHandlers.sendCompoundKey sendCompound
  have hm : InputHandlers.compoundModifier c = ZXKey.shift := by cases c <;> rfl
  simp only [hm, (tables _).1, (tables _).2, (C17X.compound_tables_extracted c).1,
    (C17X.compound_tables_extracted c).2, CompoundKey.modifierKey]
  cases p
  · by_cases h0 : (absCtl s).capsMask &&& ~~~c.modifierMask = 0
    · have hb : ((s.caps_shift_modifier_mask &&& ~~~c.modifierMask) == 0) = true := by
        have h1 : s.caps_shift_modifier_mask &&& ~~~c.modifierMask = 0 := h0
        rw [h1]; rfl
      simp only [Bool.false_eq_true, if_false, beq_self_eq_true, if_true, hb, if_pos h0]
      rfl
    · have hb : ((s.caps_shift_modifier_mask &&& ~~~c.modifierMask) == 0) = false := by
        have h1 : ¬ s.caps_shift_modifier_mask &&& ~~~c.modifierMask = 0 := h0
        simpa using h1
      simp only [Bool.false_eq_true, if_false, beq_self_eq_true, if_true, hb, if_neg h0]
      rfl
  · rfl

/-- **`Emulator::send_kempston_key` / `KempstonJoy::key` = the model's `sendKempston`**: press ORs the key's
port bit into the state byte, release clears it; without a joystick nothing happens. -/
theorem send_kempston_is_model (s : InputHandlers.Ctl) (k : KempstonKey) (p : Bool) :
    absCtl (InputHandlers.sendKempstonKey s k p) = sendKempston (absCtl s) k p := by
  unfold InputHandlers.sendKempstonKey sendKempston InputHandlers.Joy.key
  rw [bit_tables_extracted.1 k]
  cases hk : s.kempston <;> cases p <;> simp [absCtl, hk]

/-- **`KempstonMouse::send_button` = the model's**: buttons are active-low — press clears the bit. -/
theorem mouse_button_is_model (m : InputHandlers.Mouse) (b : MouseButton) (p : Bool) :
    absMouse (m.sendButton b p) = (absMouse m).sendButton b p := by
  unfold InputHandlers.Mouse.sendButton Mouse.sendButton
  rw [bit_tables_extracted.2.1 b]
  cases p <;> rfl

/-- **`KempstonMouse::send_wheel` = the model's**: the high nibble is taken out, ±1 is added as `i8`, the
sum is put back shifted by 4 and masked — so the counter wraps modulo 16 and the buttons stay. -/
theorem mouse_wheel_is_model (m : InputHandlers.Mouse) (up : Bool) :
    absMouse (m.sendWheel (dirOf up)) = (absMouse m).sendWheel up := by
  cases up <;> rfl

/-- **`KempstonMouse::send_pos_diff` = the model's**: X := (X as i16 + dx as i16) as u8 (zero extension of
the port, sign extension of the delta, truncation: wrapping modulo 256), Y := (Y − dy) likewise — X adds,
Y subtracts, `x` goes to X and `y` to Y. -/
theorem mouse_move_is_model (m : InputHandlers.Mouse) (dx dy : BitVec 8) :
    absMouse (m.sendPosDiff dx dy) = (absMouse m).sendPosDiff dx dy := rfl

/-- the three mouse entry points of the controller run the mouse's handler when there is a mouse and do
nothing otherwise — as the model's `step` does -/
theorem mouse_entry_is_model (s : InputHandlers.Ctl) :
    (∀ b p, absCtl (InputHandlers.sendMouseButton s b p) = step codeSinclairMap (absCtl s) (.mouseButton b p)) ∧
    (∀ up, absCtl (InputHandlers.sendMouseWheel s (dirOf up)) = step codeSinclairMap (absCtl s) (.mouseWheel up)) ∧
    (∀ dx dy, absCtl (InputHandlers.sendMousePosDiff s dx dy) = step codeSinclairMap (absCtl s) (.mouseMove dx dy)) := by
  refine ⟨?_, ?_, ?_⟩
  · intro b p
    unfold InputHandlers.sendMouseButton step
    cases hm : s.mouse <;> simp [absCtl, hm, mouse_button_is_model]
  · intro up
    unfold InputHandlers.sendMouseWheel step
    cases hm : s.mouse <;> simp [absCtl, hm, mouse_wheel_is_model]
  · intro dx dy
    unfold InputHandlers.sendMousePosDiff step
    cases hm : s.mouse <;> simp [absCtl, hm, mouse_move_is_model]

/-! ### every event, every history -/

/-- **Every event handler of the source equals the model's step function, for every state and every
event** (through the `Emulator::send_*` entry points, which forward their arguments in order). -/
theorem step_is_model (s : InputHandlers.Ctl) (e : Event) :
    absCtl (srcStep s e) = step codeSinclairMap (absCtl s) e := by
  cases e with
  | key k p => exact send_key_is_model s k p
  | compound c p => exact send_compound_is_model s c p
  | sinclair n k p => exact send_sinclair_is_model s n k p
  | kempston k p => exact send_kempston_is_model s k p
  | mouseButton b p => exact (mouse_entry_is_model s).1 b p
  | mouseWheel up => exact (mouse_entry_is_model s).2.1 up
  | mouseMove dx dy => exact (mouse_entry_is_model s).2.2 dx dy

/-- … hence every event history: the source's handlers folded over `evs` from any state give the
model's `run` -/
theorem run_is_model (s : InputHandlers.Ctl) (evs : List Event) :
    absCtl (srcRun s evs) = run codeSinclairMap (absCtl s) evs := by
  induction evs generalizing s with
  | nil => rfl
  | cons e es ih =>
    show absCtl (srcRun (srcStep s e) es) = run codeSinclairMap (step codeSinclairMap (absCtl s) e) es
    rw [ih, step_is_model]

/-! ### the read scan -/

/-- the source's row test `((h >> n) & 0x01) == 0` is "bit `n` of the selector is 0" -/
theorem row_test (h : BitVec 8) (n : Nat) (hn : n < 8) : (((h >>> n) &&& 1) == 0) = !h.getLsbD n := by
  have : n = 0 ∨ n = 1 ∨ n = 2 ∨ n = 3 ∨ n = 4 ∨ n = 5 ∨ n = 6 ∨ n = 7 := by omega
  rcases this with h' | h' | h' | h' | h' | h' | h' | h' <;> subst h' <;> revert h <;> decide

/-- **The read scan of `read_io` = the model's `readUla`, for every port address** (so for all 256
selector bytes, whatever the low byte): starting from 0xFF, for n = 0…7 in turn the byte
`keyboard[n] & keyboard_extended[n] & keyboard_sinclair[n]` is AND-ed in exactly when bit n of the high
address byte is 0; bit 6 is then flipped exactly when the tape level is low. -/
theorem read_ula_is_model (s : InputHandlers.Ctl) (port : BitVec 16) (ear : Bool) :
    InputHandlers.readUla s ear port = readUla (absCtl s) ((port >>> 8).setWidth 8) ear := by
  unfold InputHandlers.readUla readUla readRows
  rw [range8]
  simp only [List.foldl, row_test _ _ (by decide : (0 : Nat) < 8), row_test _ _ (by decide : (1 : Nat) < 8),
    row_test _ _ (by decide : (2 : Nat) < 8), row_test _ _ (by decide : (3 : Nat) < 8),
    row_test _ _ (by decide : (4 : Nat) < 8), row_test _ _ (by decide : (5 : Nat) < 8),
    row_test _ _ (by decide : (6 : Nat) < 8), row_test _ _ (by decide : (7 : Nat) < 8), absCtl]

/-- the high byte of `sel·256 + lo` is `sel` -/
theorem high_byte (sel lo : BitVec 8) :
    ((((sel.setWidth 16) <<< 8 ||| lo.setWidth 16) >>> 8).setWidth 8 : BitVec 8) = sel := by
  bv_decide

/-- **All 256 selectors**: with selector byte `sel` on A8–A15 and any low address byte the translated scan
returns the model's `readUla … sel`. -/
theorem read_ula_all_selectors (s : InputHandlers.Ctl) (sel lo : BitVec 8) (ear : Bool) :
    InputHandlers.readUla s ear ((sel.setWidth 16) <<< 8 ||| lo.setWidth 16) = readUla (absCtl s) sel ear := by
  rw [read_ula_is_model, high_byte]

/-- `KempstonJoy::read` and the three mouse port fields are what the model's `Kbd` holds -/
theorem port_values_are_model (s : InputHandlers.Ctl) :
    s.kempston.map InputHandlers.Joy.read = (absCtl s).kempston ∧
    s.mouse.map (·.buttons_port) = (absCtl s).mouse.map (·.buttons) ∧
    s.mouse.map (·.x_pos_port) = (absCtl s).mouse.map (·.x) ∧
    s.mouse.map (·.y_pos_port) = (absCtl s).mouse.map (·.y) := by
  refine ⟨rfl, ?_, ?_, ?_⟩ <;> (cases h : s.mouse <;> simp [absCtl, h, absMouse])

/-! ### hence the property, about the source text -/

/-- histories that avoid joystick 2 "down" (the open known finding) run alike under both key maps -/
theorem run_code_eq_spec (evs : List Event) (hno : ∀ e ∈ evs, ∀ p, e ≠ .sinclair .second .down p) (s : Kbd) :
    run codeSinclairMap s evs = run Spec.sinclairMap s evs := by
  induction evs generalizing s with
  | nil => rfl
  | cons e es ih =>
    have he : step codeSinclairMap s e = step Spec.sinclairMap s e := by
      cases e with
      | sinclair n k p =>
        have : ¬ (n = .second ∧ k = .down) := by
          rintro ⟨rfl, rfl⟩; exact hno _ List.mem_cons_self p rfl
        simp only [step, sendSinclair, C17.sinclair_map_code_vs_spec n k this]
      | _ => rfl
    show run codeSinclairMap (step codeSinclairMap s e) es = run Spec.sinclairMap (step Spec.sinclairMap s e) es
    rw [he]
    exact ih (fun e' he' => hno e' (List.mem_cons_of_mem _ he')) _

/-- **The AND-of-held-sources rule, about the translated source.** From the reset state `ZXController::new`
builds (any device configuration), after any event history through the source's handlers (not touching
joystick 2 "down", the open known finding), the translated ULA branch of `read_io` returns for every port
address exactly the property's value: a half-row bit reads 0 iff some source — key, compound key, Sinclair
joystick — holds a key at that position, selected rows are AND-ed, bit 6 is EAR, bits 5 and 7 read 1. -/
theorem source_refines_held_sets (ke mo : Bool) (evs : List Event)
    (hno : ∀ e ∈ evs, ∀ p, e ≠ .sinclair .second .down p) (port : BitVec 16) (ear : Bool) :
    InputHandlers.readUla (srcRun (InputHandlers.newCtl ke mo) evs) ear port
      = Spec.readUla (Spec.Held.run {} evs) ((port >>> 8).setWidth 8) ear := by
  rw [read_ula_is_model, run_is_model, new_is_model]
  exact C17.keyboard_refines_held_sets_code_partial ke mo evs hno _ ear

/-- **Kempston joystick and mouse ports, about the translated source**: after any such history the value
`KempstonJoy::read` returns is the OR of the held bits, the mouse's X / Y port fields are 255 ± the summed
deltas modulo 256 and the buttons port holds the active-low buttons and the wheel counter modulo 16. -/
theorem source_joystick_and_mouse (evs : List Event)
    (hno : ∀ e ∈ evs, ∀ p, e ≠ .sinclair .second .down p) :
    (∀ mo, (srcRun (InputHandlers.newCtl true mo) evs).kempston.map InputHandlers.Joy.read
        = some (Spec.kempstonPort (Spec.Held.run {} evs))) ∧
    (∀ ke, ∃ m, (srcRun (InputHandlers.newCtl ke true) evs).mouse = some m ∧
        m.x_pos_port = Spec.mouseX (Spec.Held.run {} evs) ∧
        m.y_pos_port = Spec.mouseY (Spec.Held.run {} evs) ∧
        m.buttons_port = Spec.mouseButtonsPort (Spec.Held.run {} evs)) := by
  constructor
  · intro mo
    rw [(port_values_are_model _).1, run_is_model, new_is_model, run_code_eq_spec evs hno]
    exact C17.kempston_or mo evs
  · intro ke
    obtain ⟨m, hm, hx, hy, hb⟩ := C17.mouse_ports ke evs
    have h := run_is_model (InputHandlers.newCtl ke true) evs
    rw [new_is_model, run_code_eq_spec evs hno] at h
    have h2 : (absCtl (srcRun (InputHandlers.newCtl ke true) evs)).mouse = some m := by rw [h]; exact hm
    cases hs : (srcRun (InputHandlers.newCtl ke true) evs).mouse with
    | none => simp [absCtl, hs] at h2
    | some m' =>
      simp only [absCtl, hs, Option.map_some, Option.some.injEq] at h2
      refine ⟨m', rfl, ?_, ?_, ?_⟩
      · rw [← hx, ← h2]; rfl
      · rw [← hy, ← h2]; rfl
      · rw [← hb, ← h2]; rfl

/-! Non-vacuity: a concrete history through the translated handlers. -/

example : InputHandlers.readUla (srcRun (InputHandlers.newCtl true true)
    [.compound .arrowLeft true, .compound .delete true, .compound .arrowLeft false]) true 0xFEFE = 0xFE := by
  decide

example : InputHandlers.readUla (srcRun (InputHandlers.newCtl true true)
    [.key .n7 true, .sinclair .first .right true, .key .n7 false]) false 0xEFFE = 0xB7 := by
  decide

end ZxVerif.C17Y
